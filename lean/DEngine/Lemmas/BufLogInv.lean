import DEngine.Lemmas.BufLogIdx
import DEngine.Lemmas.BufLogSeg
/-!
  The invariant `Buf.Inv` of the in-memory part of `BufferedRaftLog`, the abstraction `Buf.abs` to the plain log,
  the agreement of every query with the plain log under the invariant, and preservation of the invariant (with the
  matching plain-log step) by `insert_to_memory`, `remove_range` (suffix and prefix), the conflict branch, purge, reset.
-/
namespace DEngine.BufLog

/-- abstraction: the plain log the buffered log stands for -/
def Buf.abs (b : Buf) : Plain := { anchorI := b.purgedI, anchorT := b.purgedT, ents := b.mem }

structure Buf.Inv (b : Buf) : Prop where
  /-- the entries are a gap-free run -/
  contig : contigFrom (firstIdx b.mem) b.mem = true
  /-- terms are ≥ 1 (0 is the "empty" sentinel of `TermSegments`) -/
  pos : ∀ e ∈ b.mem, 0 < e.term
  /-- the run starts right above the purge boundary -/
  anchor : b.mem ≠ [] → firstIdx b.mem = b.purgedI + 1
  minOk : b.minIdx = firstIdx b.mem
  maxOk : b.maxIdx = lastIdx b.mem
  tf : TfExact b.mem b.tfirst
  tl : TlExact b.mem b.tlast
  seg : SegInv b.mem b.segs

theorem Buf.Inv.init : ({} : Buf).Inv :=
  { contig := rfl, pos := by simp, anchor := by simp, minOk := rfl, maxOk := rfl,
    tf := fun _ => rfl, tl := fun _ => rfl, seg := SegInv.empty }

namespace Buf.Inv

variable {b : Buf}

theorem mem_range (h : b.Inv) {e : Entry} (he : e ∈ b.mem) : b.minIdx ≤ e.index ∧ e.index ≤ b.maxIdx := by
  have hne : b.mem ≠ [] := List.ne_nil_of_mem he
  have h1 := contigFrom_mem h.contig he
  have h2 := lastIdx_contig h.contig hne
  rw [h.minOk, h.maxOk]; omega

theorem max_pos (h : b.Inv) (hne : b.mem ≠ []) : 0 < b.maxIdx := by
  have h1 := firstIdx_le_lastIdx h.contig hne
  have h2 := h.anchor hne
  rw [h.maxOk]; omega

theorem max_zero (h : b.Inv) (he : b.mem = []) : b.maxIdx = 0 := by rw [h.maxOk, he]; rfl

theorem exists_of_range (h : b.Inv) {i : Nat} (h1 : b.minIdx ≤ i) (h2 : i ≤ b.maxIdx) (h0 : b.maxIdx ≠ 0) :
    ∃ e ∈ b.mem, e.index = i := by
  have hne : b.mem ≠ [] := by
    intro he; exact h0 (h.max_zero he)
  have hl := lastIdx_contig h.contig hne
  rw [h.minOk] at h1; rw [h.maxOk] at h2
  exact exists_mem_of_range h.contig h1 (by omega)

/-! ### every query agrees with the plain log -/

theorem entryTerm_eq (h : b.Inv) (i : Nat) : b.entryTerm i = b.abs.termAt i := by
  unfold Buf.entryTerm Plain.termAt Plain.entTerm Buf.abs
  by_cases hr : b.maxIdx = 0 ∨ i < b.minIdx ∨ b.maxIdx < i
  · simp only [hr, if_true]
    have : lookup b.mem i = none := by
      by_cases hne : b.mem = []
      · simp [hne, lookup]
      · apply lookup_eq_none_of_not_range h.contig
        have hl := lastIdx_contig h.contig hne
        have := h.max_pos hne
        rw [h.minOk, h.maxOk] at hr
        rw [h.maxOk] at this
        omega
    simp [this]
  · simp only [hr, if_false]
    have hr' : b.maxIdx ≠ 0 ∧ b.minIdx ≤ i ∧ i ≤ b.maxIdx := by omega
    obtain ⟨e, he, hei⟩ := h.exists_of_range hr'.2.1 hr'.2.2 hr'.1
    have hl : lookup b.mem i = some e := by rw [← hei]; exact lookup_of_mem_contig h.contig he
    rcases h.seg.get he with hg | hg
    · rw [hei] at hg; simp [hg, hl]
    · rw [hei] at hg; simp [hg, hl]

theorem lastLogId_eq (h : b.Inv) : b.lastLogId = b.abs.lastLogId := by
  unfold Buf.lastLogId Plain.lastLogId Buf.abs Buf.entry
  by_cases hne : b.mem = []
  · simp [h.max_zero hne, hne]
  · have hp := h.max_pos hne
    obtain ⟨l, hl⟩ : ∃ l, b.mem.getLast? = some l := by
      cases hg : b.mem.getLast? with
      | none => exact absurd (List.getLast?_eq_none_iff.mp hg) hne
      | some l => exact ⟨l, rfl⟩
    have hlm : l ∈ b.mem := List.mem_of_getLast? hl
    have : b.maxIdx = l.index := by rw [h.maxOk]; simp [lastIdx, hl]
    have hlk : lookup b.mem b.maxIdx = some l := by rw [this]; exact lookup_of_mem_contig h.contig hlm
    simp [hp, hlk, hl]

theorem lastEntry_eq (h : b.Inv) : b.lastEntry = b.mem.getLast? := by
  unfold Buf.lastEntry Buf.entry
  by_cases hne : b.mem = []
  · simp [h.max_zero hne, hne]
  · have hp := h.max_pos hne
    obtain ⟨l, hl⟩ : ∃ l, b.mem.getLast? = some l := by
      cases hg : b.mem.getLast? with
      | none => exact absurd (List.getLast?_eq_none_iff.mp hg) hne
      | some l => exact ⟨l, rfl⟩
    have hlm : l ∈ b.mem := List.mem_of_getLast? hl
    have : b.maxIdx = l.index := by rw [h.maxOk]; simp [lastIdx, hl]
    have hlk : lookup b.mem b.maxIdx = some l := by rw [this]; exact lookup_of_mem_contig h.contig hlm
    simp [hp, hlk, hl]

theorem first_eq (h : b.Inv) : b.minIdx = b.abs.first := h.minOk
theorem last_eq (h : b.Inv) : b.maxIdx = b.abs.last := h.maxOk
theorem firstIdxForTerm_eq (h : b.Inv) (t : Nat) : b.firstIdxForTerm t = b.abs.firstIdxForTerm t := h.tf t
theorem lastIdxForTerm_eq (h : b.Inv) (t : Nat) : b.lastIdxForTerm t = b.abs.lastIdxForTerm t := h.tl t

/-! ### `insert_to_memory` at the tail -/

theorem insertToMemory (h : b.Inv) {k : Nat} {es : List Entry} (hc : contigFrom k es = true)
    (hpos : termsPos es = true) (habove : ∀ x ∈ b.mem, x.index < k)
    (hnext : b.mem ≠ [] → k = lastIdx b.mem + 1) (hanchor : b.mem = [] → k = b.purgedI + 1) :
    (b.insertToMemory es).Inv ∧ (b.insertToMemory es).abs = b.abs.append es ∧
    (b.insertToMemory es).durable = b.durable := by
  have hmem : insertAll b.mem es = b.mem ++ es := insertAll_above habove hc
  have hidx := exact_append h.tf h.tl habove hc
  have hseg := h.seg.onAppend h.pos habove hc hpos
  have hposes : ∀ e ∈ es, 0 < e.term := by
    intro e he; simpa [termsPos] using (List.all_eq_true.mp hpos) e he
  refine ⟨?_, ?_, ?_⟩
  · -- invariant
    by_cases hes : es = []
    · subst hes
      have : b.insertToMemory [] = { b with nextId := if b.nextId ≤ 0 then 0 + 1 else b.nextId } := by
        simp [Buf.insertToMemory, insertAll, updTermIdx, Segs.onAppend]
      rw [this]
      exact { contig := h.contig, pos := h.pos, anchor := h.anchor, minOk := h.minOk, maxOk := h.maxOk,
              tf := h.tf, tl := h.tl, seg := h.seg }
    · have hfirst_es : firstIdx es = k := firstIdx_contig hc hes
      have hcontig : contigFrom (firstIdx (b.mem ++ es)) (b.mem ++ es) = true := by
        by_cases hne : b.mem = []
        · simp [hne, hfirst_es, hc]
        · rw [firstIdx_append hne, contigFrom_append, h.contig]
          have := lastIdx_contig h.contig hne
          have hk := hnext hne
          have e : firstIdx b.mem + b.mem.length = k := by omega
          simp [e, hc]
      obtain ⟨f, hf⟩ : ∃ f, es.head? = some f := by
        cases es with
        | nil => exact absurd rfl hes
        | cons x xs => exact ⟨x, rfl⟩
      obtain ⟨l, hl⟩ : ∃ l, es.getLast? = some l := by
        cases hg : es.getLast? with
        | none => exact absurd (List.getLast?_eq_none_iff.mp hg) hes
        | some l => exact ⟨l, rfl⟩
      have hfk : f.index = k := by
        have : firstIdx es = f.index := by simp [firstIdx, hf]
        omega
      have hlk : k ≤ l.index := (contigFrom_mem hc (List.mem_of_getLast? hl)).1
      have hlast : lastIdx (b.mem ++ es) = l.index := by rw [lastIdx_append hes]; simp [lastIdx, hl]
      refine { contig := ?_, pos := ?_, anchor := ?_, minOk := ?_, maxOk := ?_, tf := ?_, tl := ?_, seg := ?_ }
      · simpa [Buf.insertToMemory, hmem] using hcontig
      · simp only [Buf.insertToMemory, hmem]
        intro e he
        rcases List.mem_append.mp he with he | he
        · exact h.pos e he
        · exact hposes e he
      · simp only [Buf.insertToMemory, hmem]
        intro _
        by_cases hne : b.mem = []
        · simp [hne, hfirst_es, hanchor hne]
        · rw [firstIdx_append hne]; exact h.anchor hne
      · simp only [Buf.insertToMemory, hmem, hf]
        by_cases hne : b.mem = []
        · have : b.minIdx = 0 := by rw [h.minOk, hne]; rfl
          simp [this, hne, hfirst_es, hfk]
        · rw [firstIdx_append hne]
          have h1 := h.anchor hne
          have h2 := firstIdx_le_lastIdx h.contig hne
          have h3 := hnext hne
          rw [h.minOk]
          have : ¬ (f.index < firstIdx b.mem ∨ firstIdx b.mem = 0) := by omega
          simp [this]
      · simp only [Buf.insertToMemory, hmem, hl, hlast]
        rw [h.maxOk]
        by_cases hne : b.mem = []
        · by_cases hl0 : 0 < l.index
          · simp [hne, hl0]
          · have : l.index = 0 := by omega
            simp [hne, this]
        · have h3 := hnext hne
          have : lastIdx b.mem < l.index := by omega
          simp [this]
      · simpa [Buf.insertToMemory, hmem] using hidx.1
      · simpa [Buf.insertToMemory, hmem] using hidx.2
      · simpa [Buf.insertToMemory, hmem] using hseg
  · simp [Buf.insertToMemory, Buf.abs, Plain.append, hmem]
  · simp [Buf.insertToMemory]

/-! ### `remove_range` -/

/-- generic part: whatever is removed, the two term indexes stay exact and min/max are recomputed -/
theorem removeBy_fields (rm : Entry → Bool) :
    (b.removeBy rm).mem = b.mem.filter (fun e => !rm e) ∧ (b.removeBy rm).segs = b.segs ∧
    (b.removeBy rm).purgedI = b.purgedI ∧ (b.removeBy rm).purgedT = b.purgedT ∧
    (b.removeBy rm).minIdx = firstIdx (b.mem.filter (fun e => !rm e)) ∧
    (b.removeBy rm).maxIdx = lastIdx (b.mem.filter (fun e => !rm e)) ∧
    (b.removeBy rm).durable = b.durable := by
  simp [Buf.removeBy]

/-- truncation of a suffix: `remove_range(d..=u64::MAX)` -/
theorem removeFrom (h : b.Inv) (d : Nat) :
    (b.removeFrom d).Inv ∧ (b.removeFrom d).mem = b.mem.filter (fun e => decide (e.index < d)) ∧
    (b.removeFrom d).segs = b.segs ∧ (b.removeFrom d).purgedI = b.purgedI ∧ (b.removeFrom d).purgedT = b.purgedT ∧
    (b.removeFrom d).durable = b.durable := by
  have hf := removeBy_fields (b := b) (fun e => decide (d ≤ e.index))
  have hfil : b.mem.filter (fun e => !decide (d ≤ e.index)) = b.mem.filter (fun e => decide (e.index < d)) := by
    apply List.filter_congr
    intro x _
    by_cases hx : d ≤ x.index
    · have : ¬ x.index < d := by omega
      simp [hx, this]
    · have : x.index < d := by omega
      simp [hx, this]
  have hex := exact_removeBy h.tf h.tl (fun e => decide (d ≤ e.index))
  unfold Buf.removeFrom
  rw [hfil] at hf
  have htake := filter_lt_contig h.contig d
  refine ⟨?_, hf.1, hf.2.1, hf.2.2.1, hf.2.2.2.1, hf.2.2.2.2.2.2⟩
  refine { contig := ?_, pos := ?_, anchor := ?_, minOk := ?_, maxOk := ?_, tf := hex.1, tl := hex.2, seg := ?_ }
  · rw [hf.1, htake]
    by_cases hne : b.mem.take (d - firstIdx b.mem) = []
    · simp [hne]
    · have hn : 0 < d - firstIdx b.mem := by
        rcases Nat.eq_zero_or_pos (d - firstIdx b.mem) with h0 | h0
        · simp [h0] at hne
        · exact h0
      rw [firstIdx_take hn]; exact contigFrom_take h.contig _
  · rw [hf.1]; intro e he; exact h.pos e (List.mem_filter.mp he).1
  · rw [hf.1, hf.2.2.1, htake]
    intro hne
    have hbne : b.mem ≠ [] := by intro hm; simp [hm] at hne
    have hn : 0 < d - firstIdx b.mem := by
      rcases Nat.eq_zero_or_pos (d - firstIdx b.mem) with h0 | h0
      · simp [h0] at hne
      · exact h0
    rw [firstIdx_take hn]; exact h.anchor hbne
  · rw [hf.2.2.2.2.1, hf.1]
  · rw [hf.2.2.2.2.2.1, hf.1]
  · rw [hf.1, hf.2.1]; exact h.seg.sub (fun e he => (List.mem_filter.mp he).1)

/-- removal of a prefix: `remove_range(0..=ci)` -/
theorem removeRange_prefix (h : b.Inv) (ci : Nat) :
    let b' := b.removeRange 0 ci
    b'.mem = b.mem.filter (fun e => decide (ci < e.index)) ∧
    contigFrom (firstIdx b'.mem) b'.mem = true ∧ (∀ e ∈ b'.mem, 0 < e.term) ∧
    b'.minIdx = firstIdx b'.mem ∧ b'.maxIdx = lastIdx b'.mem ∧
    TfExact b'.mem b'.tfirst ∧ TlExact b'.mem b'.tlast ∧ SegInv b'.mem b'.segs ∧ b'.segs = b.segs ∧
    b'.durable = b.durable := by
  have hf := removeBy_fields (b := b) (inRange 0 ci)
  have hfil : b.mem.filter (fun e => !inRange 0 ci e) = b.mem.filter (fun e => decide (ci < e.index)) := by
    apply List.filter_congr
    intro x _
    by_cases hx : ci < x.index
    · have : ¬ x.index ≤ ci := by omega
      simp [inRange, hx, this]
    · have : x.index ≤ ci := by omega
      simp [inRange, hx, this]
  have hex := exact_removeBy h.tf h.tl (inRange 0 ci)
  rw [hfil] at hf
  have hdrop := filter_gt_contig h.contig ci
  simp only [Buf.removeRange]
  refine ⟨hf.1, ?_, ?_, ?_, ?_, hex.1, hex.2, ?_, hf.2.1, hf.2.2.2.2.2.2⟩
  · rw [hf.1, hdrop]
    by_cases hne : b.mem.drop (ci + 1 - firstIdx b.mem) = []
    · simp [hne]
    · have hc := contigFrom_drop h.contig (ci + 1 - firstIdx b.mem)
      rw [firstIdx_contig hc hne]; exact hc
  · rw [hf.1]; intro e he; exact h.pos e (List.mem_filter.mp he).1
  · rw [hf.2.2.2.2.1, hf.1]
  · rw [hf.2.2.2.2.2.1, hf.1]
  · rw [hf.1, hf.2.1]; exact h.seg.sub (fun e he => (List.mem_filter.mp he).1)

theorem purgeMem_fields (b : Buf) (ci ct : Nat) :
    (b.purgeMem ci ct).mem = (b.removeRange 0 ci).mem ∧ (b.purgeMem ci ct).segs = (b.removeRange 0 ci).segs ∧
    (b.purgeMem ci ct).tfirst = (b.removeRange 0 ci).tfirst ∧ (b.purgeMem ci ct).tlast = (b.removeRange 0 ci).tlast ∧
    (b.purgeMem ci ct).minIdx = firstIdx (b.removeRange 0 ci).mem ∧
    (b.purgeMem ci ct).maxIdx = lastIdx (b.removeRange 0 ci).mem ∧
    (b.purgeMem ci ct).purgedI = ci ∧ (b.purgeMem ci ct).purgedT = ct := by
  simp only [Buf.purgeMem]
  split <;> simp

/-- memory part of `purge_logs_up_to`, for a cutoff at or above the current purge boundary -/
theorem purgeMem (h : b.Inv) {ci : Nat} (ct : Nat) (hci : b.purgedI ≤ ci) :
    (b.purgeMem ci ct).Inv ∧ (b.purgeMem ci ct).abs = b.abs.purge ci ct ∧ (b.purgeMem ci ct).segs = b.segs := by
  have hp := h.removeRange_prefix ci
  simp only at hp
  obtain ⟨hmem, hcontig, hpos, _, _, htf, htl, hseg, hsegs, _⟩ := hp
  obtain ⟨fm, fs, ftf, ftl, fmin, fmax, fpi, fpt⟩ := purgeMem_fields b ci ct
  refine ⟨?_, ?_, by rw [fs, hsegs]⟩
  · refine { contig := ?_, pos := ?_, anchor := ?_, minOk := ?_, maxOk := ?_, tf := ?_, tl := ?_, seg := ?_ }
    · rw [fm]; exact hcontig
    · rw [fm]; exact hpos
    · rw [fm, fpi, hmem]
      intro hne
      have hdrop := filter_gt_contig h.contig ci
      rw [hdrop] at hne ⊢
      have hc := contigFrom_drop h.contig (ci + 1 - firstIdx b.mem)
      rw [firstIdx_contig hc hne]
      have hbne : b.mem ≠ [] := by intro hm; simp [hm] at hne
      have := h.anchor hbne
      omega
    · rw [fmin, fm]
    · rw [fmax, fm]
    · rw [fm, ftf]; exact htf
    · rw [fm, ftl]; exact htl
    · rw [fm, fs]; exact hseg
  · simp [Buf.abs, Plain.purge, fm, hmem, fpi, fpt]

theorem resetMem (h : b.Inv) : b.resetMem.Inv ∧ b.resetMem.abs = b.abs.reset := by
  refine ⟨?_, by simp [Buf.resetMem, Buf.abs, Plain.reset]⟩
  exact { contig := rfl, pos := by simp [Buf.resetMem], anchor := by simp [Buf.resetMem], minOk := rfl, maxOk := rfl,
          tf := fun _ => rfl, tl := fun _ => rfl, seg := SegInv.empty }

/-- the conflict branch: truncate from `d` (an index inside the log), insert the new tail that starts at `d` -/
theorem replaceMem (h : b.Inv) {d : Nat} {tail : List Entry} (hd1 : b.minIdx ≤ d) (hd2 : d ≤ b.maxIdx)
    (hne : b.mem ≠ []) (hc : contigFrom d tail = true) (hpos : termsPos tail = true) :
    (b.replaceMem d tail).Inv ∧
    (b.replaceMem d tail).abs = { b.abs with ents := b.mem.filter (fun e => decide (e.index < d)) ++ tail } := by
  obtain ⟨hinv, hmem, hsegs, hpi, hpt, _⟩ := h.removeFrom d
  -- the intermediate state after the two stores to next_id / durable_index
  let b1 : Buf := { b.removeFrom d with nextId := d, durable := min (b.removeFrom d).durable (d - 1) }
  have hb1 : b1.Inv :=
    { contig := hinv.contig, pos := hinv.pos, anchor := hinv.anchor, minOk := hinv.minOk, maxOk := hinv.maxOk,
      tf := hinv.tf, tl := hinv.tl, seg := hinv.seg }
  have hb1mem : b1.mem = b.mem.filter (fun e => decide (e.index < d)) := hmem
  have htake := filter_lt_contig h.contig d
  have hlast := lastIdx_contig h.contig hne
  rw [h.minOk] at hd1; rw [h.maxOk] at hd2
  have hins := hb1.insertToMemory (k := d) (es := tail) hc hpos
    (by rw [hb1mem]; intro x hx; simpa using (List.mem_filter.mp hx).2)
    (by rw [hb1mem, htake]
        intro hne1
        have hc1 := contigFrom_take h.contig (d - firstIdx b.mem)
        have := lastIdx_contig hc1 hne1
        have hlen : (b.mem.take (d - firstIdx b.mem)).length = d - firstIdx b.mem := by
          rw [List.length_take]; omega
        omega)
    (by rw [hb1mem, htake]
        intro he
        have : d - firstIdx b.mem = 0 := by
          rcases List.take_eq_nil_iff.mp he with h0 | h0
          · exact h0
          · exact absurd h0 hne
        have := h.anchor hne
        show d = b1.purgedI + 1
        have : b1.purgedI = b.purgedI := hpi
        omega)
  have heq : b.replaceMem d tail = b1.insertToMemory tail := rfl
  rw [heq]
  refine ⟨hins.1, ?_⟩
  rw [hins.2.1]
  simp only [Buf.abs, Plain.append, hb1mem]
  have h1 : b1.purgedI = b.purgedI := hpi
  have h2 : b1.purgedT = b.purgedT := hpt
  simp [h1, h2]

end Buf.Inv

end DEngine.BufLog
