import DEngine.Model.KvCrash
import DEngine.Lemmas.Snap
/-!
Helper lemmas for C15 (family `kvcrash`): WAL outcome records, shape of every crash image.
-/
namespace DEngine.KvCrash
open DEngine.MiniKv DEngine.Snap

/-! ### WAL records -/

/-- the WAL records of `cs` applied from `m` on (outcomes). -/
def recs (m : AMap) : List Cmd → List Cmd
  | [] => []
  | c :: cs => outcome m c :: recs (applyCmd m c).1 cs

theorem applyCmd_outcome (m : AMap) (c : Cmd) : (applyCmd m (outcome m c)).1 = (applyCmd m c).1 := by
  cases c with
  | noop => rfl
  | put k v t => rfl
  | del k => rfl
  | cas k e v =>
    by_cases h : casMatch (get m k) e = true <;> simp [outcome, applyCmd, h]

theorem outcome_isWrite (m : AMap) (c : Cmd) : isWrite (outcome m c) = true := by
  cases c with
  | noop => rfl
  | put k v t => rfl
  | del k => rfl
  | cas k e v => simp only [outcome]; split <;> rfl

theorem outcome_congr {a b : AMap} (h : sameKv a b) (c : Cmd) : outcome a c = outcome b c := by
  cases c <;> simp [outcome, h _]

theorem applyAll_recs (m : AMap) (cs : List Cmd) : applyAll m (recs m cs) = applyAll m cs := by
  induction cs generalizing m with
  | nil => rfl
  | cons c cs ih => simp only [recs, applyAll_cons, applyCmd_outcome, ih]

theorem recs_length (m : AMap) (cs : List Cmd) : (recs m cs).length = cs.length := by
  induction cs generalizing m with
  | nil => rfl
  | cons c cs ih => simp [recs, ih]

theorem recs_append (m : AMap) (a b : List Cmd) : recs m (a ++ b) = recs m a ++ recs (applyAll m a) b := by
  induction a generalizing m with
  | nil => rfl
  | cons c a ih => simp [recs, ih, applyAll_cons]

theorem recs_isWrite (m : AMap) (cs : List Cmd) : ∀ r ∈ recs m cs, isWrite r = true := by
  induction cs generalizing m with
  | nil => intro r hr; simp [recs] at hr
  | cons c cs ih =>
    intro r hr
    simp only [recs, List.mem_cons] at hr
    rcases hr with h | h
    · rw [h]; exact outcome_isWrite m c
    · exact ih _ r h

theorem recs_drop (m : AMap) (cs : List Cmd) (i : Nat) :
    (recs m cs).drop i = recs (applyAll m (cs.take i)) (cs.drop i) := by
  by_cases h : i ≤ cs.length
  · conv => lhs; rw [← List.take_append_drop i cs, recs_append]
    rw [List.drop_append_of_le_length (by rw [recs_length, List.length_take]; omega),
      List.drop_of_length_le (by rw [recs_length, List.length_take]; omega)]
    rfl
  · have h1 : cs.drop i = [] := List.drop_of_length_le (by omega)
    rw [h1, List.drop_of_length_le (by rw [recs_length]; omega)]
    rfl

theorem recs_take (m : AMap) (cs : List Cmd) (i : Nat) : (recs m cs).take i = recs m (cs.take i) := by
  by_cases h : i ≤ cs.length
  · conv => lhs; rw [← List.take_append_drop i cs, recs_append]
    rw [List.take_append_of_le_length (by rw [recs_length, List.length_take]; omega),
      List.take_of_length_le (by rw [recs_length, List.length_take]; omega)]
  · rw [List.take_of_length_le (by rw [recs_length]; omega), List.take_of_length_le (by omega)]

theorem ref_eq (cmds : List Cmd) (i : Nat) : ref cmds i = applyAll [] (cmds.take i) := rfl

theorem ref_split (cmds : List Cmd) (a b : Nat) (hab : a ≤ b) :
    ref cmds b = applyAll (ref cmds a) ((cmds.take b).drop a) := by
  rw [ref_eq, ref_eq, ← applyAll_append]
  congr 1
  have : cmds.take a = (cmds.take b).take a := by rw [List.take_take, Nat.min_eq_left hab]
  rw [this, List.take_append_drop]

/-- Replaying the WAL tail `(w0, n]` over data that already contains `(w0, d]` gives the state at `n`. -/
theorem replay_tail (hist : List Cmd) (w0 d : Nat) (h1 : w0 ≤ d) (h2 : d ≤ hist.length) (D : AMap)
    (hD : sameKv D (ref hist d)) :
    sameKv (applyAll D ((recs [] hist).drop w0)) (ref hist hist.length) := by
  -- tail = A ++ B with A = records of (w0, d], B = records of (d, n]
  have hsplit : (recs [] hist).drop w0 =
      ((recs [] hist).drop w0).take (d - w0) ++ (recs [] hist).drop d := by
    conv => lhs; rw [← List.take_append_drop (d - w0) ((recs [] hist).drop w0)]
    rw [List.drop_drop]; congr 2; omega
  rw [hsplit, applyAll_append]
  have hA : ((recs [] hist).drop w0).take (d - w0) =
      recs (ref hist w0) (((hist.take d).drop w0)) := by
    rw [recs_drop, recs_take]
    congr 1
    rw [List.take_drop]; congr 2; omega
  have hB : (recs [] hist).drop d = recs (ref hist d) (hist.drop d) := recs_drop _ _ _
  -- A re-applied on the state at d is a no-op
  have hAd : sameKv (applyAll D (recs (ref hist w0) ((hist.take d).drop w0))) (ref hist d) := by
    have e1 : ref hist d = applyAll (ref hist w0) (recs (ref hist w0) ((hist.take d).drop w0)) := by
      rw [applyAll_recs]; exact ref_split hist w0 d h1
    refine sameKv_trans (applyAll_congr hD _) ?_
    conv => lhs; rw [e1]
    conv => rhs; rw [e1]
    exact applyAll_writes_idem _ (recs_isWrite _ _) _
  rw [hA, hB]
  refine sameKv_trans (applyAll_congr hAd _) ?_
  rw [applyAll_recs]
  have : ref hist hist.length = applyAll (ref hist d) (hist.drop d) := by
    rw [ref_split hist d hist.length h2, List.take_length]
  rw [this]; exact sameKv_refl _

/-! ### shape of crash images -/

/-- An image taken when the history was `hist`: the WAL holds the records of `(w0, n]`, the data file
holds the state at some `d` with `w0 ≤ d ≤ n`, the persisted index is at most `n`. -/
structure Shape (hist : List Cmd) (i : Img) : Prop where
  n_eq : i.n = hist.length
  ex : ∃ w0 d, w0 ≤ d ∧ d ≤ hist.length ∧ i.wal = (recs [] hist).drop w0 ∧ sameKv i.dData (ref hist d)
  meta_le : i.dMeta ≤ hist.length

theorem recover_file_shape {hist : List Cmd} {i : Img} (h : Shape hist i) :
    sameKv (recover .file i).1 (ref hist hist.length) ∧
      (recover .file i).2 = (if i.wal.isEmpty then i.dMeta else i.n) := by
  obtain ⟨w0, d, h1, h2, hw, hd⟩ := h.ex
  refine ⟨?_, ?_⟩
  · simp only [recover, hw]
    exact replay_tail hist w0 d h1 h2 _ hd
  · simp only [recover]
    split
    · rfl
    · have := h.meta_le; rw [h.n_eq]; omega

/-- Invariant of the running engine. -/
structure Good (s : St) : Prop where
  la_eq : s.la = s.cmds.length
  data_ok : sameKv s.data (ref s.cmds s.cmds.length)
  meta_le : s.dMeta ≤ s.cmds.length
  disk : s.eng = .file → ∃ w0 d, w0 ≤ d ∧ d ≤ s.cmds.length ∧ s.wal = (recs [] s.cmds).drop w0 ∧
        sameKv s.dData (ref s.cmds d)
  /-- File: with an empty WAL the persisted index is current (the WAL is only cleared by a checkpoint). -/
  wal_meta : s.eng = .file → s.wal = [] → s.dMeta = s.cmds.length
  /-- RocksDB: the index travels with the data. -/
  rocks_meta : s.eng = .rocks → s.dMeta = s.cmds.length

def tornName (name : String) : Prop :=
  name = "persist_data:truncated" ∨ name = "persist_metadata:truncated"

/-- what the theorems say about one crash image, relative to the final history `final`. -/
def ImgOK (eng : Eng) (final : List Cmd) (i : Img) : Prop :=
  i.n ≤ final.length ∧
  (i.name = "persist_data:truncated" ∨
    ((eng = .file → Shape (final.take i.n) i ∧
        (i.wal = [] → i.dMeta = i.n ∨ i.name = "persist_metadata:truncated")) ∧
     (eng = .rocks → sameKv i.dData (ref final i.n) ∧ i.dMeta = i.n)))

theorem ref_take (final : List Cmd) (n k : Nat) (h : k ≤ n) : ref (final.take n) k = ref final k := by
  simp [ref_eq, List.take_take, Nat.min_eq_left h]

theorem ImgOK_extend {eng : Eng} {final : List Cmd} {i : Img} (t : List Cmd) (h : ImgOK eng final i) :
    ImgOK eng (final ++ t) i := by
  obtain ⟨hn, h⟩ := h
  refine ⟨by rw [List.length_append]; omega, ?_⟩
  rcases h with h | ⟨hf, hr⟩
  · exact Or.inl h
  · right
    refine ⟨fun e => ?_, fun e => ?_⟩
    · rw [List.take_append_of_le_length hn]; exact hf e
    · have : ref (final ++ t) i.n = ref final i.n := by
        simp [ref_eq, List.take_append_of_le_length hn]
      rw [this]; exact hr e

theorem ref_self (cmds : List Cmd) : ref cmds cmds.length = applyAll [] cmds := by
  simp [ref_eq]

theorem ref_snoc (cmds : List Cmd) (c : Cmd) (k : Nat) (h : k ≤ cmds.length) :
    ref (cmds ++ [c]) k = ref cmds k := by
  simp [ref_eq, List.take_append_of_le_length h]

theorem ref_snoc_full (cmds : List Cmd) (c : Cmd) :
    ref (cmds ++ [c]) (cmds ++ [c]).length = (applyCmd (ref cmds cmds.length) c).1 := by
  rw [ref_self, ref_self, applyAll_append]; rfl

theorem drop_recs_all (cmds : List Cmd) : (recs [] cmds).drop cmds.length = [] :=
  List.drop_of_length_le (by rw [recs_length]; exact Nat.le_refl _)

/-- a File image built from parts that satisfy the shape conditions. -/
theorem imgOK_file (cmds : List Cmd) (name : String) (dData : AMap) (dMeta : Nat) (wal : List Cmd)
    (hm : dMeta ≤ cmds.length)
    (hex : ∃ w0 d, w0 ≤ d ∧ d ≤ cmds.length ∧ wal = (recs [] cmds).drop w0 ∧ sameKv dData (ref cmds d))
    (hwm : wal = [] → dMeta = cmds.length ∨ name = "persist_metadata:truncated") :
    ImgOK .file cmds { name, n := cmds.length, dData, dMeta, wal } := by
  refine ⟨Nat.le_refl _, Or.inr ⟨fun _ => ⟨?_, hwm⟩, (fun e => nomatch e)⟩⟩
  simp only [List.take_length]
  exact ⟨rfl, hex, hm⟩

/-- image of a good state has the shape (File) / is current (RocksDB). -/
theorem img_ok {s : St} (g : Good s) (name : String) : ImgOK s.eng s.cmds (img s name) := by
  obtain ⟨eng, cmds, data, la, due, dData, dMeta, wal⟩ := s
  cases eng with
  | file =>
    exact imgOK_file cmds name dData dMeta wal g.meta_le (g.disk rfl) (fun h => Or.inl (g.wal_meta rfl h))
  | rocks =>
    unfold ImgOK
    exact ⟨Nat.le_refl _, Or.inr ⟨(fun e => nomatch e), fun _ => ⟨g.data_ok, g.rocks_meta rfl⟩⟩⟩

theorem good_init (eng : Eng) : Good ({ eng } : St) :=
  ⟨rfl, sameKv_refl _, Nat.le_refl _, fun _ => ⟨0, 0, Nat.le_refl _, Nat.le_refl _, rfl, sameKv_refl _⟩,
    fun _ _ => rfl, fun _ => rfl⟩

/-- a non-empty list is not `[]`. -/
theorem append_singleton_ne_nil {α} (l : List α) (a : α) : l ++ [a] ≠ [] := by simp

/-- File `checkpoint()` from a good state: good afterwards, every image but the first has the shape. -/
theorem ckptSteps_ok {s : St} (g : Good s) (he : s.eng = .file) :
    Good (ckptSteps s).1 ∧ (ckptSteps s).1.cmds = s.cmds ∧ (ckptSteps s).1.eng = .file ∧
      ∀ i ∈ (ckptSteps s).2, ImgOK .file s.cmds i := by
  obtain ⟨eng, cmds, data, la, due, dData, dMeta, wal⟩ := s
  cases he
  obtain ⟨w0, d, h1, h2, hw, hdd⟩ := g.disk rfl
  dsimp only at h2 hw hdd
  have hla : la = cmds.length := g.la_eq
  have hdata : sameKv data (ref cmds cmds.length) := g.data_ok
  have hmeta : dMeta ≤ cmds.length := g.meta_le
  have hwm : wal = [] → dMeta = cmds.length := g.wal_meta rfl
  have hw0 : w0 ≤ cmds.length := Nat.le_trans h1 h2
  have exOld : ∃ w0 d, w0 ≤ d ∧ d ≤ cmds.length ∧ wal = (recs [] cmds).drop w0 ∧
      sameKv data (ref cmds d) := ⟨w0, cmds.length, hw0, Nat.le_refl _, hw, hdata⟩
  have exNew : ∃ w0 d, w0 ≤ d ∧ d ≤ cmds.length ∧ ([] : List Cmd) = (recs [] cmds).drop w0 ∧
      sameKv data (ref cmds d) :=
    ⟨cmds.length, cmds.length, Nat.le_refl _, Nat.le_refl _, (drop_recs_all cmds).symm, hdata⟩
  have hlan : la ≤ cmds.length := by rw [hla]; exact Nat.le_refl _
  refine ⟨⟨hla, hdata, by simp [ckptSteps, hla], fun _ => exNew, fun _ _ => by simp [ckptSteps, hla],
    (fun e => nomatch e)⟩, rfl, rfl, ?_⟩
  intro i hi
  simp only [ckptSteps, img, List.mem_cons, List.mem_nil_iff, or_false] at hi
  rcases hi with h | h | h | h | h
  · rw [h]; exact ⟨Nat.le_refl _, Or.inl rfl⟩
  · rw [h]; exact imgOK_file cmds _ _ _ _ hmeta exOld (fun e => Or.inl (hwm e))
  · rw [h]; exact imgOK_file cmds _ _ _ _ (Nat.zero_le _) exOld (fun _ => Or.inr rfl)
  · rw [h]; exact imgOK_file cmds _ _ _ _ hlan exOld (fun _ => Or.inl hla)
  · rw [h]; exact imgOK_file cmds _ _ _ _ hlan exNew (fun _ => Or.inl hla)

/-- File `flush()` from a good state. -/
theorem flushSteps_ok {s : St} (g : Good s) (he : s.eng = .file) :
    Good (flushSteps s).1 ∧ (flushSteps s).1.cmds = s.cmds ∧ (flushSteps s).1.eng = .file ∧
      ∀ i ∈ (flushSteps s).2, ImgOK .file s.cmds i := by
  obtain ⟨eng, cmds, data, la, due, dData, dMeta, wal⟩ := s
  cases he
  obtain ⟨w0, d, h1, h2, hw, hdd⟩ := g.disk rfl
  dsimp only at h2 hw hdd
  have hla : la = cmds.length := g.la_eq
  have hdata : sameKv data (ref cmds cmds.length) := g.data_ok
  have hmeta : dMeta ≤ cmds.length := g.meta_le
  have hwm : wal = [] → dMeta = cmds.length := g.wal_meta rfl
  have exNew : ∃ w0 d, w0 ≤ d ∧ d ≤ cmds.length ∧ wal = (recs [] cmds).drop w0 ∧
      sameKv data (ref cmds d) := ⟨w0, cmds.length, Nat.le_trans h1 h2, Nat.le_refl _, hw, hdata⟩
  refine ⟨⟨hla, hdata, by simp [flushSteps, hla], fun _ => exNew, fun _ _ => by simp [flushSteps, hla],
    (fun e => nomatch e)⟩, rfl, rfl, ?_⟩
  intro i hi
  simp only [flushSteps, img, List.mem_cons, List.mem_nil_iff, or_false] at hi
  rcases hi with h | h
  · rw [h]; exact imgOK_file cmds _ _ _ _ hmeta exNew (fun e => Or.inl (hwm e))
  · rw [h]; exact imgOK_file cmds _ _ _ _ (by rw [hla]; exact Nat.le_refl _) exNew (fun _ => Or.inl hla)

theorem step_cmds_ext (s : St) (op : Op) : ∃ t, (step s op).1.cmds = s.cmds ++ t := by
  obtain ⟨eng, cmds, data, la, due, dData, dMeta, wal⟩ := s
  cases eng <;> cases op <;> simp only [step]
  case file.apply c => split <;> exact ⟨[c], rfl⟩
  case file.reopen => split <;> exact ⟨[], by simp [flushSteps, ckptSteps]⟩
  case rocks.apply c => exact ⟨[c], rfl⟩
  all_goals exact ⟨[], by simp [ckptSteps, flushSteps]⟩

/-- one op: the invariant is kept and every image emitted inside the op is OK w.r.t. the new history. -/
theorem step_ok {s : St} (g : Good s) (op : Op) :
    Good (step s op).1 ∧ (step s op).1.eng = s.eng ∧
      ∀ i ∈ (step s op).2, ImgOK s.eng (step s op).1.cmds i := by
  obtain ⟨eng, cmds, data, la, due, dData, dMeta, wal⟩ := s
  have hla : la = cmds.length := g.la_eq
  have hdata : sameKv data (ref cmds cmds.length) := g.data_ok
  have hmeta : dMeta ≤ cmds.length := g.meta_le
  cases eng with
  | rocks =>
    have noFile : ∀ (P : Prop), Eng.rocks = Eng.file → P := fun _ e => nomatch e
    have hrm : dMeta = cmds.length := g.rocks_meta rfl
    cases op with
    | apply c =>
      simp only [step]
      refine ⟨⟨by simp, ?_, ?_, noFile _, (fun e => nomatch e), fun _ => by simp⟩,
        (by first | rfl | trivial), by simp⟩
      · show sameKv (applyCmd data c).1 (ref (cmds ++ [c]) (cmds ++ [c]).length)
        rw [ref_snoc_full]; exact (applyCmd_congr hdata c).1
      · show cmds.length + 1 ≤ (cmds ++ [c]).length
        simp
    | ckpt => exact ⟨⟨hla, hdata, by simp [step, hla], noFile _, (fun e => nomatch e), fun _ => by simp [step, hla]⟩,
        (by first | rfl | trivial), by simp [step]⟩
    | flush => exact ⟨⟨hla, hdata, by simp [step, hla], noFile _, (fun e => nomatch e), fun _ => by simp [step, hla]⟩,
        (by first | rfl | trivial), by simp [step]⟩
    | reopen => exact ⟨⟨hla, hdata, by simp [step, hla], noFile _, (fun e => nomatch e), fun _ => by simp [step, hla]⟩,
        (by first | rfl | trivial), by simp [step]⟩
    | tick => exact ⟨⟨hla, hdata, hmeta, noFile _, (fun e => nomatch e), fun _ => hrm⟩,
        (by first | rfl | trivial), by simp [step]⟩
  | file =>
    obtain ⟨w0, d, h1, h2, hw, hdd⟩ := g.disk rfl
    dsimp only at h2 hw hdd
    have hwm : wal = [] → dMeta = cmds.length := g.wal_meta rfl
    have hw0 : w0 ≤ cmds.length := Nat.le_trans h1 h2
    cases op with
    | apply c =>
      have hrec : (recs [] (cmds ++ [c])).drop w0 = wal ++ [outcome data c] := by
        rw [recs_append, List.drop_append_of_le_length (by rw [recs_length]; omega), ← hw]
        simp only [recs]
        rw [outcome_congr hdata c, ref_self]
      have hdisk1 : ∃ w0 d, w0 ≤ d ∧ d ≤ (cmds ++ [c]).length ∧
          wal ++ [outcome data c] = (recs [] (cmds ++ [c])).drop w0 ∧
          sameKv dData (ref (cmds ++ [c]) d) :=
        ⟨w0, d, h1, by rw [List.length_append]; omega, hrec.symm, by rw [ref_snoc _ _ _ h2]; exact hdd⟩
      have hmeta1 : dMeta ≤ (cmds ++ [c]).length := by
        rw [List.length_append]; exact Nat.le_succ_of_le hmeta
      have hdata2 : sameKv (applyCmd data c).1 (ref (cmds ++ [c]) (cmds ++ [c]).length) := by
        rw [ref_snoc_full]; exact (applyCmd_congr hdata c).1
      have hne : wal ++ [outcome data c] = [] → False := fun e => append_singleton_ne_nil _ _ e
      have i1 : ImgOK .file (cmds ++ [c])
          { name := "apply:wal-appended", n := (cmds ++ [c]).length, dData := dData, dMeta := dMeta,
            wal := wal ++ [outcome data c] } :=
        imgOK_file _ _ _ _ _ hmeta1 hdisk1 (fun e => (hne e).elim)
      have g2 : Good (St.mk .file (cmds ++ [c]) (applyCmd data c).fst (cmds ++ [c]).length due dData dMeta
          (wal ++ [outcome data c])) :=
        ⟨rfl, hdata2, hmeta1, fun _ => hdisk1, fun _ e => (hne e).elim, (fun e => nomatch e)⟩
      cases due with
      | false =>
        simp only [step, img]
        refine ⟨g2, (by first | rfl | trivial), ?_⟩
        intro i hi
        simp only [Bool.false_eq_true, if_false, List.mem_cons, List.mem_nil_iff, or_false] at hi
        rw [hi]; exact i1
      | true =>
        simp only [step, img, if_true]
        obtain ⟨gk, hk, hke, hi⟩ := ckptSteps_ok g2 rfl
        refine ⟨gk, hke, ?_⟩
        intro i hi'
        rw [hk]
        rcases List.mem_cons.mp hi' with h | h
        · rw [h]; exact i1
        · exact hi i h
    | ckpt =>
      simp only [step]
      obtain ⟨gk, hk, hke, hi⟩ := ckptSteps_ok g rfl
      exact ⟨gk, hke, by rw [hk]; exact hi⟩
    | flush =>
      simp only [step]
      obtain ⟨gk, hk, hke, hi⟩ := flushSteps_ok g rfl
      exact ⟨gk, hke, by rw [hk]; exact hi⟩
    | reopen =>
      -- Drop: metadata first, then flush; reopen replays the kept WAL over the persisted data and
      -- writes the recovered state as a checkpoint
      have exOld : ∃ w0 d, w0 ≤ d ∧ d ≤ cmds.length ∧ wal = (recs [] cmds).drop w0 ∧
          sameKv dData (ref cmds d) := ⟨w0, d, h1, h2, hw, hdd⟩
      have hlan : la ≤ cmds.length := by rw [hla]; exact Nat.le_refl _
      have exData : ∃ w0 d, w0 ≤ d ∧ d ≤ cmds.length ∧ wal = (recs [] cmds).drop w0 ∧
          sameKv data (ref cmds d) := ⟨w0, cmds.length, hw0, Nat.le_refl _, hw, hdata⟩
      have hrep : sameKv (applyAll data wal) (ref cmds cmds.length) := by
        rw [hw]; exact replay_tail cmds w0 cmds.length hw0 (Nat.le_refl _) _ hdata
      have iM : ImgOK .file cmds
          { name := "persist_metadata_sync:written", n := cmds.length, dData := dData, dMeta := la, wal := wal } :=
        imgOK_file cmds _ _ _ _ hlan exOld (fun _ => Or.inl hla)
      have iD : ∀ name, ImgOK .file cmds { name := name, n := cmds.length, dData := data, dMeta := la, wal := wal } :=
        fun name => imgOK_file cmds _ _ _ _ hlan exData (fun _ => Or.inl hla)
      simp only [step, flushSteps, recover, img]
      by_cases hwe : wal.isEmpty = true
      · simp only [hwe, if_true]
        refine ⟨⟨hla, hrep, hlan, fun _ => exData, fun _ _ => hla, (fun e => nomatch e)⟩,
          (by first | rfl | trivial), ?_⟩
        intro i hi'
        simp only [List.mem_cons, List.mem_append, List.mem_nil_iff, or_false] at hi'
        rcases hi' with h | h | h
        · rw [h]; exact iM
        · rw [h]; exact iD _
        · rw [h]; exact iD _
      · simp only [hwe, Bool.false_eq_true, if_false]
        have hmax : max la cmds.length = cmds.length := by rw [hla]; exact Nat.max_self _
        have gmid : Good (St.mk .file cmds (applyAll data wal) (max la cmds.length) false data la wal) :=
          ⟨hmax, hrep, hlan, fun _ => exData, fun _ _ => hla, (fun e => nomatch e)⟩
        obtain ⟨gk, hk, hke, hi⟩ := ckptSteps_ok gmid rfl
        refine ⟨gk, hke, ?_⟩
        intro i hi'
        rw [hk]
        simp only [List.mem_cons, List.mem_append, List.mem_nil_iff, or_false] at hi'
        rcases hi' with h | (h | h) | h
        · rw [h]; exact iM
        · rw [h]; exact iD _
        · rw [h]; exact iD _
        · exact hi i h
    | tick =>
      exact ⟨⟨hla, hdata, hmeta, fun _ => ⟨w0, d, h1, h2, hw, hdd⟩, fun _ => hwm, (fun e => nomatch e)⟩,
        (by first | rfl | trivial), by simp [step]⟩

theorem exec_cons (s : St) (op : Op) (ops : List Op) : exec s (op :: ops) = exec (step s op).1 ops := rfl

theorem exec_cmds_ext (s : St) (ops : List Op) : ∃ t, (exec s ops).cmds = s.cmds ++ t := by
  induction ops generalizing s with
  | nil => exact ⟨[], by simp [exec]⟩
  | cons op ops ih =>
    obtain ⟨t1, h1⟩ := step_cmds_ext s op
    obtain ⟨t2, h2⟩ := ih (step s op).1
    exact ⟨t1 ++ t2, by rw [exec_cons, h2, h1, List.append_assoc]⟩

/-- **Every crash image of every run** (but the torn `persist_data:truncated` one) has the shape. -/
theorem images_ok (ops : List Op) (s : St) (g : Good s) :
    ∀ i ∈ images s ops, ImgOK s.eng (exec s ops).cmds i := by
  induction ops generalizing s with
  | nil => intro i hi; simp [images] at hi
  | cons op ops ih =>
    intro i hi
    obtain ⟨g', he', hin⟩ := step_ok g op
    obtain ⟨t, ht⟩ := exec_cmds_ext (step s op).1 ops
    rw [exec_cons, ht]
    simp only [images, List.mem_append, List.mem_cons, List.mem_nil_iff, or_false] at hi
    rcases hi with (h | h) | h
    · exact ImgOK_extend t (hin i h)
    · rw [h]; have := img_ok g' "op-done"; rw [he'] at this; exact ImgOK_extend t this
    · have := ih _ g' i h; rw [he', ht] at this; exact this

end DEngine.KvCrash
