/-
  C05, towards leader completeness: a node's term never decreases (`term_mono`), node terms are ≥ 1.
-/
import DEngine.Lemmas.ClusterComplete
namespace DEngine.Cluster

/-- a reflexive relation between the old and the new node holds everywhere when it holds at the one updated node -/
theorem upd1 {P : Node → Node → Prop} (hrefl : ∀ n, P n n) {f : NodeId → Node} {i : NodeId} {nd' : Node}
    (h : P (f i) nd') (j : NodeId) : P (f j) (setNode f i nd' j) := by
  by_cases hj : j = i
  · subst hj; simpa using h
  · rw [setNode_other _ _ hj]; exact hrefl _

theorem leaderRound_term (c : Cluster) (i : NodeId) (nd : Node) (p : Option Nat) (j : NodeId) :
    ((leaderRound c i nd p).nodes j).term = if j = i then nd.term else (c.nodes j).term := by
  simp only [leaderRound, addMsgs]
  by_cases hj : j = i
  · subst hj; simp [(replicate_spec j nd p c.cap c.nextSid).2.2]
  · rw [setNode_other _ _ hj]; simp [hj]

theorem onAppendEntries_term (n : Node) (r : AeReq) : n.term ≤ (onAppendEntries n r).1.term := by
  rcases (onAppendEntries_el n r).2 with h | h
  · rw [h.1]; exact Nat.le_refl _
  · rw [h.2.1]; exact h.1

theorem onAppendResponse_term (n : Node) (src rt : Nat) (res : AeResult) : n.term ≤ (onAppendResponse n src rt res).1.term := by
  rcases (onAppendResponse_el n src rt res).2 with h | h
  · rw [h.1]; exact Nat.le_refl _
  · exact Nat.le_of_lt h.1

theorem onLogFlushed_term (n : Node) : (onLogFlushed n).1.term = n.term := by
  simp only [onLogFlushed]
  split
  · simp only [applyLeaderCommit]; split <;> rfl
  · rfl

/-- A node's term never decreases. -/
theorem term_mono {c : Cluster} (h : EInv c) (e : Event) (j : NodeId) :
    (c.nodes j).term ≤ ((step c e).1.nodes j).term := by
  have R : ∀ n : Node, n.term ≤ n.term := fun _ => Nat.le_refl _
  cases e with
  | tick i =>
    simp only [step]; unfold stepTick; dsimp only
    split
    · exact R _
    · split
      · (refine upd1 (P := fun a b => a.term ≤ b.term) R ?_ j; exact Nat.le_refl _)
      · split
        · exact R _
        · (refine upd1 (P := fun a b => a.term ≤ b.term) R ?_ j; simp [startElection])
      · rw [leaderRound_term]; split
        · next hj => subst hj; exact R _
        · exact R _
  | voteReq a b =>
    simp only [step]; unfold stepVoteReq; dsimp only
    split
    · split
      · exact R _
      · show _ ≤ (setNode (setNode c.nodes b _) a _ j).term
        by_cases hja : j = a
        · subst hja
          simp only [setNode_same]
          exact R _
        · rw [setNode_other _ _ hja]
          exact upd1 (P := fun a b => a.term ≤ b.term) R (onVoteRequest_el _ _).1 j
    · exact R _
  | voteResp a b =>
    simp only [step]; unfold stepVoteResp; dsimp only
    split
    · split
      · split
        · exact R _
        · (refine upd1 (P := fun a b => a.term ≤ b.term) R ?_ j; exact Nat.le_refl _)
      · exact R _
    · exact R _
  | voteEnd i =>
    simp only [step]; unfold stepVoteEnd; dsimp only
    cases hel : (c.nodes i).election with
    | none => simp only []; exact R _
    | some el =>
      simp only []
      by_cases hen : (!(c.valid i && (c.nodes i).up)) = true
      · rw [if_pos hen]; exact R _
      · rw [if_neg hen]
        cases htally : tally c.n el.req (el.collected.map (·.2)) 1 with
        | won =>
          simp only []
          rw [leaderRound_term]; split
          · next hj => subst hj; simp [asLeader]
          · exact R _
        | higherTerm t =>
          simp only []
          have hlt := tally_higher _ _ _ _ _ htally
          have het := (h.elect i el hel).1
          refine upd1 (P := fun a b => a.term ≤ b.term) R ?_ j
          rw [(becomeFollower_spec _).2.2]
          show (c.nodes i).term ≤ t
          omega
        | logConflict => simp only []; (refine upd1 (P := fun a b => a.term ≤ b.term) R ?_ j; exact Nat.le_refl _)
        | noQuorum => simp only []; (refine upd1 (P := fun a b => a.term ≤ b.term) R ?_ j; exact Nat.le_refl _)
  | write i x =>
    simp only [step]; unfold stepWrite; dsimp only
    split
    · exact R _
    · split
      · show _ ≤ (setNode (leaderRound c i (c.nodes i) (some (x + 1))).nodes i _ j).term
        by_cases hj : j = i
        · subst hj; simp only [setNode_same]; rw [leaderRound_term]; simp
        · rw [setNode_other _ _ hj, leaderRound_term]; simp [hj]
      · exact R _
  | deliverAe m =>
    simp only [step]; unfold stepDeliverAe; dsimp only
    split
    · split
      · exact R _
      · split
        · exact upd1 (P := fun a b => a.term ≤ b.term) R (onAppendEntries_term _ _) j
        · exact upd1 (P := fun a b => a.term ≤ b.term) R (onAppendEntries_term _ _) j
    · exact R _
  | deliverResp m =>
    simp only [step]; unfold stepDeliverResp; dsimp only
    split
    · split
      · exact R _
      · split
        · exact R _
        · rw [recordCommit_nodes]
          exact upd1 (P := fun a b => a.term ≤ b.term) (f := (removeMsg c m).nodes) R (onAppendResponse_term _ _ _ _) j
    · exact R _
  | drop m => exact R _
  | dup m =>
    simp only [step]; unfold stepDup; (try dsimp only)
    split <;> exact R _
  | streamErr l p =>
    simp only [step]; unfold stepStreamErr; dsimp only
    split
    · exact R _
    · split
      · split
        · exact R _
        · (refine upd1 (P := fun a b => a.term ≤ b.term) R ?_ j; exact Nat.le_refl _)
      · exact R _
  | streamClosed l p =>
    simp only [step]; unfold stepStreamClosed; dsimp only
    split
    · exact R _
    · split
      · split
        · exact R _
        · (refine upd1 (P := fun a b => a.term ≤ b.term) R ?_ j; exact Nat.le_refl _)
      · exact R _
  | logFlushed i =>
    simp only [step]; unfold stepLogFlushed; dsimp only
    split
    · exact R _
    · split
      · rw [recordCommit_nodes]
        (refine upd1 (P := fun a b => a.term ≤ b.term) R ?_ j; rw [onLogFlushed_term]; exact Nat.le_refl _)
      · (refine upd1 (P := fun a b => a.term ≤ b.term) R ?_ j; exact Nat.le_refl _)
  | applyCompleted i k =>
    simp only [step]; unfold stepApplyCompleted; dsimp only
    split
    · exact R _
    · split
      · (refine upd1 (P := fun a b => a.term ≤ b.term) R ?_ j; exact Nat.le_refl _)
      · exact R _
  | crash i k =>
    simp only [step]; unfold stepDown'; dsimp only
    split
    · exact R _
    · split
      · exact R _
      · (refine upd1 (P := fun a b => a.term ≤ b.term) R ?_ j; simp only [downNode]; exact Nat.le_refl _)
  | stop i =>
    simp only [step]; unfold stepDown'; dsimp only
    split
    · exact R _
    · split
      · exact R _
      · (refine upd1 (P := fun a b => a.term ≤ b.term) R ?_ j; simp only [downNode]; exact Nat.le_refl _)
  | start i =>
    simp only [step]; unfold stepStart; (try dsimp only)
    split
    · exact R _
    · (refine upd1 (P := fun a b => a.term ≤ b.term) R ?_ j; exact Nat.le_refl _)
  | nop => exact R _

end DEngine.Cluster
