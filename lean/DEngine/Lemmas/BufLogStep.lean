import DEngine.Lemmas.BufLogSys
/-!
  One case operation of the buffered log (`execOp`, the function the driver runs) refines the plain-log step,
  for a well-formed operation, under the invariant.
-/
namespace DEngine.BufLog

/-- what one refined step delivers -/
structure StepOk (s : Sys) (op : Op) (s' : Sys) (r : Res) : Prop where
  quiet : Quiet s'
  inv : s'.buf.Inv
  abs : s'.buf.abs = (s.buf.abs.exec op).1
  res : resAgree op r (s.buf.abs.exec op).2 = true

theorem next_hyps {b : Buf} (hi : b.Inv) :
    (∀ x ∈ b.mem, x.index < b.abs.next) ∧ (b.mem ≠ [] → b.abs.next = lastIdx b.mem + 1) ∧
    (b.mem = [] → b.abs.next = b.purgedI + 1) := by
  unfold Plain.next Plain.last Buf.abs
  refine ⟨?_, ?_, ?_⟩
  · intro x hx
    have hne : b.mem ≠ [] := List.ne_nil_of_mem hx
    have : b.mem.isEmpty = false := by simpa using hne
    have h2 := (hi.mem_range hx).2
    rw [hi.maxOk] at h2
    simp only [this, Bool.false_eq_true, if_false]
    omega
  · intro hne
    have : b.mem.isEmpty = false := by simpa using hne
    simp [this]
  · intro he
    simp [he]

/-- helper: a state built from `s` whose buffer is `b'` (equal to `b''` up to durable/next_id) -/
theorem stepOk_of {s s' : Sys} {op : Op} {r : Res} {b' : Buf} (hq : Quiet s') (hs : SameBuf b' s'.buf) (hi : b'.Inv)
    (habs : b'.abs = (s.buf.abs.exec op).1) (hres : resAgree op r (s.buf.abs.exec op).2 = true) : StepOk s op s' r :=
  { quiet := hq, inv := hs.inv hi, abs := by rw [hs.abs]; exact habs, res := hres }

theorem execOp_append {s : Sys} {es : List Entry} (hq : Quiet s) (hi : s.buf.Inv)
    (hwf : wfOp s.buf.abs (.append es) = true) :
    StepOk s (.append es) (execOp s (.append es)).1 (execOp s (.append es)).2.1 := by
  simp only [wfOp, Bool.and_eq_true] at hwf
  obtain ⟨h1, h2, h3⟩ := next_hyps hi
  have hins := hi.insertToMemory hwf.1 hwf.2 h1 h2 h3
  simp only [execOp, Sys.append]
  by_cases he : es.isEmpty = true
  · have hes : es = [] := by simpa using he
    subst hes
    simp only [List.isEmpty_nil, if_true]
    exact stepOk_of hq (SameBuf.refl _) hi (by simp [Plain.exec, Plain.append]) (by simp [resAgree])
  · simp only [he, if_false]
    exact stepOk_of (b' := s.buf.insertToMemory es) ⟨hq.1, hq.2⟩ (SameBuf.refl _) hins.1
      (by simp [Plain.exec, hins.2.1]) (by simp [resAgree])

/-- `append_entries(tail)` as the last part of an operation, for a tail that starts right above the end -/
theorem append_tail_ok {s : Sys} {tail : List Entry} (hi : s.buf.Inv) (hne : tail ≠ [])
    (hpos : termsPos tail = true)
    (hk : ∃ k, contigFrom k tail = true ∧ (∀ x ∈ s.buf.mem, x.index < k) ∧ (s.buf.mem ≠ [] → k = lastIdx s.buf.mem + 1) ∧
      (s.buf.mem = [] → k = s.buf.purgedI + 1)) :
    (s.append tail).buf.Inv ∧ (s.append tail).buf.abs = s.buf.abs.append tail ∧
    (s.append tail).alive = s.alive ∧ (s.append tail).queue = s.queue := by
  obtain ⟨k, hc, h1, h2, h3⟩ := hk
  have hins := hi.insertToMemory hc hpos h1 h2 h3
  have : tail.isEmpty = false := by simpa using hne
  simp only [Sys.append, this, Bool.false_eq_true, if_false]
  refine ⟨hins.1, hins.2.1, ?_, ?_⟩ <;> simp

theorem execOp_fca {s : Sys} {prevI prevT : Nat} {es : List Entry} {sch : Sched} (hq : Quiet s) (hi : s.buf.Inv)
    (hwf : wfOp s.buf.abs (.fca prevI prevT es sch) = true) :
    StepOk s (.fca prevI prevT es sch) (execOp s (.fca prevI prevT es sch)).1 (execOp s (.fca prevI prevT es sch)).2.1 := by
  have hpc := preClock_frame s sch hq
  simp only [execOp]
  generalize preClock s sch = s1 at hpc ⊢
  obtain ⟨hb1, hq1⟩ := hpc
  have hi1 : s1.buf.Inv := by rw [hb1]; exact hi
  by_cases hr : prevI = 0 ∧ prevT = 0
  · -- start from scratch: reset, wait for the IO loop, append everything
    have hdec : fcaDecide s1.buf prevI prevT es = (.reset, "fca-reset") := by simp [fcaDecide, hr]
    rw [hdec]
    simp only [wfOp, hr, and_self, if_true, Bool.and_eq_true] at hwf
    have hrm := hi1.resetMem
    obtain ⟨s2, he2, hb2, hq2⟩ := Sys.enqueue_quiet { s1 with buf := s1.buf.resetMem } .reset ⟨hq1.1, hq1.2⟩ (by simp)
    have hrm' : s1.resetMain = some s2 := he2
    simp only [hrm']
    have hio := Sys.ioRun_frame s2 sch.prio hq2
    have hi3 : (s2.ioRun sch.prio).buf.Inv := hio.1.inv (by rw [hb2]; exact hrm.1)
    have hmem3 : (s2.ioRun sch.prio).buf.mem = [] := by
      obtain ⟨d, n, hd⟩ := hio.1
      rw [hd, hb2]; rfl
    have hpi3 : (s2.ioRun sch.prio).buf.purgedI = s.buf.purgedI := by
      obtain ⟨d, n, hd⟩ := hio.1
      rw [hd, hb2]; simp [Buf.resetMem, hb1]
    have habs3 : (s2.ioRun sch.prio).buf.abs = s.buf.abs.reset := by
      rw [hio.1.abs, hb2, hrm.2, hb1]
    by_cases hes : es = []
    · subst hes
      have happ : (s2.ioRun sch.prio).append [] = s2.ioRun sch.prio := by simp [Sys.append]
      rw [happ]
      have hpo := postClock_frame (s2.ioRun sch.prio) sch hio.2
      exact stepOk_of hpo.2 hpo.1 hi3 (by simp [Plain.exec, Plain.fca, hr, habs3, Plain.reset])
        (by simp [resAgree, Plain.exec, Plain.fca, hr])
    · have hat := append_tail_ok (s := s2.ioRun sch.prio) (tail := es) hi3 hes hwf.2
        ⟨s.buf.purgedI + 1, by simpa [Buf.abs] using hwf.1, by rw [hmem3]; simp, by rw [hmem3]; simp,
          fun _ => by rw [hpi3]⟩
      have hq4 : Quiet ((s2.ioRun sch.prio).append es) := ⟨by rw [hat.2.2.1]; exact hio.2.1, by rw [hat.2.2.2]; exact hio.2.2⟩
      have hpo := postClock_frame ((s2.ioRun sch.prio).append es) sch hq4
      exact stepOk_of hpo.2 hpo.1 hat.1
        (by rw [hat.2.1, habs3]; simp [Plain.exec, Plain.fca, hr, Plain.reset, Plain.append])
        (by simp [resAgree, Plain.exec, Plain.fca, hr])
  · simp only [wfOp, hr, if_false, Bool.and_eq_true] at hwf
    have hspec := hi1.fcaDecide_spec (prevI := prevI) (prevT := prevT) (es := es)
      hwf.1.1 hwf.1.2 hwf.2 hr
    have habs1 : s1.buf.abs = s.buf.abs := by rw [hb1]
    generalize hdec : fcaDecide s1.buf prevI prevT es = dec at hspec ⊢
    obtain ⟨plan, tag⟩ := dec
    cases plan with
    | reset => exact absurd hspec hr
    | mismatch =>
      simp only [FcaSpec] at hspec
      have hpo := postClock_frame s1 sch hq1
      exact stepOk_of hpo.2 hpo.1 hi1 (by rw [habs1] at hspec ⊢; simp [Plain.exec, hspec])
        (by rw [habs1] at hspec; simp [resAgree, Plain.exec, hspec])
    | noop =>
      simp only [FcaSpec] at hspec
      have hpo := postClock_frame s1 sch hq1
      exact stepOk_of hpo.2 hpo.1 hi1 (by rw [habs1] at hspec ⊢; simp [Plain.exec, hspec])
        (by rw [habs1] at hspec; simp [resAgree, Plain.exec, hspec])
    | appendTail tail =>
      simp only [FcaSpec] at hspec
      obtain ⟨hne, hlen, hlast, hpos, hk, hfca⟩ := hspec
      have hat := append_tail_ok (s := s1) (tail := tail) hi1 hne hpos hk
      have hq2 : Quiet (s1.append tail) := ⟨by rw [hat.2.2.1]; exact hq1.1, by rw [hat.2.2.2]; exact hq1.2⟩
      have hpo := postClock_frame (s1.append tail) sch hq2
      exact stepOk_of hpo.2 hpo.1 hat.1 (by rw [hat.2.1]; rw [habs1] at hfca ⊢; simp [Plain.exec, hfca])
        (by rw [habs1] at hfca; simp [resAgree, Plain.exec, hfca, hlast])
    | replace d tail =>
      simp only [FcaSpec] at hspec
      obtain ⟨_, hlen, hlast, hpos, hd1, hd2, hne, hc, hfca⟩ := hspec
      have hrep := hi1.replaceMem hd1 hd2 hne hc hpos
      obtain ⟨s2, he2, hb2, hq2⟩ := Sys.enqueue_quiet { s1 with buf := s1.buf.replaceMem d tail } (.replace d tail)
        ⟨hq1.1, hq1.2⟩ (by simp)
      simp only [he2]
      have hio := Sys.ioRun_frame s2 sch.prio hq2
      have hpo := postClock_frame (s2.ioRun sch.prio) sch hio.2
      have hsb : SameBuf (s1.buf.replaceMem d tail) (postClock (s2.ioRun sch.prio) sch).buf := by
        have : SameBuf (s1.buf.replaceMem d tail) s2.buf := SameBuf.of_eq hb2
        exact this.trans (hio.1.trans hpo.1)
      exact stepOk_of hpo.2 hsb hrep.1
        (by rw [hrep.2]; rw [habs1] at hfca; simp only [Plain.exec, hfca]; rw [hb1])
        (by rw [habs1] at hfca; simp [resAgree, Plain.exec, hfca, hlast])

theorem execOp_purge {s : Sys} {ci ct : Nat} {sch : Sched} (hq : Quiet s) (hi : s.buf.Inv)
    (hwf : wfOp s.buf.abs (.purge ci ct sch) = true) :
    StepOk s (.purge ci ct sch) (execOp s (.purge ci ct sch)).1 (execOp s (.purge ci ct sch)).2.1 := by
  have hpc := preClock_frame s sch hq
  simp only [execOp]
  generalize preClock s sch = s1 at hpc ⊢
  obtain ⟨hb1, hq1⟩ := hpc
  have hi1 : s1.buf.Inv := by rw [hb1]; exact hi
  have hci : s1.buf.purgedI ≤ ci := by
    rw [hb1]
    simp only [wfOp, decide_eq_true_eq] at hwf
    exact hwf
  have hp := hi1.purgeMem ct hci
  obtain ⟨s2, he2, hb2, hq2⟩ := Sys.enqueue_quiet { s1 with buf := s1.buf.purgeMem ci ct } (.purge ci ct)
    ⟨hq1.1, hq1.2⟩ (by simp)
  have : s1.purgeMain ci ct = some s2 := he2
  simp only [this]
  have hio := Sys.ioRun_frame s2 sch.prio hq2
  have hpo := postClock_frame (s2.ioRun sch.prio) sch hio.2
  have hsb : SameBuf (s1.buf.purgeMem ci ct) (postClock (s2.ioRun sch.prio) sch).buf := by
    have : SameBuf (s1.buf.purgeMem ci ct) s2.buf := SameBuf.of_eq hb2
    exact this.trans (hio.1.trans hpo.1)
  exact stepOk_of hpo.2 hsb hp.1 (by rw [hp.2.1, hb1]; rfl) (by simp [resAgree])

theorem execOp_reset {s : Sys} {sch : Sched} (hq : Quiet s) (hi : s.buf.Inv) :
    StepOk s (.reset sch) (execOp s (.reset sch)).1 (execOp s (.reset sch)).2.1 := by
  have hpc := preClock_frame s sch hq
  simp only [execOp]
  generalize preClock s sch = s1 at hpc ⊢
  obtain ⟨hb1, hq1⟩ := hpc
  have hi1 : s1.buf.Inv := by rw [hb1]; exact hi
  have hrm := hi1.resetMem
  obtain ⟨s2, he2, hb2, hq2⟩ := Sys.enqueue_quiet { s1 with buf := s1.buf.resetMem } .reset ⟨hq1.1, hq1.2⟩ (by simp)
  have : s1.resetMain = some s2 := he2
  simp only [this]
  have hio := Sys.ioRun_frame s2 sch.prio hq2
  have hpo := postClock_frame (s2.ioRun sch.prio) sch hio.2
  have hsb : SameBuf s1.buf.resetMem (postClock (s2.ioRun sch.prio) sch).buf := by
    have : SameBuf s1.buf.resetMem s2.buf := SameBuf.of_eq hb2
    exact this.trans (hio.1.trans hpo.1)
  exact stepOk_of hpo.2 hsb hrm.1 (by rw [hrm.2, hb1]; rfl) (by simp [resAgree])

theorem execOp_flush {s : Sys} {sch : Sched} (hq : Quiet s) (hi : s.buf.Inv) :
    StepOk s (.flush sch) (execOp s (.flush sch)).1 (execOp s (.flush sch)).2.1 := by
  have hpc := preClock_frame s sch hq
  simp only [execOp]
  generalize preClock s sch = s1 at hpc ⊢
  obtain ⟨hb1, hq1⟩ := hpc
  have hi1 : s1.buf.Inv := by rw [hb1]; exact hi
  unfold Sys.flushMain
  by_cases h0 : s1.buf.maxIdx = 0
  · simp only [h0, if_true]
    have hpo := postClock_frame s1 sch hq1
    exact stepOk_of hpo.2 hpo.1 hi1 (by rw [hb1]; rfl) (by simp [resAgree])
  · simp only [h0, if_false]
    by_cases h1 : s1.buf.maxIdx ≤ s1.buf.durable
    · simp only [h1, if_true]
      have hpo := postClock_frame s1 sch hq1
      exact stepOk_of hpo.2 hpo.1 hi1 (by rw [hb1]; rfl) (by simp [resAgree])
    · simp only [h1, if_false]
      obtain ⟨s2, he2, hb2, hq2⟩ := Sys.enqueue_quiet s1 .flush hq1 (by simp)
      simp only [he2, Option.map_some]
      have hio := Sys.ioRun_frame s2 sch.prio hq2
      have hpo := postClock_frame (s2.ioRun sch.prio) sch hio.2
      have hsb : SameBuf s1.buf (postClock (s2.ioRun sch.prio) sch).buf := by
        have : SameBuf s1.buf s2.buf := SameBuf.of_eq hb2
        exact this.trans (hio.1.trans hpo.1)
      exact stepOk_of hpo.2 hsb hi1 (by rw [hb1]; rfl) (by simp [resAgree])

theorem execOp_alloc {s : Sys} {n : Nat} (hq : Quiet s) (hi : s.buf.Inv) :
    StepOk s (.alloc n) (execOp s (.alloc n)).1 (execOp s (.alloc n)).2.1 := by
  simp only [execOp, Buf.alloc]
  by_cases hn : n = 0
  · simp only [hn, if_true]
    exact stepOk_of (b' := s.buf) hq (SameBuf.refl _) hi rfl (by simp [resAgree])
  · simp only [hn, if_false]
    exact stepOk_of (b' := s.buf) ⟨hq.1, hq.2⟩ ⟨s.buf.durable, s.buf.nextId + n, rfl⟩ hi rfl (by simp [resAgree])
     

theorem execOp_get {s : Sys} {lo hi' : Nat} (hq : Quiet s) (hi : s.buf.Inv) :
    StepOk s (.get lo hi') (execOp s (.get lo hi')).1 (execOp s (.get lo hi')).2.1 := by
  simp only [execOp]
  exact stepOk_of hq (SameBuf.refl _) hi rfl (by simp [resAgree, Plain.exec, Buf.getRange, Plain.getRange, Buf.abs])

theorem execOp_io {s : Sys} {sch : Sched} (hq : Quiet s) (hi : s.buf.Inv) :
    StepOk s (.io sch) (execOp s (.io sch)).1 (execOp s (.io sch)).2.1 := by
  have hpc := preClock_frame s sch hq
  simp only [execOp]
  have hio := Sys.ioRun_frame (preClock s sch) sch.prio hpc.2
  exact stepOk_of hio.2 (by rw [← hpc.1]; exact hio.1) hi rfl (by simp [resAgree])

/-- **Refinement step.** -/
theorem execOp_refines {s : Sys} {op : Op} (hq : Quiet s) (hi : s.buf.Inv) (hwf : wfOp s.buf.abs op = true)
 :
    StepOk s op (execOp s op).1 (execOp s op).2.1 := by
  cases op with
  | append es => exact execOp_append hq hi hwf
  | fca prevI prevT es sch => exact execOp_fca hq hi hwf
  | purge ci ct sch => exact execOp_purge hq hi hwf
  | reset sch => exact execOp_reset hq hi
  | flush sch => exact execOp_flush hq hi
  | alloc n => exact execOp_alloc hq hi
  | get lo hi' => exact execOp_get hq hi
  | io sch => exact execOp_io hq hi
  | close sch => simp [wfOp] at hwf
  | crash p => simp [wfOp] at hwf

end DEngine.BufLog
