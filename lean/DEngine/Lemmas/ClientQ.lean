import DEngine.Model.ClientQ
import DEngine.Model.ClientQMon
/-!
  Inductive invariant of the M-CLIENTQ model and its preservation by every event (used by C29, C14, C30, C11).
-/
namespace DEngine.ClientQ

/-- the entry with 1-based index `i` -/
def St.entry? (s : St) (i : Nat) : Option LogEnt := if i = 0 then none else s.log[i - 1]?

def isWriteOf (id : Nat) (e : LogEnt) : Prop := ∃ op, e.kind = .write id op

/-- ids that own a log entry -/
def ownerOf (e : LogEnt) : Option Nat := match e.kind with | .write id _ => some id | _ => none

def St.owners (s : St) : List Nat := s.log.filterMap ownerOf

theorem ownerOf_eq_some {e : LogEnt} {id : Nat} : ownerOf e = some id ↔ isWriteOf id e := by
  unfold ownerOf isWriteOf
  cases hk : e.kind <;> simp

theorem mem_owners {s : St} {id : Nat} : id ∈ s.owners ↔ ∃ e ∈ s.log, isWriteOf id e := by
  unfold St.owners
  simp [List.mem_filterMap, ownerOf_eq_some]

/-- ownership of one `pending_client_writes` entry: the key is the end index, the batch lies inside the log,
    sender `j` owns entry `start + j`, and the batch waits for apply. -/
structure MetaOk (s : St) (e : Nat × WMeta) : Prop where
  nonempty : e.2.senders ≠ []
  key : e.1 + 1 = e.2.start + e.2.senders.length
  start_pos : 1 ≤ e.2.start
  inLog : e.1 ≤ s.log.length
  own : ∀ j (h : j < e.2.senders.length), ∃ le, s.log[e.2.start + j - 1]? = some le ∧ isWriteOf e.2.senders[j] le
  wait : e.2.wait = true

/-- The invariant. `R` is a ghost list of request ids that have been answered with a rejection. -/
structure Inv (R : List Nat) (s : St) : Prop where
  pcw : ∀ e ∈ s.pcw, MetaOk s e
  pwa : ∀ e ∈ s.pwa, 1 ≤ e.1 ∧ e.1 ≤ s.commit ∧ ∃ le, s.log[e.1 - 1]? = some le ∧ isWriteOf e.2 le
  propose_fresh : ∀ p ∈ s.propose, p.1 < s.nextId ∧ p.1 ∉ s.owners ∧ p.2 ≠ .empty
  propose_nodup : (s.propose.map (·.1)).Nodup
  owners_lt : ∀ id ∈ s.owners, id < s.nextId
  commit_le : s.commit ≤ s.log.length
  applied_le : s.applied ≤ s.commit
  term_pos : 1 ≤ s.term
  rej : ∀ id ∈ R, id < s.nextId ∧ id ∉ s.propose.map (·.1) ∧ id ∉ s.owners

variable {R : List Nat}

theorem inv_init (c : Cfg) (pre : Nat) : Inv [] (init c pre) := by
  constructor <;> simp [init, St.owners, ownerOf]

/-! ### log append keeps entries -/

theorem getElem?_append_some {α} {l l' : List α} {i : Nat} {x : α} (h : l[i]? = some x) : (l ++ l')[i]? = some x := by
  have hi : i < l.length := by
    rcases Nat.lt_or_ge i l.length with h' | h'
    · exact h'
    · simp [List.getElem?_eq_none h'] at h
  rw [List.getElem?_append_left hi]; exact h

theorem MetaOk.append {s : St} {e : Nat × WMeta} (h : MetaOk s e) (ext : List LogEnt) :
    MetaOk { s with log := s.log ++ ext } e := by
  refine ⟨h.nonempty, h.key, h.start_pos, ?_, ?_, h.wait⟩
  · simp; have := h.inLog; omega
  · intro j hj
    rcases h.own j hj with ⟨le, hle, hw⟩
    exact ⟨le, getElem?_append_some hle, hw⟩

theorem routeReads_state (c : Cfg) (s : St) (r : Option (List Nat)) :
    ∃ pr, (routeReads c s r).1 = { s with preads := pr } := by
  unfold routeReads
  split
  · split
    · exact ⟨s.preads, rfl⟩
    · exact ⟨_, rfl⟩
  · exact ⟨s.preads, rfl⟩

theorem execAppend_log (c : Cfg) (s : St) (ents wm) :
    (execAppend c s ents wm).log = s.log ++ ents.map fun k => { term := s.term, kind := k } := by
  unfold execAppend; simp only; repeat' split
  all_goals rfl

theorem execAppend_pcw (c : Cfg) (s : St) (ents wm) :
    (execAppend c s ents wm).pcw =
      match wm with
      | some m => if m.senders.isEmpty then s.pcw
                  else s.pcw ++ [(m.start + m.senders.length - 1, { m with deadline := s.now + c.timeout })]
      | none => s.pcw := by
  unfold execAppend; simp only; repeat' split
  all_goals simp_all

theorem execAppend_rest (c : Cfg) (s : St) (ents wm) :
    let t := execAppend c s ents wm
    t.pwa = s.pwa ∧ t.propose = s.propose ∧ t.nextId = s.nextId ∧ t.commit = s.commit ∧ t.applied = s.applied ∧
    t.term = s.term ∧ t.phase = s.phase ∧ t.now = s.now ∧ t.noopIdx = s.noopIdx ∧ t.preads = s.preads ∧
    t.pleases = s.pleases ∧ t.pca = s.pca ∧ t.kv = s.kv ∧ t.linBuf = s.linBuf ∧ t.leaseQ = s.leaseQ ∧
    t.evQ = s.evQ ∧ t.leaseDl = s.leaseDl ∧ t.leaseTerm = s.leaseTerm ∧ t.matchIdx = s.matchIdx := by
  unfold execAppend; simp only; repeat' split
  all_goals simp

/-- `execRpc` only touches log / pcw / preads / lastSendTs / rounds. -/
theorem execRpc_state (c : Cfg) (s : St) (ents wm reads) :
    ∃ pr rd, (execRpc c s ents wm reads).1 = { execAppend c s ents wm with preads := pr, rounds := rd } := by
  unfold execRpc
  simp only
  rcases routeReads_state c (execAppend c s ents wm) (gateReads (execAppend c s ents wm) reads).1 with ⟨pr, hpr⟩
  rw [hpr]
  split
  · exact ⟨pr, _, rfl⟩
  · exact ⟨pr, _, rfl⟩

theorem execRpc_log (c : Cfg) (s : St) (ents wm reads) :
    (execRpc c s ents wm reads).1.log = s.log ++ ents.map fun k => { term := s.term, kind := k } := by
  rcases execRpc_state c s ents wm reads with ⟨pr, rd, h⟩
  rw [h]; exact execAppend_log c s ents wm

theorem execRpc_pcw (c : Cfg) (s : St) (ents wm reads) :
    (execRpc c s ents wm reads).1.pcw =
      match wm with
      | some m => if m.senders.isEmpty then s.pcw
                  else s.pcw ++ [(m.start + m.senders.length - 1, { m with deadline := s.now + c.timeout })]
      | none => s.pcw := by
  rcases execRpc_state c s ents wm reads with ⟨pr, rd, h⟩
  rw [h]; exact execAppend_pcw c s ents wm

theorem execRpc_rest (c : Cfg) (s : St) (ents wm reads) :
    let t := (execRpc c s ents wm reads).1
    t.pwa = s.pwa ∧ t.propose = s.propose ∧ t.nextId = s.nextId ∧ t.commit = s.commit ∧ t.applied = s.applied ∧
    t.term = s.term ∧ t.phase = s.phase := by
  rcases execRpc_state c s ents wm reads with ⟨pr, rd, h⟩
  have := execAppend_rest c s ents wm
  simp only at this ⊢
  rw [h]
  exact ⟨this.1, this.2.1, this.2.2.1, this.2.2.2.1, this.2.2.2.2.1, this.2.2.2.2.2.1, this.2.2.2.2.2.2.1⟩

/-- Same log; queue entries only disappear; the propose buffer is re-justified by the caller. -/
theorem Inv.change {s t : St} (h : Inv R s) (hlog : t.log = s.log)
    (hpcw : ∀ e ∈ t.pcw, e ∈ s.pcw) (hpwa : ∀ e ∈ t.pwa, e ∈ s.pwa)
    (hfresh : ∀ p ∈ t.propose, p.1 < t.nextId ∧ p.1 ∉ s.owners ∧ p.2 ≠ .empty)
    (hnodup : (t.propose.map (·.1)).Nodup) (hid : s.nextId ≤ t.nextId)
    (hc : s.commit ≤ t.commit) (hcl : t.commit ≤ t.log.length) (ha : t.applied ≤ t.commit) (ht : 1 ≤ t.term)
    (hrej : ∀ id ∈ R, id ∉ t.propose.map (·.1)) :
    Inv R t := by
  have how : t.owners = s.owners := by simp [St.owners, hlog]
  refine ⟨?_, ?_, ?_, hnodup, ?_, hcl, ha, ht, fun id hid' => ⟨by have := (h.rej id hid').1; omega, hrej id hid',
    by rw [how]; exact (h.rej id hid').2.2⟩⟩
  · intro e he
    have m := h.pcw e (hpcw e he)
    exact ⟨m.nonempty, m.key, m.start_pos, by rw [hlog]; exact m.inLog, by rw [hlog]; exact m.own, m.wait⟩
  · intro e he
    rcases h.pwa e (hpwa e he) with ⟨h1, h2, h3⟩
    exact ⟨h1, by omega, by rw [hlog]; exact h3⟩
  · intro p hp
    rcases hfresh p hp with ⟨h1, h2, h3⟩
    exact ⟨h1, by rw [how]; exact h2, h3⟩
  · intro id hid'
    rw [how] at hid'
    have := h.owners_lt id hid'
    omega

/-- Shrinking lemma: same log, fewer queue entries, counters only grow. -/
theorem Inv.shrink {s t : St} (h : Inv R s) (hlog : t.log = s.log)
    (hpcw : ∀ e ∈ t.pcw, e ∈ s.pcw) (hpwa : ∀ e ∈ t.pwa, e ∈ s.pwa)
    (hprop : t.propose.Sublist s.propose) (hid : s.nextId ≤ t.nextId)
    (hc : s.commit ≤ t.commit) (hcl : t.commit ≤ t.log.length) (ha : t.applied ≤ t.commit) (ht : 1 ≤ t.term) :
    Inv R t :=
  h.change hlog hpcw hpwa
    (fun p hp => by
      rcases h.propose_fresh p (hprop.subset hp) with ⟨h1, h2, h3⟩
      exact ⟨by omega, h2, h3⟩)
    ((h.propose_nodup).sublist (hprop.map _)) hid hc hcl ha ht
    (fun id hid' hin => (h.rej id hid').2.1 ((hprop.map _).subset hin))

/-- Log extension by entries that are not client writes keeps the invariant. -/
theorem Inv.extend_plain {s t : St} (h : Inv R s) (ext : List LogEnt) (hlog : t.log = s.log ++ ext)
    (hnw : ∀ e ∈ ext, ownerOf e = none)
    (hpcw : t.pcw = s.pcw) (hpwa : t.pwa = s.pwa) (hprop : t.propose = s.propose) (hid : t.nextId = s.nextId)
    (hc : t.commit = s.commit) (ha : t.applied = s.applied) (ht : t.term = s.term) : Inv R t := by
  have how : t.owners = s.owners := by
    simp only [St.owners, hlog, List.filterMap_append]
    have : ext.filterMap ownerOf = [] := List.filterMap_eq_nil_iff.mpr hnw
    rw [this]; simp
  refine ⟨?_, ?_, ?_, ?_, ?_, ?_, ?_, ?_, fun id hid' => ⟨by rw [hid]; exact (h.rej id hid').1,
    by rw [hprop]; exact (h.rej id hid').2.1, by rw [how]; exact (h.rej id hid').2.2⟩⟩
  · intro e he; rw [hpcw] at he
    have m := (h.pcw e he).append ext
    exact ⟨m.nonempty, m.key, m.start_pos, by rw [hlog]; simpa using m.inLog, by rw [hlog]; exact m.own, m.wait⟩
  · intro e he; rw [hpwa] at he
    rcases h.pwa e he with ⟨h1, h2, le, h3, h4⟩
    exact ⟨h1, by omega, le, by rw [hlog]; exact getElem?_append_some h3, h4⟩
  · intro p hp; rw [hprop] at hp
    rcases h.propose_fresh p hp with ⟨h1, h2, h3⟩
    exact ⟨by omega, by rw [how]; exact h2, h3⟩
  · rw [hprop]; exact h.propose_nodup
  · intro id hid'; rw [how] at hid'; have := h.owners_lt id hid'; omega
  · rw [hc, hlog]; simp; have := h.commit_le; omega
  · rw [ha, hc]; exact h.applied_le
  · rw [ht]; exact h.term_pos

theorem filterMap_owner_batch (tm : Nat) (ps : List (Nat × WOp)) :
    (((ps.map fun p => EntKind.write p.1 p.2).map fun k => ({ term := tm, kind := k } : LogEnt)).filterMap ownerOf)
      = ps.map (·.1) := by
  induction ps with
  | nil => rfl
  | cons p ps ih => simp [ownerOf] at ih ⊢; exact ih

/-- The flushed batch: entries `write id op` for the buffered proposals, appended at `log.length + 1`, with
    the senders in the same order. -/
theorem Inv.extend_batch {s t : St} (h : Inv R s) (ps : List (Nat × WOp)) (hps : ps ≠ [])
    (hfresh : ∀ p ∈ ps, p.1 < s.nextId) (hnr : ∀ p ∈ ps, p.1 ∉ R)
    (tm dl : Nat)
    (hlog : t.log = s.log ++ (ps.map fun p => EntKind.write p.1 p.2).map fun k => { term := tm, kind := k })
    (hpcw : t.pcw = s.pcw ++ [(s.log.length + 1 + (ps.map (·.1)).length - 1,
        { start := s.log.length + 1, senders := ps.map (·.1), wait := true, deadline := dl })])
    (hpwa : t.pwa = s.pwa) (hprop : t.propose = []) (hid : t.nextId = s.nextId)
    (hc : t.commit = s.commit) (ha : t.applied = s.applied) (ht : t.term = s.term) : Inv R t := by
  have how : t.owners = s.owners ++ ps.map (·.1) := by
    simp only [St.owners, hlog, List.filterMap_append, filterMap_owner_batch]
  have hlen : t.log.length = s.log.length + ps.length := by simp [hlog]
  refine ⟨?_, ?_, ?_, ?_, ?_, ?_, ?_, ?_, fun id hid' => ⟨by rw [hid]; exact (h.rej id hid').1,
    by rw [hprop]; simp, ?_⟩⟩
  rotate_right
  · rw [how]
    intro hin
    rcases List.mem_append.mp hin with h1 | h1
    · exact (h.rej id hid').2.2 h1
    · rcases List.mem_map.mp h1 with ⟨p, hp, rfl⟩
      exact hnr p hp hid'
  · intro e he; rw [hpcw] at he
    rcases List.mem_append.mp he with he | he
    · have m := (h.pcw e he).append ((ps.map fun p => EntKind.write p.1 p.2).map fun k => { term := tm, kind := k })
      exact ⟨m.nonempty, m.key, m.start_pos, by rw [hlog]; simpa using m.inLog, by rw [hlog]; exact m.own, m.wait⟩
    · simp at he; subst he
      refine ⟨by simpa using hps, by simp; have : ps.length ≥ 1 := List.length_pos_iff.mpr hps; omega,
        by simp, by simp [hlen], ?_, rfl⟩
      intro j hj
      simp at hj
      refine ⟨{ term := tm, kind := .write ps[j].1 ps[j].2 }, ?_, ⟨ps[j].2, by simp⟩⟩
      rw [hlog]
      have : s.log.length + 1 + j - 1 = s.log.length + j := by omega
      simp only [this]
      rw [List.getElem?_append_right (by omega)]
      simp [hj]
  · intro e he; rw [hpwa] at he
    rcases h.pwa e he with ⟨h1, h2, le, h3, h4⟩
    exact ⟨h1, by omega, le, by rw [hlog]; exact getElem?_append_some h3, h4⟩
  · intro p hp; rw [hprop] at hp; simp at hp
  · rw [hprop]; simp
  · intro id hid'; rw [how] at hid'
    rcases List.mem_append.mp hid' with h1 | h1
    · have := h.owners_lt id h1; omega
    · rcases List.mem_map.mp h1 with ⟨p, hp, rfl⟩
      have := hfresh p hp; omega
  · rw [hc, hlen]; have := h.commit_le; omega
  · rw [ha, hc]; exact h.applied_le
  · rw [ht]; exact h.term_pos

theorem Inv.drainWrites {s : St} (h : Inv R s) (nc : Nat) (hnc : nc ≤ s.commit) : Inv R (drainWrites s nc).1 := by
  unfold DEngine.ClientQ.drainWrites
  simp only
  refine ⟨?_, ?_, ?_, ?_, ?_, ?_, ?_, ?_, h.rej⟩
  · intro e he
    have he' : e ∈ s.pcw := (List.mem_filter.mp he).1
    have m := h.pcw e he'
    exact ⟨m.nonempty, m.key, m.start_pos, m.inLog, m.own, m.wait⟩
  · intro e he
    simp only at he
    rcases List.mem_append.mp he with he | he
    · exact h.pwa e he
    · rcases List.mem_flatMap.mp he with ⟨m, hm, hin⟩
      have hm' := List.mem_filter.mp hm
      have mo := h.pcw m hm'.1
      have hk : m.1 ≤ nc := by simpa using hm'.2
      simp only [mo.wait, ↓reduceIte] at hin
      rcases List.mem_map.mp hin with ⟨⟨id, j⟩, hij, rfl⟩
      have hj := List.mem_zipIdx hij
      simp at hj
      rcases hj with ⟨hjlt, hid⟩
      have hkey := mo.key
      have hsp := mo.start_pos
      rcases mo.own j hjlt with ⟨le, hle, hw⟩
      refine ⟨by simp; omega, by simp; omega, le, ?_, ?_⟩
      · simpa using hle
      · simpa [hid] using hw
  · exact h.propose_fresh
  · exact h.propose_nodup
  · exact h.owners_lt
  · exact h.commit_le
  · exact h.applied_le
  · exact h.term_pos
theorem Inv.frame {s t : St} (h : Inv R s) (h1 : t.log = s.log) (h2 : t.pcw = s.pcw) (h3 : t.pwa = s.pwa)
    (h4 : t.propose = s.propose) (h5 : t.nextId = s.nextId) (h6 : t.commit = s.commit)
    (h7 : t.applied = s.applied) (h8 : t.term = s.term) : Inv R t :=
  h.shrink h1 (by rw [h2]; exact fun _ h => h) (by rw [h3]; exact fun _ h => h) (by rw [h4]; exact List.Sublist.refl _)
    (by omega) (by omega) (by rw [h6, h1]; exact h.commit_le) (by rw [h7, h6]; exact h.applied_le)
    (by rw [h8]; exact h.term_pos)

theorem default_term : (default : LogEnt).term = 0 := rfl

theorem termAt_in_log {s : St} {m : Nat} (ht : 1 ≤ s.term) (hm : m ≠ 0) (h : s.termAt m = s.term) :
    m ≤ s.log.length := by
  unfold St.termAt at h
  have hm' : (m == 0) = false := by simpa using hm
  simp only [hm', Bool.false_eq_true, ↓reduceIte] at h
  apply Classical.byContradiction
  intro hgt
  have hlen : s.log.length ≤ m - 1 := by omega
  have hn : s.log[m - 1]? = none := List.getElem?_eq_none hlen
  simp [List.getD, hn, default_term] at h
  omega

theorem majorityOf_le {s : St} {ids : List Nat} {m : Nat} (ht : 1 ≤ s.term) (h : majorityOf s ids = some m) :
    m ≤ s.log.length ∧ s.commit ≤ m := by
  unfold majorityOf at h
  simp only at h
  generalize (sortDesc (ids ++ [s.lastEntry])).getD ((sortDesc (ids ++ [s.lastEntry])).length / 2) 0 = x at h
  split at h
  · simp at h
  · rename_i hlt
    split at h
    · rename_i hc
      injection h with h; subst h
      simp only [Bool.and_eq_true, ne_eq, decide_eq_true_eq, beq_iff_eq] at hc
      exact ⟨termAt_in_log ht hc.1 hc.2, by omega⟩
    · simp at h

theorem newCommit_spec {s : St} {m : Nat} (ht : 1 ≤ s.term) (h : newCommit s = some m) :
    m ≤ s.log.length ∧ s.commit < m := by
  unfold newCommit at h
  split at h
  · rename_i m' hm
    split at h
    · injection h with h; subst h
      exact ⟨(majorityOf_le ht hm).1, by assumption⟩
    · simp at h
  · simp at h

theorem Inv.pushWrite (c : Cfg) {s : St} (h : Inv R s) (op : WOp) : Inv R (pushWrite c s op).1 := by
  unfold DEngine.ClientQ.pushWrite
  simp only
  have hb : Inv R ({ s with nextId := s.nextId + 1 } : St) :=
    h.shrink rfl (fun _ h => h) (fun _ h => h) (List.Sublist.refl _) (by simp) (Nat.le_refl _) h.commit_le
      h.applied_le h.term_pos
  split
  · exact hb
  · split
    · exact hb
    · split
      · exact hb
      · rename_i hne
        refine h.change rfl (fun _ h => h) (fun _ h => h) ?_ ?_ (by simp) (Nat.le_refl _) h.commit_le
          h.applied_le h.term_pos ?_
        rotate_right
        · intro id hid' hin
          simp only [List.map_append, List.map_cons, List.map_nil, List.mem_append, List.mem_singleton] at hin
          rcases hin with hin | hin
          · exact (h.rej id hid').2.1 hin
          · have := (h.rej id hid').1; omega
        · intro p hp
          simp only at hp
          rcases List.mem_append.mp hp with hp | hp
          · rcases h.propose_fresh p hp with ⟨h1, h2, h3⟩
            exact ⟨by simp; omega, h2, h3⟩
          · simp at hp; subst hp
            refine ⟨by simp, ?_, by simpa using hne⟩
            intro hin
            have := h.owners_lt _ hin
            simp at this
        · simp only [List.map_append, List.map_cons, List.map_nil]
          apply List.nodup_append.mpr
          refine ⟨h.propose_nodup, by simp, ?_⟩
          intro a ha b hb'
          simp at hb'; subst hb'
          rcases List.mem_map.mp ha with ⟨p, hp, rfl⟩
          have := (h.propose_fresh p hp).1
          omega

theorem Inv.pushRead (c : Cfg) {s : St} (h : Inv R s) (p : Nat) : Inv R (pushRead c s p).1 := by
  have hb : Inv R ({ s with nextId := s.nextId + 1 } : St) :=
    h.shrink rfl (fun _ h => h) (fun _ h => h) (List.Sublist.refl _) (by simp) (Nat.le_refl _) h.commit_le
      h.applied_le h.term_pos
  unfold DEngine.ClientQ.pushRead
  simp only
  repeat' split
  all_goals exact hb.frame rfl rfl rfl rfl rfl rfl rfl rfl

theorem Inv.pushScan (c : Cfg) {s : St} (h : Inv R s) : Inv R (pushScan c s).1 := by
  unfold DEngine.ClientQ.pushScan
  exact h.shrink rfl (fun _ h => h) (fun _ h => h) (List.Sublist.refl _) (by simp) (Nat.le_refl _) h.commit_le
      h.applied_le h.term_pos

/-- `execRpc` with entries that are not client writes and no senders. -/
theorem Inv.execRpc_plain (c : Cfg) {s : St} (h : Inv R s) (ents : List EntKind) (wm : Option WMeta) (reads)
    (hents : ∀ k ∈ ents, ∀ id op, k ≠ .write id op)
    (hwm : ∀ m, wm = some m → m.senders = []) : Inv R (execRpc c s ents wm reads).1 := by
  have hr := execRpc_rest c s ents wm reads
  simp only at hr
  refine h.extend_plain (ents.map fun k => { term := s.term, kind := k }) (execRpc_log ..) ?_ ?_ hr.1 hr.2.1 hr.2.2.1
    hr.2.2.2.1 hr.2.2.2.2.1 hr.2.2.2.2.2.1
  · intro e he
    rcases List.mem_map.mp he with ⟨k, hk, rfl⟩
    unfold ownerOf
    cases hkk : k <;> simp
    exact absurd hkk (hents k hk _ _)
  · rw [execRpc_pcw]
    cases wm with
    | none => rfl
    | some m => simp [hwm m rfl]

theorem flushPropose_none {s s1 : St} (h : flushPropose s = (s1, none)) : s1 = s ∧ s.propose = [] := by
  unfold flushPropose at h
  split at h
  · rename_i he; simp at h; exact ⟨h.symm, by simpa using he⟩
  · simp at h

theorem flushPropose_some {s s1 : St} {ents m} (h : flushPropose s = (s1, some (ents, m))) :
    s1 = { s with propose := [] } ∧ s.propose ≠ [] ∧ ents = s.propose.map (fun p => EntKind.write p.1 p.2) ∧
    m = { start := s.lastEntry + 1, senders := s.propose.map (·.1), wait := true, deadline := 0 } := by
  unfold flushPropose at h
  split at h
  · simp at h
  · rename_i he
    simp at h
    exact ⟨h.1.symm, by simpa using he, h.2.1.symm, h.2.2.symm⟩

/-- flushing the propose buffer and appending the batch through `execRpc`, with any frame-preserving record
    update in between (timer reset, read buffer take). -/
theorem Inv.flush_exec (c : Cfg) {s s1 s2 : St} {ents m} (h : Inv R s) (hf : flushPropose s = (s1, some (ents, m)))
    (h2 : s2.log = s1.log ∧ s2.pcw = s1.pcw ∧ s2.pwa = s1.pwa ∧ s2.propose = s1.propose ∧ s2.nextId = s1.nextId ∧
      s2.commit = s1.commit ∧ s2.applied = s1.applied ∧ s2.term = s1.term) (reads) :
    Inv R (execRpc c s2 ents (some m) reads).1 := by
  rcases flushPropose_some hf with ⟨rfl, hne, rfl, rfl⟩
  simp only at h2
  rcases h2 with ⟨e1, e2, e3, e4, e5, e6, e7, e8⟩
  have hr := execRpc_rest c s2 (s.propose.map fun p => EntKind.write p.1 p.2)
    (some { start := s.lastEntry + 1, senders := s.propose.map (·.1), wait := true, deadline := 0 }) reads
  simp only at hr
  refine h.extend_batch s.propose hne (fun p hp => (h.propose_fresh p hp).1)
    (fun p hp hin => (h.rej p.1 hin).2.1 (List.mem_map.mpr ⟨p, hp, rfl⟩)) s2.term (s2.now + c.timeout) ?_ ?_
    (by rw [hr.1, e3]) (by rw [hr.2.1, e4]) (by rw [hr.2.2.1, e5]) (by rw [hr.2.2.2.1, e6])
    (by rw [hr.2.2.2.2.1, e7]) (by rw [hr.2.2.2.2.2.1, e8])
  · rw [execRpc_log, e1]
  · rw [execRpc_pcw, e2]
    have : (s.propose.map (·.1)).isEmpty = false := by
      cases hp : s.propose with
      | nil => exact absurd hp hne
      | cons a l => rfl
    simp only [this, Bool.false_eq_true, ↓reduceIte, St.lastEntry]

theorem Inv.processLeaseRead (c : Cfg) {s : St} (h : Inv R s) (id : Nat) : Inv R (processLeaseRead c s id).1 := by
  unfold DEngine.ClientQ.processLeaseRead
  split
  · exact h
  · split
    · exact h.frame rfl rfl rfl rfl rfl rfl rfl rfl
    · exact (h.frame (t := { s with pleases := s.pleases ++ [(id, s.now + c.timeout)] }) rfl rfl rfl rfl rfl rfl rfl rfl).execRpc_plain
        c [] none none (by simp) (by simp)

theorem Inv.processLeaseReads (c : Cfg) (ids : List Nat) : ∀ {s : St}, Inv R s → Inv R (processLeaseReads c s ids).1 := by
  induction ids with
  | nil => intro s h; exact h
  | cons id rest ih =>
    intro s h
    unfold DEngine.ClientQ.processLeaseReads
    exact ih (h.processLeaseRead c id)

theorem Inv.drainActions {s : St} (h : Inv R s) (nc : Nat) : Inv R (drainActions s nc).1 := by
  unfold DEngine.ClientQ.drainActions
  simp only
  split <;> exact h.frame rfl rfl rfl rfl rfl rfl rfl rfl

theorem Inv.drainPleases {s : St} (h : Inv R s) : Inv R (drainPleases s).1 :=
  h.frame rfl rfl rfl rfl rfl rfl rfl rfl

theorem Inv.servePreads {s : St} (h : Inv R s) (u : Nat) : Inv R (servePreads s u).1 :=
  h.frame rfl rfl rfl rfl rfl rfl rfl rfl

theorem Inv.sweep (c : Cfg) {s : St} (h : Inv R s) : Inv R (sweep c s).1 := by
  unfold DEngine.ClientQ.sweep
  simp only
  split
  all_goals
    exact h.shrink rfl (fun e he => (List.mem_filter.mp he).1) (fun _ h => h) (List.Sublist.refl _) (Nat.le_refl _)
      (Nat.le_refl _) h.commit_le h.applied_le h.term_pos

/-- commit advance to `nc` followed by the two drains (shared by `ackSuccess` and `logFlushed`). -/
theorem Inv.commitTo {s : St} (h : Inv R s) (nc : Nat) (h1 : s.commit ≤ nc) (h2 : nc ≤ s.log.length) :
    Inv R (DEngine.ClientQ.drainActions (DEngine.ClientQ.drainWrites ({ s with commit := nc } : St) nc).1 nc).1 := by
  have hc : Inv R ({ s with commit := nc } : St) :=
    h.shrink rfl (fun _ h => h) (fun _ h => h) (List.Sublist.refl _) (Nat.le_refl _) h1 h2
      (by have := h.applied_le; simp; omega) h.term_pos
  exact (hc.drainWrites nc (Nat.le_refl _)).drainActions nc

theorem Inv.commitTo' {s : St} (h : Inv R s) (nc : Nat) (h1 : s.commit ≤ nc) (h2 : nc ≤ s.log.length) :
    Inv R (DEngine.ClientQ.commitTo s nc).1 := by
  unfold DEngine.ClientQ.commitTo
  exact h.commitTo nc h1 h2

theorem Inv.advanceCommit {s : St} (h : Inv R s) : Inv R (advanceCommit s (newCommit s)).1 := by
  unfold DEngine.ClientQ.advanceCommit
  split
  · rename_i nc hnc
    have := newCommit_spec h.term_pos hnc
    exact h.commitTo' nc (by omega) this.1
  · exact h

theorem Inv.onQuorum (c : Cfg) {s : St} (h : Inv R s) : Inv R (onQuorum c s).1 := by
  unfold DEngine.ClientQ.onQuorum
  simp only
  apply Inv.servePreads
  apply Inv.drainPleases
  exact h.frame rfl rfl rfl rfl rfl rfl rfl rfl

theorem Inv.ackSuccess (c : Cfg) {s : St} (h : Inv R s) (p m : Nat) : Inv R (ackSuccess c s p m).1 := by
  unfold DEngine.ClientQ.ackSuccess
  split
  · exact h
  · simp only
    have h0 : Inv R ({ s with matchIdx := setMatch s.matchIdx (p - 2) m } : St) :=
      h.frame rfl rfl rfl rfl rfl rfl rfl rfl
    have h1 := h0.advanceCommit
    split
    · exact h1.onQuorum c
    · exact h1

theorem Inv.ackHigherTerm {s : St} (h : Inv R s) (t : Nat) : Inv R (ackHigherTerm s t).1 := by
  unfold DEngine.ClientQ.ackHigherTerm
  split
  · exact h
  · simp only [drainWritesErr]
    exact h.shrink rfl (by simp) (fun _ h => h) (List.Sublist.refl _) (Nat.le_refl _) (Nat.le_refl _) h.commit_le
      h.applied_le (by have := h.term_pos; simp; omega)

theorem Inv.logFlushed (c : Cfg) {s : St} (h : Inv R s) : Inv R (logFlushed c s).1 := by
  unfold DEngine.ClientQ.logFlushed
  simp only
  split
  · exact h
  · rename_i n hn
    have hsp : s.commit ≤ n ∧ n ≤ s.log.length := by
      split at hn
      · split at hn
        · injection hn with hn; subst hn; simp [St.lastEntry] at *; omega
        · simp at hn
      · have := newCommit_spec h.term_pos hn; omega
    have h1 := h.commitTo' n hsp.1 hsp.2
    split
    · apply Inv.drainPleases
      exact h1.frame rfl rfl rfl rfl rfl rfl rfl rfl
    · exact h1

theorem Inv.applyUpTo {s : St} (h : Inv R s) (k : Nat) : Inv R (applyUpTo s k).1 := by
  unfold DEngine.ClientQ.applyUpTo
  simp only
  split
  · exact h
  · apply Inv.servePreads
    refine h.shrink rfl (fun _ h => h) (fun e he => (List.mem_filter.mp he).1) (List.Sublist.refl _) (Nat.le_refl _)
      (Nat.le_refl _) h.commit_le ?_ h.term_pos
    simp; omega

theorem Inv.stepDown {s : St} (h : Inv R s) : Inv R (stepDown s).1 := by
  unfold DEngine.ClientQ.stepDown
  exact h.shrink rfl (by simp) (by simp) (by simp) (Nat.le_refl _) (Nat.le_refl _) h.commit_le h.applied_le h.term_pos

theorem Inv.fatalInbound {s : St} (h : Inv R s) : Inv R (fatalInbound s).1 := by
  unfold DEngine.ClientQ.fatalInbound
  exact h.shrink rfl (fun _ h => h) (by simp) (List.Sublist.refl _) (Nat.le_refl _) (Nat.le_refl _) h.commit_le
    h.applied_le h.term_pos

theorem Inv.initNoop (c : Cfg) {s : St} (h : Inv R s) : Inv R (initNoop c s).1 := by
  unfold DEngine.ClientQ.initNoop
  simp only
  apply Inv.execRpc_plain
  · exact h.frame rfl rfl rfl rfl rfl rfl rfl rfl
  · simp
  · intro m hm; injection hm with hm; subst hm; rfl

theorem Inv.join (c : Cfg) {s : St} (h : Inv R s) (n : Nat) : Inv R (join c s n).1 := by
  have hb : Inv R ({ s with nextId := s.nextId + 1 } : St) :=
    h.shrink rfl (fun _ h => h) (fun _ h => h) (List.Sublist.refl _) (by simp) (Nat.le_refl _) h.commit_le
      h.applied_le h.term_pos
  unfold DEngine.ClientQ.join
  simp only
  split
  · exact hb
  · refine Inv.frame (s := (execRpc c _ _ _ _).1) ?_ rfl rfl rfl rfl rfl rfl rfl rfl
    apply Inv.execRpc_plain
    · exact hb.frame rfl rfl rfl rfl rfl rfl rfl rfl
    · simp
    · intro m hm; injection hm with hm; subst hm; rfl

theorem flushPropose_eta (s : St) : flushPropose s = ((flushPropose s).1, (flushPropose s).2) := rfl

theorem flushPropose_fst (s : St) : (flushPropose s).1 = if s.propose.isEmpty then s else { s with propose := [] } := by
  unfold flushPropose; split <;> rfl

/-- the shared "flush the propose buffer, then `execRpc`" step of `flush_cmd_buffers` and `tick`. -/
theorem Inv.flushThenExec (c : Cfg) {s : St} (h : Inv R s) (upd : St → St)
    (hupd : ∀ x : St, (upd x).log = x.log ∧ (upd x).pcw = x.pcw ∧ (upd x).pwa = x.pwa ∧ (upd x).propose = x.propose ∧
      (upd x).nextId = x.nextId ∧ (upd x).commit = x.commit ∧ (upd x).applied = x.applied ∧ (upd x).term = x.term)
    (reads : Option (List Nat)) :
    Inv R (match (flushPropose s).2 with
      | some b => execRpc c (upd (flushPropose s).1) b.1 (some b.2) reads
      | none => execRpc c (upd (flushPropose s).1) [] none reads).1 := by
  split
  · rename_i b hb
    exact h.flush_exec c (s1 := (flushPropose s).1) (by rw [← hb]) (hupd _) reads
  · rename_i hn
    have := flushPropose_none (s := s) (s1 := (flushPropose s).1) (by rw [← hn])
    apply Inv.execRpc_plain
    · rw [this.1]
      have u := hupd s
      exact h.frame u.1 u.2.1 u.2.2.1 u.2.2.2.1 u.2.2.2.2.1 u.2.2.2.2.2.1 u.2.2.2.2.2.2.1 u.2.2.2.2.2.2.2
    · simp
    · simp

theorem Inv.flushMain (c : Cfg) {s : St} (h : Inv R s) : Inv R (flushMain c s).1 := by
  unfold DEngine.ClientQ.flushMain
  simp only
  split
  · -- pure write path
    split
    · rename_i b hb
      exact h.flush_exec c (s1 := (flushPropose s).1) (by rw [← hb]) (by simp) none
    · rename_i hn
      have := flushPropose_none (s := s) (s1 := (flushPropose s).1) (by rw [← hn])
      rw [this.1]
      exact h.frame rfl rfl rfl rfl rfl rfl rfl rfl
  · split
    · exact h.flushThenExec c (fun x => { x with linBuf := [] }) (by intro x; simp) _
    · exact h

theorem Inv.flush (c : Cfg) {s : St} (h : Inv R s) : Inv R (flush c s).1 := by
  unfold DEngine.ClientQ.flush
  simp only
  refine Inv.frame (s := (DEngine.ClientQ.processLeaseReads c _ _).1) ?_ rfl rfl rfl rfl rfl rfl rfl rfl
  apply Inv.processLeaseReads
  exact (h.flushMain c).frame rfl rfl rfl rfl rfl rfl rfl rfl

theorem Inv.heartbeat (c : Cfg) {s : St} (h : Inv R s) : Inv R (heartbeat c s).1 := by
  unfold DEngine.ClientQ.heartbeat
  split
  · exact h.flushThenExec c (fun x => { x with replDl := x.now + c.hb }) (by intro x; simp) none
  · exact h

theorem Inv.tick (c : Cfg) {s : St} (h : Inv R s) (ms : Nat) : Inv R (tick c s ms).1 := by
  unfold DEngine.ClientQ.tick
  simp only
  apply Inv.sweep
  apply Inv.heartbeat
  exact h.frame rfl rfl rfl rfl rfl rfl rfl rfl

theorem Inv.step (c : Cfg) {s : St} (h : Inv R s) (e : Ev) : Inv R (step c s e).1 := by
  unfold DEngine.ClientQ.step
  split
  · exact h
  · split
    · split
      · exact h.pushWrite c _
      · exact h.pushRead c _
      · exact h.pushScan c
      · exact h
    · split
      · exact h.pushWrite c _
      · exact h.pushRead c _
      · exact h.pushScan c
      · exact h.join c _
      · exact h.flush c
      · exact h.tick c _
      · exact h.ackSuccess c _ _
      · exact h
      · split
        · exact h.ackHigherTerm _
        · split
          · exact h.ackSuccess c _ _
          · exact h
      · exact h
      · exact h.logFlushed c
      · exact h.applyUpTo _
      · exact h.stepDown
      · exact h.fatalInbound
      · exact h.frame rfl rfl rfl rfl rfl rfl rfl rfl
      · exact h.initNoop c

theorem Inv.run (c : Cfg) (evs : List Ev) : ∀ {s : St}, Inv R s → Inv R (run c s evs).1 := by
  induction evs with
  | nil => intro s h; exact h
  | cons e es ih => intro s h; unfold DEngine.ClientQ.run; exact ih (h.step c e)

/-- **The invariant holds in every reachable state.** -/
theorem inv_reachable (c : Cfg) (pre : Nat) (evs : List Ev) : Inv [] (run c (init c pre) evs).1 :=
  (inv_init c pre).run c evs

end DEngine.ClientQ

namespace DEngine.ClientQ
theorem servePreads_applied (s : St) (u : Nat) : (servePreads s u).1.applied = s.applied := rfl
theorem servePreads_commit (s : St) (u : Nat) : (servePreads s u).1.commit = s.commit := rfl
theorem servePreads_log (s : St) (u : Nat) : (servePreads s u).1.log = s.log := rfl

/-- effective target of an apply event -/
def applyTarget (s : St) (k : Nat) : Nat := min k (min s.commit s.lastEntry)

theorem applyUpTo_noop {s : St} {k : Nat} (h : applyTarget s k ≤ s.applied) : applyUpTo s k = (s, []) := by
  unfold applyUpTo applyTarget at *
  simp only
  rw [if_pos h]

/-- the state the Path B drain runs on during an apply event -/
def applyMid (s : St) (k : Nat) : St :=
  let ar := applyRange s.log s.kv s.applied (applyTarget s k - s.applied)
  { s with kv := ar.1, applied := applyTarget s k, pwa := s.pwa.filter fun e => !(ar.2.any (·.1 == e.1)) }

theorem applyUpTo_fields {s : St} {k : Nat} (h : ¬ applyTarget s k ≤ s.applied) :
    (applyUpTo s k).1.applied = applyTarget s k ∧ (applyUpTo s k).1.log = s.log ∧
    (applyUpTo s k).1.commit = s.commit ∧
    (applyUpTo s k).2 =
      applyResponses s.pwa (applyRange s.log s.kv s.applied (applyTarget s k - s.applied)).2 ++
      (servePreads (applyMid s k) (applyTarget s k)).2 := by
  unfold applyUpTo applyMid applyTarget at *
  simp only
  rw [if_neg h]
  exact ⟨rfl, rfl, rfl, rfl⟩
end DEngine.ClientQ

namespace DEngine.ClientQ
def St.pendW (s : St) : List Nat := s.propose.map (·.1) ++ s.pcw.flatMap (·.2.senders) ++ s.pwa.map (·.2)
def St.pendR (s : St) : List Nat :=
  s.linBuf ++ s.leaseQ ++ s.evQ ++ s.preads.flatMap (·.2.2) ++ s.pleases.map (·.1)
def joinId : (Nat × Nat × CAct) → Option Nat
  | (_, _, .join id) => some id
  | _ => none
def St.pendJ (s : St) : List Nat := s.pca.filterMap joinId
/-- every request id whose sender sits in some queue of the leader -/
def St.pending (s : St) : List Nat := s.pendW ++ s.pendR ++ s.pendJ

theorem mem_pending {s : St} {id : Nat} : id ∈ s.pending ↔
    (∃ p ∈ s.propose, p.1 = id) ∨ (∃ e ∈ s.pcw, id ∈ e.2.senders) ∨ (∃ e ∈ s.pwa, e.2 = id) ∨
    id ∈ s.linBuf ∨ id ∈ s.leaseQ ∨ id ∈ s.evQ ∨ (∃ e ∈ s.preads, id ∈ e.2.2) ∨ (∃ e ∈ s.pleases, e.1 = id) ∨
    (∃ e ∈ s.pca, joinId e = some id) := by
  simp [St.pending, St.pendW, St.pendR, St.pendJ, List.mem_flatMap, List.mem_filterMap]

theorem mem_answerAll {ids : List Nat} {r : Resp} {x : Nat × Resp} : x ∈ answerAll ids r ↔ x.1 ∈ ids ∧ x.2 = r := by
  simp only [answerAll, List.mem_map]
  constructor
  · rintro ⟨i, hi, rfl⟩; exact ⟨hi, rfl⟩
  · rintro ⟨h1, h2⟩; exact ⟨x.1, h1, by rw [← h2]⟩
end DEngine.ClientQ
