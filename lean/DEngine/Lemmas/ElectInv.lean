import DEngine.Lemmas.Elect
/-!
  Inductive invariant of the cluster model (`DEngine.Model.ElectCluster`) and its preservation by every
  step whose label is `Safe` (the explicit hypotheses of C01/C02/C31).
-/
namespace DEngine.Elect

/-! ### small facts -/

@[simp] theorem upd_same {α : Type} (f : Nat → α) (i : Nat) (v : α) : upd f i v i = v := by simp [upd]
theorem upd_other {α : Type} (f : Nat → α) (i j : Nat) (v : α) (h : j ≠ i) : upd f i v j = f j := by simp [upd, h]

/-- `l` is recorded as leader of term `t` -/
def Cluster.isL (c : Cluster) (l t : Nat) : Prop := ∃ Q, (l, t, Q) ∈ c.leaders

theorem isLeaderAt_iff (c : Cluster) (l t : Nat) : c.isLeaderAt l t = true ↔ c.isL l t := by
  unfold Cluster.isLeaderAt Cluster.isL
  rw [List.any_eq_true]
  constructor
  · rintro ⟨⟨a, b, Q⟩, hm, h⟩
    simp only [Bool.and_eq_true, beq_iff_eq] at h
    exact ⟨Q, by rw [← h.1, ← h.2]; exact hm⟩
  · rintro ⟨Q, hm⟩
    exact ⟨(l, t, Q), hm, by simp⟩

theorem isLeaderAt_false_iff (c : Cluster) (l t : Nat) : c.isLeaderAt l t = false ↔ ¬ c.isL l t := by
  rw [← isLeaderAt_iff]; simp

/-- two strict majorities of the same voter list share a member (all sizes) -/
theorem quorum_intersect (V Q1 Q2 : List Nat) (h1 : Q1.Nodup) (h2 : Q2.Nodup)
    (s1 : ∀ q ∈ Q1, q ∈ V) (s2 : ∀ q ∈ Q2, q ∈ V)
    (m1 : V.length < 2 * Q1.length) (m2 : V.length < 2 * Q2.length) : ∃ x, x ∈ Q1 ∧ x ∈ Q2 := by
  apply Classical.byContradiction
  intro hno
  have hdisj : ∀ a, a ∈ Q1 → ∀ b, b ∈ Q2 → a ≠ b := by
    intro a ha b hb hab
    exact hno ⟨a, ha, hab ▸ hb⟩
  have hnd : (Q1 ++ Q2).Nodup := List.nodup_append.mpr ⟨h1, h2, hdisj⟩
  have hsub : (Q1 ++ Q2) ⊆ V := by
    intro x hx
    rcases List.mem_append.mp hx with h | h
    · exact s1 x h
    · exact s2 x h
  have := List.Nodup.length_le_of_subset hnd hsub
  rw [List.length_append] at this
  omega

/-! ### the tally -/

def isGrant : Resp → Bool
  | .ok true _ _ _ => true
  | _ => false

def countGranted (rs : List Resp) : Nat := (rs.filter isGrant).length

theorem tallyLoop_inl (term lli llt : Nat) (rs : List Resp) (s s' : Nat)
    (h : tallyLoop term lli llt rs s = .inl s') : s' = s + countGranted rs := by
  induction rs generalizing s with
  | nil => simp [tallyLoop] at h; simp [countGranted, h]
  | cons r rs ih =>
    cases r with
    | err => simp only [tallyLoop] at h; have := ih s h; simpa [countGranted, isGrant] using this
    | ok g t a b =>
      cases g
      · simp only [tallyLoop] at h
        split at h
        · cases h
        · split at h
          · cases h
          · have := ih s h; simpa [countGranted, isGrant] using this
      · simp only [tallyLoop] at h
        have := ih (s + 1) h
        simp only [countGranted, List.filter_cons, isGrant, if_true, List.length_cons] at this ⊢
        omega

theorem tallyLoop_higher (term lli llt : Nat) (rs : List Resp) (s t : Nat)
    (h : tallyLoop term lli llt rs s = .inr (.higherTerm t)) : term < t := by
  induction rs generalizing s with
  | nil => simp [tallyLoop] at h
  | cons r rs ih =>
    cases r with
    | err => exact ih s (by simpa [tallyLoop] using h)
    | ok g t' a b =>
      cases g
      · simp only [tallyLoop] at h
        split at h
        · rename_i hh
          cases h
          simpa [ifHigherTermFound] using hh
        · split at h
          · cases h
          · exact ih s h
      · exact ih (s + 1) (by simpa [tallyLoop] using h)

theorem tallyLoop_not_ok (term lli llt : Nat) (rs : List Resp) (s : Nat) (o : Outcome)
    (h : tallyLoop term lli llt rs s = .inr o) : o.isOk = false := by
  induction rs generalizing s with
  | nil => simp [tallyLoop] at h
  | cons r rs ih =>
    cases r with
    | err => exact ih s (by simpa [tallyLoop] using h)
    | ok g t' a b =>
      cases g
      · simp only [tallyLoop] at h
        split at h
        · cases h; rfl
        · split at h
          · cases h; rfl
          · exact ih s h
      · exact ih (s + 1) (by simpa [tallyLoop] using h)

theorem tally_higher {term lli llt : Nat} {single : Bool} {nV : Nat} {tr : Option (Nat × List Resp)} {t : Nat}
    (h : tally term lli llt single nV tr = .higherTerm t) : term < t := by
  unfold tally at h
  split at h
  · cases h
  · split at h
    · cases h
    · split at h
      · cases h
      · split at h
        · rename_i heq; subst h; exact tallyLoop_higher _ _ _ _ _ _ heq
        · dsimp only at h
          split at h <;> cases h

/-- what an `Ok` of `broadcast_vote_requests` means -/
theorem tally_ok {term lli llt : Nat} {single : Bool} {nV : Nat} {tr : Option (Nat × List Resp)}
    (h : (tally term lli llt single nV tr).isOk = true) :
    (tally term lli llt single nV tr = .wonWithoutVotes ∧ single = true) ∨
    (tally term lli llt single nV tr = .won ∧ single = false ∧
      ∃ np rs, tr = some (np, rs) ∧ np + 1 < 2 * (1 + countGranted rs)) := by
  unfold tally at h ⊢
  cases single
  · right
    simp only [Bool.false_eq_true, if_false] at h ⊢
    split at h
    · simp [Outcome.isOk] at h
    · rename_i hnv
      simp only [hnv, if_false]
      cases tr with
      | none => simp [Outcome.isOk] at h
      | some x =>
        obtain ⟨np, rs⟩ := x
        simp only at h ⊢
        cases hl : tallyLoop term lli llt rs 1 with
        | inr o =>
          rw [hl] at h
          simp only at h
          have := tallyLoop_not_ok _ _ _ _ _ _ hl
          rw [this] at h
          cases h
        | inl s =>
          rw [hl] at h
          simp only at h ⊢
          have hs := tallyLoop_inl _ _ _ _ _ _ hl
          split at h
          · rename_i hm
            refine ⟨by simp [hm], by simp, np, rs, rfl, ?_⟩
            have hm2 := hm.2
            simp only [isMajority, decide_eq_true_eq] at hm2
            omega
          · simp [Outcome.isOk] at h
  · left
    simp

/-! ### the invariant -/

/-- persisted image of a stopped node agrees with its last in-memory hard state -/
def Down (pr : Proc) : Prop :=
  match pr.image with
  | some h => h.term = pr.node.term ∧ h.vf = pr.node.vf
  | none => pr.node.term ≤ 1 ∧ pr.node.vf = none

def respOK (c : Cluster) (p : Nat) : Option Nat × Resp → Prop
  | (some j, r) => isGrant r = true → (j, p, (c.proc p).node.term) ∈ c.grants ∧ j ∈ (c.proc p).memb.voters
  | (none, r) => isGrant r = false

structure Flying (c : Cluster) (p : Nat) (f : Flight) : Prop where
  up : (c.proc p).up = true
  role : (c.proc p).node.role = .candidate
  vf : (c.proc p).node.vf = some ⟨p, (c.proc p).node.term, false⟩
  notL : ¬ c.isL p (c.proc p).node.term
  nz : p ≠ 0
  src : ∀ x ∈ f.resps, respOK c p x
  nodup : (f.resps.filterMap (·.1)).Nodup

structure Inv (V : List Nat) (c : Cluster) : Prop where
  ids : ∀ p, (c.proc p).node.id = p
  k1 : ∀ p t x, c.fv p t = some x → t ≤ (c.proc p).node.term
  k2 : ∀ p, (c.proc p).node.vf = none → c.fv p (c.proc p).node.term = none
  k3 : ∀ p v, (c.proc p).node.vf = some v → v.id ≠ 0 ∧ v.term ≤ (c.proc p).node.term ∧
        (v.term = (c.proc p).node.term → c.fv p v.term = some v.id ∨ c.isL v.id v.term) ∧
        (v.term < (c.proc p).node.term → c.fv p (c.proc p).node.term = none)
  d : ∀ p, (c.proc p).up = false → Down (c.proc p)
  j : ∀ p x t, (p, x, t) ∈ c.grants → c.fv p t = some x ∨ c.isL x t
  l : ∀ n t Q, (n, t, Q) ∈ c.leaders → n ≠ 0 ∧ t ≤ (c.proc n).node.term ∧ Q.Nodup ∧ (∀ q ∈ Q, q ∈ V) ∧
        V.length < 2 * Q.length ∧ ∀ q ∈ Q, c.fv q t = some n
  r : ∀ p, (c.proc p).node.role = .leader → c.isL p (c.proc p).node.term
  n : ∀ p f, c.flight p = some f → Flying c p f

/-- **Election safety from the invariant**: two recorded leaders of one term are the same node. -/
theorem Inv.unique_leader {V : List Nat} {c : Cluster} (h : Inv V c) {n m t : Nat}
    (hn : c.isL n t) (hm : c.isL m t) : n = m := by
  obtain ⟨Q1, h1⟩ := hn
  obtain ⟨Q2, h2⟩ := hm
  obtain ⟨_, _, nd1, s1, m1, f1⟩ := h.l n t Q1 h1
  obtain ⟨_, _, nd2, s2, m2, f2⟩ := h.l m t Q2 h2
  obtain ⟨x, x1, x2⟩ := quorum_intersect V Q1 Q2 nd1 nd2 s1 s2 m1 m2
  have := f1 x x1
  rw [f2 x x2] at this
  exact (Option.some.inj this).symm

/-! ### frame lemma: one process replaced, no vote cast -/

theorem fv_none_of_gt {V : List Nat} {c : Cluster} (h : Inv V c) (p t : Nat) (ht : (c.proc p).node.term < t) :
    c.fv p t = none := by
  cases hfv : c.fv p t with
  | none => rfl
  | some x => have := h.k1 p t x hfv; omega

theorem inv_setProc_quiet {V : List Nat} {c : Cluster} (h : Inv V c) (p : Nat) (pr' : Proc)
    (q : Quiet c.isL (c.proc p).node pr'.node) (hd : pr'.up = false → Down pr') (hfl : c.flight p = none) :
    Inv V { c with proc := upd c.proc p pr' } := by
  have hterm := q.term
  constructor
  · intro p'
    by_cases hp : p' = p
    · subst hp; simp only [upd_same]; rw [q.id]; exact h.ids _
    · simp only [upd_other _ _ _ _ hp]; exact h.ids p'
  · intro p' t x hfv
    by_cases hp : p' = p
    · subst hp; simp only [upd_same]; have := h.k1 _ t x hfv; omega
    · simp only [upd_other _ _ _ _ hp]; exact h.k1 p' t x hfv
  · intro p' hvf
    by_cases hp : p' = p
    · subst hp
      simp only [upd_same] at hvf ⊢
      by_cases hlt : (c.proc p').node.term < pr'.node.term
      · exact fv_none_of_gt h _ _ hlt
      · have heq : pr'.node.term = (c.proc p').node.term := by omega
        rw [heq]
        rcases q.vote with h1 | h1 | ⟨v, hv, _⟩
        · rw [hvf] at h1
          exact h.k2 _ (key_eq_none.mp h1.symm)
        · rcases h1.2 with h2 | h2
          · omega
          · cases hn : (c.proc p').node.vf with
            | none => exact h.k2 _ hn
            | some v => exact (h.k3 _ v hn).2.2.2 (h2 v hn)
        · rw [hvf] at hv; cases hv
    · simp only [upd_other _ _ _ _ hp] at hvf ⊢; exact h.k2 p' hvf
  · intro p' v hvf
    by_cases hp : p' = p
    · subst hp
      simp only [upd_same] at hvf ⊢
      rcases q.vote with h1 | h1 | ⟨v', hv', ht', hz', hl'⟩
      · rw [hvf] at h1
        cases hn : (c.proc p').node.vf with
        | none => rw [hn] at h1; simp at h1
        | some v0 =>
          rw [hn] at h1
          simp only [key_some, Option.some.injEq, Prod.mk.injEq] at h1
          obtain ⟨a1, a2, a3, a4⟩ := h.k3 _ v0 hn
          rw [h1.1, h1.2]
          refine ⟨a1, by omega, fun he => ?_, fun hl => ?_⟩
          · have : pr'.node.term = (c.proc p').node.term := by omega
            exact a3 (by omega)
          · by_cases hlt : (c.proc p').node.term < pr'.node.term
            · exact fv_none_of_gt h _ _ hlt
            · have : pr'.node.term = (c.proc p').node.term := by omega
              rw [this]; exact a4 (by omega)
      · rw [hvf] at h1; cases h1.1
      · rw [hvf] at hv'
        cases hv'
        exact ⟨hz', by omega, fun _ => Or.inr hl', fun hl => by omega⟩
    · simp only [upd_other _ _ _ _ hp] at hvf ⊢; exact h.k3 p' v hvf
  · intro p' hup
    by_cases hp : p' = p
    · subst hp; simp only [upd_same] at hup ⊢; exact hd hup
    · simp only [upd_other _ _ _ _ hp] at hup ⊢; exact h.d p' hup
  · exact h.j
  · intro n t Q hm
    obtain ⟨a1, a2, a3⟩ := h.l n t Q hm
    refine ⟨a1, ?_, a3⟩
    by_cases hp : n = p
    · subst hp; simp only [upd_same]; omega
    · simp only [upd_other _ _ _ _ hp]; exact a2
  · intro p' hrole
    by_cases hp : p' = p
    · subst hp
      simp only [upd_same] at hrole ⊢
      obtain ⟨b1, b2, _⟩ := q.leader hrole
      rw [b2]; exact h.r _ b1
    · simp only [upd_other _ _ _ _ hp] at hrole ⊢; exact h.r p' hrole
  · intro p' f hf
    have hp : p' ≠ p := by
      intro he; subst he; simp only at hf; rw [hfl] at hf; cases hf
    have fl := h.n p' f hf
    exact ⟨by simp only [upd_other _ _ _ _ hp]; exact fl.up,
           by simp only [upd_other _ _ _ _ hp]; exact fl.role,
           by simp only [upd_other _ _ _ _ hp]; exact fl.vf,
           by simp only [upd_other _ _ _ _ hp]; exact fl.notL,
           fl.nz,
           by
            intro x hx
            have := fl.src x hx
            obtain ⟨a, b⟩ := x
            cases a <;> simpa [respOK, upd_other _ _ _ _ hp] using this,
           fl.nodup⟩

/-! ### a vote is cast -/

theorem recordVote_same (fv : Nat → Nat → Option Nat) (p t cand : Nat) :
    recordVote fv p t cand p t = (match fv p t with | some x => some x | none => some cand) := by
  unfold recordVote
  rw [if_pos ⟨rfl, rfl⟩]
  cases fv p t <;> rfl

theorem recordVote_other (fv : Nat → Nat → Option Nat) (p t cand p' t' : Nat) (h : ¬ (p' = p ∧ t' = t)) :
    recordVote fv p t cand p' t' = fv p' t' := by
  simp [recordVote, h]

theorem recordVote_keeps (fv : Nat → Nat → Option Nat) (p t cand p' t' x : Nat) (h : fv p' t' = some x) :
    recordVote fv p t cand p' t' = some x := by
  by_cases hh : p' = p ∧ t' = t
  · obtain ⟨h1, h2⟩ := hh
    subst h1; subst h2
    rw [recordVote_same, h]
  · rw [recordVote_other _ _ _ _ _ _ hh, h]

theorem recordVote_some (fv : Nat → Nat → Option Nat) (p t cand p' t' x : Nat)
    (h : recordVote fv p t cand p' t' = some x) : fv p' t' = some x ∨ (p' = p ∧ t' = t ∧ fv p t = none ∧ x = cand) := by
  by_cases hh : p' = p ∧ t' = t
  · obtain ⟨h1, h2⟩ := hh
    subst h1; subst h2
    rw [recordVote_same] at h
    cases hf : fv p' t' with
    | none => rw [hf] at h; right; exact ⟨rfl, rfl, rfl, (Option.some.inj h).symm⟩
    | some y => rw [hf] at h; left; exact h
  · rw [recordVote_other _ _ _ _ _ _ hh] at h; exact Or.inl h

/-- the recorded first vote after a grant justifies the grant -/
theorem grant_justified {V : List Nat} {c : Cluster} (h : Inv V c) (p : Nat) (n' : Node) (r : VoteReq)
    (g : Granted (c.proc p).node n' r) :
    recordVote c.fv p r.term r.cand p r.term = some r.cand ∨ c.isL r.cand r.term := by
  rw [recordVote_same]
  cases hf : c.fv p r.term with
  | none => exact Or.inl rfl
  | some x =>
    simp only
    rcases g.pre with h1 | ⟨heq, h1 | h1 | ⟨v, hv, h1⟩⟩
    · have := h.k1 p _ x hf; omega
    · have := h.k2 p h1; rw [heq, hf] at this; cases this
    · cases hn : (c.proc p).node.vf with
      | none => rw [hn] at h1; simp at h1
      | some v =>
        rw [hn] at h1
        simp only [key_some, Option.some.injEq, Prod.mk.injEq] at h1
        obtain ⟨_, _, a3, _⟩ := h.k3 p v hn
        have := a3 (by omega)
        rw [h1.1, h1.2] at this
        rcases this with h2 | h2
        · rw [hf] at h2; exact Or.inl h2
        · exact Or.inr h2
    · obtain ⟨a1, _, _, a4⟩ := h.k3 p v hv
      rcases h1 with h1 | h1
      · have := a4 h1; rw [heq, hf] at this; cases this
      · exact absurd h1 a1

theorem inv_grant {V : List Nat} {c : Cluster} (h : Inv V c) (p : Nat) (n' : Node) (r : VoteReq)
    (g : Granted (c.proc p).node n' r) (hc0 : r.cand ≠ 0) (hfl : c.flight p = none) (hup : (c.proc p).up = true) :
    Inv V { c with proc := upd c.proc p { c.proc p with node := n' },
                   grants := (p, r.cand, r.term) :: c.grants,
                   fv := recordVote c.fv p r.term r.cand } := by
  have hjust := grant_justified h p n' r g
  have hle : (c.proc p).node.term ≤ r.term := by rcases g.pre with h1 | h1 <;> omega
  constructor
  · intro p'
    by_cases hp : p' = p
    · subst hp; simp only [upd_same]; rw [g.id]; exact h.ids _
    · simp only [upd_other _ _ _ _ hp]; exact h.ids p'
  · intro p' t x hfv
    simp only at hfv
    rcases recordVote_some _ _ _ _ _ _ _ hfv with h1 | ⟨h1, h2, _, _⟩
    · by_cases hp : p' = p
      · subst hp; simp only [upd_same]; have := h.k1 _ t x h1; rw [g.term']; omega
      · simp only [upd_other _ _ _ _ hp]; exact h.k1 p' t x h1
    · subst h1; subst h2; simp only [upd_same]; rw [g.term']; exact Nat.le_refl _
  · intro p' hvf
    by_cases hp : p' = p
    · subst hp
      simp only [upd_same] at hvf
      have := g.vf'; rw [hvf] at this; simp at this
    · simp only [upd_other _ _ _ _ hp] at hvf ⊢
      rw [recordVote_other _ _ _ _ _ _ (by intro hh; exact hp hh.1)]
      exact h.k2 p' hvf
  · intro p' v hvf
    by_cases hp : p' = p
    · subst hp
      simp only [upd_same] at hvf ⊢
      have hk := g.vf'
      rw [hvf] at hk
      simp only [key_some, Option.some.injEq, Prod.mk.injEq] at hk
      rw [hk.1, hk.2, g.term']
      exact ⟨hc0, Nat.le_refl _, fun _ => hjust, fun hl => by omega⟩
    · simp only [upd_other _ _ _ _ hp] at hvf ⊢
      obtain ⟨a1, a2, a3, a4⟩ := h.k3 p' v hvf
      refine ⟨a1, a2, fun he => ?_, fun hl => ?_⟩
      · rw [recordVote_other _ _ _ _ _ _ (by intro hh; exact hp hh.1)]; exact a3 he
      · rw [recordVote_other _ _ _ _ _ _ (by intro hh; exact hp hh.1)]; exact a4 hl
  · intro p' hup'
    by_cases hp : p' = p
    · subst hp; simp only [upd_same] at hup'; rw [hup] at hup'; cases hup'
    · simp only [upd_other _ _ _ _ hp] at hup' ⊢; exact h.d p' hup'
  · intro p' x t hm
    simp only [List.mem_cons, Prod.mk.injEq] at hm
    rcases hm with ⟨h1, h2, h3⟩ | hm
    · subst h1; subst h2; subst h3; exact hjust
    · rcases h.j p' x t hm with h1 | h1
      · exact Or.inl (recordVote_keeps _ _ _ _ _ _ _ h1)
      · exact Or.inr h1
  · intro n t Q hm
    obtain ⟨a1, a2, a3, a4, a5, a6⟩ := h.l n t Q hm
    refine ⟨a1, ?_, a3, a4, a5, fun q hq => recordVote_keeps _ _ _ _ _ _ _ (a6 q hq)⟩
    by_cases hp : n = p
    · subst hp; simp only [upd_same]; rw [g.term']; omega
    · simp only [upd_other _ _ _ _ hp]; exact a2
  · intro p' hrole
    by_cases hp : p' = p
    · subst hp; simp only [upd_same] at hrole; exact absurd hrole g.role'
    · simp only [upd_other _ _ _ _ hp] at hrole ⊢; exact h.r p' hrole
  · intro p' f hf
    have hp : p' ≠ p := by
      intro he; subst he; simp only at hf; rw [hfl] at hf; cases hf
    have fl := h.n p' f hf
    exact ⟨by simp only [upd_other _ _ _ _ hp]; exact fl.up,
           by simp only [upd_other _ _ _ _ hp]; exact fl.role,
           by simp only [upd_other _ _ _ _ hp]; exact fl.vf,
           by simp only [upd_other _ _ _ _ hp]; exact fl.notL,
           fl.nz,
           by
            intro x hx
            have := fl.src x hx
            obtain ⟨a, b⟩ := x
            cases a with
            | none => simpa [respOK] using this
            | some j =>
              simp only [respOK, upd_other _ _ _ _ hp, List.mem_cons] at this ⊢
              intro hg
              exact ⟨Or.inr (this hg).1, (this hg).2⟩,
           fl.nodup⟩

/-! ### flights -/

theorem Flying.congr {c c' : Cluster} {p : Nat} {f : Flight} (fl : Flying c p f)
    (hproc : c'.proc p = c.proc p) (hl : c'.leaders = c.leaders) (hg : ∀ x, x ∈ c.grants → x ∈ c'.grants) :
    Flying c' p f := by
  refine ⟨by rw [hproc]; exact fl.up, by rw [hproc]; exact fl.role, by rw [hproc]; exact fl.vf, ?_, fl.nz, ?_, fl.nodup⟩
  · intro ⟨Q, hQ⟩
    rw [hproc, hl] at hQ
    exact fl.notL ⟨Q, hQ⟩
  · intro x hx
    have := fl.src x hx
    obtain ⟨a, b⟩ := x
    cases a with
    | none => simpa [respOK] using this
    | some j =>
      simp only [respOK, hproc] at this ⊢
      intro hgr
      exact ⟨hg _ (this hgr).1, (this hgr).2⟩

theorem inv_setFlight {V : List Nat} {c : Cluster} (h : Inv V c) (p : Nat) (f' : Option Flight)
    (hf : ∀ f, f' = some f → Flying c p f) : Inv V { c with flight := upd c.flight p f' } := by
  refine ⟨h.ids, h.k1, h.k2, h.k3, h.d, h.j, h.l, h.r, ?_⟩
  intro q f hq
  by_cases hp : q = p
  · subst hp
    simp only [upd_same] at hq
    exact (hf f hq).congr rfl rfl (fun _ hx => hx)
  · simp only [upd_other _ _ _ _ hp] at hq
    exact (h.n q f hq).congr rfl rfl (fun _ hx => hx)

/-! ### an election starts: the candidate votes for itself -/

theorem startElection_granted (n : Node) : Granted n (startElection n) ⟨n.term + 1, n.id, n.lli, n.llt⟩
    ∨ n.role = .leader := by
  by_cases hr : n.role = .leader
  · exact Or.inr hr
  · left
    unfold startElection
    exact ⟨rfl, rfl, rfl, Or.inl (Nat.lt_succ_self _), by simpa using hr⟩

theorem inv_start {V : List Nat} {c : Cluster} (h : Inv V c) (p : Nat) (hp0 : p ≠ 0)
    (hfl : c.flight p = none) (hup : (c.proc p).up = true) (hrole : (c.proc p).node.role = .candidate) :
    Inv V (step c (.start p)) := by
  have hready : c.ready p = true := by simp [Cluster.ready, hup, hfl]
  have hid := h.ids p
  simp only [step, hready, hrole, and_self, if_true]
  rcases startElection_granted (c.proc p).node with g | g
  · rw [hid] at g
    have h1 := inv_grant h p (startElection (c.proc p).node) _ g hp0 hfl hup
    have hterm : (startElection (c.proc p).node).term = (c.proc p).node.term + 1 := rfl
    have h2 := inv_setFlight h1 p (some ⟨[]⟩) (by
      intro f hf
      cases hf
      refine ⟨by simp [hup], by simp [startElection, hrole], ?_, ?_, hp0, by simp, by simp⟩
      · simp [startElection, hid]
      · intro ⟨Q, hQ⟩
        simp only [upd_same] at hQ
        have := (h.l p _ Q hQ).2.1
        rw [hterm] at this
        omega)
    exact h2
  · rw [hrole] at g; cases g

/-! ### a vote request is handled -/

theorem handleVoteReq_frame (c : Cluster) (p : Nat) (r : VoteReq) :
    (∀ q, q ≠ p → (c.handleVoteReq p r).1.proc q = c.proc q) ∧
    (c.handleVoteReq p r).1.leaders = c.leaders ∧ (c.handleVoteReq p r).1.flight = c.flight ∧
    (∀ x, x ∈ c.grants → x ∈ (c.handleVoteReq p r).1.grants) ∧
    ((c.handleVoteReq p r).2.granted = true → (p, r.cand, r.term) ∈ (c.handleVoteReq p r).1.grants) ∧
    ((c.handleVoteReq p r).1.proc p).up = (c.proc p).up ∧ ((c.handleVoteReq p r).1.proc p).memb = (c.proc p).memb := by
  unfold Cluster.handleVoteReq Cluster.setNode
  cases hg : (onVoteReq (c.proc p).node r).2.granted
  · simp only [hg, Bool.false_eq_true, if_false]
    refine ⟨fun q hq => upd_other _ _ _ _ hq, ?_, ?_, fun _ hx => hx, ?_, ?_, ?_⟩ <;> simp
  · simp only [hg, if_true]
    refine ⟨fun q hq => upd_other _ _ _ _ hq, ?_, ?_, fun _ hx => List.mem_cons_of_mem _ hx, ?_, ?_, ?_⟩ <;> simp

theorem inv_handleVoteReq {V : List Nat} {c : Cluster} (h : Inv V c) (p : Nat) (r : VoteReq) (hc0 : r.cand ≠ 0)
    (hfl : c.flight p = none) (hup : (c.proc p).up = true) : Inv V (c.handleVoteReq p r).1 := by
  have spec := onVoteReq_spec c.isL (c.proc p).node r
  unfold Cluster.handleVoteReq Cluster.setNode
  cases hg : (onVoteReq (c.proc p).node r).2.granted
  · simp only [hg, Bool.false_eq_true, if_false]
    exact inv_setProc_quiet h p { c.proc p with node := (onVoteReq (c.proc p).node r).1 } (spec.2 hg)
      (by intro hd; simp [hup] at hd) hfl
  · simp only [hg, if_true]
    exact inv_grant h p _ r (spec.1 hg) hc0 hfl hup

theorem inv_deliver {V : List Nat} {c : Cluster} (h : Inv V c) (cand j : Nat) : Inv V (step c (.deliver cand j)) := by
  simp only [step]
  cases hfl : c.flight cand with
  | none => exact h
  | some f =>
    simp only
    split
    · rename_i hcond
      obtain ⟨hcup, hjr, hne, hmem, hnew⟩ := hcond
      have hjup : (c.proc j).up = true := by
        simp only [Cluster.ready, Bool.and_eq_true] at hjr; exact hjr.1
      have hjfl : c.flight j = none := by
        simp only [Cluster.ready, Bool.and_eq_true, Option.isNone_iff_eq_none] at hjr; exact hjr.2
      have fl := h.n cand f hfl
      have hreq : (c.requestOf cand).cand = cand := rfl
      have hreqt : (c.requestOf cand).term = (c.proc cand).node.term := rfl
      obtain ⟨f1, f2, f3, f4, f5, _, _⟩ := handleVoteReq_frame c j (c.requestOf cand)
      have h1 := inv_handleVoteReq h j (c.requestOf cand) (by rw [hreq]; exact fl.nz) hjfl hjup
      have hpc : (c.handleVoteReq j (c.requestOf cand)).1.proc cand = c.proc cand := f1 cand (Ne.symm hne)
      have fl1 : Flying (c.handleVoteReq j (c.requestOf cand)).1 cand f := fl.congr hpc f2 f4
      refine inv_setFlight h1 cand _ ?_
      intro f' hf'
      cases hf'
      refine ⟨fl1.up, fl1.role, fl1.vf, fl1.notL, fl1.nz, ?_, ?_⟩
      · intro x hx
        simp only [List.mem_append, List.mem_singleton] at hx
        rcases hx with hx | hx
        · exact fl1.src x hx
        · subst hx
          simp only [respOK, hpc]
          intro hgr
          have hgranted : (c.handleVoteReq j (c.requestOf cand)).2.granted = true := by
            cases hb : (c.handleVoteReq j (c.requestOf cand)).2.granted
            · rw [hb] at hgr; simp [isGrant] at hgr
            · rfl
          have := f5 hgranted
          rw [hreq, hreqt] at this
          exact ⟨this, hmem⟩
      · simp only [List.filterMap_append, List.filterMap_cons, List.filterMap_nil]
        rw [List.nodup_append]
        refine ⟨fl.nodup, by simp, ?_⟩
        intro a ha b hb hab
        simp only [List.mem_singleton] at hb
        subst hb; subst hab
        apply hnew
        rw [List.any_eq_true]
        obtain ⟨x, hx, hxa⟩ := List.mem_filterMap.mp ha
        exact ⟨x, hx, by simp [hxa]⟩
    · exact h

/-! ### an election finishes -/

structure MembGood (V : List Nat) (p : Nat) (m : Memb) : Prop where
  mem : p ∈ V
  nodup : m.voters.Nodup
  sub : ∀ j ∈ m.voters, j ∈ V ∧ j ≠ p
  size : m.voters.length + 1 = V.length

/-- since fix 16342b6 the request-free win is only taken without any other voter -/
theorem voters_nil_of_single (m : Memb) (h : m.isSingleNodeCluster = true) : m.voters = [] := by
  simp only [Memb.isSingleNodeCluster, Bool.and_eq_true, List.isEmpty_iff] at h
  exact h.2

theorem grantedBy_sublist (rs : List (Option Nat × Resp)) : (grantedBy rs).Sublist (rs.filterMap (·.1)) := by
  induction rs with
  | nil => simp [grantedBy]
  | cons x rs ih =>
    obtain ⟨a, r⟩ := x
    cases a with
    | none => simpa [grantedBy] using ih
    | some j =>
      cases r with
      | err => simp only [grantedBy, List.filterMap_cons]; exact List.Sublist.cons _ ih
      | ok g t a b =>
        cases g
        · simp only [grantedBy, List.filterMap_cons]; exact List.Sublist.cons _ ih
        · simp only [grantedBy, List.filterMap_cons]; exact List.Sublist.cons₂ _ ih

theorem mem_grantedBy (rs : List (Option Nat × Resp)) (j : Nat) (h : j ∈ grantedBy rs) :
    ∃ r, (some j, r) ∈ rs ∧ isGrant r = true := by
  induction rs with
  | nil => simp [grantedBy] at h
  | cons x rs ih =>
    obtain ⟨a, r⟩ := x
    cases a with
    | none =>
      simp only [grantedBy] at h
      obtain ⟨r', h1, h2⟩ := ih h
      exact ⟨r', List.mem_cons_of_mem _ h1, h2⟩
    | some j' =>
      cases r with
      | err =>
        simp only [grantedBy] at h
        obtain ⟨r', h1, h2⟩ := ih h
        exact ⟨r', List.mem_cons_of_mem _ h1, h2⟩
      | ok g t a b =>
        cases g
        · simp only [grantedBy] at h
          obtain ⟨r', h1, h2⟩ := ih h
          exact ⟨r', List.mem_cons_of_mem _ h1, h2⟩
        · simp only [grantedBy, List.mem_cons] at h
          rcases h with h | h
          · subst h; exact ⟨_, List.mem_cons_self, rfl⟩
          · obtain ⟨r', h1, h2⟩ := ih h
            exact ⟨r', List.mem_cons_of_mem _ h1, h2⟩

theorem countGranted_eq (rs : List (Option Nat × Resp)) (h : ∀ r, (none, r) ∈ rs → isGrant r = false) :
    countGranted (rs.map (·.2)) = (grantedBy rs).length := by
  induction rs with
  | nil => rfl
  | cons x rs ih =>
    have ih' := ih (fun r hr => h r (List.mem_cons_of_mem _ hr))
    obtain ⟨a, r⟩ := x
    cases a with
    | none =>
      have := h r List.mem_cons_self
      simp only [countGranted, List.map_cons, List.filter_cons, this, Bool.false_eq_true, if_false, grantedBy] at ih' ⊢
      exact ih'
    | some j =>
      cases r with
      | err => simpa [countGranted, grantedBy, isGrant] using ih'
      | ok g t a b =>
        cases g
        · simpa [countGranted, grantedBy, isGrant] using ih'
        · simp only [countGranted, List.map_cons, List.filter_cons, isGrant, if_true, List.length_cons, grantedBy] at ih' ⊢
          omega

theorem isL_mono {c : Cluster} {x : Nat × Nat × List Nat} {l t : Nat} (h : c.isL l t) :
    Cluster.isL { c with leaders := x :: c.leaders } l t := by
  obtain ⟨Q, hQ⟩ := h
  exact ⟨Q, List.mem_cons_of_mem _ hQ⟩

theorem becomeLeader_fields (n : Node) (h : n.role = .candidate) :
    (becomeLeader n).id = n.id ∧ (becomeLeader n).term = n.term ∧
    (becomeLeader n).vf = some ⟨n.id, n.term, true⟩ ∧ (becomeLeader n).role = .leader := by
  unfold becomeLeader
  simp [h, updateVotedFor]

theorem inv_becomeLeader {V : List Nat} {c : Cluster} (h : Inv V c) (p : Nat) (f : Flight) (Q : List Nat)
    (hfl : c.flight p = some f) (hnd : Q.Nodup) (hsub : ∀ q ∈ Q, q ∈ V) (hsz : V.length < 2 * Q.length)
    (hfv : ∀ q ∈ Q, c.fv q (c.proc p).node.term = some p) (hself : c.fv p (c.proc p).node.term = some p) :
    Inv V { c with proc := upd c.proc p { c.proc p with node := becomeLeader (c.proc p).node },
                   flight := upd c.flight p none,
                   leaders := (p, (c.proc p).node.term, Q) :: c.leaders } := by
  have fl := h.n p f hfl
  obtain ⟨b1, b2, b3, b4⟩ := becomeLeader_fields (c.proc p).node fl.role
  have hid := h.ids p
  constructor
  · intro q
    by_cases hq : q = p
    · subst hq; simp only [upd_same]; rw [b1]; exact hid
    · simp only [upd_other _ _ _ _ hq]; exact h.ids q
  · intro q t x hfvq
    by_cases hq : q = p
    · subst hq; simp only [upd_same]; rw [b2]; exact h.k1 _ t x hfvq
    · simp only [upd_other _ _ _ _ hq]; exact h.k1 q t x hfvq
  · intro q hvf
    by_cases hq : q = p
    · subst hq; simp only [upd_same] at hvf; rw [b3] at hvf; cases hvf
    · simp only [upd_other _ _ _ _ hq] at hvf ⊢; exact h.k2 q hvf
  · intro q v hvf
    by_cases hq : q = p
    · subst hq
      simp only [upd_same] at hvf ⊢
      rw [b3] at hvf
      cases hvf
      simp only
      rw [b2, hid]
      exact ⟨fl.nz, Nat.le_refl _, fun _ => Or.inl hself, fun hl => by omega⟩
    · simp only [upd_other _ _ _ _ hq] at hvf ⊢
      obtain ⟨a1, a2, a3, a4⟩ := h.k3 q v hvf
      exact ⟨a1, a2, fun he => (a3 he).imp id isL_mono, a4⟩
  · intro q hup
    by_cases hq : q = p
    · subst hq; simp only [upd_same] at hup; rw [fl.up] at hup; cases hup
    · simp only [upd_other _ _ _ _ hq] at hup ⊢; exact h.d q hup
  · intro q x t hm
    exact (h.j q x t hm).imp id isL_mono
  · intro n t Q' hm
    simp only [List.mem_cons, Prod.mk.injEq] at hm
    rcases hm with ⟨h1, h2, h3⟩ | hm
    · subst h1; subst h2; subst h3
      simp only [upd_same]
      exact ⟨fl.nz, by rw [b2]; exact Nat.le_refl _, hnd, hsub, hsz, hfv⟩
    · obtain ⟨a1, a2, a3⟩ := h.l n t Q' hm
      refine ⟨a1, ?_, a3⟩
      by_cases hq : n = p
      · subst hq; simp only [upd_same]; rw [b2]; exact a2
      · simp only [upd_other _ _ _ _ hq]; exact a2
  · intro q hrole
    by_cases hq : q = p
    · subst hq
      simp only [upd_same]
      rw [b2]
      exact ⟨Q, List.mem_cons_self⟩
    · simp only [upd_other _ _ _ _ hq] at hrole ⊢
      exact isL_mono (h.r q hrole)
  · intro q f' hf'
    by_cases hq : q = p
    · subst hq; simp only [upd_same] at hf'; cases hf'
    · simp only [upd_other _ _ _ _ hq] at hf'
      have flq := h.n q f' hf'
      refine ⟨by simp only [upd_other _ _ _ _ hq]; exact flq.up,
              by simp only [upd_other _ _ _ _ hq]; exact flq.role,
              by simp only [upd_other _ _ _ _ hq]; exact flq.vf, ?_, flq.nz, ?_, flq.nodup⟩
      · intro ⟨Q', hQ'⟩
        simp only [upd_other _ _ _ _ hq, List.mem_cons, Prod.mk.injEq] at hQ'
        rcases hQ' with ⟨h1, _, _⟩ | hQ'
        · exact hq h1
        · exact flq.notL ⟨Q', hQ'⟩
      · intro x hx
        have := flq.src x hx
        obtain ⟨a, b⟩ := x
        cases a <;> simpa [respOK, upd_other _ _ _ _ hq] using this

/-- the explicit hypotheses under which the invariant is preserved (per step) -/
def Safe (V : List Nat) (c : Cluster) : Label → Prop
  | .voteReq _ r => r.cand ≠ 0                       -- node id 0 is rejected by the configuration validator
  | .appendEntries _ t l => c.isLeaderAt l t = true  -- AppendEntries are only sent by a leader of that term
  | .start p => p ≠ 0
  | .scripted _ r => isGrant r = false               -- a grant is only ever produced by a voter's handler
  | .finish p _ => MembGood V p (c.proc p).memb      -- static membership: the tally is over the configured voters
  | _ => True

theorem flying_self_vote {V : List Nat} {c : Cluster} (h : Inv V c) {p : Nat} {f : Flight} (fl : Flying c p f) :
    c.fv p (c.proc p).node.term = some p := by
  obtain ⟨_, _, a3, _⟩ := h.k3 p _ fl.vf
  rcases a3 rfl with h1 | h1
  · exact h1
  · exact absurd h1 fl.notL

theorem inv_finish {V : List Nat} {c : Cluster} (h : Inv V c) (p : Nat) (ok : Bool)
    (hm : MembGood V p (c.proc p).memb) : Inv V (step c (.finish p ok)) := by
  simp only [step]
  cases hfl : c.flight p with
  | none => exact h
  | some f =>
    have fl := h.n p f hfl
    have hself := flying_self_vote h fl
    simp only [fl.up, if_true, fl.role, and_true]
    generalize htr : (if ok = true then some ((c.proc p).memb.voters.length, List.map (fun x => x.2) f.resps) else none) = tr
    cases hok : (tally (c.proc p).node.term (c.proc p).node.lli (c.proc p).node.llt
        (c.proc p).memb.isSingleNodeCluster (c.proc p).memb.voters.length tr).isOk
    · -- lost / error / higher term
      simp only [Bool.false_eq_true, if_false]
      have h1 : Inv V { c with flight := upd c.flight p none } :=
        inv_setFlight h p none (by intro f hf; cases hf)
      have q := finishElection_quiet c.isL (c.proc p).node _ hok (fun t ht => tally_higher ht)
      exact inv_setProc_quiet h1 p { c.proc p with node := finishElection (c.proc p).node _ } q
        (by intro hd; simp [fl.up] at hd) (by simp)
    · simp only [if_true]
      rcases tally_ok hok with ⟨ho, hs⟩ | ⟨ho, hs, np, rs, htr', hcount⟩
      · -- the single-node shortcut: only a sole voter may take it
        simp only [ho, finishElection]
        have hv := voters_nil_of_single _ hs
        have hV : V.length = 1 := by have := hm.size; rw [hv] at this; simpa using this.symm
        exact inv_becomeLeader h p f [p] hfl (by simp) (by intro q hq; simp at hq; subst hq; exact hm.mem)
          (by simp [hV]) (by intro q hq; simp at hq; subst hq; exact hself) hself
      · simp only [ho, finishElection, if_true]
        rw [htr'] at htr
        have hokb : ok = true := by
          cases ok
          · simp at htr
          · rfl
        simp only [hokb, if_true, Option.some.injEq, Prod.mk.injEq] at htr
        obtain ⟨hnp, hrs⟩ := htr
        have hcnt : countGranted rs = (grantedBy f.resps).length := by
          rw [← hrs]
          apply countGranted_eq
          intro r hr
          have := fl.src _ hr
          simpa [respOK] using this
        have hmemQ : ∀ q, q ∈ grantedBy f.resps → (q, p, (c.proc p).node.term) ∈ c.grants ∧ q ∈ (c.proc p).memb.voters := by
          intro q hq
          obtain ⟨r, hr, hg⟩ := mem_grantedBy _ _ hq
          have := fl.src _ hr
          simp only [respOK] at this
          exact this hg
        refine inv_becomeLeader h p f (p :: grantedBy f.resps) hfl ?_ ?_ ?_ ?_ hself
        · rw [List.nodup_cons]
          refine ⟨fun hin => (hm.sub p (hmemQ p hin).2).2 rfl, ?_⟩
          exact List.Nodup.sublist (grantedBy_sublist f.resps) fl.nodup
        · intro q hq
          rcases List.mem_cons.mp hq with hq | hq
          · subst hq; exact hm.mem
          · exact (hm.sub q (hmemQ q hq).2).1
        · have := hm.size
          simp only [List.length_cons]
          omega
        · intro q hq
          rcases List.mem_cons.mp hq with hq | hq
          · subst hq; exact hself
          · rcases h.j q p _ (hmemQ q hq).1 with h1 | h1
            · exact h1
            · exact absurd h1 fl.notL

/-! ### every safe step preserves the invariant -/

theorem ready_iff (c : Cluster) (p : Nat) : c.ready p = true ↔ (c.proc p).up = true ∧ c.flight p = none := by
  simp [Cluster.ready, Option.isNone_iff_eq_none]

theorem inv_setNode_quiet {V : List Nat} {c : Cluster} (h : Inv V c) (p : Nat) (n' : Node)
    (q : Quiet c.isL (c.proc p).node n') (hr : c.ready p = true) : Inv V (c.setNode p n') := by
  obtain ⟨hup, hfl⟩ := (ready_iff c p).mp hr
  exact inv_setProc_quiet h p { c.proc p with node := n' } q (by intro hd; simp [hup] at hd) hfl

theorem bootNode_quiet {V : List Nat} {c : Cluster} (h : Inv V c) (p : Nat) (hup : (c.proc p).up = false) (lr : Bool) :
    Quiet c.isL (c.proc p).node
      (bootNode (c.proc p).node.id lr (c.proc p).image (c.proc p).node.lli (c.proc p).node.llt (c.proc p).node.pubs) := by
  have hd := h.d p hup
  unfold Down at hd
  unfold bootNode
  cases him : (c.proc p).image with
  | none =>
    rw [him] at hd
    simp only [Option.getD_none]
    exact ⟨rfl, hd.1, Or.inl (by simp [hd.2]), fun hl => by cases lr <;> simp at hl⟩
  | some hh =>
    rw [him] at hd
    simp only [Option.getD_some]
    exact ⟨rfl, by simp [hd.1], Or.inl (by simp [hd.2]), fun hl => by cases lr <;> simp at hl⟩

theorem inv_step {V : List Nat} {c : Cluster} (h : Inv V c) (l : Label) (hs : Safe V c l) : Inv V (step c l) := by
  cases l with
  | voteReq p r =>
    simp only [step]
    split
    · rename_i hr
      obtain ⟨hup, hfl⟩ := (ready_iff c p).mp hr
      exact inv_handleVoteReq h p r hs hfl hup
    · exact h
  | appendEntries p t l =>
    simp only [step]
    split
    · rename_i hr
      have hL : c.isL l t := (isLeaderAt_iff c l t).mp hs
      obtain ⟨Q, hQ⟩ := hL
      exact inv_setNode_quiet h p _ (onAppendEntries_quiet c.isL _ t l ⟨Q, hQ⟩ (h.l l t Q hQ).1) hr
    · exact h
  | heartbeat l p =>
    simp only [step]
    split
    · rename_i hc
      obtain ⟨hr, _, _, hrole⟩ := hc
      have hL := h.r l hrole
      obtain ⟨Q, hQ⟩ := hL
      exact inv_setNode_quiet h p _ (onAppendEntries_quiet c.isL _ _ l ⟨Q, hQ⟩ (h.l l _ Q hQ).1) hr
    · exact h
  | timeout p =>
    simp only [step]
    split
    · rename_i hc
      exact inv_setNode_quiet h p _ (becomeCandidate_quiet c.isL _) hc.1
    · exact h
  | start p =>
    by_cases hc : c.ready p = true ∧ (c.proc p).node.role = .candidate
    · obtain ⟨hup, hfl⟩ := (ready_iff c p).mp hc.1
      exact inv_start h p hs hfl hup hc.2
    · simp only [step, hc, if_false]; exact h
  | deliver cand j => exact inv_deliver h cand j
  | scripted cand r =>
    simp only [step]
    cases hfl : c.flight cand with
    | none => exact h
    | some f =>
      simp only
      split
      · have fl := h.n cand f hfl
        refine inv_setFlight h cand _ ?_
        intro f' hf'
        cases hf'
        refine ⟨fl.up, fl.role, fl.vf, fl.notL, fl.nz, ?_, ?_⟩
        · intro x hx
          simp only [List.mem_append, List.mem_singleton] at hx
          rcases hx with hx | hx
          · exact fl.src x hx
          · subst hx; exact hs
        · simpa [List.filterMap_append] using fl.nodup
      · exact h
  | finish p ok => exact inv_finish h p ok hs
  | stepDown p =>
    simp only [step]
    split
    · rename_i hr
      exact inv_setNode_quiet h p _ (becomeFollower_quiet c.isL _ none) hr
    · exact h
  | higherTerm p t =>
    simp only [step]
    split
    · rename_i hr
      exact inv_setNode_quiet h p _ (leaderOnHigherTerm_quiet c.isL _ t) hr
    · exact h
  | noopCommitted p =>
    simp only [step]
    split
    · rename_i hr
      split
      · exact inv_setNode_quiet h p _ (noopCommitted_quiet c.isL _ _) hr
      · exact h
    · exact h
  | logChange p a b =>
    simp only [step]
    split
    · rename_i hr
      exact inv_setNode_quiet h p _ (logChange_quiet c.isL _ a b) hr
    · exact h
  | confChange p ch =>
    simp only [step]
    split
    · rename_i hr
      obtain ⟨hup, hfl⟩ := (ready_iff c p).mp hr
      exact inv_setProc_quiet h p { c.proc p with memb := ((c.proc p).memb.apply ch).1 } (Quiet.refl _ _)
        (by intro hd; simp [hup] at hd) hfl
    · exact h
  | stop p =>
    simp only [step]
    split
    · rename_i hr
      obtain ⟨hup, hfl⟩ := (ready_iff c p).mp hr
      refine inv_setProc_quiet h p (c.proc p).stop ?_ ?_ hfl
      · simp only [Proc.stop, hup, if_true]; exact Quiet.refl _ _
      · intro _; simp [Proc.stop, hup, Down]
    · exact h
  | crash p =>
    simp only [step]
    split
    · rename_i hup
      have h1 : Inv V { c with flight := upd c.flight p none } :=
        inv_setFlight h p none (by intro f hf; cases hf)
      refine inv_setProc_quiet h1 p (c.proc p).crash ?_ ?_ (by simp)
      · simp only [Proc.crash, hup, if_true]; exact Quiet.refl _ _
      · intro _; simp [Proc.crash, hup, Down]
    · exact h
  | restart p =>
    simp only [step]
    split
    · exact h
    · rename_i hup
      have hup' : (c.proc p).up = false := by simpa using hup
      have hfl : c.flight p = none := by
        cases hf : c.flight p with
        | none => rfl
        | some f => have := (h.n p f hf).up; rw [hup'] at this; cases this
      refine inv_setProc_quiet h p (c.proc p).restart ?_ ?_ hfl
      · simp only [Proc.restart, hup', Bool.false_eq_true, if_false]
        exact bootNode_quiet h p hup' _
      · intro hd; simp [Proc.restart, hup'] at hd

/-- all steps of a trace are safe (hypotheses are evaluated in the state each step starts from) -/
def SafeTrace (V : List Nat) : Cluster → List Label → Prop
  | _, [] => True
  | c, l :: ls => Safe V c l ∧ SafeTrace V (step c l) ls

theorem inv_run {V : List Nat} (ls : List Label) : ∀ {c : Cluster}, Inv V c → SafeTrace V c ls → Inv V (run c ls) := by
  induction ls with
  | nil => intro c h _; exact h
  | cons l ls ih =>
    intro c h hs
    simp only [run, List.foldl_cons]
    exact ih (inv_step h l hs.1) hs.2

end DEngine.Elect
