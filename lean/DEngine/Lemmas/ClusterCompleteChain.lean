/-
  C05, towards leader completeness: pure lemmas about chains over a growing ghost map.
-/
import DEngine.Lemmas.ClusterCompleteEntry
namespace DEngine.Cluster

/-- two chains that share an entry share everything below it -/
theorem chain_prefix_mem {g : List GRec} (hg : GFun g) {a b : Log} (ha : Chain g a) (hb : Chain g b) {e : Entry}
    (hea : e ∈ a) (heb : e ∈ b) : ∀ x ∈ a, x.index ≤ e.index → x ∈ b := by
  intro x hx hle
  have g1 := chain_mem_get ha hea
  have g2 := chain_mem_get hb heb
  have gx := chain_mem_get ha hx
  have hk : e.index - 1 + 1 = e.index := by omega
  have hagree := chain_agree hg ha hb (e.index - 1) e e g1.1 g2.1 rfl
  rw [hk] at hagree
  have h3 : (a.take e.index)[x.index - 1]? = some x := by
    rw [List.getElem?_take]; simp [gx.1]; omega
  rw [hagree] at h3
  exact List.mem_of_mem_take (List.mem_of_getElem? h3)

/-- a chain over the grown map that avoids the new record is a chain over the old map -/
theorem chain_restrict {g : List GRec} {gn : GRec} : ∀ {l : Log} {pi pt : Nat}, ChainFrom (g ++ [gn]) pi pt l →
    (∀ x ∈ l, ¬(x.index = gn.index ∧ x.term = gn.term ∧ x.payload = gn.payload)) → ChainFrom g pi pt l := by
  intro l
  induction l with
  | nil => intro _ _ _ _; trivial
  | cons e es ih =>
    intro pi pt hc hno
    refine ⟨hc.1, ?_, ih hc.2.2 (fun x hx => hno x (List.mem_cons_of_mem _ hx))⟩
    rcases List.mem_append.mp hc.2.1 with h | h
    · exact h
    · exfalso
      simp at h
      apply hno e List.mem_cons_self
      rw [← h]; exact ⟨rfl, rfl, rfl⟩

/-- a chain that contains a record on top of which nothing was ever created ends there -/
theorem chain_ends_at {g : List GRec} (hg : GFun g) {M l : Log} {en : Entry} (hM : Chain g (M ++ [en]))
    (hl : Chain g l) (hen : en ∈ l)
    (hnoabove : ∀ r ∈ g, r.pred = en.term → r.index ≠ en.index + 1) : l = M ++ [en] := by
  have hmem : en ∈ M ++ [en] := by simp
  have g1 := chain_mem_get hl hen
  have g2 := chain_mem_get hM hmem
  have hk : en.index - 1 + 1 = en.index := by omega
  have hagree := chain_agree hg hl hM (en.index - 1) en en g1.1 g2.1 rfl
  rw [hk] at hagree
  have hMlen : (M ++ [en]).length = en.index := by
    have := chain_index hM (k := M.length) (e := en) (by simp)
    simp; omega
  have htake : (M ++ [en]).take en.index = M ++ [en] := by rw [← hMlen]; exact List.take_length
  rw [htake] at hagree
  have hlen : l.length ≤ en.index := by
    by_cases h : l.length ≤ en.index
    · exact h
    · exfalso
      have hlt : en.index < l.length := by omega
      have hz : l[en.index]? = some l[en.index] := by simp [hlt]
      have hrec := chainFrom_get hl hz
      have hpred : predTerm 0 l en.index = en.term := by
        unfold predTerm
        have : en.index ≠ 0 := by omega
        simp [this, g1.1]
      rw [hpred] at hrec
      exact hnoabove _ hrec.2 rfl (by simp; omega)
  rw [← hagree, List.take_of_length_le hlen]

end DEngine.Cluster
