import DEngine.Lemmas.ElectInv
/-!
  What one step can do to one node (`step_node`), and the node-local observation invariants built on it:
  terms never decrease without a crash (C02), published leader-change values are term-ordered (C31) and, away
  from the F28 trigger, truthful (C31).
-/
namespace DEngine.Elect

/-- every way a label can change the node of process `q` -/
def NodeStepL (c : Cluster) (l : Label) (q : Nat) (n' : Node) : Prop :=
  n' = (c.proc q).node ∨
  match l with
  | .voteReq p r => q = p ∧ n' = (onVoteReq (c.proc q).node r).1
  | .appendEntries p t ld => q = p ∧ n' = (onAppendEntries (c.proc q).node t ld).1
  | .heartbeat ld p => q = p ∧ (c.proc ld).node.role = .leader ∧
      n' = (onAppendEntries (c.proc q).node (c.proc ld).node.term ld).1
  | .timeout p => q = p ∧ n' = becomeCandidate (c.proc q).node
  | .start p => q = p ∧ (c.proc q).node.role = .candidate ∧ n' = startElection (c.proc q).node
  | .deliver cand j => q = j ∧ n' = (onVoteReq (c.proc q).node (c.requestOf cand)).1
  | .scripted _ _ => False
  | .finish p _ => q = p ∧
      ∃ o, n' = finishElection (c.proc q).node o ∧ (∀ t, o = .higherTerm t → (c.proc q).node.term < t)
  | .stepDown p => q = p ∧ n' = becomeFollower (c.proc q).node none
  | .higherTerm p t => q = p ∧ n' = leaderOnHigherTerm (c.proc q).node t
  | .noopCommitted p => q = p ∧ ∃ t, (c.proc q).node.role = .leader ∧ (c.proc q).node.noopTerm = some t ∧
      n' = noopCommitted (c.proc q).node t
  | .logChange p a b => q = p ∧ n' = { (c.proc q).node with lli := a, llt := b }
  | .confChange _ _ => False
  | .stop _ => False
  | .crash _ => False
  | .restart p => q = p ∧ (c.proc q).up = false ∧
      n' = bootNode (c.proc q).node.id (c.proc q).startLearner (c.proc q).image (c.proc q).node.lli
              (c.proc q).node.llt (c.proc q).node.pubs

theorem setNode_proc (c : Cluster) (p : Nat) (n : Node) (q : Nat) :
    ((c.setNode p n).proc q).node = if q = p then n else (c.proc q).node := by
  unfold Cluster.setNode upd
  by_cases h : q = p <;> simp [h]

theorem handleVoteReq_node (c : Cluster) (p : Nat) (r : VoteReq) (q : Nat) :
    ((c.handleVoteReq p r).1.proc q).node = if q = p then (onVoteReq (c.proc p).node r).1 else (c.proc q).node := by
  unfold Cluster.handleVoteReq
  cases hg : (onVoteReq (c.proc p).node r).2.granted <;> simp [hg, setNode_proc]

theorem step_node (c : Cluster) (l : Label) (q : Nat) : NodeStepL c l q ((step c l).proc q).node := by
  unfold NodeStepL
  cases l with
  | voteReq p r =>
    simp only [step]
    split
    · rw [handleVoteReq_node]
      by_cases h : q = p
      · subst h; right; simp
      · left; simp [h]
    · left; rfl
  | appendEntries p t ld =>
    simp only [step]
    split
    · rw [setNode_proc]
      by_cases h : q = p
      · subst h; right; simp
      · left; simp [h]
    · left; rfl
  | heartbeat ld p =>
    simp only [step]
    split
    · rename_i hc
      rw [setNode_proc]
      by_cases h : q = p
      · subst h; right; simp [hc.2.2.2]
      · left; simp [h]
    · left; rfl
  | timeout p =>
    simp only [step]
    split
    · rw [setNode_proc]
      by_cases h : q = p
      · subst h; right; simp
      · left; simp [h]
    · left; rfl
  | start p =>
    simp only [step]
    split
    · rename_i hc
      simp only [setNode_proc]
      by_cases h : q = p
      · subst h; right; simp [hc.2]
      · left; simp [h]
    · left; rfl
  | deliver cand j =>
    simp only [step]
    cases hfl : c.flight cand with
    | none => left; rfl
    | some f =>
      simp only
      split
      · simp only [handleVoteReq_node]
        by_cases h : q = j
        · subst h; right; simp
        · left; simp [h]
      · left; rfl
  | scripted cand r =>
    simp only [step]
    cases hfl : c.flight cand with
    | none => left; rfl
    | some f => simp only; split <;> (left; rfl)
  | finish p ok =>
    simp only [step]
    cases hfl : c.flight p with
    | none => left; rfl
    | some f =>
      simp only
      by_cases hup : (c.proc p).up = true
      · simp only [hup, if_true]
        generalize ho : tally (c.proc p).node.term (c.proc p).node.lli (c.proc p).node.llt
            (c.proc p).memb.isSingleNodeCluster (c.proc p).memb.voters.length
            (if ok = true then some ((c.proc p).memb.voters.length, List.map (fun x => x.2) f.resps) else none) = o
        have hnode : ∀ (cnd : Prop) [Decidable cnd] (ls : List (Nat × Nat × List Nat)),
            ((if cnd then
                { c.setNode p (finishElection (c.proc p).node o) with
                    flight := upd (c.setNode p (finishElection (c.proc p).node o)).flight p none, leaders := ls }
              else
                { c.setNode p (finishElection (c.proc p).node o) with
                    flight := upd (c.setNode p (finishElection (c.proc p).node o)).flight p none }).proc q).node
            = if q = p then finishElection (c.proc p).node o else (c.proc q).node := by
          intro cnd _ ls
          by_cases hc : cnd <;> simp [hc, setNode_proc]
        rw [hnode]
        by_cases h : q = p
        · subst h
          right
          exact ⟨rfl, o, by simp, fun t ht => by rw [← ho] at ht; exact tally_higher ht⟩
        · left; simp [h]
      · simp only [hup]; left; trivial
  | stepDown p =>
    simp only [step]
    split
    · rw [setNode_proc]
      by_cases h : q = p
      · subst h; right; simp
      · left; simp [h]
    · left; rfl
  | higherTerm p t =>
    simp only [step]
    split
    · rw [setNode_proc]
      by_cases h : q = p
      · subst h; right; simp
      · left; simp [h]
    · left; rfl
  | noopCommitted p =>
    simp only [step]
    split
    · split
      · rename_i t hr hn
        rw [setNode_proc]
        by_cases h : q = p
        · subst h; right; exact ⟨rfl, t, hr, hn, by simp⟩
        · left; simp [h]
      · left; rfl
    · left; rfl
  | logChange p a b =>
    simp only [step]
    split
    · rw [setNode_proc]
      by_cases h : q = p
      · subst h; right; simp
      · left; simp [h]
    · left; rfl
  | confChange p ch =>
    simp only [step]
    split
    · left
      by_cases h : q = p
      · subst h; simp
      · simp [upd_other _ _ _ _ h]
    · left; rfl
  | stop p =>
    simp only [step]
    split
    · left
      by_cases h : q = p
      · subst h; simp only [upd_same, Proc.stop]; split <;> rfl
      · simp [upd_other _ _ _ _ h]
    · left; rfl
  | crash p =>
    simp only [step]
    split
    · left
      by_cases h : q = p
      · subst h; simp only [upd_same, Proc.crash]; split <;> rfl
      · simp [upd_other _ _ _ _ h]
    · left; rfl
  | restart p =>
    simp only [step]
    split
    · left; rfl
    · rename_i hup
      by_cases h : q = p
      · subst h
        right
        have hup' : (c.proc q).up = false := by simpa using hup
        simp [Proc.restart, hup']
      · left; simp [upd_other _ _ _ _ h]

/-! ### terms never decrease (without a crash) -/

theorem onVoteReq_term_le (n : Node) (r : VoteReq) : n.term ≤ (onVoteReq n r).1.term := by
  have spec := onVoteReq_spec (fun _ _ => True) n r
  cases hg : (onVoteReq n r).2.granted
  · exact (spec.2 hg).term
  · have g := spec.1 hg
    rw [g.term']
    rcases g.pre with h | h <;> omega

theorem followerOnAE_term_le (n : Node) (t l : Nat) : n.term ≤ (followerOnAE n t l).1.term := by
  by_cases h : n.term > t
  · rw [followerOnAE_stale n t l h]; exact Nat.le_refl _
  · rw [(followerOnAE_fields n t l h).2.1]; omega

theorem onAppendEntries_term_le (n : Node) (t l : Nat) : n.term ≤ (onAppendEntries n t l).1.term := by
  unfold onAppendEntries
  split
  · exact followerOnAE_term_le n t l
  · exact followerOnAE_term_le n t l
  · by_cases h : t ≥ n.term
    · simp only [h, if_true]
      refine Nat.le_trans ?_ (followerOnAE_term_le _ t l)
      simp only [becomeFollower_term]
      split <;> omega
    · simp only [h, if_false]; exact Nat.le_refl _
  · by_cases h : n.term ≥ t
    · simp only [h, if_true]; exact Nat.le_refl _
    · simp only [h, if_false]
      refine Nat.le_trans ?_ (followerOnAE_term_le _ t l)
      simp only [becomeFollower_term]
      omega

theorem becomeLeader_term (n : Node) : (becomeLeader n).term = n.term := by
  unfold becomeLeader; split <;> simp [updateVotedFor]

theorem finishElection_term_le (n : Node) (o : Outcome) (h : ∀ t, o = .higherTerm t → n.term < t) :
    n.term ≤ (finishElection n o).term := by
  cases o <;> simp only [finishElection, becomeLeader_term, becomeFollower_term] <;> try exact Nat.le_refl _
  exact Nat.le_of_lt (h _ rfl)

/-- the `D` part of the invariant alone: it needs no hypothesis except "no crash" -/
def DInv (c : Cluster) : Prop := ∀ p, (c.proc p).up = false → Down (c.proc p)

theorem bootNode_term_le (pr : Proc) (hd : Down pr) :
    pr.node.term ≤ (bootNode pr.node.id pr.startLearner pr.image pr.node.lli pr.node.llt pr.node.pubs).term := by
  unfold Down at hd
  unfold bootNode
  cases him : pr.image with
  | none => rw [him] at hd; simp only [Option.getD_none]; exact hd.1
  | some h => rw [him] at hd; simp only [Option.getD_some]; omega

/-- **every** step keeps or raises the term of every node (crashes and restarts included) -/
theorem step_term_le (c : Cluster) (hd : DInv c) (l : Label) (q : Nat) :
    (c.proc q).node.term ≤ ((step c l).proc q).node.term := by
  have hn := step_node c l q
  unfold NodeStepL at hn
  rcases hn with hn | hn
  · rw [hn]; exact Nat.le_refl _
  · cases l with
    | voteReq p r => rw [hn.2]; exact onVoteReq_term_le _ _
    | appendEntries p t ld => rw [hn.2]; exact onAppendEntries_term_le _ _ _
    | heartbeat ld p => rw [hn.2.2]; exact onAppendEntries_term_le _ _ _
    | timeout p => rw [hn.2]; exact (becomeCandidate_quiet (fun _ _ => True) _).term
    | start p => rw [hn.2.2]; exact Nat.le_succ _
    | deliver cand j => rw [hn.2]; exact onVoteReq_term_le _ _
    | scripted _ _ => exact hn.elim
    | finish p ok =>
      obtain ⟨_, o, ho, hh⟩ := hn
      rw [ho]; exact finishElection_term_le _ o hh
    | stepDown p => rw [hn.2]; simp
    | higherTerm p t => rw [hn.2]; exact (leaderOnHigherTerm_quiet (fun _ _ => True) _ t).term
    | noopCommitted p =>
      obtain ⟨_, t, _, _, ho⟩ := hn
      rw [ho]; simp [noopCommitted]
    | logChange p a b => rw [hn.2]; exact Nat.le_refl _
    | confChange _ _ => exact hn.elim
    | stop _ => exact hn.elim
    | crash _ => exact hn.elim
    | restart p =>
      obtain ⟨hq, hup, ho⟩ := hn
      rw [ho]
      subst hq
      exact bootNode_term_le (c.proc q) (hd q hup)

theorem setNode_proc' (c : Cluster) (p : Nat) (n : Node) (q : Nat) :
    (c.setNode p n).proc q = if q = p then { c.proc p with node := n } else c.proc q := by
  unfold Cluster.setNode upd
  by_cases h : q = p <;> simp [h]

theorem handleVoteReq_proc (c : Cluster) (p : Nat) (r : VoteReq) (q : Nat) :
    (c.handleVoteReq p r).1.proc q =
      if q = p then { c.proc p with node := (onVoteReq (c.proc p).node r).1 } else c.proc q := by
  unfold Cluster.handleVoteReq
  cases hg : (onVoteReq (c.proc p).node r).2.granted <;> simp [hg, setNode_proc']

/-- a step other than stop / crash / restart / confChange touches at most the `node` of processes that are up -/
def NodeOnly : Label → Prop
  | .stop _ => False
  | .crash _ => False
  | .restart _ => False
  | .confChange _ _ => False
  | _ => True

theorem step_proc_cases (c : Cluster) (l : Label) (hl : NodeOnly l) (q : Nat) :
    (step c l).proc q = c.proc q ∨ ((c.proc q).up = true ∧ ∃ n', (step c l).proc q = { c.proc q with node := n' }) := by
  have key : ∀ (p : Nat) (n : Node), c.ready p = true →
      (c.setNode p n).proc q = c.proc q ∨ ((c.proc q).up = true ∧ ∃ n', (c.setNode p n).proc q = { c.proc q with node := n' }) := by
    intro p n hr
    rw [setNode_proc']
    by_cases h : q = p
    · subst h; right; exact ⟨((ready_iff c q).mp hr).1, n, by simp⟩
    · left; simp [h]
  have keyv : ∀ (p : Nat) (r : VoteReq), c.ready p = true →
      (c.handleVoteReq p r).1.proc q = c.proc q ∨
        ((c.proc q).up = true ∧ ∃ n', (c.handleVoteReq p r).1.proc q = { c.proc q with node := n' }) := by
    intro p r hr
    rw [handleVoteReq_proc]
    by_cases h : q = p
    · subst h; right; exact ⟨((ready_iff c q).mp hr).1, (onVoteReq (c.proc q).node r).1, by simp⟩
    · left; simp [h]
  cases l with
  | voteReq p r =>
    simp only [step]
    split
    · rename_i hr; exact keyv p r hr
    · left; rfl
  | appendEntries p t ld =>
    simp only [step]
    split
    · rename_i hr; exact key p _ hr
    · left; rfl
  | heartbeat ld p =>
    simp only [step]
    split
    · rename_i hc; exact key p _ hc.1
    · left; rfl
  | timeout p =>
    simp only [step]
    split
    · rename_i hc; exact key p _ hc.1
    · left; rfl
  | start p =>
    simp only [step]; split
    · rename_i hc; exact key p _ hc.1
    · left; rfl
  | deliver cand j =>
    simp only [step]
    cases hfl : c.flight cand with
    | none => left; rfl
    | some f =>
      simp only
      split
      · rename_i hc; exact keyv j _ hc.2.1
      · left; rfl
  | scripted cand r =>
    simp only [step]
    cases hfl : c.flight cand with
    | none => left; rfl
    | some f => simp only; split <;> (left; rfl)
  | finish p ok =>
    simp only [step]
    cases hfl : c.flight p with
    | none => left; rfl
    | some f =>
      simp only
      by_cases hup : (c.proc p).up = true
      · simp only [hup, if_true]
        generalize tally (c.proc p).node.term (c.proc p).node.lli (c.proc p).node.llt
            (c.proc p).memb.isSingleNodeCluster (c.proc p).memb.voters.length
            (if ok = true then some ((c.proc p).memb.voters.length, List.map (fun x => x.2) f.resps) else none) = o
        have hproc : ∀ (cnd : Prop) [Decidable cnd] (ls : List (Nat × Nat × List Nat)),
            (if cnd then
                { c.setNode p (finishElection (c.proc p).node o) with
                    flight := upd (c.setNode p (finishElection (c.proc p).node o)).flight p none, leaders := ls }
              else
                { c.setNode p (finishElection (c.proc p).node o) with
                    flight := upd (c.setNode p (finishElection (c.proc p).node o)).flight p none }).proc q
            = (c.setNode p (finishElection (c.proc p).node o)).proc q := by
          intro cnd _ ls
          by_cases hc : cnd <;> simp [hc]
        rw [hproc, setNode_proc']
        by_cases h : q = p
        · subst h; right; exact ⟨hup, finishElection (c.proc q).node o, by simp⟩
        · left; simp [h]
      · simp only [hup]; left; trivial
  | stepDown p =>
    simp only [step]
    split
    · rename_i hr; exact key p _ hr
    · left; rfl
  | higherTerm p t =>
    simp only [step]
    split
    · rename_i hr; exact key p _ hr
    · left; rfl
  | noopCommitted p =>
    simp only [step]; split
    · rename_i hr
      split
      · exact key p _ hr
      · left; rfl
    · left; rfl
  | logChange p a b =>
    simp only [step]
    split
    · rename_i hr; exact key p _ hr
    · left; rfl
  | confChange _ _ => exact hl.elim
  | stop _ => exact hl.elim
  | crash _ => exact hl.elim
  | restart _ => exact hl.elim

theorem dinv_step (c : Cluster) (hd : DInv c) (l : Label) : DInv (step c l) := by
  intro q hup
  by_cases hno : NodeOnly l
  · rcases step_proc_cases c l hno q with h | ⟨hup0, n', h⟩
    · rw [h] at hup ⊢; exact hd q hup
    · rw [h] at hup; simp [hup0] at hup
  · cases l with
    | stop p =>
      simp only [step] at hup ⊢
      split at hup
      · rename_i hr
        rw [if_pos hr]
        by_cases h : q = p
        · subst h
          have hup0 := ((ready_iff c q).mp hr).1
          simp [Proc.stop, hup0, Down]
        · simp only [upd_other _ _ _ _ h] at hup ⊢; exact hd q hup
      · rename_i hr; rw [if_neg hr]; exact hd q hup
    | crash p =>
      simp only [step] at hup ⊢
      split at hup
      · rename_i hr
        rw [if_pos hr]
        by_cases h : q = p
        · subst h
          simp [Proc.crash, hr, Down]
        · simp only [upd_other _ _ _ _ h] at hup ⊢; exact hd q hup
      · rename_i hr; rw [if_neg hr]; exact hd q hup
    | restart p =>
      simp only [step] at hup ⊢
      split at hup
      · rename_i h1; rw [if_pos h1]; exact hd q hup
      · rename_i h1
        rw [if_neg h1]
        by_cases h : q = p
        · subst h
          have : (c.proc q).up = false := by simpa using h1
          simp [Proc.restart, this] at hup
        · simp only [upd_other _ _ _ _ h] at hup ⊢; exact hd q hup
    | confChange p ch =>
      simp only [step] at hup ⊢
      split at hup
      · rename_i hr
        rw [if_pos hr]
        by_cases h : q = p
        · subst h
          have hup0 := ((ready_iff c q).mp hr).1
          simp [hup0] at hup
        · simp only [upd_other _ _ _ _ h] at hup ⊢; exact hd q hup
      · rename_i hr; rw [if_neg hr]; exact hd q hup
    | _ => exact absurd trivial hno

end DEngine.Elect
