/-
  C05, "a committed entry is held by a majority": provenance of the leader's peer table and of the commit records.
-/
import DEngine.Lemmas.ClusterCompletePeers
namespace DEngine.Cluster

theorem replicate_peersKept (me : NodeId) (n : Node) (p : Option Nat) (cap sid : Nat) :
    PeersKept n (replicate me n p cap sid).1 := by
  intro _ _
  simp only [replicate]
  exact replicatePeers_keys _ _ _ _ _ _ _ _ _

theorem onLogFlushed_peers (n : Node) : (onLogFlushed n).1.peers = n.peers := by
  simp only [onLogFlushed]
  split
  · exact applyLeaderCommit_peers n
  · rfl

theorem peers_step (c : Cluster) (e : Event) (l : NodeId) :
    PeersKept (c.nodes l) ((step c e).1.nodes l) ∨
    (∃ m src sid t res, e = .deliverResp m ∧ findMsg c m = some (.resp src l sid t res) ∧
      (step c e).1.nodes l = (onAppendResponse (c.nodes l) src t res).1) ∨
    winner c e = some l := by
  have R := peersKept_refl
  cases e with
  | tick i =>
    left
    simp only [step]; unfold stepTick; dsimp only
    split
    · exact R _
    · split
      · (refine upd1 (P := PeersKept) R ?_ l; exact peersKept_follower (by simp))
      · split
        · exact R _
        · next hrole _ => (refine upd1 (P := PeersKept) R ?_ l; exact peersKept_follower (by simp [startElection, hrole]))
      · rw [leaderRound_node]; split
        · next hj => subst hj; exact replicate_peersKept _ _ _ _ _
        · exact R _
  | voteReq a b =>
    left
    simp only [step]; unfold stepVoteReq; dsimp only
    split
    · split
      · exact R _
      · show PeersKept _ (setNode (setNode c.nodes b _) a _ l)
        by_cases hla : l = a
        · subst hla
          simp only [setNode_same]
          exact peersKept_of_peers rfl
        · rw [setNode_other _ _ hla]
          refine upd1 (P := PeersKept) R ?_ l
          intro h' _
          rw [onVoteRequest_leader _ _ h']
    · exact R _
  | voteResp a b =>
    left
    simp only [step]; unfold stepVoteResp; dsimp only
    split
    · split
      · split
        · exact R _
        · (refine upd1 (P := PeersKept) R ?_ l; exact peersKept_of_peers rfl)
      · exact R _
    · exact R _
  | voteEnd i =>
    by_cases hw : winner c (.voteEnd i) = some l
    · exact Or.inr (Or.inr hw)
    · left
      simp only [step]; unfold stepVoteEnd; dsimp only
      cases hel : (c.nodes i).election with
      | none => simp only []; exact R _
      | some el =>
        simp only []
        by_cases hen : (!(c.valid i && (c.nodes i).up)) = true
        · rw [if_pos hen]; exact R _
        · rw [if_neg hen]
          cases htally : tally c.n el.req (el.collected.map (·.2)) 1 with
          | won =>
            simp only []
            have hli : l ≠ i := by
              intro h; subst h
              apply hw
              simp only [winner, hel, hen, htally]
              rfl
            rw [leaderRound_node, if_neg hli]; exact R _
          | higherTerm t =>
            simp only []
            (refine upd1 (P := PeersKept) R ?_ l; exact peersKept_follower (by rw [(becomeFollower_spec _).1]; intro h; cases h))
          | logConflict => simp only []; (refine upd1 (P := PeersKept) R ?_ l; exact peersKept_of_peers rfl)
          | noQuorum => simp only []; (refine upd1 (P := PeersKept) R ?_ l; exact peersKept_of_peers rfl)
  | write i w =>
    left
    simp only [step]; unfold stepWrite; dsimp only
    split
    · exact R _
    · split
      · show PeersKept _ (setNode (leaderRound c i (c.nodes i) (some (w + 1))).nodes i _ l)
        by_cases hl : l = i
        · subst hl; simp only [setNode_same]
          have := replicate_peersKept l (c.nodes l) (some (w + 1)) c.cap c.nextSid
          intro h1 h2
          rw [leaderRound_node, if_pos rfl] at h1 ⊢
          exact this h1 h2
        · rw [setNode_other _ _ hl, leaderRound_node c i _ _ l, if_neg hl]; exact R _
      · exact R _
  | deliverAe m =>
    left
    simp only [step]; unfold stepDeliverAe; dsimp only
    split
    · next src dst sid req reply hfm =>
      split
      · exact R _
      · have key : PeersKept (c.nodes l) (setNode c.nodes dst (onAppendEntries (c.nodes dst) req).1 l) := by
          refine upd1 (P := PeersKept) R ?_ l
          intro h' _
          rw [onAppendEntries_leader _ _ h']
        split
        · exact key
        · exact key
    · exact R _
  | deliverResp m =>
    simp only [step]; unfold stepDeliverResp; dsimp only
    split
    · next src dst sid rterm res hfm =>
      split
      · left; exact R _
      · split
        · left; exact R _
        · rw [recordCommit_nodes]
          by_cases hl : l = dst
          · subst hl
            right; left
            exact ⟨m, src, sid, rterm, res, rfl, hfm, by simp [removeMsg]⟩
          · left
            show PeersKept _ (setNode (removeMsg c m).nodes dst _ l)
            rw [setNode_other _ _ hl]; exact R _
    · left; exact R _
  | drop m => left; exact R _
  | dup m =>
    left
    simp only [step]; unfold stepDup; (try dsimp only)
    split <;> exact R _
  | streamErr a p =>
    left
    simp only [step]; unfold stepStreamErr; dsimp only
    split
    · exact R _
    · split
      · split
        · exact R _
        · refine upd1 (P := PeersKept) R ?_ l
          intro _ _
          exact updatePeer_keys _ _ _ (fun p => ⟨rfl, rfl⟩)
      · exact R _
  | streamClosed a p =>
    left
    simp only [step]; unfold stepStreamClosed; dsimp only
    split
    · exact R _
    · split
      · split
        · exact R _
        · refine upd1 (P := PeersKept) R ?_ l
          intro _ _
          exact updatePeer_keys _ _ _ (fun p => ⟨rfl, rfl⟩)
      · exact R _
  | logFlushed i =>
    left
    simp only [step]; unfold stepLogFlushed; dsimp only
    split
    · exact R _
    · split
      · rw [recordCommit_nodes]
        (refine upd1 (P := PeersKept) R ?_ l; exact peersKept_of_peers (onLogFlushed_peers _))
      · (refine upd1 (P := PeersKept) R ?_ l; exact peersKept_of_peers rfl)
  | applyCompleted i k =>
    left
    simp only [step]; unfold stepApplyCompleted; dsimp only
    split
    · exact R _
    · split
      · (refine upd1 (P := PeersKept) R ?_ l; exact peersKept_of_peers rfl)
      · exact R _
  | crash i k =>
    left
    simp only [step]; unfold stepDown'; dsimp only
    split
    · exact R _
    · split
      · exact R _
      · (refine upd1 (P := PeersKept) R ?_ l; exact peersKept_follower (by simp [downNode]))
  | stop i =>
    left
    simp only [step]; unfold stepDown'; dsimp only
    split
    · exact R _
    · split
      · exact R _
      · (refine upd1 (P := PeersKept) R ?_ l; exact peersKept_follower (by simp [downNode]))
  | start i =>
    left
    simp only [step]; unfold stepStart; (try dsimp only)
    split
    · exact R _
    · (refine upd1 (P := PeersKept) R ?_ l; exact peersKept_follower (by simp))
  | nop => left; exact R _

end DEngine.Cluster

namespace DEngine.Cluster

theorem onAppendResponse_commit (n : Node) (src rt : Nat) (res : AeResult)
    (h : (onAppendResponse n src rt res).1.commit > n.commit) :
    MajAt (onAppendResponse n src rt res).1 (onAppendResponse n src rt res).1.commit := by
  have sd : ∀ t, (stepDown n t).commit = n.commit := fun t => by
    simp only [stepDown, becomeFollower]; split <;> rfl
  unfold onAppendResponse at h ⊢
  split
  · next hc => rw [if_pos hc] at h; exact absurd h (Nat.lt_irrefl _)
  · next hc =>
    rw [if_neg hc] at h
    split
    · next hc2 => rw [if_pos hc2] at h; exact absurd h (Nat.lt_irrefl _)
    · next hc2 =>
      rw [if_neg hc2] at h
      split
      · next hc3 => rw [if_pos hc3, sd] at h; exact absurd h (Nat.lt_irrefl _)
      · next hc3 =>
        rw [if_neg hc3] at h
        split
        · simp only [] at h ⊢
          exact applyLeaderCommit_majAt _ h
        · simp only [] at h; exact absurd h (Nat.lt_irrefl _)
        · split
          · next hc4 => simp only [hc4, if_true, sd] at h; exact absurd h (Nat.lt_irrefl _)
          · next hc4 => simp only [hc4, if_false] at h; exact absurd h (Nat.lt_irrefl _)

theorem onLogFlushed_commit (n : Node) (h : (onLogFlushed n).1.commit > n.commit) :
    MajAt (onLogFlushed n).1 (onLogFlushed n).1.commit := by
  simp only [onLogFlushed] at h ⊢
  split
  · next hr => rw [if_pos hr] at h; exact applyLeaderCommit_majAt _ h
  · next hr => rw [if_neg hr] at h; exact absurd h (Nat.lt_irrefl _)

/-- the commit records grow by the committed prefix of a leader whose commit index has just advanced by the rule -/
def CommitsGrow (c c' : Cluster) : Prop :=
  c'.commits = c.commits ∨ ∃ l, c'.commits =
      ((c'.nodes l).term, (c'.nodes l).log.filter (fun e => e.index ≤ (c'.nodes l).commit)) :: c.commits ∧
    (c'.nodes l).role = .leader ∧ MajAt (c'.nodes l) (c'.nodes l).commit ∧ c.valid l = true

theorem recordCommit_grow (c0 c : Cluster) (i : NodeId) (b : Nat) (hc : c.commits = c0.commits)
    (hv : c0.valid i = true) (hm : (c.nodes i).commit > b → MajAt (c.nodes i) (c.nodes i).commit) :
    CommitsGrow c0 (recordCommit c i b) := by
  unfold recordCommit
  split
  · next h =>
    simp only [Bool.and_eq_true, beq_iff_eq, decide_eq_true_eq] at h
    right
    exact ⟨i, by simp [hc], h.1, hm h.2, hv⟩
  · left; exact hc

theorem commits_step (c : Cluster) (e : Event) : CommitsGrow c (step c e).1 := by
  cases e with
  | tick i => simp only [step]; unfold stepTick; dsimp only; split <;> (try split) <;> (try split) <;> exact Or.inl rfl
  | voteReq a b => simp only [step]; unfold stepVoteReq; dsimp only; split <;> (try split) <;> exact Or.inl rfl
  | voteResp a b => simp only [step]; unfold stepVoteResp; dsimp only; split <;> (try split) <;> (try split) <;> exact Or.inl rfl
  | voteEnd i => simp only [step]; unfold stepVoteEnd; dsimp only; split <;> (try split) <;> (try split) <;> exact Or.inl rfl
  | write i x => simp only [step]; unfold stepWrite; dsimp only; split <;> (try split) <;> exact Or.inl rfl
  | deliverAe m => simp only [step]; unfold stepDeliverAe; dsimp only; split <;> (try split) <;> (try split) <;> exact Or.inl rfl
  | deliverResp m =>
    simp only [step]; unfold stepDeliverResp; dsimp only
    split
    · next src dst sid rterm res hfm =>
      split
      · exact Or.inl rfl
      · next hen =>
        split
        · exact Or.inl rfl
        · have hv : c.valid dst = true := by
            cases hr : c.valid dst
            · simp [hr] at hen
            · rfl
          refine recordCommit_grow c _ dst _ rfl hv ?_
          intro h
          simp only [setNode_same] at h ⊢
          exact onAppendResponse_commit _ _ _ _ h
    · exact Or.inl rfl
  | drop m => exact Or.inl rfl
  | dup m => simp only [step]; unfold stepDup; (try dsimp only); split <;> exact Or.inl rfl
  | streamErr l p => simp only [step]; unfold stepStreamErr; dsimp only; split <;> (try split) <;> (try split) <;> exact Or.inl rfl
  | streamClosed l p => simp only [step]; unfold stepStreamClosed; dsimp only; split <;> (try split) <;> (try split) <;> exact Or.inl rfl
  | logFlushed i =>
    simp only [step]; unfold stepLogFlushed; dsimp only
    split
    · exact Or.inl rfl
    · next hen =>
      have hv : c.valid i = true := by
        cases hr : c.valid i
        · simp [hr] at hen
        · rfl
      split
      · refine recordCommit_grow c _ i _ rfl hv ?_
        intro h
        simp only [setNode_same] at h ⊢
        exact onLogFlushed_commit _ h
      · exact Or.inl rfl
  | applyCompleted i k => simp only [step]; unfold stepApplyCompleted; dsimp only; split <;> (try split) <;> exact Or.inl rfl
  | crash i k => simp only [step]; unfold stepDown'; dsimp only; split <;> (try split) <;> exact Or.inl rfl
  | stop i => simp only [step]; unfold stepDown'; dsimp only; split <;> (try split) <;> exact Or.inl rfl
  | start i => simp only [step]; unfold stepStart; (try dsimp only); split <;> exact Or.inl rfl
  | nop => exact Or.inl rfl

end DEngine.Cluster
