/-
  C05, leader completeness: preservation of `HInv`, part 1 (bookkeeping fields).
-/
import DEngine.Lemmas.ClusterCompleteHist
namespace DEngine.Cluster

variable {c : Cluster} {e : Event} {H : Hist}

theorem hinv_acc_tb (X : Ctx c e) (h : HInv c H) :
    ∀ z x, (z, x) ∈ (histStep c e H).acc → x.term ≤ ((step c e).1.nodes z).term := by
  intro z x hx
  simp only [histStep, List.mem_append] at hx
  rcases hx with hx | hx
  · exact Nat.le_trans (h.acc_tb z x hx) (term_mono X.hE e z)
  · exact Nat.le_of_eq (mem_accNow.mp hx).2.2

theorem hinv_gcand (X : Ctx c e) (h : HInv c H) : ∀ g ∈ (step c e).1.grants, g.2.1 ≤ ((step c e).1.nodes g.2.2).term := by
  intro g hg
  have old : ∀ g ∈ c.grants, g.2.1 ≤ ((step c e).1.nodes g.2.2).term :=
    fun g hg => Nat.le_trans (h.gcand g hg) (term_mono X.hE e _)
  rcases grants_step c e with hs | ⟨i, _, hgr, _, hnode⟩ | ⟨cand, z, el, _, hel, _, _, _, hgr, _⟩
  · rw [hs] at hg; exact old g hg
  · rw [hgr] at hg
    rcases List.mem_cons.mp hg with hg | hg
    · subst hg; simp only []; rw [hnode]; simp [startElection]
    · exact old g hg
  · rw [hgr] at hg
    rcases List.mem_cons.mp hg with hg | hg
    · subst hg; simp only []
      rw [(X.hE.elect cand el hel).1]; exact term_mono X.hE e cand
    · exact old g hg

theorem hinv_lt_won (X : Ctx c e) (h : HInv c H) :
    ∀ t l, (t, l) ∈ (step c e).1.leaderTerms → ∃ L, (t, L) ∈ (histStep c e H).won := by
  intro t l hl
  cases hw : winner c e with
  | none =>
    rw [winner_none hw] at hl
    obtain ⟨L, hL⟩ := h.lt_won t l hl
    exact ⟨L, won_sub c e H _ hL⟩
  | some i =>
    rw [(winner_facts hw).1] at hl
    rcases List.mem_cons.mp hl with hl | hl
    · cases hl
      exact ⟨(c.nodes l).log, by simp [histStep, hw]⟩
    · obtain ⟨L, hL⟩ := h.lt_won t l hl
      exact ⟨L, won_sub c e H _ hL⟩

theorem hinv_won_lt (X : Ctx c e) (h : HInv c H) :
    ∀ t L, (t, L) ∈ (histStep c e H).won → ∃ l, (t, l) ∈ (step c e).1.leaderTerms := by
  intro t L hL
  rcases won_cases hL with hL | ⟨i, hw, hp⟩
  · obtain ⟨l, hl⟩ := h.won_lt t L hL
    exact ⟨l, lt_sub c e _ hl⟩
  · cases hp
    exact ⟨i, by rw [(winner_facts hw).1]; exact List.mem_cons_self⟩

theorem winner_fresh (X : Ctx c e) (h : HInv c H) {i : NodeId} (hw : winner c e = some i) :
    ∀ L, ((c.nodes i).term, L) ∉ H.won := by
  intro L hL
  obtain ⟨l, hl⟩ := h.won_lt _ L hL
  obtain ⟨_, _, el, hel, hwon, _⟩ := winner_spec hw
  exact won_term_fresh X.hE i el hel hwon l hl

theorem hinv_wuniq (X : Ctx c e) (h : HInv c H) :
    ∀ t L1 L2, (t, L1) ∈ (histStep c e H).won → (t, L2) ∈ (histStep c e H).won → L1 = L2 := by
  intro t L1 L2 h1 h2
  rcases won_cases h1 with h1 | ⟨i, hw, hp1⟩ <;> rcases won_cases h2 with h2 | ⟨i2, hw2, hp2⟩
  · exact h.wuniq t L1 L2 h1 h2
  · cases hp2; exact absurd h1 (winner_fresh X h hw2 L1)
  · cases hp1; exact absurd h2 (winner_fresh X h hw L2)
  · rw [hw] at hw2; cases hw2; cases hp1; cases hp2; rfl

theorem hinv_lead_won (X : Ctx c e) (h : HInv c H) : ∀ l, ((step c e).1.nodes l).role = .leader →
    ∃ L, (((step c e).1.nodes l).term, L) ∈ (histStep c e H).won ∧ ∀ x ∈ L, x ∈ ((step c e).1.nodes l).log := by
  intro l hrole
  rcases leader_cont' c e l with hs | hw
  · obtain ⟨hr0, ht0, new, hl0⟩ := hs hrole
    obtain ⟨L, hL, hsub⟩ := h.lead_won l hr0
    refine ⟨L, won_sub c e H _ (by rw [ht0]; exact hL), ?_⟩
    intro x hx; rw [hl0]; exact List.mem_append_left _ (hsub x hx)
  · obtain ⟨_, hlog, hterm, _, _⟩ := winner_facts hw
    refine ⟨(c.nodes l).log, by rw [hterm]; simp [histStep, hw], ?_⟩
    intro x hx; rw [hlog]; exact List.mem_append_left _ hx

end DEngine.Cluster
