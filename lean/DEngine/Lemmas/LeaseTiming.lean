import DEngine.Model.LeaseTiming
/-!
Inductive invariant of the cluster timing model (C12 part c) and its preservation by every event under the per-step
hypotheses H_sticky / H_freshRound.
-/
namespace DEngine.LeaseTiming
open DEngine.Lease

/-- pigeonhole on a list: two predicates whose counts exceed the length share an element -/
theorem countP_add_le {α : Type} (p q : α → Bool) (l : List α) :
    l.countP p + l.countP q ≤ l.length + l.countP (fun a => p a && q a) := by
  induction l with
  | nil => simp
  | cons a l ih =>
    simp only [List.countP_cons, List.length_cons]
    cases hp : p a <;> cases hq : q a <;> simp <;> omega

theorem exists_common {α : Type} (p q : α → Bool) (l : List α) (h : l.length < l.countP p + l.countP q) :
    ∃ a ∈ l, p a = true ∧ q a = true := by
  have h1 := countP_add_le p q l
  have : 0 < l.countP (fun a => p a && q a) := by omega
  obtain ⟨a, ha, hpa⟩ := List.countP_pos_iff.mp this
  exact ⟨a, ha, by simpa using hpa⟩

def grantedBy (s : TState) (w : Win) (v : Nat) : Bool :=
  s.grants.any (fun g => g.voter == v && g.cand == w.node && g.term == w.term && decide (g.time ≤ w.time))

structure Inv (P : Params) (s : TState) : Prop where
  sends_le : ∀ x ∈ s.sends, x ≤ s.now
  ae_le : ∀ p r, s.lastAE p = some r → r ≤ s.now
  acks_ok : ∀ p x, (p, x) ∈ s.acks → p ≠ 0 ∧ ∃ r, s.lastAE p = some r ∧ x ≤ r
  fresh_ok : ∀ p x, (p, x) ∈ s.fresh → p ≠ 0 ∧ ∃ r, s.lastAE p = some r ∧ x ≤ r
  grants_ok : ∀ g ∈ s.grants, g.time ≤ s.now ∧ g.term ≤ s.term g.voter
  sticky : ∀ g ∈ s.grants, P.T < g.term → g.voter ≠ 0 →
      (∀ x, (g.voter, x) ∈ s.acks → x + P.emin ≤ g.time) ∧ (∀ x, (g.voter, x) ∈ s.fresh → x + P.emin ≤ g.time)
  term0_dead : P.T < s.term 0 → s.deadline = 0
  wins_ok : ∀ w ∈ s.wins, w.time ≤ s.now ∧ (List.range P.n).countP (grantedBy s w) ≥ P.n / 2 + 1
  lease_ok : s.deadline = 0 ∨ renewalFresh (peers P.n) (P.n / 2) P.lease s.fresh s.deadline = true

theorem inv_init (P : Params) : Inv P (init P) := by
  refine ⟨?_, ?_, ?_, ?_, ?_, ?_, ?_, ?_, ?_⟩ <;> simp [init]

theorem ackedSince_cons (f : List (Nat × Nat)) (e : Nat × Nat) (lease d v : Nat)
    (h : ackedSince f lease d v = true) : ackedSince (e :: f) lease d v = true := by
  unfold ackedSince at *
  simp only [List.any_cons, Bool.or_eq_true]
  exact Or.inr h

theorem renewalFresh_cons (vs : List Nat) (need lease : Nat) (f : List (Nat × Nat)) (e : Nat × Nat) (d : Nat)
    (h : renewalFresh vs need lease f d = true) : renewalFresh vs need lease (e :: f) d = true := by
  unfold renewalFresh at *
  simp only [decide_eq_true_eq] at *
  have := List.countP_mono_left (l := vs) (p := ackedSince f lease d) (q := ackedSince (e :: f) lease d)
    (fun x _ hx => ackedSince_cons f e lease d x hx)
  omega

theorem grantedBy_mono (s : TState) (g0 : Grant) (w : Win) (v : Nat) (h : grantedBy s w v = true) :
    grantedBy { s with grants := g0 :: s.grants } w v = true := by
  unfold grantedBy at *
  simp only [List.any_cons, Bool.or_eq_true]
  exact Or.inr h

theorem setAt_same {α : Type} (f : Nat → α) (i : Nat) (x : α) : setAt f i x i = x := by simp [setAt]
theorem setAt_other {α : Type} (f : Nat → α) (i j : Nat) (x : α) (h : j ≠ i) : setAt f i x j = f j := by
  simp [setAt, h]

/-- the timer guard, unfolded -/
theorem timerExpired_iff (P : Params) (s : TState) (v : Nat) :
    timerExpired P s v = true ↔ ∀ r, s.lastAE v = some r → r + P.emin ≤ s.now := by
  unfold timerExpired
  cases h : s.lastAE v with
  | none => simp
  | some r => simp

/-- every event preserves the invariant, given the two per-step hypotheses -/
theorem inv_step (P : Params) (s s' : TState) (e : Ev) (hinv : Inv P s)
    (hst : stickyOk P s e = true) (hfr : freshOk P s e = true) (h : step P s e = some s') : Inv P s' := by
  obtain ⟨h_sends, h_ae, h_acks, h_fresh, h_grants, h_sticky, h_t0, h_wins, h_lease⟩ := hinv
  cases e with
  | tick d =>
    simp only [step, Option.some.injEq] at h; subst h
    refine ⟨?_, ?_, h_acks, h_fresh, ?_, h_sticky, h_t0, ?_, h_lease⟩
    · intro x hx; have := h_sends x hx; simp only; omega
    · intro p r hr; have := h_ae p r hr; simp only; omega
    · intro g hg; have := h_grants g hg; exact ⟨by simp only; omega, this.2⟩
    · intro w hw; have := h_wins w hw; exact ⟨by simp only; omega, this.2⟩
  | hb =>
    simp only [step] at h
    split at h
    · simp only [Option.some.injEq] at h; subst h
      refine ⟨?_, h_ae, h_acks, h_fresh, h_grants, h_sticky, h_t0, h_wins, h_lease⟩
      intro x hx
      simp only [List.mem_cons] at hx
      rcases hx with rfl | hx
      · exact Nat.le_refl _
      · exact h_sends x hx
    · cases h
  | revoke =>
    simp only [step, Option.some.injEq] at h; subst h
    exact ⟨h_sends, h_ae, h_acks, h_fresh, h_grants, h_sticky, fun _ => rfl, h_wins, Or.inl rfl⟩
  | win c t =>
    simp only [step] at h
    split at h
    · rename_i hc
      simp only [Option.some.injEq] at h; subst h
      refine ⟨h_sends, h_ae, h_acks, h_fresh, h_grants, h_sticky, h_t0, ?_, h_lease⟩
      intro w hw
      simp only [List.mem_cons] at hw
      rcases hw with rfl | hw
      · refine ⟨Nat.le_refl _, ?_⟩
        simp only [decide_eq_true_eq] at hc
        have hmono := List.countP_mono_left (l := List.range P.n) (p := hasGrant s.grants c t)
          (q := grantedBy { s with wins := ⟨c, t, s.now⟩ :: s.wins } ⟨c, t, s.now⟩) (by
            intro v _ hv
            unfold hasGrant at hv
            unfold grantedBy
            rw [List.any_eq_true] at hv ⊢
            obtain ⟨g, hg, hgv⟩ := hv
            refine ⟨g, hg, ?_⟩
            have := (h_grants g hg).1
            simp only [Bool.and_eq_true, beq_iff_eq] at hgv
            simp [hgv.1.1, hgv.1.2, hgv.2, this])
        omega
      · exact h_wins w hw
    · cases h
  | recvAE p x =>
    simp only [step] at h
    split at h
    · rename_i hg
      simp only [Bool.and_eq_true, bne_iff_ne, ne_eq, decide_eq_true_eq, List.contains_iff_mem] at hg
      obtain ⟨⟨hp0, _hpn⟩, hxs⟩ := hg
      split at h
      · rename_i hterm
        simp only [Option.some.injEq] at h; subst h
        have hx_le : x ≤ s.now := h_sends x hxs
        refine ⟨h_sends, ?_, ?_, ?_, ?_, ?_, ?_, h_wins, h_lease⟩
        · intro q r hr
          simp only [setAt] at hr
          split at hr
          · cases hr; exact Nat.le_refl _
          · exact h_ae q r hr
        · intro q y hq
          simp only [List.mem_cons, Prod.mk.injEq] at hq
          rcases hq with ⟨rfl, rfl⟩ | hq
          · exact ⟨hp0, s.now, by simp [setAt], hx_le⟩
          · obtain ⟨hq0, r, hr, hyr⟩ := h_acks q y hq
            refine ⟨hq0, ?_⟩
            by_cases hqp : q = p
            · subst hqp; exact ⟨s.now, by simp [setAt], Nat.le_trans hyr (h_ae _ r hr)⟩
            · exact ⟨r, by simp [setAt, hqp, hr], hyr⟩
        · intro q y hq
          obtain ⟨hq0, r, hr, hyr⟩ := h_fresh q y hq
          refine ⟨hq0, ?_⟩
          by_cases hqp : q = p
          · subst hqp; exact ⟨s.now, by simp [setAt], Nat.le_trans hyr (h_ae _ r hr)⟩
          · exact ⟨r, by simp [setAt, hqp, hr], hyr⟩
        · intro g hg
          have := h_grants g hg
          refine ⟨this.1, ?_⟩
          simp only [setAt]
          split
          · rename_i hv; rw [hv] at this; omega
          · exact this.2
        · intro g hg hgt hv0
          obtain ⟨h1, h2⟩ := h_sticky g hg hgt hv0
          refine ⟨?_, h2⟩
          intro y hy
          simp only [List.mem_cons, Prod.mk.injEq] at hy
          rcases hy with ⟨hvp, rfl⟩ | hy
          · -- a voter that granted a vote for a term > T has a term > T and no longer accepts L's heartbeat
            have := (h_grants g hg).2
            rw [hvp] at this
            omega
          · exact h1 y hy
        · intro ht
          simp only [setAt, if_neg (Ne.symm hp0)] at ht
          exact h_t0 ht
      · simp only [Option.some.injEq] at h; subst h
        exact ⟨h_sends, h_ae, h_acks, h_fresh, h_grants, h_sticky, h_t0, h_wins, h_lease⟩
    · cases h
  | recvAck p x q =>
    simp only [step] at h
    split at h
    · rename_i hmem
      simp only [List.contains_iff_mem] at hmem
      split at h
      · rename_i hact
        have hfresh' : ∀ p' y, (p', y) ∈ raiseFresh s.fresh p x → p' ≠ 0 ∧ ∃ r, s.lastAE p' = some r ∧ y ≤ r := by
          intro p' y hy
          simp only [raiseFresh, List.mem_cons, Prod.mk.injEq] at hy
          rcases hy with ⟨rfl, rfl⟩ | hy
          · exact h_acks _ _ hmem
          · exact h_fresh p' y hy
        have hsticky' : ∀ g ∈ s.grants, P.T < g.term → g.voter ≠ 0 →
            (∀ y, (g.voter, y) ∈ s.acks → y + P.emin ≤ g.time) ∧
            (∀ y, (g.voter, y) ∈ raiseFresh s.fresh p x → y + P.emin ≤ g.time) := by
          intro g hg hgt hv0
          obtain ⟨h1, h2⟩ := h_sticky g hg hgt hv0
          refine ⟨h1, ?_⟩
          intro y hy
          simp only [raiseFresh, List.mem_cons, Prod.mk.injEq] at hy
          rcases hy with ⟨hvp, rfl⟩ | hy
          · exact h1 y (hvp ▸ hmem)
          · exact h2 y hy
        simp only [Bool.and_eq_true, beq_iff_eq] at hact
        cases q with
        | true =>
          simp only [if_true, Option.some.injEq] at h; subst h
          refine ⟨h_sends, h_ae, h_acks, hfresh', h_grants, hsticky', ?_, h_wins, ?_⟩
          · intro ht; simp only at ht; omega
          · right
            simp only [freshOk, Bool.true_and, hact.1, hact.2, beq_self_eq_true, List.contains_iff_mem, hmem,
              Bool.and_self, if_true] at hfr
            exact hfr
        | false =>
          simp only [Bool.false_eq_true, if_false, Option.some.injEq] at h; subst h
          refine ⟨h_sends, h_ae, h_acks, hfresh', h_grants, hsticky', h_t0, h_wins, ?_⟩
          rcases h_lease with h0 | hl
          · exact Or.inl h0
          · exact Or.inr (renewalFresh_cons _ _ _ _ _ _ hl)
      · simp only [Option.some.injEq] at h; subst h
        exact ⟨h_sends, h_ae, h_acks, h_fresh, h_grants, h_sticky, h_t0, h_wins, h_lease⟩
    · cases h
  | grant v c t =>
    simp only [step] at h
    split at h
    · split at h
      · -- L itself votes: adopts the term and revokes
        rename_i hv0
        simp only [beq_iff_eq] at hv0
        subst hv0
        split at h
        · rename_i ht
          simp only [Option.some.injEq] at h; subst h
          refine ⟨h_sends, ?_, h_acks, h_fresh, ?_, ?_, fun _ => rfl, ?_, Or.inl rfl⟩
          · exact h_ae
          · intro g hg
            simp only [List.mem_cons] at hg
            rcases hg with rfl | hg
            · exact ⟨Nat.le_refl _, by simp [setAt]⟩
            · have := h_grants g hg
              refine ⟨this.1, ?_⟩
              simp only [setAt]
              split
              · rename_i hgv; rw [hgv] at this; omega
              · exact this.2
          · intro g hg hgt hgv0
            simp only [List.mem_cons] at hg
            rcases hg with rfl | hg
            · exact absurd rfl hgv0
            · exact h_sticky g hg hgt hgv0
          · intro w hw
            have := h_wins w hw
            refine ⟨this.1, ?_⟩
            have hm := List.countP_mono_left (l := List.range P.n) (p := grantedBy s w)
              (q := grantedBy { s with term := setAt s.term 0 t, deadline := 0, lActive := false,
                                       grants := ⟨0, c, t, s.now⟩ :: s.grants } w)
              (fun v _ hv => by
                unfold grantedBy at *
                simp only [List.any_cons, Bool.or_eq_true]
                exact Or.inr hv)
            omega
        · cases h
      · rename_i hv0
        simp only [beq_iff_eq] at hv0
        split at h
        · rename_i hg
          simp only [Bool.and_eq_true, decide_eq_true_eq, Bool.or_eq_true, bne_iff_ne, ne_eq] at hg
          obtain ⟨htv, hself⟩ := hg
          simp only [Option.some.injEq] at h; subst h
          -- the timer guard holds for the self vote (model) and for other voters (H_sticky)
          have htimer : ∀ r, s.lastAE v = some r → r + P.emin ≤ s.now := by
            apply (timerExpired_iff P s v).mp
            simp only [stickyOk, Bool.or_eq_true, beq_iff_eq] at hst
            rcases hst with (h0 | hvc) | hte
            · exact absurd h0 hv0
            · rcases hself with hne | hte
              · exact absurd hvc hne
              · exact hte
            · exact hte
          refine ⟨h_sends, h_ae, h_acks, h_fresh, ?_, ?_, ?_, ?_, h_lease⟩
          · intro g hg
            simp only [List.mem_cons] at hg
            rcases hg with rfl | hg
            · exact ⟨Nat.le_refl _, by simp [setAt]⟩
            · have := h_grants g hg
              refine ⟨this.1, ?_⟩
              simp only [setAt]
              split
              · rename_i hgv; rw [hgv] at this; omega
              · exact this.2
          · intro g hg hgt hgv0
            simp only [List.mem_cons] at hg
            rcases hg with rfl | hg
            · constructor
              · intro y hy
                obtain ⟨_, r, hr, hyr⟩ := h_acks v y hy
                have := htimer r hr
                simp only; omega
              · intro y hy
                obtain ⟨_, r, hr, hyr⟩ := h_fresh v y hy
                have := htimer r hr
                simp only; omega
            · exact h_sticky g hg hgt hgv0
          · intro ht
            simp only [setAt, if_neg (Ne.symm hv0)] at ht
            exact h_t0 ht
          · intro w hw
            have := h_wins w hw
            refine ⟨this.1, ?_⟩
            have hm := List.countP_mono_left (l := List.range P.n) (p := grantedBy s w)
              (q := grantedBy { s with term := setAt s.term v t, grants := ⟨v, c, t, s.now⟩ :: s.grants } w)
              (fun v' _ hv => by
                unfold grantedBy at *
                simp only [List.any_cons, Bool.or_eq_true]
                exact Or.inr hv)
            omega
        · cases h
    · cases h

theorem inv_run (P : Params) (evs : List Ev) : ∀ (s s' : TState), Inv P s →
    runT P (fun s e => stickyOk P s e && freshOk P s e) s evs = some s' → Inv P s' := by
  induction evs with
  | nil => intro s s' hi h; simp only [runT, Option.some.injEq] at h; subst h; exact hi
  | cons e es ih =>
    intro s s' hi h
    simp only [runT] at h
    split at h
    · rename_i hh
      simp only [Bool.and_eq_true] at hh
      split at h
      · rename_i s1 hs1
        exact ih s1 s' (inv_step P s s1 e hi hh.1 hh.2 hs1) h
      · cases h
    · cases h

theorem countP_union_ge (q : Nat → Bool) (l : List Nat) :
    l.countP (fun v => v == 0 || q v) ≥ l.countP (fun v => v == 0) + l.countP (fun v => q v && (v != 0)) := by
  induction l with
  | nil => simp
  | cons a l ih =>
    rw [List.countP_cons, List.countP_cons, List.countP_cons]
    have hne : (a != 0) = !(a == 0) := rfl
    rw [hne]
    cases h : a == 0 <;> cases hq : q a <;>
      simp only [Bool.or_false, Bool.or_true, Bool.and_true, Bool.and_false,
        Bool.not_true, Bool.not_false, if_true, if_false, Bool.false_eq_true] <;>
      omega

/-- the leader counts itself: `need` peers + node 0 -/
theorem count_with_leader (n : Nat) (hn : 0 < n) (q : Nat → Bool) :
    (List.range n).countP (fun v => v == 0 || q v) ≥ (peers n).countP q + 1 := by
  unfold peers
  rw [List.countP_filter]
  have h0 : 0 < (List.range n).countP (fun v => v == 0) :=
    List.countP_pos_iff.mpr ⟨0, List.mem_range.mpr hn, by simp⟩
  have hadd := countP_add_le (fun v => v == 0) (fun v => q v && (v != 0)) (List.range n)
  have hz : (List.range n).countP (fun a => (a == 0) && (q a && (a != 0))) = 0 := by
    rw [List.countP_eq_zero]
    intro a _
    cases h : a == 0 <;> simp [h, bne]
  have := countP_union_ge q (List.range n)
  omega

/-- **The timing argument**: in every state satisfying the invariant, the lease deadline lies strictly before the
    moment any other node won an election of a higher term. -/
theorem deadline_before_win (P : Params) (s : TState) (hinv : Inv P s) (hcfg : P.lease < P.emin) :
    ∀ w ∈ s.wins, P.T < w.term → s.deadline = 0 ∨ s.deadline < w.time := by
  intro w hw hwt
  obtain ⟨_, _, _, h_fresh, h_grants, h_sticky, h_t0, h_wins, h_lease⟩ := hinv
  rcases h_lease with h0 | hl
  · exact Or.inl h0
  · by_cases hd0 : s.deadline = 0
    · exact Or.inl hd0
    right
    obtain ⟨_, hcount⟩ := h_wins w hw
    have hn : 0 < P.n := by
      rcases Nat.eq_zero_or_pos P.n with h | h
      · rw [h] at hcount; simp at hcount
      · exact h
    unfold renewalFresh at hl
    simp only [decide_eq_true_eq] at hl
    have hA := count_with_leader P.n hn (ackedSince s.fresh P.lease s.deadline)
    have hlen : (List.range P.n).length = P.n := List.length_range
    obtain ⟨v, _, hv1, hv2⟩ := exists_common (fun v => v == 0 || ackedSince s.fresh P.lease s.deadline v)
      (grantedBy s w) (List.range P.n) (by rw [hlen]; omega)
    unfold grantedBy at hv2
    rw [List.any_eq_true] at hv2
    obtain ⟨g, hg, hgp⟩ := hv2
    simp only [Bool.and_eq_true, beq_iff_eq, decide_eq_true_eq] at hgp
    obtain ⟨⟨⟨hgv, _⟩, hgt⟩, hgtime⟩ := hgp
    have hgT : P.T < g.term := by omega
    by_cases hv0 : v = 0
    · -- the leader itself voted for the higher term: it had revoked
      subst hv0
      have := (h_grants g hg).2
      rw [hgv] at this
      exact absurd (h_t0 (by omega)) hd0
    · simp only [Bool.or_eq_true, beq_iff_eq, hv0, false_or] at hv1
      unfold ackedSince at hv1
      rw [List.any_eq_true] at hv1
      obtain ⟨⟨p, x⟩, hmem, hpx⟩ := hv1
      simp only [Bool.and_eq_true, beq_iff_eq, decide_eq_true_eq] at hpx
      obtain ⟨hpv, hdx⟩ := hpx
      subst hpv
      have := (h_sticky g hg hgT (by rw [hgv]; exact hv0)).2 x (by rw [hgv]; exact hmem)
      omega

end DEngine.LeaseTiming
