import DEngine.Model.Repl
/-!
# Helper lemmas for the `repl` family (C08, C36, C07)
List-level facts about `contigFrom`, `contigRun`, lookups in gap-free lists and the four paths of
`filterAppend`.
-/
namespace DEngine.Repl

/-! ## contigFrom -/

theorem contigFrom_nil (s : Nat) : contigFrom s [] = true := rfl

theorem contigFrom_cons (s : Nat) (e : Entry) (es : List Entry) :
    contigFrom s (e :: es) = true ↔ e.index = s ∧ contigFrom (s + 1) es = true := by
  simp [contigFrom]

theorem contigFrom_append (s : Nat) (a b : List Entry) :
    contigFrom s (a ++ b) = true ↔ contigFrom s a = true ∧ contigFrom (s + a.length) b = true := by
  induction a generalizing s with
  | nil => simp [contigFrom]
  | cons e es ih =>
    simp only [List.cons_append, contigFrom_cons, ih, List.length_cons]
    have : s + 1 + es.length = s + (es.length + 1) := by omega
    rw [this]
    constructor
    · rintro ⟨h1, h2, h3⟩; exact ⟨⟨h1, h2⟩, h3⟩
    · rintro ⟨⟨h1, h2⟩, h3⟩; exact ⟨h1, h2, h3⟩

theorem contigFrom_map_index (s : Nat) (es : List Entry) :
    contigFrom s es = true ↔ es.map (·.index) = List.range' s es.length := by
  induction es generalizing s with
  | nil => simp [contigFrom]
  | cons e es ih =>
    simp only [contigFrom_cons, List.map_cons, List.length_cons, List.range'_succ, List.cons.injEq, ih]

theorem contigFrom_index_ge {s : Nat} {es : List Entry} (h : contigFrom s es = true) :
    ∀ e ∈ es, s ≤ e.index := by
  induction es generalizing s with
  | nil => simp
  | cons x xs ih =>
    rw [contigFrom_cons] at h
    intro e he
    rcases List.mem_cons.mp he with rfl | he
    · omega
    · have := ih h.2 e he; omega

theorem contigFrom_index_lt {s : Nat} {es : List Entry} (h : contigFrom s es = true) :
    ∀ e ∈ es, e.index < s + es.length := by
  induction es generalizing s with
  | nil => simp
  | cons x xs ih =>
    rw [contigFrom_cons] at h
    intro e he
    rcases List.mem_cons.mp he with rfl | he
    · simp; omega
    · have := ih h.2 e he; simp; omega

theorem contigFrom_drop {s : Nat} {es : List Entry} (h : contigFrom s es = true) (k : Nat) :
    contigFrom (s + k) (es.drop k) = true := by
  induction k generalizing s es with
  | zero => simpa using h
  | succ k ih =>
    cases es with
    | nil => simp [contigFrom]
    | cons x xs =>
      rw [contigFrom_cons] at h
      have := ih h.2
      simpa [Nat.add_assoc, Nat.add_comm 1 k] using this

theorem contigFrom_getElem? {s : Nat} {es : List Entry} (h : contigFrom s es = true) (k : Nat) (e : Entry)
    (hk : es[k]? = some e) : e.index = s + k := by
  induction es generalizing s k with
  | nil => simp at hk
  | cons x xs ih =>
    rw [contigFrom_cons] at h
    cases k with
    | zero => simp at hk; subst hk; omega
    | succ k => simp at hk; have := ih h.2 k hk; omega

theorem lastOf_contig {s : Nat} {es : List Entry} (h : contigFrom s es = true) (hne : es ≠ []) :
    lastOf es = s + es.length - 1 := by
  induction es generalizing s with
  | nil => exact absurd rfl hne
  | cons x xs ih =>
    rw [contigFrom_cons] at h
    cases xs with
    | nil => simp [lastOf, h.1]
    | cons y ys =>
      have := ih h.2 (by simp)
      simp only [lastOf, List.getLast?_cons_cons] at this ⊢
      rw [this]; simp; omega

theorem firstOf_contig {s : Nat} {es : List Entry} (h : contigFrom s es = true) (hne : es ≠ []) :
    firstOf es = s := by
  cases es with
  | nil => exact absurd rfl hne
  | cons x xs => rw [contigFrom_cons] at h; simp [firstOf, h.1]

/-- a gap-free list is contiguous from its first index. -/
theorem gapFree_iff (es : List Entry) : gapFree es = true ↔ contigFrom (firstOf es) es = true := Iff.rfl

/-! ## contigRun (fix F6) -/

theorem contigRun_contig (s : Nat) (es : List Entry) : contigFrom s (contigRun s es) = true := by
  induction es generalizing s with
  | nil => rfl
  | cons e es ih =>
    simp only [contigRun]
    split
    · rename_i h; rw [contigFrom_cons]; exact ⟨by simpa using h, ih (s + 1)⟩
    · rfl

theorem contigRun_of_contig {s : Nat} {es : List Entry} (h : contigFrom s es = true) : contigRun s es = es := by
  induction es generalizing s with
  | nil => rfl
  | cons e es ih =>
    rw [contigFrom_cons] at h
    simp [contigRun, h.1, ih h.2]

theorem contigRun_prefix (s : Nat) (es : List Entry) : contigRun s es <+: es := by
  induction es generalizing s with
  | nil => simp [contigRun]
  | cons e es ih =>
    simp only [contigRun]
    split
    · exact List.prefix_cons_inj e |>.mpr (ih (s + 1))
    · exact List.nil_prefix

theorem contigRun_append_left {s : Nat} {a : List Entry} (h : contigFrom s a = true) (b : List Entry) :
    contigRun s (a ++ b) = a ++ contigRun (s + a.length) b := by
  induction a generalizing s with
  | nil => simp
  | cons e es ih =>
    rw [contigFrom_cons] at h
    have e1 : s + 1 + es.length = s + (es.length + 1) := by omega
    simp only [List.cons_append, contigRun, h.1, beq_self_eq_true, ↓reduceIte, List.length_cons, ih h.2, e1]

/-! ## gap-free lists: filters, dropWhile, append -/

theorem gapFree_of_contigFrom {s : Nat} {es : List Entry} (h : contigFrom s es = true) : gapFree es = true := by
  cases es with
  | nil => rfl
  | cons x xs => rw [gapFree_iff, firstOf_contig h (by simp)]; exact h

/-- `dropWhile` on a contiguous list: the remainder is contiguous from its head, the head fails the
    predicate, everything before it satisfies it. -/
theorem dropWhile_contig {p : Entry → Bool} {s : Nat} {es : List Entry} (h : contigFrom s es = true)
    {e : Entry} {rest : List Entry} (hd : es.dropWhile p = e :: rest) :
    contigFrom e.index (e :: rest) = true ∧ s ≤ e.index ∧ p e = false ∧ e ∈ es ∧
      (∀ x ∈ es, x.index < e.index → p x = true) ∧ e.index + (e :: rest).length = s + es.length := by
  induction es generalizing s with
  | nil => simp at hd
  | cons x xs ih =>
    have hc := (contigFrom_cons s x xs).mp h
    rw [List.dropWhile_cons] at hd
    split at hd
    · rename_i hpx
      obtain ⟨h1, h2, h3, h4, h5, h6⟩ := ih hc.2 hd
      refine ⟨h1, by omega, h3, List.mem_cons_of_mem _ h4, ?_, by simp at h6 ⊢; omega⟩
      intro y hy hlt
      rcases List.mem_cons.mp hy with rfl | hy
      · exact hpx
      · exact h5 y hy hlt
    · rename_i hpx
      injection hd with hx hr
      subst hx; subst hr
      refine ⟨by rw [hc.1]; exact h, by omega, by simpa using hpx, List.mem_cons_self, ?_, by simp; omega⟩
      intro y hy hlt
      rcases List.mem_cons.mp hy with rfl | hy
      · omega
      · have := contigFrom_index_ge hc.2 y hy; omega

theorem dropWhile_nil_all {p : Entry → Bool} {es : List Entry} (hd : es.dropWhile p = []) :
    ∀ x ∈ es, p x = true := by
  induction es with
  | nil => simp
  | cons x xs ih =>
    rw [List.dropWhile_cons] at hd
    split at hd
    · rename_i hpx
      intro y hy
      rcases List.mem_cons.mp hy with rfl | hy
      · exact hpx
      · exact ih hd y hy
    · simp at hd

/-- keeping the entries below `d` of a contiguous list. -/
theorem filter_lt_contig {f : Nat} {es : List Entry} (h : contigFrom f es = true) (d : Nat)
    (hd1 : f ≤ d) (hd2 : d ≤ f + es.length) :
    contigFrom f (es.filter (fun e => e.index < d)) = true ∧ (es.filter (fun e => e.index < d)).length = d - f := by
  induction es generalizing f with
  | nil => simp [contigFrom] at hd2 ⊢; omega
  | cons x xs ih =>
    have hc := (contigFrom_cons f x xs).mp h
    by_cases hlt : f < d
    · have := ih hc.2 (by omega) (by simp at hd2; omega)
      have hx : decide (x.index < d) = true := by simp; omega
      simp only [List.filter_cons, hx, ↓reduceIte, contigFrom_cons, List.length_cons]
      exact ⟨⟨hc.1, this.1⟩, by omega⟩
    · have hfd : f = d := by omega
      have hx : decide (x.index < d) = false := by simp; omega
      have hrest : xs.filter (fun e => decide (e.index < d)) = [] := by
        rw [List.filter_eq_nil_iff]
        intro y hy
        have := contigFrom_index_ge hc.2 y hy
        simp; omega
      simp only [List.filter_cons, hx, hrest]
      simp [contigFrom]; omega

theorem filter_lt_all {f : Nat} {es : List Entry} (h : contigFrom f es = true) (d : Nat)
    (hd : f + es.length ≤ d) : es.filter (fun e => e.index < d) = es := by
  rw [List.filter_eq_self]
  intro y hy
  have := contigFrom_index_lt h y hy
  simp; omega

theorem lastOf_append_cons (a : List Entry) (e : Entry) (rest : List Entry) :
    lastOf (a ++ e :: rest) = lastOf (e :: rest) := by
  simp [lastOf, List.getLast?_append]
  cases h : (e :: rest).getLast? with
  | none => simp at h
  | some x => simp [h]

theorem firstOf_append_of_ne {a : List Entry} (b : List Entry) (h : a ≠ []) : firstOf (a ++ b) = firstOf a := by
  cases a with
  | nil => exact absurd rfl h
  | cons x xs => simp [firstOf]

/-- appending a block that starts right behind the last index keeps the list gap-free. -/
theorem gapFree_append {a b : List Entry} (ha : gapFree a = true) {s : Nat} (hb : contigFrom s b = true)
    (hj : a = [] ∨ s = lastOf a + 1) (h1 : ∀ e ∈ a, 1 ≤ e.index) : gapFree (a ++ b) = true := by
  cases a with
  | nil => simpa using gapFree_of_contigFrom hb
  | cons x xs =>
    rcases hj with hj | hj
    · simp at hj
    · rw [gapFree_iff] at ha
      have hl := lastOf_contig ha (by simp)
      have hf : firstOf (x :: xs) = x.index := rfl
      rw [gapFree_iff, firstOf_append_of_ne _ (by simp), contigFrom_append]
      refine ⟨ha, ?_⟩
      have : 1 ≤ x.index := h1 x List.mem_cons_self
      have e : firstOf (x :: xs) + (x :: xs).length = s := by rw [hj, hl, hf]; simp; omega
      rw [e]; exact hb

theorem contigFrom_mem_index {s : Nat} {es : List Entry} (h : contigFrom s es = true) (i : Nat)
    (h1 : s ≤ i) (h2 : i < s + es.length) : ∃ x ∈ es, x.index = i := by
  induction es generalizing s with
  | nil => simp at h2; omega
  | cons x xs ih =>
    have hc := (contigFrom_cons s x xs).mp h
    by_cases hi : i = s
    · exact ⟨x, List.mem_cons_self, by omega⟩
    · obtain ⟨y, hy, hyi⟩ := ih hc.2 (by omega) (by simp at h2; omega)
      exact ⟨y, List.mem_cons_of_mem _ hy, hyi⟩

/-- In a contiguous block that starts at or below `m+1`, the first entry above `m` sits exactly at `m+1`. -/
theorem tail_starts_after {s m : Nat} {es : List Entry} (h : contigFrom s es = true) (hs : s ≤ m + 1)
    {e : Entry} (he : e ∈ es) (hgt : m < e.index) (hbefore : ∀ x ∈ es, x.index < e.index → x.index ≤ m) :
    e.index = m + 1 := by
  by_cases hq : e.index = m + 1
  · exact hq
  · exfalso
    have hlt := contigFrom_index_lt h e he
    obtain ⟨x, hx, hxi⟩ := contigFrom_mem_index h (e.index - 1) (by omega) (by omega)
    have := hbefore x hx (by omega)
    omega

theorem appendE_ents (l : Log) (es : List Entry) : (appendE l es).ents = l.ents ++ es := rfl
theorem removeFrom_ents (l : Log) (d : Nat) : (removeFrom l d).ents = l.ents.filter (fun e => e.index < d) := rfl
theorem resetL_ents (l : Log) : (resetL l).ents = [] := rfl

/-! ## lookups in gap-free lists -/

theorem findE_mem_contig {f : Nat} {es : List Entry} (h : contigFrom f es = true) {e : Entry} (he : e ∈ es) :
    findE es e.index = some e := by
  induction es generalizing f with
  | nil => simp at he
  | cons x xs ih =>
    have hc := (contigFrom_cons f x xs).mp h
    rcases List.mem_cons.mp he with rfl | he'
    · simp [findE]
    · have hge := contigFrom_index_ge hc.2 e he'
      have hne : (x.index == e.index) = false := by simp; omega
      simp only [findE, List.find?_cons, hne]
      exact ih hc.2 he'

theorem findE_some_index {es : List Entry} {i : Nat} {z : Entry} (h : findE es i = some z) :
    z ∈ es ∧ z.index = i := by
  unfold findE at h
  exact ⟨List.mem_of_find?_eq_some h, by simpa using List.find?_some h⟩

structure LogOK (l : Log) : Prop where
  gap : gapFree l.ents = true
  pos : ∀ e ∈ l.ents, 1 ≤ e.index
  seg : segOK l = true

theorem Log.lastIdx_eq (l : Log) : l.lastIdx = lastOf l.ents := rfl
theorem Log.firstIdx_eq (l : Log) : l.firstIdx = firstOf l.ents := rfl

theorem lastOf_nil : lastOf [] = 0 := rfl

theorem lastOf_pos {es : List Entry} (h1 : ∀ e ∈ es, 1 ≤ e.index) (hne : es ≠ []) : 1 ≤ lastOf es := by
  unfold lastOf
  cases h : es.getLast? with
  | none => simp [List.getLast?_eq_none_iff] at h; exact absurd h hne
  | some e => exact h1 e (List.mem_of_getLast? h)

/-- bounds of a non-empty gap-free list. -/
theorem gapFree_bounds {es : List Entry} (hg : gapFree es = true) (hne : es ≠ []) :
    lastOf es + 1 = firstOf es + es.length ∧ 0 < es.length := by
  have hl := lastOf_contig ((gapFree_iff _).mp hg) hne
  have hpos : 0 < es.length := List.length_pos_iff.mpr hne
  omega

theorem mem_bounds {es : List Entry} (hg : gapFree es = true) {e : Entry} (he : e ∈ es) :
    firstOf es ≤ e.index ∧ e.index ≤ lastOf es := by
  have hne : es ≠ [] := List.ne_nil_of_mem he
  have hb := gapFree_bounds hg hne
  have h1 := contigFrom_index_ge ((gapFree_iff _).mp hg) e he
  have h2 := contigFrom_index_lt ((gapFree_iff _).mp hg) e he
  omega

/-- `entry_term` inside the log is the term of the entry stored there. -/
theorem entryTerm_mem {l : Log} (hg : gapFree l.ents = true) (h1 : ∀ e ∈ l.ents, 1 ≤ e.index)
    {e : Entry} (he : e ∈ l.ents) : l.entryTerm e.index = some e.term := by
  have hne : l.ents ≠ [] := List.ne_nil_of_mem he
  have hb := mem_bounds hg he
  have hp := lastOf_pos h1 hne
  unfold Log.entryTerm
  rw [Log.lastIdx_eq, Log.firstIdx_eq]
  have hc : (lastOf l.ents == 0 || decide (e.index < firstOf l.ents) || decide (e.index > lastOf l.ents)) = false := by
    simp only [Bool.or_eq_false_iff, beq_eq_false_iff_ne, ne_eq, decide_eq_false_iff_not]; omega
  rw [hc]
  simp [findE_mem_contig ((gapFree_iff _).mp hg) he]

/-- inside the index range of a gap-free log there is an entry, and `entry_term` reports its term. -/
theorem entryTerm_inrange {l : Log} (hg : gapFree l.ents = true) (h1 : ∀ e ∈ l.ents, 1 ≤ e.index)
    (hne : l.ents ≠ []) {i : Nat} (hlo : l.firstIdx ≤ i) (hhi : i ≤ l.lastIdx) :
    ∃ z ∈ l.ents, z.index = i ∧ l.entryTerm i = some z.term := by
  have hb := gapFree_bounds hg hne
  rw [Log.lastIdx_eq] at hhi; rw [Log.firstIdx_eq] at hlo
  obtain ⟨z, hz, hzi⟩ := contigFrom_mem_index ((gapFree_iff _).mp hg) i hlo (by omega)
  exact ⟨z, hz, hzi, hzi ▸ entryTerm_mem hg h1 hz⟩

/-- outside the range (and away from the purge boundary) `entry_term` is `None`; above the last index it
    is never `Some` unless it is the purge boundary of an empty log. -/
theorem entryTerm_above_last {l : Log} {i : Nat} (hi : l.lastIdx < i) (hne : l.ents ≠ []) (hb : l.pIdx < l.firstIdx ∨ l.pIdx = 0)
    (hfl : l.firstIdx ≤ l.lastIdx) : l.entryTerm i = none := by
  unfold Log.entryTerm
  have hc : (l.lastIdx == 0 || decide (i < l.firstIdx) || decide (i > l.lastIdx)) = true := by
    simp only [Bool.or_eq_true, beq_iff_eq, decide_eq_true_eq]; omega
  rw [hc]
  simp only [↓reduceIte, ite_eq_right_iff, Bool.and_eq_true, decide_eq_true_eq, beq_iff_eq]
  intro h; omega

/-! ## TermSegments atomics stay consistent (`segOK`) -/

theorem segOK_iff (l : Log) : segOK l = true ↔ ∀ e ∈ l.ents, l.ls ≤ e.index → e.term = l.lt := by
  simp only [segOK, List.all_eq_true, Bool.or_eq_true, Bool.not_eq_true', decide_eq_false_iff_not, beq_iff_eq]
  constructor
  · intro h e he hle
    rcases h e he with h' | h'
    · exact absurd hle h'
    · exact h'
  · intro h e he
    by_cases hle : l.ls ≤ e.index
    · exact Or.inr (h e he hle)
    · exact Or.inl hle

/-- the fold of `on_append` over a block of strictly newer entries keeps the invariant. -/
theorem segFold_ok (ents : List Entry) (tail : List Entry) (s : Nat × Nat) (b : Nat)
    (hinv : ∀ e ∈ ents, s.2 ≤ e.index → e.term = s.1)
    (hold : ∀ e ∈ ents, e.index < b) (hc : contigFrom b tail = true) :
    ∀ e ∈ ents ++ tail, (tail.foldl segStep s).2 ≤ e.index → e.term = (tail.foldl segStep s).1 := by
  induction tail generalizing ents s b with
  | nil => simpa using hinv
  | cons x xs ih =>
    have hcx := (contigFrom_cons b x xs).mp hc
    have := ih (ents ++ [x]) (segStep s x) (b + 1) ?_ ?_ hcx.2
    · simpa [List.append_assoc] using this
    · -- invariant after one step
      intro e he hle
      rcases List.mem_append.mp he with he | he
      · have hlt := hold e he
        unfold segStep at hle ⊢
        split at hle
        · rename_i hterm
          split at hle
          · rename_i hidx; simp at hle; omega
          · rename_i hidx
            simp only [hterm, hidx, ↓reduceIte]
            exact hinv e he hle
        · simp at hle; omega
      · simp at he; subst he
        unfold segStep
        split
        · rename_i hterm
          split <;> simpa using hterm
        · rfl
    · intro e he
      rcases List.mem_append.mp he with he | he
      · have := hold e he; omega
      · simp at he; subst he; omega

theorem segOK_appendE {l : Log} (hs : segOK l = true) {b : Nat} {tail : List Entry}
    (hold : ∀ e ∈ l.ents, e.index < b) (hc : contigFrom b tail = true) : segOK (appendE l tail) = true := by
  rw [segOK_iff] at hs ⊢
  exact segFold_ok l.ents tail (l.lt, l.ls) b hs hold hc

theorem segOK_removeFrom {l : Log} (hs : segOK l = true) (d : Nat) : segOK (removeFrom l d) = true := by
  rw [segOK_iff] at hs ⊢
  intro e he hle
  exact hs e (List.mem_filter.mp he).1 hle

theorem segOK_resetL (l : Log) : segOK (resetL l) = true := by simp [segOK, resetL]

/-! ## non-decreasing terms -/

theorem termsFrom_weaken {t t' : Nat} {es : List Entry} (h : termsFrom t es = true) (ht : t' ≤ t) :
    termsFrom t' es = true := by
  cases es with
  | nil => rfl
  | cons x xs =>
    simp only [termsFrom, Bool.and_eq_true, decide_eq_true_eq] at h ⊢
    exact ⟨by omega, h.2⟩

theorem termsFrom_append {t : Nat} {a b : List Entry} (h : termsFrom t (a ++ b) = true) :
    termsFrom t a = true ∧ termsFrom t b = true := by
  induction a generalizing t with
  | nil => exact ⟨rfl, by simpa using h⟩
  | cons x xs ih =>
    simp only [List.cons_append, termsFrom, Bool.and_eq_true, decide_eq_true_eq] at h ⊢
    have := ih h.2
    exact ⟨⟨h.1, this.1⟩, termsFrom_weaken this.2 h.1⟩

/-- every term lies between the lower bound and the term of the last entry. -/
theorem termsFrom_sandwich {t : Nat} {es : List Entry} (h : termsFrom t es = true) {x : Entry}
    (hl : es.getLast? = some x) : ∀ y ∈ es, t ≤ y.term ∧ y.term ≤ x.term := by
  induction es generalizing t with
  | nil => simp at hl
  | cons a as ih =>
    simp only [termsFrom, Bool.and_eq_true, decide_eq_true_eq] at h
    intro y hy
    cases as with
    | nil =>
      simp at hl hy; subst hl; subst hy; omega
    | cons b bs =>
      rw [List.getLast?_cons_cons] at hl
      have hx := ih h.2 hl
      rcases List.mem_cons.mp hy with rfl | hy
      · have := hx b List.mem_cons_self
        omega
      · have := hx y hy; omega

/-! ## the fast path of `filter_out_conflicts_and_append` agrees with the slow path -/

theorem mem_takeWhile_pred {p : Entry → Bool} {es : List Entry} {y : Entry} (h : y ∈ es.takeWhile p) : p y = true := by
  induction es with
  | nil => simp at h
  | cons x xs ih =>
    rw [List.takeWhile_cons] at h
    split at h
    · rename_i hp
      rcases List.mem_cons.mp h with rfl | h
      · exact hp
      · exact ih h
    · simp at h

/-- what a request must look like for the fast path to be sound: contiguous, terms non-decreasing,
    attached to the log (empty log, or `prev` inside / right before it). -/
structure ReqOK (l : Log) (prev : Nat) (es : List Entry) : Prop where
  contig : contigFrom (prev + 1) es = true
  mono : termsMono es = true
  att : l.ents = [] ∨ (l.firstIdx ≤ prev + 1 ∧ prev ≤ l.lastIdx)

theorem dropWhile_head_false {p : Entry → Bool} {e : Entry} {rest : List Entry} (h : p e = false) :
    (e :: rest).dropWhile p = e :: rest := by
  simp [List.dropWhile_cons, h]

/-- entries of the request inside the follower's range that pass `overlap_safe` do not diverge. -/
theorem overlap_no_diverge {l : Log} {prev : Nat} {es : List Entry} (hl : LogOK l) (hr : ReqOK l prev es)
    (hs : overlapSafe l (es.takeWhile (fun e => decide (e.index ≤ l.lastIdx))) = true) :
    ∀ y ∈ es.takeWhile (fun e => decide (e.index ≤ l.lastIdx)), (!diverges l y) = true := by
  intro y hy
  have hyle : y.index ≤ l.lastIdx := by simpa using mem_takeWhile_pred hy
  have hyes : y ∈ es := List.IsPrefix.mem hy (List.takeWhile_prefix _)
  have hyge : prev + 1 ≤ y.index := contigFrom_index_ge hr.contig y hyes
  -- the overlap is non-empty: unpack overlap_safe
  cases hov : es.takeWhile (fun e => decide (e.index ≤ l.lastIdx)) with
  | nil => rw [hov] at hy; simp at hy
  | cons f rest =>
    rw [hov] at hs hy
    simp only [overlapSafe, List.head?_cons, Bool.and_eq_true, decide_eq_true_eq, beq_iff_eq] at hs
    obtain ⟨⟨hls, hft⟩, hlast⟩ := hs
    -- f is the head of es
    have hfhead : f.index = prev + 1 := by
      cases es with
      | nil => simp at hov
      | cons a as =>
        rw [List.takeWhile_cons] at hov
        split at hov
        · injection hov with h1 _; subst h1
          exact ((contigFrom_cons _ _ _).mp hr.contig).1
        · simp at hov
    -- terms in the overlap are all `lt`
    have hmono : termsFrom 0 (f :: rest) = true := by
      have h0 : termsFrom 0 es = true := hr.mono
      rw [← List.takeWhile_append_dropWhile (p := fun e => decide (e.index ≤ l.lastIdx)) (l := es), hov] at h0
      exact (termsFrom_append h0).1
    have hyterm : y.term = l.lt := by
      simp only [termsFrom, Bool.and_eq_true, decide_eq_true_eq] at hmono
      cases hgl : (f :: rest).getLast? with
      | none => simp at hgl
      | some x =>
        rw [hgl] at hlast
        simp only [beq_iff_eq] at hlast
        rcases List.mem_cons.mp hy with rfl | hyr
        · exact hft
        · have hrl : rest.getLast? = some x := by
            cases rest with
            | nil => simp at hyr
            | cons b bs => rw [List.getLast?_cons_cons] at hgl; exact hgl
          have := termsFrom_sandwich hmono.2 hrl y hyr
          omega
    -- the follower holds an entry there, in its last-term segment
    have hne : l.ents ≠ [] := by
      intro h0
      have : l.lastIdx = 0 := by simp [Log.lastIdx, lastOf, h0]
      omega
    have hatt : l.firstIdx ≤ prev + 1 ∧ prev ≤ l.lastIdx := by
      rcases hr.att with h | h
      · exact absurd h hne
      · exact h
    obtain ⟨z, hz, hzi, hzt⟩ := entryTerm_inrange hl.gap hl.pos hne (i := y.index) (by omega) hyle
    have hzterm : z.term = l.lt := (segOK_iff l).mp hl.seg z hz (by omega)
    simp only [diverges, Bool.not_eq_true', Bool.or_eq_false_iff, decide_eq_false_iff_not, bne_eq_false_iff_eq]
    exact ⟨by omega, by rw [hzt, hzterm, hyterm]⟩

/-- **fast path ≡ slow path** on well-formed inputs: same log, same returned log id. -/
theorem filterAppend_eq_slow (l : Log) (prev pt : Nat) (es : List Entry) (hl : LogOK l) (hr : ReqOK l prev es)
    (hnv : ¬ (prev = 0 ∧ pt = 0)) (hacc : l.entryTerm prev = some pt) :
    (filterAppend l prev pt es).1 = (slowPath l es).1 ∧ (filterAppend l prev pt es).2.1 = (slowPath l es).2.1 := by
  unfold filterAppend
  have h1 : (prev == 0 && pt == 0) = false := by
    rw [Bool.eq_false_iff]; intro h; simp only [Bool.and_eq_true, beq_iff_eq] at h; exact hnv h
  have h2 : (l.entryTerm prev != some pt) = false := by simp [hacc]
  simp only [h1, h2, Bool.false_eq_true, ↓reduceIte]
  split
  · rename_i hs
    have hov := overlap_no_diverge hl hr hs
    have hsplit : es.dropWhile (fun e => !diverges l e) =
        (es.dropWhile (fun e => decide (e.index ≤ l.lastIdx))).dropWhile (fun e => !diverges l e) := by
      conv => lhs; rw [← List.takeWhile_append_dropWhile (p := fun e => decide (e.index ≤ l.lastIdx)) (l := es)]
      exact List.dropWhile_append_of_pos hov
    cases htail : es.dropWhile (fun e => decide (e.index ≤ l.lastIdx)) with
    | nil =>
      rw [htail] at hsplit
      simp only [List.isEmpty_nil, ↓reduceIte, slowPath, hsplit, List.dropWhile_nil]
      exact ⟨trivial, trivial⟩
    | cons e rest =>
      have hpe : decide (e.index ≤ l.lastIdx) = false := by
        have := List.head?_dropWhile_not (fun e => decide (e.index ≤ l.lastIdx)) es
        rw [htail] at this; simpa using this
      have hdiv : (!diverges l e) = false := by
        simp only [diverges, Bool.not_eq_false', Bool.or_eq_true, decide_eq_true_eq]
        left; simpa using hpe
      rw [htail] at hsplit
      rw [dropWhile_head_false hdiv] at hsplit
      have hgt : ¬ e.index ≤ l.lastIdx := by simpa using hpe
      simp only [List.isEmpty_cons, Bool.false_eq_true, ↓reduceIte, slowPath, hsplit, hgt]
      exact ⟨trivial, trivial⟩
  · exact ⟨rfl, rfl⟩

/-! ## what `filter_out_conflicts_and_append` returns and leaves behind -/

theorem getLast?_suffix_cons {a : List Entry} {e : Entry} {rest : List Entry} :
    (a ++ e :: rest).getLast? = (e :: rest).getLast? := by
  rw [List.getLast?_append]
  exact Option.or_of_isSome (by simp)

theorem getLast?_dropWhile_cons {p : Entry → Bool} {es : List Entry} {e : Entry} {rest : List Entry}
    (h : es.dropWhile p = e :: rest) : (e :: rest).getLast? = es.getLast? := by
  have : es = es.takeWhile p ++ e :: rest := by rw [← h, List.takeWhile_append_dropWhile]
  conv => rhs; rw [this]
  exact getLast?_suffix_cons.symm

/-- the slow path always reports the last entry of the request. -/
theorem slowPath_ack (l : Log) (es : List Entry) : (slowPath l es).2.1 = es.getLast?.map idOf := by
  unfold slowPath
  split
  · rfl
  · rename_i e rest hd
    split <;> simp only [getLast?_dropWhile_cons hd]

/-- every accepting path reports the last entry of the request (no hypotheses). -/
theorem filterAppend_ack (l : Log) (prev pt : Nat) (es : List Entry)
    (hacc : (prev = 0 ∧ pt = 0) ∨ l.entryTerm prev = some pt) :
    (filterAppend l prev pt es).2.1 = es.getLast?.map idOf := by
  unfold filterAppend
  split
  · rfl
  · rename_i hnv
    have hnv' : ¬ (prev = 0 ∧ pt = 0) := by simpa using hnv
    have h2 : l.entryTerm prev = some pt := by rcases hacc with h | h; exact absurd h hnv'; exact h
    have h3 : (l.entryTerm prev != some pt) = false := by simp [h2]
    simp only [h3, Bool.false_eq_true, ↓reduceIte]
    split
    · split
      · rfl
      · rename_i hne
        cases hd : es.dropWhile (fun e => decide (e.index ≤ l.lastIdx)) with
        | nil => simp [hd] at hne
        | cons e rest => simp only [getLast?_dropWhile_cons hd]
    · exact slowPath_ack l es

theorem appendE_appendE (l : Log) (a b : List Entry) : appendE (appendE l a) b = appendE l (a ++ b) := by
  simp [appendE, List.foldl_append, List.append_assoc]

theorem appendE_nil (l : Log) : appendE l [] = l := by simp [appendE]

theorem lastIdx_appendE_cons (l : Log) (e : Entry) (rest : List Entry) :
    (appendE l (e :: rest)).lastIdx = lastOf (e :: rest) := by
  rw [Log.lastIdx_eq, appendE_ents, lastOf_append_cons]

/-- a block that lies entirely behind the log is appended as it is. -/
theorem slowPath_all_beyond (L : Log) (x : Entry) (xs : List Entry) (h : L.lastIdx < x.index) :
    (slowPath L (x :: xs)).1 = appendE L (x :: xs) := by
  have hdiv : (!diverges L x) = false := by
    simp only [diverges, Bool.not_eq_false', Bool.or_eq_true, decide_eq_true_eq]
    left; omega
  have hd : (x :: xs).dropWhile (fun e => !diverges L e) = x :: xs := by
    simp [List.dropWhile_cons, hdiv]
  have hgt : ¬ x.index ≤ L.lastIdx := by omega
  simp only [slowPath, hd, hgt, ↓reduceIte]

/-- composition of the slow path over a split request `E1 ++ E2` (contiguity only). -/
theorem slowPath_append (l : Log) (p : Nat) (E1 E2 : List Entry) (hc : contigFrom (p + 1) (E1 ++ E2) = true) :
    (slowPath l (E1 ++ E2)).1 = (slowPath (slowPath l E1).1 E2).1 := by
  have hc1 := ((contigFrom_append _ _ _).mp hc).1
  have hc2 := ((contigFrom_append _ _ _).mp hc).2
  cases hd : E1.dropWhile (fun e => !diverges l e) with
  | nil =>
    -- nothing in E1 diverges: the log is untouched by E1, and the scan continues in E2
    have hall := dropWhile_nil_all hd
    have h1 : (slowPath l E1).1 = l := by simp [slowPath, hd]
    have h2 : (E1 ++ E2).dropWhile (fun e => !diverges l e) = E2.dropWhile (fun e => !diverges l e) :=
      List.dropWhile_append_of_pos hall
    rw [h1]
    simp only [slowPath, h2]
    split <;> rfl
  | cons e rest =>
    obtain ⟨hct, _, _, _, _, hlen⟩ := dropWhile_contig hc1 hd
    have h2 : (E1 ++ E2).dropWhile (fun e => !diverges l e) = e :: (rest ++ E2) := by
      rw [List.dropWhile_append, hd]; simp
    -- the log after E1
    have h1 : (slowPath l E1).1 = appendE (if e.index ≤ l.lastIdx then removeFrom l e.index else l) (e :: rest) := by
      simp only [slowPath, hd]; split <;> rfl
    have hm : (slowPath l (E1 ++ E2)).1 =
        appendE (if e.index ≤ l.lastIdx then removeFrom l e.index else l) (e :: rest ++ E2) := by
      simp only [slowPath, h2]; split <;> rfl
    rw [hm, h1]
    cases E2 with
    | nil => simp [slowPath, appendE_nil]
    | cons x xs =>
      have hxi : x.index = p + 1 + E1.length := ((contigFrom_cons _ _ _).mp hc2).1
      have hlast : (appendE (if e.index ≤ l.lastIdx then removeFrom l e.index else l) (e :: rest)).lastIdx
          = p + E1.length := by
        rw [lastIdx_appendE_cons, lastOf_contig hct (by simp)]
        simp only [List.length_cons] at hlen ⊢; omega
      rw [slowPath_all_beyond _ x xs (by rw [hlast]; omega), appendE_appendE]

/-- the slow path keeps `LogOK` and leaves the request's last entry (up to payload) at its index. -/
theorem slowPath_post (l : Log) (p : Nat) (E : List Entry) (hl : LogOK l)
    (hc : contigFrom (p + 1) E = true) (hatt : l.ents = [] ∨ (l.firstIdx ≤ p + 1 ∧ p ≤ l.lastIdx))
    {x : Entry} (hx : E.getLast? = some x) :
    LogOK (slowPath l E).1 ∧ ∃ z ∈ (slowPath l E).1.ents, z.index = p + E.length ∧ z.term = x.term := by
  have hxmem : x ∈ E := List.mem_of_getLast? hx
  have hne : E ≠ [] := List.ne_nil_of_mem hxmem
  have hxi : x.index = p + E.length := by
    have := lastOf_contig hc hne
    simp only [lastOf, hx] at this
    have hpos : 0 < E.length := List.length_pos_iff.mpr hne
    omega
  cases hd : E.dropWhile (fun e => !diverges l e) with
  | nil =>
    have h1 : (slowPath l E).1 = l := by simp [slowPath, hd]
    rw [h1]
    refine ⟨hl, ?_⟩
    have hnd := dropWhile_nil_all hd x hxmem
    simp only [diverges, Bool.not_eq_true', Bool.or_eq_false_iff, decide_eq_false_iff_not, bne_eq_false_iff_eq] at hnd
    have hge := contigFrom_index_ge hc x hxmem
    have hnel : l.ents ≠ [] := by
      intro h0; have : l.lastIdx = 0 := by simp [Log.lastIdx, lastOf, h0]
      omega
    have hatt' : l.firstIdx ≤ p + 1 ∧ p ≤ l.lastIdx := by
      rcases hatt with h | h; exact absurd h hnel; exact h
    obtain ⟨z, hz, hzi, hzt⟩ := entryTerm_inrange hl.gap hl.pos hnel (i := x.index) (by omega) (by omega)
    refine ⟨z, hz, by omega, ?_⟩
    rw [hnd.2] at hzt
    exact (Option.some.inj hzt).symm
  | cons e rest =>
    obtain ⟨hct, hge, hpe, hmem, hbef, hlen⟩ := dropWhile_contig hc hd
    have h1 : (slowPath l E).1 = appendE (if e.index ≤ l.lastIdx then removeFrom l e.index else l) (e :: rest) := by
      simp only [slowPath, hd]; split <;> rfl
    rw [h1]
    have hxt : x ∈ e :: rest := by
      have := getLast?_dropWhile_cons hd
      rw [hx] at this
      exact List.mem_of_getLast? this
    -- the kept part lies strictly below e.index
    have hbelow : ∀ y ∈ (if e.index ≤ l.lastIdx then removeFrom l e.index else l).ents, y.index < e.index := by
      intro y hy
      split at hy
      · simpa using (List.mem_filter.mp hy).2
      · rename_i hgt
        have := (mem_bounds hl.gap hy).2
        rw [Log.lastIdx_eq] at hgt; omega
    have hkept_sub : ∀ y ∈ (if e.index ≤ l.lastIdx then removeFrom l e.index else l).ents, y ∈ l.ents := by
      intro y hy
      split at hy
      · exact (List.mem_filter.mp hy).1
      · exact hy
    have hseg0 : segOK (if e.index ≤ l.lastIdx then removeFrom l e.index else l) = true := by
      split
      · exact segOK_removeFrom hl.seg _
      · exact hl.seg
    -- gap-freeness of the result: reuse the C08 argument in list form
    have hgap : gapFree ((if e.index ≤ l.lastIdx then removeFrom l e.index else l).ents ++ e :: rest) = true := by
      by_cases hnel : l.ents = []
      · have hk : (if e.index ≤ l.lastIdx then removeFrom l e.index else l).ents = [] := by
          split <;> simp [removeFrom, hnel]
        rw [hk]; simpa using gapFree_of_contigFrom hct
      · have hatt' : l.firstIdx ≤ p + 1 ∧ p ≤ l.lastIdx := by
          rcases hatt with h | h; exact absurd h hnel; exact h
        have hb := gapFree_bounds hl.gap hnel
        have hcf := (gapFree_iff _).mp hl.gap
        split
        · rename_i hle
          rw [Log.lastIdx_eq] at hle; rw [Log.firstIdx_eq, Log.lastIdx_eq] at hatt'
          obtain ⟨hf1, hf2⟩ := filter_lt_contig hcf e.index (by omega) (by omega)
          apply gapFree_of_contigFrom (s := firstOf l.ents)
          rw [removeFrom_ents, contigFrom_append]
          refine ⟨hf1, ?_⟩
          rw [hf2]
          have : firstOf l.ents + (e.index - firstOf l.ents) = e.index := by omega
          rw [this]; exact hct
        · rename_i hgt
          apply gapFree_append hl.gap hct _ hl.pos
          right
          rw [Log.lastIdx_eq] at hgt hatt'
          apply tail_starts_after hc (by omega) hmem (by omega)
          intro y hy hlt
          have := hbef y hy hlt
          simp only [diverges, Bool.not_eq_true', Bool.or_eq_false_iff, decide_eq_false_iff_not] at this
          rw [Log.lastIdx_eq] at this; omega
    refine ⟨⟨by rw [appendE_ents]; exact hgap, ?_, segOK_appendE hseg0 hbelow hct⟩, x, ?_, hxi, rfl⟩
    · intro y hy
      rw [appendE_ents] at hy
      rcases List.mem_append.mp hy with hy | hy
      · exact hl.pos y (hkept_sub y hy)
      · have := contigFrom_index_ge hct y hy; omega
    · rw [appendE_ents]; exact List.mem_append_right _ hxt

/-! ## closed forms of the follower step -/

/-- the request passes the workflow's term check and `check_append_entries_request_is_legal`. -/
def Accepts (st : FState) (r : Req) : Prop :=
  st.term ≤ r.term ∧ ((r.prev = 0 ∧ r.prevTerm = 0) ∨ st.log.entryTerm r.prev = some r.prevTerm)

instance (st : FState) (r : Req) : Decidable (Accepts st r) := by unfold Accepts; infer_instance

theorem stepReq_fst (st : FState) (r : Req) : (stepReq st r).1 = (stepReqT st r).1 := rfl
theorem stepReq_snd (st : FState) (r : Req) : (stepReq st r).2 = (stepReqT st r).2.1 := rfl

theorem isEmpty_append' (a b : List Entry) : (a ++ b).isEmpty = (a.isEmpty && b.isEmpty) := by
  cases a <;> simp

theorem checkLegal_success_iff (t : Nat) (r : Req) (l : Log) :
    (checkLegal t r l).1.isSuccess = true ↔
      t ≤ r.term ∧ ((r.prev = 0 ∧ r.prevTerm = 0) ∨ l.entryTerm r.prev = some r.prevTerm) := by
  unfold checkLegal
  split
  · rename_i h; simp [Ack.isSuccess]; omega
  · rename_i h
    split
    · rename_i hv
      simp only [Bool.and_eq_true, beq_iff_eq] at hv
      simp [Ack.isSuccess, hv]; omega
    · rename_i hv
      have hv' : ¬ (r.prev = 0 ∧ r.prevTerm = 0) := by simpa using hv
      split
      · rename_i t' ht
        split
        · rename_i heq
          have : t' = r.prevTerm := by simpa using heq
          simp [Ack.isSuccess, ht, this]; omega
        · rename_i hne
          have : ¬ t' = r.prevTerm := by simpa using hne
          simp [Ack.isSuccess, ht, hv', this]
      · rename_i ht
        simp [Ack.isSuccess, ht, hv']

theorem accepted_iff (st : FState) (r : Req) : (stepReq st r).2.isSuccess = true ↔ Accepts st r := by
  unfold stepReq stepReqT Accepts
  split
  · rename_i h; simp [Ack.isSuccess]; omega
  · rename_i h
    simp only [handleAppend]
    split
    · rename_i hs
      simp only [Ack.isSuccess, true_iff]
      exact (checkLegal_success_iff _ _ _).mp hs
    · rename_i hs
      constructor
      · intro h'; exact absurd h' hs
      · intro h'; exact absurd ((checkLegal_success_iff _ _ _).mpr h') hs

/-- the log an accepted request leaves. -/
def logAfter (l : Log) (r : Req) : Log :=
  if r.ents.isEmpty then l else (filterAppend l r.prev r.prevTerm r.ents).1

/-- the match position an accepted request is acknowledged with. -/
def matchAfter (l : Log) (r : Req) : Option (Nat × Nat) :=
  if r.ents.isEmpty then prevId r else (filterAppend l r.prev r.prevTerm r.ents).2.1

/-- the follower commit rule since F50: `max(commit, min(leader_commit, prev + len))`. -/
def commitAfter (c : Nat) (r : Req) : Nat := max c (min r.commit (r.prev + r.ents.length))

theorem commit_rule (c e lc : Nat) :
    (match (match ifUpdateCommit c e lc with
        | some x => if c < x then some x else none
        | none => none) with
      | some x => x | none => c) = max c (min lc e) := by
  unfold ifUpdateCommit
  by_cases h1 : lc > c
  · by_cases h2 : c < min lc e
    · simp only [h1, h2, ↓reduceIte]; exact (Nat.max_eq_right (Nat.le_of_lt h2)).symm
    · simp only [h1, h2, ↓reduceIte]; exact (Nat.max_eq_left (by omega)).symm
  · simp only [h1, ↓reduceIte]
    exact (Nat.max_eq_left (Nat.le_trans (Nat.min_le_left _ _) (by omega))).symm

theorem stepReq_accepted {st : FState} {r : Req} (h : Accepts st r) :
    stepReq st r =
      ({ term := r.term, commit := commitAfter st.commit r, log := logAfter st.log r },
       .success st.term (matchAfter st.log r)) := by
  have hchk := (checkLegal_success_iff st.term r st.log).mpr h
  unfold stepReq stepReqT
  have ht : ¬ st.term > r.term := by have := h.1; omega
  simp only [ht, ↓reduceIte, handleAppend, hchk, logAfter, matchAfter, commitAfter, gt_iff_lt]
  have hterm : (if st.term < r.term then r.term else st.term) = r.term := by
    have := h.1; split <;> omega
  rw [hterm]
  by_cases he : r.ents.isEmpty = true <;> simp [he] <;> exact commit_rule _ _ _

theorem stepReq_rejected {st : FState} {r : Req} (h : ¬ Accepts st r) :
    (stepReq st r).1.log = st.log ∧ (stepReq st r).1.commit = st.commit := by
  unfold stepReq stepReqT
  split
  · exact ⟨rfl, rfl⟩
  · simp only [handleAppend]
    split
    · rename_i hs
      exact absurd ((checkLegal_success_iff _ _ _).mp hs) h
    · exact ⟨rfl, rfl⟩

/-! ## merging one more request into the accumulated one -/

theorem wf_parts {l : Log} (hwf : l.wf = true) :
    gapFree l.ents = true ∧ (∀ e ∈ l.ents, 1 ≤ e.index) ∧
      (l.pIdx = 0 ∨ l.ents = [] ∨ l.firstIdx = l.pIdx + 1) := by
  simp only [Log.wf, Bool.and_eq_true, Bool.or_eq_true, List.isEmpty_iff, decide_eq_true_eq, beq_iff_eq] at hwf
  obtain ⟨⟨hg, h1⟩, hb⟩ := hwf
  refine ⟨hg, ?_, ?_⟩
  · intro e he
    rcases h1 with h | h
    · rw [h] at he; simp at he
    · have := contigFrom_index_ge ((gapFree_iff _).mp hg) e he
      rw [Log.firstIdx_eq] at h; omega
  · rcases hb with (h | h) | h
    · exact Or.inl h
    · exact Or.inr (Or.inl h)
    · exact Or.inr (Or.inr h)

/-- a well-formed log that answers `entry_term(prev) = Some(_)` holds `prev` inside it, or right before
    its first entry (purge boundary), or is empty. -/
theorem att_of_entryTerm {l : Log} (hwf : l.wf = true) {prev t : Nat} (h : l.entryTerm prev = some t) :
    l.ents = [] ∨ (l.firstIdx ≤ prev + 1 ∧ prev ≤ l.lastIdx) := by
  obtain ⟨hg, h1, hb⟩ := wf_parts hwf
  by_cases hne : l.ents = []
  · exact Or.inl hne
  · right
    have hbd := gapFree_bounds hg hne
    have hp := lastOf_pos h1 hne
    unfold Log.entryTerm at h
    rw [Log.lastIdx_eq, Log.firstIdx_eq] at *
    split at h
    · split at h
      · rename_i hp'
        simp only [Bool.and_eq_true, decide_eq_true_eq, beq_iff_eq] at hp'
        rcases hb with hb | hb | hb
        · omega
        · exact absurd hb hne
        · omega
      · simp at h
    · rename_i hr
      simp only [Bool.or_eq_true, beq_iff_eq, decide_eq_true_eq, not_or, Nat.not_lt] at hr
      omega

structure ChainStep (l : Log) (acc r : Req) : Prop where
  seg : segOK l = true
  wf : l.wf = true
  accA : (acc.prev = 0 ∧ acc.prevTerm = 0) ∨ l.entryTerm acc.prev = some acc.prevTerm
  contigA : acc.contig = true
  contigR : r.contig = true
  chain : r.prev = acc.prev + acc.ents.length
  pt : prevTermOK acc r = true
  mono : termsMono (acc.ents ++ r.ents) = true

theorem ChainStep.logok {l : Log} {acc r : Req} (h : ChainStep l acc r) : LogOK l :=
  ⟨(wf_parts h.wf).1, (wf_parts h.wf).2.1, h.seg⟩

/-- facts about the log an accepted non-empty request leaves: `LogOK`, and the request's last entry (up to
    payload) sits at `prev + len`. -/
theorem logAfter_post {l : Log} {acc : Req} (hseg : segOK l = true) (hwf : l.wf = true)
    (hacc : (acc.prev = 0 ∧ acc.prevTerm = 0) ∨ l.entryTerm acc.prev = some acc.prevTerm)
    (hc : acc.contig = true) (hm : termsMono acc.ents = true) {x : Entry} (hx : acc.ents.getLast? = some x) :
    LogOK (logAfter l acc) ∧
      ∃ z ∈ (logAfter l acc).ents, z.index = acc.prev + acc.ents.length ∧ z.term = x.term := by
  have hlok : LogOK l := ⟨(wf_parts hwf).1, (wf_parts hwf).2.1, hseg⟩
  have hne : acc.ents ≠ [] := List.ne_nil_of_mem (List.mem_of_getLast? hx)
  have hemp : acc.ents.isEmpty = false := by simpa using hne
  unfold Req.contig at hc
  simp only [logAfter, hemp, Bool.false_eq_true, ↓reduceIte]
  by_cases hv : acc.prev = 0 ∧ acc.prevTerm = 0
  · -- reset path
    have h1 : (filterAppend l acc.prev acc.prevTerm acc.ents).1 = appendE (resetL l) acc.ents := by
      simp [filterAppend, hv.1, hv.2]
    rw [h1]
    have hxi : x.index = acc.prev + acc.ents.length := by
      have := lastOf_contig hc hne
      simp only [lastOf, hx] at this
      have hpos : 0 < acc.ents.length := List.length_pos_iff.mpr hne
      omega
    refine ⟨⟨?_, ?_, ?_⟩, x, ?_, hxi, rfl⟩
    · simp only [appendE_ents, resetL_ents, List.nil_append]; exact gapFree_of_contigFrom hc
    · intro y hy
      simp only [appendE_ents, resetL_ents, List.nil_append] at hy
      have := contigFrom_index_ge hc y hy; omega
    · exact segOK_appendE (segOK_resetL l) (b := acc.prev + 1) (by simp [resetL_ents]) hc
    · simp only [appendE_ents, resetL_ents, List.nil_append]; exact List.mem_of_getLast? hx
  · have hacc' : l.entryTerm acc.prev = some acc.prevTerm := by
      rcases hacc with h | h; exact absurd h hv; exact h
    have hatt := att_of_entryTerm hwf hacc'
    have hr : ReqOK l acc.prev acc.ents := ⟨hc, hm, hatt⟩
    rw [(filterAppend_eq_slow l acc.prev acc.prevTerm acc.ents hlok hr hv hacc').1]
    exact slowPath_post l acc.prev acc.ents hlok hc hatt hx

theorem mergeReq_ents (acc r : Req) : (mergeReq acc r).ents = acc.ents ++ r.ents := rfl
theorem mergeReq_prev (acc r : Req) : (mergeReq acc r).prev = acc.prev := rfl
theorem mergeReq_prevTerm (acc r : Req) : (mergeReq acc r).prevTerm = acc.prevTerm := rfl
theorem mergeReq_term (acc r : Req) : (mergeReq acc r).term = acc.term := rfl
theorem mergeReq_commit (acc r : Req) : (mergeReq acc r).commit = max acc.commit r.commit := rfl

/-- **The merge step on logs.** Handling `acc ⊕ r` leaves the log that handling `acc`, then `r`, leaves; and
    `r` is accepted after `acc`. -/
theorem logAfter_merge {l : Log} {acc r : Req} (h : ChainStep l acc r) :
    ((r.prev = 0 ∧ r.prevTerm = 0) ∨ (logAfter l acc).entryTerm r.prev = some r.prevTerm) ∧
    logAfter l (mergeReq acc r) = logAfter (logAfter l acc) r := by
  have hlok := h.logok
  have hcA : contigFrom (acc.prev + 1) acc.ents = true := h.contigA
  have hcR : contigFrom (r.prev + 1) r.ents = true := h.contigR
  have hmA : termsMono acc.ents = true := (termsFrom_append h.mono).1
  have hmR : termsMono r.ents = true := (termsFrom_append h.mono).2
  cases hx : acc.ents.getLast? with
  | none =>
    -- acc is a heartbeat: same prev, same prev term, nothing changed yet
    have hnil : acc.ents = [] := List.getLast?_eq_none_iff.mp hx
    have hpt : r.prevTerm = acc.prevTerm := by
      have := h.pt; simp only [prevTermOK, hx, beq_iff_eq] at this; exact this
    have hprev : r.prev = acc.prev := by have := h.chain; simp [hnil] at this; exact this
    have hl1 : logAfter l acc = l := by simp [logAfter, hnil]
    rw [hl1]
    refine ⟨by rw [hprev, hpt]; exact h.accA, ?_⟩
    simp only [logAfter, mergeReq_ents, mergeReq_prev, mergeReq_prevTerm, hnil, List.nil_append, hprev, hpt]
  | some x =>
    have hne : acc.ents ≠ [] := List.ne_nil_of_mem (List.mem_of_getLast? hx)
    have hpos : 0 < acc.ents.length := List.length_pos_iff.mpr hne
    have hpt : r.prevTerm = x.term := by
      have := h.pt; simp only [prevTermOK, hx, beq_iff_eq] at this; exact this
    obtain ⟨hl1ok, z, hz, hzi, hzt⟩ := logAfter_post h.seg h.wf h.accA h.contigA hmA hx
    have hrnv : ¬ (r.prev = 0 ∧ r.prevTerm = 0) := by have := h.chain; omega
    have hraccept : (logAfter l acc).entryTerm r.prev = some r.prevTerm := by
      have := entryTerm_mem hl1ok.gap hl1ok.pos hz
      rw [hzi, ← h.chain, hzt, ← hpt] at this; exact this
    refine ⟨Or.inr hraccept, ?_⟩
    cases hE2 : r.ents with
    | nil =>
      simp only [logAfter, mergeReq_ents, mergeReq_prev, mergeReq_prevTerm, hE2, List.append_nil, List.isEmpty_nil,
        ↓reduceIte]
    | cons y ys =>
      have hemp1 : acc.ents.isEmpty = false := by simpa using hne
      have hemp12 : (acc.ents ++ y :: ys).isEmpty = false := by simp
      have hzb := mem_bounds hl1ok.gap hz
      have hatt1 : (logAfter l acc).ents = [] ∨
          ((logAfter l acc).firstIdx ≤ r.prev + 1 ∧ r.prev ≤ (logAfter l acc).lastIdx) := by
        right; rw [Log.firstIdx_eq, Log.lastIdx_eq, h.chain]; omega
      have hr2 : ReqOK (logAfter l acc) r.prev (y :: ys) := ⟨by rw [← hE2]; exact hcR, by rw [← hE2]; exact hmR, hatt1⟩
      have hseq : logAfter (logAfter l acc) r = (slowPath (logAfter l acc) (y :: ys)).1 := by
        have := (filterAppend_eq_slow (logAfter l acc) r.prev r.prevTerm (y :: ys) hl1ok hr2 hrnv hraccept).1
        simp only [logAfter, hE2, List.isEmpty_cons, Bool.false_eq_true, ↓reduceIte] at this ⊢
        exact this
      rw [hseq]
      have hc12 : contigFrom (acc.prev + 1) (acc.ents ++ y :: ys) = true := by
        rw [contigFrom_append]
        refine ⟨hcA, ?_⟩
        rw [hE2, h.chain] at hcR
        have : acc.prev + 1 + acc.ents.length = acc.prev + acc.ents.length + 1 := by omega
        rw [this]; exact hcR
      simp only [logAfter, mergeReq_ents, mergeReq_prev, mergeReq_prevTerm, hE2, hemp12, hemp1, Bool.false_eq_true,
        ↓reduceIte]
      by_cases hv : acc.prev = 0 ∧ acc.prevTerm = 0
      · -- reset path: everything is appended to the emptied log
        have h1 : (filterAppend l acc.prev acc.prevTerm (acc.ents ++ y :: ys)).1 =
            appendE (resetL l) (acc.ents ++ y :: ys) := by simp [filterAppend, hv.1, hv.2]
        have h2 : (filterAppend l acc.prev acc.prevTerm acc.ents).1 = appendE (resetL l) acc.ents := by
          simp [filterAppend, hv.1, hv.2]
        rw [h1, h2]
        have hlast : (appendE (resetL l) acc.ents).lastIdx < y.index := by
          have hl := lastOf_contig hcA hne
          have hy : y.index = acc.prev + acc.ents.length + 1 := by
            rw [hE2, h.chain] at hcR; exact ((contigFrom_cons _ _ _).mp hcR).1
          rw [Log.lastIdx_eq, appendE_ents, resetL_ents, List.nil_append, hl]; omega
        rw [slowPath_all_beyond _ y ys hlast, appendE_appendE]
      · have hacc' : l.entryTerm acc.prev = some acc.prevTerm := by
          rcases h.accA with h' | h'; exact absurd h' hv; exact h'
        have hatt := att_of_entryTerm h.wf hacc'
        have hr12 : ReqOK l acc.prev (acc.ents ++ y :: ys) := ⟨hc12, by rw [← hE2]; exact h.mono, hatt⟩
        have hr1 : ReqOK l acc.prev acc.ents := ⟨hcA, hmA, hatt⟩
        rw [(filterAppend_eq_slow l acc.prev acc.prevTerm _ hlok hr12 hv hacc').1,
            (filterAppend_eq_slow l acc.prev acc.prevTerm _ hlok hr1 hv hacc').1]
        exact slowPath_append l acc.prev acc.ents (y :: ys) hc12

end DEngine.Repl
