import DEngine.Model.Repl
/-!
# Helper lemmas for the `repl` family (C08, C36, C07)
List-level facts about `contigFrom`, `contigRun`, lookups in gap-free lists and the four paths of
`filterAppend`.
-/
namespace DEngine.Repl

/-! ## contigFrom -/

theorem contigFrom_nil (s : Nat) : contigFrom s [] = true := rfl

theorem contigFrom_cons (s : Nat) (e : Entry) (es : List Entry) :
    contigFrom s (e :: es) = true ↔ e.index = s ∧ contigFrom (s + 1) es = true := by
  simp [contigFrom]

theorem contigFrom_append (s : Nat) (a b : List Entry) :
    contigFrom s (a ++ b) = true ↔ contigFrom s a = true ∧ contigFrom (s + a.length) b = true := by
  induction a generalizing s with
  | nil => simp [contigFrom]
  | cons e es ih =>
    simp only [List.cons_append, contigFrom_cons, ih, List.length_cons]
    have : s + 1 + es.length = s + (es.length + 1) := by omega
    rw [this]
    constructor
    · rintro ⟨h1, h2, h3⟩; exact ⟨⟨h1, h2⟩, h3⟩
    · rintro ⟨⟨h1, h2⟩, h3⟩; exact ⟨h1, h2, h3⟩

theorem contigFrom_map_index (s : Nat) (es : List Entry) :
    contigFrom s es = true ↔ es.map (·.index) = List.range' s es.length := by
  induction es generalizing s with
  | nil => simp [contigFrom]
  | cons e es ih =>
    simp only [contigFrom_cons, List.map_cons, List.length_cons, List.range'_succ, List.cons.injEq, ih]

theorem contigFrom_index_ge {s : Nat} {es : List Entry} (h : contigFrom s es = true) :
    ∀ e ∈ es, s ≤ e.index := by
  induction es generalizing s with
  | nil => simp
  | cons x xs ih =>
    rw [contigFrom_cons] at h
    intro e he
    rcases List.mem_cons.mp he with rfl | he
    · omega
    · have := ih h.2 e he; omega

theorem contigFrom_index_lt {s : Nat} {es : List Entry} (h : contigFrom s es = true) :
    ∀ e ∈ es, e.index < s + es.length := by
  induction es generalizing s with
  | nil => simp
  | cons x xs ih =>
    rw [contigFrom_cons] at h
    intro e he
    rcases List.mem_cons.mp he with rfl | he
    · simp; omega
    · have := ih h.2 e he; simp; omega

theorem contigFrom_drop {s : Nat} {es : List Entry} (h : contigFrom s es = true) (k : Nat) :
    contigFrom (s + k) (es.drop k) = true := by
  induction k generalizing s es with
  | zero => simpa using h
  | succ k ih =>
    cases es with
    | nil => simp [contigFrom]
    | cons x xs =>
      rw [contigFrom_cons] at h
      have := ih h.2
      simpa [Nat.add_assoc, Nat.add_comm 1 k] using this

theorem contigFrom_getElem? {s : Nat} {es : List Entry} (h : contigFrom s es = true) (k : Nat) (e : Entry)
    (hk : es[k]? = some e) : e.index = s + k := by
  induction es generalizing s k with
  | nil => simp at hk
  | cons x xs ih =>
    rw [contigFrom_cons] at h
    cases k with
    | zero => simp at hk; subst hk; omega
    | succ k => simp at hk; have := ih h.2 k hk; omega

theorem lastOf_contig {s : Nat} {es : List Entry} (h : contigFrom s es = true) (hne : es ≠ []) :
    lastOf es = s + es.length - 1 := by
  induction es generalizing s with
  | nil => exact absurd rfl hne
  | cons x xs ih =>
    rw [contigFrom_cons] at h
    cases xs with
    | nil => simp [lastOf, h.1]
    | cons y ys =>
      have := ih h.2 (by simp)
      simp only [lastOf, List.getLast?_cons_cons] at this ⊢
      rw [this]; simp; omega

theorem firstOf_contig {s : Nat} {es : List Entry} (h : contigFrom s es = true) (hne : es ≠ []) :
    firstOf es = s := by
  cases es with
  | nil => exact absurd rfl hne
  | cons x xs => rw [contigFrom_cons] at h; simp [firstOf, h.1]

/-- a gap-free list is contiguous from its first index. -/
theorem gapFree_iff (es : List Entry) : gapFree es = true ↔ contigFrom (firstOf es) es = true := Iff.rfl

/-! ## contigRun (fix F6) -/

theorem contigRun_contig (s : Nat) (es : List Entry) : contigFrom s (contigRun s es) = true := by
  induction es generalizing s with
  | nil => rfl
  | cons e es ih =>
    simp only [contigRun]
    split
    · rename_i h; rw [contigFrom_cons]; exact ⟨by simpa using h, ih (s + 1)⟩
    · rfl

theorem contigRun_of_contig {s : Nat} {es : List Entry} (h : contigFrom s es = true) : contigRun s es = es := by
  induction es generalizing s with
  | nil => rfl
  | cons e es ih =>
    rw [contigFrom_cons] at h
    simp [contigRun, h.1, ih h.2]

theorem contigRun_prefix (s : Nat) (es : List Entry) : contigRun s es <+: es := by
  induction es generalizing s with
  | nil => simp [contigRun]
  | cons e es ih =>
    simp only [contigRun]
    split
    · exact List.prefix_cons_inj e |>.mpr (ih (s + 1))
    · exact List.nil_prefix

theorem contigRun_append_left {s : Nat} {a : List Entry} (h : contigFrom s a = true) (b : List Entry) :
    contigRun s (a ++ b) = a ++ contigRun (s + a.length) b := by
  induction a generalizing s with
  | nil => simp
  | cons e es ih =>
    rw [contigFrom_cons] at h
    have e1 : s + 1 + es.length = s + (es.length + 1) := by omega
    simp only [List.cons_append, contigRun, h.1, beq_self_eq_true, ↓reduceIte, List.length_cons, ih h.2, e1]

/-! ## gap-free lists: filters, dropWhile, append -/

theorem gapFree_of_contigFrom {s : Nat} {es : List Entry} (h : contigFrom s es = true) : gapFree es = true := by
  cases es with
  | nil => rfl
  | cons x xs => rw [gapFree_iff, firstOf_contig h (by simp)]; exact h

/-- `dropWhile` on a contiguous list: the remainder is contiguous from its head, the head fails the
    predicate, everything before it satisfies it. -/
theorem dropWhile_contig {p : Entry → Bool} {s : Nat} {es : List Entry} (h : contigFrom s es = true)
    {e : Entry} {rest : List Entry} (hd : es.dropWhile p = e :: rest) :
    contigFrom e.index (e :: rest) = true ∧ s ≤ e.index ∧ p e = false ∧ e ∈ es ∧
      (∀ x ∈ es, x.index < e.index → p x = true) ∧ e.index + (e :: rest).length = s + es.length := by
  induction es generalizing s with
  | nil => simp at hd
  | cons x xs ih =>
    have hc := (contigFrom_cons s x xs).mp h
    rw [List.dropWhile_cons] at hd
    split at hd
    · rename_i hpx
      obtain ⟨h1, h2, h3, h4, h5, h6⟩ := ih hc.2 hd
      refine ⟨h1, by omega, h3, List.mem_cons_of_mem _ h4, ?_, by simp at h6 ⊢; omega⟩
      intro y hy hlt
      rcases List.mem_cons.mp hy with rfl | hy
      · exact hpx
      · exact h5 y hy hlt
    · rename_i hpx
      injection hd with hx hr
      subst hx; subst hr
      refine ⟨by rw [hc.1]; exact h, by omega, by simpa using hpx, List.mem_cons_self, ?_, by simp; omega⟩
      intro y hy hlt
      rcases List.mem_cons.mp hy with rfl | hy
      · omega
      · have := contigFrom_index_ge hc.2 y hy; omega

theorem dropWhile_nil_all {p : Entry → Bool} {es : List Entry} (hd : es.dropWhile p = []) :
    ∀ x ∈ es, p x = true := by
  induction es with
  | nil => simp
  | cons x xs ih =>
    rw [List.dropWhile_cons] at hd
    split at hd
    · rename_i hpx
      intro y hy
      rcases List.mem_cons.mp hy with rfl | hy
      · exact hpx
      · exact ih hd y hy
    · simp at hd

/-- keeping the entries below `d` of a contiguous list. -/
theorem filter_lt_contig {f : Nat} {es : List Entry} (h : contigFrom f es = true) (d : Nat)
    (hd1 : f ≤ d) (hd2 : d ≤ f + es.length) :
    contigFrom f (es.filter (fun e => e.index < d)) = true ∧ (es.filter (fun e => e.index < d)).length = d - f := by
  induction es generalizing f with
  | nil => simp [contigFrom] at hd2 ⊢; omega
  | cons x xs ih =>
    have hc := (contigFrom_cons f x xs).mp h
    by_cases hlt : f < d
    · have := ih hc.2 (by omega) (by simp at hd2; omega)
      have hx : decide (x.index < d) = true := by simp; omega
      simp only [List.filter_cons, hx, ↓reduceIte, contigFrom_cons, List.length_cons]
      exact ⟨⟨hc.1, this.1⟩, by omega⟩
    · have hfd : f = d := by omega
      have hx : decide (x.index < d) = false := by simp; omega
      have hrest : xs.filter (fun e => decide (e.index < d)) = [] := by
        rw [List.filter_eq_nil_iff]
        intro y hy
        have := contigFrom_index_ge hc.2 y hy
        simp; omega
      simp only [List.filter_cons, hx, hrest]
      simp [contigFrom]; omega

theorem filter_lt_all {f : Nat} {es : List Entry} (h : contigFrom f es = true) (d : Nat)
    (hd : f + es.length ≤ d) : es.filter (fun e => e.index < d) = es := by
  rw [List.filter_eq_self]
  intro y hy
  have := contigFrom_index_lt h y hy
  simp; omega

theorem lastOf_append_cons (a : List Entry) (e : Entry) (rest : List Entry) :
    lastOf (a ++ e :: rest) = lastOf (e :: rest) := by
  simp [lastOf, List.getLast?_append]
  cases h : (e :: rest).getLast? with
  | none => simp at h
  | some x => simp [h]

theorem firstOf_append_of_ne {a : List Entry} (b : List Entry) (h : a ≠ []) : firstOf (a ++ b) = firstOf a := by
  cases a with
  | nil => exact absurd rfl h
  | cons x xs => simp [firstOf]

/-- appending a block that starts right behind the last index keeps the list gap-free. -/
theorem gapFree_append {a b : List Entry} (ha : gapFree a = true) {s : Nat} (hb : contigFrom s b = true)
    (hj : a = [] ∨ s = lastOf a + 1) (h1 : ∀ e ∈ a, 1 ≤ e.index) : gapFree (a ++ b) = true := by
  cases a with
  | nil => simpa using gapFree_of_contigFrom hb
  | cons x xs =>
    rcases hj with hj | hj
    · simp at hj
    · rw [gapFree_iff] at ha
      have hl := lastOf_contig ha (by simp)
      have hf : firstOf (x :: xs) = x.index := rfl
      rw [gapFree_iff, firstOf_append_of_ne _ (by simp), contigFrom_append]
      refine ⟨ha, ?_⟩
      have : 1 ≤ x.index := h1 x List.mem_cons_self
      have e : firstOf (x :: xs) + (x :: xs).length = s := by rw [hj, hl, hf]; simp; omega
      rw [e]; exact hb

theorem contigFrom_mem_index {s : Nat} {es : List Entry} (h : contigFrom s es = true) (i : Nat)
    (h1 : s ≤ i) (h2 : i < s + es.length) : ∃ x ∈ es, x.index = i := by
  induction es generalizing s with
  | nil => simp at h2; omega
  | cons x xs ih =>
    have hc := (contigFrom_cons s x xs).mp h
    by_cases hi : i = s
    · exact ⟨x, List.mem_cons_self, by omega⟩
    · obtain ⟨y, hy, hyi⟩ := ih hc.2 (by omega) (by simp at h2; omega)
      exact ⟨y, List.mem_cons_of_mem _ hy, hyi⟩

/-- In a contiguous block that starts at or below `m+1`, the first entry above `m` sits exactly at `m+1`. -/
theorem tail_starts_after {s m : Nat} {es : List Entry} (h : contigFrom s es = true) (hs : s ≤ m + 1)
    {e : Entry} (he : e ∈ es) (hgt : m < e.index) (hbefore : ∀ x ∈ es, x.index < e.index → x.index ≤ m) :
    e.index = m + 1 := by
  by_cases hq : e.index = m + 1
  · exact hq
  · exfalso
    have hlt := contigFrom_index_lt h e he
    obtain ⟨x, hx, hxi⟩ := contigFrom_mem_index h (e.index - 1) (by omega) (by omega)
    have := hbefore x hx (by omega)
    omega

theorem appendE_ents (l : Log) (es : List Entry) : (appendE l es).ents = l.ents ++ es := rfl
theorem removeFrom_ents (l : Log) (d : Nat) : (removeFrom l d).ents = l.ents.filter (fun e => e.index < d) := rfl
theorem resetL_ents (l : Log) : (resetL l).ents = [] := rfl

end DEngine.Repl
