import DEngine.Model.Repl
/-!
# Helper lemmas for the `repl` family (C08, C36, C07)
List-level facts about `contigFrom`, `contigRun`, lookups in gap-free lists and the four paths of
`filterAppend`.
-/
namespace DEngine.Repl

/-! ## contigFrom -/

theorem contigFrom_nil (s : Nat) : contigFrom s [] = true := rfl

theorem contigFrom_cons (s : Nat) (e : Entry) (es : List Entry) :
    contigFrom s (e :: es) = true ↔ e.index = s ∧ contigFrom (s + 1) es = true := by
  simp [contigFrom]

theorem contigFrom_append (s : Nat) (a b : List Entry) :
    contigFrom s (a ++ b) = true ↔ contigFrom s a = true ∧ contigFrom (s + a.length) b = true := by
  induction a generalizing s with
  | nil => simp [contigFrom]
  | cons e es ih =>
    simp only [List.cons_append, contigFrom_cons, ih, List.length_cons]
    have : s + 1 + es.length = s + (es.length + 1) := by omega
    rw [this]
    constructor
    · rintro ⟨h1, h2, h3⟩; exact ⟨⟨h1, h2⟩, h3⟩
    · rintro ⟨⟨h1, h2⟩, h3⟩; exact ⟨h1, h2, h3⟩

theorem contigFrom_map_index (s : Nat) (es : List Entry) :
    contigFrom s es = true ↔ es.map (·.index) = List.range' s es.length := by
  induction es generalizing s with
  | nil => simp [contigFrom]
  | cons e es ih =>
    simp only [contigFrom_cons, List.map_cons, List.length_cons, List.range'_succ, List.cons.injEq, ih]

theorem contigFrom_index_ge {s : Nat} {es : List Entry} (h : contigFrom s es = true) :
    ∀ e ∈ es, s ≤ e.index := by
  induction es generalizing s with
  | nil => simp
  | cons x xs ih =>
    rw [contigFrom_cons] at h
    intro e he
    rcases List.mem_cons.mp he with rfl | he
    · omega
    · have := ih h.2 e he; omega

theorem contigFrom_index_lt {s : Nat} {es : List Entry} (h : contigFrom s es = true) :
    ∀ e ∈ es, e.index < s + es.length := by
  induction es generalizing s with
  | nil => simp
  | cons x xs ih =>
    rw [contigFrom_cons] at h
    intro e he
    rcases List.mem_cons.mp he with rfl | he
    · simp; omega
    · have := ih h.2 e he; simp; omega

theorem contigFrom_drop {s : Nat} {es : List Entry} (h : contigFrom s es = true) (k : Nat) :
    contigFrom (s + k) (es.drop k) = true := by
  induction k generalizing s es with
  | zero => simpa using h
  | succ k ih =>
    cases es with
    | nil => simp [contigFrom]
    | cons x xs =>
      rw [contigFrom_cons] at h
      have := ih h.2
      simpa [Nat.add_assoc, Nat.add_comm 1 k] using this

theorem contigFrom_getElem? {s : Nat} {es : List Entry} (h : contigFrom s es = true) (k : Nat) (e : Entry)
    (hk : es[k]? = some e) : e.index = s + k := by
  induction es generalizing s k with
  | nil => simp at hk
  | cons x xs ih =>
    rw [contigFrom_cons] at h
    cases k with
    | zero => simp at hk; subst hk; omega
    | succ k => simp at hk; have := ih h.2 k hk; omega

theorem lastOf_contig {s : Nat} {es : List Entry} (h : contigFrom s es = true) (hne : es ≠ []) :
    lastOf es = s + es.length - 1 := by
  induction es generalizing s with
  | nil => exact absurd rfl hne
  | cons x xs ih =>
    rw [contigFrom_cons] at h
    cases xs with
    | nil => simp [lastOf, h.1]
    | cons y ys =>
      have := ih h.2 (by simp)
      simp only [lastOf, List.getLast?_cons_cons] at this ⊢
      rw [this]; simp; omega

theorem firstOf_contig {s : Nat} {es : List Entry} (h : contigFrom s es = true) (hne : es ≠ []) :
    firstOf es = s := by
  cases es with
  | nil => exact absurd rfl hne
  | cons x xs => rw [contigFrom_cons] at h; simp [firstOf, h.1]

/-- a gap-free list is contiguous from its first index. -/
theorem gapFree_iff (es : List Entry) : gapFree es = true ↔ contigFrom (firstOf es) es = true := Iff.rfl

/-! ## contigRun (fix F6) -/

theorem contigRun_contig (s : Nat) (es : List Entry) : contigFrom s (contigRun s es) = true := by
  induction es generalizing s with
  | nil => rfl
  | cons e es ih =>
    simp only [contigRun]
    split
    · rename_i h; rw [contigFrom_cons]; exact ⟨by simpa using h, ih (s + 1)⟩
    · rfl

theorem contigRun_of_contig {s : Nat} {es : List Entry} (h : contigFrom s es = true) : contigRun s es = es := by
  induction es generalizing s with
  | nil => rfl
  | cons e es ih =>
    rw [contigFrom_cons] at h
    simp [contigRun, h.1, ih h.2]

theorem contigRun_prefix (s : Nat) (es : List Entry) : contigRun s es <+: es := by
  induction es generalizing s with
  | nil => simp [contigRun]
  | cons e es ih =>
    simp only [contigRun]
    split
    · exact List.prefix_cons_inj e |>.mpr (ih (s + 1))
    · exact List.nil_prefix

theorem contigRun_append_left {s : Nat} {a : List Entry} (h : contigFrom s a = true) (b : List Entry) :
    contigRun s (a ++ b) = a ++ contigRun (s + a.length) b := by
  induction a generalizing s with
  | nil => simp
  | cons e es ih =>
    rw [contigFrom_cons] at h
    have e1 : s + 1 + es.length = s + (es.length + 1) := by omega
    simp only [List.cons_append, contigRun, h.1, beq_self_eq_true, ↓reduceIte, List.length_cons, ih h.2, e1]

end DEngine.Repl
