import DEngine.Model.Watch
/-!
Helper lemmas for C24 (M-WATCH): `prefix_segments`, per-watcher closed form of `dispatch_event`.
-/
namespace DEngine.Watch

/-! ### prefix_segments -/

theorem segsAux_mem (acc k p : Key) :
    p ∈ segsAux acc k ↔ ∃ t, t <+: k ∧ t ≠ [] ∧ t.getLast? = some slash ∧ p = acc ++ t := by
  induction k generalizing acc with
  | nil =>
    simp only [segsAux, List.not_mem_nil, false_iff]
    rintro ⟨t, ht, hne, _, _⟩
    exact hne (List.prefix_nil.mp ht)
  | cons c rest ih =>
    have key : (∃ t, t <+: c :: rest ∧ t ≠ [] ∧ t.getLast? = some slash ∧ p = acc ++ t) ↔
        ((c = slash ∧ p = acc ++ [c]) ∨
         ∃ t', t' <+: rest ∧ t' ≠ [] ∧ t'.getLast? = some slash ∧ p = (acc ++ [c]) ++ t') := by
      constructor
      · rintro ⟨t, ht, hne, hl, hp⟩
        cases t with
        | nil => exact absurd rfl hne
        | cons d t' =>
          have hd : d = c ∧ t' <+: rest := by
            have := List.cons_prefix_cons.mp ht; exact this
          obtain ⟨hd, ht'⟩ := hd
          subst hd
          cases t' with
          | nil =>
            left
            simp only [List.getLast?_singleton, Option.some.injEq] at hl
            exact ⟨hl, hp⟩
          | cons x xs =>
            right
            refine ⟨x :: xs, ht', by simp, ?_, ?_⟩
            · rw [List.getLast?_cons_cons] at hl; exact hl
            · rw [hp]; simp
      · rintro (⟨hc, hp⟩ | ⟨t', ht', hne, hl, hp⟩)
        · refine ⟨[c], ?_, by simp, by simp [hc], hp⟩
          exact List.cons_prefix_cons.mpr ⟨rfl, List.nil_prefix⟩
        · refine ⟨c :: t', List.cons_prefix_cons.mpr ⟨rfl, ht'⟩, by simp, ?_, ?_⟩
          · cases t' with
            | nil => exact absurd rfl hne
            | cons x xs => rw [List.getLast?_cons_cons]; exact hl
          · rw [hp]; simp
    rw [key]
    unfold segsAux
    split
    · rename_i hc
      simp only [List.mem_cons, ih]
      constructor
      · rintro (h | h)
        · exact Or.inl ⟨hc, h⟩
        · exact Or.inr h
      · rintro (⟨_, h⟩ | h)
        · exact Or.inl h
        · exact Or.inr h
    · rename_i hc
      rw [ih]
      constructor
      · intro h; exact Or.inr h
      · rintro (⟨h, _⟩ | h)
        · exact absurd h hc
        · exact h

/-- **Prefix matching.** The lookup keys the dispatcher tries for an event key are exactly its non-empty
    `/`-terminated prefixes. -/
theorem mem_prefixSegments (k p : Key) :
    p ∈ prefixSegments k ↔ p <+: k ∧ p ≠ [] ∧ p.getLast? = some slash := by
  unfold prefixSegments
  rw [segsAux_mem]
  constructor
  · rintro ⟨t, h1, h2, h3, h4⟩
    simp only [List.nil_append] at h4; subst h4; exact ⟨h1, h2, h3⟩
  · rintro ⟨h1, h2, h3⟩
    exact ⟨p, h1, h2, h3, by simp⟩

theorem segsAux_length_lt (acc k p : Key) (h : p ∈ segsAux acc k) : acc.length < p.length := by
  obtain ⟨t, _, hne, _, hp⟩ := (segsAux_mem acc k p).mp h
  subst hp
  have : 0 < t.length := List.length_pos_iff.mpr hne
  simp; omega

theorem segsAux_nodup (acc k : Key) : (segsAux acc k).Nodup := by
  induction k generalizing acc with
  | nil => simp [segsAux]
  | cons c rest ih =>
    unfold segsAux
    split
    · refine List.nodup_cons.mpr ⟨?_, ih _⟩
      intro h
      have := segsAux_length_lt _ _ _ h
      omega
    · exact ih _

theorem prefixSegments_nodup (k : Key) : (prefixSegments k).Nodup := segsAux_nodup [] k

theorem validPrefix_iff (p : Key) : validPrefix p = true ↔ p.head? = some slash ∧ p.getLast? = some slash := by
  simp [validPrefix]

/-- For a registered prefix watcher (prefix starts and ends with '/'), being one of the lookup keys is the
    same as being a prefix of the event key. -/
theorem mem_prefixSegments_of_valid (k p : Key) (hv : validPrefix p = true) :
    p ∈ prefixSegments k ↔ p.isPrefixOf k = true := by
  rw [mem_prefixSegments, List.isPrefixOf_iff_prefix]
  obtain ⟨h1, h2⟩ := (validPrefix_iff p).mp hv
  constructor
  · exact fun h => h.1
  · intro h
    refine ⟨h, ?_, h2⟩
    intro hp; subst hp; simp at h1


/-! ### Per-watcher closed form of `dispatch_event` -/

theorem deliver_fields (b : Nat) (e : PEv) (w : Watcher) :
    (deliver b w e).1.id = w.id ∧ (deliver b w e).1.key = w.key ∧ (deliver b w e).1.isPrefix = w.isPrefix ∧
    (deliver b w e).1.prevKv = w.prevKv ∧ (deliver b w e).1.regPos = w.regPos ∧
    (deliver b w e).1.closed = w.closed ∧ (deliver b w e).1.got = w.got ∧
    (deliver b w e).1.registered = w.registered := by
  unfold deliver
  split
  · simp
  · split
    · split <;> simp
    · simp

theorem hit_fields (b : Nat) (e : PEv) (w : Watcher) :
    (hit b e w).id = w.id ∧ (hit b e w).key = w.key ∧ (hit b e w).isPrefix = w.isPrefix ∧
    (hit b e w).prevKv = w.prevKv ∧ (hit b e w).regPos = w.regPos ∧
    (hit b e w).closed = w.closed ∧ (hit b e w).got = w.got := by
  have h := deliver_fields b e w
  unfold hit
  split <;> simp [h]

theorem pass_fields (b : Nat) (ip : Bool) (k : Key) (e : PEv) (w : Watcher) :
    (pass b ip k e w).id = w.id ∧ (pass b ip k e w).key = w.key ∧ (pass b ip k e w).isPrefix = w.isPrefix ∧
    (pass b ip k e w).prevKv = w.prevKv ∧ (pass b ip k e w).regPos = w.regPos ∧
    (pass b ip k e w).closed = w.closed ∧ (pass b ip k e w).got = w.got := by
  unfold pass
  split
  · exact hit_fields b e w
  · simp

/-- Visiting the prefix map under each lookup key in turn, seen from one watcher. -/
def perW (b : Nat) (e : PEv) (w : Watcher) : Watcher :=
  (prefixSegments e.key).foldl (fun w p => pass b true p e w) (pass b false e.key e w)

theorem foldl_dispatch_watchers (ip : Bool) (l : List Key) (s : St) (e : PEv) :
    (l.foldl (fun s p => dispatchToMap s ip p e) s).watchers =
      s.watchers.map (fun w => l.foldl (fun w p => pass s.bufSize ip p e w) w) ∧
    (l.foldl (fun s p => dispatchToMap s ip p e) s).bufSize = s.bufSize ∧
    (l.foldl (fun s p => dispatchToMap s ip p e) s).sent = s.sent ∧
    (l.foldl (fun s p => dispatchToMap s ip p e) s).cursor = s.cursor ∧
    (l.foldl (fun s p => dispatchToMap s ip p e) s).lagged = s.lagged ∧
    (l.foldl (fun s p => dispatchToMap s ip p e) s).unregQ = s.unregQ ∧
    (l.foldl (fun s p => dispatchToMap s ip p e) s).nextId = s.nextId := by
  induction l generalizing s with
  | nil => simp
  | cons p l ih =>
    simp only [List.foldl_cons]
    obtain ⟨h1, h2, h3, h4, h5, h6, h7⟩ := ih (dispatchToMap s ip p e)
    refine ⟨?_, ?_, ?_, ?_, ?_, ?_, ?_⟩
    · rw [h1]; simp [dispatchToMap, List.map_map, Function.comp_def]
    · rw [h2]; rfl
    · rw [h3]; rfl
    · rw [h4]; rfl
    · rw [h5]; rfl
    · rw [h6]; rfl
    · rw [h7]; rfl

theorem dispatchEvent_eq (s : St) (e : PEv) :
    (dispatchEvent s e).watchers = s.watchers.map (perW s.bufSize e) ∧
    (dispatchEvent s e).bufSize = s.bufSize ∧ (dispatchEvent s e).sent = s.sent ∧
    (dispatchEvent s e).cursor = s.cursor ∧ (dispatchEvent s e).lagged = s.lagged ∧
    (dispatchEvent s e).unregQ = s.unregQ ∧ (dispatchEvent s e).nextId = s.nextId := by
  unfold dispatchEvent
  obtain ⟨h1, h2, h3, h4, h5, h6, h7⟩ := foldl_dispatch_watchers true (prefixSegments e.key) (dispatchToMap s false e.key e) e
  refine ⟨?_, ?_, ?_, ?_, ?_, ?_, ?_⟩
  · rw [h1]; simp [dispatchToMap, List.map_map, Function.comp_def, perW]
  · rw [h2]; rfl
  · rw [h3]; rfl
  · rw [h4]; rfl
  · rw [h5]; rfl
  · rw [h6]; rfl
  · rw [h7]; rfl

theorem foldl_pass_notin (b : Nat) (e : PEv) (l : List Key) (w : Watcher) (h : w.key ∉ l) :
    l.foldl (fun w p => pass b true p e w) w = w := by
  induction l generalizing w with
  | nil => rfl
  | cons p l ih =>
    simp only [List.foldl_cons]
    have hp : pass b true p e w = w := by
      unfold pass
      have : (w.key == p) = false := by
        simp only [beq_eq_false_iff_ne, ne_eq]
        intro hk; exact h (by simp [hk])
      simp [this]
    rw [hp]
    exact ih w (fun hm => h (List.mem_cons_of_mem _ hm))

theorem foldl_pass_nonprefix (b : Nat) (e : PEv) (l : List Key) (w : Watcher) (h : w.isPrefix = false) :
    l.foldl (fun w p => pass b true p e w) w = w := by
  induction l generalizing w with
  | nil => rfl
  | cons p l ih =>
    simp only [List.foldl_cons]
    have hp : pass b true p e w = w := by unfold pass; simp [h]
    rw [hp]; exact ih w h

theorem foldl_pass_nodup (b : Nat) (e : PEv) (l : List Key) (w : Watcher) (hn : l.Nodup)
    (hp : w.isPrefix = true) :
    l.foldl (fun w p => pass b true p e w) w =
      if w.registered && decide (w.key ∈ l) then hit b e w else w := by
  induction l generalizing w with
  | nil => simp
  | cons p l ih =>
    simp only [List.foldl_cons]
    obtain ⟨hnp, hnl⟩ := List.nodup_cons.mp hn
    by_cases hk : w.key = p
    · -- this pass visits w (if registered); later lookups cannot match
      have hnot : (pass b true p e w).key ∉ l := by rw [(pass_fields b true p e w).2.1, hk]; exact hnp
      rw [foldl_pass_notin b e l _ hnot]
      unfold pass
      simp [hp, hk]
    · have hpass : pass b true p e w = w := by
        unfold pass
        have : (w.key == p) = false := by simpa using hk
        simp [this]
      rw [hpass, ih w hnl hp]
      have : (w.key ∈ p :: l) ↔ w.key ∈ l := by simp [hk]
      simp [this]

/-- **Closed form.** `dispatch_event` visits a watcher exactly when it is registered and covers the key
    (exact key equal / valid prefix is a prefix of the key), and then exactly once. -/
theorem perW_eq (b : Nat) (e : PEv) (w : Watcher) (hv : w.isPrefix = true → validPrefix w.key = true) :
    perW b e w = if w.registered && covers w.isPrefix w.key e.key then hit b e w else w := by
  unfold perW
  cases hip : w.isPrefix with
  | false =>
    have h1 : (pass b false e.key e w).isPrefix = false := by rw [(pass_fields _ _ _ _ _).2.2.1]; exact hip
    rw [foldl_pass_nonprefix b e _ _ h1]
    unfold pass covers
    simp [hip]
  | true =>
    have h1 : pass b false e.key e w = w := by unfold pass; simp [hip]
    rw [h1, foldl_pass_nodup b e _ w (prefixSegments_nodup _) hip]
    have := mem_prefixSegments_of_valid e.key w.key (hv hip)
    unfold covers
    simp only [if_true]
    by_cases hm : w.key ∈ prefixSegments e.key
    · simp [hm, this.mp hm]
    · have : w.key.isPrefixOf e.key = false := by
        cases h : w.key.isPrefixOf e.key with
        | false => rfl
        | true => exact absurd (this.mpr h) hm
      simp [hm, this]


theorem perW_id_closed (b : Nat) (e : PEv) (w : Watcher) :
    (perW b e w).id = w.id ∧ (perW b e w).closed = w.closed := by
  unfold perW
  have gen : ∀ (l : List Key) (w : Watcher),
      (l.foldl (fun w p => pass b true p e w) w).id = w.id ∧
      (l.foldl (fun w p => pass b true p e w) w).closed = w.closed := by
    intro l
    induction l with
    | nil => intro w; exact ⟨rfl, rfl⟩
    | cons p l ih =>
      intro w
      simp only [List.foldl_cons]
      have h1 := ih (pass b true p e w)
      have h2 := pass_fields b true p e w
      exact ⟨h1.1.trans h2.1, h1.2.trans h2.2.2.2.2.2.1⟩
  have h1 := gen (prefixSegments e.key) (pass b false e.key e w)
  have h2 := pass_fields b false e.key e w
  exact ⟨h1.1.trans h2.1, h1.2.trans h2.2.2.2.2.2.1⟩

/-! ### Frame lemmas: the dispatcher only touches `watchers` and `total` -/

theorem foldl_frame {α : Type} (π : St → α) (hπ : ∀ s ip k e, π (dispatchToMap s ip k e) = π s)
    (ip : Bool) (l : List Key) (s : St) (e : PEv) :
    π (l.foldl (fun s k => dispatchToMap s ip k e) s) = π s := by
  induction l generalizing s with
  | nil => rfl
  | cons k l ih => simp only [List.foldl_cons]; rw [ih, hπ]

theorem dispatchEvent_frame {α : Type} (π : St → α) (hπ : ∀ s ip k e, π (dispatchToMap s ip k e) = π s)
    (s : St) (e : PEv) : π (dispatchEvent s e) = π s := by
  unfold dispatchEvent
  rw [foldl_frame π hπ, hπ]

theorem broadcastProgress_frame {α : Type} (π : St → α) (hπ : ∀ s ip k e, π (dispatchToMap s ip k e) = π s)
    (s : St) : π (broadcastProgress s) = π s := by
  unfold broadcastProgress
  simp only
  rw [foldl_frame π hπ, foldl_frame π hπ]

end DEngine.Watch
