/-
  Pure list lemmas for the cluster model: ghost chains (`ChainFrom`), what the log queries of Model/Cluster.lean
  compute on a chain, and agreement of two chains over a functional ghost map.
-/
import DEngine.Model.Cluster
namespace DEngine.Cluster

/-- The ghost map is a function: at most one record per (index, term). -/
def GFun (g : List GRec) : Prop :=
  ∀ a ∈ g, ∀ b ∈ g, a.index = b.index → a.term = b.term → a = b

/-- `es` hangs below the position (pi, pt): consecutive indexes from pi+1, every entry was created (is recorded in
    `g`) with the term of its predecessor. -/
def ChainFrom (g : List GRec) : Nat → Nat → Log → Prop
  | _, _, [] => True
  | pi, pt, e :: es => e.index = pi + 1 ∧ (⟨e.index, e.term, e.payload, pt⟩ : GRec) ∈ g ∧ ChainFrom g e.index e.term es

/-- A node log: a chain hanging below the virtual position (0,0). -/
abbrev Chain (g : List GRec) (l : Log) : Prop := ChainFrom g 0 0 l

def endI (pi : Nat) (a : Log) : Nat := match a.getLast? with | some e => e.index | none => pi
def endT (pt : Nat) (a : Log) : Nat := match a.getLast? with | some e => e.term | none => pt

theorem chainFrom_mono {g g' : List GRec} (h : ∀ r ∈ g, r ∈ g') :
    ∀ {pi pt : Nat} {es : Log}, ChainFrom g pi pt es → ChainFrom g' pi pt es := by
  intro pi pt es
  induction es generalizing pi pt with
  | nil => intro _; trivial
  | cons e es ih =>
    intro hc
    exact ⟨hc.1, h _ hc.2.1, ih hc.2.2⟩

theorem endI_cons (pi : Nat) (e : Entry) (es : Log) : endI pi (e :: es) = endI e.index es := by
  cases es with
  | nil => simp [endI]
  | cons x xs =>
    simp only [endI, List.getLast?_cons_cons]
    cases h : (x :: xs).getLast? with
    | none => simp at h
    | some y => rfl

theorem endT_cons (pt : Nat) (e : Entry) (es : Log) : endT pt (e :: es) = endT e.term es := by
  cases es with
  | nil => simp [endT]
  | cons x xs =>
    simp only [endT, List.getLast?_cons_cons]
    cases h : (x :: xs).getLast? with
    | none => simp at h
    | some y => rfl

theorem chainFrom_append {g : List GRec} :
    ∀ {a : Log} {pi pt : Nat} {b : Log},
      ChainFrom g pi pt (a ++ b) ↔ ChainFrom g pi pt a ∧ ChainFrom g (endI pi a) (endT pt a) b := by
  intro a
  induction a with
  | nil => intro pi pt b; simp [ChainFrom, endI, endT]
  | cons e es ih =>
    intro pi pt b
    simp only [List.cons_append, ChainFrom, endI_cons, endT_cons]
    rw [ih]
    constructor
    · rintro ⟨h1, h2, h3, h4⟩; exact ⟨⟨h1, h2, h3⟩, h4⟩
    · rintro ⟨⟨h1, h2, h3⟩, h4⟩; exact ⟨h1, h2, h3, h4⟩

theorem endI_chain {g : List GRec} : ∀ {a : Log} {pi pt : Nat}, ChainFrom g pi pt a → endI pi a = pi + a.length := by
  intro a
  induction a with
  | nil => intro pi pt _; simp [endI]
  | cons e es ih =>
    intro pi pt h
    rw [endI_cons, ih h.2.2, h.1]
    simp only [List.length_cons]; omega

/-- pointwise view of a chain -/
def predTerm (pt : Nat) (es : Log) (k : Nat) : Nat :=
  if k = 0 then pt else match es[k - 1]? with | some e => e.term | none => 0

theorem chainFrom_get {g : List GRec} :
    ∀ {es : Log} {pi pt k : Nat} {e : Entry}, ChainFrom g pi pt es → es[k]? = some e →
      e.index = pi + k + 1 ∧ (⟨e.index, e.term, e.payload, predTerm pt es k⟩ : GRec) ∈ g := by
  intro es
  induction es with
  | nil => intro pi pt k e _ h; simp at h
  | cons x xs ih =>
    intro pi pt k e hc h
    cases k with
    | zero =>
      simp at h; subst h
      exact ⟨by simpa using hc.1, by simpa [predTerm] using hc.2.1⟩
    | succ k =>
      simp at h
      have := ih hc.2.2 h
      refine ⟨by rw [this.1, hc.1]; omega, ?_⟩
      have h2 := this.2
      cases k with
      | zero => simpa [predTerm] using h2
      | succ j => simpa [predTerm] using h2

theorem chain_index {g : List GRec} {l : Log} {k : Nat} {e : Entry} (hc : Chain g l) (h : l[k]? = some e) :
    e.index = k + 1 := by
  have := (chainFrom_get hc h).1; omega

/-- positions and indexes coincide on a chain -/
theorem chain_mem_get {g : List GRec} {l : Log} {e : Entry} (hc : Chain g l) (h : e ∈ l) :
    l[e.index - 1]? = some e ∧ 1 ≤ e.index := by
  obtain ⟨k, hk⟩ := List.getElem?_of_mem h
  have := chain_index hc hk
  rw [this]; simp [hk]

theorem entryAt_chain {g : List GRec} {l : Log} (hc : Chain g l) (i : Nat) :
    entryAt l i = if i = 0 then none else l[i - 1]? := by
  unfold entryAt
  split
  · next h0 =>
    subst h0
    rw [List.find?_eq_none]
    intro e he
    have := (chain_mem_get hc he).2
    simp; omega
  · next h0 =>
    cases hget : l[i - 1]? with
    | none =>
      rw [List.find?_eq_none]
      intro e he
      have h1 := chain_mem_get hc he
      simp
      intro heq
      rw [heq] at h1
      rw [hget] at h1
      exact absurd h1.1 (by simp)
    | some e =>
      have hidx := chain_index hc hget
      -- e is the first element with index i
      have hlt : i - 1 < l.length := by
        rcases List.getElem?_eq_some_iff.mp hget with ⟨h, _⟩; exact h
      rw [List.find?_eq_some_iff_getElem]
      refine ⟨by simp; omega, i - 1, hlt, ?_, ?_⟩
      · exact (List.getElem?_eq_some_iff.mp hget).2
      · intro j hj
        have hjl : j < l.length := by omega
        have hje : l[j]? = some l[j] := List.getElem?_eq_getElem hjl
        have := chain_index hc hje
        simp; omega

theorem entryTerm_chain {g : List GRec} {l : Log} (hc : Chain g l) (i : Nat) :
    entryTerm l i = if i = 0 then none else (l[i - 1]?).map (·.term) := by
  unfold entryTerm; rw [entryAt_chain hc]; split <;> simp

theorem lastIndex_chain {g : List GRec} {l : Log} (hc : Chain g l) : lastIndex l = l.length := by
  unfold lastIndex
  cases hl : l.getLast? with
  | none => simp [List.getLast?_eq_none_iff] at hl; simp [hl]
  | some e =>
    have : endI 0 l = e.index := by simp [endI, hl]
    have h2 := endI_chain hc
    simp only [] at *
    omega

theorem lastTermOf_eq_endT (l : Log) : lastTermOf l = endT 0 l := rfl

/-- `filter (index < d)` on a chain is a prefix -/
theorem filter_lt_chain {g : List GRec} : ∀ {l : Log} {pi pt : Nat} (_ : ChainFrom g pi pt l) (d : Nat),
    l.filter (fun e => e.index < d) = l.take (d - (pi + 1)) := by
  intro l
  induction l with
  | nil => intro pi pt _ d; simp
  | cons e es ih =>
    intro pi pt hc d
    have hi := hc.1
    have := ih hc.2.2 d
    by_cases hd : e.index < d
    · have : d - (pi + 1) = (d - (e.index + 1)) + 1 := by omega
      rw [List.filter_cons_of_pos (by simpa using hd), this, List.take_succ_cons, ih hc.2.2 d]
    · have h0 : d - (pi + 1) = 0 := by omega
      rw [List.filter_cons_of_neg (by simpa using hd), h0, List.take_zero]
      rw [ih hc.2.2 d]
      have : d - (e.index + 1) = 0 := by omega
      rw [this, List.take_zero]

theorem filter_le_chain {g : List GRec} {l : Log} (hc : Chain g l) (k : Nat) :
    l.filter (fun e => e.index ≤ k) = l.take k := by
  have := filter_lt_chain hc (k + 1)
  have h2 : (fun e : Entry => decide (e.index ≤ k)) = (fun e : Entry => decide (e.index < k + 1)) := by
    funext e; simp [Nat.lt_succ_iff]
  rw [h2, this]; simp

theorem chainFrom_take {g : List GRec} {es : Log} {pi pt : Nat} (hc : ChainFrom g pi pt es) (m : Nat) :
    ChainFrom g pi pt (es.take m) := by
  have h := (List.take_append_drop m es).symm
  rw [h] at hc
  exact (chainFrom_append.mp hc).1

theorem chainFrom_drop {g : List GRec} {es : Log} {pi pt : Nat} (hc : ChainFrom g pi pt es) (m : Nat) :
    ChainFrom g (endI pi (es.take m)) (endT pt (es.take m)) (es.drop m) := by
  have h := (List.take_append_drop m es).symm
  rw [h] at hc
  exact (chainFrom_append.mp hc).2

-- ------------------------------------------------------------------------------------------ agreement
/-- Two chains over a functional ghost map that carry the same term at the same position agree up to it. -/
theorem chain_agree {g : List GRec} (hg : GFun g) {a b : Log} (ha : Chain g a) (hb : Chain g b) :
    ∀ (k : Nat) (e1 e2 : Entry), a[k]? = some e1 → b[k]? = some e2 → e1.term = e2.term →
      a.take (k + 1) = b.take (k + 1) := by
  intro k
  induction k with
  | zero =>
    intro e1 e2 h1 h2 ht
    have g1 := chainFrom_get ha h1
    have g2 := chainFrom_get hb h2
    have := hg _ g1.2 _ g2.2 (by simp; omega) (by simpa using ht)
    have he : e1 = e2 := by
      cases e1; cases e2; simp at this ⊢; simp at ht; exact ⟨this.1, ht, this.2.2.1⟩
    subst he
    cases a with
    | nil => simp at h1
    | cons x xs =>
      cases b with
      | nil => simp at h2
      | cons y ys => simp at h1 h2; simp [h1, h2]
  | succ k ih =>
    intro e1 e2 h1 h2 ht
    have g1 := chainFrom_get ha h1
    have g2 := chainFrom_get hb h2
    have hrec := hg _ g1.2 _ g2.2 (by simp; omega) (by simpa using ht)
    have he : e1 = e2 := by
      cases e1; cases e2; simp at hrec ⊢; simp at ht; exact ⟨hrec.1, ht, hrec.2.2.1⟩
    subst he
    have hka : k < a.length := by
      have := (List.getElem?_eq_some_iff.mp h1).1; omega
    have hkb : k < b.length := by
      have := (List.getElem?_eq_some_iff.mp h2).1; omega
    have hpa : a[k]? = some a[k] := List.getElem?_eq_getElem hka
    have hpb : b[k]? = some b[k] := List.getElem?_eq_getElem hkb
    have hpred : a[k].term = b[k].term := by
      have := hrec
      simp [predTerm, hpa, hpb] at this
      exact this
    have hprefix := ih a[k] b[k] hpa hpb hpred
    rw [List.take_add_one, List.take_add_one (l := b), hprefix, h1, h2]

end DEngine.Cluster
