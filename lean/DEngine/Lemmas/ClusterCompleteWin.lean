/-
  C05, towards leader completeness: the winner of a step (`winner`, `win_step`), refined continuity of leadership.
-/
import DEngine.Lemmas.ClusterCompleteG
namespace DEngine.Cluster

/-- the node that becomes leader in this step, if any -/
def winner (c : Cluster) (e : Event) : Option NodeId :=
  match e with
  | .voteEnd i =>
    match (c.nodes i).election with
    | some el =>
      if !(c.valid i && (c.nodes i).up) then none
      else match tally c.n el.req (el.collected.map (·.2)) 1 with
        | .won => some i
        | _ => none
    | none => none
  | _ => none

theorem winner_spec {c : Cluster} {e : Event} {i : NodeId} (h : winner c e = some i) :
    e = .voteEnd i ∧ c.valid i = true ∧ ∃ el, (c.nodes i).election = some el ∧
      tally c.n el.req (el.collected.map (·.2)) 1 = .won ∧
      (step c e).1 = leaderRound { c with leaderTerms := ((c.nodes i).term, i) :: c.leaderTerms } i
        (asLeader i c.n (c.nodes i)) (some 0) := by
  cases e with
  | voteEnd j =>
    simp only [winner] at h
    cases hel : (c.nodes j).election with
    | none => simp [hel] at h
    | some el =>
      simp only [hel] at h
      split at h
      · cases h
      · next hen =>
        cases ht : tally c.n el.req (el.collected.map (·.2)) 1 with
        | won =>
          simp only [ht] at h
          cases h
          have hv : c.valid i = true := by
            cases hvv : c.valid i
            · simp [hvv] at hen
            · rfl
          refine ⟨rfl, hv, el, hel, ht, ?_⟩
          simp only [step]; unfold stepVoteEnd; dsimp only
          simp only [hel, hen, ht]
          rfl
        | higherTerm t => simp [ht] at h
        | logConflict => simp [ht] at h
        | noQuorum => simp [ht] at h
  | _ => simp [winner] at h

theorem winner_facts {c : Cluster} {e : Event} {i : NodeId} (h : winner c e = some i) :
    (step c e).1.leaderTerms = ((c.nodes i).term, i) :: c.leaderTerms ∧
    ((step c e).1.nodes i).log = (c.nodes i).log ++ [⟨lastIndex (c.nodes i).log + 1, (c.nodes i).term, 0⟩] ∧
    ((step c e).1.nodes i).term = (c.nodes i).term ∧ ((step c e).1.nodes i).role = .leader ∧
    (step c e).1.grants = c.grants := by
  obtain ⟨_, _, el, _, _, hs⟩ := winner_spec h
  rw [hs]
  refine ⟨rfl, ?_, ?_, ?_, rfl⟩
  · rw [leaderRound_node, if_pos rfl, (replicate_spec _ _ _ _ _).1]; simp [newEntries, asLeader]
  · rw [leaderRound_node, if_pos rfl, (replicate_spec _ _ _ _ _).2.2]; rfl
  · rw [leaderRound_node, if_pos rfl, (replicate_spec _ _ _ _ _).2.1]; rfl

theorem winner_none {c : Cluster} {e : Event} (h : winner c e = none) : (step c e).1.leaderTerms = c.leaderTerms := by
  cases e with
  | voteEnd i =>
    simp only [step]; unfold stepVoteEnd; dsimp only
    simp only [winner] at h
    cases hel : (c.nodes i).election with
    | none => rfl
    | some el =>
      simp only [hel] at h ⊢
      split
      · rfl
      · next hen =>
        simp only [hen] at h
        cases ht : tally c.n el.req (el.collected.map (·.2)) 1 with
        | won => simp [ht] at h
        | higherTerm t => rfl
        | logConflict => rfl
        | noQuorum => rfl
  | tick i =>
    simp only [step]; unfold stepTick; dsimp only
    split
    · rfl
    · split
      · rfl
      · split <;> rfl
      · rfl
  | voteReq a b => simp only [step]; unfold stepVoteReq; dsimp only; split <;> (try split) <;> rfl
  | voteResp a b => simp only [step]; unfold stepVoteResp; dsimp only; split <;> (try split) <;> (try split) <;> rfl
  | write i x => simp only [step]; unfold stepWrite; dsimp only; split <;> (try split) <;> rfl
  | deliverAe m => simp only [step]; unfold stepDeliverAe; dsimp only; split <;> (try split) <;> (try split) <;> rfl
  | deliverResp m =>
    simp only [step]; unfold stepDeliverResp; dsimp only
    split <;> (try split) <;> (try split) <;> first | rfl | (rw [recordCommit_leaderTerms]; rfl)
  | drop m => rfl
  | dup m => simp only [step]; unfold stepDup; (try dsimp only); split <;> rfl
  | streamErr l p => simp only [step]; unfold stepStreamErr; dsimp only; split <;> (try split) <;> (try split) <;> rfl
  | streamClosed l p => simp only [step]; unfold stepStreamClosed; dsimp only; split <;> (try split) <;> (try split) <;> rfl
  | logFlushed i =>
    simp only [step]; unfold stepLogFlushed; dsimp only
    split <;> (try split) <;> first | rfl | (rw [recordCommit_leaderTerms])
  | applyCompleted i k => simp only [step]; unfold stepApplyCompleted; dsimp only; split <;> (try split) <;> rfl
  | crash i k => simp only [step]; unfold stepDown'; dsimp only; split <;> (try split) <;> rfl
  | stop i => simp only [step]; unfold stepDown'; dsimp only; split <;> (try split) <;> rfl
  | start i => simp only [step]; unfold stepStart; (try dsimp only); split <;> rfl
  | nop => rfl

/-- continuity of leadership, with the executable `winner` -/
theorem leader_cont' (c : Cluster) (e : Event) (l : NodeId) :
    StillLeads (c.nodes l) ((step c e).1.nodes l) ∨ winner c e = some l := by
  rcases leader_cont c e l with h | ⟨he, el, hel, hw⟩
  · exact Or.inl h
  · subst he
    by_cases hen : (!(c.valid l && (c.nodes l).up)) = true
    · left
      have : (step c (.voteEnd l)).1 = c := by
        simp only [step]; unfold stepVoteEnd; dsimp only
        simp only [hel, hen, if_true]
      rw [this]; exact stillLeads_refl _
    · right
      simp only [winner, hel, hen, hw]
      rfl

end DEngine.Cluster
