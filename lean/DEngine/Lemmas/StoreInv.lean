import DEngine.Lemmas.Store
/-! Simulation invariants: under the append-only discipline both engine models stay in lock-step with `Ref`. -/
namespace DEngine.LogStore

theorem ascFrom_of_sorted {k : Nat} : ∀ {es : List Ent}, Sorted es → (∀ e ∈ es, k < e.idx) → ascFrom k es
  | [], _, _ => trivial
  | a :: r, hs, h =>
    ⟨h a (by simp), ascFrom_of_sorted (List.pairwise_cons.mp hs).2 (fun e he => (List.pairwise_cons.mp hs).1 e he)⟩

/-! ## File store -/

/-- The file part of the invariant: memory map = records on disk (in this order) = `m`, offsets consistent. -/
structure FShape (s : FileStore) (m : Map) : Prop where
  entries : s.entries = m
  recs : s.recs = m
  endPos : s.endPos = enumFrom1 m
  hole : s.hole = false

theorem shape_append {s : FileStore} {m : Map} {e : Ent} (h : FShape s m) (he : ∀ x ∈ m, x.idx < e.idx) :
    FShape (s.append e) (m ++ [e]) := by
  refine ⟨?_, ?_, ?_, ?_⟩
  · simp only [FileStore.append, h.entries]; exact insert_end he
  · simp [FileStore.append, h.recs]
  · simp only [FileStore.append, h.endPos, h.recs, enumFrom1]
    rw [posInsert_end, enumAux_append]
    · simp
    · intro p hp
      obtain ⟨x, hx, hxe⟩ := enumAux_keys 0 m p hp
      have := he x hx
      simp only; omega
  · simp [FileStore.append, h.hole]

theorem shape_appendAll {es : List Ent} : ∀ {s : FileStore} {m : Map} {k : Nat}, FShape s m →
    (∀ x ∈ m, x.idx ≤ k) → ascFrom k es → FShape (es.foldl FileStore.append s) (m ++ es) := by
  induction es with
  | nil => intro s m k h _ _; simpa using h
  | cons e r ih =>
    intro s m k h hk ha
    obtain ⟨h1, h2⟩ := ha
    have hs := shape_append (e := e) h (fun x hx => by have := hk x hx; omega)
    have := ih (s := s.append e) (m := m ++ [e]) (k := e.idx) hs (by
      intro x hx
      rcases List.mem_append.mp hx with hx | hx
      · have := hk x hx; omega
      · simp at hx; subst hx; omega) h2
    simpa using this

theorem appendAll_last (es : List Ent) (s : FileStore) : (es.foldl FileStore.append s).last = s.last := by
  induction es generalizing s with
  | nil => rfl
  | cons e r ih => simp only [List.foldl_cons, ih]; rfl

theorem shape_cut {s : FileStore} {m : Map} (h : FShape s m) (hs : Sorted m) (f : Nat) :
    FShape (s.cut f) (below m f) := by
  refine ⟨?_, ?_, ?_, ?_⟩
  · simp [FileStore.cut, h.entries]
  · simp only [FileStore.cut, h.endPos, h.recs, endPosBefore_clean hs]
    exact (below_eq_take hs f).symm
  · simp only [FileStore.cut, h.endPos, enumFrom1]
    exact enumAux_filter hs 0 f
  · simp only [FileStore.cut, h.hole, h.endPos, h.recs, endPosBefore_clean hs, Bool.false_or, decide_eq_false_iff_not]
    have : (below m f).length ≤ m.length := List.length_filter_le _ _
    omega

theorem shape_empty : FShape { FileStore.empty with recs := [] } [] := ⟨rfl, rfl, rfl, rfl⟩

theorem shape_load {m : Map} (hs : Sorted m) (hpos : ∀ x ∈ m, 1 ≤ x.idx) : FShape (loadRecs m) m := by
  have h := shape_appendAll (es := m) (k := 0) shape_empty (by simp)
    (ascFrom_of_sorted hs (fun e he => by have := hpos e he; omega))
  simp only [List.nil_append] at h
  exact ⟨h.entries, h.recs, h.endPos, h.hole⟩

/-- Lock-step invariant of the File log store with the reference store. -/
structure FInv (s : FileStore) (r : Ref) : Prop where
  shape : FShape s r.m
  last : s.last = maxKey r.m
  sorted : Sorted r.m
  pos : ∀ x ∈ r.m, 1 ≤ x.idx

theorem finv_empty : FInv FileStore.empty Ref.empty :=
  ⟨⟨rfl, rfl, rfl, rfl⟩, rfl, List.Pairwise.nil, by simp [Ref.empty]⟩

theorem all_pos_of {es : List Ent} (h : es.all (fun e => decide (e.idx ≥ 1)) = true) : ∀ e ∈ es, 1 ≤ e.idx := by
  intro e he
  have := List.all_eq_true.mp h e he
  simpa using this

theorem file_step_inv {s : FileStore} {r : Ref} {op : Op} (h : FInv s r) (hc : appendOnly r op = true) :
    FInv (s.step op) (r.step op) := by
  obtain ⟨hsh, hlast, hsort, hpos⟩ := h
  cases op with
  | persist es =>
    simp only [appendOnly, contract, Bool.and_eq_true] at hc
    obtain ⟨⟨hasc, hall⟩, hfirst⟩ := hc
    cases es with
    | nil => exact ⟨by simpa [FileStore.step, Ref.step, insertAll] using hsh, by simpa [FileStore.step, Ref.step, insertAll] using hlast,
        by simpa [Ref.step, insertAll] using hsort, by simpa [Ref.step, insertAll] using hpos⟩
    | cons e rest =>
      simp only [decide_eq_true_eq] at hfirst
      have ha : ascFrom (maxKey r.m) (e :: rest) :=
        ascFrom_of_ascending hasc (fun e' he' => by simp at he'; subst he'; exact hfirst)
      have hk : ∀ x ∈ r.m, x.idx ≤ maxKey r.m := fun x hx => le_maxKey hx
      have hm : (r.step (.persist (e :: rest))).m = r.m ++ (e :: rest) := by
        simp only [Ref.step]; exact insertAll_append hk ha
      have hsh' := shape_appendAll hsh hk ha
      refine ⟨?_, ?_, ?_, ?_⟩
      · rw [hm]
        exact ⟨by simpa [FileStore.step] using hsh'.entries, by simpa [FileStore.step] using hsh'.recs,
          by simpa [FileStore.step] using hsh'.endPos, by simpa [FileStore.step] using hsh'.hole⟩
      · rw [hm, maxKey_append]
        simp only [FileStore.step, List.isEmpty_cons, Bool.false_eq_true, if_false, batchMax_eq_maxKey,
          appendAll_last, hlast]
      · rw [hm]; exact sorted_append hsort hk ha
      · rw [hm]; intro x hx
        rcases List.mem_append.mp hx with hx | hx
        · exact hpos x hx
        · exact all_pos_of hall x hx
  | truncate f =>
    have hsh' := shape_cut hsh hsort f
    refine ⟨⟨?_, ?_, ?_, ?_⟩, ?_, below_sorted hsort f, fun x hx => hpos x (List.mem_filter.mp hx).1⟩
    · simpa [FileStore.step, Ref.step] using hsh'.entries
    · simpa [FileStore.step, Ref.step] using hsh'.recs
    · simpa [FileStore.step, Ref.step] using hsh'.endPos
    · simpa [FileStore.step, Ref.step] using hsh'.hole
    · simp [FileStore.step, Ref.step, hsh'.entries]
  | replace f es =>
    have hcut := shape_cut hsh hsort f
    simp only [appendOnly, contract, Bool.and_eq_true] at hc
    obtain ⟨hasc, hrest⟩ := hc
    cases es with
    | nil =>
      refine ⟨⟨?_, ?_, ?_, ?_⟩, ?_, by simpa [Ref.step, insertAll] using below_sorted hsort f,
        fun x hx => hpos x (by simp only [Ref.step, insertAll, List.foldl_nil] at hx; exact (List.mem_filter.mp hx).1)⟩
      · simpa [FileStore.step, Ref.step, insertAll] using hcut.entries
      · simpa [FileStore.step, Ref.step, insertAll] using hcut.recs
      · simpa [FileStore.step, Ref.step, insertAll] using hcut.endPos
      · simpa [FileStore.step, Ref.step, insertAll] using hcut.hole
      · simp [FileStore.step, Ref.step, insertAll, hcut.entries]
    | cons e rest =>
      simp only [Bool.and_eq_true, decide_eq_true_eq] at hrest
      obtain ⟨hf, hef⟩ := hrest
      have ha : ascFrom (f - 1) (e :: rest) :=
        ascFrom_of_ascending hasc (fun e' he' => by simp at he'; subst he'; omega)
      have hk : ∀ x ∈ below r.m f, x.idx ≤ f - 1 := below_le hf
      have hm : (r.step (.replace f (e :: rest))).m = below r.m f ++ (e :: rest) := by
        simp only [Ref.step]; exact insertAll_append hk ha
      have hsh' := shape_appendAll hcut hk ha
      refine ⟨?_, ?_, ?_, ?_⟩
      · rw [hm]
        exact ⟨by simpa [FileStore.step] using hsh'.entries, by simpa [FileStore.step] using hsh'.recs,
          by simpa [FileStore.step] using hsh'.endPos, by simpa [FileStore.step] using hsh'.hole⟩
      · rw [hm]; simp only [FileStore.step]; rw [hsh'.entries]
      · rw [hm]; exact sorted_append (below_sorted hsort f) hk ha
      · rw [hm]; intro x hx
        rcases List.mem_append.mp hx with hx | hx
        · exact hpos x (List.mem_filter.mp hx).1
        · have := ascFrom_gt ha x hx; omega
  | purge i t =>
    simp only [appendOnly, contract, Bool.or_eq_true, decide_eq_true_eq] at hc
    refine ⟨⟨?_, ?_, ?_, ?_⟩, ?_, above_sorted hsort i, fun x hx => hpos x (List.mem_filter.mp hx).1⟩
    · simp [FileStore.step, Ref.step, hsh.entries]
    · simp [FileStore.step, Ref.step, hsh.entries]
    · simp [FileStore.step, Ref.step, hsh.entries]
    · simp [FileStore.step, hsh.hole]
    · simp only [FileStore.step, Ref.step, hlast]
      rcases hc with hc | hc
      · have : r.m = [] := by simpa using hc
        simp [this, above]
      · exact (maxKey_above hc).symm
  | reset => exact ⟨⟨rfl, rfl, rfl, by simp [FileStore.step, hsh.hole]⟩, rfl, List.Pairwise.nil, by simp [Ref.step]⟩
  | flush => exact ⟨⟨hsh.entries, hsh.recs, hsh.endPos, hsh.hole⟩, hlast, hsort, hpos⟩
  | reopen =>
    have hl := shape_load hsort hpos
    refine ⟨⟨?_, ?_, ?_, ?_⟩, ?_, hsort, hpos⟩
    · simpa [FileStore.step, Ref.step, hsh.recs] using hl.entries
    · simpa [FileStore.step, Ref.step, hsh.recs] using hl.recs
    · simpa [FileStore.step, Ref.step, hsh.recs] using hl.endPos
    · simp [FileStore.step, hsh.hole]
    · simp [FileStore.step, Ref.step, hsh.recs, loadRecs, batchMax_eq_maxKey]
  | crash =>
    have hl := shape_load hsort hpos
    refine ⟨⟨?_, ?_, ?_, ?_⟩, ?_, hsort, hpos⟩
    · simpa [FileStore.step, Ref.step, hsh.recs] using hl.entries
    · simpa [FileStore.step, Ref.step, hsh.recs] using hl.recs
    · simpa [FileStore.step, Ref.step, hsh.recs] using hl.endPos
    · simp [FileStore.step, hsh.hole]
    · simp [FileStore.step, Ref.step, hsh.recs, loadRecs, batchMax_eq_maxKey]

end DEngine.LogStore

namespace DEngine.LogStore

/-! ## RocksDB store -/

theorem truncKeys_all {cur : Nat} : ∀ {l : Map}, Sorted l → (∀ x ∈ l, x.idx ≤ cur) → truncKeys cur l = l.map (·.idx)
  | [], _, _ => rfl
  | e :: r, hs, hle => by
    have hsr : Sorted r := (List.pairwise_cons.mp hs).2
    have hy : ∀ b ∈ r, e.idx < b.idx := (List.pairwise_cons.mp hs).1
    by_cases hge : e.idx ≥ cur
    · have hr : r = [] := by
        cases r with
        | nil => rfl
        | cons z t =>
          have := hy z (by simp); have := hle z (by simp); have := hle e (by simp); omega
      subst hr; simp [truncKeys, hge]
    · simp only [truncKeys, hge, if_false, List.map_cons]
      rw [truncKeys_all hsr (fun x hx => hle x (List.mem_cons_of_mem _ hx))]

/-- With an accurate cached last index, `truncate(from)` deletes exactly the keys ≥ from. -/
theorem rocks_truncate_db {m : Map} (hs : Sorted m) (f : Nat) :
    m.filter (fun e => !(truncKeys (maxKey m) (m.filter (f ≤ ·.idx))).contains e.idx) = below m f := by
  rw [truncKeys_all (hs.filter _) (fun x hx => le_maxKey (List.mem_filter.mp hx).1)]
  unfold below
  apply List.filter_congr
  intro e he
  by_cases hlt : e.idx < f
  · simp only [hlt, decide_true, Bool.not_eq_eq_eq_not, Bool.not_true, List.contains_eq_mem, List.mem_map,
      List.mem_filter, decide_eq_true_eq, decide_eq_false_iff_not]
    rintro ⟨x, ⟨_, hx⟩, hxe⟩; omega
  · simp only [hlt, decide_false, Bool.not_eq_eq_eq_not, Bool.not_false, List.contains_eq_mem, List.mem_map,
      List.mem_filter, decide_eq_true_eq]
    exact ⟨e, ⟨he, by omega⟩, rfl⟩

structure RInv (s : RocksStore) (r : Ref) : Prop where
  db : s.db = r.m
  last : s.last = maxKey r.m
  boundary : s.boundary = r.boundary
  sorted : Sorted r.m
  pos : ∀ x ∈ r.m, 1 ≤ x.idx

theorem rinv_empty : RInv RocksStore.empty Ref.empty :=
  ⟨rfl, rfl, rfl, List.Pairwise.nil, by simp [Ref.empty]⟩

theorem rocks_step_inv {s : RocksStore} {r : Ref} {op : Op} (h : RInv s r) (hc : contract r op = true) :
    RInv (s.step op) (r.step op) := by
  obtain ⟨hdb, hlast, hb, hsort, hpos⟩ := h
  cases op with
  | persist es =>
    simp only [contract, Bool.and_eq_true] at hc
    obtain ⟨_, hall⟩ := hc
    refine ⟨by simp [RocksStore.step, Ref.step, hdb], ?_, by simp [RocksStore.step, Ref.step, hb], ?_, ?_⟩
    · simp only [RocksStore.step, Ref.step, hlast, batchMax_eq_maxKey, maxKey_insertAll]
    · simp only [Ref.step]; exact sorted_insertAll es hsort
    · simp only [Ref.step]; intro x hx
      rcases mem_insertAll es hx with hx | hx
      · exact all_pos_of hall x hx
      · exact hpos x hx
  | truncate f =>
    simp only [contract] at hc
    refine ⟨?_, ?_, by simp [RocksStore.step, Ref.step, hb], below_sorted hsort f,
      fun x hx => hpos x (List.mem_filter.mp hx).1⟩
    · simp only [RocksStore.step, Ref.step, hdb, hlast]; exact rocks_truncate_db hsort f
    · simp only [RocksStore.step, Ref.step]; exact (maxKey_below_adjacent hpos hc).symm
  | replace f es =>
    simp only [contract, Bool.and_eq_true] at hc
    obtain ⟨hasc, hrest⟩ := hc
    cases es with
    | nil =>
      refine ⟨by simp [RocksStore.step, Ref.step, hdb], ?_, by simp [RocksStore.step, Ref.step, hb],
        by simpa [Ref.step, insertAll] using below_sorted hsort f,
        fun x hx => hpos x (by simp only [Ref.step, insertAll, List.foldl_nil] at hx; exact (List.mem_filter.mp hx).1)⟩
      simp only [RocksStore.step, Ref.step, insertAll, List.foldl_nil, List.getLast?_nil, Option.map_none, Option.getD_none]
      exact (maxKey_below_adjacent hpos hrest).symm
    | cons e rest =>
      simp only [Bool.and_eq_true, decide_eq_true_eq] at hrest
      obtain ⟨hf, hef⟩ := hrest
      have ha : ascFrom (f - 1) (e :: rest) :=
        ascFrom_of_ascending hasc (fun e' he' => by simp at he'; subst he'; omega)
      have hk : ∀ x ∈ below r.m f, x.idx ≤ f - 1 := below_le hf
      have hm : (r.step (.replace f (e :: rest))).m = below r.m f ++ (e :: rest) := by
        simp only [Ref.step]; exact insertAll_append hk ha
      have hsorted : Sorted (below r.m f ++ (e :: rest)) := sorted_append (below_sorted hsort f) hk ha
      refine ⟨by simp [RocksStore.step, Ref.step, hdb], ?_, by simp [RocksStore.step, Ref.step, hb], ?_, ?_⟩
      · rw [hm, ← sorted_maxKey_getLast hsorted]
        simp only [RocksStore.step]
        simp [List.getLast?_append, List.getLast?_cons]
      · rw [hm]; exact hsorted
      · rw [hm]; intro x hx
        rcases List.mem_append.mp hx with hx | hx
        · exact hpos x (List.mem_filter.mp hx).1
        · have := ascFrom_gt ha x hx; omega
  | purge i t =>
    simp only [contract, Bool.or_eq_true, decide_eq_true_eq] at hc
    refine ⟨by simp [RocksStore.step, Ref.step, hdb], ?_, by simp [RocksStore.step, Ref.step], above_sorted hsort i,
      fun x hx => hpos x (List.mem_filter.mp hx).1⟩
    simp only [RocksStore.step, Ref.step, hlast]
    rcases hc with hc | hc
    · have : r.m = [] := by simpa using hc
      simp [this, above]
    · exact (maxKey_above hc).symm
  | reset => exact ⟨rfl, rfl, by simp [RocksStore.step, Ref.step, hb], List.Pairwise.nil, by simp [Ref.step]⟩
  | flush => exact ⟨hdb, hlast, hb, hsort, hpos⟩
  | reopen => exact ⟨hdb, by simp [RocksStore.step, Ref.step, hdb], hb, hsort, hpos⟩
  | crash => exact ⟨hdb, by simp [RocksStore.step, Ref.step, hdb], hb, hsort, hpos⟩

end DEngine.LogStore

namespace DEngine.LogStore

/-! ## File store, in-memory view under the whole contract (re-written / lower indexes included) -/

/-- What a running File store answers from memory. -/
structure LInv (s : FileStore) (r : Ref) : Prop where
  entries : s.entries = r.m
  last : s.last = maxKey r.m

theorem appendAll_entries (es : List Ent) : ∀ (s : FileStore), (es.foldl FileStore.append s).entries = insertAll s.entries es := by
  induction es with
  | nil => intro s; rfl
  | cons e r ih => intro s; simp only [List.foldl_cons, insertAll] at ih ⊢; rw [ih]; rfl

/-- Every op except reopen/crash (which re-read the file) keeps the in-memory view equal to the reference. -/
theorem file_live_step {s : FileStore} {r : Ref} {op : Op} (h : LInv s r) (hc : contract r op = true)
    (hno : op ≠ .reopen ∧ op ≠ .crash) : LInv (s.step op) (r.step op) := by
  obtain ⟨he, hl⟩ := h
  cases op with
  | persist es =>
    cases es with
    | nil => exact ⟨by simpa [FileStore.step, Ref.step, insertAll] using he, by simpa [FileStore.step, Ref.step, insertAll] using hl⟩
    | cons e rest =>
      refine ⟨?_, ?_⟩
      · have := appendAll_entries (e :: rest) s
        simp only [FileStore.step, List.isEmpty_cons, Bool.false_eq_true, if_false, Ref.step]
        rw [this, he]
      · simp only [FileStore.step, List.isEmpty_cons, Bool.false_eq_true, if_false, Ref.step, hl,
          batchMax_eq_maxKey, maxKey_insertAll]
  | truncate f => exact ⟨by simp [FileStore.step, FileStore.cut, Ref.step, he], by simp [FileStore.step, FileStore.cut, Ref.step, he]⟩
  | replace f es =>
    have hent : (es.foldl FileStore.append (s.cut f)).entries = insertAll (below r.m f) es := by
      rw [appendAll_entries]; simp [FileStore.cut, he]
    exact ⟨by simp only [FileStore.step, Ref.step]; exact hent, by simp only [FileStore.step, Ref.step]; rw [hent]⟩
  | purge i t =>
    simp only [contract, Bool.or_eq_true, decide_eq_true_eq] at hc
    refine ⟨by simp [FileStore.step, Ref.step, he], ?_⟩
    simp only [FileStore.step, Ref.step, hl]
    rcases hc with hc | hc
    · have : r.m = [] := by simpa using hc
      simp [this, above]
    · exact (maxKey_above hc).symm
  | reset => exact ⟨rfl, rfl⟩
  | flush => exact ⟨he, hl⟩
  | reopen => exact absurd rfl hno.1
  | crash => exact absurd rfl hno.2

end DEngine.LogStore

namespace DEngine.LogStore

/-! ## File store: the purge boundary follows the reference for EVERY op sequence (no precondition) -/

theorem appendAll_boundary (es : List Ent) : ∀ (s : FileStore), (es.foldl FileStore.append s).boundary = s.boundary := by
  induction es with
  | nil => intro s; rfl
  | cons e r ih => intro s; simp only [List.foldl_cons, ih]; rfl

theorem file_boundary_step (s : FileStore) (r : Ref) (op : Op) (h : s.boundary = r.boundary) :
    (s.step op).boundary = (r.step op).boundary := by
  cases op with
  | persist es =>
    simp only [FileStore.step, Ref.step]
    split
    · exact h
    · simp [appendAll_boundary, h]
  | truncate f => simpa [FileStore.step, FileStore.cut, Ref.step] using h
  | replace f es => simp [FileStore.step, Ref.step, appendAll_boundary, FileStore.cut, h]
  | purge i t => simp [FileStore.step, Ref.step]
  | reset => simpa [FileStore.step, Ref.step] using h
  | flush => simpa [FileStore.step, Ref.step] using h
  | reopen => simpa [FileStore.step, Ref.step] using h
  | crash => simpa [FileStore.step, Ref.step] using h

end DEngine.LogStore
