/-
  C05, towards "a committed entry is held by a majority": soundness of the follower's acknowledgement (since fix c57f05e
  an empty request is acknowledged with (prev_index, prev_term), a non-empty one with its last entry): the acknowledged
  position names an entry of the request (or its prev position) that is in the follower's log after the accept.
-/
import DEngine.Lemmas.ClusterCompleteCore
namespace DEngine.Cluster

theorem entryTerm_some_mem {l : Log} {i t : Nat} (h : entryTerm l i = some t) : ∃ y ∈ l, y.index = i ∧ y.term = t := by
  simp only [entryTerm, entryAt] at h
  cases hf : l.find? (fun e => e.index == i) with
  | none => simp [hf] at h
  | some y =>
    simp [hf] at h
    refine ⟨y, List.mem_of_find?_eq_some hf, ?_, h⟩
    have := List.find?_some hf
    simpa using this

theorem lastLogId_some {l : Log} {mi tm : Nat} (h : lastLogId l = some (mi, tm)) :
    ∃ y ∈ l, y.index = mi ∧ y.term = tm := by
  simp only [lastLogId] at h
  cases hl : l.getLast? with
  | none => simp [hl] at h
  | some y =>
    simp [hl] at h
    exact ⟨y, List.mem_of_getLast? hl, h.1, h.2⟩

/-- an entry of a chain with the index and term of an entry of another chain over the same map is that entry -/
theorem same_entry {g : List GRec} (hg : GFun g) {a b : Log} {pa pta pb ptb : Nat} (ha : ChainFrom g pa pta a)
    (hb : ChainFrom g pb ptb b) {x y : Entry} (hx : x ∈ a) (hy : y ∈ b) (hi : y.index = x.index) (ht : y.term = x.term) :
    y = x := by
  obtain ⟨px, hpx⟩ := mem_chain_rec ha hx
  obtain ⟨py, hpy⟩ := mem_chain_rec hb hy
  exact entry_eq_of_recs hg hpx hpy hi ht

/-- the first entry of the trailing run of the last term -/
theorem lastTermStart_mem {l : Log} (hne : l ≠ []) :
    ∃ v ∈ l, v.index = lastTermStart l ∧ v.term = lastTermOf l := by
  unfold lastTermStart
  have hrev : l.reverse ≠ [] := by simpa using hne
  obtain ⟨h0, tl, htl⟩ := List.exists_cons_of_ne_nil hrev
  have hlast : l.getLast? = some h0 := by
    have : l = (h0 :: tl).reverse := by rw [← htl]; simp
    rw [this]; simp
  have hT : lastTermOf l = h0.term := by simp [lastTermOf, hlast]
  have hne2 : (l.reverse.takeWhile (fun e => e.term == lastTermOf l)) ≠ [] := by
    rw [htl, hT]; simp
  cases hg : (l.reverse.takeWhile (fun e => e.term == lastTermOf l)).getLast? with
  | none => rw [List.getLast?_eq_none_iff] at hg; exact absurd hg hne2
  | some v =>
    have hv := List.mem_of_getLast? hg
    have hp := mem_takeWhile_pred _ _ _ hv
    have hvl : v ∈ l := by
      have := (List.takeWhile_sublist _).subset hv
      simpa using this
    exact ⟨v, hvl, rfl, by simpa using hp⟩

theorem lastLogId_some' {l : Log} {mi tm : Nat} (h : lastLogId l = some (mi, tm)) :
    ∃ y, l.getLast? = some y ∧ y.index = mi ∧ y.term = tm := by
  simp only [lastLogId] at h
  cases hl : l.getLast? with
  | none => simp [hl] at h
  | some y => simp [hl] at h; exact ⟨y, rfl, h.1, h.2⟩

theorem dropWhile_nil_all (p : Entry → Bool) : ∀ (l : Log), l.dropWhile p = [] → ∀ w ∈ l, p w = true := by
  intro l
  induction l with
  | nil => intro _ w hw; simp at hw
  | cons e es ih =>
    intro h w hw
    by_cases hp : p e
    · simp [hp] at h
      rcases List.mem_cons.mp hw with hw | hw
      · subst hw; exact hp
      · exact ih h w hw
    · simp [hp] at h

theorem takeWhile_all (p : Entry → Bool) : ∀ (l : Log), (∀ w ∈ l, p w = true) → l.takeWhile p = l := by
  intro l
  induction l with
  | nil => intro _; rfl
  | cons e es ih =>
    intro h
    have he := h e List.mem_cons_self
    simp [he]
    exact ih (fun w hw => h w (List.mem_cons_of_mem _ hw))

/-- slow path without a diverging position: the whole request is in the log already -/
theorem slow_none_sub {g : List GRec} (hg : GFun g) {l es : Log} {pi pt : Nat} (hl : Chain g l)
    (he : ChainFrom g pi pt es)
    (hnone : es.findIdx? (fun e => e.index > lastIndex l || entryTerm l e.index != some e.term) = none) :
    ∀ y ∈ es, y ∈ l := by
  intro y hy
  rw [List.findIdx?_eq_none_iff] at hnone
  have := hnone y hy
  simp only [Bool.or_eq_false_iff, decide_eq_false_iff_not, bne_eq_false_iff_eq] at this
  obtain ⟨u, hu, hui, hut⟩ := entryTerm_some_mem this.2
  have := same_entry hg he hl hy hu hui hut
  rw [← this]; exact hu

/-- fast path without a tail: the last entry of the request lies in the trailing run of the log's last term -/
theorem fast_last_mem {g : List GRec} (hg : GFun g) (hm : ∀ r ∈ g, r.pred ≤ r.term) {l es : Log} {pi pt : Nat}
    (hl : Chain g l) (he : ChainFrom g pi pt es) (hall : ∀ w ∈ es, w.index ≤ lastIndex l)
    (hsafe : overlapSafe l es = true) {y : Entry} (hy : es.getLast? = some y) : y ∈ l := by
  have hym : y ∈ es := List.mem_of_getLast? hy
  have hlen := lastIndex_chain hl
  have hyle := hall y hym
  have hypos := chainFrom_index_mem he hym
  have hne : l ≠ [] := by
    intro h0; subst h0; simp [lastIndex] at hyle; omega
  obtain ⟨v, hv, hvi, hvt⟩ := lastTermStart_mem hne
  -- the first entry of the request
  cases hes : es with
  | nil => rw [hes] at hym; simp at hym
  | cons f rest =>
    have hf : es.head? = some f := by rw [hes]; rfl
    have hfm : f ∈ es := by rw [hes]; exact List.mem_cons_self
    simp only [overlapSafe, hf, hy, Bool.and_eq_true, decide_eq_true_eq, beq_iff_eq] at hsafe
    obtain ⟨⟨h1, h2⟩, h3⟩ := hsafe
    have hfy : f.index ≤ y.index := by
      have h0 : es[0]? = some f := by rw [hes]; rfl
      have := (chainFrom_get he h0).1
      omega
    -- the entry of l at y's index
    have hu : l[y.index - 1]? = some l[y.index - 1] := by
      rw [List.getElem?_eq_getElem]
    have hul : l[y.index - 1] ∈ l := List.getElem_mem _
    have hui := chain_index hl hu
    -- last entry of l
    cases hlz : l.getLast? with
    | none => rw [List.getLast?_eq_none_iff] at hlz; exact absurd hlz hne
    | some lz =>
      have hlzm := List.mem_of_getLast? hlz
      have hT : lastTermOf l = lz.term := by simp [lastTermOf, hlz]
      have hlzi : lz.index = l.length := by
        have := hlen; simp only [lastIndex, hlz] at this; exact this
      have hle1 : v.term ≤ (l[y.index - 1]).term := chain_mono hm hl hv hul (by omega)
      have hle2 : (l[y.index - 1]).term ≤ lz.term := chain_mono hm hl hul hlzm (by omega)
      have hterm : (l[y.index - 1]).term = y.term := by omega
      have := same_entry hg he hl hym hul (by omega) hterm
      rw [← this]; exact hul

theorem acceptOrKeep_ack {g : List GRec} (hg : GFun g) (hm : ∀ r ∈ g, r.pred ≤ r.term) {l : Log} {r : AeReq}
    (hl : Chain g l) (he : ChainFrom g r.prevI r.prevT r.entries) (hprev : PrevMatch l r) {mi tm : Nat}
    (h : (acceptOrKeep l r).2.1 = some (mi, tm)) :
    ∃ y ∈ (acceptOrKeep l r).1, y.index = mi ∧ y.term = tm ∧
      (y ∈ r.entries ∨ (r.entries = [] ∧ y.index = r.prevI ∧ y.term = r.prevT)) := by
  unfold acceptOrKeep at h ⊢
  split
  · next hemp =>
    rw [if_pos hemp] at h
    simp only [] at h
    split at h
    · next hpos =>
      cases h
      rcases hprev with ⟨h0, _⟩ | hp
      · omega
      · obtain ⟨y, hy, hyi, hyt⟩ := entryTerm_some_mem hp
        exact ⟨y, hy, hyi, hyt, Or.inr ⟨by simpa using hemp, hyi, hyt⟩⟩
    · cases h
  · next hemp =>
    rw [if_neg hemp] at h
    simp only [] at h ⊢
    unfold acceptEntries at h ⊢
    split
    · -- reset
      next h0 =>
      rw [if_pos h0] at h
      obtain ⟨y, hy, hyi, hyt⟩ := lastLogId_some h
      exact ⟨y, hy, hyi, hyt, Or.inl hy⟩
    · next h0 =>
      rw [if_neg h0] at h
      split
      · next hmis =>
        exfalso
        rcases hprev with ⟨h1, h2⟩ | hp
        · simp [h1, h2] at h0
        · simp [hp] at hmis
      · next hmis =>
        rw [if_neg hmis] at h
        dsimp only at h ⊢
        have hlen := lastIndex_chain hl
        split
        · next hsafe =>
          rw [if_pos hsafe] at h
          split
          · -- fast path, nothing new
            next htail =>
            rw [if_pos htail] at h
            obtain ⟨y, hylast, hyi, hyt⟩ := lastLogId_some' h
            have hy := List.mem_of_getLast? hylast
            refine ⟨y, ?_, hyi, hyt, Or.inl hy⟩
            have hall : ∀ w ∈ r.entries, w.index ≤ lastIndex l := by
              intro w hw
              have hd : r.entries.dropWhile (fun e => decide (e.index ≤ lastIndex l)) = [] := by simpa using htail
              simpa using dropWhile_nil_all _ _ hd w hw
            have hov : r.entries.takeWhile (fun e => decide (e.index ≤ lastIndex l)) = r.entries :=
              takeWhile_all _ _ (fun w hw => by simpa using hall w hw)
            rw [hov] at hsafe
            exact fast_last_mem hg hm hl he hall hsafe hylast
          · next htail =>
            rw [if_neg htail] at h
            obtain ⟨y, hy, hyi, hyt⟩ := lastLogId_some h
            exact ⟨y, List.mem_append_right _ hy, hyi, hyt, Or.inl (List.dropWhile_subset _ hy)⟩
        · next hsafe =>
          rw [if_neg hsafe] at h
          split
          · next hnone =>
            rw [hnone] at h
            simp only [] at h
            obtain ⟨y, hy, hyi, hyt⟩ := lastLogId_some h
            exact ⟨y, slow_none_sub hg hl he hnone y hy, hyi, hyt, Or.inl hy⟩
          · next pos hpos =>
            rw [hpos] at h
            simp only [] at h
            have hsnd : ∀ (d : Nat), ((if d ≤ lastIndex l then
                  (l.filter (fun e => decide (e.index < d)) ++ r.entries.drop pos, lastLogId (r.entries.drop pos),
                    AcceptPath.slowConflict)
                else (l ++ r.entries.drop pos, lastLogId (r.entries.drop pos), AcceptPath.slowAppend)) :
                  Log × Option (Nat × Nat) × AcceptPath).2.1 = lastLogId (r.entries.drop pos) := by
              intro d; split <;> rfl
            rw [hsnd] at h
            obtain ⟨y, hy, hyi, hyt⟩ := lastLogId_some h
            refine ⟨y, ?_, hyi, hyt, Or.inl (List.drop_subset _ _ hy)⟩
            split <;> (try split) <;> exact List.mem_append_right _ hy

end DEngine.Cluster
