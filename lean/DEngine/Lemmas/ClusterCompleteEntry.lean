/-
  C05, towards leader completeness: where the entries of a node's log after a step come from (`entry_step`).
-/
import DEngine.Lemmas.ClusterCompleteNode
namespace DEngine.Cluster

/-- new entries are entries the node created as leader in its own term -/
def OwnNew (n n' : Node) : Prop := ∀ x ∈ n'.log, x ∈ n.log ∨ (x.term = n'.term ∧ n'.role = .leader)

theorem ownNew_refl (n : Node) : OwnNew n n := fun _ hx => Or.inl hx

theorem ownNew_of_log {n n' : Node} (h : n'.log = n.log) : OwnNew n n' := fun x hx => Or.inl (h ▸ hx)

theorem replicate_ownNew (me : NodeId) (n : Node) (p : Option Nat) (cap sid : Nat) (hrole : n.role = .leader) :
    OwnNew n (replicate me n p cap sid).1 := by
  obtain ⟨hl, hr, ht⟩ := replicate_spec me n p cap sid
  intro x hx
  rw [hl] at hx
  rcases List.mem_append.mp hx with h | h
  · exact Or.inl h
  · right
    rw [ht, hr]
    refine ⟨?_, hrole⟩
    cases p with
    | none => simp [newEntries] at h
    | some v => simp [newEntries] at h; subst h; rfl

theorem entry_step (c : Cluster) (e : Event) (j : NodeId) :
    OwnNew (c.nodes j) ((step c e).1.nodes j) ∨
    (∃ m src sid r rp, e = .deliverAe m ∧ findMsg c m = some (.ae src j sid r rp) ∧ (c.nodes j).ready = true ∧
      (step c e).1.nodes j = (onAppendEntries (c.nodes j) r).1) := by
  have R := ownNew_refl
  cases e with
  | tick i =>
    left
    simp only [step]; unfold stepTick; dsimp only
    split
    · exact R _
    · split
      · (refine upd1 (P := OwnNew) R ?_ j; exact ownNew_of_log rfl)
      · split
        · exact R _
        · (refine upd1 (P := OwnNew) R ?_ j; exact ownNew_of_log (by simp [startElection]))
      · next hrole =>
        rw [leaderRound_node]; split
        · next hj => subst hj; exact replicate_ownNew _ _ _ _ _ hrole
        · exact R _
  | voteReq a b =>
    left
    simp only [step]; unfold stepVoteReq; dsimp only
    split
    · split
      · exact R _
      · show OwnNew _ (setNode (setNode c.nodes b _) a _ j)
        by_cases hja : j = a
        · subst hja
          simp only [setNode_same]
          exact ownNew_of_log rfl
        · rw [setNode_other _ _ hja]
          (refine upd1 (P := OwnNew) R ?_ j; exact ownNew_of_log (onVoteRequest_log _ _))
    · exact R _
  | voteResp a b =>
    left
    simp only [step]; unfold stepVoteResp; dsimp only
    split
    · split
      · split
        · exact R _
        · (refine upd1 (P := OwnNew) R ?_ j; exact ownNew_of_log rfl)
      · exact R _
    · exact R _
  | voteEnd i =>
    left
    simp only [step]; unfold stepVoteEnd; dsimp only
    split
    · split
      · exact R _
      · split
        · rw [leaderRound_node]; split
          · next hj =>
            subst hj
            have := replicate_ownNew j (asLeader j c.n (c.nodes j)) (some 0) c.cap c.nextSid rfl
            exact this
          · exact R _
        · (refine upd1 (P := OwnNew) R ?_ j; exact ownNew_of_log (becomeFollower_spec _).2.1)
        · (refine upd1 (P := OwnNew) R ?_ j; exact ownNew_of_log rfl)
        · (refine upd1 (P := OwnNew) R ?_ j; exact ownNew_of_log rfl)
    · exact R _
  | write i w =>
    left
    simp only [step]; unfold stepWrite; dsimp only
    split
    · exact R _
    · split
      · next hrole =>
        simp at hrole
        show OwnNew _ (setNode (leaderRound c i (c.nodes i) (some (w + 1))).nodes i _ j)
        by_cases hj : j = i
        · subst hj; simp only [setNode_same]
          rw [leaderRound_node, if_pos rfl]
          have := replicate_ownNew j (c.nodes j) (some (w + 1)) c.cap c.nextSid hrole
          exact this
        · rw [setNode_other _ _ hj, leaderRound_node, if_neg hj]; exact R _
      · exact R _
  | deliverAe m =>
    simp only [step]; unfold stepDeliverAe; dsimp only
    split
    · next src dst sid req reply hfm =>
      split
      · left; exact R _
      · next hen =>
        have hready : (c.nodes dst).ready = true := by
          cases hr : (c.nodes dst).ready
          · simp [hr] at hen
          · rfl
        by_cases hj : j = dst
        · subst hj
          right
          refine ⟨m, src, sid, req, reply, rfl, hfm, hready, ?_⟩
          split
          · show setNode (removeMsg c m).nodes j _ j = _; simp [removeMsg]
          · show setNode (removeMsg c m).nodes j _ j = _; simp [removeMsg]
        · left
          split
          · show OwnNew _ (setNode (removeMsg c m).nodes dst _ j); rw [setNode_other _ _ hj]; exact R _
          · show OwnNew _ (setNode (removeMsg c m).nodes dst _ j); rw [setNode_other _ _ hj]; exact R _
    · left; exact R _
  | deliverResp m =>
    left
    simp only [step]; unfold stepDeliverResp; dsimp only
    split
    · split
      · exact R _
      · split
        · exact R _
        · rw [recordCommit_nodes]
          (refine upd1 (P := OwnNew) (f := (removeMsg c m).nodes) R ?_ j; exact ownNew_of_log (onAppendResponse_log _ _ _ _))
    · exact R _
  | drop m => left; exact R _
  | dup m =>
    left
    simp only [step]; unfold stepDup; (try dsimp only)
    split <;> exact R _
  | streamErr l p =>
    left
    simp only [step]; unfold stepStreamErr; dsimp only
    split
    · exact R _
    · split
      · split
        · exact R _
        · (refine upd1 (P := OwnNew) R ?_ j; exact ownNew_of_log rfl)
      · exact R _
  | streamClosed l p =>
    left
    simp only [step]; unfold stepStreamClosed; dsimp only
    split
    · exact R _
    · split
      · split
        · exact R _
        · (refine upd1 (P := OwnNew) R ?_ j; exact ownNew_of_log rfl)
      · exact R _
  | logFlushed i =>
    left
    simp only [step]; unfold stepLogFlushed; dsimp only
    split
    · exact R _
    · split
      · rw [recordCommit_nodes]
        (refine upd1 (P := OwnNew) R ?_ j; exact ownNew_of_log (onLogFlushed_log _))
      · (refine upd1 (P := OwnNew) R ?_ j; exact ownNew_of_log rfl)
  | applyCompleted i k =>
    left
    simp only [step]; unfold stepApplyCompleted; dsimp only
    split
    · exact R _
    · split
      · (refine upd1 (P := OwnNew) R ?_ j; exact ownNew_of_log rfl)
      · exact R _
  | crash i k =>
    left
    simp only [step]; unfold stepDown'; dsimp only
    split
    · exact R _
    · split
      · exact R _
      · refine upd1 (P := OwnNew) R ?_ j
        intro x hx
        simp only [downNode] at hx
        exact Or.inl (List.mem_filter.mp hx).1
  | stop i =>
    left
    simp only [step]; unfold stepDown'; dsimp only
    split
    · exact R _
    · split
      · exact R _
      · (refine upd1 (P := OwnNew) R ?_ j; exact ownNew_of_log (by simp [downNode]))
  | start i =>
    left
    simp only [step]; unfold stepStart; (try dsimp only)
    split
    · exact R _
    · (refine upd1 (P := OwnNew) R ?_ j; exact ownNew_of_log rfl)
  | nop => left; exact R _

end DEngine.Cluster
