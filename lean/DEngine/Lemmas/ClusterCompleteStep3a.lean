/-
  C05, leader completeness: small facts needed for the preservation of the core fields of `HInv`.
-/
import DEngine.Lemmas.ClusterCompleteStep2
namespace DEngine.Cluster

theorem recordCommit_n (c : Cluster) (i : NodeId) (b : Nat) : (recordCommit c i b).n = c.n := by
  unfold recordCommit; split <;> rfl

theorem step_n (c : Cluster) (e : Event) : (step c e).1.n = c.n := by
  cases e with
  | tick i => simp only [step]; unfold stepTick; dsimp only; split <;> (try split) <;> (try split) <;> rfl
  | voteReq a b => simp only [step]; unfold stepVoteReq; dsimp only; split <;> (try split) <;> rfl
  | voteResp a b => simp only [step]; unfold stepVoteResp; dsimp only; split <;> (try split) <;> (try split) <;> rfl
  | voteEnd i => simp only [step]; unfold stepVoteEnd; dsimp only; split <;> (try split) <;> (try split) <;> rfl
  | write i x => simp only [step]; unfold stepWrite; dsimp only; split <;> (try split) <;> rfl
  | deliverAe m => simp only [step]; unfold stepDeliverAe; dsimp only; split <;> (try split) <;> (try split) <;> rfl
  | deliverResp m =>
    simp only [step]; unfold stepDeliverResp; dsimp only
    split <;> (try split) <;> (try split) <;> first | rfl | (rw [recordCommit_n]; rfl)
  | drop m => rfl
  | dup m => simp only [step]; unfold stepDup; (try dsimp only); split <;> rfl
  | streamErr l p => simp only [step]; unfold stepStreamErr; dsimp only; split <;> (try split) <;> (try split) <;> rfl
  | streamClosed l p => simp only [step]; unfold stepStreamClosed; dsimp only; split <;> (try split) <;> (try split) <;> rfl
  | logFlushed i =>
    simp only [step]; unfold stepLogFlushed; dsimp only
    split <;> (try split) <;> first | rfl | (rw [recordCommit_n])
  | applyCompleted i k => simp only [step]; unfold stepApplyCompleted; dsimp only; split <;> (try split) <;> rfl
  | crash i k => simp only [step]; unfold stepDown'; dsimp only; split <;> (try split) <;> rfl
  | stop i => simp only [step]; unfold stepDown'; dsimp only; split <;> (try split) <;> rfl
  | start i => simp only [step]; unfold stepStart; (try dsimp only); split <;> rfl
  | nop => rfl

theorem voteDecision_recent (n : Node) (r : VoteReq) (h : (voteDecision n r).1 = true) :
    moreRecent (lastPair n.log).1 (lastPair n.log).2 r.lastIdx r.lastTerm = true := by
  unfold voteDecision at h
  simp only [] at h
  split at h
  · simp at h
  · split at h
    · simp at h
    · next h2 => simp at h2; exact h2

/-- a granted vote: the candidate's log is at least as up-to-date as the voter's -/
theorem onVoteRequest_recent (n : Node) (r : VoteReq) (h : (onVoteRequest n r).2.1.granted = true) :
    moreRecent (lastPair n.log).1 (lastPair n.log).2 r.lastIdx r.lastTerm = true := by
  unfold onVoteRequest at h
  cases hr : n.role with
  | follower => simp only [hr] at h; exact voteDecision_recent n r h
  | candidate =>
    simp only [hr] at h
    by_cases hc : voteRequestLegal n r = true
    · rw [if_pos hc] at h
      have := voteDecision_recent _ r h
      rw [(becomeFollower_spec _).2.1] at this; exact this
    · rw [if_neg hc] at h; simp [denied] at h
  | leader =>
    simp only [hr] at h
    by_cases hc : n.term < r.term
    · rw [if_pos hc] at h
      have := voteDecision_recent _ r h
      rw [(becomeFollower_spec _).2.1] at this; exact this
    · rw [if_neg hc] at h; simp [denied] at h

theorem followerAppend_vote (n : Node) (r : AeReq) (last : Option (Nat × Nat))
    (h : (followerAppend n r).2.2.1 = .success last) : (followerAppend n r).1.vote = some ⟨r.leader, r.term, true⟩ := by
  unfold followerAppend at h ⊢
  split
  · next hs => rw [if_pos hs] at h; cases h
  · next hs =>
    rw [if_neg hs] at h
    cases hc : checkAppendLegal n.term n.log r with
    | conflict t i => simp only [hc] at h; cases h
    | higher t => simp only [hc] at h; cases h
    | success l => rfl

/-- a node that answers an AppendEntries request with success has recorded the sender as the leader of the term -/
theorem onAppendEntries_vote (n : Node) (r : AeReq) (last : Option (Nat × Nat))
    (h : (onAppendEntries n r).2.2.1 = .success last) : (onAppendEntries n r).1.vote = some ⟨r.leader, r.term, true⟩ := by
  unfold onAppendEntries at h ⊢
  cases hr : n.role with
  | follower => simp only [hr] at h ⊢; exact followerAppend_vote n r last h
  | candidate =>
    simp only [hr] at h ⊢
    by_cases hc : r.term ≥ n.term
    · rw [if_pos hc] at h ⊢; exact followerAppend_vote _ r last h
    · rw [if_neg hc] at h; cases h
  | leader =>
    simp only [hr] at h ⊢
    by_cases hc : n.term ≥ r.term
    · rw [if_pos hc] at h; cases h
    · rw [if_neg hc] at h ⊢; exact followerAppend_vote _ r last h

end DEngine.Cluster
