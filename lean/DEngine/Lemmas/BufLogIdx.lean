import DEngine.Lemmas.BufLogList
/-!
  `term_first_index` / `term_last_index`: exactness (`= first / last index carrying that term`) is preserved by
  tail appends (`update_term_indexes`) and by `remove_range`'s targeted fix-up.
-/
namespace DEngine.BufLog

/-- first index carrying term `t` -/
def fstOf (m : List Entry) (t : Nat) : Option Nat := (m.find? (fun e => e.term == t)).map (·.index)
/-- last index carrying term `t` -/
def lstOf (m : List Entry) (t : Nat) : Option Nat := (m.reverse.find? (fun e => e.term == t)).map (·.index)

def TfExact (m : List Entry) (tf : List (Nat × Nat)) : Prop := ∀ t, amGet tf t = fstOf m t
def TlExact (m : List Entry) (tl : List (Nat × Nat)) : Prop := ∀ t, amGet tl t = lstOf m t

theorem find?_congr' {α : Type} {l : List α} {p q : α → Bool} (h : ∀ x ∈ l, p x = q x) : l.find? p = l.find? q := by
  induction l with
  | nil => rfl
  | cons x xs ih =>
    simp only [List.find?_cons, h x (by simp)]
    rw [ih (fun y hy => h y (List.mem_cons_of_mem _ hy))]

/-! ### association lists -/

theorem amGet_amErase_same (m : List (Nat × Nat)) (k : Nat) : amGet (amErase m k) k = none := by
  simp only [amGet, amErase, Option.map_eq_none_iff, List.find?_eq_none, List.mem_filter]
  intro x hx
  simpa using hx.2

theorem amGet_amErase_other (m : List (Nat × Nat)) {k k' : Nat} (h : k' ≠ k) : amGet (amErase m k) k' = amGet m k' := by
  simp only [amGet, amErase, List.find?_filter]
  congr 1
  apply find?_congr'
  intro x _
  by_cases hx : x.1 = k'
  · simp [hx, h]
  · simp [hx]

theorem amGet_amSet_same (m : List (Nat × Nat)) (k v : Nat) : amGet (amSet m k v) k = some v := by
  simp [amGet, amSet]

theorem amGet_amSet_other (m : List (Nat × Nat)) {k k' : Nat} (v : Nat) (h : k' ≠ k) :
    amGet (amSet m k v) k' = amGet m k' := by
  have hne : (k == k') = false := by simpa using (fun e : k = k' => h e.symm)
  simp only [amSet, amGet, List.find?_cons, hne]
  exact amGet_amErase_other m h

/-! ### tail append -/

theorem fstOf_snoc (m : List Entry) (e : Entry) (t : Nat) :
    fstOf (m ++ [e]) t = match fstOf m t with | some v => some v | none => if e.term = t then some e.index else none := by
  simp only [fstOf, List.find?_append, List.find?_cons, List.find?_nil]
  cases h : m.find? (fun e => e.term == t) with
  | some x => simp
  | none =>
    by_cases he : e.term = t
    · simp [he]
    · have : (e.term == t) = false := by simpa using he
      simp [he, this]

theorem lstOf_snoc (m : List Entry) (e : Entry) (t : Nat) :
    lstOf (m ++ [e]) t = if e.term = t then some e.index else lstOf m t := by
  simp only [lstOf, List.reverse_append, List.reverse_cons, List.reverse_nil, List.nil_append, List.singleton_append,
    List.find?_cons]
  by_cases he : e.term = t
  · simp [he]
  · have : (e.term == t) = false := by simpa using he
    simp [he, this]

theorem fstOf_mem {m : List Entry} {t v : Nat} (h : fstOf m t = some v) : ∃ e ∈ m, e.index = v ∧ e.term = t := by
  simp only [fstOf, Option.map_eq_some_iff] at h
  obtain ⟨e, he, hv⟩ := h
  exact ⟨e, List.mem_of_find?_eq_some he, hv, by simpa using List.find?_some he⟩

theorem lstOf_mem {m : List Entry} {t v : Nat} (h : lstOf m t = some v) : ∃ e ∈ m, e.index = v ∧ e.term = t := by
  simp only [lstOf, Option.map_eq_some_iff] at h
  obtain ⟨e, he, hv⟩ := h
  exact ⟨e, by simpa using List.mem_of_find?_eq_some he, hv, by simpa using List.find?_some he⟩

theorem exact_snoc {m : List Entry} {tf tl : List (Nat × Nat)} (hf : TfExact m tf) (hl : TlExact m tl) {e : Entry}
    (habove : ∀ x ∈ m, x.index < e.index) :
    TfExact (m ++ [e]) (updTermIdx1 tf tl e).1 ∧ TlExact (m ++ [e]) (updTermIdx1 tf tl e).2 := by
  constructor
  · intro t
    rw [fstOf_snoc]
    simp only [updTermIdx1]
    by_cases ht : t = e.term
    · subst ht
      rw [amGet_amSet_same, hf]
      cases hv : fstOf m e.term with
      | none => simp
      | some v =>
        obtain ⟨x, hx, hxi, _⟩ := fstOf_mem hv
        have := habove x hx
        simp only [Option.some.injEq]
        omega
    · rw [amGet_amSet_other _ _ ht, hf]
      have : ¬ e.term = t := fun h => ht h.symm
      cases fstOf m t <;> simp [this]
  · intro t
    rw [lstOf_snoc]
    simp only [updTermIdx1]
    by_cases ht : t = e.term
    · subst ht
      rw [amGet_amSet_same, hl]
      simp only [if_true]
      cases hv : lstOf m e.term with
      | none => simp
      | some v =>
        obtain ⟨x, hx, hxi, _⟩ := lstOf_mem hv
        have := habove x hx
        simp only [Option.some.injEq]
        omega
    · rw [amGet_amSet_other _ _ ht, hl]
      have : ¬ e.term = t := fun h => ht h.symm
      simp [this]

theorem exact_append {m : List Entry} {tf tl : List (Nat × Nat)} {k : Nat} {es : List Entry}
    (hf : TfExact m tf) (hl : TlExact m tl) (habove : ∀ x ∈ m, x.index < k) (hc : contigFrom k es = true) :
    TfExact (m ++ es) (updTermIdx tf tl es).1 ∧ TlExact (m ++ es) (updTermIdx tf tl es).2 := by
  induction es generalizing m tf tl k with
  | nil => simpa [updTermIdx] using ⟨hf, hl⟩
  | cons e es ih =>
    simp only [contigFrom_cons, Bool.and_eq_true, beq_iff_eq] at hc
    have h1 := exact_snoc hf hl (e := e) (fun x hx => by have := habove x hx; omega)
    have := ih (m := m ++ [e]) h1.1 h1.2 (k := k + 1)
      (by intro x hx
          rcases List.mem_append.mp hx with hx | hx
          · have := habove x hx; omega
          · simp at hx; subst hx; omega) hc.2
    simpa [updTermIdx] using this

/-! ### removal -/

theorem find?_filter_of_first {m : List Entry} {p q : Entry → Bool} {f : Entry}
    (h : m.find? p = some f) (hq : q f = true) : (m.filter q).find? p = some f := by
  induction m with
  | nil => simp at h
  | cons x xs ih =>
    simp only [List.find?_cons] at h
    by_cases hp : p x = true
    · simp only [hp] at h
      cases h
      simp [List.filter_cons, hq, hp]
    · have hp' : p x = false := by simpa using hp
      simp only [hp'] at h
      by_cases hqx : q x = true
      · simp [List.filter_cons, hqx, hp', ih h]
      · simp [List.filter_cons, hqx, ih h]

theorem find?_filter_none {m : List Entry} {p q : Entry → Bool} (h : m.find? p = none) : (m.filter q).find? p = none := by
  simp only [List.find?_eq_none, List.mem_filter] at h ⊢
  intro x hx
  exact h x hx.1

/-- one step of the fix-up touches only its own term -/
theorem fixFirst_other (mem' removed : List Entry) (tf : List (Nat × Nat)) {t t' : Nat} (h : t' ≠ t) :
    amGet (Buf.fixFirst mem' removed tf t) t' = amGet tf t' := by
  unfold Buf.fixFirst
  split
  · split
    · split
      · exact amGet_amSet_other _ _ h
      · exact amGet_amErase_other _ h
    · rfl
  · rfl

theorem fixLast_other (mem' removed : List Entry) (tl : List (Nat × Nat)) {t t' : Nat} (h : t' ≠ t) :
    amGet (Buf.fixLast mem' removed tl t) t' = amGet tl t' := by
  unfold Buf.fixLast
  split
  · split
    · split
      · exact amGet_amSet_other _ _ h
      · exact amGet_amErase_other _ h
    · rfl
  · rfl

/-- … and leaves its own term exact for the remaining entries, whether the stored value was exact for the old
    entries or already exact for the remaining ones -/
theorem fixFirst_same (m : List Entry) (rm : Entry → Bool) (tf : List (Nat × Nat)) (t : Nat)
    (h : amGet tf t = fstOf m t ∨ amGet tf t = fstOf (m.filter (fun e => !rm e)) t) :
    amGet (Buf.fixFirst (m.filter (fun e => !rm e)) (m.filter rm) tf t) t = fstOf (m.filter (fun e => !rm e)) t := by
  have recompute : ∀ tf : List (Nat × Nat),
      amGet (match (m.filter (fun e => !rm e)).find? (fun e => e.term == t) with
        | some e => amSet tf t e.index
        | none => amErase tf t) t = fstOf (m.filter (fun e => !rm e)) t := by
    intro tf
    unfold fstOf
    cases (m.filter (fun e => !rm e)).find? (fun e => e.term == t) with
    | some e => simp [amGet_amSet_same]
    | none => simp [amGet_amErase_same]
  unfold Buf.fixFirst
  cases hcur : amGet tf t with
  | none =>
    -- nothing stored: no entry of that term before, none after
    simp only
    rcases h with h | h
    · rw [hcur] at h
      have : m.find? (fun e => e.term == t) = none := by
        simpa [fstOf] using h.symm
      simp [fstOf, find?_filter_none this, hcur]
    · rw [← h, hcur]
  | some cur =>
    cases hr : (m.filter rm).find? (fun e => e.term == t) with
    | none =>
      -- no removed entry of that term: the first one is still there
      simp only [hcur]
      rcases h with h | h
      · rw [hcur] at h
        obtain ⟨f, hf, _⟩ := Option.map_eq_some_iff.mp h.symm
        have hnr : rm f = false := by
          cases hc : rm f with
          | false => rfl
          | true =>
            have := find?_filter_of_first hf hc
            rw [hr] at this; cases this
        have := find?_filter_of_first (q := fun e => !rm e) hf (by simp [hnr])
        rw [h]; simp [fstOf, this, hf]
      · rw [← hcur]; exact h
    | some rmin =>
      simp only
      by_cases hle : rmin.index ≤ cur
      · simp only [hle, if_true]; exact recompute tf
      · simp only [hle, if_false, hcur]
        rcases h with h | h
        · rw [hcur] at h
          obtain ⟨f, hf, hfi⟩ := Option.map_eq_some_iff.mp h.symm
          have hnr : rm f = false := by
            cases hc : rm f with
            | false => rfl
            | true =>
              have := find?_filter_of_first hf hc
              rw [hr] at this; cases this
              omega
          have := find?_filter_of_first (q := fun e => !rm e) hf (by simp [hnr])
          simp [fstOf, this, hfi]
        · rw [← h, hcur]

theorem fixLast_same (m : List Entry) (rm : Entry → Bool) (tl : List (Nat × Nat)) (t : Nat)
    (h : amGet tl t = lstOf m t ∨ amGet tl t = lstOf (m.filter (fun e => !rm e)) t) :
    amGet (Buf.fixLast (m.filter (fun e => !rm e)) (m.filter rm) tl t) t = lstOf (m.filter (fun e => !rm e)) t := by
  have recompute : ∀ tl : List (Nat × Nat),
      amGet (match (m.filter (fun e => !rm e)).reverse.find? (fun e => e.term == t) with
        | some e => amSet tl t e.index
        | none => amErase tl t) t = lstOf (m.filter (fun e => !rm e)) t := by
    intro tl
    unfold lstOf
    cases (m.filter (fun e => !rm e)).reverse.find? (fun e => e.term == t) with
    | some e => simp [amGet_amSet_same]
    | none => simp [amGet_amErase_same]
  unfold Buf.fixLast
  cases hcur : amGet tl t with
  | none =>
    simp only
    rcases h with h | h
    · rw [hcur] at h
      have : m.reverse.find? (fun e => e.term == t) = none := by
        simpa [lstOf] using h.symm
      have := find?_filter_none (q := fun e => !rm e) this
      rw [List.filter_reverse] at this
      simp [lstOf, this, hcur]
    · rw [← h, hcur]
  | some cur =>
    cases hr : (m.filter rm).reverse.find? (fun e => e.term == t) with
    | none =>
      simp only [hcur]
      rcases h with h | h
      · rw [hcur] at h
        obtain ⟨f, hf, _⟩ := Option.map_eq_some_iff.mp h.symm
        have hnr : rm f = false := by
          cases hc : rm f with
          | false => rfl
          | true =>
            have := find?_filter_of_first hf hc
            rw [List.filter_reverse, hr] at this; cases this
        have := find?_filter_of_first (q := fun e => !rm e) hf (by simp [hnr])
        rw [List.filter_reverse] at this
        rw [h]; simp [lstOf, this, hf]
      · rw [← hcur]; exact h
    | some rmax =>
      simp only
      by_cases hle : cur ≤ rmax.index
      · simp only [hle, if_true]; exact recompute tl
      · simp only [hle, if_false, hcur]
        rcases h with h | h
        · rw [hcur] at h
          obtain ⟨f, hf, hfi⟩ := Option.map_eq_some_iff.mp h.symm
          have hnr : rm f = false := by
            cases hc : rm f with
            | false => rfl
            | true =>
              have := find?_filter_of_first hf hc
              rw [List.filter_reverse, hr] at this; cases this
              omega
          have := find?_filter_of_first (q := fun e => !rm e) hf (by simp [hnr])
          rw [List.filter_reverse] at this
          simp [lstOf, this, hfi]
        · rw [← h, hcur]

/-- no entry of term `t` removed ⇒ first / last index of `t` unchanged -/
theorem fstOf_filter_of_not_removed {m : List Entry} {rm : Entry → Bool} {t : Nat}
    (h : ∀ e ∈ m, rm e = true → e.term ≠ t) : fstOf (m.filter (fun e => !rm e)) t = fstOf m t := by
  unfold fstOf
  rw [List.find?_filter]
  congr 1
  apply find?_congr'
  intro x hx
  by_cases hr : rm x = true
  · have := h x hx hr
    simp [hr, this]
  · have hr' : rm x = false := by simpa using hr
    by_cases hxt : x.term = t <;> simp [hr', hxt]

theorem lstOf_filter_of_not_removed {m : List Entry} {rm : Entry → Bool} {t : Nat}
    (h : ∀ e ∈ m, rm e = true → e.term ≠ t) : lstOf (m.filter (fun e => !rm e)) t = lstOf m t := by
  unfold lstOf
  rw [← List.filter_reverse, List.find?_filter]
  congr 1
  apply find?_congr'
  intro x hx
  by_cases hr : rm x = true
  · have := h x (by simpa using hx) hr
    simp [hr, this]
  · have hr' : rm x = false := by simpa using hr
    by_cases hxt : x.term = t <;> simp [hr', hxt]

theorem foldl_fixFirst (m : List Entry) (rm : Entry → Bool) (ts : List Nat) (tf : List (Nat × Nat))
    (h : ∀ t, amGet tf t = fstOf m t ∨ amGet tf t = fstOf (m.filter (fun e => !rm e)) t) :
    (∀ t, amGet (ts.foldl (Buf.fixFirst (m.filter (fun e => !rm e)) (m.filter rm)) tf) t = fstOf m t ∨
          amGet (ts.foldl (Buf.fixFirst (m.filter (fun e => !rm e)) (m.filter rm)) tf) t = fstOf (m.filter (fun e => !rm e)) t) ∧
    (∀ t ∈ ts, amGet (ts.foldl (Buf.fixFirst (m.filter (fun e => !rm e)) (m.filter rm)) tf) t = fstOf (m.filter (fun e => !rm e)) t) := by
  induction ts generalizing tf with
  | nil => exact ⟨by simpa using h, by simp⟩
  | cons a ts ih =>
    simp only [List.foldl_cons]
    have h' : ∀ t, amGet (Buf.fixFirst (m.filter (fun e => !rm e)) (m.filter rm) tf a) t = fstOf m t ∨
        amGet (Buf.fixFirst (m.filter (fun e => !rm e)) (m.filter rm) tf a) t = fstOf (m.filter (fun e => !rm e)) t := by
      intro t
      by_cases hta : t = a
      · subst hta; right; exact fixFirst_same m rm tf t (h t)
      · rw [fixFirst_other _ _ _ hta]; exact h t
    have := ih _ h'
    refine ⟨this.1, ?_⟩
    intro t ht
    rcases List.mem_cons.mp ht with rfl | ht
    · -- processed first; later steps keep it exact
      by_cases hin : t ∈ ts
      · exact this.2 t hin
      · -- untouched by the rest of the fold
        have key : ∀ (ts : List Nat) (tf : List (Nat × Nat)), t ∉ ts →
            amGet (ts.foldl (Buf.fixFirst (m.filter (fun e => !rm e)) (m.filter rm)) tf) t = amGet tf t := by
          intro ts
          induction ts with
          | nil => intro tf _; rfl
          | cons b ts ih2 =>
            intro tf hnot
            simp only [List.foldl_cons]
            rw [ih2 _ (fun hm => hnot (List.mem_cons_of_mem _ hm))]
            exact fixFirst_other _ _ _ (fun e => hnot (by simp [e]))
        rw [key ts _ hin]
        exact fixFirst_same m rm tf t (h t)
    · exact this.2 t ht

theorem foldl_fixLast (m : List Entry) (rm : Entry → Bool) (ts : List Nat) (tl : List (Nat × Nat))
    (h : ∀ t, amGet tl t = lstOf m t ∨ amGet tl t = lstOf (m.filter (fun e => !rm e)) t) :
    (∀ t, amGet (ts.foldl (Buf.fixLast (m.filter (fun e => !rm e)) (m.filter rm)) tl) t = lstOf m t ∨
          amGet (ts.foldl (Buf.fixLast (m.filter (fun e => !rm e)) (m.filter rm)) tl) t = lstOf (m.filter (fun e => !rm e)) t) ∧
    (∀ t ∈ ts, amGet (ts.foldl (Buf.fixLast (m.filter (fun e => !rm e)) (m.filter rm)) tl) t = lstOf (m.filter (fun e => !rm e)) t) := by
  induction ts generalizing tl with
  | nil => exact ⟨by simpa using h, by simp⟩
  | cons a ts ih =>
    simp only [List.foldl_cons]
    have h' : ∀ t, amGet (Buf.fixLast (m.filter (fun e => !rm e)) (m.filter rm) tl a) t = lstOf m t ∨
        amGet (Buf.fixLast (m.filter (fun e => !rm e)) (m.filter rm) tl a) t = lstOf (m.filter (fun e => !rm e)) t := by
      intro t
      by_cases hta : t = a
      · subst hta; right; exact fixLast_same m rm tl t (h t)
      · rw [fixLast_other _ _ _ hta]; exact h t
    have := ih _ h'
    refine ⟨this.1, ?_⟩
    intro t ht
    rcases List.mem_cons.mp ht with rfl | ht
    · by_cases hin : t ∈ ts
      · exact this.2 t hin
      · have key : ∀ (ts : List Nat) (tl : List (Nat × Nat)), t ∉ ts →
            amGet (ts.foldl (Buf.fixLast (m.filter (fun e => !rm e)) (m.filter rm)) tl) t = amGet tl t := by
          intro ts
          induction ts with
          | nil => intro tl _; rfl
          | cons b ts ih2 =>
            intro tl hnot
            simp only [List.foldl_cons]
            rw [ih2 _ (fun hm => hnot (List.mem_cons_of_mem _ hm))]
            exact fixLast_other _ _ _ (fun e => hnot (by simp [e]))
        rw [key ts _ hin]
        exact fixLast_same m rm tl t (h t)
    · exact this.2 t ht

/-- `remove_range` keeps both term indexes exact -/
theorem exact_removeBy {b : Buf} (hf : TfExact b.mem b.tfirst) (hl : TlExact b.mem b.tlast) (rm : Entry → Bool) :
    TfExact (b.removeBy rm).mem (b.removeBy rm).tfirst ∧ TlExact (b.removeBy rm).mem (b.removeBy rm).tlast := by
  simp only [Buf.removeBy]
  constructor
  · intro t
    have := foldl_fixFirst b.mem rm ((b.mem.filter rm).map (·.term)).eraseDups b.tfirst (fun t => Or.inl (hf t))
    by_cases ht : t ∈ ((b.mem.filter rm).map (·.term)).eraseDups
    · exact this.2 t ht
    · rcases this.1 t with h | h
      · rw [h]
        symm
        apply fstOf_filter_of_not_removed
        intro e he hr hte
        apply ht
        rw [List.mem_eraseDups]
        exact List.mem_map.mpr ⟨e, List.mem_filter.mpr ⟨he, hr⟩, hte⟩
      · exact h
  · intro t
    have := foldl_fixLast b.mem rm ((b.mem.filter rm).map (·.term)).eraseDups b.tlast (fun t => Or.inl (hl t))
    by_cases ht : t ∈ ((b.mem.filter rm).map (·.term)).eraseDups
    · exact this.2 t ht
    · rcases this.1 t with h | h
      · rw [h]
        symm
        apply lstOf_filter_of_not_removed
        intro e he hr hte
        apply ht
        rw [List.mem_eraseDups]
        exact List.mem_map.mpr ⟨e, List.mem_filter.mpr ⟨he, hr⟩, hte⟩
      · exact h

end DEngine.BufLog
