import DEngine.Model.Ttl
/-!
Helper lemmas for C23 (family `ttl`): per-step preservation facts about one key, lifted to op lists.
-/
namespace DEngine.Ttl
open DEngine.MiniKv

/-! ### association lists -/

theorem get_some_mem {m : AMap} {k d : Nat} (h : get m k = some d) : (k, d) ∈ m := by
  induction m with
  | nil => simp [MiniKv.get] at h
  | cons p m ih =>
    obtain ⟨k', v⟩ := p
    by_cases hk : k' = k
    · subst hk; simp [MiniKv.get] at h; subst h; simp
    · simp [MiniKv.get, hk] at h; exact List.mem_cons_of_mem _ (ih h)

theorem get_eraseAll_none {m : AMap} {k : Nat} (ks : List Nat) (h : get m k = none) :
    get (eraseAll m ks) k = none := by
  by_cases hk : k ∈ ks
  · exact get_eraseAll_of_mem m ks hk
  · rw [get_eraseAll_of_not_mem m ks hk]; exact h

theorem get_erase_none {m : AMap} {k : Nat} (k' : Nat) (h : get m k = none) :
    get (erase m k') k = none := by
  by_cases hk : k' = k
  · subst hk; simp
  · rw [get_erase_ne m hk]; exact h

/-! ### the lease table -/

theorem mem_expiredKeys {l : AMap} {now k : Nat} :
    k ∈ expiredKeys l now ↔ ∃ d, get l k = some d ∧ d ≤ now := by
  unfold expiredKeys
  rw [List.mem_filter]
  constructor
  · rintro ⟨_, h⟩
    cases hg : get l k with
    | none => simp [hg] at h
    | some d => exact ⟨d, rfl, by simpa [hg] using h⟩
  · rintro ⟨d, hg, hd⟩
    refine ⟨?_, by simp [hg, hd]⟩
    exact List.mem_map.mpr ⟨(k, d), get_some_mem hg, rfl⟩

theorem get_dropExpired_live {l : AMap} {now k d : Nat} (hg : get l k = some d) (hd : now < d) :
    get (dropExpired l now) k = some d := by
  unfold dropExpired
  rw [get_eraseAll_of_not_mem, hg]
  intro hm
  obtain ⟨d', hg', hd'⟩ := mem_expiredKeys.mp hm
  rw [hg] at hg'; cases hg'; omega

theorem get_dropExpired_due {l : AMap} {now k d : Nat} (hg : get l k = some d) (hd : d ≤ now) :
    get (dropExpired l now) k = none :=
  get_eraseAll_of_mem _ _ (mem_expiredKeys.mpr ⟨d, hg, hd⟩)

theorem get_dropExpired_none {l : AMap} {now k : Nat} (hg : get l k = none) :
    get (dropExpired l now) k = none := get_eraseAll_none _ hg

theorem not_mem_expiredKeys_of_none {l : AMap} {now k : Nat} (hg : get l k = none) :
    k ∉ expiredKeys l now := by
  intro hm; obtain ⟨d, hg', _⟩ := mem_expiredKeys.mp hm; rw [hg] at hg'; cases hg'

theorem not_mem_expiredKeys_of_live {l : AMap} {now k d : Nat} (hg : get l k = some d) (hd : now < d) :
    k ∉ expiredKeys l now := by
  intro hm; obtain ⟨d', hg', hd'⟩ := mem_expiredKeys.mp hm; rw [hg] at hg'; cases hg'; omega

/-- `may_have_expired_keys` sees every entry (fix F47). -/
theorem mayHaveExpired_of_due {l : AMap} {now k d : Nat} (hg : get l k = some d) (hd : d ≤ now) :
    mayHaveExpired l now = true := by
  unfold mayHaveExpired
  rw [List.any_eq_true]
  exact ⟨(k, d), get_some_mem hg, by simp [isExpired, hd]⟩

/-! ### quiet ops: ops that cannot (legitimately) change key `k` while it holds `v` -/

/-- `op` is not a put/delete of `k`, not a CAS on `k` whose expectation is `some v` (such a CAS would
succeed), and not a restart / crash / snapshot install. -/
def quiet (k v : Nat) : Op → Bool
  | .put k' _ _ => k' != k
  | .del k' => k' != k
  | .cas k' e _ => k' != k || e != some v
  | .restart | .srestart | .crash | .install => false
  | _ => true

/-- as `quiet`, and a CAS on `k` must expect some value `w ≠ v` (so that it also fails once `k` is gone). -/
def quietStrict (k v : Nat) : Op → Bool
  | .put k' _ _ => k' != k
  | .del k' => k' != k
  | .cas k' e _ => k' != k || (match e with | some w => w != v | none => false)
  | .restart | .srestart | .crash | .install => false
  | _ => true

theorem quiet_of_quietStrict {k v : Nat} {op : Op} (h : quietStrict k v op = true) : quiet k v op = true := by
  cases op <;> simp_all [quiet, quietStrict]
  rename_i k' e w
  rcases h with h | h
  · exact Or.inl h
  · right; cases e <;> simp_all

theorem casMatch_some_ne {v : Nat} {e : Option Nat} (h : e ≠ some v) : casMatch (some v) e = false := by
  cases e with
  | none => rfl
  | some w => simp [casMatch]; intro hv; exact h (by rw [hv])

/-! ### clock -/

theorem reopen_now (s : St) : (reopen s).now = s.now := by
  unfold reopen; split <;> rfl

theorem now_le_step (s : St) (op : Op) : s.now ≤ (step s op).1.now := by
  cases op with
  | put k v ttl => cases ttl <;> simp [step]
  | del k => simp [step]
  | cas k e v => simp only [step]; split <;> simp
  | adv n => simp [step]
  | cleanup => simp only [step]; split <;> simp
  | get k => simp [step]
  | ckpt => simp only [step]; split <;> simp
  | restart => simp only [step]; split <;> simp [reopen_now]
  | srestart => simp only [step]; split <;> simp [reopen_now]
  | crash => simp [step, reopen_now]
  | snap => simp [step]
  | install =>
    simp only [step]; split
    · simp
    · split <;> simp

theorem now_le_exec (s : St) (ops : List Op) : s.now ≤ (exec s ops).now := by
  induction ops generalizing s with
  | nil => simp [exec]
  | cons op ops ih => rw [exec_cons]; exact Nat.le_trans (now_le_step s op) (ih _)

/-! ### one step, key `k` live with value `v` -/

theorem step_live_plain {s : St} {op : Op} {k v : Nat} (hq : quiet k v op = true)
    (hd : get s.data k = some v) (hl : get s.lease k = none) :
    get (step s op).1.data k = some v ∧ get (step s op).1.lease k = none := by
  cases op with
  | put k' v' ttl =>
    have hk : k' ≠ k := by simpa [quiet] using hq
    cases ttl with
    | none => simp [step, get_set_ne _ _ hk, get_erase_ne _ hk, hd, hl]
    | some t => simp [step, get_set_ne _ _ hk, hd, hl]
  | del k' =>
    have hk : k' ≠ k := by simpa [quiet] using hq
    simp [step, get_erase_ne _ hk, hd, hl]
  | cas k' e v' =>
    simp only [step]; split
    · rename_i hm
      have hk : k' ≠ k := by
        intro hkk; subst hkk
        have : e ≠ some v := by simpa [quiet] using hq
        rw [hd, casMatch_some_ne this] at hm; cases hm
      simp [get_set_ne _ _ hk, get_erase_ne _ hk, hd, hl]
    · exact ⟨hd, hl⟩
  | adv n => exact ⟨hd, hl⟩
  | cleanup =>
    simp only [step]; split
    · simp only
      exact ⟨by rw [get_eraseAll_of_not_mem _ _ (not_mem_expiredKeys_of_none hl)]; exact hd,
        get_dropExpired_none hl⟩
    · exact ⟨hd, hl⟩
  | get k' => exact ⟨hd, hl⟩
  | ckpt => simp only [step]; split <;> exact ⟨hd, hl⟩
  | snap => exact ⟨hd, hl⟩
  | restart => simp [quiet] at hq
  | srestart => simp [quiet] at hq
  | crash => simp [quiet] at hq
  | install => simp [quiet] at hq

theorem step_live_ttl {s : St} {op : Op} {k v d : Nat} (hq : quiet k v op = true)
    (hd : get s.data k = some v) (hl : get s.lease k = some d) (hnow : (step s op).1.now < d) :
    get (step s op).1.data k = some v ∧ get (step s op).1.lease k = some d := by
  cases op with
  | put k' v' ttl =>
    have hk : k' ≠ k := by simpa [quiet] using hq
    cases ttl with
    | none => simp [step, get_set_ne _ _ hk, get_erase_ne _ hk, hd, hl]
    | some t => simp [step, get_set_ne _ _ hk, hd, hl]
  | del k' =>
    have hk : k' ≠ k := by simpa [quiet] using hq
    simp [step, get_erase_ne _ hk, hd, hl]
  | cas k' e v' =>
    simp only [step]; split
    · rename_i hm
      have hk : k' ≠ k := by
        intro hkk; subst hkk
        have : e ≠ some v := by simpa [quiet] using hq
        rw [hd, casMatch_some_ne this] at hm; cases hm
      simp [get_set_ne _ _ hk, get_erase_ne _ hk, hd, hl]
    · exact ⟨hd, hl⟩
  | adv n => exact ⟨hd, hl⟩
  | cleanup =>
    have hnow' : s.now < d := by
      have := now_le_step s .cleanup; omega
    simp only [step]; split
    · simp only
      exact ⟨by rw [get_eraseAll_of_not_mem _ _ (not_mem_expiredKeys_of_live hl hnow')]; exact hd,
        get_dropExpired_live hl hnow'⟩
    · exact ⟨hd, hl⟩
  | get k' => exact ⟨hd, hl⟩
  | ckpt => simp only [step]; split <;> exact ⟨hd, hl⟩
  | snap => exact ⟨hd, hl⟩
  | restart => simp [quiet] at hq
  | srestart => simp [quiet] at hq
  | crash => simp [quiet] at hq
  | install => simp [quiet] at hq

/-- a key that is absent and carries no lease stays so under strictly quiet ops. -/
theorem step_absent {s : St} {op : Op} {k v : Nat} (hq : quietStrict k v op = true)
    (hd : get s.data k = none) (hl : get s.lease k = none) :
    get (step s op).1.data k = none ∧ get (step s op).1.lease k = none := by
  cases op with
  | put k' v' ttl =>
    have hk : k' ≠ k := by simpa [quietStrict] using hq
    cases ttl with
    | none => simp [step, get_set_ne _ _ hk, get_erase_ne _ hk, hd, hl]
    | some t => simp [step, get_set_ne _ _ hk, hd, hl]
  | del k' =>
    have hk : k' ≠ k := by simpa [quietStrict] using hq
    simp [step, get_erase_ne _ hk, hd, hl]
  | cas k' e v' =>
    simp only [step]; split
    · rename_i hm
      have hk : k' ≠ k := by
        intro hkk; subst hkk
        rw [hd] at hm
        cases e with
        | none => simp [quietStrict] at hq
        | some w => simp [casMatch] at hm
      simp [get_set_ne _ _ hk, get_erase_ne _ hk, hd, hl]
    · exact ⟨hd, hl⟩
  | adv n => exact ⟨hd, hl⟩
  | cleanup =>
    simp only [step]; split
    · simp only
      exact ⟨get_eraseAll_none _ hd, get_dropExpired_none hl⟩
    · exact ⟨hd, hl⟩
  | get k' => exact ⟨hd, hl⟩
  | ckpt => simp only [step]; split <;> exact ⟨hd, hl⟩
  | snap => exact ⟨hd, hl⟩
  | restart => simp [quietStrict] at hq
  | srestart => simp [quietStrict] at hq
  | crash => simp [quietStrict] at hq
  | install => simp [quietStrict] at hq

/-! ### op lists -/

theorem exec_live_plain {k v : Nat} (ops : List Op) (s : St) (hq : ∀ op ∈ ops, quiet k v op = true)
    (hd : get s.data k = some v) (hl : get s.lease k = none) :
    get (exec s ops).data k = some v ∧ get (exec s ops).lease k = none := by
  induction ops generalizing s with
  | nil => exact ⟨hd, hl⟩
  | cons op ops ih =>
    rw [exec_cons]
    obtain ⟨h1, h2⟩ := step_live_plain (hq op (List.mem_cons_self)) hd hl
    exact ih _ (fun o ho => hq o (List.mem_cons_of_mem _ ho)) h1 h2

theorem exec_live_ttl {k v d : Nat} (ops : List Op) (s : St) (hq : ∀ op ∈ ops, quiet k v op = true)
    (hd : get s.data k = some v) (hl : get s.lease k = some d) (hnow : (exec s ops).now < d) :
    get (exec s ops).data k = some v ∧ get (exec s ops).lease k = some d := by
  induction ops generalizing s with
  | nil => exact ⟨hd, hl⟩
  | cons op ops ih =>
    rw [exec_cons] at hnow ⊢
    have hstep : (step s op).1.now < d := Nat.lt_of_le_of_lt (now_le_exec _ ops) hnow
    obtain ⟨h1, h2⟩ := step_live_ttl (hq op (List.mem_cons_self)) hd hl hstep
    exact ih _ (fun o ho => hq o (List.mem_cons_of_mem _ ho)) h1 h2 hnow

theorem exec_absent {k v : Nat} (ops : List Op) (s : St) (hq : ∀ op ∈ ops, quietStrict k v op = true)
    (hd : get s.data k = none) (hl : get s.lease k = none) :
    get (exec s ops).data k = none ∧ get (exec s ops).lease k = none := by
  induction ops generalizing s with
  | nil => exact ⟨hd, hl⟩
  | cons op ops ih =>
    rw [exec_cons]
    obtain ⟨h1, h2⟩ := step_absent (hq op (List.mem_cons_self)) hd hl
    exact ih _ (fun o ho => hq o (List.mem_cons_of_mem _ ho)) h1 h2

/-- "TTL key `k = v` with deadline `d`, or already removed": preserved by strictly quiet ops. -/
def LiveOrGone (s : St) (k v d : Nat) : Prop :=
  (get s.data k = some v ∧ get s.lease k = some d) ∨ (get s.data k = none ∧ get s.lease k = none)

theorem step_liveOrGone {s : St} {op : Op} {k v d : Nat} (hq : quietStrict k v op = true)
    (h : LiveOrGone s k v d) : LiveOrGone (step s op).1 k v d := by
  rcases h with ⟨hd, hl⟩ | ⟨hd, hl⟩
  · by_cases hnow : (step s op).1.now < d
    · exact Or.inl (step_live_ttl (quiet_of_quietStrict hq) hd hl hnow)
    · -- the deadline has passed: only a cleanup can touch the key, and then it removes it completely
      cases op with
      | cleanup =>
        simp only [step]; split
        · simp only
          by_cases hdue : d ≤ s.now
          · exact Or.inr ⟨get_eraseAll_of_mem _ _ (mem_expiredKeys.mpr ⟨d, hl, hdue⟩),
              get_dropExpired_due hl hdue⟩
          · have : s.now < d := by omega
            exact Or.inl ⟨by rw [get_eraseAll_of_not_mem _ _ (not_mem_expiredKeys_of_live hl this)]; exact hd,
              get_dropExpired_live hl this⟩
        · exact Or.inl ⟨hd, hl⟩
      | put k' v' ttl =>
        have hk : k' ≠ k := by simpa [quietStrict] using hq
        left
        cases ttl with
        | none => simp [step, get_set_ne _ _ hk, get_erase_ne _ hk, hd, hl]
        | some t => simp [step, get_set_ne _ _ hk, hd, hl]
      | del k' =>
        have hk : k' ≠ k := by simpa [quietStrict] using hq
        left; simp [step, get_erase_ne _ hk, hd, hl]
      | cas k' e v' =>
        left
        simp only [step]; split
        · rename_i hm
          have hk : k' ≠ k := by
            intro hkk; subst hkk
            have : e ≠ some v := by
              have := quiet_of_quietStrict hq; simpa [quiet] using this
            rw [hd, casMatch_some_ne this] at hm; cases hm
          simp [get_set_ne _ _ hk, get_erase_ne _ hk, hd, hl]
        · exact ⟨hd, hl⟩
      | adv n => exact Or.inl ⟨hd, hl⟩
      | get k' => exact Or.inl ⟨hd, hl⟩
      | ckpt => left; simp only [step]; split <;> exact ⟨hd, hl⟩
      | snap => exact Or.inl ⟨hd, hl⟩
      | restart => simp [quietStrict] at hq
      | srestart => simp [quietStrict] at hq
      | crash => simp [quietStrict] at hq
      | install => simp [quietStrict] at hq
  · exact Or.inr (step_absent hq hd hl)

theorem exec_liveOrGone {k v d : Nat} (ops : List Op) (s : St)
    (hq : ∀ op ∈ ops, quietStrict k v op = true) (h : LiveOrGone s k v d) :
    LiveOrGone (exec s ops) k v d := by
  induction ops generalizing s with
  | nil => exact h
  | cons op ops ih =>
    rw [exec_cons]
    exact ih _ (fun o ho => hq o (List.mem_cons_of_mem _ ho)) (step_liveOrGone (hq op List.mem_cons_self) h)

end DEngine.Ttl
