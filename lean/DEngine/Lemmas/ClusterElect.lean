/-
  Election safety on the cluster model (C01 at the level of this family): no term has two leaderships.
  Ghost `Cluster.grants` = every vote ever granted (voter, term, candidate), self votes included.
  Invariant `EInv`: a voter grants at most one candidate per term (the vote and the term survive crashes and
  step-downs — fixes F2 and F1), every leadership is backed by a majority of grants, a pending election knows its
  granters.  With quorum intersection this gives `FreshTerms`, the hypothesis of the log-matching invariant.
-/
import DEngine.Lemmas.ClusterStep
namespace DEngine.Cluster

def ElectOK (c : Cluster) (i : NodeId) (el : Election) : Prop :=
  el.req.term = (c.nodes i).term ∧ el.req.cand = i ∧ c.valid i = true ∧
  (∀ t, (t, i) ∈ c.leaderTerms → t < (c.nodes i).term) ∧
  (i, (c.nodes i).term, i) ∈ c.grants ∧
  ((el.replies ++ el.collected).map (·.1)).Nodup ∧
  (∀ x ∈ el.replies ++ el.collected, x.1 ≠ i ∧ x.1 ∈ el.delivered ∧
    (x.2.granted = true → (x.1, (c.nodes i).term, i) ∈ c.grants))

structure EInv (c : Cluster) : Prop where
  fresh : FreshTerms c.leaderTerms
  gterm : ∀ g ∈ c.grants, g.2.1 ≤ (c.nodes g.1).term
  gvote : ∀ g ∈ c.grants, g.2.1 = (c.nodes g.1).term →
    ∃ w, (c.nodes g.1).vote = some w ∧ w.term = g.2.1 ∧ (w.id = g.2.2 ∨ w.committed = true)
  guniq : ∀ g1 ∈ c.grants, ∀ g2 ∈ c.grants, g1.1 = g2.1 → g1.2.1 = g2.2.1 → g1.2.2 = g2.2.2
  gvalid : ∀ g ∈ c.grants, c.valid g.1 = true
  cvote : ∀ v w, (c.nodes v).vote = some w → w.committed = true → (w.term, w.id) ∈ c.leaderTerms
  msgs : ∀ x ∈ c.msgs, ∀ r, aeOf x.2 = some r → (r.term, r.leader) ∈ c.leaderTerms
  lterm : ∀ p ∈ c.leaderTerms, p.1 ≤ (c.nodes p.2).term
  lquorum : ∀ p ∈ c.leaderTerms, ∃ q : List NodeId, q.Nodup ∧ (∀ v ∈ q, (v, p.1, p.2) ∈ c.grants) ∧ q.length * 2 > c.n
  elect : ∀ i el, (c.nodes i).election = some el → ElectOK c i el

theorem einv_init (n cap : Nat) : EInv (Cluster.init n cap) := by
  refine ⟨?_, ?_, ?_, ?_, ?_, ?_, ?_, ?_, ?_, ?_⟩ <;> simp [Cluster.init, FreshTerms]

-- ------------------------------------------------------------------------------------------ counting
theorem tally_won_count (n : Nat) (req : VoteReq) : ∀ (l : List VoteResp) (s : Nat),
    tally n req l s = .won → s + (l.filter (·.granted)).length > n / 2 := by
  intro l
  induction l with
  | nil =>
    intro s h
    simp only [tally] at h
    split at h
    · next hc => simp at hc; simp; omega
    · cases h
  | cons r l ih =>
    intro s h
    simp only [tally] at h
    split at h
    · next hg =>
      have := ih (s + 1) h
      simp [List.filter_cons, hg]; omega
    · next hg =>
      split at h
      · cases h
      · split at h
        · cases h
        · have := ih s h
          simp [List.filter_cons, hg]; omega

def voterIds (n : Nat) : List NodeId := (List.range n).map (· + 1)

theorem voterIds_length (n : Nat) : (voterIds n).length = n := by simp [voterIds]

theorem mem_voterIds {c : Cluster} {v : Nat} (h : c.valid v = true) : v ∈ voterIds c.n := by
  simp only [Cluster.valid, Bool.and_eq_true, decide_eq_true_eq] at h
  obtain ⟨h1, h2⟩ := h
  simp only [voterIds, List.mem_map, List.mem_range]
  exact ⟨v - 1, Nat.lt_of_lt_of_le (Nat.sub_lt h1 Nat.one_pos) h2, Nat.sub_add_cancel h1⟩

theorem quorums_meet (voters a b : List NodeId) (ha : a.Nodup) (hb : b.Nodup)
    (hav : ∀ x ∈ a, x ∈ voters) (hbv : ∀ x ∈ b, x ∈ voters)
    (hma : a.length * 2 > voters.length) (hmb : b.length * 2 > voters.length) : ∃ x, x ∈ a ∧ x ∈ b := by
  apply Decidable.byContradiction
  intro hno
  have hdis : ∀ x, x ∈ a → ∀ y, y ∈ b → x ≠ y := by
    intro x hx y hy hxy
    subst hxy
    exact hno ⟨x, hx, hy⟩
  have hnd : (a ++ b).Nodup := List.nodup_append.mpr ⟨ha, hb, hdis⟩
  have hsub : a ++ b ⊆ voters := by
    intro x hx
    rcases List.mem_append.mp hx with h | h
    · exact hav x h
    · exact hbv x h
  have := hnd.length_le_of_subset hsub
  simp at this
  omega

/-- An election that is won is backed by a majority of grants: the candidate and everybody whose grant came back. -/
theorem won_quorum {c : Cluster} (h : EInv c) (i : NodeId) (el : Election)
    (hel : (c.nodes i).election = some el)
    (hwon : tally c.n el.req (el.collected.map (·.2)) 1 = .won) :
    ∃ q : List NodeId, q.Nodup ∧ (∀ v ∈ q, (v, (c.nodes i).term, i) ∈ c.grants) ∧ q.length * 2 > c.n := by
  obtain ⟨_, _, _, _, hself, hnd, hall⟩ := h.elect i el hel
  let granters := (el.collected.filter (fun x => x.2.granted)).map (·.1)
  have hcount := tally_won_count c.n el.req (el.collected.map (·.2)) 1 hwon
  have hlen : granters.length = ((el.collected.map (·.2)).filter (·.granted)).length := by
    simp [granters, List.filter_map, Function.comp_def]
  have hgr : ∀ v ∈ granters, v ≠ i ∧ (v, (c.nodes i).term, i) ∈ c.grants := by
    intro v hv
    simp only [granters, List.mem_map, List.mem_filter] at hv
    obtain ⟨x, ⟨hx, hxg⟩, hxv⟩ := hv
    have := hall x (List.mem_append_right _ hx)
    subst hxv
    exact ⟨this.1, this.2.2 hxg⟩
  have hgnd : granters.Nodup := by
    have h1 : ((el.collected).map (·.1)).Nodup := by
      rw [List.map_append] at hnd
      exact (List.nodup_append.mp hnd).2.1
    have hsub : List.Sublist granters (el.collected.map (·.1)) := by
      simp only [granters]
      exact List.Sublist.map _ List.filter_sublist
    exact List.Nodup.sublist hsub h1
  refine ⟨i :: granters, ?_, ?_, ?_⟩
  · rw [List.nodup_cons]
    exact ⟨fun hi => (hgr i hi).1 rfl, hgnd⟩
  · intro v hv
    rcases List.mem_cons.mp hv with hv | hv
    · subst hv; exact hself
    · exact (hgr v hv).2
  · simp only [List.length_cons]; omega

/-- The term of an election that is won has no earlier leadership (quorum intersection + one grant per voter and term). -/
theorem won_term_fresh {c : Cluster} (h : EInv c) (i : NodeId) (el : Election)
    (hel : (c.nodes i).election = some el)
    (hwon : tally c.n el.req (el.collected.map (·.2)) 1 = .won) :
    ∀ j, ((c.nodes i).term, j) ∉ c.leaderTerms := by
  intro b hb
  obtain ⟨_, _, _, hlt, _, _, _⟩ := h.elect i el hel
  obtain ⟨q, hqnd, hqg, hqm⟩ := h.lquorum _ hb
  obtain ⟨m, hmnd, hmg, hmm⟩ := won_quorum h i el hel hwon
  obtain ⟨v, hv1, hv2⟩ := quorums_meet (voterIds c.n) m q hmnd hqnd
    (fun x hx => mem_voterIds (h.gvalid _ (hmg x hx)))
    (fun x hx => mem_voterIds (h.gvalid _ (hqg x hx)))
    (by rw [voterIds_length]; exact hmm)
    (by rw [voterIds_length]; exact hqm)
  have := h.guniq _ (hmg v hv1) _ (hqg v hv2) rfl rfl
  simp only [] at this
  subst this
  exact Nat.lt_irrefl _ (hlt _ hb)

end DEngine.Cluster
