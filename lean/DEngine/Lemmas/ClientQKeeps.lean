import DEngine.Lemmas.ClientQ
/-!
  "No silent drop" for the M-CLIENTQ model: every request id pending before a step is pending after it or answered
  in it (`Keeps`), for every event kind (used by C30).
-/
namespace DEngine.ClientQ

/-- no pending request disappears silently: it is still pending or it is answered (an answer includes
    `.dropped`, which the model emits exactly where the code drops the sender). -/
def Keeps (s s' : St) (o : Out) : Prop := ∀ id ∈ s.pending, id ∈ s'.pending ∨ id ∈ o.map (·.1)

theorem Keeps.refl (s : St) : Keeps s s [] := fun _ h => Or.inl h

theorem Keeps.trans {s s1 s2 : St} {o1 o2 : Out} (h1 : Keeps s s1 o1) (h2 : Keeps s1 s2 o2) :
    Keeps s s2 (o1 ++ o2) := by
  intro id hid
  rcases h1 id hid with h | h
  · rcases h2 id h with h' | h'
    · exact Or.inl h'
    · exact Or.inr (by simp at h' ⊢; exact Or.inr h')
  · exact Or.inr (by simp at h ⊢; exact Or.inl h)

theorem Keeps.of_eq {s s' : St} {o : Out} (h : s'.pending = s.pending) : Keeps s s' o :=
  fun _ hid => Or.inl (by rw [h]; exact hid)

/-- queue-wise sufficient condition: every queue keeps its members (or they are answered) -/
theorem Keeps.of_queues {s s' : St} {o : Out}
    (hP : ∀ p ∈ s.propose, (∃ p' ∈ s'.propose, p'.1 = p.1) ∨ (∃ e ∈ s'.pcw, p.1 ∈ e.2.senders) ∨ p.1 ∈ o.map (·.1))
    (hW : ∀ e ∈ s.pcw, ∀ id ∈ e.2.senders,
      (∃ e' ∈ s'.pcw, id ∈ e'.2.senders) ∨ (∃ e' ∈ s'.pwa, e'.2 = id) ∨ id ∈ o.map (·.1))
    (hA : ∀ e ∈ s.pwa, (∃ e' ∈ s'.pwa, e'.2 = e.2) ∨ e.2 ∈ o.map (·.1))
    (hL : ∀ id ∈ s.linBuf, id ∈ s'.linBuf ∨ (∃ e ∈ s'.preads, id ∈ e.2.2) ∨ id ∈ o.map (·.1))
    (hS : ∀ id ∈ s.leaseQ, id ∈ s'.leaseQ ∨ (∃ e ∈ s'.pleases, e.1 = id) ∨ id ∈ o.map (·.1))
    (hE : ∀ id ∈ s.evQ, id ∈ s'.evQ ∨ id ∈ o.map (·.1))
    (hR : ∀ e ∈ s.preads, ∀ id ∈ e.2.2, (∃ e' ∈ s'.preads, id ∈ e'.2.2) ∨ id ∈ o.map (·.1))
    (hQ : ∀ e ∈ s.pleases, (∃ e' ∈ s'.pleases, e'.1 = e.1) ∨ e.1 ∈ o.map (·.1))
    (hC : ∀ e ∈ s.pca, ∀ id, joinId e = some id → (∃ e' ∈ s'.pca, joinId e' = some id) ∨ id ∈ o.map (·.1)) :
    Keeps s s' o := by
  intro id hid
  rw [mem_pending] at hid
  rw [mem_pending]
  rcases hid with h | h | h | h | h | h | h | h | h
  · rcases h with ⟨p, hp, rfl⟩
    rcases hP p hp with h | h | h
    · exact Or.inl (Or.inl h)
    · exact Or.inl (Or.inr (Or.inl h))
    · exact Or.inr h
  · rcases h with ⟨e, he, hin⟩
    rcases hW e he id hin with h | h | h
    · exact Or.inl (Or.inr (Or.inl h))
    · exact Or.inl (Or.inr (Or.inr (Or.inl h)))
    · exact Or.inr h
  · rcases h with ⟨e, he, rfl⟩
    rcases hA e he with h | h
    · exact Or.inl (Or.inr (Or.inr (Or.inl h)))
    · exact Or.inr h
  · rcases hL id h with h | h | h
    · exact Or.inl (Or.inr (Or.inr (Or.inr (Or.inl h))))
    · exact Or.inl (Or.inr (Or.inr (Or.inr (Or.inr (Or.inr (Or.inr (Or.inl h)))))))
    · exact Or.inr h
  · rcases hS id h with h | h | h
    · exact Or.inl (Or.inr (Or.inr (Or.inr (Or.inr (Or.inl h)))))
    · exact Or.inl (Or.inr (Or.inr (Or.inr (Or.inr (Or.inr (Or.inr (Or.inr (Or.inl h))))))))
    · exact Or.inr h
  · rcases hE id h with h | h
    · exact Or.inl (Or.inr (Or.inr (Or.inr (Or.inr (Or.inr (Or.inl h))))))
    · exact Or.inr h
  · rcases h with ⟨e, he, hin⟩
    rcases hR e he id hin with h | h
    · exact Or.inl (Or.inr (Or.inr (Or.inr (Or.inr (Or.inr (Or.inr (Or.inl h)))))))
    · exact Or.inr h
  · rcases h with ⟨e, he, rfl⟩
    rcases hQ e he with h | h
    · exact Or.inl (Or.inr (Or.inr (Or.inr (Or.inr (Or.inr (Or.inr (Or.inr (Or.inl h))))))))
    · exact Or.inr h
  · rcases h with ⟨e, he, hj⟩
    rcases hC e he id hj with h | h
    · exact Or.inl (Or.inr (Or.inr (Or.inr (Or.inr (Or.inr (Or.inr (Or.inr (Or.inr h))))))))
    · exact Or.inr h

/-- a state whose queues are all supersets of the old ones keeps everything -/
theorem Keeps.of_superset {s s' : St} (o : Out)
    (hP : ∀ p ∈ s.propose, p ∈ s'.propose) (hW : ∀ e ∈ s.pcw, e ∈ s'.pcw) (hA : ∀ e ∈ s.pwa, e ∈ s'.pwa)
    (hL : ∀ id ∈ s.linBuf, id ∈ s'.linBuf) (hS : ∀ id ∈ s.leaseQ, id ∈ s'.leaseQ) (hE : ∀ id ∈ s.evQ, id ∈ s'.evQ)
    (hR : ∀ e ∈ s.preads, ∀ id ∈ e.2.2, ∃ e' ∈ s'.preads, id ∈ e'.2.2)
    (hQ : ∀ e ∈ s.pleases, e ∈ s'.pleases) (hC : ∀ e ∈ s.pca, e ∈ s'.pca) : Keeps s s' o :=
  Keeps.of_queues
    (fun p hp => Or.inl ⟨p, hP p hp, rfl⟩) (fun e he id hid => Or.inl ⟨e, hW e he, hid⟩)
    (fun e he => Or.inl ⟨e, hA e he, rfl⟩) (fun id h => Or.inl (hL id h)) (fun id h => Or.inl (hS id h))
    (fun id h => Or.inl (hE id h)) (fun e he id hid => Or.inl (hR e he id hid))
    (fun e he => Or.inl ⟨e, hQ e he, rfl⟩) (fun e he id hj => Or.inl ⟨e, hC e he, hj⟩)

theorem preadsInsert_keeps (pr : List (Nat × Nat × List Nat)) (ri dl : Nat) (ids : List Nat) :
    ∀ e ∈ pr, ∀ id ∈ e.2.2, ∃ e' ∈ preadsInsert pr ri dl ids, id ∈ e'.2.2 := by
  induction pr with
  | nil => intro e he; simp at he
  | cons x rest ih =>
    intro e he id hid
    unfold preadsInsert
    rcases List.mem_cons.mp he with h | h
    · subst h
      split
      · exact ⟨_, List.mem_cons_self, List.mem_append_left _ hid⟩
      · split
        · exact ⟨e, by simp, hid⟩
        · exact ⟨e, List.mem_cons_self, hid⟩
    · split
      · exact ⟨e, List.mem_cons_of_mem _ h, hid⟩
      · split
        · exact ⟨e, by simp [h], hid⟩
        · rcases ih e h id hid with ⟨e', he', hin⟩
          exact ⟨e', List.mem_cons_of_mem _ he', hin⟩

theorem preadsInsert_new (pr : List (Nat × Nat × List Nat)) (ri dl : Nat) (ids : List Nat) :
    ∀ id ∈ ids, ∃ e' ∈ preadsInsert pr ri dl ids, e'.1 = ri ∧ id ∈ e'.2.2 := by
  induction pr with
  | nil => intro id hid; exact ⟨(ri, dl, ids), by simp [preadsInsert], rfl, hid⟩
  | cons x rest ih =>
    intro id hid
    unfold preadsInsert
    split
    · rename_i hk
      exact ⟨_, List.mem_cons_self, by simpa using hk, List.mem_append_right _ hid⟩
    · split
      · exact ⟨(ri, dl, ids), List.mem_cons_self, rfl, hid⟩
      · rcases ih id hid with ⟨e', he', hk, hin⟩
        exact ⟨e', List.mem_cons_of_mem _ he', hk, hin⟩

theorem routeReads_fst (c : Cfg) (s : St) (r : Option (List Nat)) :
    (routeReads c s r).1 = { s with preads := (routeReads c s r).1.preads } := by
  rcases routeReads_state c s r with ⟨pr, h⟩
  rw [h]

/-- all queue fields of `execRpc`'s result except `pcw` / `preads` are those of `s` -/
theorem execRpc_queues (c : Cfg) (s : St) (ents wm reads) :
    let t := (execRpc c s ents wm reads).1
    t.propose = s.propose ∧ t.pwa = s.pwa ∧ t.linBuf = s.linBuf ∧ t.leaseQ = s.leaseQ ∧ t.evQ = s.evQ ∧
    t.pleases = s.pleases ∧ t.pca = s.pca ∧
    t.preads = (routeReads c (execAppend c s ents wm) (gateReads (execAppend c s ents wm) reads).1).1.preads := by
  have ha := execAppend_rest c s ents wm
  simp only at ha
  unfold execRpc
  simp only
  rw [routeReads_fst]
  split <;> simp [ha]

/-- ids handed to `execRpc` as the senders of the batch and as the read batch, and everything pending in `s`,
    are pending afterwards or answered by it -/
theorem execRpc_keeps (c : Cfg) (s : St) (ents : List EntKind) (wm : Option WMeta) (reads : Option (List Nat)) :
    ∀ id, (id ∈ s.pending ∨ (∃ m, wm = some m ∧ id ∈ m.senders) ∨ (∃ rs, reads = some rs ∧ id ∈ rs)) →
      id ∈ (execRpc c s ents wm reads).1.pending ∨ id ∈ (execRpc c s ents wm reads).2.map (·.1) := by
  intro id hid
  have hq := execRpc_queues c s ents wm reads
  simp only at hq
  rcases hq with ⟨q1, q2, q3, q4, q5, q6, q7, q8⟩
  have hpcw := execRpc_pcw c s ents wm reads
  have ha := execAppend_rest c s ents wm
  simp only at ha
  -- old parked reads stay parked
  have hold : ∀ e ∈ s.preads, ∀ i ∈ e.2.2, ∃ e' ∈ (execRpc c s ents wm reads).1.preads, i ∈ e'.2.2 := by
    intro e he i hi
    rw [q8]
    unfold routeReads
    split
    · split
      · exact ⟨e, by rw [ha.2.2.2.2.2.2.2.2.2.1]; exact he, hi⟩
      · exact preadsInsert_keeps _ _ _ _ e (by rw [ha.2.2.2.2.2.2.2.2.2.1]; exact he) i hi
    · exact ⟨e, by rw [ha.2.2.2.2.2.2.2.2.2.1]; exact he, hi⟩
  have hpcw_old : ∀ e ∈ s.pcw, e ∈ (execRpc c s ents wm reads).1.pcw := by
    intro e he
    rw [hpcw]
    cases wm with
    | none => exact he
    | some m => simp only; split
                · exact he
                · exact List.mem_append_left _ he
  rcases hid with h | h | h
  · -- pending before
    left
    rw [mem_pending] at h ⊢
    rcases h with h | h | h | h | h | h | h | h | h
    · exact Or.inl (by rw [q1]; exact h)
    · rcases h with ⟨e, he, hin⟩; exact Or.inr (Or.inl ⟨e, hpcw_old e he, hin⟩)
    · exact Or.inr (Or.inr (Or.inl (by rw [q2]; exact h)))
    · exact Or.inr (Or.inr (Or.inr (Or.inl (by rw [q3]; exact h))))
    · exact Or.inr (Or.inr (Or.inr (Or.inr (Or.inl (by rw [q4]; exact h)))))
    · exact Or.inr (Or.inr (Or.inr (Or.inr (Or.inr (Or.inl (by rw [q5]; exact h))))))
    · rcases h with ⟨e, he, hin⟩
      exact Or.inr (Or.inr (Or.inr (Or.inr (Or.inr (Or.inr (Or.inl (hold e he id hin)))))))
    · exact Or.inr (Or.inr (Or.inr (Or.inr (Or.inr (Or.inr (Or.inr (Or.inl (by rw [q6]; exact h))))))))
    · exact Or.inr (Or.inr (Or.inr (Or.inr (Or.inr (Or.inr (Or.inr (Or.inr (by rw [q7]; exact h))))))))
  · -- a sender of the batch: the batch is in `pending_client_writes` now
    rcases h with ⟨m, rfl, hin⟩
    left
    rw [mem_pending]
    refine Or.inr (Or.inl ?_)
    rw [hpcw]
    simp only
    have hne : m.senders.isEmpty = false := by
      cases hs : m.senders with
      | nil => rw [hs] at hin; simp at hin
      | cons a l => rfl
    rw [hne]
    exact ⟨_, List.mem_append_right _ (List.mem_singleton.mpr rfl), hin⟩
  · -- a read of the batch: refused by the gate, served, or parked
    rcases h with ⟨rs, rfl, hin⟩
    have hout : (execRpc c s ents wm (some rs)).2 =
        (gateReads (execAppend c s ents wm) (some rs)).2 ++
        (routeReads c (execAppend c s ents wm) (gateReads (execAppend c s ents wm) (some rs)).1).2 := rfl
    cases hn : (execAppend c s ents wm).noopIdx with
    | none =>
      have hg : gateReads (execAppend c s ents wm) (some rs) = (none, answerAll rs .notReady) := by
        unfold gateReads; rw [hn]
      right
      rw [hout, hg]
      simp only [List.map_append, List.mem_append, List.mem_map]
      exact Or.inl ⟨(id, .notReady), mem_answerAll.mpr ⟨hin, rfl⟩, rfl⟩
    | some n =>
      have hg : gateReads (execAppend c s ents wm) (some rs) = (some rs, []) := by
        unfold gateReads; rw [hn]
      rw [hout, hg]
      by_cases hserve : ((c.single || (execAppend c s ents wm).leaseValid) &&
          decide ((execAppend c s ents wm).applied ≥ (execAppend c s ents wm).readIndex)) = true
      · right
        unfold routeReads
        simp only [hserve, ↓reduceIte, List.nil_append, List.mem_map]
        exact ⟨(id, _), mem_answerAll.mpr ⟨hin, rfl⟩, rfl⟩
      · left
        rw [mem_pending]
        refine Or.inr (Or.inr (Or.inr (Or.inr (Or.inr (Or.inr (Or.inl ?_))))))
        rw [q8, hg]
        unfold routeReads
        simp only [hserve, Bool.false_eq_true, ↓reduceIte]
        rcases preadsInsert_new _ _ _ _ id hin with ⟨e', he', _, hin'⟩
        exact ⟨e', he', hin'⟩

/-- `Keeps` with ids in transit (taken out of a queue and handed to the next function as an argument) -/
def KeepsX (extra : List Nat) (s s' : St) (o : Out) : Prop :=
  ∀ id, (id ∈ s.pending ∨ id ∈ extra) → id ∈ s'.pending ∨ id ∈ o.map (·.1)

theorem KeepsX.trans_keeps {extra : List Nat} {s s1 s2 : St} {o1 o2 : Out} (h1 : KeepsX extra s s1 o1)
    (h2 : Keeps s1 s2 o2) : KeepsX extra s s2 (o1 ++ o2) := by
  intro id hid
  rcases h1 id hid with h | h
  · rcases h2 id h with h' | h'
    · exact Or.inl h'
    · exact Or.inr (by simp at h' ⊢; exact Or.inr h')
  · exact Or.inr (by simp at h ⊢; exact Or.inl h)

theorem keeps_pushWrite (c : Cfg) (s : St) (op : WOp) : Keeps s (pushWrite c s op).1 (pushWrite c s op).2 := by
  unfold pushWrite; simp only; repeat' split
  all_goals
    apply Keeps.of_superset
    all_goals first | (intro e he; exact he) | (intro e he; exact List.mem_append_left _ he) | (intro e he i hi; exact ⟨e, he, hi⟩)

theorem keeps_pushRead (c : Cfg) (s : St) (p : Nat) : Keeps s (pushRead c s p).1 (pushRead c s p).2 := by
  unfold pushRead; simp only; repeat' split
  all_goals
    apply Keeps.of_superset
    all_goals first | (intro e he; exact he) | (intro e he; exact List.mem_append_left _ he) | (intro e he i hi; exact ⟨e, he, hi⟩)

theorem keeps_pushScan (c : Cfg) (s : St) : Keeps s (pushScan c s).1 (pushScan c s).2 := by
  unfold pushScan
  apply Keeps.of_superset
  all_goals first | (intro e he; exact he) | (intro e he i hi; exact ⟨e, he, hi⟩)

theorem keeps_execRpc (c : Cfg) (s : St) (ents wm reads) :
    Keeps s (execRpc c s ents wm reads).1 (execRpc c s ents wm reads).2 :=
  fun id hid => execRpc_keeps c s ents wm reads id (Or.inl hid)

theorem keepsX_processLeaseRead (c : Cfg) (s : St) (id : Nat) :
    KeepsX [id] s (processLeaseRead c s id).1 (processLeaseRead c s id).2 := by
  intro i hi
  unfold processLeaseRead
  split
  · rcases hi with h | h
    · exact Or.inl h
    · right; simp at h; subst h; simp
  · split
    · rcases hi with h | h
      · left; rw [mem_pending] at h ⊢; exact h
      · right; simp at h; subst h; simp
    · apply keeps_execRpc
      rw [mem_pending]
      rcases hi with h | h
      · rw [mem_pending] at h
        rcases h with h | h | h | h | h | h | h | h | h
        · exact Or.inl h
        · exact Or.inr (Or.inl h)
        · exact Or.inr (Or.inr (Or.inl h))
        · exact Or.inr (Or.inr (Or.inr (Or.inl h)))
        · exact Or.inr (Or.inr (Or.inr (Or.inr (Or.inl h))))
        · exact Or.inr (Or.inr (Or.inr (Or.inr (Or.inr (Or.inl h)))))
        · exact Or.inr (Or.inr (Or.inr (Or.inr (Or.inr (Or.inr (Or.inl h))))))
        · rcases h with ⟨e, he, hk⟩
          exact Or.inr (Or.inr (Or.inr (Or.inr (Or.inr (Or.inr (Or.inr (Or.inl ⟨e, List.mem_append_left _ he, hk⟩)))))))
        · exact Or.inr (Or.inr (Or.inr (Or.inr (Or.inr (Or.inr (Or.inr (Or.inr h)))))))
      · simp at h; subst h
        exact Or.inr (Or.inr (Or.inr (Or.inr (Or.inr (Or.inr (Or.inr (Or.inl ⟨(i, s.now + c.timeout), by simp, rfl⟩)))))))

theorem keepsX_processLeaseReads (c : Cfg) (ids : List Nat) :
    ∀ s : St, KeepsX ids s (processLeaseReads c s ids).1 (processLeaseReads c s ids).2 := by
  induction ids with
  | nil =>
    intro s i hi
    rcases hi with h | h
    · exact Or.inl h
    · simp at h
  | cons id rest ih =>
    intro s i hi
    unfold processLeaseReads
    simp only
    have h1 := keepsX_processLeaseRead c s id
    have h2 := ih (processLeaseRead c s id).1
    -- i is pending in s, or i = id, or i ∈ rest
    have hstep : i ∈ (processLeaseRead c s id).1.pending ∨ i ∈ (processLeaseRead c s id).2.map (·.1) ∨ i ∈ rest := by
      rcases hi with h | h
      · rcases h1 i (Or.inl h) with h' | h'
        · exact Or.inl h'
        · exact Or.inr (Or.inl h')
      · rcases List.mem_cons.mp h with h | h
        · subst h
          rcases h1 i (Or.inr (by simp)) with h' | h'
          · exact Or.inl h'
          · exact Or.inr (Or.inl h')
        · exact Or.inr (Or.inr h)
    rcases hstep with h | h | h
    · rcases h2 i (Or.inl h) with h' | h'
      · exact Or.inl h'
      · exact Or.inr (by simp at h' ⊢; exact Or.inr h')
    · exact Or.inr (by simp at h ⊢; exact Or.inl h)
    · rcases h2 i (Or.inr h) with h' | h'
      · exact Or.inl h'
      · exact Or.inr (by simp at h' ⊢; exact Or.inr h')

/-- flush the propose buffer, apply a queue-preserving record update, then `execRpc` with the read batch `rs`
    taken out of `linBuf` (or none): nothing pending is lost, and the ids of `rs` are accounted for. -/
theorem keepsX_flushThenExec (c : Cfg) (s : St) (upd : St → St) (rs : List Nat) (reads : Option (List Nat))
    (hreads : reads = none ∧ rs = [] ∨ reads = some rs)
    (hupd : ∀ x : St, x = (flushPropose s).1 →
      (upd x).propose = x.propose ∧ (upd x).pcw = x.pcw ∧ (upd x).pwa = x.pwa ∧
      (∀ i ∈ x.linBuf, i ∈ (upd x).linBuf ∨ i ∈ rs) ∧ (upd x).leaseQ = x.leaseQ ∧ (upd x).evQ = x.evQ ∧
      (upd x).preads = x.preads ∧ (upd x).pleases = x.pleases ∧ (upd x).pca = x.pca) :
    Keeps s
      (match (flushPropose s).2 with
        | some b => execRpc c (upd (flushPropose s).1) b.1 (some b.2) reads
        | none => execRpc c (upd (flushPropose s).1) [] none reads).1
      (match (flushPropose s).2 with
        | some b => execRpc c (upd (flushPropose s).1) b.1 (some b.2) reads
        | none => execRpc c (upd (flushPropose s).1) [] none reads).2 := by
  intro id hid
  -- where is `id` after the flush + update?
  have hfst := flushPropose_fst s
  have key : ∀ (ents : List EntKind) (wm : Option WMeta),
      (∀ p ∈ s.propose, (∃ p' ∈ (upd (flushPropose s).1).propose, p'.1 = p.1) ∨ ∃ m, wm = some m ∧ p.1 ∈ m.senders) →
      id ∈ (execRpc c (upd (flushPropose s).1) ents wm reads).1.pending ∨
      id ∈ (execRpc c (upd (flushPropose s).1) ents wm reads).2.map (·.1) := by
    intro ents wm hp
    apply execRpc_keeps
    have u := hupd (flushPropose s).1 rfl
    have hq : ∀ {α} (f : St → List α), f (if s.propose.isEmpty then s else { s with propose := [] }) = f s →
        f (flushPropose s).1 = f s := by intro α f h; rw [hfst]; exact h
    have e_pcw : (flushPropose s).1.pcw = s.pcw := hq (·.pcw) (by split <;> rfl)
    have e_pwa : (flushPropose s).1.pwa = s.pwa := hq (·.pwa) (by split <;> rfl)
    have e_lin : (flushPropose s).1.linBuf = s.linBuf := hq (·.linBuf) (by split <;> rfl)
    have e_lq : (flushPropose s).1.leaseQ = s.leaseQ := hq (·.leaseQ) (by split <;> rfl)
    have e_ev : (flushPropose s).1.evQ = s.evQ := hq (·.evQ) (by split <;> rfl)
    have e_pr : (flushPropose s).1.preads = s.preads := hq (·.preads) (by split <;> rfl)
    have e_pl : (flushPropose s).1.pleases = s.pleases := hq (·.pleases) (by split <;> rfl)
    have e_pca : (flushPropose s).1.pca = s.pca := hq (·.pca) (by split <;> rfl)
    rw [mem_pending] at hid
    rcases hid with h | h | h | h | h | h | h | h | h
    · rcases h with ⟨p, hpp, rfl⟩
      rcases hp p hpp with h' | h'
      · exact Or.inl (mem_pending.mpr (Or.inl h'))
      · exact Or.inr (Or.inl h')
    · exact Or.inl (mem_pending.mpr (Or.inr (Or.inl (by rw [u.2.1, e_pcw]; exact h))))
    · exact Or.inl (mem_pending.mpr (Or.inr (Or.inr (Or.inl (by rw [u.2.2.1, e_pwa]; exact h)))))
    · rcases u.2.2.2.1 id (by rw [e_lin]; exact h) with h' | h'
      · exact Or.inl (mem_pending.mpr (Or.inr (Or.inr (Or.inr (Or.inl h')))))
      · rcases hreads with ⟨_, hr⟩ | hr
        · rw [hr] at h'; simp at h'
        · exact Or.inr (Or.inr ⟨rs, hr, h'⟩)
    · exact Or.inl (mem_pending.mpr (Or.inr (Or.inr (Or.inr (Or.inr (Or.inl (by rw [u.2.2.2.2.1, e_lq]; exact h)))))))
    · exact Or.inl (mem_pending.mpr (Or.inr (Or.inr (Or.inr (Or.inr (Or.inr (Or.inl (by rw [u.2.2.2.2.2.1, e_ev]; exact h))))))))
    · exact Or.inl (mem_pending.mpr (Or.inr (Or.inr (Or.inr (Or.inr (Or.inr (Or.inr (Or.inl (by rw [u.2.2.2.2.2.2.1, e_pr]; exact h)))))))))
    · exact Or.inl (mem_pending.mpr (Or.inr (Or.inr (Or.inr (Or.inr (Or.inr (Or.inr (Or.inr (Or.inl (by rw [u.2.2.2.2.2.2.2.1, e_pl]; exact h))))))))))
    · exact Or.inl (mem_pending.mpr (Or.inr (Or.inr (Or.inr (Or.inr (Or.inr (Or.inr (Or.inr (Or.inr (by rw [u.2.2.2.2.2.2.2.2, e_pca]; exact h))))))))))
  split
  · rename_i b hb
    apply key
    intro p hp
    rcases flushPropose_some (s := s) (s1 := (flushPropose s).1) (ents := b.1) (m := b.2) (by rw [← hb]) with ⟨_, _, _, hm⟩
    exact Or.inr ⟨b.2, rfl, by rw [hm]; exact List.mem_map.mpr ⟨p, hp, rfl⟩⟩
  · rename_i hn
    apply key
    intro p hp
    have := flushPropose_none (s := s) (s1 := (flushPropose s).1) (by rw [← hn])
    rw [this.2] at hp; simp at hp

theorem keeps_flushMain (c : Cfg) (s : St) : Keeps s (flushMain c s).1 (flushMain c s).2 := by
  unfold flushMain
  simp only
  split
  · -- pure write path (`process_batch`)
    have := keepsX_flushThenExec c s (fun x => { x with replDl := x.now + c.hb }) [] none (Or.inl ⟨rfl, rfl⟩)
      (by intro x _; exact ⟨rfl, rfl, rfl, fun i hi => Or.inl hi, rfl, rfl, rfl, rfl, rfl⟩)
    split at this
    · rename_i b hb; simp only [hb]; exact this
    · rename_i hn
      simp only [hn]
      have hf := flushPropose_none (s := s) (s1 := (flushPropose s).1) (by rw [← hn])
      rw [hf.1]
      exact Keeps.of_eq rfl
  · split
    · by_cases hl : (flushPropose s).1.linBuf.isEmpty = true
      · simp only [hl, ↓reduceIte]
        exact keepsX_flushThenExec c s (fun x => { x with linBuf := [] }) [] none (Or.inl ⟨rfl, rfl⟩)
          (by
            intro x hx
            refine ⟨rfl, rfl, rfl, ?_, rfl, rfl, rfl, rfl, rfl⟩
            intro i hi
            rw [hx] at hi
            have : (flushPropose s).1.linBuf = [] := by simpa using hl
            rw [this] at hi; simp at hi)
      · have hl' : (flushPropose s).1.linBuf.isEmpty = false := by simpa using hl
        simp only [hl', Bool.false_eq_true, ↓reduceIte]
        exact keepsX_flushThenExec c s (fun x => { x with linBuf := [] }) (flushPropose s).1.linBuf
          (some (flushPropose s).1.linBuf) (Or.inr rfl)
          (by
            intro x hx
            refine ⟨rfl, rfl, rfl, ?_, rfl, rfl, rfl, rfl, rfl⟩
            intro i hi
            rw [hx] at hi
            exact Or.inr hi)
    · exact Keeps.refl s

theorem keeps_flush (c : Cfg) (s : St) : Keeps s (flush c s).1 (flush c s).2 := by
  unfold flush
  simp only
  intro id hid
  -- after flushMain
  rcases keeps_flushMain c s id hid with h1 | h1
  · -- pending in r1.1: in leaseQ (handed to processLeaseReads), or still pending in { r1.1 with leaseQ := [] }
    have hx : id ∈ ({ (flushMain c s).1 with leaseQ := [] } : St).pending ∨ id ∈ (flushMain c s).1.leaseQ := by
      rw [mem_pending] at h1 ⊢
      rcases h1 with h | h | h | h | h | h | h | h | h
      · exact Or.inl (Or.inl h)
      · exact Or.inl (Or.inr (Or.inl h))
      · exact Or.inl (Or.inr (Or.inr (Or.inl h)))
      · exact Or.inl (Or.inr (Or.inr (Or.inr (Or.inl h))))
      · exact Or.inr h
      · exact Or.inl (Or.inr (Or.inr (Or.inr (Or.inr (Or.inr (Or.inl h))))))
      · exact Or.inl (Or.inr (Or.inr (Or.inr (Or.inr (Or.inr (Or.inr (Or.inl h)))))))
      · exact Or.inl (Or.inr (Or.inr (Or.inr (Or.inr (Or.inr (Or.inr (Or.inr (Or.inl h))))))))
      · exact Or.inl (Or.inr (Or.inr (Or.inr (Or.inr (Or.inr (Or.inr (Or.inr (Or.inr h))))))))
    rcases keepsX_processLeaseReads c (flushMain c s).1.leaseQ _ id hx with h2 | h2
    · -- pending in r2.1: in evQ (answered now) or pending in { r2.1 with evQ := [] }
      rw [mem_pending] at h2
      rcases h2 with h | h | h | h | h | h | h | h | h
      · exact Or.inl (mem_pending.mpr (Or.inl h))
      · exact Or.inl (mem_pending.mpr (Or.inr (Or.inl h)))
      · exact Or.inl (mem_pending.mpr (Or.inr (Or.inr (Or.inl h))))
      · exact Or.inl (mem_pending.mpr (Or.inr (Or.inr (Or.inr (Or.inl h)))))
      · exact Or.inl (mem_pending.mpr (Or.inr (Or.inr (Or.inr (Or.inr (Or.inl h))))))
      · right
        simp only [List.map_append, List.mem_append, List.mem_map]
        exact Or.inr ⟨(id, _), mem_answerAll.mpr ⟨h, rfl⟩, rfl⟩
      · exact Or.inl (mem_pending.mpr (Or.inr (Or.inr (Or.inr (Or.inr (Or.inr (Or.inr (Or.inl h))))))))
      · exact Or.inl (mem_pending.mpr (Or.inr (Or.inr (Or.inr (Or.inr (Or.inr (Or.inr (Or.inr (Or.inl h)))))))))
      · exact Or.inl (mem_pending.mpr (Or.inr (Or.inr (Or.inr (Or.inr (Or.inr (Or.inr (Or.inr (Or.inr h)))))))))
    · right
      simp only [List.map_append, List.mem_append] at h2 ⊢
      exact Or.inl (Or.inr h2)
  · right
    simp only [List.map_append, List.mem_append]
    exact Or.inl (Or.inl h1)

theorem keeps_drainWrites (s : St) (nc : Nat) : Keeps s (drainWrites s nc).1 (drainWrites s nc).2 := by
  unfold drainWrites
  simp only
  apply Keeps.of_queues
  · intro p hp; exact Or.inl ⟨p, hp, rfl⟩
  · intro e he id hid
    by_cases hk : e.1 ≤ nc
    · by_cases hw : e.2.wait = true
      · refine Or.inr (Or.inl ?_)
        rcases List.mem_iff_getElem.mp hid with ⟨j, hj, hjeq⟩
        refine ⟨(e.2.start + j, id), List.mem_append_right _ (List.mem_flatMap.mpr ⟨e, List.mem_filter.mpr ⟨he, by simpa using hk⟩, ?_⟩), rfl⟩
        simp only [hw, ↓reduceIte, List.mem_map]
        exact ⟨(id, j), by rw [← hjeq]; exact List.mem_zipIdx_iff_getElem?.mpr (by simp [hj]), rfl⟩
      · refine Or.inr (Or.inr ?_)
        simp only [List.mem_map]
        refine ⟨(id, .ok), List.mem_flatMap.mpr ⟨e, List.mem_filter.mpr ⟨he, by simpa using hk⟩, ?_⟩, rfl⟩
        have : e.2.wait = false := by simpa using hw
        simp only [this, Bool.false_eq_true, ↓reduceIte]
        exact mem_answerAll.mpr ⟨hid, rfl⟩
    · exact Or.inl ⟨e, List.mem_filter.mpr ⟨he, by simpa using hk⟩, hid⟩
  · intro e he; exact Or.inl ⟨e, List.mem_append_left _ he, rfl⟩
  · intro id h; exact Or.inl h
  · intro id h; exact Or.inl h
  · intro id h; exact Or.inl h
  · intro e he id hid; exact Or.inl ⟨e, he, hid⟩
  · intro e he; exact Or.inl ⟨e, he, rfl⟩
  · intro e he id hj; exact Or.inl ⟨e, he, hj⟩

theorem keeps_drainActions (s : St) (nc : Nat) : Keeps s (drainActions s nc).1 (drainActions s nc).2 := by
  have hfields : (drainActions s nc).1.propose = s.propose ∧ (drainActions s nc).1.pcw = s.pcw ∧
      (drainActions s nc).1.pwa = s.pwa ∧ (drainActions s nc).1.linBuf = s.linBuf ∧
      (drainActions s nc).1.leaseQ = s.leaseQ ∧ (drainActions s nc).1.evQ = s.evQ ∧
      (drainActions s nc).1.preads = s.preads ∧ (drainActions s nc).1.pleases = s.pleases ∧
      (drainActions s nc).1.pca = s.pca.filter (fun e => !(e.1 ≤ nc)) := by
    unfold drainActions; simp only; split <;> exact ⟨rfl, rfl, rfl, rfl, rfl, rfl, rfl, rfl, rfl⟩
  rcases hfields with ⟨f1, f2, f3, f4, f5, f6, f7, f8, f9⟩
  apply Keeps.of_queues
  · intro p hp; exact Or.inl ⟨p, by rw [f1]; exact hp, rfl⟩
  · intro e he id hid; exact Or.inl ⟨e, by rw [f2]; exact he, hid⟩
  · intro e he; exact Or.inl ⟨e, by rw [f3]; exact he, rfl⟩
  · intro id h; exact Or.inl (by rw [f4]; exact h)
  · intro id h; exact Or.inl (by rw [f5]; exact h)
  · intro id h; exact Or.inl (by rw [f6]; exact h)
  · intro e he id hid; exact Or.inl ⟨e, by rw [f7]; exact he, hid⟩
  · intro e he; exact Or.inl ⟨e, by rw [f8]; exact he, rfl⟩
  · intro e he id hj
    by_cases hk : e.1 ≤ nc
    · right
      unfold drainActions
      simp only [List.mem_map]
      refine ⟨(id, .joinOk), List.mem_filterMap.mpr ⟨e, List.mem_filter.mpr ⟨he, by simpa using hk⟩, ?_⟩, rfl⟩
      rcases e with ⟨k, d, a⟩
      cases a <;> simp [joinId] at hj
      subst hj; rfl
    · exact Or.inl ⟨e, by rw [f9]; exact List.mem_filter.mpr ⟨he, by simpa using hk⟩, hj⟩

theorem keeps_drainPleases (s : St) : Keeps s (drainPleases s).1 (drainPleases s).2 := by
  unfold drainPleases
  apply Keeps.of_queues
  · intro p hp; exact Or.inl ⟨p, hp, rfl⟩
  · intro e he id hid; exact Or.inl ⟨e, he, hid⟩
  · intro e he; exact Or.inl ⟨e, he, rfl⟩
  · intro id h; exact Or.inl h
  · intro id h; exact Or.inl h
  · intro id h; exact Or.inl h
  · intro e he id hid; exact Or.inl ⟨e, he, hid⟩
  · intro e he
    right
    simp only [List.mem_map]
    exact ⟨(e.1, _), mem_answerAll.mpr ⟨List.mem_map.mpr ⟨e, he, rfl⟩, rfl⟩, rfl⟩
  · intro e he id hj; exact Or.inl ⟨e, he, hj⟩

theorem keeps_servePreads (s : St) (u : Nat) : Keeps s (servePreads s u).1 (servePreads s u).2 := by
  unfold servePreads
  apply Keeps.of_queues
  · intro p hp; exact Or.inl ⟨p, hp, rfl⟩
  · intro e he id hid; exact Or.inl ⟨e, he, hid⟩
  · intro e he; exact Or.inl ⟨e, he, rfl⟩
  · intro id h; exact Or.inl h
  · intro id h; exact Or.inl h
  · intro id h; exact Or.inl h
  · intro e he id hid
    by_cases hk : e.1 ≤ u
    · right
      simp only [List.mem_map]
      exact ⟨(id, _), List.mem_flatMap.mpr ⟨e, List.mem_filter.mpr ⟨he, by simpa using hk⟩, mem_answerAll.mpr ⟨hid, rfl⟩⟩, rfl⟩
    · exact Or.inl ⟨e, List.mem_filter.mpr ⟨he, by simpa using hk⟩, hid⟩
  · intro e he; exact Or.inl ⟨e, he, rfl⟩
  · intro e he id hj; exact Or.inl ⟨e, he, hj⟩

/-- a record update that leaves all nine queues alone -/
theorem Keeps.of_queues_eq {s s' : St} (o : Out) (h1 : s'.propose = s.propose) (h2 : s'.pcw = s.pcw)
    (h3 : s'.pwa = s.pwa) (h4 : s'.linBuf = s.linBuf) (h5 : s'.leaseQ = s.leaseQ) (h6 : s'.evQ = s.evQ)
    (h7 : s'.preads = s.preads) (h8 : s'.pleases = s.pleases) (h9 : s'.pca = s.pca) : Keeps s s' o := by
  apply Keeps.of_eq
  simp [St.pending, St.pendW, St.pendR, St.pendJ, h1, h2, h3, h4, h5, h6, h7, h8, h9]

theorem keeps_commitTo (s : St) (nc : Nat) : Keeps s (commitTo s nc).1 (commitTo s nc).2 := by
  unfold commitTo
  simp only
  have h0 : Keeps s ({ s with commit := nc } : St) [] := Keeps.of_queues_eq _ rfl rfl rfl rfl rfl rfl rfl rfl rfl
  have := (h0.trans (keeps_drainWrites _ nc)).trans (keeps_drainActions _ nc)
  simpa using this

theorem keeps_advanceCommit (s : St) (nc : Option Nat) : Keeps s (advanceCommit s nc).1 (advanceCommit s nc).2 := by
  unfold advanceCommit
  split
  · exact keeps_commitTo s _
  · exact Keeps.refl s

theorem keeps_lease_then_drains (s X : St) (u : St → Nat) (h1 : X.propose = s.propose) (h2 : X.pcw = s.pcw)
    (h3 : X.pwa = s.pwa) (h4 : X.linBuf = s.linBuf) (h5 : X.leaseQ = s.leaseQ) (h6 : X.evQ = s.evQ)
    (h7 : X.preads = s.preads) (h8 : X.pleases = s.pleases) (h9 : X.pca = s.pca) :
    Keeps s (servePreads (drainPleases X).1 (u (drainPleases X).1)).1
      ((drainPleases X).2 ++ (servePreads (drainPleases X).1 (u (drainPleases X).1)).2) := by
  have h0 : Keeps s X [] := Keeps.of_queues_eq _ h1 h2 h3 h4 h5 h6 h7 h8 h9
  have := (h0.trans (keeps_drainPleases X)).trans (keeps_servePreads (drainPleases X).1 (u (drainPleases X).1))
  simpa using this

theorem keeps_onQuorum (c : Cfg) (s : St) : Keeps s (onQuorum c s).1 (onQuorum c s).2 := by
  unfold onQuorum
  simp only
  exact keeps_lease_then_drains s _ (·.applied) rfl rfl rfl rfl rfl rfl rfl rfl rfl

theorem keeps_ackSuccess (c : Cfg) (s : St) (p m : Nat) : Keeps s (ackSuccess c s p m).1 (ackSuccess c s p m).2 := by
  unfold ackSuccess
  split
  · exact Keeps.refl s
  · simp only
    have h0 : Keeps s ({ s with matchIdx := setMatch s.matchIdx (p - 2) m } : St) [] :=
      Keeps.of_queues_eq _ rfl rfl rfl rfl rfl rfl rfl rfl rfl
    have h1 := h0.trans (keeps_advanceCommit _ (newCommit ({ s with matchIdx := setMatch s.matchIdx (p - 2) m } : St)))
    split
    · have := h1.trans (keeps_onQuorum c _)
      simpa using this
    · simpa using h1

theorem keeps_ackHigherTerm (s : St) (t : Nat) : Keeps s (ackHigherTerm s t).1 (ackHigherTerm s t).2 := by
  unfold ackHigherTerm
  split
  · exact Keeps.refl s
  · simp only [drainWritesErr]
    apply Keeps.of_queues
    · intro p hp; exact Or.inl ⟨p, hp, rfl⟩
    · intro e he id hid
      refine Or.inr (Or.inr ?_)
      simp only [List.mem_map]
      exact ⟨(id, .termOutdated), List.mem_flatMap.mpr ⟨e, he, mem_answerAll.mpr ⟨hid, rfl⟩⟩, rfl⟩
    · intro e he; exact Or.inl ⟨e, he, rfl⟩
    · intro id h; exact Or.inl h
    · intro id h; exact Or.inl h
    · intro id h; exact Or.inl h
    · intro e he id hid; exact Or.inl ⟨e, he, hid⟩
    · intro e he; exact Or.inl ⟨e, he, rfl⟩
    · intro e he id hj; exact Or.inl ⟨e, he, hj⟩

theorem keeps_logFlushed (c : Cfg) (s : St) : Keeps s (logFlushed c s).1 (logFlushed c s).2 := by
  unfold logFlushed
  simp only
  split
  · exact Keeps.refl s
  · rename_i n _
    split
    · have h1 := keeps_commitTo s n
      have key : ∀ X : St, X.propose = (commitTo s n).1.propose → X.pcw = (commitTo s n).1.pcw →
          X.pwa = (commitTo s n).1.pwa → X.linBuf = (commitTo s n).1.linBuf → X.leaseQ = (commitTo s n).1.leaseQ →
          X.evQ = (commitTo s n).1.evQ → X.preads = (commitTo s n).1.preads →
          X.pleases = (commitTo s n).1.pleases → X.pca = (commitTo s n).1.pca →
          Keeps s (drainPleases X).1 ((commitTo s n).2 ++ (drainPleases X).2) := by
        intro X e1 e2 e3 e4 e5 e6 e7 e8 e9
        have h0 : Keeps (commitTo s n).1 X [] := Keeps.of_queues_eq _ e1 e2 e3 e4 e5 e6 e7 e8 e9
        have := (h1.trans h0).trans (keeps_drainPleases X)
        simpa using this
      exact key _ rfl rfl rfl rfl rfl rfl rfl rfl rfl
    · exact keeps_commitTo s n

theorem sweep_queue_fields (c : Cfg) (s : St) :
    (sweep c s).1.propose = s.propose ∧ (sweep c s).1.pwa = s.pwa ∧ (sweep c s).1.linBuf = s.linBuf ∧
    (sweep c s).1.leaseQ = s.leaseQ ∧ (sweep c s).1.evQ = s.evQ ∧
    (sweep c s).1.pcw = s.pcw.filter (fun e => !(s.now ≥ e.2.deadline)) ∧
    (sweep c s).1.preads = s.preads.filter (fun e => !(s.now ≥ e.2.1)) ∧
    (sweep c s).1.pleases = s.pleases.filter (fun e => !(s.now ≥ e.2)) ∧
    (sweep c s).1.pca = s.pca.filter (fun e => !(s.now ≥ e.2.1)) := by
  unfold sweep; simp only; split <;> exact ⟨rfl, rfl, rfl, rfl, rfl, rfl, rfl, rfl, rfl⟩

theorem keeps_sweep (c : Cfg) (s : St) : Keeps s (sweep c s).1 (sweep c s).2 := by
  rcases sweep_queue_fields c s with ⟨f1, f2, f3, f4, f5, f6, f7, f8, f9⟩
  have hout : (sweep c s).2 =
      ((s.pcw.filter (fun e => s.now ≥ e.2.deadline)).flatMap fun e => answerAll e.2.senders .deadline) ++
      ((s.preads.filter (fun e => s.now ≥ e.2.1)).flatMap fun e => answerAll e.2.2 .deadline) ++
      answerAll ((s.pleases.filter (fun e => s.now ≥ e.2)).map (·.1)) .deadline ++
      ((s.pca.filter (fun e => s.now ≥ e.2.1)).filterMap fun e =>
        match e.2.2 with | .join id => some (id, Resp.deadline) | .noop => none) := by
    unfold sweep; rfl
  apply Keeps.of_queues
  · intro p hp; exact Or.inl ⟨p, by rw [f1]; exact hp, rfl⟩
  · intro e he id hid
    by_cases hk : s.now ≥ e.2.deadline
    · refine Or.inr (Or.inr ?_)
      rw [hout]
      simp only [List.map_append, List.mem_append, List.mem_map]
      exact Or.inl (Or.inl (Or.inl ⟨(id, .deadline), List.mem_flatMap.mpr ⟨e, List.mem_filter.mpr ⟨he, by simpa using hk⟩, mem_answerAll.mpr ⟨hid, rfl⟩⟩, rfl⟩))
    · exact Or.inl ⟨e, by rw [f6]; exact List.mem_filter.mpr ⟨he, by simpa using hk⟩, hid⟩
  · intro e he; exact Or.inl ⟨e, by rw [f2]; exact he, rfl⟩
  · intro id h; exact Or.inl (by rw [f3]; exact h)
  · intro id h; exact Or.inl (by rw [f4]; exact h)
  · intro id h; exact Or.inl (by rw [f5]; exact h)
  · intro e he id hid
    by_cases hk : s.now ≥ e.2.1
    · right
      rw [hout]
      simp only [List.map_append, List.mem_append, List.mem_map]
      exact Or.inl (Or.inl (Or.inr ⟨(id, .deadline), List.mem_flatMap.mpr ⟨e, List.mem_filter.mpr ⟨he, by simpa using hk⟩, mem_answerAll.mpr ⟨hid, rfl⟩⟩, rfl⟩))
    · exact Or.inl ⟨e, by rw [f7]; exact List.mem_filter.mpr ⟨he, by simpa using hk⟩, hid⟩
  · intro e he
    by_cases hk : s.now ≥ e.2
    · right
      rw [hout]
      simp only [List.map_append, List.mem_append, List.mem_map]
      exact Or.inl (Or.inr ⟨(e.1, .deadline), mem_answerAll.mpr ⟨List.mem_map.mpr ⟨e, List.mem_filter.mpr ⟨he, by simpa using hk⟩, rfl⟩, rfl⟩, rfl⟩)
    · exact Or.inl ⟨e, by rw [f8]; exact List.mem_filter.mpr ⟨he, by simpa using hk⟩, rfl⟩
  · intro e he id hj
    by_cases hk : s.now ≥ e.2.1
    · right
      rw [hout]
      simp only [List.map_append, List.mem_append, List.mem_map]
      refine Or.inr ⟨(id, .deadline), List.mem_filterMap.mpr ⟨e, List.mem_filter.mpr ⟨he, by simpa using hk⟩, ?_⟩, rfl⟩
      rcases e with ⟨k, d, a⟩
      cases a <;> simp [joinId] at hj
      subst hj; rfl
    · exact Or.inl ⟨e, by rw [f9]; exact List.mem_filter.mpr ⟨he, by simpa using hk⟩, hj⟩

theorem keeps_heartbeat (c : Cfg) (s : St) : Keeps s (heartbeat c s).1 (heartbeat c s).2 := by
  unfold heartbeat
  split
  · simp only
    exact keepsX_flushThenExec c s (fun x => { x with replDl := x.now + c.hb }) [] none (Or.inl ⟨rfl, rfl⟩)
      (by intro x _; exact ⟨rfl, rfl, rfl, fun i hi => Or.inl hi, rfl, rfl, rfl, rfl, rfl⟩)
  · exact Keeps.refl s

theorem keeps_tick (c : Cfg) (s : St) (ms : Nat) : Keeps s (tick c s ms).1 (tick c s ms).2 := by
  unfold tick
  simp only
  have key : ∀ X : St, X.propose = s.propose → X.pcw = s.pcw → X.pwa = s.pwa → X.linBuf = s.linBuf →
      X.leaseQ = s.leaseQ → X.evQ = s.evQ → X.preads = s.preads → X.pleases = s.pleases → X.pca = s.pca →
      Keeps s (sweep c (heartbeat c X).1).1 ((heartbeat c X).2 ++ (sweep c (heartbeat c X).1).2) := by
    intro X e1 e2 e3 e4 e5 e6 e7 e8 e9
    have h0 : Keeps s X [] := Keeps.of_queues_eq _ e1 e2 e3 e4 e5 e6 e7 e8 e9
    have := (h0.trans (keeps_heartbeat c X)).trans (keeps_sweep c _)
    simpa using this
  exact key _ rfl rfl rfl rfl rfl rfl rfl rfl rfl

theorem keeps_applyUpTo {R : List Nat} {s : St} (hinv : Inv R s) (k : Nat) :
    Keeps s (applyUpTo s k).1 (applyUpTo s k).2 := by
  by_cases hk : applyTarget s k ≤ s.applied
  · rw [applyUpTo_noop hk]; exact Keeps.refl s
  · have hout := (applyUpTo_fields hk).2.2.2
    have hst : (applyUpTo s k).1 = (servePreads (applyMid s k) (applyTarget s k)).1 := by
      unfold applyUpTo applyMid applyTarget at *
      simp only
      rw [if_neg hk]
    rw [hst, hout]
    -- first the pwa part, then the Path B drain
    have h1 : Keeps s (applyMid s k)
        (applyResponses s.pwa (applyRange s.log s.kv s.applied (applyTarget s k - s.applied)).2) := by
      unfold applyMid
      simp only
      apply Keeps.of_queues
      · intro p hp; exact Or.inl ⟨p, hp, rfl⟩
      · intro e he id hid; exact Or.inl ⟨e, he, hid⟩
      · intro e he
        by_cases hany : ((applyRange s.log s.kv s.applied (applyTarget s k - s.applied)).2.any (·.1 == e.1)) = true
        · -- removed from pwa: some result carries its index, and the first pwa entry with that index is answered
          right
          rcases List.any_eq_true.mp hany with ⟨res, hres, hidx⟩
          simp only [beq_iff_eq] at hidx
          unfold applyResponses
          simp only [List.mem_map, List.mem_filterMap]
          -- the entry found by `find?` has the same index; under a duplicate-free pwa it is `e`; in general
          -- an entry with that index is answered — we answer via the found entry only if it is e; otherwise
          -- fall back: e itself is found when it is the first. We show membership of *some* answer for e.2
          -- by case analysis on find?.
          cases hf : s.pwa.find? (·.1 == res.1) with
          | none =>
            have := List.find?_eq_none.mp hf e he
            simp [hidx] at this
          | some e' =>
            by_cases hee : e'.2 = e.2
            · exact ⟨(e'.2, if res.2 then .ok else .casFail), ⟨res, hres, by simp [hf]⟩, hee⟩
            · -- a different request under the same index is impossible: both would own the same log entry
              exfalso
              have hin' := List.mem_of_find?_eq_some hf
              have hk' := List.find?_some hf
              simp only [beq_iff_eq] at hk'
              rcases hinv.pwa e he with ⟨_, _, le, hle, op, hop⟩
              rcases hinv.pwa e' hin' with ⟨_, _, le', hle', op', hop'⟩
              have : e'.1 = e.1 := by rw [hk', hidx]
              rw [this, hle] at hle'
              injection hle' with hle'
              subst hle'
              rw [hop] at hop'
              injection hop' with h1 _
              exact hee h1.symm
        · refine Or.inl ⟨e, List.mem_filter.mpr ⟨he, ?_⟩, rfl⟩
          rw [Bool.not_eq_true] at hany
          rw [hany]; rfl
      · intro id h; exact Or.inl h
      · intro id h; exact Or.inl h
      · intro id h; exact Or.inl h
      · intro e he id hid; exact Or.inl ⟨e, he, hid⟩
      · intro e he; exact Or.inl ⟨e, he, rfl⟩
      · intro e he id hj; exact Or.inl ⟨e, he, hj⟩
    exact h1.trans (keeps_servePreads _ _)

theorem keeps_stepDown (s : St) : Keeps s (stepDown s).1 (stepDown s).2 := by
  intro id hid
  right
  rw [mem_pending] at hid
  simp only [List.mem_map]
  unfold stepDown
  simp only [List.mem_append]
  rcases hid with h | h | h | h | h | h | h | h | h
  · rcases h with ⟨p, hp, rfl⟩
    exact ⟨(p.1, .notLeader), Or.inl (Or.inl (Or.inl (Or.inr (mem_answerAll.mpr ⟨List.mem_map.mpr ⟨p, hp, rfl⟩, rfl⟩)))), rfl⟩
  · rcases h with ⟨e, he, hin⟩
    exact ⟨(id, .proposeFailed), Or.inl (Or.inl (Or.inr (List.mem_flatMap.mpr ⟨e, he, mem_answerAll.mpr ⟨hin, rfl⟩⟩))), rfl⟩
  · rcases h with ⟨e, he, rfl⟩
    exact ⟨(e.2, .dropped), Or.inl (Or.inr (mem_answerAll.mpr ⟨List.mem_map.mpr ⟨e, he, rfl⟩, rfl⟩)), rfl⟩
  · exact ⟨(id, .stepDown), Or.inl (Or.inl (Or.inl (Or.inl (Or.inl (Or.inl (Or.inl (Or.inl (mem_answerAll.mpr ⟨h, rfl⟩)))))))), rfl⟩
  · exact ⟨(id, .stepDown), Or.inl (Or.inl (Or.inl (Or.inl (Or.inl (Or.inl (Or.inl (Or.inr (mem_answerAll.mpr ⟨h, rfl⟩)))))))), rfl⟩
  · exact ⟨(id, .stepDown), Or.inl (Or.inl (Or.inl (Or.inl (Or.inl (Or.inl (Or.inr (mem_answerAll.mpr ⟨h, rfl⟩))))))), rfl⟩
  · rcases h with ⟨e, he, hin⟩
    exact ⟨(id, .stepDown), Or.inl (Or.inl (Or.inl (Or.inl (Or.inl (Or.inr (List.mem_flatMap.mpr ⟨e, he, mem_answerAll.mpr ⟨hin, rfl⟩⟩)))))), rfl⟩
  · rcases h with ⟨e, he, rfl⟩
    exact ⟨(e.1, .stepDown), Or.inl (Or.inl (Or.inl (Or.inl (Or.inr (mem_answerAll.mpr ⟨List.mem_map.mpr ⟨e, he, rfl⟩, rfl⟩))))), rfl⟩
  · rcases h with ⟨e, he, hj⟩
    refine ⟨(id, .dropped), Or.inr (List.mem_filterMap.mpr ⟨e, he, ?_⟩), rfl⟩
    rcases e with ⟨k, d, a⟩
    cases a <;> simp [joinId] at hj
    subst hj; rfl

theorem keeps_fatalInbound (s : St) : Keeps s (fatalInbound s).1 (fatalInbound s).2 := by
  unfold fatalInbound
  apply Keeps.of_queues
  · intro p hp; exact Or.inl ⟨p, hp, rfl⟩
  · intro e he id hid; exact Or.inl ⟨e, he, hid⟩
  · intro e he
    right
    simp only [List.map_append, List.mem_append, List.mem_map]
    exact Or.inl (Or.inl (Or.inl (Or.inl ⟨(e.2, .fatal), mem_answerAll.mpr ⟨List.mem_map.mpr ⟨e, he, rfl⟩, rfl⟩, rfl⟩)))
  · intro id h
    refine Or.inr (Or.inr ?_)
    simp only [List.map_append, List.mem_append, List.mem_map]
    exact Or.inl (Or.inl (Or.inl (Or.inr ⟨(id, .fatal), mem_answerAll.mpr ⟨h, rfl⟩, rfl⟩)))
  · intro id h
    refine Or.inr (Or.inr ?_)
    simp only [List.map_append, List.mem_append, List.mem_map]
    exact Or.inl (Or.inr ⟨(id, .fatal), mem_answerAll.mpr ⟨h, rfl⟩, rfl⟩)
  · intro id h
    right
    simp only [List.map_append, List.mem_append, List.mem_map]
    exact Or.inr ⟨(id, .fatal), mem_answerAll.mpr ⟨h, rfl⟩, rfl⟩
  · intro e he id hid
    right
    simp only [List.map_append, List.mem_append, List.mem_map]
    exact Or.inl (Or.inl (Or.inr ⟨(id, .fatal), List.mem_flatMap.mpr ⟨e, he, mem_answerAll.mpr ⟨hid, rfl⟩⟩, rfl⟩))
  · intro e he; exact Or.inl ⟨e, he, rfl⟩
  · intro e he id hj; exact Or.inl ⟨e, he, hj⟩

theorem Keeps.trans_nil {s s1 s2 : St} {o : Out} (h1 : Keeps s s1 []) (h2 : Keeps s1 s2 o) : Keeps s s2 o := by
  have := h1.trans h2
  simpa using this

theorem Keeps.trans_nil' {s s1 s2 : St} {o : Out} (h1 : Keeps s s1 o) (h2 : Keeps s1 s2 []) : Keeps s s2 o := by
  have := h1.trans h2
  simpa using this

theorem keeps_initNoop (c : Cfg) (s : St) : Keeps s (initNoop c s).1 (initNoop c s).2 := by
  unfold initNoop
  simp only
  refine Keeps.trans_nil ?_ (keeps_execRpc c _ _ _ none)
  exact Keeps.of_superset _ (fun _ h => h) (fun _ h => h) (fun _ h => h) (fun _ h => h) (fun _ h => h)
    (fun _ h => h) (fun e he i hi => ⟨e, he, hi⟩) (fun _ h => h) (fun e he => List.mem_append_left _ he)

theorem keeps_join (c : Cfg) (s : St) (n : Nat) : Keeps s (join c s n).1 (join c s n).2 := by
  unfold join
  simp only
  split
  · exact Keeps.of_queues_eq _ rfl rfl rfl rfl rfl rfl rfl rfl rfl
  · refine Keeps.trans_nil' (s1 := (execRpc c ({ ({ s with nextId := s.nextId + 1 } : St) with replDl := s.now + c.hb } : St)
        [EntKind.conf] (some { start := s.lastEntry + 1, senders := [], wait := false, deadline := 0 }) none).1) ?_ ?_
    · refine Keeps.trans_nil ?_ (keeps_execRpc c _ _ _ none)
      exact Keeps.of_queues_eq _ rfl rfl rfl rfl rfl rfl rfl rfl rfl
    · exact Keeps.of_superset _ (fun _ h => h) (fun _ h => h) (fun _ h => h) (fun _ h => h) (fun _ h => h)
        (fun _ h => h) (fun e he i hi => ⟨e, he, hi⟩) (fun _ h => h) (fun e he => List.mem_append_left _ he)

/-- **No silent drop, one step**: in a state satisfying the invariant, whatever the event, every request that
    was pending is still pending afterwards or is answered in this step. -/
theorem keeps_step {R : List Nat} (c : Cfg) {s : St} (h : Inv R s) (e : Ev) :
    Keeps s (step c s e).1 (step c s e).2 := by
  unfold step
  split
  · exact Keeps.refl s
  · split
    · split
      · exact keeps_pushWrite c s _
      · exact keeps_pushRead c s _
      · exact keeps_pushScan c s
      · exact Keeps.refl s
    · split
      · exact keeps_pushWrite c s _
      · exact keeps_pushRead c s _
      · exact keeps_pushScan c s
      · exact keeps_join c s _
      · exact keeps_flush c s
      · exact keeps_tick c s _
      · exact keeps_ackSuccess c s _ _
      · exact Keeps.refl s
      · split
        · exact keeps_ackHigherTerm s _
        · split
          · exact keeps_ackSuccess c s _ _
          · exact Keeps.refl s
      · exact Keeps.refl s
      · exact keeps_logFlushed c s
      · exact keeps_applyUpTo h _
      · exact keeps_stepDown s
      · exact keeps_fatalInbound s
      · exact Keeps.of_queues_eq _ rfl rfl rfl rfl rfl rfl rfl rfl rfl
      · exact keeps_initNoop c s


/-- over a whole history: a request pending at the start is pending at the end or answered by one of the steps -/
theorem keeps_run (c : Cfg) (evs : List Ev) : ∀ {R : List Nat} {s : St}, Inv R s →
    ∀ id ∈ s.pending, id ∈ (run c s evs).1.pending ∨ ∃ o ∈ (run c s evs).2, id ∈ o.map (·.1) := by
  induction evs with
  | nil => intro R s _ id hid; exact Or.inl hid
  | cons e es ih =>
    intro R s h id hid
    unfold run
    simp only
    rcases keeps_step c h e id hid with h1 | h1
    · rcases ih (h.step c e) id h1 with h2 | ⟨o, ho, hin⟩
      · exact Or.inl h2
      · exact Or.inr ⟨o, List.mem_cons_of_mem _ ho, hin⟩
    · exact Or.inr ⟨_, List.mem_cons_self, h1⟩

end DEngine.ClientQ
