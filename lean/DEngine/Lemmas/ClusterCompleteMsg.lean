/-
  C05, towards leader completeness: where every message in flight after a step comes from (`msg_step`).
-/
import DEngine.Lemmas.ClusterCompleteReq
namespace DEngine.Cluster

/-- the same message, possibly with the reply channel torn down (stream error) -/
def SameMsg (a b : Msg) : Prop := a = b ∨ ∃ s d sid r rp, a = .ae s d sid r rp ∧ b = .ae s d sid r false

theorem replicatePeers_msgs' (me : NodeId) (log : Log) (term commit lastBefore cap : Nat) (newEs : Log) :
    ∀ (ps : List Peer) (sid : Nat) (m : Msg), m ∈ (replicatePeers me log term commit lastBefore cap newEs ps sid).2.1 →
      ∃ p sid', m = Msg.ae me p.id sid' (buildAppendRequest me log term commit lastBefore cap newEs p) true := by
  intro ps
  induction ps with
  | nil => intro sid m h; simp [replicatePeers] at h
  | cons p ps ih =>
    intro sid m h
    simp only [replicatePeers] at h
    rw [List.mem_append] at h
    rcases h with h | h
    · split at h <;> simp at h <;> exact ⟨p, _, h⟩
    · exact ih _ m h

inductive MsgOrigin (c c' : Cluster) (e : Event) (m : Msg) : Prop
  | old (x0 : Nat × Msg) : x0 ∈ c.msgs → SameMsg x0.2 m → MsgOrigin c c' e m
  | built (i : NodeId) (q : Peer) (sid : Nat) (r : AeReq) : m = .ae i q.id sid r true →
      BuiltBy c i (c'.nodes i).log (c'.nodes i).term r → (c'.nodes i).role = .leader →
      MsgOrigin c c' e m
  | answer (mid src dst sid : Nat) (req : AeReq) (rp : Bool) : e = .deliverAe mid →
      findMsg c mid = some (.ae src dst sid req rp) → (c.nodes dst).ready = true → c.valid dst = true →
      m = .resp dst src sid (onAppendEntries (c.nodes dst) req).2.1 (onAppendEntries (c.nodes dst) req).2.2.1 →
      c'.nodes dst = (onAppendEntries (c.nodes dst) req).1 → (∀ j, j ≠ dst → c'.nodes j = c.nodes j) →
      MsgOrigin c c' e m

theorem leaderRound_msg (c : Cluster) (i : NodeId) (nd : Node) (p : Option Nat) :
    ∀ x ∈ (leaderRound c i nd p).msgs, x ∈ c.msgs ∨
      ∃ (q : Peer) (sid : Nat) (r : AeReq), x.2 = .ae i q.id sid r true ∧ BuiltBy c i (nd.log ++ newEntries nd p) nd.term r := by
  intro x hx
  simp only [leaderRound, addMsgs] at hx
  rw [List.mem_append] at hx
  rcases hx with hx | hx
  · exact Or.inl hx
  · right
    have hm := mem_number hx
    simp only [replicate] at hm
    obtain ⟨q, sid', hq⟩ := replicatePeers_msgs' _ _ _ _ _ _ _ _ _ _ hm
    exact ⟨q, sid', _, hq, q, _, _, _, rfl, fun y hy => List.mem_append_right _ hy⟩

theorem msg_step (c : Cluster) (e : Event) : ∀ x ∈ (step c e).1.msgs, MsgOrigin c (step c e).1 e x.2 := by
  cases e with
  | tick i =>
    simp only [step]; unfold stepTick; dsimp only
    split
    · exact fun x hx => .old x hx (Or.inl rfl)
    · split
      · exact fun x hx => .old x hx (Or.inl rfl)
      · split <;> exact fun x hx => .old x hx (Or.inl rfl)
      · next hrole =>
        intro x hx
        rcases leaderRound_msg c i (c.nodes i) none x hx with h | ⟨q, sid, r, hm, hb⟩
        · exact .old x h (Or.inl rfl)
        · refine .built i q sid r hm ?_ ?_
          · rw [leaderRound_node, if_pos rfl, (replicate_spec _ _ _ _ _).1, (replicate_spec _ _ _ _ _).2.2]; exact hb
          · rw [leaderRound_node, if_pos rfl, (replicate_spec _ _ _ _ _).2.1]; exact hrole
  | voteReq a b =>
    simp only [step]; unfold stepVoteReq; dsimp only
    split
    · split <;> exact fun x hx => .old x hx (Or.inl rfl)
    · exact fun x hx => .old x hx (Or.inl rfl)
  | voteResp a b =>
    simp only [step]; unfold stepVoteResp; dsimp only
    split
    · split
      · split <;> exact fun x hx => .old x hx (Or.inl rfl)
      · exact fun x hx => .old x hx (Or.inl rfl)
    · exact fun x hx => .old x hx (Or.inl rfl)
  | voteEnd i =>
    simp only [step]; unfold stepVoteEnd; dsimp only
    split
    · split
      · exact fun x hx => .old x hx (Or.inl rfl)
      · split
        · intro x hx
          rcases leaderRound_msg _ i (asLeader i c.n (c.nodes i)) (some 0) x hx with h | ⟨q, sid, r, hm, hb⟩
          · exact .old x h (Or.inl rfl)
          · refine .built i q sid r hm ?_ ?_
            · rw [leaderRound_node, if_pos rfl, (replicate_spec _ _ _ _ _).1, (replicate_spec _ _ _ _ _).2.2]; exact hb
            · rw [leaderRound_node, if_pos rfl, (replicate_spec _ _ _ _ _).2.1]; rfl
        · exact fun x hx => .old x hx (Or.inl rfl)
        · exact fun x hx => .old x hx (Or.inl rfl)
        · exact fun x hx => .old x hx (Or.inl rfl)
    · exact fun x hx => .old x hx (Or.inl rfl)
  | write i w =>
    simp only [step]; unfold stepWrite; dsimp only
    split
    · exact fun x hx => .old x hx (Or.inl rfl)
    · split
      · next hrole =>
        simp at hrole
        intro x hx
        rcases leaderRound_msg c i (c.nodes i) (some (w + 1)) x hx with h | ⟨q, sid, r, hm, hb⟩
        · exact .old x h (Or.inl rfl)
        · refine .built i q sid r hm ?_ ?_
          · simp only [setNode_same]
            rw [leaderRound_node, if_pos rfl, (replicate_spec _ _ _ _ _).1, (replicate_spec _ _ _ _ _).2.2]; exact hb
          · simp only [setNode_same]
            rw [leaderRound_node, if_pos rfl, (replicate_spec _ _ _ _ _).2.1]; exact hrole
      · exact fun x hx => .old x hx (Or.inl rfl)
  | deliverAe m =>
    simp only [step]; unfold stepDeliverAe; dsimp only
    split
    · next src dst sid req reply hfm =>
      split
      · exact fun x hx => .old x hx (Or.inl rfl)
      · next hen =>
        have hready : (c.nodes dst).ready = true := by
          cases hr : (c.nodes dst).ready
          · simp [hr] at hen
          · rfl
        have hvalid : c.valid dst = true := by
          cases hr : c.valid dst
          · simp [hr] at hen
          · rfl
        split
        · intro x hx
          simp only [addMsgs, List.mem_append] at hx
          rcases hx with hx | hx
          · exact .old x (removeMsg_sub c m hx) (Or.inl rfl)
          · simp [number] at hx; subst hx
            refine .answer m src dst sid req reply rfl hfm hready hvalid rfl ?_ ?_
            · show setNode (removeMsg c m).nodes dst _ dst = _; simp
            · intro j hj; show setNode (removeMsg c m).nodes dst _ j = _; rw [setNode_other _ _ hj]; rfl
        · exact fun x hx => .old x (removeMsg_sub c m hx) (Or.inl rfl)
    · exact fun x hx => .old x hx (Or.inl rfl)
  | deliverResp m =>
    simp only [step]; unfold stepDeliverResp; dsimp only
    split
    · split
      · exact fun x hx => .old x (removeMsg_sub c m hx) (Or.inl rfl)
      · split
        · exact fun x hx => .old x (removeMsg_sub c m hx) (Or.inl rfl)
        · intro x hx
          have : x ∈ (removeMsg c m).msgs := by
            unfold recordCommit at hx; split at hx <;> exact hx
          exact .old x (removeMsg_sub c m this) (Or.inl rfl)
    · exact fun x hx => .old x hx (Or.inl rfl)
  | drop m => exact fun x hx => .old x (removeMsg_sub c m hx) (Or.inl rfl)
  | dup m =>
    simp only [step]; unfold stepDup; (try dsimp only)
    split
    · next src dst sid req reply hfm =>
      obtain ⟨y, hy, hyx⟩ := findMsg_mem hfm
      intro x hx
      simp only [addMsgs, List.mem_append] at hx
      rcases hx with hx | hx
      · exact .old x hx (Or.inl rfl)
      · simp [number] at hx; subst hx
        exact .old y hy (Or.inl hyx)
    · exact fun x hx => .old x hx (Or.inl rfl)
  | streamErr l p =>
    simp only [step]; unfold stepStreamErr; dsimp only
    split
    · exact fun x hx => .old x hx (Or.inl rfl)
    · split
      · split
        · exact fun x hx => .old x hx (Or.inl rfl)
        · intro x hx
          simp only [List.mem_map, List.mem_filter] at hx
          obtain ⟨y, ⟨hy, _⟩, hyx⟩ := hx
          refine .old y hy ?_
          cases hm : y.2 with
          | ae s d sid rq rp =>
            simp only [hm] at hyx
            split at hyx
            · subst hyx; exact Or.inr ⟨s, d, sid, rq, rp, rfl, rfl⟩
            · subst hyx; exact Or.inl hm.symm
          | resp s d sid t rs =>
            simp only [hm] at hyx
            subst hyx
            exact Or.inl hm.symm
      · exact fun x hx => .old x hx (Or.inl rfl)
  | streamClosed l p =>
    simp only [step]; unfold stepStreamClosed; dsimp only
    split
    · exact fun x hx => .old x hx (Or.inl rfl)
    · split
      · split
        · exact fun x hx => .old x hx (Or.inl rfl)
        · intro x hx
          simp only [List.mem_map, List.mem_filter] at hx
          obtain ⟨y, ⟨hy, _⟩, hyx⟩ := hx
          refine .old y hy ?_
          cases hm : y.2 with
          | ae s d sid rq rp =>
            simp only [hm] at hyx
            split at hyx
            · subst hyx; exact Or.inr ⟨s, d, sid, rq, rp, rfl, rfl⟩
            · subst hyx; exact Or.inl hm.symm
          | resp s d sid t rs =>
            simp only [hm] at hyx
            subst hyx
            exact Or.inl hm.symm
      · exact fun x hx => .old x hx (Or.inl rfl)
  | logFlushed i =>
    simp only [step]; unfold stepLogFlushed; dsimp only
    split
    · exact fun x hx => .old x hx (Or.inl rfl)
    · split
      · intro x hx
        have : x ∈ c.msgs := by
          unfold recordCommit at hx; split at hx <;> exact hx
        exact .old x this (Or.inl rfl)
      · exact fun x hx => .old x hx (Or.inl rfl)
  | applyCompleted i k =>
    simp only [step]; unfold stepApplyCompleted; dsimp only
    split
    · exact fun x hx => .old x hx (Or.inl rfl)
    · split <;> exact fun x hx => .old x hx (Or.inl rfl)
  | crash i k =>
    simp only [step]; unfold stepDown'; dsimp only
    split
    · exact fun x hx => .old x hx (Or.inl rfl)
    · split <;> exact fun x hx => .old x hx (Or.inl rfl)
  | stop i =>
    simp only [step]; unfold stepDown'; dsimp only
    split
    · exact fun x hx => .old x hx (Or.inl rfl)
    · split <;> exact fun x hx => .old x hx (Or.inl rfl)
  | start i =>
    simp only [step]; unfold stepStart; (try dsimp only)
    split <;> exact fun x hx => .old x hx (Or.inl rfl)
  | nop => exact fun x hx => .old x hx (Or.inl rfl)

end DEngine.Cluster
