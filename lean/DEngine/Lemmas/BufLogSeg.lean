import DEngine.Lemmas.BufLogList
/-!
  `TermSegments`: the invariant tying the compact term index to the entries, and its preservation by
  `on_append` (tail appends, incl. the re-append after a truncation) and by removals.
-/
namespace DEngine.BufLog

theorem scanArch_snoc (arch : List (Nat × Nat)) (p : Nat × Nat) (i : Nat) :
    scanArch (arch ++ [p]) i = if p.1 ≤ i then some p.2 else scanArch arch i := by
  simp only [scanArch, List.reverse_append, List.reverse_cons, List.reverse_nil, List.nil_append,
    List.singleton_append, List.find?_cons]
  by_cases h : p.1 ≤ i <;> simp [h]

/-- What the compact index must know about the entries `m` for `entry_term` to be right. -/
structure SegInv (m : List Entry) (s : Segs) : Prop where
  /-- every entry at or above `last_term_start` carries `last_term` -/
  top : ∀ e ∈ m, s.lastStart ≤ e.index → e.term = s.lastTerm
  /-- below it, the reverse scan of the archived segments finds the entry's term — as long as no segment was dropped -/
  low : s.count ≤ maxSegs → ∀ e ∈ m, e.index < s.lastStart → scanArch s.arch e.index = some e.term
  /-- `seg_count` is the number of archived slots as long as no slot has been dropped -/
  cnt : s.count ≤ maxSegs → s.count = s.arch.length

theorem SegInv.empty : SegInv [] ({} : Segs) := ⟨by simp, by simp, fun _ => rfl⟩

theorem SegInv.sub {m m' : List Entry} {s : Segs} (h : SegInv m s) (hs : ∀ e ∈ m', e ∈ m) : SegInv m' s :=
  ⟨fun e he => h.top e (hs e he), fun hc e he => h.low hc e (hs e he), h.cnt⟩

/-- `TermSegments::get` is right or silent for every entry of the log -/
theorem SegInv.get {m : List Entry} {s : Segs} (h : SegInv m s) {e : Entry} (he : e ∈ m) :
    s.get e.index = some e.term ∨ s.get e.index = none := by
  unfold Segs.get
  by_cases h0 : s.lastTerm = 0
  · right; simp [h0]
  · by_cases h1 : s.lastStart ≤ e.index
    · left; simp [h0, h1, h.top e he h1]
    · by_cases h2 : maxSegs < s.count
      · right; simp [h0, h1, h2]
      · left; simp [h0, h1, h2, h.low (by omega) e he (by omega)]

theorem SegInv.push {m : List Entry} {s : Segs} (h : SegInv m s) {e : Entry}
    (hpos : ∀ x ∈ m, 0 < x.term) (habove : ∀ x ∈ m, x.index < e.index) :
    SegInv (m ++ [e]) (s.push e) := by
  unfold Segs.push
  by_cases ht : e.term = s.lastTerm
  · simp only [ht, if_true]
    by_cases hlt : e.index < s.lastStart
    · simp only [hlt, if_true]
      refine ⟨?_, ?_, h.cnt⟩
      · intro x hx hle
        rcases List.mem_append.mp hx with hx | hx
        · have := habove x hx; simp only at hle; omega
        · simp at hx; subst hx; exact ht
      · intro hc x hx hlt'
        simp only at hlt'
        rcases List.mem_append.mp hx with hx | hx
        · exact h.low hc x hx (by omega)
        · simp at hx; subst hx; omega
    · simp only [hlt, if_false]
      refine ⟨?_, ?_, h.cnt⟩
      · intro x hx hle
        rcases List.mem_append.mp hx with hx | hx
        · exact h.top x hx hle
        · simp at hx; subst hx; exact ht
      · intro hc x hx hlt'
        rcases List.mem_append.mp hx with hx | hx
        · exact h.low hc x hx hlt'
        · simp at hx; subst hx; omega
  · simp only [ht, if_false]
    by_cases h0 : s.lastTerm = 0
    · simp only [h0, if_true]
      refine ⟨?_, ?_, h.cnt⟩
      · intro x hx hle
        simp only at hle ⊢
        rcases List.mem_append.mp hx with hx | hx
        · have := habove x hx; omega
        · simp at hx; subst hx; rfl
      · intro hc x hx hlt'
        simp only at hlt' hc ⊢
        rcases List.mem_append.mp hx with hx | hx
        · by_cases hxs : s.lastStart ≤ x.index
          · have := h.top x hx hxs
            have := hpos x hx
            omega
          · exact h.low hc x hx (by omega)
        · simp at hx; subst hx; omega
    · simp only [h0, if_false]
      refine ⟨?_, ?_, ?_⟩
      · intro x hx hle
        simp only at hle ⊢
        rcases List.mem_append.mp hx with hx | hx
        · have := habove x hx; omega
        · simp at hx; subst hx; rfl
      · intro hc x hx hlt'
        simp only at hlt' hc ⊢
        have hc' : s.count < maxSegs := by omega
        simp only [hc', if_true]
        rcases List.mem_append.mp hx with hx | hx
        · rw [scanArch_snoc]
          by_cases hxs : s.lastStart ≤ x.index
          · simp only [hxs, if_true]; rw [h.top x hx hxs]
          · simp only [hxs, if_false]; exact h.low (by omega) x hx (by omega)
        · simp at hx; subst hx; omega
      · intro hc
        simp only at hc ⊢
        have hc' : s.count < maxSegs := by omega
        have hcnt := h.cnt (by omega)
        rw [if_pos hc']
        simp [hcnt]

theorem SegInv.onAppend {m : List Entry} {s : Segs} {k : Nat} {es : List Entry} (h : SegInv m s)
    (hpos : ∀ x ∈ m, 0 < x.term) (habove : ∀ x ∈ m, x.index < k) (hc : contigFrom k es = true)
    (hpes : termsPos es = true) :
    SegInv (m ++ es) (s.onAppend es) := by
  induction es generalizing m s k with
  | nil => simpa [Segs.onAppend] using h
  | cons e es ih =>
    simp only [contigFrom_cons, Bool.and_eq_true, beq_iff_eq] at hc
    simp only [termsPos, List.all_cons, Bool.and_eq_true, decide_eq_true_eq] at hpes
    have h1 := h.push (e := e) hpos (fun x hx => by have := habove x hx; omega)
    have := ih (m := m ++ [e]) (s := s.push e) (k := k + 1) h1
      (by intro x hx
          rcases List.mem_append.mp hx with hx | hx
          · exact hpos x hx
          · simp at hx; subst hx; exact hpes.1)
      (by intro x hx
          rcases List.mem_append.mp hx with hx | hx
          · have := habove x hx; omega
          · simp at hx; subst hx; omega)
      hc.2 (by simpa [termsPos] using hpes.2)
    simp only [Segs.onAppend]
    simpa using this

end DEngine.BufLog
