/-
  Step lemmas for "committed entries are never lost" (C05): what a follower keeps when it accepts an AppendEntries
  request (every path of `filter_out_conflicts_and_append` except the prev=(0,0) reset), and the complete list of
  ways in which a node's log can change in one step of the cluster model.
-/
import DEngine.Lemmas.ClusterStep
namespace DEngine.Cluster

/-- the (index, term) of an entry determines the entry, for entries recorded in a functional ghost map -/
theorem entry_eq_of_recs {g : List GRec} (hg : GFun g) {x y : Entry} {px py : Nat}
    (hx : (⟨x.index, x.term, x.payload, px⟩ : GRec) ∈ g) (hy : (⟨y.index, y.term, y.payload, py⟩ : GRec) ∈ g)
    (hi : y.index = x.index) (ht : y.term = x.term) : y = x := by
  have := hg _ hy _ hx (by simpa using hi) (by simpa using ht)
  cases x; cases y
  simp at this hi ht ⊢
  exact ⟨hi, ht, this.2.2.1⟩

theorem mem_chain_rec {g : List GRec} {l : Log} {pi pt : Nat} (hc : ChainFrom g pi pt l) {x : Entry} (hx : x ∈ l) :
    ∃ p, (⟨x.index, x.term, x.payload, p⟩ : GRec) ∈ g := by
  obtain ⟨k, hk⟩ := List.getElem?_of_mem hx
  exact ⟨_, (chainFrom_get hc hk).2⟩

/-- Non-reset accept: entries at or below prev, and entries that the request repeats (same index and term), are
    never discarded. -/
theorem accept_keeps {g : List GRec} (hg : GFun g) {l es : Log} {pi pt : Nat} (hl : Chain g l)
    (he : ChainFrom g pi pt es) (hnr : ¬(pi = 0 ∧ pt = 0)) {x : Entry} (hx : x ∈ l)
    (hk : x.index ≤ pi ∨ ∃ y ∈ es, y.index = x.index ∧ y.term = x.term) :
    x ∈ (acceptEntries l pi pt es).1 := by
  unfold acceptEntries
  split
  · next h0 => simp at h0; exact absurd h0 hnr
  · split
    · exact hx
    · next hprev =>
      simp at hprev
      simp only []
      split
      · split
        · exact hx
        · exact List.mem_append_left _ hx
      · split
        · exact hx
        · next pos hpos =>
          obtain ⟨hlt, _, _⟩ := findIdx_spec _ es pos hpos
          have hpe : es[pos]? = some es[pos] := List.getElem?_eq_getElem hlt
          have hhead : (es.drop pos).head? = some es[pos] := by rw [List.head?_drop]; exact hpe
          have hd := (chainFrom_get he hpe).1
          simp only [hhead]
          split
          · -- conflict truncation from d = es[pos].index
            show x ∈ l.filter (fun e => decide (e.index < es[pos].index)) ++ es.drop pos
            rcases hk with hk | ⟨y, hy, hyi, hyt⟩
            · apply List.mem_append_left
              rw [List.mem_filter]; exact ⟨hx, by simp; omega⟩
            · obtain ⟨k, hkk⟩ := List.getElem?_of_mem hy
              have hyidx := (chainFrom_get he hkk).1
              by_cases hkp : k < pos
              · apply List.mem_append_left
                rw [List.mem_filter]; exact ⟨hx, by simp; omega⟩
              · apply List.mem_append_right
                obtain ⟨px, hpx⟩ := mem_chain_rec hl hx
                obtain ⟨py, hpy⟩ := mem_chain_rec he hy
                have hyx : y = x := entry_eq_of_recs hg hpx hpy hyi hyt
                rw [← hyx]
                have : (es.drop pos)[k - pos]? = some y := by
                  rw [List.getElem?_drop]
                  have : pos + (k - pos) = k := by omega
                  rw [this]; exact hkk
                exact List.mem_of_getElem? this
          · exact List.mem_append_left _ hx

/-- Non-reset accept of a request cut out of a log `ll` (the sender's): an entry that the follower and `ll` both
    hold is never discarded — a conflict truncation can only start above it. -/
theorem accept_keeps_shared {g : List GRec} (hg : GFun g) {l ll es : Log} {pi pt : Nat} (hl : Chain g l)
    (hll : Chain g ll) (hsub : ∀ y ∈ es, y ∈ ll) (he : ChainFrom g pi pt es) (hnr : ¬(pi = 0 ∧ pt = 0))
    {x : Entry} (hx : x ∈ l) (hxl : x ∈ ll) : x ∈ (acceptEntries l pi pt es).1 := by
  unfold acceptEntries
  split
  · next h0 => simp at h0; exact absurd h0 hnr
  · split
    · exact hx
    · next hprev =>
      simp at hprev
      simp only []
      split
      · split
        · exact hx
        · exact List.mem_append_left _ hx
      · split
        · exact hx
        · next pos hpos =>
          obtain ⟨hlt, hp, _⟩ := findIdx_spec _ es pos hpos
          have hpe : es[pos]? = some es[pos] := List.getElem?_eq_getElem hlt
          have hhead : (es.drop pos).head? = some es[pos] := by rw [List.head?_drop]; exact hpe
          simp only [hhead]
          split
          · next hdle =>
            show x ∈ l.filter (fun e => decide (e.index < es[pos].index)) ++ es.drop pos
            apply List.mem_append_left
            rw [List.mem_filter]
            refine ⟨hx, ?_⟩
            -- if x sat at or above the diverging index, l and ll would agree there, so no divergence
            apply Decidable.byContradiction
            intro hnot
            simp at hnot
            have hpd := hp es[pos] hpe
            simp at hpd
            have hlast := lastIndex_chain hl
            rcases hpd with hpd | hpd
            · omega
            · have gx := chain_mem_get hl hx
              have gxl := chain_mem_get hll hxl
              have hk : x.index - 1 + 1 = x.index := by omega
              have hagree := chain_agree hg hl hll (x.index - 1) x x gx.1 gxl.1 rfl
              rw [hk] at hagree
              have hyl := hsub es[pos] (List.mem_of_getElem? hpe)
              have gy := chain_mem_get hll hyl
              have hdi : es[pos].index - 1 < x.index := by omega
              have h1 : (l.take x.index)[es[pos].index - 1]? = some es[pos] := by
                rw [hagree, List.getElem?_take]; simp [hdi, gy.1]
              rw [List.getElem?_take] at h1
              simp [hdi] at h1
              have : entryTerm l es[pos].index = some es[pos].term := by
                rw [entryTerm_chain hl]
                have : es[pos].index ≠ 0 := by omega
                simp [this, h1]
              exact hpd this
          · exact List.mem_append_left _ hx

-- ------------------------------------------------------------------------------------------ how a log changes
/-- The ways in which the log of node `j` can change in one step. -/
inductive LogChange (c : Cluster) (e : Event) (j : NodeId) (l l' : Log) : Prop
  | same : l' = l → LogChange c e j l l'
  | append (new : Log) : l' = l ++ new → LogChange c e j l l'
  | accept (m src sid : Nat) (r : AeReq) (rp : Bool) : e = .deliverAe m → findMsg c m = some (.ae src j sid r rp) →
      l' = (acceptEntries l r.prevI r.prevT r.entries).1 → LogChange c e j l l'
  | crash (k keep : Nat) : e = .crash j k → l' = l.filter (fun x => x.index ≤ keep) → LogChange c e j l l'

theorem onAppendEntries_log (n : Node) (r : AeReq) :
    (onAppendEntries n r).1.log = n.log ∨ (onAppendEntries n r).1.log = (acceptEntries n.log r.prevI r.prevT r.entries).1 := by
  unfold onAppendEntries
  split
  · exact followerAppend_log n r
  · split
    · have hb := becomeFollower_spec { n with term := if r.term > n.term then r.term else n.term }
      have := followerAppend_log (becomeFollower { n with term := if r.term > n.term then r.term else n.term }) r
      rw [hb.2.1] at this; exact this
    · left; rfl
  · split
    · left; rfl
    · have hb := becomeFollower_spec { n with term := r.term }
      have := followerAppend_log (becomeFollower { n with term := r.term }) r
      rw [hb.2.1] at this; exact this

theorem onVoteRequest_log (n : Node) (r : VoteReq) : (onVoteRequest n r).1.log = n.log := by
  unfold onVoteRequest
  split
  · rfl
  · split
    · rw [handleVoteRequest_log]; exact (becomeFollower_spec _).2.1
    · rfl
  · split
    · rw [handleVoteRequest_log]; exact (becomeFollower_spec _).2.1
    · rfl

theorem onAppendResponse_log (n : Node) (src rt : Nat) (res : AeResult) : (onAppendResponse n src rt res).1.log = n.log := by
  unfold onAppendResponse
  split
  · rfl
  · split
    · rfl
    · split
      · exact (stepDown_spec n rt).2
      · split
        · exact (applyLeaderCommit_spec _).2.2
        · rfl
        · split
          · exact (stepDown_spec n _).2
          · rfl

theorem onLogFlushed_log (n : Node) : (onLogFlushed n).1.log = n.log := by
  unfold onLogFlushed
  split
  · exact (applyLeaderCommit_spec n).2.2
  · rfl

theorem leaderRound_log (c : Cluster) (i : NodeId) (nd : Node) (p : Option Nat) (j : NodeId) :
    ((leaderRound c i nd p).nodes j).log = if j = i then nd.log ++ newEntries nd p else (c.nodes j).log := by
  simp only [leaderRound, addMsgs]
  by_cases hj : j = i
  · subst hj; simp [(replicate_spec j nd p c.cap c.nextSid).1]
  · rw [setNode_other _ _ hj]; simp [hj]

/-- A node's log changes only by its own append (leader), by accepting a delivered request, or by a crash. -/
theorem log_step_cases (c : Cluster) (e : Event) (j : NodeId) :
    LogChange c e j (c.nodes j).log ((step c e).1.nodes j).log := by
  cases e with
  | tick i =>
    simp only [step]; unfold stepTick; dsimp only
    split
    · exact .same rfl
    · split
      · refine .same ?_
        by_cases hj : j = i
        · subst hj; simp
        · show (setNode c.nodes i _ j).log = _; rw [setNode_other _ _ hj]
      · split
        · exact .same rfl
        · refine .same ?_
          by_cases hj : j = i
          · subst hj; simp [startElection]
          · show (setNode c.nodes i _ j).log = _; rw [setNode_other _ _ hj]
      · rw [leaderRound_log]
        split
        · next hj => subst hj; exact .append _ rfl
        · exact .same rfl
  | voteReq a b =>
    simp only [step]; unfold stepVoteReq; dsimp only
    split
    · split
      · exact .same rfl
      · refine .same ?_
        show (setNode (setNode c.nodes b _) a _ j).log = _
        by_cases hja : j = a
        · subst hja; simp
        · rw [setNode_other _ _ hja]
          by_cases hjb : j = b
          · subst hjb; simp [onVoteRequest_log]
          · rw [setNode_other _ _ hjb]
    · exact .same rfl
  | voteResp a b =>
    simp only [step]; unfold stepVoteResp; dsimp only
    split
    · split
      · split
        · exact .same rfl
        · refine .same ?_
          show (setNode c.nodes a _ j).log = _
          by_cases hja : j = a
          · subst hja; simp
          · rw [setNode_other _ _ hja]
      · exact .same rfl
    · exact .same rfl
  | voteEnd i =>
    simp only [step]; unfold stepVoteEnd; dsimp only
    split
    · split
      · exact .same rfl
      · split
        · rw [leaderRound_log]
          split
          · next hj => subst hj; exact .append (newEntries (asLeader j c.n (c.nodes j)) (some 0)) rfl
          · exact .same rfl
        · refine .same ?_
          show (setNode c.nodes i _ j).log = _
          by_cases hj : j = i
          · subst hj; simp [(becomeFollower_spec _).2.1]
          · rw [setNode_other _ _ hj]
        · refine .same ?_
          show (setNode c.nodes i _ j).log = _
          by_cases hj : j = i
          · subst hj; simp
          · rw [setNode_other _ _ hj]
        · refine .same ?_
          show (setNode c.nodes i _ j).log = _
          by_cases hj : j = i
          · subst hj; simp
          · rw [setNode_other _ _ hj]
    · exact .same rfl
  | write i x =>
    simp only [step]; unfold stepWrite; dsimp only
    split
    · exact .same rfl
    · split
      · show LogChange c _ j _ (setNode (leaderRound c i (c.nodes i) (some (x + 1))).nodes i _ j).log
        by_cases hj : j = i
        · subst hj
          simp only [setNode_same]
          rw [leaderRound_log]; simp only [if_true]
          exact .append _ rfl
        · rw [setNode_other _ _ hj, leaderRound_log]; simp only [hj, if_false]
          exact .same rfl
      · exact .same rfl
  | deliverAe m =>
    simp only [step]; unfold stepDeliverAe; dsimp only
    split
    · next src dst sid req reply hfm =>
      split
      · exact .same rfl
      · have hlog : ∀ (c3 : Cluster), c3.nodes = setNode c.nodes dst (onAppendEntries (c.nodes dst) req).1 →
            LogChange c (.deliverAe m) j (c.nodes j).log (c3.nodes j).log := by
          intro c3 h3
          rw [h3]
          by_cases hj : j = dst
          · subst hj
            simp only [setNode_same]
            rcases onAppendEntries_log (c.nodes j) req with h | h
            · exact .same h
            · exact .accept m src sid req reply rfl hfm h
          · rw [setNode_other _ _ hj]; exact .same rfl
        split
        · exact hlog _ rfl
        · exact hlog _ rfl
    · exact .same rfl
  | deliverResp m =>
    simp only [step]; unfold stepDeliverResp; dsimp only
    split
    · split
      · exact .same rfl
      · split
        · exact .same rfl
        · next src dst sid rterm res hfm _ _ =>
          refine .same ?_
          rw [recordCommit_nodes]
          show (setNode (removeMsg c m).nodes dst _ j).log = _
          by_cases hj : j = dst
          · subst hj; simp [onAppendResponse_log, removeMsg]
          · rw [setNode_other _ _ hj]; rfl
    · exact .same rfl
  | drop m => exact .same rfl
  | dup m =>
    simp only [step]; unfold stepDup
    split <;> exact .same rfl
  | streamErr l p =>
    simp only [step]; unfold stepStreamErr; dsimp only
    split
    · exact .same rfl
    · split
      · split
        · exact .same rfl
        · refine .same ?_
          show (setNode c.nodes l _ j).log = _
          by_cases hj : j = l
          · subst hj; simp [onStreamError]
          · rw [setNode_other _ _ hj]
      · exact .same rfl
  | streamClosed l p =>
    simp only [step]; unfold stepStreamClosed; dsimp only
    split
    · exact .same rfl
    · split
      · split
        · exact .same rfl
        · refine .same ?_
          show (setNode c.nodes l _ j).log = _
          by_cases hj : j = l
          · subst hj; simp
          · rw [setNode_other _ _ hj]
      · exact .same rfl
  | logFlushed i =>
    simp only [step]; unfold stepLogFlushed; dsimp only
    split
    · exact .same rfl
    · split
      · refine .same ?_
        rw [recordCommit_nodes]
        show (setNode c.nodes i _ j).log = _
        by_cases hj : j = i
        · subst hj; simp [onLogFlushed_log]
        · rw [setNode_other _ _ hj]
      · refine .same ?_
        show (setNode c.nodes i _ j).log = _
        by_cases hj : j = i
        · subst hj; simp
        · rw [setNode_other _ _ hj]
  | applyCompleted i k =>
    simp only [step]; unfold stepApplyCompleted; dsimp only
    split
    · exact .same rfl
    · split
      · refine .same ?_
        show (setNode c.nodes i _ j).log = _
        by_cases hj : j = i
        · subst hj; simp
        · rw [setNode_other _ _ hj]
      · exact .same rfl
  | crash i k =>
    simp only [step]; unfold stepDown'; dsimp only
    split
    · exact .same rfl
    · split
      · exact .same rfl
      · by_cases hj : j = i
        · subst hj
          show LogChange c _ j _ (setNode c.nodes j (downNode (c.nodes j) (some k)) j).log
          simp only [setNode_same, downNode]
          exact .crash k _ rfl rfl
        · refine .same ?_
          show (setNode c.nodes i _ j).log = _
          rw [setNode_other _ _ hj]
  | stop i =>
    simp only [step]; unfold stepDown'; dsimp only
    split
    · exact .same rfl
    · split
      · exact .same rfl
      · refine .same ?_
        show (setNode c.nodes i _ j).log = _
        by_cases hj : j = i
        · subst hj; simp [downNode]
        · rw [setNode_other _ _ hj]
  | start i =>
    simp only [step]; unfold stepStart; dsimp only
    split
    · exact .same rfl
    · refine .same ?_
      show (setNode c.nodes i _ j).log = _
      by_cases hj : j = i
      · subst hj; simp
      · rw [setNode_other _ _ hj]
  | nop => exact .same rfl

end DEngine.Cluster
