import DEngine.Model.Elect
import DEngine.Model.ElectCluster
/-!
  Node-level lemmas of M-ELECT: what one handler call can do to `(term, voted_for, role)`.
  `Quiet`  — a step that casts no vote: the term does not decrease and the vote is kept, or reset where that is
             harmless (term bump / nothing or a stale vote to reset), or overwritten by an announced leader.
  `Granted` — a step that grants a vote.
-/
namespace DEngine.Elect

/-- the `(id, term)` part of a vote (`committed` plays no role in the vote rules) -/
def key (vf : Option VF) : Option (Nat × Nat) := vf.map fun v => (v.id, v.term)

@[simp] theorem key_none : key none = none := rfl
@[simp] theorem key_some (v : VF) : key (some v) = some (v.id, v.term) := rfl

theorem key_eq_none {vf : Option VF} : key vf = none ↔ vf = none := by
  cases vf <;> simp [key]

structure Quiet (isL : Nat → Nat → Prop) (n n' : Node) : Prop where
  id : n'.id = n.id
  term : n.term ≤ n'.term
  vote : key n'.vf = key n.vf
       ∨ (n'.vf = none ∧ (n.term < n'.term ∨ ∀ v, n.vf = some v → v.term < n.term))
       ∨ (∃ v, n'.vf = some v ∧ v.term = n'.term ∧ v.id ≠ 0 ∧ isL v.id v.term)
  leader : n'.role = .leader → n.role = .leader ∧ n'.term = n.term ∧ n'.noopTerm = n.noopTerm

structure Granted (n n' : Node) (r : VoteReq) : Prop where
  id : n'.id = n.id
  term' : n'.term = r.term
  vf' : key n'.vf = some (r.cand, r.term)
  pre : n.term < r.term ∨
        (n.term = r.term ∧ (n.vf = none ∨ key n.vf = some (r.cand, r.term)
          ∨ ∃ v, n.vf = some v ∧ (v.term < n.term ∨ v.id = 0)))
  role' : n'.role ≠ .leader

theorem Quiet.refl (isL : Nat → Nat → Prop) (n : Node) : Quiet isL n n :=
  ⟨rfl, Nat.le_refl _, Or.inl rfl, fun h => ⟨h, rfl, rfl⟩⟩

/-! ### notify / role changes -/

theorem notify_eq (n : Node) (l : Option Nat) (t : Nat) :
    notify n l t = n ∨
    notify n l t = { n with watch := l.map (fun x => (x, t)), pubs := l.map (fun x => (x, t)) :: n.pubs } := by
  unfold notify
  by_cases h : n.watch = Option.map (fun l => (l, t)) l
  · left; simp [h]
  · right; simp [h]

@[simp] theorem notify_id (n : Node) (l : Option Nat) (t : Nat) : (notify n l t).id = n.id := by
  rcases notify_eq n l t with h | h <;> rw [h]
@[simp] theorem notify_term (n : Node) (l : Option Nat) (t : Nat) : (notify n l t).term = n.term := by
  rcases notify_eq n l t with h | h <;> rw [h]
@[simp] theorem notify_vf (n : Node) (l : Option Nat) (t : Nat) : (notify n l t).vf = n.vf := by
  rcases notify_eq n l t with h | h <;> rw [h]
@[simp] theorem notify_role (n : Node) (l : Option Nat) (t : Nat) : (notify n l t).role = n.role := by
  rcases notify_eq n l t with h | h <;> rw [h]
@[simp] theorem notify_noop (n : Node) (l : Option Nat) (t : Nat) : (notify n l t).noopTerm = n.noopTerm := by
  rcases notify_eq n l t with h | h <;> rw [h]
@[simp] theorem notify_lli (n : Node) (l : Option Nat) (t : Nat) : (notify n l t).lli = n.lli := by
  rcases notify_eq n l t with h | h <;> rw [h]
@[simp] theorem notify_llt (n : Node) (l : Option Nat) (t : Nat) : (notify n l t).llt = n.llt := by
  rcases notify_eq n l t with h | h <;> rw [h]
@[simp] theorem notify_leader (n : Node) (l : Option Nat) (t : Nat) : (notify n l t).leader = n.leader := by
  rcases notify_eq n l t with h | h <;> rw [h]

@[simp] theorem updateVotedFor_vf (n : Node) (v : VF) : (updateVotedFor n v).1.vf = some v := rfl
@[simp] theorem updateVotedFor_term (n : Node) (v : VF) : (updateVotedFor n v).1.term = n.term := rfl
@[simp] theorem updateVotedFor_id (n : Node) (v : VF) : (updateVotedFor n v).1.id = n.id := rfl
@[simp] theorem updateVotedFor_role (n : Node) (v : VF) : (updateVotedFor n v).1.role = n.role := rfl
@[simp] theorem updateVotedFor_noop (n : Node) (v : VF) : (updateVotedFor n v).1.noopTerm = n.noopTerm := rfl
@[simp] theorem updateVotedFor_lli (n : Node) (v : VF) : (updateVotedFor n v).1.lli = n.lli := rfl
@[simp] theorem updateVotedFor_llt (n : Node) (v : VF) : (updateVotedFor n v).1.llt = n.llt := rfl

/-- effect of `BecomeFollower` on the vote-relevant fields -/
theorem becomeFollower_fields (n : Node) (l : Option Nat) :
    (becomeFollower n l).id = n.id ∧ (becomeFollower n l).term = n.term ∧ (becomeFollower n l).lli = n.lli ∧
    (becomeFollower n l).llt = n.llt ∧ (becomeFollower n l).role = .follower ∨
    (n.role = .follower ∧ becomeFollower n l = n) := by
  unfold becomeFollower
  cases h : n.role <;> simp

theorem becomeFollower_role (n : Node) (l : Option Nat) : (becomeFollower n l).role = .follower := by
  unfold becomeFollower
  cases h : n.role <;> simp [h]

@[simp] theorem becomeFollower_id (n : Node) (l : Option Nat) : (becomeFollower n l).id = n.id := by
  unfold becomeFollower; cases n.role <;> simp
@[simp] theorem becomeFollower_term (n : Node) (l : Option Nat) : (becomeFollower n l).term = n.term := by
  unfold becomeFollower; cases n.role <;> simp
@[simp] theorem becomeFollower_lli (n : Node) (l : Option Nat) : (becomeFollower n l).lli = n.lli := by
  unfold becomeFollower; cases n.role <;> simp
@[simp] theorem becomeFollower_llt (n : Node) (l : Option Nat) : (becomeFollower n l).llt = n.llt := by
  unfold becomeFollower; cases n.role <;> simp

theorem keepCurrentVote_cases (t : Nat) (vf : Option VF) :
    keepCurrentVote t vf = vf ∨ (keepCurrentVote t vf = none ∧ ∀ v, vf = some v → v.term < t) := by
  unfold keepCurrentVote
  cases vf with
  | none => left; rfl
  | some v =>
    by_cases h : v.term < t
    · right; simp only [h, if_true, true_and]; intro v' hv; cases hv; exact h
    · left; simp [h]

/-- a step-down keeps the vote or forgets one of an older term -/
theorem becomeFollower_vf_cases (n : Node) (l : Option Nat) :
    (becomeFollower n l).vf = n.vf ∨ ((becomeFollower n l).vf = none ∧ ∀ v, n.vf = some v → v.term < n.term) := by
  unfold becomeFollower
  cases hr : n.role
  · left; rfl
  all_goals
    simp only [notify_vf]
    exact keepCurrentVote_cases n.term n.vf

/-! ### vote requests -/

theorem voteDecision_granted {r : VoteReq} {cur : Nat} {vf : Option VF} {lli llt : Nat}
    (h : (voteDecision r cur vf lli llt).granted = true) :
    cur ≤ r.term ∧ (cur < r.term ∨ vf = none ∨ key vf = some (r.cand, r.term)) := by
  unfold voteDecision at h
  by_cases h1 : r.term < cur
  · simp [h1, VoteDecision.granted] at h
  · by_cases h2 : isTargetLogMoreRecent lli llt r.lli r.llt = true
    · simp only [h1, if_false, h2, Bool.not_true, Bool.false_eq_true] at h
      by_cases hgt : r.term > cur
      · exact ⟨by omega, Or.inl hgt⟩
      · simp only [hgt, if_false] at h
        refine ⟨by omega, Or.inr ?_⟩
        cases vf with
        | none => left; rfl
        | some v =>
          right
          by_cases hv : v.term = r.term ∧ v.id = r.cand
          · simp [key, hv.1, hv.2]
          · simp [hv, VoteDecision.granted] at h
    · simp [h1, h2, VoteDecision.granted] at h

/-- `follower_state.rs` ReceiveVoteRequest -/
theorem followerOnVoteReq_spec (isL : Nat → Nat → Prop) (n : Node) (r : VoteReq) (hr : n.role ≠ .leader) :
    ((followerOnVoteReq n r).2.granted = true → Granted n (followerOnVoteReq n r).1 r) ∧
    ((followerOnVoteReq n r).2.granted = false → Quiet isL n (followerOnVoteReq n r).1) := by
  unfold followerOnVoteReq handleVoteRequest
  by_cases hg : (voteDecision r n.term n.vf n.lli n.llt).granted = true
  · have hd := voteDecision_granted hg
    simp only [hg, if_true, Option.isSome_some]
    refine ⟨fun _ => ?_, fun h => by simp at h⟩
    by_cases hgt : r.term > n.term
    · simp only [hgt, if_true]
      exact ⟨rfl, rfl, rfl, Or.inl hgt, by simpa using hr⟩
    · simp only [hgt, if_false]
      have heq : n.term = r.term := by omega
      refine ⟨rfl, heq, rfl, ?_, by simpa using hr⟩
      rcases hd.2 with h1 | h1 | h1
      · omega
      · exact Or.inr ⟨heq, Or.inl h1⟩
      · exact Or.inr ⟨heq, Or.inr (Or.inl h1)⟩
  · simp only [hg, Bool.false_eq_true, if_false, Option.isSome_none]
    refine ⟨fun h => by simp at h, fun _ => ?_⟩
    by_cases hgt : r.term > n.term
    · simp only [hgt, if_true]
      exact ⟨rfl, Nat.le_of_lt hgt, Or.inl rfl, fun h => absurd h hr⟩
    · simp only [hgt, if_false]
      exact Quiet.refl isL n

theorem checkLegal_spec {r : VoteReq} {n : Node}
    (h : checkVoteRequestIsLegal r n.term n.lli n.llt n.vf = true) :
    n.term ≤ r.term ∧ isTargetLogMoreRecent n.lli n.llt r.lli r.llt = true ∧
    (n.vf = none ∨ ∃ v, n.vf = some v ∧ (v.id = 0 ∨ v.term < r.term)) := by
  unfold checkVoteRequestIsLegal at h
  split at h
  · simp at h
  · rename_i h1
    split at h
    · simp at h
    · rename_i h2
      split at h
      · simp at h
      · rename_i h3
        refine ⟨Nat.le_of_not_lt h1, by simpa using h2, ?_⟩
        cases hv : n.vf with
        | none => exact Or.inl rfl
        | some v =>
          right
          refine ⟨v, rfl, ?_⟩
          simp only [hv, Option.isSome_some, Bool.true_and, Bool.not_eq_true', ifNodeCouldGrant] at h3
          by_cases h0 : v.id = 0
          · exact Or.inl h0
          · right
            simp only [h0, if_false] at h3
            by_cases hlt : v.term < r.term
            · exact hlt
            · simp [hlt] at h3

/-- a follower that has no vote, is at the request's term (or below) and whose log check passes grants -/
theorem follower_grants_fresh (n : Node) (r : VoteReq) (hvf : n.vf = none) (ht : n.term ≤ r.term)
    (hlog : isTargetLogMoreRecent n.lli n.llt r.lli r.llt = true) :
    (voteDecision r n.term n.vf n.lli n.llt).granted = true := by
  unfold voteDecision
  have h1 : ¬ r.term < n.term := by omega
  simp only [h1, if_false, hlog, Bool.not_true, Bool.false_eq_true, hvf, ite_self, VoteDecision.granted]

/-- a follower that does not grant keeps its vote -/
theorem followerOnVoteReq_deny_vf (n : Node) (r : VoteReq) (h : (followerOnVoteReq n r).2.granted = false) :
    (followerOnVoteReq n r).1.vf = n.vf := by
  unfold followerOnVoteReq handleVoteRequest at *
  by_cases hg : (voteDecision r n.term n.vf n.lli n.llt).granted = true
  · simp [hg] at h
  · simp only [hg, Bool.false_eq_true, if_false]
    split <;> rfl

/-- candidate / leader path: adopt the request term, step down, replay the request on the follower -/
theorem stepDown_then_vote_spec (isL : Nat → Nat → Prop) (n : Node) (r : VoteReq) (hle : n.term ≤ r.term) :
    ((followerOnVoteReq (becomeFollower { n with term := r.term } none) r).2.granted = true →
        Granted n (followerOnVoteReq (becomeFollower { n with term := r.term } none) r).1 r) ∧
    ((followerOnVoteReq (becomeFollower { n with term := r.term } none) r).2.granted = false →
        Quiet isL n (followerOnVoteReq (becomeFollower { n with term := r.term } none) r).1) := by
  have hn1role : (becomeFollower { n with term := r.term } none).role = .follower := becomeFollower_role _ _
  have hn1term : (becomeFollower { n with term := r.term } none).term = r.term := by simp
  have hn1id : (becomeFollower { n with term := r.term } none).id = n.id := by simp
  have hn1vf : (becomeFollower { n with term := r.term } none).vf = n.vf ∨
      ((becomeFollower { n with term := r.term } none).vf = none ∧ ∀ v, n.vf = some v → v.term < r.term) :=
    becomeFollower_vf_cases { n with term := r.term } none
  generalize becomeFollower { n with term := r.term } none = n1 at *
  have hf := followerOnVoteReq_spec isL n1 r (by simp [hn1role])
  refine ⟨fun h => ?_, fun h => ?_⟩
  · have g := hf.1 h
    refine ⟨by rw [g.id, hn1id], g.term', g.vf', ?_, g.role'⟩
    by_cases hlt : n.term < r.term
    · exact Or.inl hlt
    · have heq : n.term = r.term := by omega
      right
      refine ⟨heq, ?_⟩
      rcases g.pre with h1 | ⟨_, h1⟩
      · omega
      · rcases hn1vf with hv | ⟨hv, hstale⟩
        · rw [hv] at h1
          rcases h1 with h1 | h1 | ⟨v, hv', h1⟩
          · exact Or.inl h1
          · exact Or.inr (Or.inl h1)
          · exact Or.inr (Or.inr ⟨v, hv', by rcases h1 with h1 | h1; exact Or.inl (by omega); exact Or.inr h1⟩)
        · cases hnv : n.vf with
          | none => exact Or.inl rfl
          | some v => exact Or.inr (Or.inr ⟨v, rfl, Or.inl (by have := hstale v hnv; omega)⟩)
  · have q := hf.2 h
    have hterm := q.term
    rw [hn1term] at hterm
    have hvf := followerOnVoteReq_deny_vf n1 r h
    refine ⟨by rw [q.id, hn1id], by omega, ?_, ?_⟩
    · rcases hn1vf with hv | ⟨hv, hstale⟩
      · left; rw [hvf, hv]
      · right; left
        refine ⟨by rw [hvf, hv], ?_⟩
        by_cases hlt : n.term < r.term
        · exact Or.inl (by omega)
        · right; intro v hv'; have := hstale v hv'; omega
    · intro hlead
      have := q.leader hlead
      rw [hn1role] at this
      cases this.1

theorem candidateOnVoteReq_spec (isL : Nat → Nat → Prop) (n : Node) (r : VoteReq) (hrole : n.role = .candidate) :
    ((candidateOnVoteReq n r).2.granted = true → Granted n (candidateOnVoteReq n r).1 r) ∧
    ((candidateOnVoteReq n r).2.granted = false → Quiet isL n (candidateOnVoteReq n r).1) := by
  unfold candidateOnVoteReq
  by_cases hl : checkVoteRequestIsLegal r n.term n.lli n.llt n.vf = true
  · simp only [hl, if_true]
    exact stepDown_then_vote_spec isL n r (checkLegal_spec hl).1
  · simp only [hl, Bool.false_eq_true, if_false, denyResp]
    exact ⟨fun h => by simp at h, fun _ => Quiet.refl isL n⟩

theorem leaderOnVoteReq_spec (isL : Nat → Nat → Prop) (n : Node) (r : VoteReq) (hrole : n.role = .leader) :
    ((leaderOnVoteReq n r).2.granted = true → Granted n (leaderOnVoteReq n r).1 r) ∧
    ((leaderOnVoteReq n r).2.granted = false → Quiet isL n (leaderOnVoteReq n r).1) := by
  unfold leaderOnVoteReq
  by_cases hl : n.term < r.term
  · simp only [hl, if_true]
    exact stepDown_then_vote_spec isL n r (Nat.le_of_lt hl)
  · simp only [hl, if_false, denyResp]
    exact ⟨fun h => by simp at h, fun _ => Quiet.refl isL n⟩

theorem learnerOnVoteReq_spec (isL : Nat → Nat → Prop) (n : Node) (r : VoteReq) (hrole : n.role = .learner) :
    (learnerOnVoteReq n r).2.granted = false ∧ Quiet isL n (learnerOnVoteReq n r).1 := by
  unfold learnerOnVoteReq
  refine ⟨rfl, ?_⟩
  by_cases h : r.term > n.term
  · simp only [h, if_true]
    exact ⟨rfl, Nat.le_of_lt h, Or.inl rfl, fun hl => by simp [hrole] at hl⟩
  · simp only [h, if_false]
    exact Quiet.refl isL n

theorem onVoteReq_spec (isL : Nat → Nat → Prop) (n : Node) (r : VoteReq) :
    ((onVoteReq n r).2.granted = true → Granted n (onVoteReq n r).1 r) ∧
    ((onVoteReq n r).2.granted = false → Quiet isL n (onVoteReq n r).1) := by
  unfold onVoteReq
  cases h : n.role
  · exact followerOnVoteReq_spec isL n r (by simp [h])
  · exact candidateOnVoteReq_spec isL n r h
  · exact leaderOnVoteReq_spec isL n r h
  · have := learnerOnVoteReq_spec isL n r h
    exact ⟨fun hg => by simp [this.1] at hg, fun _ => this.2⟩

/-! ### AppendEntries -/

theorem followerOnAE_stale (n : Node) (t l : Nat) (h : n.term > t) : (followerOnAE n t l).1 = n := by
  unfold followerOnAE; simp [h]

theorem followerOnAE_eq (n : Node) (t l : Nat) (h : ¬ n.term > t) :
    (followerOnAE n t l).1 =
      if isNewCommit n ⟨l, t, true⟩ then notify { n with vf := some ⟨l, t, true⟩, leader := l, term := t } (some l) t
      else { n with vf := some ⟨l, t, true⟩, leader := l, term := t } := by
  have ht : (if n.term < t then t else n.term) = t := by split <;> omega
  unfold followerOnAE leaderDiscovered
  simp only [h, if_false, ht]

theorem followerOnAE_fields (n : Node) (t l : Nat) (h : ¬ n.term > t) :
    (followerOnAE n t l).1.id = n.id ∧ (followerOnAE n t l).1.term = t ∧
    (followerOnAE n t l).1.vf = some ⟨l, t, true⟩ ∧ (followerOnAE n t l).1.role = n.role ∧
    (followerOnAE n t l).1.noopTerm = n.noopTerm := by
  rw [followerOnAE_eq n t l h]
  cases isNewCommit n ⟨l, t, true⟩ <;> simp

theorem followerOnAE_quiet (isL : Nat → Nat → Prop) (n : Node) (t l : Nat) (hL : isL l t) (hl0 : l ≠ 0)
    (hrole : n.role ≠ .leader) : Quiet isL n (followerOnAE n t l).1 := by
  by_cases h : n.term > t
  · rw [followerOnAE_stale n t l h]; exact Quiet.refl isL n
  · obtain ⟨h1, h2, h3, h4, _⟩ := followerOnAE_fields n t l h
    refine ⟨h1, by omega, Or.inr (Or.inr ⟨_, h3, by simp [h2], hl0, hL⟩), fun hl => ?_⟩
    rw [h4] at hl
    exact absurd hl hrole

/-- step down (any non-follower `n0` derived from `n` without lowering the term) and replay the AppendEntries -/
theorem stepDown_then_AE_quiet (isL : Nat → Nat → Prop) (n n0 : Node) (t l : Nat) (lid : Option Nat)
    (hL : isL l t) (hl0 : l ≠ 0) (hid : n0.id = n.id) (hterm0 : n.term ≤ n0.term) (ht : n0.term ≤ t) :
    Quiet isL n (followerOnAE (becomeFollower n0 lid) t l).1 := by
  have hr1 : (becomeFollower n0 lid).role = .follower := becomeFollower_role _ _
  have ht1 : (becomeFollower n0 lid).term = n0.term := by simp
  have hid1 : (becomeFollower n0 lid).id = n0.id := by simp
  generalize becomeFollower n0 lid = n1 at *
  obtain ⟨h1, h2, h3, h4, _⟩ := followerOnAE_fields n1 t l (by omega)
  refine ⟨by rw [h1, hid1, hid], by omega, Or.inr (Or.inr ⟨_, h3, by simp [h2], hl0, hL⟩), fun hl => ?_⟩
  rw [h4, hr1] at hl
  cases hl

theorem onAppendEntries_quiet (isL : Nat → Nat → Prop) (n : Node) (t l : Nat) (hL : isL l t) (hl0 : l ≠ 0) :
    Quiet isL n (onAppendEntries n t l).1 := by
  unfold onAppendEntries
  split
  · rename_i hr; exact followerOnAE_quiet isL n t l hL hl0 (by simp [hr])
  · rename_i hr; exact followerOnAE_quiet isL n t l hL hl0 (by simp [hr])
  · -- candidate
    by_cases h : t ≥ n.term
    · simp only [h, if_true]
      refine stepDown_then_AE_quiet isL n _ t l none hL hl0 rfl ?_ ?_
      · simp only; split <;> omega
      · simp only; split <;> omega
    · simp only [h, if_false]
      exact Quiet.refl isL n
  · -- leader
    by_cases h : n.term ≥ t
    · simp only [h, if_true]
      exact Quiet.refl isL n
    · simp only [h, if_false]
      exact stepDown_then_AE_quiet isL n { n with term := t } t l (some l) hL hl0 rfl (by simp; omega) (by simp)

/-! ### other quiet steps -/

theorem becomeCandidate_quiet (isL : Nat → Nat → Prop) (n : Node) : Quiet isL n (becomeCandidate n) := by
  unfold becomeCandidate
  cases hr : n.role
  · exact ⟨by simp, by simp, Or.inl (by simp), fun h => by simp at h⟩
  all_goals exact Quiet.refl isL n

/-- `BecomeFollower` alone: the vote is kept, or a vote of an older term is forgotten -/
theorem becomeFollower_quiet (isL : Nat → Nat → Prop) (n : Node) (l : Option Nat) :
    Quiet isL n (becomeFollower n l) := by
  refine ⟨by simp, by simp, ?_, fun hl => by rw [becomeFollower_role] at hl; cases hl⟩
  rcases becomeFollower_vf_cases n l with h | ⟨h, hs⟩
  · left; rw [h]
  · right; left; exact ⟨h, Or.inr hs⟩

/-- adopting a strictly higher term and stepping down -/
theorem bumpAndStepDown_quiet (isL : Nat → Nat → Prop) (n : Node) (t : Nat) (h : n.term < t) :
    Quiet isL n (becomeFollower { n with term := t } none) := by
  refine ⟨by simp, by simp; omega, ?_, fun hl => by rw [becomeFollower_role] at hl; cases hl⟩
  rcases becomeFollower_vf_cases { n with term := t } none with hv | ⟨hv, _⟩
  · left; rw [hv]
  · right; left; exact ⟨hv, Or.inl (by simpa using h)⟩

theorem leaderOnHigherTerm_quiet (isL : Nat → Nat → Prop) (n : Node) (t : Nat) :
    Quiet isL n (leaderOnHigherTerm n t) := by
  unfold leaderOnHigherTerm
  split
  · by_cases h : t > n.term
    · simp only [h, if_true]
      exact bumpAndStepDown_quiet isL n t h
    · simp only [h, if_false]
      exact Quiet.refl isL n
  · exact Quiet.refl isL n

theorem noopCommitted_quiet (isL : Nat → Nat → Prop) (n : Node) (t : Nat) : Quiet isL n (noopCommitted n t) := by
  unfold noopCommitted
  exact ⟨by simp, by simp, Or.inl (by simp), fun h => by simpa using h⟩

theorem logChange_quiet (isL : Nat → Nat → Prop) (n : Node) (a b : Nat) :
    Quiet isL n { n with lli := a, llt := b } :=
  ⟨rfl, Nat.le_refl _, Or.inl rfl, fun h => ⟨h, rfl, rfl⟩⟩

/-- a lost / failed election leaves the candidate as it is; a higher term in a reply makes it step down -/
theorem finishElection_quiet (isL : Nat → Nat → Prop) (n : Node) (o : Outcome) (ho : o.isOk = false)
    (hterm : ∀ t, o = .higherTerm t → n.term < t) : Quiet isL n (finishElection n o) := by
  unfold finishElection
  cases o <;> simp [Outcome.isOk] at ho ⊢
  case higherTerm t => exact bumpAndStepDown_quiet isL n t (hterm t rfl)
  all_goals exact Quiet.refl isL n

end DEngine.Elect
