/-
  C05, towards leader completeness: provenance of vote grants, elections and votes.
-/
import DEngine.Lemmas.ClusterCompleteWin
namespace DEngine.Cluster

theorem recordCommit_grants (c : Cluster) (i : NodeId) (b : Nat) : (recordCommit c i b).grants = c.grants := by
  unfold recordCommit; split <;> rfl

/-- how the list of vote grants changes in one step -/
inductive GrantsGrow (c c' : Cluster) (e : Event) : Prop
  | same : c'.grants = c.grants → GrantsGrow c c' e
  | self (i : NodeId) : e = .tick i → c'.grants = (i, (c.nodes i).term + 1, i) :: c.grants →
      (c.nodes i).election = none → c'.nodes i = startElection i (c.nodes i) → GrantsGrow c c' e
  | vote (cand z : NodeId) (el : Election) : e = .voteReq cand z → (c.nodes cand).election = some el → cand ≠ z →
      (c.nodes z).ready = true → (onVoteRequest (c.nodes z) el.req).2.1.granted = true →
      c'.grants = (z, el.req.term, cand) :: c.grants → c'.nodes z = (onVoteRequest (c.nodes z) el.req).1 →
      GrantsGrow c c' e

theorem grants_step (c : Cluster) (e : Event) : GrantsGrow c (step c e).1 e := by
  cases e with
  | tick i =>
    simp only [step]; unfold stepTick; dsimp only
    split
    · exact .same rfl
    · next hen =>
      have hready : (c.nodes i).ready = true := by
        cases hr : (c.nodes i).ready
        · simp [hr] at hen
        · rfl
      split
      · exact .same rfl
      · split
        · exact .same rfl
        · exact .self i rfl rfl (ready_no_election hready) (by simp)
      · exact .same rfl
  | voteReq a b =>
    simp only [step]; unfold stepVoteReq; dsimp only
    split
    · next el hel =>
      split
      · exact .same rfl
      · next hen =>
        simp only [Bool.not_eq_false, Bool.and_eq_true, bne_iff_ne, ne_eq,
          List.contains_eq_mem, decide_eq_false_iff_not, Bool.not_eq_eq_eq_not, Bool.not_true] at hen
        obtain ⟨⟨⟨⟨⟨_, _⟩, hvb⟩, hready⟩, hab⟩, hdel⟩ := hen
        cases hgr : (onVoteRequest (c.nodes b) el.req).2.1.granted
        · refine .same ?_
          simp only [hgr]; rfl
        · refine .vote a b el rfl hel hab hready hgr ?_ ?_
          · simp only [hgr]; rfl
          · show setNode (setNode c.nodes b _) a _ b = _
            rw [setNode_other _ _ (fun h => hab h.symm)]; simp
    · exact .same rfl
  | voteResp a b => simp only [step]; unfold stepVoteResp; dsimp only; split <;> (try split) <;> (try split) <;> exact .same rfl
  | voteEnd i =>
    simp only [step]; unfold stepVoteEnd; dsimp only
    split
    · split
      · exact .same rfl
      · split <;> exact .same rfl
    · exact .same rfl
  | write i x => simp only [step]; unfold stepWrite; dsimp only; split <;> (try split) <;> exact .same rfl
  | deliverAe m => simp only [step]; unfold stepDeliverAe; dsimp only; split <;> (try split) <;> (try split) <;> exact .same rfl
  | deliverResp m =>
    simp only [step]; unfold stepDeliverResp; dsimp only
    split <;> (try split) <;> (try split) <;> first | exact .same rfl | exact .same (by rw [recordCommit_grants]; rfl)
  | drop m => exact .same rfl
  | dup m => simp only [step]; unfold stepDup; (try dsimp only); split <;> exact .same rfl
  | streamErr l p => simp only [step]; unfold stepStreamErr; dsimp only; split <;> (try split) <;> (try split) <;> exact .same rfl
  | streamClosed l p => simp only [step]; unfold stepStreamClosed; dsimp only; split <;> (try split) <;> (try split) <;> exact .same rfl
  | logFlushed i =>
    simp only [step]; unfold stepLogFlushed; dsimp only
    split <;> (try split) <;> first | exact .same rfl | exact .same (by rw [recordCommit_grants])
  | applyCompleted i k => simp only [step]; unfold stepApplyCompleted; dsimp only; split <;> (try split) <;> exact .same rfl
  | crash i k => simp only [step]; unfold stepDown'; dsimp only; split <;> (try split) <;> exact .same rfl
  | stop i => simp only [step]; unfold stepDown'; dsimp only; split <;> (try split) <;> exact .same rfl
  | start i => simp only [step]; unfold stepStart; (try dsimp only); split <;> exact .same rfl
  | nop => exact .same rfl

end DEngine.Cluster

namespace DEngine.Cluster

/-- an election record after the step is the old one (same request; the candidate's log and term are frozen) -/
def ElectKept (n n' : Node) : Prop :=
  ∀ el', n'.election = some el' → ∃ el, n.election = some el ∧ el'.req = el.req ∧ n'.log = n.log ∧ n'.term = n.term

theorem electKept_refl (n : Node) : ElectKept n n := fun el' h => ⟨el', h, rfl, rfl, rfl⟩

theorem electKept_none {n n' : Node} (h : n'.election = none) : ElectKept n n' := fun el' h' => by rw [h] at h'; cases h'

theorem onLogFlushed_election (n : Node) : (onLogFlushed n).1.election = n.election := by
  simp only [onLogFlushed]
  split
  · simp only [applyLeaderCommit]; split <;> rfl
  · rfl

theorem election_step (c : Cluster) (e : Event) (i : NodeId) :
    ElectKept (c.nodes i) ((step c e).1.nodes i) ∨
    (e = .tick i ∧ (c.nodes i).election = none ∧ (step c e).1.nodes i = startElection i (c.nodes i)) := by
  have R := electKept_refl
  cases e with
  | tick a =>
    simp only [step]; unfold stepTick; dsimp only
    split
    · left; exact R _
    · next hen =>
      have hready : (c.nodes a).ready = true := by
        cases hr : (c.nodes a).ready
        · simp [hr] at hen
        · rfl
      have hnone := ready_no_election hready
      split
      · left; (refine upd1 (P := ElectKept) R ?_ i; exact electKept_none hnone)
      · split
        · left; exact R _
        · by_cases hi : i = a
          · subst hi; right; exact ⟨rfl, hnone, by simp⟩
          · left; show ElectKept _ (setNode c.nodes a _ i); rw [setNode_other _ _ hi]; exact R _
      · left
        rw [leaderRound_node]; split
        · next hj => subst hj; exact electKept_none (by simp [replicate, hnone])
        · exact R _
  | voteReq a b =>
    left
    simp only [step]; unfold stepVoteReq; dsimp only
    split
    · next el hel =>
      split
      · exact R _
      · next hen =>
        simp only [Bool.not_eq_false, Bool.and_eq_true, bne_iff_ne, ne_eq,
          List.contains_eq_mem, decide_eq_false_iff_not, Bool.not_eq_eq_eq_not, Bool.not_true] at hen
        obtain ⟨⟨⟨⟨⟨_, _⟩, hvb⟩, hready⟩, hab⟩, hdel⟩ := hen
        show ElectKept _ (setNode (setNode c.nodes b _) a _ i)
        by_cases hia : i = a
        · subst hia
          simp only [setNode_same]
          intro el' h'
          simp only [Option.some.injEq] at h'
          exact ⟨el, hel, by rw [← h'], rfl, rfl⟩
        · rw [setNode_other _ _ hia]
          refine upd1 (P := ElectKept) R ?_ i
          exact electKept_none (by rw [(onVoteRequest_el _ _).2.1]; exact ready_no_election hready)
    · exact R _
  | voteResp a b =>
    left
    simp only [step]; unfold stepVoteResp; dsimp only
    split
    · next el hel =>
      split
      · split
        · exact R _
        · refine upd1 (P := ElectKept) R ?_ i
          intro el' h'
          simp only [Option.some.injEq] at h'
          exact ⟨el, hel, by rw [← h'], rfl, rfl⟩
      · exact R _
    · exact R _
  | voteEnd a =>
    left
    simp only [step]; unfold stepVoteEnd; dsimp only
    split
    · split
      · exact R _
      · split
        · rw [leaderRound_node]; split
          · next hj => subst hj; exact electKept_none (by simp [replicate, asLeader])
          · exact R _
        · (refine upd1 (P := ElectKept) R ?_ i; exact electKept_none (by rw [(becomeFollower_el _).2.1]))
        · (refine upd1 (P := ElectKept) R ?_ i; exact electKept_none rfl)
        · (refine upd1 (P := ElectKept) R ?_ i; exact electKept_none rfl)
    · exact R _
  | write a w =>
    left
    simp only [step]; unfold stepWrite; dsimp only
    split
    · exact R _
    · next hen =>
      have hready : (c.nodes a).ready = true := by
        cases hr : (c.nodes a).ready
        · simp [hr] at hen
        · rfl
      have hnone := ready_no_election hready
      split
      · show ElectKept _ (setNode (leaderRound c a (c.nodes a) (some (w + 1))).nodes a _ i)
        by_cases hj : i = a
        · subst hj; simp only [setNode_same]
          exact electKept_none (by rw [leaderRound_node, if_pos rfl]; simp [replicate, hnone])
        · rw [setNode_other _ _ hj, leaderRound_node, if_neg hj]; exact R _
      · exact R _
  | deliverAe m =>
    left
    simp only [step]; unfold stepDeliverAe; dsimp only
    split
    · next src dst sid req reply hfm =>
      split
      · exact R _
      · next hen =>
        have hready : (c.nodes dst).ready = true := by
          cases hr : (c.nodes dst).ready
          · simp [hr] at hen
          · rfl
        have key : ElectKept (c.nodes i) (setNode c.nodes dst (onAppendEntries (c.nodes dst) req).1 i) := by
          refine upd1 (P := ElectKept) R ?_ i
          exact electKept_none (by rw [(onAppendEntries_el _ _).1]; exact ready_no_election hready)
        split
        · exact key
        · exact key
    · exact R _
  | deliverResp m =>
    left
    simp only [step]; unfold stepDeliverResp; dsimp only
    split
    · next src dst sid rterm res hfm =>
      split
      · exact R _
      · next hen =>
        split
        · exact R _
        · rw [recordCommit_nodes]
          have hready : ((removeMsg c m).nodes dst).ready = true := by
            cases hr : ((removeMsg c m).nodes dst).ready
            · simp [hr] at hen
            · rfl
          refine upd1 (P := ElectKept) (f := (removeMsg c m).nodes) R ?_ i
          exact electKept_none (by rw [(onAppendResponse_el _ _ _ _).1]; exact ready_no_election hready)
    · exact R _
  | drop m => left; exact R _
  | dup m =>
    left
    simp only [step]; unfold stepDup; (try dsimp only)
    split <;> exact R _
  | streamErr l p =>
    left
    simp only [step]; unfold stepStreamErr; dsimp only
    split
    · exact R _
    · split
      · split
        · exact R _
        · refine upd1 (P := ElectKept) R ?_ i
          intro el' h'; exact ⟨el', h', rfl, rfl, rfl⟩
      · exact R _
  | streamClosed l p =>
    left
    simp only [step]; unfold stepStreamClosed; dsimp only
    split
    · exact R _
    · split
      · split
        · exact R _
        · refine upd1 (P := ElectKept) R ?_ i
          intro el' h'; exact ⟨el', h', rfl, rfl, rfl⟩
      · exact R _
  | logFlushed a =>
    left
    simp only [step]; unfold stepLogFlushed; dsimp only
    split
    · exact R _
    · next hen =>
      have hready : (c.nodes a).ready = true := by
        cases hr : (c.nodes a).ready
        · simp [hr] at hen
        · rfl
      have hnone := ready_no_election hready
      split
      · rw [recordCommit_nodes]
        (refine upd1 (P := ElectKept) R ?_ i; exact electKept_none (by rw [onLogFlushed_election]; exact hnone))
      · (refine upd1 (P := ElectKept) R ?_ i; exact electKept_none hnone)
  | applyCompleted a k =>
    left
    simp only [step]; unfold stepApplyCompleted; dsimp only
    split
    · exact R _
    · split
      · refine upd1 (P := ElectKept) R ?_ i
        intro el' h'; exact ⟨el', h', rfl, rfl, rfl⟩
      · exact R _
  | crash a k =>
    left
    simp only [step]; unfold stepDown'; dsimp only
    split
    · exact R _
    · split
      · exact R _
      · (refine upd1 (P := ElectKept) R ?_ i; exact electKept_none (by simp [downNode]))
  | stop a =>
    left
    simp only [step]; unfold stepDown'; dsimp only
    split
    · exact R _
    · split
      · exact R _
      · (refine upd1 (P := ElectKept) R ?_ i; exact electKept_none (by simp [downNode]))
  | start a =>
    left
    simp only [step]; unfold stepStart; (try dsimp only)
    split
    · exact R _
    · refine upd1 (P := ElectKept) R ?_ i
      intro el' h'; exact ⟨el', h', rfl, rfl, rfl⟩
  | nop => left; exact R _

end DEngine.Cluster

namespace DEngine.Cluster

/-- a vote cast in the node's current term stays a vote of that term, for the same node or for the leader of the term -/
def VoteKept (lt : List (Nat × NodeId)) (n n' : Node) : Prop :=
  n'.term = n.term → ∀ w, n.vote = some w → w.term = n.term →
    ∃ w', n'.vote = some w' ∧ w'.term = n.term ∧ (w'.id = w.id ∨ (n.term, w'.id) ∈ lt)

theorem voteKept_refl (lt : List (Nat × NodeId)) (n : Node) : VoteKept lt n n :=
  fun _ w hw ht => ⟨w, hw, ht, Or.inl rfl⟩

theorem voteKept_same {lt : List (Nat × NodeId)} {n n' : Node} (hv : n'.vote = n.vote) : VoteKept lt n n' :=
  fun _ w hw ht => ⟨w, by rw [hv]; exact hw, ht, Or.inl rfl⟩

theorem voteKept_term {lt : List (Nat × NodeId)} {n n' : Node} (ht : n.term < n'.term) : VoteKept lt n n' :=
  fun h => by omega

theorem onVoteRequest_voteKept (lt : List (Nat × NodeId)) (n : Node) (r : VoteReq) :
    VoteKept lt n (onVoteRequest n r).1 := by
  obtain ⟨hle, _, hgr, hdn⟩ := onVoteRequest_el n r
  intro hterm w hw hwt
  cases hg : (onVoteRequest n r).2.1.granted
  · rcases hdn hg with h | h
    · exact ⟨w, by rw [h]; exact hw, hwt, Or.inl rfl⟩
    · have := h.2 w hw; omega
  · obtain ⟨h1, h2, h3⟩ := hgr hg
    have hrt : n.term = r.term := by rw [← h1, hterm]
    refine ⟨_, h2, hrt.symm, Or.inl ?_⟩
    exact (h3 hrt w hw (by rw [hwt, hrt])).symm

theorem onAppendEntries_voteKept {lt : List (Nat × NodeId)} (n : Node) (r : AeReq) (hlt : (r.term, r.leader) ∈ lt) :
    VoteKept lt n (onAppendEntries n r).1 := by
  rcases (onAppendEntries_el n r).2 with h | h
  · exact voteKept_same h.2
  · intro hterm w hw hwt
    refine ⟨_, h.2.2, ?_, Or.inr ?_⟩
    · show r.term = n.term; rw [← h.2.1, hterm]
    · show (n.term, r.leader) ∈ lt
      have : n.term = r.term := by rw [← h.2.1, hterm]
      rw [this]; exact hlt

theorem onAppendResponse_voteKept (lt : List (Nat × NodeId)) (n : Node) (src rt : Nat) (res : AeResult) :
    VoteKept lt n (onAppendResponse n src rt res).1 := by
  rcases (onAppendResponse_el n src rt res).2 with h | h
  · exact voteKept_same h.2
  · exact voteKept_term h.1

theorem onLogFlushed_vote (n : Node) : (onLogFlushed n).1.vote = n.vote := by
  simp only [onLogFlushed]
  split
  · simp only [applyLeaderCommit]; split <;> rfl
  · rfl

theorem vote_step {c : Cluster} (hE : EInv c) (e : Event) (z : NodeId) :
    VoteKept (step c e).1.leaderTerms (c.nodes z) ((step c e).1.nodes z) := by
  cases e with
  | tick a =>
    simp only [step]; unfold stepTick; dsimp only
    split
    · exact voteKept_refl _ _
    · split
      · (refine upd1 (P := VoteKept _) (voteKept_refl _) ?_ z; exact voteKept_same rfl)
      · split
        · exact voteKept_refl _ _
        · (refine upd1 (P := VoteKept _) (voteKept_refl _) ?_ z; exact voteKept_term (by simp [startElection]))
      · rw [leaderRound_node]; split
        · next hj => subst hj; exact voteKept_same (by simp [replicate])
        · exact voteKept_refl _ _
  | voteReq a b =>
    simp only [step]; unfold stepVoteReq; dsimp only
    split
    · split
      · exact voteKept_refl _ _
      · show VoteKept _ _ (setNode (setNode c.nodes b _) a _ z)
        by_cases hza : z = a
        · subst hza
          simp only [setNode_same]
          exact voteKept_same rfl
        · rw [setNode_other _ _ hza]
          (refine upd1 (P := VoteKept _) (voteKept_refl _) ?_ z; exact onVoteRequest_voteKept _ _ _)
    · exact voteKept_refl _ _
  | voteResp a b =>
    simp only [step]; unfold stepVoteResp; dsimp only
    split
    · split
      · split
        · exact voteKept_refl _ _
        · (refine upd1 (P := VoteKept _) (voteKept_refl _) ?_ z; exact voteKept_same rfl)
      · exact voteKept_refl _ _
    · exact voteKept_refl _ _
  | voteEnd a =>
    simp only [step]; unfold stepVoteEnd; dsimp only
    split
    · next el hel =>
      split
      · exact voteKept_refl _ _
      · split
        · rw [leaderRound_node]; split
          · next hj =>
            subst hj
            intro _ w hw hwt
            refine ⟨⟨z, (c.nodes z).term, true⟩, by simp [replicate, asLeader], rfl, Or.inr ?_⟩
            show ((c.nodes z).term, z) ∈ ((c.nodes z).term, z) :: c.leaderTerms
            exact List.mem_cons_self
          · exact voteKept_refl _ _
        · next t htally =>
          refine upd1 (P := VoteKept _) (voteKept_refl _) ?_ z
          have hlt := tally_higher _ _ _ _ _ htally
          have het := (hE.elect a el hel).1
          exact voteKept_term (by rw [(becomeFollower_spec _).2.2]; show (c.nodes a).term < t; omega)
        · (refine upd1 (P := VoteKept _) (voteKept_refl _) ?_ z; exact voteKept_same rfl)
        · (refine upd1 (P := VoteKept _) (voteKept_refl _) ?_ z; exact voteKept_same rfl)
    · exact voteKept_refl _ _
  | write a w =>
    simp only [step]; unfold stepWrite; dsimp only
    split
    · exact voteKept_refl _ _
    · split
      · show VoteKept _ _ (setNode (leaderRound c a (c.nodes a) (some (w + 1))).nodes a _ z)
        by_cases hj : z = a
        · subst hj; simp only [setNode_same]
          exact voteKept_same (by rw [leaderRound_node, if_pos rfl]; simp [replicate])
        · rw [setNode_other _ _ hj, leaderRound_node c a _ _ z, if_neg hj]; exact voteKept_refl _ _
      · exact voteKept_refl _ _
  | deliverAe m =>
    simp only [step]; unfold stepDeliverAe; dsimp only
    split
    · next src dst sid req reply hfm =>
      split
      · exact voteKept_refl _ _
      · obtain ⟨y, hy, hyx⟩ := findMsg_mem hfm
        have hreq : (req.term, req.leader) ∈ c.leaderTerms := hE.msgs y hy req (by rw [hyx]; rfl)
        have key : VoteKept c.leaderTerms (c.nodes z) (setNode c.nodes dst (onAppendEntries (c.nodes dst) req).1 z) := by
          refine upd1 (P := VoteKept _) (voteKept_refl _) ?_ z
          exact onAppendEntries_voteKept _ _ hreq
        split
        · exact key
        · exact key
    · exact voteKept_refl _ _
  | deliverResp m =>
    simp only [step]; unfold stepDeliverResp; dsimp only
    split
    · split
      · exact voteKept_refl _ _
      · split
        · exact voteKept_refl _ _
        · rw [recordCommit_nodes, recordCommit_leaderTerms]
          refine upd1 (P := VoteKept _) (f := (removeMsg c m).nodes) (voteKept_refl _) ?_ z
          exact onAppendResponse_voteKept _ _ _ _ _
    · exact voteKept_refl _ _
  | drop m => exact voteKept_refl _ _
  | dup m =>
    simp only [step]; unfold stepDup; (try dsimp only)
    split <;> exact voteKept_refl _ _
  | streamErr l p =>
    simp only [step]; unfold stepStreamErr; dsimp only
    split
    · exact voteKept_refl _ _
    · split
      · split
        · exact voteKept_refl _ _
        · (refine upd1 (P := VoteKept _) (voteKept_refl _) ?_ z; exact voteKept_same rfl)
      · exact voteKept_refl _ _
  | streamClosed l p =>
    simp only [step]; unfold stepStreamClosed; dsimp only
    split
    · exact voteKept_refl _ _
    · split
      · split
        · exact voteKept_refl _ _
        · (refine upd1 (P := VoteKept _) (voteKept_refl _) ?_ z; exact voteKept_same rfl)
      · exact voteKept_refl _ _
  | logFlushed a =>
    simp only [step]; unfold stepLogFlushed; dsimp only
    split
    · exact voteKept_refl _ _
    · split
      · rw [recordCommit_nodes, recordCommit_leaderTerms]
        (refine upd1 (P := VoteKept _) (voteKept_refl _) ?_ z; exact voteKept_same (onLogFlushed_vote _))
      · (refine upd1 (P := VoteKept _) (voteKept_refl _) ?_ z; exact voteKept_same rfl)
  | applyCompleted a k =>
    simp only [step]; unfold stepApplyCompleted; dsimp only
    split
    · exact voteKept_refl _ _
    · split
      · (refine upd1 (P := VoteKept _) (voteKept_refl _) ?_ z; exact voteKept_same rfl)
      · exact voteKept_refl _ _
  | crash a k =>
    simp only [step]; unfold stepDown'; dsimp only
    split
    · exact voteKept_refl _ _
    · split
      · exact voteKept_refl _ _
      · (refine upd1 (P := VoteKept _) (voteKept_refl _) ?_ z; exact voteKept_same (by simp [downNode]))
  | stop a =>
    simp only [step]; unfold stepDown'; dsimp only
    split
    · exact voteKept_refl _ _
    · split
      · exact voteKept_refl _ _
      · (refine upd1 (P := VoteKept _) (voteKept_refl _) ?_ z; exact voteKept_same (by simp [downNode]))
  | start a =>
    simp only [step]; unfold stepStart; (try dsimp only)
    split
    · exact voteKept_refl _ _
    · (refine upd1 (P := VoteKept _) (voteKept_refl _) ?_ z; exact voteKept_same rfl)
  | nop => exact voteKept_refl _ _

end DEngine.Cluster
