/-
  C05, leader completeness over the benign sub-relation of `step` (no F8 trigger: a crash discards nothing; no F9
  trigger: the delivery of a prev=(0,0) request discards nothing): all invariants together, and the theorem.
-/
import DEngine.Lemmas.ClusterCompleteCommit
namespace DEngine.Cluster

structure FullInv (c : Cluster) (H : Hist) : Prop where
  all : AllInv c H
  d : DInv c H
  ci : CInv c H

theorem reachH_full {n cap : Nat} {c : Cluster} {H : Hist} (hr : ReachH n cap c H) : FullInv c H := by
  induction hr with
  | init => exact ⟨allInv_init n cap, dinv_init n cap, cinv_init n cap⟩
  | step e _ hb ih =>
    have X := allInv_ctx ih.all e hb
    have d' := step_dinv X ih.all.hH ih.d
    exact ⟨allInv_step ih.all e hb, d', step_cinv X d' ih.ci⟩

/-- Leader completeness: in every state reachable by benign steps, every entry covered by a commit record of term T is in
    the log of every node that leads in a later term. -/
theorem leader_completeness_benign {n cap : Nat} {c : Cluster} {H : Hist} (hr : ReachH n cap c H) :
    ∀ T pre, (T, pre) ∈ c.commits → ∀ x ∈ pre, ∀ j, (c.nodes j).role = .leader → T < (c.nodes j).term →
      x ∈ (c.nodes j).log := by
  intro T pre hp x hx j hrole hlt
  have f := reachH_full hr
  obtain ⟨hchain, mk, hmk, hmt, hmax, hvc⟩ := f.ci.backed T pre hp
  have hmkj := later_leaders_hold f.all.hH hvc j hrole (by rw [hmt]; exact hlt)
  exact chain_prefix_mem f.all.hI.gfun hchain (f.all.hI.logs j) hmk hmkj x hx (hmax x hx)

/-- all steps of a schedule are benign -/
def allBenign : Cluster → List Event → Bool
  | _, [] => true
  | c, e :: es => benignB c e && allBenign (step c e).1 es

def histRun : Cluster → Hist → List Event → Hist
  | _, H, [] => H
  | c, H, e :: es => histRun (step c e).1 (histStep c e H) es

theorem reachH_run {n cap : Nat} : ∀ (es : List Event) (c : Cluster) (H : Hist), ReachH n cap c H →
    allBenign c es = true → ReachH n cap (run c es) (histRun c H es) := by
  intro es
  induction es with
  | nil => intro c H h _; exact h
  | cons e es ih =>
    intro c H h hb
    simp only [allBenign, Bool.and_eq_true] at hb
    exact ih _ _ (ReachH.step e h hb.1) hb.2

end DEngine.Cluster
