/-
  C05, leader completeness: preservation of `HInv`, part 4 — what a candidate with a vote from `z` holds (`elect`), what
  a winner held (`win`), and the assembled step theorem.
-/
import DEngine.Lemmas.ClusterCompleteStep3
namespace DEngine.Cluster

variable {c : Cluster} {e : Event} {H : Hist}

theorem new_acc_term {z : NodeId} {x : Entry} (hnew : (z, x) ∈ accNow (step c e).1) :
    x.term = ((step c e).1.nodes z).term := (mem_accNow.mp hnew).2.2

/-- the entry of voter `z` reaches the candidate, or a leader in between did not have it -/
theorem vote_transfers (X : Ctx c e) (h : HInv c H) {i z : NodeId} {el : Election}
    (hel : (c.nodes i).election = some el)
    (hgr : (onVoteRequest (c.nodes z) el.req).2.1.granted = true) {x : Entry} (hin : x ∈ (c.nodes z).log)
    (hxt : x.term < el.req.term) : x ∈ (c.nodes i).log ∨ Bad H x el.req.term := by
  obtain ⟨hreq, hlt⟩ := h.elreq i el hel
  have hmr := onVoteRequest_recent _ _ hgr
  have h1 : el.req.lastIdx = (lastPair (c.nodes i).log).1 := by rw [← hreq]
  have h2 : el.req.lastTerm = (lastPair (c.nodes i).log).2 := by rw [← hreq]
  rw [h1, h2] at hmr
  rcases up_to_date X.hI.gfun X.hG.gmono X.hG.gpos (X.hI.logs z) (X.hI.logs i)
      (fun y hy r hr => X.hG.run _ (X.hI.logs i) y hy r hr) hmr hin with hc | ⟨y, hy, hyt⟩
  · exact Or.inl hc
  · by_cases hxi : x ∈ (c.nodes i).log
    · exact Or.inl hxi
    · right
      obtain ⟨q, hq⟩ := mem_chain_rec (X.hI.logs i) hy
      obtain ⟨j, hj⟩ := X.hI.ghost_term _ hq
      simp only [] at hj
      obtain ⟨L, hL⟩ := h.lt_won _ _ hj
      refine ⟨y.term, L, hL, hyt, hlt y hy, ?_⟩
      intro hxL
      exact hxi (h.above _ (X.hI.logs i) y hy L hL x hxL)

theorem hinv_elect (X : Ctx c e) (h : HInv c H) : ∀ i el, ((step c e).1.nodes i).election = some el →
    ∀ z, (z, el.req.term, i) ∈ (step c e).1.grants → ∀ x, (z, x) ∈ (histStep c e H).acc → x.term < el.req.term →
      x ∈ ((step c e).1.nodes i).log ∨ Bad (histStep c e H) x el.req.term := by
  intro i el hel z hg x hx hxt
  have hbm : ∀ {x t}, Bad H x t → Bad (histStep c e H) x t := fun hb => bad_mono (won_sub c e H) hb
  simp only [histStep, List.mem_append] at hx
  rcases election_step c e i with hk | ⟨he, hnone, hnode⟩
  · obtain ⟨el0, hel0, hreq, hlog, hterm⟩ := hk el hel
    rw [hreq] at hg hxt ⊢
    rw [hlog]
    -- an old grant: the voter is already in the election's term
    have oldgrant : (z, el0.req.term, i) ∈ c.grants → x ∈ (c.nodes i).log ∨ Bad (histStep c e H) x el0.req.term := by
      intro hg0
      rcases hx with hx | hx
      · rcases h.elect i el0 hel0 z hg0 x hx hxt with h1 | h1
        · exact Or.inl h1
        · exact Or.inr (hbm h1)
      · exfalso
        have h1 := X.hE.gterm _ hg0
        have h2 := term_mono X.hE e z
        have h3 := new_acc_term hx
        simp only [] at h1
        omega
    rcases grants_step c e with hs | ⟨i1, he1, hgr, hn1, _⟩ | ⟨cand, z1, el1, he1, hel1, hne, hready, hgranted, hgr, hnode⟩
    · rw [hs] at hg; exact oldgrant hg
    · rw [hgr] at hg
      rcases List.mem_cons.mp hg with hg | hg
      · exfalso
        have : i = i1 := (Prod.mk.inj (Prod.mk.inj hg).2).2
        rw [this, hn1] at hel0; cases hel0
      · exact oldgrant hg
    · rw [hgr] at hg
      rcases List.mem_cons.mp hg with hg | hg
      · -- the vote granted in this step
        have hz : z = z1 := (Prod.mk.inj hg).1
        have hi : i = cand := (Prod.mk.inj (Prod.mk.inj hg).2).2
        subst hz; subst hi
        rw [hel0] at hel1; cases hel1
        obtain ⟨_, _, hgranted', _⟩ := onVoteRequest_el (c.nodes z) el0.req
        obtain ⟨hpt, _, hsame⟩ := hgranted' hgranted
        rcases hx with hx | hx
        · rcases h.keep z x hx with hin | ⟨t'', L, hL, hlt, hle, hnot, hcl⟩
          · rcases vote_transfers X h hel0 hgranted hin hxt with h1 | h1
            · exact Or.inl h1
            · exact Or.inr (hbm h1)
          · have hzt : (c.nodes z).term ≤ el0.req.term := by
              have := (onVoteRequest_el (c.nodes z) el0.req).1; rw [hpt] at this; exact this
            by_cases hs : t'' < el0.req.term
            · exact Or.inr ⟨t'', L, won_sub c _ H _ hL, hlt, hs, hnot⟩
            · exfalso
              have hteq : t'' = (c.nodes z).term := by omega
              obtain ⟨w, hw, hwt, hwl⟩ := hcl hteq
              have hzr : (c.nodes z).term = el0.req.term := by omega
              have hwid := hsame hzr w hw (by omega)
              obtain ⟨e1, e2, _, e4, _⟩ := X.hE.elect i el0 hel0
              rw [hwid, e2] at hwl
              have := e4 _ hwl
              omega
        · exfalso
          have h3 := new_acc_term hx
          rw [hnode, hpt] at h3
          omega
      · exact oldgrant hg
  · -- the election starts in this step
    subst he
    rw [hnode] at hel
    simp only [startElection, Option.some.injEq] at hel
    subst hel
    simp only [] at hg hxt ⊢
    have hlog : ((step c (.tick i)).1.nodes i).log = (c.nodes i).log := by rw [hnode]; rfl
    have self : z = i → x ∈ ((step c (.tick i)).1.nodes i).log ∨
        Bad (histStep c (.tick i) H) x ((c.nodes i).term + 1) := by
      intro hz
      subst hz
      rcases hx with hx | hx
      · rcases h.keep z x hx with hin | ⟨t'', L, hL, hlt, hle, hnot, _⟩
        · left; rw [hlog]; exact hin
        · right; exact ⟨t'', L, won_sub c _ H _ hL, hlt, by omega, hnot⟩
      · left; exact (mem_accNow.mp hx).2.1
    have noold : (z, (c.nodes i).term + 1, i) ∉ c.grants := by
      intro hg0
      have := h.gcand _ hg0
      simp only [] at this
      omega
    rcases grants_step c (.tick i) with hs | ⟨i1, he1, hgr, _, _⟩ | ⟨cand, z1, el1, he1, _⟩
    · rw [hs] at hg; exact absurd hg noold
    · cases he1
      rw [hgr] at hg
      rcases List.mem_cons.mp hg with hg | hg
      · exact self (Prod.mk.inj hg).1
      · exact absurd hg noold
    · cases he1

theorem hinv_win (X : Ctx c e) (h : HInv c H) : ∀ t' L, (t', L) ∈ (histStep c e H).won →
    ∃ M : List NodeId, M.Nodup ∧ (∀ z ∈ M, (step c e).1.valid z = true ∧ t' ≤ ((step c e).1.nodes z).term) ∧
      M.length * 2 > (step c e).1.n ∧
      ∀ z ∈ M, ∀ x, (z, x) ∈ (histStep c e H).acc → x.term < t' → x ∈ L ∨ Bad (histStep c e H) x t' := by
  intro t' L hL
  have hbm : ∀ {x t}, Bad H x t → Bad (histStep c e H) x t := fun hb => bad_mono (won_sub c e H) hb
  have hn := step_n c e
  rcases won_cases hL with hL | ⟨i, hw, hp⟩
  · obtain ⟨M, hnd, hval, hmaj, hall⟩ := h.win t' L hL
    refine ⟨M, hnd, ?_, by rw [hn]; exact hmaj, ?_⟩
    · intro z hz
      exact ⟨by rw [valid_of_n hn]; exact (hval z hz).1, Nat.le_trans (hval z hz).2 (term_mono X.hE e z)⟩
    · intro z hz x hx hxt
      simp only [histStep, List.mem_append] at hx
      rcases hx with hx | hx
      · rcases hall z hz x hx hxt with h1 | h1
        · exact Or.inl h1
        · exact Or.inr (hbm h1)
      · exfalso
        have h3 := new_acc_term hx
        have := (hval z hz).2
        have := term_mono X.hE e z
        omega
  · obtain ⟨ht, hLeq⟩ := Prod.mk.inj hp
    obtain ⟨_, _, el, hel, hwon, _⟩ := winner_spec hw
    obtain ⟨q, hnd, hgr, hmaj⟩ := won_quorum X.hE i el hel hwon
    have hreqt := (X.hE.elect i el hel).1
    refine ⟨q, hnd, ?_, by rw [hn]; exact hmaj, ?_⟩
    · intro z hz
      have hg := hgr z hz
      refine ⟨by rw [valid_of_n hn]; exact X.hE.gvalid _ hg, ?_⟩
      have := X.hE.gterm _ hg
      simp only [] at this
      rw [ht]
      exact Nat.le_trans this (term_mono X.hE e z)
    · intro z hz x hx hxt
      have hg := hgr z hz
      simp only [histStep, List.mem_append] at hx
      rcases hx with hx | hx
      · rw [ht, ← hreqt] at hxt
        rw [← hreqt] at hg
        rcases h.elect i el hel z hg x hx hxt with h1 | h1
        · left; rw [hLeq]; exact h1
        · right; rw [ht, ← hreqt]; exact hbm h1
      · exfalso
        have h3 := new_acc_term hx
        have h4 := X.hE.gterm _ hg
        have := term_mono X.hE e z
        simp only [] at h4
        omega

/-- Every benign step preserves the history invariant. -/
theorem step_hinv (X : Ctx c e) (h : HInv c H) : HInv (step c e).1 (histStep c e H) :=
  ⟨hinv_acc_tb X h, hinv_gcand X h, hinv_lt_won X h, hinv_won_lt X h, hinv_wuniq X h, hinv_lead_won X h,
   hinv_above X h, hinv_reqrun X h, hinv_reqwon X h, hinv_elreq X h, hinv_keep X h, hinv_elect X h, hinv_win X h⟩

end DEngine.Cluster
