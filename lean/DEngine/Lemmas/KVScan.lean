import DEngine.Model.KV
import DEngine.Model.KVScan
import DEngine.Lemmas.KV
/-!
  Lemmas for `scan_prefix` (C22 reads, C25): byte-wise lexicographic order, `prefix_successor` as the tight
  upper bound of the keys with a prefix, well-formed association lists, exactness of both scans.
-/
namespace DEngine.KV

/-! ## lexicographic order on byte strings -/

theorem lexLt_nil_right (a : Bytes) : lexLt a [] = false := by cases a <;> rfl

theorem u8_le_ff (c : UInt8) : c.toNat ≤ 255 := by have := c.toNat_lt; omega

/-- Every key ≥ `FF…FF` (n times) starts with it. -/
theorem lexLe_replicate_ff (n : Nat) (k : Bytes) :
    lexLe (List.replicate n 0xFF) k = (List.replicate n 0xFF).isPrefixOf k := by
  induction n generalizing k with
  | zero => simp [lexLe, lexLt_nil_right]
  | succ n ih =>
    cases k with
    | nil => simp [lexLe, lexLt, List.replicate_succ]
    | cons c k' =>
      simp only [List.replicate_succ, lexLe, lexLt, List.isPrefixOf_cons_cons]
      by_cases h1 : c < 0xFF
      · have : ¬ ((0xFF : UInt8) = c) := by
          intro e; rw [← e] at h1; exact absurd h1 (by decide)
        simp [h1, this]
      · have hc : c = 0xFF := by
          have := u8_le_ff c
          rw [UInt8.lt_iff_toNat_lt] at h1
          apply UInt8.toNat_inj.mp
          have : (0xFF : UInt8).toNat = 255 := rfl
          omega
        subst hc
        have := ih k'
        simp only [lexLe] at this
        simp [this]

theorem u8_succ_toNat (b : UInt8) (hb : b ≠ 0xFF) : (b + 1).toNat = b.toNat + 1 := by
  have h1 : b.toNat ≠ 255 := by
    intro e; apply hb; apply UInt8.toNat_inj.mp; rw [e]; rfl
  have := u8_le_ff b
  rw [UInt8.toNat_add]
  have : (1 : UInt8).toNat = 1 := rfl
  omega

/-- The iterator range `[q ++ b :: FF…FF , q ++ [b+1])` holds exactly the keys with prefix `q ++ b :: FF…FF`. -/
theorem range_iff_prefix (q : Bytes) (b : UInt8) (n : Nat) (hb : b ≠ 0xFF) (k : Bytes) :
    (lexLe (q ++ b :: List.replicate n 0xFF) k && lexLt k (q ++ [b + 1]))
      = (q ++ b :: List.replicate n 0xFF).isPrefixOf k := by
  induction q generalizing k with
  | nil =>
    cases k with
    | nil => simp [lexLe, lexLt]
    | cons c k' =>
      simp only [List.nil_append, lexLe, lexLt, List.isPrefixOf_cons_cons, lexLt_nil_right]
      have hs := u8_succ_toNat b hb
      by_cases h1 : c < b
      · have : ¬ (b = c) := by intro e; rw [e] at h1; exact absurd h1 (UInt8.lt_irrefl c)
        simp [h1, this]
      · by_cases h2 : c = b
        · subst h2
          have hlt : c < c + 1 := by rw [UInt8.lt_iff_toNat_lt, hs]; omega
          have := lexLe_replicate_ff n k'
          simp only [lexLe] at this
          simp [h1, hlt, this]
        · have hgt : ¬ (c < b + 1) := by
            rw [UInt8.lt_iff_toNat_lt, hs]
            rw [UInt8.lt_iff_toNat_lt] at h1
            have : c.toNat ≠ b.toNat := fun e => h2 (UInt8.toNat_inj.mp e)
            omega
          have : ¬ (b = c) := fun e => h2 e.symm
          simp [h1, h2, hgt, this]
  | cons a q ih =>
    cases k with
    | nil => simp [lexLe, lexLt]
    | cons c k' =>
      simp only [List.cons_append, lexLe, lexLt, List.isPrefixOf_cons_cons]
      by_cases h1 : c < a
      · have : ¬ (a = c) := by intro e; rw [e] at h1; exact absurd h1 (UInt8.lt_irrefl c)
        simp [h1, this]
      · by_cases h2 : c = a
        · subst h2
          have := ih k'
          simp only [lexLe] at this
          simp [h1, this]
        · have : ¬ (a = c) := fun e => h2 e.symm
          simp [h1, h2, this]

/-! ## prefix_successor -/

theorem dropFF_spec (l : List UInt8) :
    (dropFF l = [] ∧ l = List.replicate l.length 0xFF) ∨
    (∃ b rest n, dropFF l = b :: rest ∧ b ≠ 0xFF ∧ l = List.replicate n 0xFF ++ b :: rest) := by
  induction l with
  | nil => left; simp [dropFF]
  | cons x xs ih =>
    by_cases hx : x = 0xFF
    · subst hx
      rcases ih with ⟨h1, h2⟩ | ⟨b, rest, n, h1, h2, h3⟩
      · left
        refine ⟨by simp [dropFF, h1], ?_⟩
        simp only [List.length_cons, List.replicate_succ]
        rw [← h2]
      · right
        refine ⟨b, rest, n + 1, by simp [dropFF, h1], h2, ?_⟩
        simp only [List.replicate_succ, List.cons_append]
        rw [← h3]
    · right
      exact ⟨x, xs, 0, by simp [dropFF, hx], hx, by simp⟩

/-- Shape of `prefix_successor`: `None` exactly for all-`0xFF` (incl. empty) prefixes, otherwise the prefix
    is `q ++ b :: FF…FF` with `b ≠ FF` and the successor is `q ++ [b+1]`. -/
theorem prefixSuccessor_spec (p : Bytes) :
    (prefixSuccessor p = none ∧ p = List.replicate p.length 0xFF) ∨
    (∃ q b n, b ≠ 0xFF ∧ p = q ++ b :: List.replicate n 0xFF ∧ prefixSuccessor p = some (q ++ [b + 1])) := by
  rcases dropFF_spec p.reverse with ⟨h1, h2⟩ | ⟨b, rest, n, h1, h2, h3⟩
  · left
    refine ⟨by simp [prefixSuccessor, h1], ?_⟩
    have := congrArg List.reverse h2
    simpa using this
  · right
    refine ⟨rest.reverse, b, n, h2, ?_, by simp [prefixSuccessor, h1]⟩
    have := congrArg List.reverse h3
    simpa using this

/-- **`prefix_successor` is the tight upper bound**: the keys the bounded RocksDB iterator visits
    (`prefix ≤ key`, and `key < successor` when there is one) are exactly the keys that start with `prefix` —
    for every prefix, trailing / all `0xFF` bytes included. -/
theorem prefix_successor_tight (p k : Bytes) :
    inIterRange p (prefixSuccessor p) k = startsWith k p := by
  rcases prefixSuccessor_spec p with ⟨h1, h2⟩ | ⟨q, b, n, hb, hp, hs⟩
  · rw [h1]
    simp only [inIterRange, Bool.and_true, startsWith]
    rw [h2]; exact lexLe_replicate_ff _ k
  · rw [hs]
    simp only [inIterRange, startsWith]
    rw [hp]; exact range_iff_prefix q b n hb k

/-! ## well-formed maps (no duplicate keys) -/

def AMap.WF {β : Type} (m : AMap β) : Prop := (m.map Prod.fst).Nodup

theorem AMap.wf_remove {β : Type} (m : AMap β) (k : Key) (h : AMap.WF m) : AMap.WF (m.remove k) := by
  unfold AMap.WF AMap.remove at *
  exact (List.Sublist.map _ (List.filter_sublist)).nodup h

theorem AMap.not_mem_remove {β : Type} (m : AMap β) (k : Key) : k ∉ (m.remove k).map Prod.fst := by
  simp only [AMap.remove, List.mem_map, List.mem_filter, not_exists, not_and]
  intro x ⟨_, hx⟩ e
  simp [e] at hx

theorem AMap.wf_insert {β : Type} (m : AMap β) (k : Key) (v : β) (h : AMap.WF m) : AMap.WF (m.insert k v) := by
  unfold AMap.WF AMap.insert
  simp only [List.map_cons, List.nodup_cons]
  exact ⟨AMap.not_mem_remove m k, AMap.wf_remove m k h⟩

theorem AMap.mem_iff_get {β : Type} (m : AMap β) (h : AMap.WF m) (k : Key) (v : β) :
    (k, v) ∈ m ↔ m.get k = some v := by
  induction m with
  | nil => simp [AMap.get]
  | cons x xs ih =>
    obtain ⟨a, b⟩ := x
    unfold AMap.WF at h
    simp only [List.map_cons, List.nodup_cons] at h
    simp only [List.mem_cons, Prod.mk.injEq, AMap.get]
    by_cases hak : a = k
    · subst hak
      simp only [true_and, if_true, Option.some.injEq]
      constructor
      · rintro (e | hm)
        · exact e.symm
        · exact absurd (List.mem_map.mpr ⟨(a, v), hm, rfl⟩) h.1
      · intro e; left; exact e.symm
    · have hka : ¬ k = a := fun e => hak e.symm
      simp only [hak, hka, false_and, false_or, if_false]
      exact ih h.2

/-! ## insertion sort -/

theorem mem_insertBy {α : Type} (le : α → α → Bool) (a x : α) (l : List α) :
    x ∈ insertBy le a l ↔ x = a ∨ x ∈ l := by
  induction l with
  | nil => simp [insertBy]
  | cons b bs ih =>
    simp only [insertBy]
    split
    · simp
    · simp only [List.mem_cons, ih]
      constructor
      · rintro (h | h | h)
        · right; left; exact h
        · left; exact h
        · right; right; exact h
      · rintro (h | h | h)
        · right; left; exact h
        · left; exact h
        · right; right; exact h

theorem mem_isort {α : Type} (le : α → α → Bool) (x : α) (l : List α) : x ∈ isort le l ↔ x ∈ l := by
  induction l with
  | nil => simp [isort]
  | cons a as ih => simp [isort, mem_insertBy, ih]

theorem pairwise_insertBy {α : Type} (le : α → α → Bool)
    (htrans : ∀ a b c, le a b = true → le b c = true → le a c = true)
    (htotal : ∀ a b, (le a b || le b a) = true) (a : α) (l : List α)
    (h : l.Pairwise (fun x y => le x y = true)) : (insertBy le a l).Pairwise (fun x y => le x y = true) := by
  induction l with
  | nil => simp [insertBy]
  | cons b bs ih =>
    simp only [insertBy]
    rw [List.pairwise_cons] at h
    split
    · rename_i hab
      rw [List.pairwise_cons]
      refine ⟨?_, List.pairwise_cons.mpr h⟩
      intro y hy
      simp only [List.mem_cons] at hy
      rcases hy with rfl | hy
      · exact hab
      · exact htrans a b y hab (h.1 y hy)
    · rename_i hab
      have hba : le b a = true := by
        have := htotal a b
        simp only [Bool.or_eq_true] at this
        rcases this with h1 | h1
        · exact absurd h1 hab
        · exact h1
      rw [List.pairwise_cons]
      refine ⟨?_, ih h.2⟩
      intro y hy
      rw [mem_insertBy] at hy
      rcases hy with rfl | hy
      · exact hba
      · exact h.1 y hy

theorem pairwise_isort {α : Type} (le : α → α → Bool)
    (htrans : ∀ a b c, le a b = true → le b c = true → le a c = true)
    (htotal : ∀ a b, (le a b || le b a) = true) (l : List α) :
    (isort le l).Pairwise (fun x y => le x y = true) := by
  induction l with
  | nil => simp [isort]
  | cons a as ih => exact pairwise_insertBy le htrans htotal a _ ih

/-! ## exactness of the two scans -/

theorem takeWhile_eq_self_of_all {α : Type} (q : α → Bool) (l : List α) (h : ∀ x ∈ l, q x = true) :
    l.takeWhile q = l := by
  induction l with
  | nil => rfl
  | cons a l ih =>
    have ha := h a List.mem_cons_self
    simp only [List.takeWhile_cons, ha, if_true]
    rw [ih (fun x hx => h x (List.mem_cons_of_mem a hx))]

/-- **File `scan_prefix`**: exactly the bindings whose key has the prefix (every prefix), revision = last_applied. -/
theorem fileScan_exact (st : FileSt) (h : AMap.WF st.data) (p : Bytes) (k : Key) (v : Val) :
    (k, v) ∈ (fileScan st p).1 ↔ (startsWith k p = true ∧ fileAbs st k = some v) := by
  simp only [fileScan, List.mem_map, List.mem_filter, fileAbs, fileGet]
  constructor
  · rintro ⟨⟨k', v', t⟩, ⟨hm, hp⟩, he⟩
    simp only [Prod.mk.injEq] at he
    obtain ⟨rfl, rfl⟩ := he
    refine ⟨hp, ?_⟩
    rw [(AMap.mem_iff_get st.data h k' (v', t)).mp hm]; rfl
  · rintro ⟨hp, hg⟩
    cases hd : st.data.get k with
    | none => simp [hd] at hg
    | some vt =>
      obtain ⟨v', t⟩ := vt
      simp only [hd, Option.map_some, Option.some.injEq] at hg
      subst hg
      exact ⟨(k, v', t), ⟨(AMap.mem_iff_get st.data h k (v', t)).mpr hd, hp⟩, rfl⟩

theorem fileScan_revision (st : FileSt) (p : Bytes) : (fileScan st p).2 = st.laIndex := rfl

/-- **RocksDB `scan_prefix`**, non-empty prefix: exactly the bindings whose key has the prefix. -/
theorem rocksScan_exact (st : RocksSt) (h : AMap.WF st.db) (p : Bytes) (hp : p ≠ []) (k : Key) (v : Val) :
    (k, v) ∈ (rocksScan st p).1 ↔ (startsWith k p = true ∧ rocksAbs st k = some v) := by
  have hne : p.isEmpty = false := by cases p <;> simp_all
  simp only [rocksScan, hne, Bool.false_eq_true, if_false]
  have hall : ∀ x ∈ isort (fun a b => lexLe a.1 b.1)
      (List.filter (fun kv => inIterRange p (prefixSuccessor p) kv.1) st.db), startsWith x.1 p = true := by
    intro x hx
    rw [mem_isort] at hx
    have := (List.mem_filter.mp hx).2
    rwa [prefix_successor_tight] at this
  rw [takeWhile_eq_self_of_all _ _ hall, mem_isort, List.mem_filter, prefix_successor_tight]
  simp only [rocksAbs, rocksGet]
  rw [AMap.mem_iff_get st.db h k v]
  exact And.comm

theorem rocksScan_revision (st : RocksSt) (p : Bytes) : (rocksScan st p).2 = st.laIndex := by
  simp only [rocksScan]; split <;> rfl

/-- The RocksDB scan returns its entries in ascending key order. -/
theorem rocksScan_sorted (st : RocksSt) (p : Bytes) :
    (rocksScan st p).1.Pairwise (fun a b => lexLe a.1 b.1 = true) := by
  simp only [rocksScan]
  split
  · exact List.Pairwise.nil
  · apply List.Pairwise.sublist (List.takeWhile_sublist _)
    apply pairwise_isort
    · intro a b c hab hbc
      exact lexLe_trans a.1 b.1 c.1 hab hbc
    · intro a b
      exact lexLe_total a.1 b.1
where
  lexLe_total (a b : Bytes) : (lexLe a b || lexLe b a) = true := by
    induction a generalizing b with
    | nil => simp [lexLe, lexLt_nil_right]
    | cons x xs ih =>
      cases b with
      | nil => simp [lexLe, lexLt]
      | cons y ys =>
        simp only [lexLe, lexLt]
        by_cases h1 : y < x
        · have : ¬ x < y := by
            rw [UInt8.lt_iff_toNat_lt] at *; omega
          have h3 : ¬ x = y := by intro e; rw [e] at h1; exact absurd h1 (UInt8.lt_irrefl y)
          simp [h1, this, h3]
        · by_cases h2 : y = x
          · subst h2
            have := ih ys
            simp only [lexLe] at this
            simp [h1, this]
          · have : x < y := by
              rw [UInt8.lt_iff_toNat_lt] at *
              have : x.toNat ≠ y.toNat := fun e => h2 (UInt8.toNat_inj.mp e).symm
              omega
            simp [h1, h2, this]
  lexLt_trans (a b c : Bytes) (h1 : lexLt a b = true) (h2 : lexLt b c = true) : lexLt a c = true := by
    induction a generalizing b c with
    | nil =>
      cases c with
      | nil => rw [lexLt_nil_right] at h2; cases h2
      | cons z zs => rfl
    | cons x xs ih =>
      cases b with
      | nil => simp [lexLt] at h1
      | cons y ys =>
        cases c with
        | nil => simp [lexLt] at h2
        | cons z zs =>
          simp only [lexLt] at h1 h2 ⊢
          by_cases hxy : x < y
          · by_cases hyz : y < z
            · have : x < z := by rw [UInt8.lt_iff_toNat_lt] at *; omega
              simp [this]
            · by_cases hyz2 : y = z
              · subst hyz2; simp [hxy]
              · simp [hyz, hyz2] at h2
          · by_cases hxy2 : x = y
            · subst hxy2
              simp only [hxy, if_false, if_true] at h1
              by_cases hyz : x < z
              · simp [hyz]
              · by_cases hyz2 : x = z
                · subst hyz2
                  simp only [hyz, if_false, if_true] at h2 ⊢
                  exact ih ys zs h1 h2
                · simp [hyz, hyz2] at h2
            · simp [hxy, hxy2] at h1
  lexLe_trans (a b c : Bytes) (h1 : lexLe a b = true) (h2 : lexLe b c = true) : lexLe a c = true := by
    simp only [lexLe, Bool.not_eq_true'] at *
    cases h : lexLt c a with
    | false => rfl
    | true =>
      -- c < a ≤ b ⇒ c < b or ... use totality: b ≤ c and c < a give b < a or b = .. ; derive contradiction
      exfalso
      rcases lexLt_or_eq_or_gt b c with hbc | hbc | hbc
      · have := lexLt_trans b c a hbc h
        rw [this] at h1; cases h1
      · subst hbc; rw [h] at h1; cases h1
      · rw [hbc] at h2; cases h2
  lexLt_or_eq_or_gt (a b : Bytes) : lexLt a b = true ∨ a = b ∨ lexLt b a = true := by
    induction a generalizing b with
    | nil =>
      cases b with
      | nil => right; left; rfl
      | cons y ys => left; rfl
    | cons x xs ih =>
      cases b with
      | nil => right; right; rfl
      | cons y ys =>
        simp only [lexLt]
        by_cases h1 : x < y
        · left; simp [h1]
        · by_cases h2 : x = y
          · subst h2
            rcases ih ys with h | h | h
            · left; simp [h1, h]
            · right; left; rw [h]
            · right; right; simp [h1, h]
          · right; right
            have : y < x := by
              rw [UInt8.lt_iff_toNat_lt] at *
              have : x.toNat ≠ y.toNat := fun e => h2 (UInt8.toNat_inj.mp e)
              omega
            simp [this]

end DEngine.KV

namespace DEngine.KV

/-! ## well-formedness is preserved by apply; the data/last_applied split is faithful -/

theorem filePhase3_wf : ∀ (zs : List (Entry × Bool)) (data : AMap (Val × Nat)),
    AMap.WF data → AMap.WF (filePhase3 data zs).1 := by
  intro zs
  induction zs with
  | nil => intro data h; exact h
  | cons z zs ih =>
    intro data h
    obtain ⟨e, ok⟩ := z
    cases hc : e.cmd with
    | noop => simp only [filePhase3, hc]; exact ih data h
    | put k v t => simp only [filePhase3, hc]; exact ih _ (AMap.wf_insert data k _ h)
    | del k => simp only [filePhase3, hc]; exact ih _ (AMap.wf_remove data k h)
    | cas k ex v =>
      simp only [filePhase3, hc]
      cases ok with
      | true => exact ih _ (AMap.wf_insert data k _ h)
      | false => exact ih _ h

theorem fileApplyMem_setLa (st : FileSt) (chunk : List Entry) :
    fileApplyChunk st chunk = (fileApplyMem st chunk).map fun r => (fileSetLa r.1 chunk, r.2) := by
  unfold fileApplyChunk fileApplyMem fileSetLa
  by_cases h : ordered none chunk = true
  · simp only [h, Bool.not_true, Bool.false_eq_true, if_false, Option.map_some]
    cases highest chunk with
    | none => rfl
    | some it => rfl
  · simp [h]

theorem fileApplyMem_wf (st st' : FileSt) (chunk : List Entry) (r : List Bool)
    (h : AMap.WF st.data) (ha : fileApplyMem st chunk = some (st', r)) : AMap.WF st'.data := by
  unfold fileApplyMem at ha
  by_cases ho : ordered none chunk = true
  · simp only [ho, Bool.not_true, Bool.false_eq_true, if_false, Option.some.injEq, Prod.mk.injEq] at ha
    rw [← ha.1]
    exact filePhase3_wf _ _ h
  · simp [ho] at ha

theorem fileApplyMem_la (st st' : FileSt) (chunk : List Entry) (r : List Bool)
    (ha : fileApplyMem st chunk = some (st', r)) : st'.laIndex = st.laIndex ∧ st'.laTerm = st.laTerm := by
  unfold fileApplyMem at ha
  by_cases ho : ordered none chunk = true
  · simp only [ho, Bool.not_true, Bool.false_eq_true, if_false, Option.some.injEq, Prod.mk.injEq] at ha
    rw [← ha.1]; exact ⟨rfl, rfl⟩
  · simp [ho] at ha

/-- The data part of `apply_chunk` depends on the data only. -/
theorem fileApplyMem_congr (a b : FileSt) (chunk : List Entry) (h : a.data = b.data) :
    (fileApplyMem a chunk).map (fun r => (r.1.data, r.2)) = (fileApplyMem b chunk).map (fun r => (r.1.data, r.2)) := by
  unfold fileApplyMem
  rw [h]
  split <;> rfl

theorem fileSetLa_data (st : FileSt) (chunk : List Entry) : (fileSetLa st chunk).data = st.data := by
  unfold fileSetLa; split <;> rfl

theorem fileSetLa_la (st : FileSt) (chunk : List Entry) :
    ((fileSetLa st chunk).laIndex, (fileSetLa st chunk).laTerm) = (highest chunk).getD (st.laIndex, st.laTerm) := by
  unfold fileSetLa
  cases highest chunk with
  | none => rfl
  | some it => rfl

theorem writeBatch_wf (db : AMap Val) (batch : List BOp) (h : AMap.WF db) : AMap.WF (writeBatch db batch) := by
  induction batch with
  | nil => exact h
  | cons op b ih =>
    simp only [writeBatch, List.foldr_cons] at ih ⊢
    cases op with
    | put k v => exact AMap.wf_insert _ k v ih
    | del k => exact AMap.wf_remove _ k ih

theorem rocksApplyWrite_setLa (st : RocksSt) (chunk : List Entry) :
    rocksApplyChunk st chunk = (rocksApplyWrite st chunk).map fun r => (rocksSetLa r.1 chunk, r.2) := by
  unfold rocksApplyChunk rocksApplyWrite rocksSetLa
  cases rocksLoop st.db [] none chunk with
  | none => rfl
  | some br =>
    obtain ⟨b, r⟩ := br
    simp only [Option.map_some]
    cases highest chunk with
    | none => rfl
    | some it => rfl

theorem rocksApplyWrite_wf (st st' : RocksSt) (chunk : List Entry) (r : List Bool)
    (h : AMap.WF st.db) (ha : rocksApplyWrite st chunk = some (st', r)) : AMap.WF st'.db := by
  unfold rocksApplyWrite at ha
  cases hl : rocksLoop st.db [] none chunk with
  | none => simp [hl] at ha
  | some br =>
    obtain ⟨b, r'⟩ := br
    simp only [hl, Option.some.injEq, Prod.mk.injEq] at ha
    rw [← ha.1]
    exact writeBatch_wf _ _ h

theorem rocksApplyWrite_la (st st' : RocksSt) (chunk : List Entry) (r : List Bool)
    (ha : rocksApplyWrite st chunk = some (st', r)) : st'.laIndex = st.laIndex ∧ st'.laTerm = st.laTerm := by
  unfold rocksApplyWrite at ha
  cases hl : rocksLoop st.db [] none chunk with
  | none => simp [hl] at ha
  | some br =>
    obtain ⟨b, r'⟩ := br
    simp only [hl, Option.some.injEq, Prod.mk.injEq] at ha
    rw [← ha.1]; exact ⟨rfl, rfl⟩

theorem rocksApplyWrite_congr (a b : RocksSt) (chunk : List Entry) (h : a.db = b.db) :
    (rocksApplyWrite a chunk).map (fun r => (r.1.db, r.2)) = (rocksApplyWrite b chunk).map (fun r => (r.1.db, r.2)) := by
  unfold rocksApplyWrite
  rw [h]
  cases rocksLoop b.db [] none chunk with
  | none => rfl
  | some br => rfl

theorem rocksSetLa_db (st : RocksSt) (chunk : List Entry) : (rocksSetLa st chunk).db = st.db := by
  unfold rocksSetLa; split <;> rfl

theorem rocksSetLa_la (st : RocksSt) (chunk : List Entry) :
    ((rocksSetLa st chunk).laIndex, (rocksSetLa st chunk).laTerm) = (highest chunk).getD (st.laIndex, st.laTerm) := by
  unfold rocksSetLa
  cases highest chunk with
  | none => rfl
  | some it => rfl

theorem rocksIter_congr (a b : RocksSt) (p : Bytes) (h : a.db = b.db) : rocksIter a p = rocksIter b p := by
  unfold rocksIter rocksScan
  rw [h]
  split <;> rfl

theorem fileScan_congr (a b : FileSt) (p : Bytes) (h : a.data = b.data) : (fileScan a p).1 = (fileScan b p).1 := by
  unfold fileScan
  rw [h]

/-! ## resynchronisation: replay of absolute writes -/

/-- last write to `k` in `es` (`none` = untouched; `some none` = deleted) -/
def lastW : List WEvent → Key → Option (Option Val)
  | [], _ => none
  | e :: es, k => match lastW es k with
    | some v => some v
    | none => if k = e.key then some e.value else none

theorem replay_apply (t : Store) (es : List WEvent) (k : Key) :
    replay t es k = (lastW es k).getD (t k) := by
  induction es generalizing t with
  | nil => rfl
  | cons e es ih =>
    simp only [replay, List.foldl_cons] at ih ⊢
    rw [ih (applyEvent t e)]
    simp only [lastW]
    cases lastW es k with
    | some v => rfl
    | none =>
      simp only [Option.getD_none, applyEvent, Store.set]
      by_cases h : k = e.key <;> simp [h]

theorem replay_append (t : Store) (a b : List WEvent) : replay t (a ++ b) = replay (replay t a) b := by
  simp [replay, List.foldl_append]

/-- Replaying a write sequence on top of a state that already contains it changes nothing. -/
theorem replay_idem (t : Store) (es : List WEvent) : replay (replay t es) es = replay t es := by
  funext k
  rw [replay_apply (replay t es) es k, replay_apply t es k]
  cases lastW es k <;> rfl

end DEngine.KV
