import DEngine.Lemmas.ElectObs
import DEngine.Model.ElectMon
/-!
  Leader-change notifications (C31): what each node function publishes.
  `PubOK`   — published terms are bounded by the node's term and ordered (newest first), and a pending noop carries
              the leader's own term.
  `PubsSub` — every newly published `Some(leader, term)` is justified by `isL leader term`.
-/
namespace DEngine.Elect

/-- pubs are newest-first: each `Some(_, t)` is bounded by `b`, and bounds the older ones -/
def okPubs : Nat → List Pub → Prop
  | _, [] => True
  | b, none :: ps => okPubs b ps
  | b, some (_, t) :: ps => t ≤ b ∧ okPubs t ps

theorem okPubs_mono {b b' : Nat} {ps : List Pub} (h : okPubs b ps) (hb : b ≤ b') : okPubs b' ps := by
  induction ps generalizing b b' with
  | nil => trivial
  | cons x ps ih =>
    cases x with
    | none => exact ih h hb
    | some lt => obtain ⟨l, t⟩ := lt; exact ⟨Nat.le_trans h.1 hb, h.2⟩

structure PubOK (n : Node) : Prop where
  ok : okPubs n.term n.pubs
  noop : n.role = .leader → ∀ t, n.noopTerm = some t → t = n.term

theorem notify_okPubs (n : Node) (lid : Option Nat) (t : Nat) (h : okPubs n.term n.pubs)
    (ht : ∀ l, lid = some l → t = n.term) : okPubs (notify n lid t).term (notify n lid t).pubs := by
  rcases notify_eq n lid t with he | he
  · rw [he]; exact h
  · rw [he]
    cases lid with
    | none => exact h
    | some l =>
      have := ht l rfl
      subst this
      exact ⟨Nat.le_refl _, h⟩

theorem becomeFollower_pubOK (n : Node) (lid : Option Nat) (h : okPubs n.term n.pubs) :
    PubOK (becomeFollower n lid) := by
  refine ⟨?_, fun hr => by rw [becomeFollower_role] at hr; cases hr⟩
  unfold becomeFollower
  split
  · exact h
  · exact notify_okPubs _ lid n.term h (fun _ _ => rfl)

theorem followerOnVoteReq_pubs (n : Node) (r : VoteReq) :
    (followerOnVoteReq n r).1.pubs = n.pubs ∧ (followerOnVoteReq n r).1.role = n.role ∧
    (followerOnVoteReq n r).1.noopTerm = n.noopTerm ∧ n.term ≤ (followerOnVoteReq n r).1.term := by
  unfold followerOnVoteReq handleVoteRequest
  by_cases hgt : r.term > n.term <;>
    cases hg : (voteDecision r n.term n.vf n.lli n.llt).granted <;>
    simp [hgt, hg, updateVotedFor] <;> omega

theorem followerOnVoteReq_pubOK (n : Node) (r : VoteReq) (h : PubOK n) (hr : n.role ≠ .leader) :
    PubOK (followerOnVoteReq n r).1 := by
  obtain ⟨h1, h2, _, h4⟩ := followerOnVoteReq_pubs n r
  exact ⟨by rw [h1]; exact okPubs_mono h.ok h4, fun hl => by rw [h2] at hl; exact absurd hl hr⟩

theorem onVoteReq_pubOK (n : Node) (r : VoteReq) (h : PubOK n) : PubOK (onVoteReq n r).1 := by
  unfold onVoteReq
  split
  · rename_i hr; exact followerOnVoteReq_pubOK n r h (by simp [hr])
  · unfold candidateOnVoteReq
    split
    · rename_i hl
      have hs := checkLegal_spec hl
      have h1 : PubOK (becomeFollower { n with term := r.term } none) :=
        becomeFollower_pubOK _ none (okPubs_mono h.ok hs.1)
      exact followerOnVoteReq_pubOK _ r h1 (by rw [becomeFollower_role]; simp)
    · exact h
  · unfold leaderOnVoteReq
    split
    · rename_i hl
      have h1 : PubOK (becomeFollower { n with term := r.term } none) :=
        becomeFollower_pubOK _ none (okPubs_mono h.ok (Nat.le_of_lt hl))
      exact followerOnVoteReq_pubOK _ r h1 (by rw [becomeFollower_role]; simp)
    · exact h
  · rename_i hr
    unfold learnerOnVoteReq
    split
    · rename_i hgt
      exact ⟨okPubs_mono h.ok (Nat.le_of_lt hgt), fun hl => by simp [hr] at hl⟩
    · exact h

theorem followerOnAE_pubOK (n : Node) (t l : Nat) (h : PubOK n) (hr : n.role ≠ .leader) :
    PubOK (followerOnAE n t l).1 := by
  by_cases hs : n.term > t
  · rw [followerOnAE_stale n t l hs]; exact h
  · refine ⟨?_, fun hl => by rw [(followerOnAE_fields n t l hs).2.2.2.1] at hl; exact absurd hl hr⟩
    rw [followerOnAE_eq n t l hs]
    have hb : okPubs t n.pubs := okPubs_mono h.ok (by omega)
    cases isNewCommit n ⟨l, t, true⟩
    · exact hb
    · exact notify_okPubs { n with vf := some ⟨l, t, true⟩, leader := l, term := t } (some l) t hb (fun _ _ => rfl)

theorem onAppendEntries_pubOK (n : Node) (t l : Nat) (h : PubOK n) : PubOK (onAppendEntries n t l).1 := by
  unfold onAppendEntries
  split
  · rename_i hr; exact followerOnAE_pubOK n t l h (by simp [hr])
  · rename_i hr; exact followerOnAE_pubOK n t l h (by simp [hr])
  · by_cases hc : t ≥ n.term
    · simp only [hc, if_true]
      refine followerOnAE_pubOK _ t l (becomeFollower_pubOK _ none ?_) (by rw [becomeFollower_role]; simp)
      refine okPubs_mono h.ok ?_
      simp only; split <;> omega
    · simp only [hc, if_false]; exact h
  · by_cases hc : n.term ≥ t
    · simp only [hc, if_true]; exact h
    · simp only [hc, if_false]
      exact followerOnAE_pubOK _ t l (becomeFollower_pubOK _ (some l) (okPubs_mono h.ok (by simp; omega)))
        (by rw [becomeFollower_role]; simp)

theorem becomeCandidate_pubOK (n : Node) (h : PubOK n) : PubOK (becomeCandidate n) := by
  unfold becomeCandidate
  split
  · exact ⟨notify_okPubs _ none n.term h.ok (fun _ hh => by cases hh), fun hl => by simp at hl⟩
  · exact h

theorem becomeLeader_pubOK (n : Node) (h : PubOK n) : PubOK (becomeLeader n) := by
  unfold becomeLeader
  split
  · exact ⟨h.ok, fun _ t ht => by simp [updateVotedFor] at ht; exact ht.symm⟩
  · exact h

theorem finishElection_pubOK (n : Node) (o : Outcome) (h : PubOK n) (hh : ∀ t, o = .higherTerm t → n.term < t) :
    PubOK (finishElection n o) := by
  cases o <;> simp only [finishElection]
  case won => exact becomeLeader_pubOK n h
  case wonWithoutVotes => exact becomeLeader_pubOK n h
  case higherTerm t => exact becomeFollower_pubOK _ none (okPubs_mono h.ok (Nat.le_of_lt (hh t rfl)))
  all_goals exact h

theorem leaderOnHigherTerm_pubOK (n : Node) (t : Nat) (h : PubOK n) : PubOK (leaderOnHigherTerm n t) := by
  unfold leaderOnHigherTerm
  split
  · split
    · rename_i hgt; exact becomeFollower_pubOK _ none (okPubs_mono h.ok (Nat.le_of_lt hgt))
    · exact h
  · exact h

theorem noopCommitted_pubOK (n : Node) (t : Nat) (h : PubOK n) (hr : n.role = .leader) (hn : n.noopTerm = some t) :
    PubOK (noopCommitted n t) := by
  have ht := h.noop hr t hn
  unfold noopCommitted
  exact ⟨notify_okPubs n (some n.id) t h.ok (fun _ _ => ht), fun hl t' ht' => by simp at hl ht' ⊢; exact h.noop hl t' ht'⟩

/-- every step keeps `PubOK` of every node -/
theorem pubOK_step (c : Cluster) (hd : DInv c) (l : Label) (q : Nat)
    (h : PubOK (c.proc q).node) : PubOK ((step c l).proc q).node := by
  have hn := step_node c l q
  unfold NodeStepL at hn
  rcases hn with hn | hn
  · rw [hn]; exact h
  · cases l with
    | voteReq p r => rw [hn.2]; exact onVoteReq_pubOK _ _ h
    | appendEntries p t ld => rw [hn.2]; exact onAppendEntries_pubOK _ _ _ h
    | heartbeat ld p => rw [hn.2.2]; exact onAppendEntries_pubOK _ _ _ h
    | timeout p => rw [hn.2]; exact becomeCandidate_pubOK _ h
    | start p =>
      rw [hn.2.2]
      exact ⟨okPubs_mono h.ok (Nat.le_succ _), fun hl => by simp [startElection, updateVotedFor, hn.2.1] at hl⟩
    | deliver cand j => rw [hn.2]; exact onVoteReq_pubOK _ _ h
    | scripted _ _ => exact hn.elim
    | finish p ok =>
      obtain ⟨_, o, ho, hh⟩ := hn
      rw [ho]; exact finishElection_pubOK _ o h hh
    | stepDown p => rw [hn.2]; exact becomeFollower_pubOK _ none h.ok
    | higherTerm p t => rw [hn.2]; exact leaderOnHigherTerm_pubOK _ t h
    | noopCommitted p =>
      obtain ⟨_, t, hr, hnt, ho⟩ := hn
      rw [ho]; exact noopCommitted_pubOK _ t h hr hnt
    | logChange p a b => rw [hn.2]; exact ⟨h.ok, h.noop⟩
    | confChange _ _ => exact hn.elim
    | stop _ => exact hn.elim
    | crash _ => exact hn.elim
    | restart p =>
      obtain ⟨hq, hup, ho⟩ := hn
      rw [ho]
      subst hq
      have hle := bootNode_term_le (c.proc q) (hd q hup)
      refine ⟨okPubs_mono h.ok ?_, fun hl => ?_⟩
      · simpa [bootNode] using hle
      · cases hsl : (c.proc q).startLearner <;> simp [bootNode, hsl] at hl

/-- newest-first bounded/ordered pubs, read chronologically, have non-decreasing terms -/
theorem pairwise_of_okPubs {b : Nat} {ps : List Pub} (h : okPubs b ps) :
    (∀ t ∈ pubTerms ps, t ≤ b) ∧ List.Pairwise (fun a c => c ≤ a) (pubTerms ps) := by
  induction ps generalizing b with
  | nil => exact ⟨by simp [pubTerms], by simp [pubTerms]⟩
  | cons x ps ih =>
    cases x with
    | none => simpa [pubTerms] using ih h
    | some lt =>
      obtain ⟨l, t⟩ := lt
      obtain ⟨h1, h2⟩ := ih h.2
      simp only [pubTerms, List.filterMap_cons, Option.map_some] at h1 h2 ⊢
      refine ⟨?_, List.pairwise_cons.mpr ⟨h1, h2⟩⟩
      intro t' ht'
      rcases List.mem_cons.mp ht' with he | he
      · rw [he]; exact h.1
      · exact Nat.le_trans (h1 t' he) h.1

theorem sortedLE_of_pairwise : ∀ (l : List Nat), List.Pairwise (fun a c => a ≤ c) l → sortedLE l = true
  | [], _ => rfl
  | [_], _ => rfl
  | a :: b :: rest, h => by
    have h1 := List.pairwise_cons.mp h
    simp only [sortedLE, Bool.and_eq_true, decide_eq_true_eq]
    exact ⟨h1.1 b List.mem_cons_self, sortedLE_of_pairwise (b :: rest) h1.2⟩

theorem pubTerms_reverse (ps : List Pub) : pubTerms ps.reverse = (pubTerms ps).reverse := by
  simp [pubTerms, List.filterMap_reverse]

theorem sortedLE_of_pubOK {n : Node} (h : PubOK n) : sortedLE (pubTerms n.pubs.reverse) = true := by
  rw [pubTerms_reverse]
  apply sortedLE_of_pairwise
  rw [List.pairwise_reverse]
  exact (pairwise_of_okPubs h.ok).2

/-! ### truthfulness -/

def PubsSub (isL : Nat → Nat → Prop) (n n' : Node) : Prop :=
  ∀ l t, some (l, t) ∈ n'.pubs → some (l, t) ∈ n.pubs ∨ isL l t

theorem PubsSub.refl (isL : Nat → Nat → Prop) (n : Node) : PubsSub isL n n := fun _ _ h => Or.inl h

theorem PubsSub.of_eq {isL : Nat → Nat → Prop} {n n' : Node} (h : n'.pubs = n.pubs) : PubsSub isL n n' :=
  fun _ _ hm => Or.inl (h ▸ hm)

theorem PubsSub.trans {isL : Nat → Nat → Prop} {a b c : Node} (h1 : PubsSub isL a b) (h2 : PubsSub isL b c) :
    PubsSub isL a c := by
  intro l t hm
  rcases h2 l t hm with h | h
  · exact h1 l t h
  · exact Or.inr h

theorem notify_pubsSub (isL : Nat → Nat → Prop) (n : Node) (lid : Option Nat) (t : Nat)
    (h : ∀ l, lid = some l → isL l t) : PubsSub isL n (notify n lid t) := by
  intro l' t' hm
  rcases notify_eq n lid t with he | he
  · rw [he] at hm; exact Or.inl hm
  · rw [he] at hm
    simp only [List.mem_cons] at hm
    rcases hm with hm | hm
    · cases lid with
      | none => cases hm
      | some l0 =>
        simp only [Option.map_some, Option.some.injEq, Prod.mk.injEq] at hm
        right
        rw [hm.1, hm.2]
        exact h l0 rfl
    · exact Or.inl hm

theorem becomeFollower_pubsSub (isL : Nat → Nat → Prop) (n : Node) (lid : Option Nat)
    (h : ∀ l, lid = some l → isL l n.term) : PubsSub isL n (becomeFollower n lid) := by
  unfold becomeFollower
  split
  · exact PubsSub.refl isL n
  · exact PubsSub.trans
      (PubsSub.of_eq (n' := { n with role := .follower, vf := keepCurrentVote n.term n.vf, noopTerm := none }) rfl)
      (notify_pubsSub isL _ lid n.term h)

theorem onVoteReq_pubsSub (isL : Nat → Nat → Prop) (n : Node) (r : VoteReq) : PubsSub isL n (onVoteReq n r).1 := by
  have hf : ∀ m : Node, PubsSub isL m (followerOnVoteReq m r).1 :=
    fun m => PubsSub.of_eq (followerOnVoteReq_pubs m r).1
  have hb : ∀ t', PubsSub isL n (becomeFollower { n with term := t' } none) := fun t' =>
    PubsSub.trans (PubsSub.of_eq (n' := { n with term := t' }) rfl)
      (becomeFollower_pubsSub isL _ none (fun _ hh => by cases hh))
  unfold onVoteReq
  split
  · exact hf n
  · unfold candidateOnVoteReq
    split
    · exact PubsSub.trans (hb _) (hf _)
    · exact PubsSub.refl isL n
  · unfold leaderOnVoteReq
    split
    · exact PubsSub.trans (hb _) (hf _)
    · exact PubsSub.refl isL n
  · unfold learnerOnVoteReq
    split
    · exact PubsSub.of_eq rfl
    · exact PubsSub.refl isL n

theorem followerOnAE_pubsSub (isL : Nat → Nat → Prop) (n : Node) (t l : Nat) (hL : isL l t) :
    PubsSub isL n (followerOnAE n t l).1 := by
  by_cases hs : n.term > t
  · rw [followerOnAE_stale n t l hs]; exact PubsSub.refl isL n
  · rw [followerOnAE_eq n t l hs]
    cases isNewCommit n ⟨l, t, true⟩
    · exact PubsSub.of_eq rfl
    · exact PubsSub.trans (PubsSub.of_eq (n' := { n with vf := some ⟨l, t, true⟩, leader := l, term := t }) rfl)
        (notify_pubsSub isL _ (some l) t (fun l0 hh => by cases hh; exact hL))

/-- AppendEntries of a recorded leader only publishes that leader (also when it deposes a leader: since fix
    05b4801 the term is adopted before `BecomeFollower(Some(leader))`) -/
theorem onAppendEntries_pubsSub (isL : Nat → Nat → Prop) (n : Node) (t l : Nat) (hL : isL l t) :
    PubsSub isL n (onAppendEntries n t l).1 := by
  unfold onAppendEntries
  split
  · exact followerOnAE_pubsSub isL n t l hL
  · exact followerOnAE_pubsSub isL n t l hL
  · by_cases hc : t ≥ n.term
    · simp only [hc, if_true]
      exact PubsSub.trans
        (PubsSub.trans (PubsSub.of_eq (n' := { n with leader := l, term := if t > n.term then t else n.term }) rfl)
          (becomeFollower_pubsSub isL _ none (fun _ hh => by cases hh)))
        (followerOnAE_pubsSub isL _ t l hL)
    · simp only [hc, if_false]; exact PubsSub.refl isL n
  · by_cases hc : n.term ≥ t
    · simp only [hc, if_true]; exact PubsSub.refl isL n
    · simp only [hc, if_false]
      exact PubsSub.trans
        (PubsSub.trans (PubsSub.of_eq (n' := { n with term := t }) rfl)
          (becomeFollower_pubsSub isL _ (some l) (fun l0 hh => by cases hh; exact hL)))
        (followerOnAE_pubsSub isL _ t l hL)

theorem finishElection_pubsSub (isL : Nat → Nat → Prop) (n : Node) (o : Outcome) : PubsSub isL n (finishElection n o) := by
  have hl : PubsSub isL n (becomeLeader n) := by
    unfold becomeLeader
    split
    · exact PubsSub.of_eq rfl
    · exact PubsSub.refl isL n
  cases o <;> simp only [finishElection]
  case won => exact hl
  case wonWithoutVotes => exact hl
  case higherTerm t =>
    exact PubsSub.trans (PubsSub.of_eq (n' := { n with term := t }) rfl)
      (becomeFollower_pubsSub isL _ none (fun _ hh => by cases hh))
  all_goals exact PubsSub.refl isL n

/-- published values of all nodes are justified by recorded leaders -/
def TInv (c : Cluster) : Prop := ∀ p l t, some (l, t) ∈ (c.proc p).node.pubs → c.isL l t

theorem step_leaders_sub (c : Cluster) (l : Label) : ∀ x, x ∈ c.leaders → x ∈ (step c l).leaders := by
  intro x hx
  cases l with
  | voteReq p r =>
    simp only [step]; split
    · rw [(handleVoteReq_frame c p r).2.1]; exact hx
    · exact hx
  | deliver cand j =>
    simp only [step]
    cases c.flight cand with
    | none => exact hx
    | some f =>
      simp only
      split
      · simp only; rw [(handleVoteReq_frame c j _).2.1]; exact hx
      · exact hx
  | finish p ok =>
    simp only [step]
    cases c.flight p with
    | none => exact hx
    | some f =>
      simp only
      by_cases hup : (c.proc p).up = true
      · simp only [hup, if_true]
        have key : ∀ (cnd : Prop) [Decidable cnd] (A B : Cluster), (∀ y, y ∈ c.leaders → y ∈ A.leaders) →
            (∀ y, y ∈ c.leaders → y ∈ B.leaders) → x ∈ (if cnd then A else B).leaders := by
          intro cnd _ A B h1 h2
          by_cases hc : cnd
          · simp only [hc, if_true]; exact h1 x hx
          · simp only [hc, if_false]; exact h2 x hx
        exact key _ _ _ (fun y hy => List.mem_cons_of_mem _ hy) (fun y hy => hy)
      · simp only [hup]; exact hx
  | scripted cand r =>
    simp only [step]
    cases c.flight cand with
    | none => exact hx
    | some f => simp only; split <;> exact hx
  | noopCommitted p =>
    simp only [step]; split
    · split <;> exact hx
    · exact hx
  | appendEntries p t l => simp only [step]; split <;> exact hx
  | heartbeat l p => simp only [step]; split <;> exact hx
  | timeout p => simp only [step]; split <;> exact hx
  | start p => simp only [step]; split <;> exact hx
  | stepDown p => simp only [step]; split <;> exact hx
  | higherTerm p t => simp only [step]; split <;> exact hx
  | logChange p a b => simp only [step]; split <;> exact hx
  | confChange p ch => simp only [step]; split <;> exact hx
  | stop p => simp only [step]; split <;> exact hx
  | crash p => simp only [step]; split <;> exact hx
  | restart p => simp only [step]; split <;> exact hx

theorem isL_step {c : Cluster} (l : Label) {a b : Nat} (h : c.isL a b) : (step c l).isL a b := by
  obtain ⟨Q, hQ⟩ := h
  exact ⟨Q, step_leaders_sub c l _ hQ⟩

theorem tinv_step {V : List Nat} {c : Cluster} (h : Inv V c) (hp : ∀ q, PubOK (c.proc q).node) (ht : TInv c)
    (l : Label) (hs : Safe V c l) : TInv (step c l) := by
  intro q l' t' hm
  have lift : PubsSub c.isL (c.proc q).node ((step c l).proc q).node → (step c l).isL l' t' := by
    intro hsub
    rcases hsub l' t' hm with h1 | h1
    · exact isL_step l (ht q l' t' h1)
    · exact isL_step l h1
  apply lift
  have hnode := step_node c l q
  unfold NodeStepL at hnode
  rcases hnode with hnode | hnode
  · rw [hnode]; exact PubsSub.refl _ _
  · cases l with
    | voteReq p r => rw [hnode.2]; exact onVoteReq_pubsSub _ _ _
    | appendEntries p t ld =>
      obtain ⟨hq, hnode⟩ := hnode
      subst hq
      rw [hnode]
      exact onAppendEntries_pubsSub _ _ t ld ((isLeaderAt_iff c ld t).mp hs)
    | heartbeat ld p =>
      obtain ⟨hq, hrole, hnode⟩ := hnode
      subst hq
      rw [hnode]
      exact onAppendEntries_pubsSub _ _ _ ld (h.r ld hrole)
    | timeout p =>
      rw [hnode.2]
      unfold becomeCandidate
      split
      · exact PubsSub.trans (PubsSub.of_eq (n' := { (c.proc q).node with role := .candidate }) rfl)
          (notify_pubsSub _ _ none _ (fun _ hh => by cases hh))
      · exact PubsSub.refl _ _
    | start p => rw [hnode.2.2]; exact PubsSub.of_eq rfl
    | deliver cand j => rw [hnode.2]; exact onVoteReq_pubsSub _ _ _
    | scripted _ _ => exact hnode.elim
    | finish p ok =>
      obtain ⟨_, o, ho, _⟩ := hnode
      rw [ho]; exact finishElection_pubsSub _ _ o
    | stepDown p => rw [hnode.2]; exact becomeFollower_pubsSub _ _ none (fun _ hh => by cases hh)
    | higherTerm p t =>
      rw [hnode.2]
      unfold leaderOnHigherTerm
      split
      · split
        · exact PubsSub.trans (PubsSub.of_eq (n' := { (c.proc q).node with term := t }) rfl)
            (becomeFollower_pubsSub _ _ none (fun _ hh => by cases hh))
        · exact PubsSub.refl _ _
      · exact PubsSub.refl _ _
    | noopCommitted p =>
      obtain ⟨_, t, hr, hnt, ho⟩ := hnode
      rw [ho]
      unfold noopCommitted
      refine notify_pubsSub _ _ _ _ (fun l0 hh => ?_)
      cases hh
      have := (hp q).noop hr t hnt
      rw [this, h.ids q]
      exact h.r q hr
    | logChange p a b => rw [hnode.2]; exact PubsSub.of_eq rfl
    | confChange _ _ => exact hnode.elim
    | stop _ => exact hnode.elim
    | crash _ => exact hnode.elim
    | restart p =>
      obtain ⟨_, _, ho⟩ := hnode
      rw [ho]; exact PubsSub.of_eq (by simp [bootNode])

end DEngine.Elect
