/-
  C05, leader completeness over the benign sub-relation: reachability with history, and the core argument — an entry
  that a majority held in the entry's own term is in the log of every leader elected in a later term
  (strong induction on the later term; the voter in the intersection of the two majorities either still held the entry
  when it voted, and then the up-to-date check hands it to the candidate, or a leader in between did not have it).
-/
import DEngine.Lemmas.ClusterCompleteStep4
namespace DEngine.Cluster

/-- states reachable by benign steps (no F8 / F9 trigger), together with their history -/
inductive ReachH (n cap : Nat) : Cluster → Hist → Prop
  | init : ReachH n cap (Cluster.init n cap) {}
  | step {c : Cluster} {H : Hist} (e : Event) : ReachH n cap c H → benignB c e = true →
      ReachH n cap (step c e).1 (histStep c e H)

structure AllInv (c : Cluster) (H : Hist) : Prop where
  hI : Inv c
  hE : EInv c
  hG : GInv c
  hR : RInv c
  hH : HInv c H

theorem allInv_init (n cap : Nat) : AllInv (Cluster.init n cap) {} :=
  ⟨inv_init n cap, einv_init n cap, ginv_init n cap, rinv_init n cap, hinv_init n cap⟩

theorem allInv_ctx {c : Cluster} {H : Hist} (a : AllInv c H) (e : Event) (hb : benignB c e = true) : Ctx c e := by
  have hE' := step_einv a.hI a.hE e
  have hI' := step_inv a.hI e hE'.fresh
  exact ⟨a.hI, a.hE, a.hG, a.hR, hI', hE', step_ginv a.hI a.hE a.hG e hI', hb⟩

theorem allInv_step {c : Cluster} {H : Hist} (a : AllInv c H) (e : Event) (hb : benignB c e = true) :
    AllInv (step c e).1 (histStep c e H) := by
  have X := allInv_ctx a e hb
  exact ⟨X.hI', X.hE', X.hG', step_rinv a.hE a.hR e, step_hinv X a.hH⟩

theorem reachH_all {n cap : Nat} {c : Cluster} {H : Hist} (hr : ReachH n cap c H) : AllInv c H := by
  induction hr with
  | init => exact allInv_init n cap
  | step e _ hb ih => exact allInv_step ih e hb

/-- a strict majority of the voters held `x` while their term was `x.term` -/
def VC (c : Cluster) (H : Hist) (x : Entry) : Prop :=
  ∃ Q : List NodeId, Q.Nodup ∧ (∀ z ∈ Q, c.valid z = true) ∧ Q.length * 2 > c.n ∧ ∀ z ∈ Q, (z, x) ∈ H.acc

/-- The core of leader completeness. -/
theorem won_logs_hold {c : Cluster} {H : Hist} (h : HInv c H) {x : Entry} (hvc : VC c H x) :
    ∀ t' L, (t', L) ∈ H.won → x.term < t' → x ∈ L := by
  intro t'
  induction t' using Nat.strongRecOn with
  | ind t' ih =>
    intro L hL hlt
    obtain ⟨M, hMnd, hMval, hMmaj, hMall⟩ := h.win t' L hL
    obtain ⟨Q, hQnd, hQval, hQmaj, hQall⟩ := hvc
    obtain ⟨z, hzM, hzQ⟩ := quorums_meet (voterIds c.n) M Q hMnd hQnd
      (fun v hv => mem_voterIds (hMval v hv).1) (fun v hv => mem_voterIds (hQval v hv))
      (by rw [voterIds_length]; exact hMmaj) (by rw [voterIds_length]; exact hQmaj)
    rcases hMall z hzM x (hQall z hzQ) hlt with h1 | ⟨t'', L'', hL'', h1, h2, hnot⟩
    · exact h1
    · exact absurd (ih t'' h2 L'' hL'' h1) hnot

/-- every sitting leader of a later term holds the entry -/
theorem later_leaders_hold {c : Cluster} {H : Hist} (h : HInv c H) {x : Entry} (hvc : VC c H x) (l : NodeId)
    (hrole : (c.nodes l).role = .leader) (hlt : x.term < (c.nodes l).term) : x ∈ (c.nodes l).log := by
  obtain ⟨L, hL, hsub⟩ := h.lead_won l hrole
  exact hsub x (won_logs_hold h hvc _ L hL hlt)

end DEngine.Cluster
