import DEngine.Model.Commit
/-!
Helper lemmas for C09: sorted-median arithmetic, association-list facts.
-/
namespace DEngine.Commit
open DEngine.Memb

/-! ### counting in a descending list -/

theorem countGE_cons (n a : Nat) (l : List Nat) :
    countGE n (a :: l) = (if n ≤ a then 1 else 0) + countGE n l := by
  unfold countGE
  by_cases h : n ≤ a <;> simp [List.filter_cons, h] <;> omega

theorem countGE_perm {n : Nat} {l₁ l₂ : List Nat} (h : l₁.Perm l₂) : countGE n l₁ = countGE n l₂ := by
  unfold countGE
  exact (h.filter _).length_eq

theorem countGE_le_length (n : Nat) (l : List Nat) : countGE n l ≤ l.length := by
  unfold countGE; exact List.length_filter_le _ _

/-- In a descending list the element at position `k` is dominated by the `k+1` elements up to it. -/
theorem countGE_getElem_of_desc : ∀ (v : List Nat) (k : Nat) (hk : k < v.length),
    v.Pairwise (fun a b => b ≤ a) → k + 1 ≤ countGE v[k] v
  | [], k, hk, _ => by simp at hk
  | a :: rest, 0, _, _ => by
    rw [countGE_cons]; simp
  | a :: rest, k + 1, hk, hp => by
    have hp' := List.pairwise_cons.mp hp
    have hk' : k < rest.length := by simpa using hk
    have ih := countGE_getElem_of_desc rest k hk' hp'.2
    have hmem : rest[k] ∈ rest := List.getElem_mem hk'
    have hle : rest[k] ≤ a := hp'.1 _ hmem
    rw [countGE_cons]
    simp only [List.getElem_cons_succ]
    simp [hle]; omega

theorem insDesc_perm (a : Nat) (l : List Nat) : (insDesc a l).Perm (a :: l) := by
  induction l with
  | nil => simp [insDesc]
  | cons b rest ih =>
    unfold insDesc
    split
    · exact List.Perm.refl _
    · exact (List.Perm.cons b ih).trans (List.Perm.swap a b rest)

theorem insDesc_desc (a : Nat) (l : List Nat) (h : l.Pairwise (fun x y => y ≤ x)) :
    (insDesc a l).Pairwise (fun x y => y ≤ x) := by
  induction l with
  | nil => simp [insDesc]
  | cons b rest ih =>
    have hb := List.pairwise_cons.mp h
    unfold insDesc
    split
    · rename_i hba
      refine List.pairwise_cons.mpr ⟨?_, h⟩
      intro x hx
      rcases List.mem_cons.mp hx with hx | hx
      · omega
      · have := hb.1 x hx; omega
    · rename_i hba
      refine List.pairwise_cons.mpr ⟨?_, ih hb.2⟩
      intro x hx
      have hx' : x ∈ a :: rest := (insDesc_perm a rest).mem_iff.mp hx
      rcases List.mem_cons.mp hx' with hx' | hx'
      · omega
      · exact hb.1 x hx'

theorem sortDesc_perm (l : List Nat) : (sortDesc l).Perm l := by
  induction l with
  | nil => exact List.Perm.refl _
  | cons a rest ih =>
    show (insDesc a (sortDesc rest)).Perm (a :: rest)
    exact (insDesc_perm a _).trans (List.Perm.cons a ih)

theorem sortDesc_desc (l : List Nat) : (sortDesc l).Pairwise (fun a b => b ≤ a) := by
  induction l with
  | nil => exact List.Pairwise.nil
  | cons a rest ih => exact insDesc_desc a _ ih

/-- The median arithmetic of `calculate_majority_matched_index`, for every vector length:
    the element at `len/2` of the descending sort is reached by a strict majority of the vector. -/
theorem median_majority (l : List Nat) (hl : l ≠ []) :
    let v := sortDesc l
    l.length < 2 * countGE (v.getD (v.length / 2) 0) l := by
  intro v
  have hperm : v.Perm l := sortDesc_perm l
  have hlen : v.length = l.length := hperm.length_eq
  have hpos : 0 < l.length := List.length_pos_iff.mpr hl
  have hk : v.length / 2 < v.length := by omega
  have hget : v.getD (v.length / 2) 0 = v[v.length / 2] := by
    rw [List.getD_eq_getElem?_getD, List.getElem?_eq_getElem hk]; rfl
  rw [hget]
  have h1 := countGE_getElem_of_desc v (v.length / 2) hk (sortDesc_desc l)
  rw [countGE_perm hperm] at h1
  omega

theorem entryTerm_some {log : List Nat} {n t : Nat} (h : entryTerm log n = some t) :
    1 ≤ n ∧ n ≤ log.length := by
  unfold entryTerm at h
  split at h
  · simp at h
  · rename_i hn
    have hn' : n ≠ 0 := by simpa using hn
    have := List.getElem?_eq_some_iff.mp h
    obtain ⟨hlt, _⟩ := this
    omega

/-! ### association lists -/

theorem mget_cons (e : Nat × Nat) (m : IdxMap) (k : Nat) :
    mget (e :: m) k = if e.1 = k then some e.2 else mget m k := by
  unfold mget
  by_cases h : e.1 = k <;> simp [List.find?_cons, h]

theorem mget_mset (m : IdxMap) (k v k' : Nat) :
    mget (mset m k v) k' = if k' = k then (mget m k).map (fun _ => v) else mget m k' := by
  induction m with
  | nil => simp [mset, mget]
  | cons e rest ih =>
    have hcons : mset (e :: rest) k v = (if e.1 == k then (k, v) else e) :: mset rest k v := by
      simp [mset]
    rw [hcons, mget_cons, mget_cons, mget_cons, ih]
    by_cases hek : e.1 = k
    · by_cases hk' : k' = k
      · subst hk'; simp [hek]
      · have : ¬ k = k' := fun h => hk' h.symm
        have hne : ¬ e.1 = k' := by rw [hek]; exact this
        simp [hek, hk', this, hne]
    · by_cases hk' : k' = k
      · subst hk'; simp [hek]
      · simp [hek, hk']

theorem mget_append_single (m : IdxMap) (k v k' : Nat) :
    mget (m ++ [(k, v)]) k' = (mget m k').or (if k = k' then some v else none) := by
  induction m with
  | nil => simp [mget_cons, mget]
  | cons e rest ih =>
    simp only [List.cons_append]
    rw [mget_cons, mget_cons, ih]
    by_cases h : e.1 = k' <;> simp [h]

theorem mget_minsert (m : IdxMap) (k v k' : Nat) :
    mget (minsert m k v) k' = if k' = k then some v else mget m k' := by
  unfold minsert
  split
  · rename_i hs
    rw [mget_mset]
    by_cases hk' : k' = k
    · simp [hk']
      obtain ⟨x, hx⟩ := Option.isSome_iff_exists.mp hs
      simp [hx]
    · simp [hk']
  · rename_i hs
    have hnone : mget m k = none := by
      cases h : mget m k with
      | none => rfl
      | some x => simp [h] at hs
    rw [mget_append_single]
    by_cases hk' : k' = k
    · subst hk'; simp [hnone]
    · have : ¬ k = k' := fun h => hk' h.symm
      simp [hk', this]

theorem mgetD_minsert (m : IdxMap) (k v k' : Nat) :
    mgetD (minsert m k v) k' = if k' = k then v else mgetD m k' := by
  unfold mgetD
  rw [mget_minsert]
  split <;> simp

theorem filter_mset_of_not (p : Nat → Bool) (m : IdxMap) (k v : Nat) (hp : p k = false) :
    (mset m k v).filter (fun e => p e.1) = m.filter (fun e => p e.1) := by
  induction m with
  | nil => simp [mset]
  | cons e rest ih =>
    have hcons : mset (e :: rest) k v = (if e.1 == k then (k, v) else e) :: mset rest k v := by
      simp [mset]
    rw [hcons]
    by_cases hek : e.1 = k
    · simp [List.filter_cons, hek, hp, ih]
    · simp [List.filter_cons, hek, ih]

/-- keys of the filtered entries are not touched by an insertion under a key that fails the filter -/
theorem filter_minsert_of_not (p : Nat → Bool) (m : IdxMap) (k v : Nat) (hp : p k = false) :
    (minsert m k v).filter (fun e => p e.1) = m.filter (fun e => p e.1) := by
  unfold minsert
  split
  · exact filter_mset_of_not p m k v hp
  · simp [List.filter_append, hp]

end DEngine.Commit
