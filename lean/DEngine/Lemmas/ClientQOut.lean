import DEngine.Lemmas.ClientQ
/-!
  Which kinds of responses each part of the M-CLIENTQ model can emit (used by C29 and C14).
-/
namespace DEngine.ClientQ

inductive Grp | succ | rej | other
  deriving DecidableEq, Repr

/-- coarse classification: success-class answers (`ok`/`casFail`), rejections, everything else -/
def Resp.grp : Resp → Grp
  | .ok | .casFail => .succ
  | .exhausted | .emptyCmd | .notLeader => .rej
  | _ => .other

/-- an output with neither success-class answers nor rejections -/
def Quiet (o : Out) : Prop := ∀ x ∈ o, x.2.grp = .other

theorem Quiet.nil : Quiet [] := by intro x hx; simp at hx

theorem Quiet.append {a b : Out} (ha : Quiet a) (hb : Quiet b) : Quiet (a ++ b) := by
  intro x hx
  rcases List.mem_append.mp hx with h | h
  · exact ha x h
  · exact hb x h

theorem Quiet.answerAll (ids : List Nat) {r : Resp} (hr : r.grp = .other) : Quiet (answerAll ids r) := by
  intro x hx
  simp [DEngine.ClientQ.answerAll] at hx
  rcases hx with ⟨_, _, rfl⟩
  exact hr

theorem Quiet.flatMap_answerAll {α} (l : List α) (f : α → List Nat) {r : Resp} (hr : r.grp = .other) :
    Quiet (l.flatMap fun e => DEngine.ClientQ.answerAll (f e) r) := by
  intro x hx
  rcases List.mem_flatMap.mp hx with ⟨e, _, hxe⟩
  exact Quiet.answerAll _ hr x hxe

theorem readVal_grp (s : St) : s.readVal.grp = .other := rfl

theorem Quiet.gateReads (s : St) (r) : Quiet (gateReads s r).2 := by
  unfold DEngine.ClientQ.gateReads
  split
  · exact Quiet.answerAll _ rfl
  · exact Quiet.nil

theorem Quiet.routeReads (c : Cfg) (s : St) (r) : Quiet (routeReads c s r).2 := by
  unfold DEngine.ClientQ.routeReads
  split
  · split
    · exact Quiet.answerAll _ rfl
    · exact Quiet.nil
  · exact Quiet.nil

theorem Quiet.execRpc (c : Cfg) (s : St) (ents wm r) : Quiet (execRpc c s ents wm r).2 := by
  unfold DEngine.ClientQ.execRpc
  exact (Quiet.gateReads _ _).append (Quiet.routeReads _ _ _)

theorem Quiet.processLeaseRead (c : Cfg) (s : St) (id : Nat) : Quiet (processLeaseRead c s id).2 := by
  unfold DEngine.ClientQ.processLeaseRead
  split
  · intro x hx; simp at hx; subst hx; rfl
  · split
    · intro x hx; simp at hx; subst hx; rfl
    · exact Quiet.execRpc _ _ _ _ _

theorem Quiet.processLeaseReads (c : Cfg) (ids : List Nat) : ∀ s : St, Quiet (processLeaseReads c s ids).2 := by
  induction ids with
  | nil => intro s; exact Quiet.nil
  | cons id rest ih =>
    intro s
    unfold DEngine.ClientQ.processLeaseReads
    exact (Quiet.processLeaseRead c s id).append (ih _)

theorem Quiet.flushMain (c : Cfg) (s : St) : Quiet (flushMain c s).2 := by
  unfold DEngine.ClientQ.flushMain
  simp only
  split
  · split
    · exact Quiet.execRpc _ _ _ _ _
    · exact Quiet.nil
  · split
    · split <;> exact Quiet.execRpc _ _ _ _ _
    · exact Quiet.nil

theorem Quiet.flush (c : Cfg) (s : St) : Quiet (flush c s).2 := by
  unfold DEngine.ClientQ.flush
  exact ((Quiet.flushMain c s).append (Quiet.processLeaseReads c _ _)).append (Quiet.answerAll _ rfl)

theorem Quiet.drainActions (s : St) (nc : Nat) : Quiet (drainActions s nc).2 := by
  unfold DEngine.ClientQ.drainActions
  simp only
  intro x hx
  rcases List.mem_filterMap.mp hx with ⟨e, _, he⟩
  cases ha : e.2.2 <;> simp [joinAnswer, ha] at he
  subst he; rfl

theorem Quiet.drainPleases (s : St) : Quiet (drainPleases s).2 := Quiet.answerAll _ rfl

theorem Quiet.servePreads (s : St) (u : Nat) : Quiet (servePreads s u).2 :=
  Quiet.flatMap_answerAll _ _ rfl

/-- under the invariant every pending batch waits for apply, so a commit alone answers no write -/
theorem drainWrites_out_nil {R} {s : St} (h : Inv R s) (nc : Nat) : (drainWrites s nc).2 = [] := by
  unfold DEngine.ClientQ.drainWrites
  simp only
  apply List.flatMap_eq_nil_iff.mpr
  intro e he
  have := (h.pcw e (List.mem_filter.mp he).1).wait
  simp [this]

theorem Quiet.commitTo {R} {s : St} (h : Inv R s) (nc : Nat) (h1 : s.commit ≤ nc) (h2 : nc ≤ s.log.length) :
    Quiet (commitTo s nc).2 := by
  unfold DEngine.ClientQ.commitTo
  simp only
  have hc : Inv R ({ s with commit := nc } : St) :=
    h.shrink rfl (fun _ h => h) (fun _ h => h) (List.Sublist.refl _) (Nat.le_refl _) h1 h2
      (by have := h.applied_le; simp; omega) h.term_pos
  rw [drainWrites_out_nil hc]
  exact Quiet.nil.append (Quiet.drainActions _ _)

theorem Quiet.advanceCommit {R} {s : St} (h : Inv R s) : Quiet (advanceCommit s (newCommit s)).2 := by
  unfold DEngine.ClientQ.advanceCommit
  split
  · rename_i nc hnc
    have := newCommit_spec h.term_pos hnc
    exact Quiet.commitTo h nc (by omega) this.1
  · exact Quiet.nil

theorem Quiet.onQuorum (c : Cfg) (s : St) : Quiet (onQuorum c s).2 := by
  unfold DEngine.ClientQ.onQuorum
  exact (Quiet.drainPleases _).append (Quiet.servePreads _ _)

theorem Quiet.ackSuccess {R} (c : Cfg) {s : St} (h : Inv R s) (p m : Nat) : Quiet (ackSuccess c s p m).2 := by
  unfold DEngine.ClientQ.ackSuccess
  split
  · exact Quiet.nil
  · simp only
    have h0 : Inv R ({ s with matchIdx := setMatch s.matchIdx (p - 2) m } : St) :=
      h.frame rfl rfl rfl rfl rfl rfl rfl rfl
    split
    · exact (Quiet.advanceCommit h0).append (Quiet.onQuorum _ _)
    · exact Quiet.advanceCommit h0

theorem Quiet.ackHigherTerm (s : St) (t : Nat) : Quiet (ackHigherTerm s t).2 := by
  unfold DEngine.ClientQ.ackHigherTerm
  split
  · exact Quiet.nil
  · simp only [drainWritesErr]
    exact Quiet.flatMap_answerAll _ _ rfl

theorem Quiet.logFlushed {R} (c : Cfg) {s : St} (h : Inv R s) : Quiet (logFlushed c s).2 := by
  unfold DEngine.ClientQ.logFlushed
  simp only
  split
  · exact Quiet.nil
  · rename_i n hn
    have hsp : s.commit ≤ n ∧ n ≤ s.log.length := by
      split at hn
      · split at hn
        · injection hn with hn; subst hn; simp [St.lastEntry] at *; omega
        · simp at hn
      · have := newCommit_spec h.term_pos hn; omega
    have h1 := Quiet.commitTo h n hsp.1 hsp.2
    split
    · exact h1.append (Quiet.drainPleases _)
    · exact h1

theorem Quiet.sweep (c : Cfg) (s : St) : Quiet (sweep c s).2 := by
  unfold DEngine.ClientQ.sweep
  simp only
  refine ((Quiet.flatMap_answerAll _ _ rfl).append (Quiet.flatMap_answerAll _ _ rfl)).append
    (Quiet.answerAll _ rfl) |>.append ?_
  intro x hx
  rcases List.mem_filterMap.mp hx with ⟨e, _, he⟩
  cases ha : e.2.2 <;> simp [joinAnswer, ha] at he
  subst he; rfl

theorem Quiet.heartbeat (c : Cfg) (s : St) : Quiet (heartbeat c s).2 := by
  unfold DEngine.ClientQ.heartbeat
  split
  · simp only
    split <;> exact Quiet.execRpc _ _ _ _ _
  · exact Quiet.nil

theorem Quiet.tick (c : Cfg) (s : St) (ms : Nat) : Quiet (tick c s ms).2 := by
  unfold DEngine.ClientQ.tick
  exact (Quiet.heartbeat _ _).append (Quiet.sweep _ _)

theorem Quiet.fatalInbound (s : St) : Quiet (fatalInbound s).2 := by
  unfold DEngine.ClientQ.fatalInbound
  exact ((((Quiet.answerAll _ rfl).append (Quiet.answerAll _ rfl)).append (Quiet.flatMap_answerAll _ _ rfl)).append
    (Quiet.answerAll _ rfl)).append (Quiet.answerAll _ rfl)

theorem Quiet.initNoop (c : Cfg) (s : St) : Quiet (initNoop c s).2 := by
  unfold DEngine.ClientQ.initNoop
  exact Quiet.execRpc _ _ _ _ _

theorem Quiet.join (c : Cfg) (s : St) (n : Nat) : Quiet (join c s n).2 := by
  unfold DEngine.ClientQ.join
  simp only
  split
  · intro x hx; simp at hx; subst hx; rfl
  · exact Quiet.execRpc _ _ _ _ _

end DEngine.ClientQ
