import DEngine.Lemmas.ClientQ
import DEngine.Lemmas.ClientQKeeps
/-!
  Conservation of request ids in the M-CLIENTQ model (multiset accounting by `List.count`): what is pending after
  a step plus what is answered in it equals what was pending before plus what entered. Used by C29
  (`one_response_per_write`).
-/
namespace DEngine.ClientQ

/-- number of occurrences of `a` among the ids answered in an output -/
def oc (o : Out) (a : Nat) : Nat := (o.map (·.1)).count a
/-- number of queue positions holding `a` -/
def St.pc (s : St) (a : Nat) : Nat := s.pending.count a

theorem oc_nil (a : Nat) : oc [] a = 0 := rfl
theorem oc_append (o1 o2 : Out) (a : Nat) : oc (o1 ++ o2) a = oc o1 a + oc o2 a := by
  simp [oc, List.count_append]
theorem oc_answerAll (ids : List Nat) (r : Resp) (a : Nat) : oc (answerAll ids r) a = ids.count a := by
  simp [oc, answerAll, List.map_map, Function.comp_def]
theorem oc_single (id : Nat) (r : Resp) (a : Nat) : oc [(id, r)] a = [id].count a := rfl

theorem oc_flatMap_answerAll {α} (l : List α) (f : α → List Nat) (r : Resp) (a : Nat) :
    oc (l.flatMap fun e => answerAll (f e) r) a = (l.flatMap f).count a := by
  induction l with
  | nil => rfl
  | cons x xs ih => simp only [List.flatMap_cons, oc_append, oc_answerAll, List.count_append, ih]

theorem pc_eq (s : St) (a : Nat) :
    s.pc a = (s.propose.map (·.1)).count a + (s.pcw.flatMap (·.2.senders)).count a + (s.pwa.map (·.2)).count a +
      s.linBuf.count a + s.leaseQ.count a + s.evQ.count a + (s.preads.flatMap (·.2.2)).count a +
      (s.pleases.map (·.1)).count a + (s.pca.filterMap joinId).count a := by
  simp only [St.pc, St.pending, St.pendW, St.pendR, St.pendJ, List.count_append]
  omega

/-- splitting a list by a predicate splits the count of a `flatMap` -/
theorem count_flatMap_split {α} (l : List α) (p : α → Bool) (f : α → List Nat) (a : Nat) :
    ((l.filter p).flatMap f).count a + ((l.filter fun e => !p e).flatMap f).count a = (l.flatMap f).count a := by
  induction l with
  | nil => rfl
  | cons x xs ih =>
    simp only [List.filter_cons, List.flatMap_cons, List.count_append]
    cases hp : p x <;> simp [List.flatMap_cons, List.count_append] <;> omega

theorem count_map_split {α} (l : List α) (p : α → Bool) (g : α → Nat) (a : Nat) :
    ((l.filter p).map g).count a + ((l.filter fun e => !p e).map g).count a = (l.map g).count a := by
  induction l with
  | nil => rfl
  | cons x xs ih =>
    simp only [List.filter_cons, List.map_cons]
    cases hp : p x <;> simp [List.count_cons] <;> omega

theorem count_filterMap_split {α} (l : List α) (p : α → Bool) (g : α → Option Nat) (a : Nat) :
    ((l.filter p).filterMap g).count a + ((l.filter fun e => !p e).filterMap g).count a =
      (l.filterMap g).count a := by
  induction l with
  | nil => rfl
  | cons x xs ih =>
    simp only [List.filter_cons]
    cases hp : p x <;> cases hg : g x <;> simp [List.filterMap_cons, hg, List.count_cons] <;> omega

/-- **Conservation**: pending afterwards + answered = pending before + entering ids. -/
def Cons (s s' : St) (o : Out) (inn : List Nat) : Prop := ∀ a, s'.pc a + oc o a = s.pc a + inn.count a

theorem Cons.refl (s : St) : Cons s s [] [] := fun a => by simp [oc_nil]

theorem Cons.trans {s s1 s2 : St} {o1 o2 : Out} {i1 i2 : List Nat} (h1 : Cons s s1 o1 i1) (h2 : Cons s1 s2 o2 i2) :
    Cons s s2 (o1 ++ o2) (i1 ++ i2) := by
  intro a
  have a1 := h1 a
  have a2 := h2 a
  simp only [oc_append, List.count_append]
  omega

/-- same queues ⇒ same counts -/
theorem Cons.of_queues_eq {s s' : St} (h1 : s'.propose = s.propose) (h2 : s'.pcw = s.pcw)
    (h3 : s'.pwa = s.pwa) (h4 : s'.linBuf = s.linBuf) (h5 : s'.leaseQ = s.leaseQ) (h6 : s'.evQ = s.evQ)
    (h7 : s'.preads = s.preads) (h8 : s'.pleases = s.pleases) (h9 : s'.pca = s.pca) : Cons s s' [] [] := by
  intro a
  simp [pc_eq, h1, h2, h3, h4, h5, h6, h7, h8, h9, oc_nil]

theorem Cons.cast {s s' : St} {o o' : Out} {i i' : List Nat} (h : Cons s s' o i) (ho : ∀ a, oc o' a = oc o a)
    (hi : ∀ a, i'.count a = i.count a) : Cons s s' o' i' := by
  intro a; rw [ho, hi]; exact h a

theorem cons_pushWrite (c : Cfg) (s : St) (op : WOp) :
    Cons s (pushWrite c s op).1 (pushWrite c s op).2 [s.nextId] := by
  intro a
  unfold pushWrite; simp only; repeat' split
  all_goals (simp [pc_eq, oc, List.count_append]; try omega)

theorem cons_pushRead (c : Cfg) (s : St) (p : Nat) :
    Cons s (pushRead c s p).1 (pushRead c s p).2 [s.nextId] := by
  intro a
  unfold pushRead; simp only; repeat' split
  all_goals (simp [pc_eq, oc, List.count_append]; try omega)

theorem cons_pushScan (c : Cfg) (s : St) : Cons s (pushScan c s).1 (pushScan c s).2 [s.nextId] := by
  intro a
  unfold pushScan
  simp [pc_eq, oc]

theorem cons_drainPleases (s : St) : Cons s (drainPleases s).1 (drainPleases s).2 [] := by
  intro a
  unfold drainPleases
  simp only [pc_eq, oc_answerAll]
  simp
  omega

theorem cons_servePreads (s : St) (u : Nat) : Cons s (servePreads s u).1 (servePreads s u).2 [] := by
  intro a
  unfold servePreads
  simp only [pc_eq, oc_flatMap_answerAll]
  have := count_flatMap_split s.preads (fun e => decide (e.1 ≤ u)) (·.2.2) a
  simp only [List.count_nil]
  omega

theorem drainActions_fields (s : St) (nc : Nat) :
    (drainActions s nc).1.propose = s.propose ∧ (drainActions s nc).1.pcw = s.pcw ∧
    (drainActions s nc).1.pwa = s.pwa ∧ (drainActions s nc).1.linBuf = s.linBuf ∧
    (drainActions s nc).1.leaseQ = s.leaseQ ∧ (drainActions s nc).1.evQ = s.evQ ∧
    (drainActions s nc).1.preads = s.preads ∧ (drainActions s nc).1.pleases = s.pleases ∧
    (drainActions s nc).1.pca = s.pca.filter (fun e => !(e.1 ≤ nc)) := by
  unfold drainActions; simp only; split <;> exact ⟨rfl, rfl, rfl, rfl, rfl, rfl, rfl, rfl, rfl⟩

/-- ids answered by a `filterMap` over commit actions that answers exactly the joins -/
theorem oc_join_filterMap (l : List (Nat × Nat × CAct)) (r : Resp) (a : Nat) :
    oc (l.filterMap (joinAnswer r)) a = (l.filterMap joinId).count a := by
  induction l with
  | nil => rfl
  | cons x xs ih =>
    rcases x with ⟨k, d, act⟩
    cases act <;> simp [List.filterMap_cons, joinId, joinAnswer, oc, List.count_cons] at ih ⊢ <;> omega

theorem cons_drainActions (s : St) (nc : Nat) : Cons s (drainActions s nc).1 (drainActions s nc).2 [] := by
  intro a
  rcases drainActions_fields s nc with ⟨f1, f2, f3, f4, f5, f6, f7, f8, f9⟩
  have hout : (drainActions s nc).2 = (s.pca.filter (·.1 ≤ nc)).filterMap (joinAnswer .joinOk) := by
    unfold drainActions; rfl
  rw [pc_eq, pc_eq, f1, f2, f3, f4, f5, f6, f7, f8, f9, hout, oc_join_filterMap]
  have := count_filterMap_split s.pca (fun e => decide (e.1 ≤ nc)) joinId a
  simp only [List.count_nil]
  omega

theorem zipIdx_map_snd_ids (l : List Nat) (st : Nat) (k : Nat) :
    ((l.zipIdx k).map fun (x : Nat × Nat) => (st + x.2, x.1)).map (·.2) = l := by
  induction l generalizing k with
  | nil => rfl
  | cons x xs ih => simp [List.zipIdx_cons, ih]

/-- the two halves of `drainWrites` on the committed batches: waiting batches go to `pending_write_apply`, the
    others are answered; together they carry exactly the batches' senders -/
theorem drainWrites_committed_count (l : List (Nat × WMeta)) (a : Nat) :
    ((l.flatMap fun e => if e.2.wait then (e.2.senders.zipIdx.map fun (x : Nat × Nat) => (e.2.start + x.2, x.1)) else []).map (·.2)).count a +
      oc (l.flatMap fun e => if e.2.wait then [] else answerAll e.2.senders .ok) a =
    (l.flatMap (·.2.senders)).count a := by
  induction l with
  | nil => rfl
  | cons x xs ih =>
    simp only [List.flatMap_cons, List.map_append, List.count_append, oc_append]
    cases hw : x.2.wait
    · simp only [Bool.false_eq_true, ↓reduceIte, List.map_nil, List.count_nil, oc_answerAll]
      omega
    · simp only [↓reduceIte, oc_nil]
      have := zipIdx_map_snd_ids x.2.senders x.2.start 0
      rw [this]
      omega

theorem cons_drainWrites (s : St) (nc : Nat) : Cons s (drainWrites s nc).1 (drainWrites s nc).2 [] := by
  intro a
  unfold drainWrites
  simp only [pc_eq, List.map_append, List.count_append, List.count_nil]
  have h1 := count_flatMap_split s.pcw (fun e => decide (e.1 ≤ nc)) (·.2.senders) a
  have h2 := drainWrites_committed_count (s.pcw.filter fun e => decide (e.1 ≤ nc)) a
  omega

theorem sweep_out (c : Cfg) (s : St) : (sweep c s).2 =
      ((s.pcw.filter (fun e => s.now ≥ e.2.deadline)).flatMap fun e => answerAll e.2.senders .deadline) ++
      ((s.preads.filter (fun e => s.now ≥ e.2.1)).flatMap fun e => answerAll e.2.2 .deadline) ++
      answerAll ((s.pleases.filter (fun e => s.now ≥ e.2)).map (·.1)) .deadline ++
      ((s.pca.filter (fun e => s.now ≥ e.2.1)).filterMap (joinAnswer .deadline)) := by
  unfold sweep; rfl

theorem cons_sweep (c : Cfg) (s : St) : Cons s (sweep c s).1 (sweep c s).2 [] := by
  intro a
  rcases sweep_queue_fields c s with ⟨f1, f2, f3, f4, f5, f6, f7, f8, f9⟩
  rw [pc_eq, pc_eq, f1, f2, f3, f4, f5, f6, f7, f8, f9, sweep_out]
  simp only [oc_append, oc_flatMap_answerAll, oc_answerAll, oc_join_filterMap, List.count_nil]
  have h1 := count_flatMap_split s.pcw (fun e => decide (s.now ≥ e.2.deadline)) (·.2.senders) a
  have h2 := count_flatMap_split s.preads (fun e => decide (s.now ≥ e.2.1)) (·.2.2) a
  have h3 := count_map_split s.pleases (fun e => decide (s.now ≥ e.2)) (·.1) a
  have h4 := count_filterMap_split s.pca (fun e => decide (s.now ≥ e.2.1)) joinId a
  simp only [ge_iff_le] at h1 h2 h3 h4 ⊢
  omega

theorem cons_ackHigherTerm (s : St) (t : Nat) : Cons s (ackHigherTerm s t).1 (ackHigherTerm s t).2 [] := by
  intro a
  unfold ackHigherTerm
  split
  · simp [oc_nil]
  · simp only [drainWritesErr, pc_eq, oc_flatMap_answerAll, List.flatMap_nil, List.count_nil]
    omega

theorem cons_stepDown (s : St) : Cons s (stepDown s).1 (stepDown s).2 [] := by
  intro a
  unfold stepDown
  simp only [pc_eq, oc_append, oc_answerAll, oc_flatMap_answerAll, List.map_nil, List.flatMap_nil,
    List.filterMap_nil, List.count_nil]
  have := oc_join_filterMap s.pca .dropped a
  omega

theorem cons_fatalInbound (s : St) : Cons s (fatalInbound s).1 (fatalInbound s).2 [] := by
  intro a
  unfold fatalInbound
  simp only [pc_eq, oc_append, oc_answerAll, oc_flatMap_answerAll, List.map_nil, List.flatMap_nil, List.count_nil]
  omega

theorem preadsInsert_count (pr : List (Nat × Nat × List Nat)) (ri dl : Nat) (ids : List Nat) (a : Nat) :
    ((preadsInsert pr ri dl ids).flatMap (·.2.2)).count a = (pr.flatMap (·.2.2)).count a + ids.count a := by
  induction pr with
  | nil => simp [preadsInsert]
  | cons x rest ih =>
    unfold preadsInsert
    split
    · simp [List.flatMap_cons, List.count_append]; omega
    · split
      · simp [List.flatMap_cons, List.count_append]; omega
      · simp only [List.flatMap_cons, List.count_append, ih]; omega

def wmSenders : Option WMeta → List Nat
  | some m => m.senders
  | none => []

theorem execAppend_pcw_count (c : Cfg) (s : St) (ents wm) (a : Nat) :
    ((execAppend c s ents wm).pcw.flatMap (·.2.senders)).count a =
      (s.pcw.flatMap (·.2.senders)).count a + (wmSenders wm).count a := by
  rw [execAppend_pcw]
  cases wm with
  | none => simp [wmSenders]
  | some m =>
    simp only [wmSenders]
    split
    · rename_i h
      have : m.senders = [] := by simpa using h
      simp [this]
    · simp [List.flatMap_append, List.count_append]

/-- `execRpc`: the senders of the batch and the read batch enter; everything is conserved -/
theorem cons_execRpc (c : Cfg) (s : St) (ents wm reads) :
    Cons s (execRpc c s ents wm reads).1 (execRpc c s ents wm reads).2 (wmSenders wm ++ reads.getD []) := by
  intro a
  have hq := execRpc_queues c s ents wm reads
  simp only at hq
  rcases hq with ⟨q1, q2, q3, q4, q5, q6, q7, q8⟩
  have hpcw : (execRpc c s ents wm reads).1.pcw = (execAppend c s ents wm).pcw := by
    rcases execRpc_state c s ents wm reads with ⟨pr, rd, h⟩; rw [h]
  have hc := execAppend_pcw_count c s ents wm a
  have ha := execAppend_rest c s ents wm
  simp only at ha
  have hout : (execRpc c s ents wm reads).2 =
      (gateReads (execAppend c s ents wm) reads).2 ++
      (routeReads c (execAppend c s ents wm) (gateReads (execAppend c s ents wm) reads).1).2 := rfl
  rw [pc_eq, pc_eq, q1, q2, q3, q4, q5, q6, q7, q8, hpcw, hc, hout, oc_append, List.count_append]
  -- the read part
  have hreads : ((routeReads c (execAppend c s ents wm) (gateReads (execAppend c s ents wm) reads).1).1.preads.flatMap
        (·.2.2)).count a + oc (gateReads (execAppend c s ents wm) reads).2 a +
        oc (routeReads c (execAppend c s ents wm) (gateReads (execAppend c s ents wm) reads).1).2 a =
      (s.preads.flatMap (·.2.2)).count a + (reads.getD []).count a := by
    cases reads with
    | none =>
      have hg : gateReads (execAppend c s ents wm) none = (none, []) := by
        unfold gateReads; split <;> simp_all
      rw [hg]
      simp [routeReads, oc_nil, ha.2.2.2.2.2.2.2.2.2.1]
    | some rs =>
      cases hn : (execAppend c s ents wm).noopIdx with
      | none =>
        have hg : gateReads (execAppend c s ents wm) (some rs) = (none, answerAll rs .notReady) := by
          unfold gateReads; rw [hn]
        rw [hg]
        simp [routeReads, oc_nil, oc_answerAll, ha.2.2.2.2.2.2.2.2.2.1]
      | some n =>
        have hg : gateReads (execAppend c s ents wm) (some rs) = (some rs, []) := by
          unfold gateReads; rw [hn]
        rw [hg]
        unfold routeReads
        simp only
        split
        · simp [oc_nil, oc_answerAll, ha.2.2.2.2.2.2.2.2.2.1]
        · simp [oc_nil, preadsInsert_count, ha.2.2.2.2.2.2.2.2.2.1]
  omega

theorem Cons.trans_cast {s s1 s2 : St} {o1 o2 o : Out} {i1 i2 i : List Nat} (h1 : Cons s s1 o1 i1)
    (h2 : Cons s1 s2 o2 i2) (ho : ∀ a, oc o a = oc o1 a + oc o2 a) (hi : ∀ a, i.count a = i1.count a + i2.count a) :
    Cons s s2 o i := by
  intro a
  have a1 := h1 a
  have a2 := h2 a
  rw [ho, hi]; omega

theorem cons_processLeaseRead (c : Cfg) (s : St) (id : Nat) :
    Cons s (processLeaseRead c s id).1 (processLeaseRead c s id).2 [id] := by
  unfold processLeaseRead
  split
  · intro a; simp [oc]
  · split
    · intro a; simp [pc_eq, oc]
    · have h1 : Cons s ({ s with pleases := s.pleases ++ [(id, s.now + c.timeout)] } : St) [] [id] := by
        intro a; simp [pc_eq, oc_nil, List.count_append]; omega
      have h2 := cons_execRpc c ({ s with pleases := s.pleases ++ [(id, s.now + c.timeout)] } : St) [] none none
      exact h1.trans_cast h2 (by intro a; simp [oc_nil]) (by intro a; simp [wmSenders])

theorem cons_processLeaseReads (c : Cfg) (ids : List Nat) :
    ∀ s : St, Cons s (processLeaseReads c s ids).1 (processLeaseReads c s ids).2 ids := by
  induction ids with
  | nil => intro s a; simp [processLeaseReads, oc_nil]
  | cons id rest ih =>
    intro s
    unfold processLeaseReads
    simp only
    exact (cons_processLeaseRead c s id).trans_cast (ih _) (by intro a; simp [oc_append])
      (by intro a; simp [List.count_cons]; omega)

/-- flush the propose buffer, queue-preserving update (which may take the read batch `rs` out of `linBuf`), then
    `execRpc`: conserved. -/
theorem cons_flushThenExec (c : Cfg) (s : St) (upd : St → St) (reads : Option (List Nat))
    (hupd : ∀ x : St, x = (flushPropose s).1 →
      (upd x).propose = x.propose ∧ (upd x).pcw = x.pcw ∧ (upd x).pwa = x.pwa ∧
      (∀ a, (upd x).linBuf.count a + (reads.getD []).count a = x.linBuf.count a) ∧
      (upd x).leaseQ = x.leaseQ ∧ (upd x).evQ = x.evQ ∧
      (upd x).preads = x.preads ∧ (upd x).pleases = x.pleases ∧ (upd x).pca = x.pca) :
    Cons s
      (match (flushPropose s).2 with
        | some b => execRpc c (upd (flushPropose s).1) b.1 (some b.2) reads
        | none => execRpc c (upd (flushPropose s).1) [] none reads).1
      (match (flushPropose s).2 with
        | some b => execRpc c (upd (flushPropose s).1) b.1 (some b.2) reads
        | none => execRpc c (upd (flushPropose s).1) [] none reads).2 [] := by
  have u := hupd (flushPropose s).1 rfl
  have hfst := flushPropose_fst s
  have hq : ∀ {α} (f : St → List α), f (if s.propose.isEmpty then s else { s with propose := [] }) = f s →
      f (flushPropose s).1 = f s := by intro α f h; rw [hfst]; exact h
  have e_pcw : (flushPropose s).1.pcw = s.pcw := hq (·.pcw) (by split <;> rfl)
  have e_pwa : (flushPropose s).1.pwa = s.pwa := hq (·.pwa) (by split <;> rfl)
  have e_lin : (flushPropose s).1.linBuf = s.linBuf := hq (·.linBuf) (by split <;> rfl)
  have e_lq : (flushPropose s).1.leaseQ = s.leaseQ := hq (·.leaseQ) (by split <;> rfl)
  have e_ev : (flushPropose s).1.evQ = s.evQ := hq (·.evQ) (by split <;> rfl)
  have e_pr : (flushPropose s).1.preads = s.preads := hq (·.preads) (by split <;> rfl)
  have e_pl : (flushPropose s).1.pleases = s.pleases := hq (·.pleases) (by split <;> rfl)
  have e_pca : (flushPropose s).1.pca = s.pca := hq (·.pca) (by split <;> rfl)
  split
  · rename_i b hb
    rcases flushPropose_some (s := s) (s1 := (flushPropose s).1) (ents := b.1) (m := b.2) (by rw [← hb]) with ⟨h1, _, _, hm⟩
    have hp : (flushPropose s).1.propose = [] := by rw [h1]
    have hx := cons_execRpc c (upd (flushPropose s).1) b.1 (some b.2) reads
    intro a
    have := hx a
    have ul := u.2.2.2.1 a
    rw [pc_eq] at this ⊢
    rw [pc_eq (upd (flushPropose s).1), u.1, u.2.1, u.2.2.1, u.2.2.2.2.1, u.2.2.2.2.2.1, u.2.2.2.2.2.2.1,
      u.2.2.2.2.2.2.2.1, u.2.2.2.2.2.2.2.2, hp, e_pcw, e_pwa, e_lq, e_ev, e_pr, e_pl, e_pca] at this
    rw [pc_eq s]
    rw [e_lin] at ul
    simp only [wmSenders, hm, List.count_append, List.map_nil, List.count_nil] at this ⊢
    omega
  · rename_i hn
    have hf := flushPropose_none (s := s) (s1 := (flushPropose s).1) (by rw [← hn])
    rw [hf.1] at u ⊢
    have hx := cons_execRpc c (upd s) [] none reads
    intro a
    have := hx a
    have ul := u.2.2.2.1 a
    rw [pc_eq] at this ⊢
    rw [pc_eq (upd s), u.1, u.2.1, u.2.2.1, u.2.2.2.2.1, u.2.2.2.2.2.1, u.2.2.2.2.2.2.1,
      u.2.2.2.2.2.2.2.1, u.2.2.2.2.2.2.2.2] at this
    rw [pc_eq s]
    simp only [wmSenders, List.count_append, List.count_nil] at this ⊢
    omega

theorem cons_flushMain (c : Cfg) (s : St) : Cons s (flushMain c s).1 (flushMain c s).2 [] := by
  unfold flushMain
  simp only
  split
  · have := cons_flushThenExec c s (fun x => { x with replDl := x.now + c.hb }) none
      (by intro x _; exact ⟨rfl, rfl, rfl, fun a => by simp, rfl, rfl, rfl, rfl, rfl⟩)
    split at this
    · rename_i b hb; simp only [hb]; exact this
    · rename_i hn
      simp only [hn]
      have hf := flushPropose_none (s := s) (s1 := (flushPropose s).1) (by rw [← hn])
      rw [hf.1]
      exact Cons.of_queues_eq rfl rfl rfl rfl rfl rfl rfl rfl rfl
  · split
    · by_cases hl : (flushPropose s).1.linBuf.isEmpty = true
      · simp only [hl, ↓reduceIte]
        exact cons_flushThenExec c s (fun x => { x with linBuf := [] }) none
          (by
            intro x hx
            refine ⟨rfl, rfl, rfl, ?_, rfl, rfl, rfl, rfl, rfl⟩
            intro a
            have : (flushPropose s).1.linBuf = [] := by simpa using hl
            rw [hx, this]; simp)
      · have hl' : (flushPropose s).1.linBuf.isEmpty = false := by simpa using hl
        simp only [hl', Bool.false_eq_true, ↓reduceIte]
        exact cons_flushThenExec c s (fun x => { x with linBuf := [] }) (some (flushPropose s).1.linBuf)
          (by
            intro x hx
            refine ⟨rfl, rfl, rfl, ?_, rfl, rfl, rfl, rfl, rfl⟩
            intro a
            rw [hx]; simp)
    · exact Cons.refl s

theorem pc_clear_leaseQ (s : St) (a : Nat) :
    ({ s with leaseQ := [] } : St).pc a + s.leaseQ.count a = s.pc a := by
  simp [pc_eq]; omega

theorem pc_clear_evQ (s : St) (a : Nat) :
    ({ s with evQ := [] } : St).pc a + s.evQ.count a = s.pc a := by
  simp [pc_eq]; omega

theorem cons_flush (c : Cfg) (s : St) : Cons s (flush c s).1 (flush c s).2 [] := by
  unfold flush
  simp only
  intro a
  have key : ∀ (o1 o2 : Out) (p1 px p2 p3 q e : Nat) (ev : List Nat) (r : Resp),
      p1 + oc o1 a = s.pc a + ([] : List Nat).count a → px + q = p1 → p2 + oc o2 a = px + q → p3 + e = p2 →
      ev.count a = e → p3 + oc (o1 ++ o2 ++ answerAll ev r) a = s.pc a + ([] : List Nat).count a := by
    intro o1 o2 p1 px p2 p3 q e ev r h1 h2 h3 h4 h5
    simp only [oc_append, oc_answerAll, List.count_nil] at h1 ⊢
    omega
  exact key _ _ _ _ _ _ _ _ _ _ (cons_flushMain c s a) (pc_clear_leaseQ (flushMain c s).1 a)
    (cons_processLeaseReads c (flushMain c s).1.leaseQ ({ (flushMain c s).1 with leaseQ := [] } : St) a)
    (pc_clear_evQ (processLeaseReads c ({ (flushMain c s).1 with leaseQ := [] } : St) (flushMain c s).1.leaseQ).1 a)
    rfl

theorem cons_heartbeat (c : Cfg) (s : St) : Cons s (heartbeat c s).1 (heartbeat c s).2 [] := by
  unfold heartbeat
  split
  · simp only
    exact cons_flushThenExec c s (fun x => { x with replDl := x.now + c.hb }) none
      (by intro x _; exact ⟨rfl, rfl, rfl, fun a => by simp, rfl, rfl, rfl, rfl, rfl⟩)
  · exact Cons.refl s

theorem cons_tick (c : Cfg) (s : St) (ms : Nat) : Cons s (tick c s ms).1 (tick c s ms).2 [] := by
  unfold tick
  simp only
  intro a
  have h0 : ({ s with now := s.now + ms } : St).pc a = s.pc a := by simp [pc_eq]
  have h1 := cons_heartbeat c ({ s with now := s.now + ms } : St) a
  have h2 := cons_sweep c (heartbeat c ({ s with now := s.now + ms } : St)).1 a
  simp only [oc_append, List.count_nil] at h1 h2 ⊢
  omega

theorem cons_commitTo (s : St) (nc : Nat) : Cons s (commitTo s nc).1 (commitTo s nc).2 [] := by
  unfold commitTo
  simp only
  intro a
  have h0 : ({ s with commit := nc } : St).pc a = s.pc a := by simp [pc_eq]
  have h1 := cons_drainWrites ({ s with commit := nc } : St) nc a
  have h2 := cons_drainActions (drainWrites ({ s with commit := nc } : St) nc).1 nc a
  simp only [oc_append, List.count_nil] at h1 h2 ⊢
  omega

theorem cons_advanceCommit (s : St) (nc : Option Nat) : Cons s (advanceCommit s nc).1 (advanceCommit s nc).2 [] := by
  unfold advanceCommit
  split
  · exact cons_commitTo s _
  · exact Cons.refl s

theorem cons_onQuorum (c : Cfg) (s : St) : Cons s (onQuorum c s).1 (onQuorum c s).2 [] := by
  unfold onQuorum
  simp only
  intro a
  have key : ∀ X : St, X.pc a = s.pc a →
      (servePreads (drainPleases X).1 (drainPleases X).1.applied).1.pc a +
        oc ((drainPleases X).2 ++ (servePreads (drainPleases X).1 (drainPleases X).1.applied).2) a = s.pc a + 0 := by
    intro X hX
    have h1 := cons_drainPleases X a
    have h2 := cons_servePreads (drainPleases X).1 (drainPleases X).1.applied a
    simp only [oc_append, List.count_nil] at h1 h2 ⊢
    omega
  have := key _ (by simp [pc_eq] : ({ s with leaseDl := (if s.lastSendTs > 0 then s.lastSendTs else s.now) + c.lease, leaseTerm := s.term } : St).pc a = s.pc a)
  simpa using this

theorem cons_ackSuccess (c : Cfg) (s : St) (p m : Nat) : Cons s (ackSuccess c s p m).1 (ackSuccess c s p m).2 [] := by
  unfold ackSuccess
  split
  · exact Cons.refl s
  · simp only
    intro a
    have h0 : ({ s with matchIdx := setMatch s.matchIdx (p - 2) m } : St).pc a = s.pc a := by simp [pc_eq]
    have h1 := cons_advanceCommit ({ s with matchIdx := setMatch s.matchIdx (p - 2) m } : St)
      (newCommit ({ s with matchIdx := setMatch s.matchIdx (p - 2) m } : St)) a
    split
    · have h2 := cons_onQuorum c (advanceCommit ({ s with matchIdx := setMatch s.matchIdx (p - 2) m } : St)
        (newCommit ({ s with matchIdx := setMatch s.matchIdx (p - 2) m } : St))).1 a
      simp only [oc_append, List.count_nil] at h1 h2 ⊢
      omega
    · simp only [List.count_nil] at h1 ⊢
      omega

theorem cons_logFlushed (c : Cfg) (s : St) : Cons s (logFlushed c s).1 (logFlushed c s).2 [] := by
  unfold logFlushed
  simp only
  split
  · exact Cons.refl s
  · rename_i n _
    split
    · intro a
      have h1 := cons_commitTo s n a
      have key : ∀ X : St, X.pc a = (commitTo s n).1.pc a →
          (drainPleases X).1.pc a + oc ((commitTo s n).2 ++ (drainPleases X).2) a = s.pc a + 0 := by
        intro X hX
        have h2 := cons_drainPleases X a
        simp only [oc_append, List.count_nil] at h1 h2 ⊢
        omega
      have := key ({ (commitTo s n).1 with leaseDl := (commitTo s n).1.now + c.lease, leaseTerm := (commitTo s n).1.term } : St)
        (by simp [pc_eq])
      simpa using this
    · exact cons_commitTo s n

/-! ### the id counter -/
theorem nid_flushPropose (s : St) : (flushPropose s).1.nextId = s.nextId := by
  rw [flushPropose_fst]; split <;> rfl
theorem nid_execRpc (c : Cfg) (s : St) (e w r) : (execRpc c s e w r).1.nextId = s.nextId :=
  (execRpc_rest c s e w r).2.2.1
theorem nid_processLeaseRead (c : Cfg) (s : St) (id : Nat) : (processLeaseRead c s id).1.nextId = s.nextId := by
  unfold processLeaseRead; split
  · rfl
  · split
    · rfl
    · rw [nid_execRpc]
theorem nid_processLeaseReads (c : Cfg) (ids : List Nat) : ∀ s : St, (processLeaseReads c s ids).1.nextId = s.nextId := by
  induction ids with
  | nil => intro s; rfl
  | cons id rest ih => intro s; unfold processLeaseReads; simp only; rw [ih, nid_processLeaseRead]
theorem nid_flushMain (c : Cfg) (s : St) : (flushMain c s).1.nextId = s.nextId := by
  unfold flushMain; simp only
  split
  · split
    · rw [nid_execRpc]; exact nid_flushPropose s
    · exact nid_flushPropose s
  · split
    · split
      · rw [nid_execRpc]; exact nid_flushPropose s
      · rw [nid_execRpc]; exact nid_flushPropose s
    · rfl
theorem nid_flush (c : Cfg) (s : St) : (flush c s).1.nextId = s.nextId := by
  unfold flush; simp only
  rw [nid_processLeaseReads]; exact nid_flushMain c s
theorem nid_drainActions (s : St) (nc : Nat) : (drainActions s nc).1.nextId = s.nextId := by
  unfold drainActions; simp only; split <;> rfl
theorem nid_commitTo (s : St) (nc : Nat) : (commitTo s nc).1.nextId = s.nextId := by
  unfold commitTo; simp only; rw [nid_drainActions]; rfl
theorem nid_advanceCommit (s : St) (nc) : (advanceCommit s nc).1.nextId = s.nextId := by
  unfold advanceCommit; split
  · exact nid_commitTo s _
  · rfl
theorem nid_onQuorum (c : Cfg) (s : St) : (onQuorum c s).1.nextId = s.nextId := rfl
theorem nid_ackSuccess (c : Cfg) (s : St) (p m : Nat) : (ackSuccess c s p m).1.nextId = s.nextId := by
  unfold ackSuccess; split
  · rfl
  · simp only; split
    · rw [nid_onQuorum, nid_advanceCommit]
    · rw [nid_advanceCommit]
theorem nid_ackHigherTerm (s : St) (t : Nat) : (ackHigherTerm s t).1.nextId = s.nextId := by
  unfold ackHigherTerm; split <;> rfl
theorem nid_logFlushed (c : Cfg) (s : St) : (logFlushed c s).1.nextId = s.nextId := by
  unfold logFlushed; simp only; split
  · rfl
  · split
    · show (drainPleases _).1.nextId = _
      simp only [drainPleases]; exact nid_commitTo s _
    · exact nid_commitTo s _
theorem nid_applyUpTo (s : St) (k : Nat) : (applyUpTo s k).1.nextId = s.nextId := by
  unfold applyUpTo; simp only; split <;> rfl
theorem nid_sweep (c : Cfg) (s : St) : (sweep c s).1.nextId = s.nextId := by
  unfold sweep; simp only; split <;> rfl
theorem nid_heartbeat (c : Cfg) (s : St) : (heartbeat c s).1.nextId = s.nextId := by
  unfold heartbeat; split
  · simp only; split
    · rw [nid_execRpc]; exact nid_flushPropose s
    · rw [nid_execRpc]; exact nid_flushPropose s
  · rfl
theorem nid_tick (c : Cfg) (s : St) (ms : Nat) : (tick c s ms).1.nextId = s.nextId := by
  unfold tick; simp only; rw [nid_sweep, nid_heartbeat]
theorem nid_initNoop (c : Cfg) (s : St) : (initNoop c s).1.nextId = s.nextId := by
  unfold initNoop; simp only; rw [nid_execRpc]

/-- ids that enter with an event (the fresh request id, if the event issues one) -/
def freshOf (c : Cfg) (s : St) (e : Ev) : List Nat :=
  if s.phase != .running then []
  else match e with
    | .write _ | .read _ | .scan => [s.nextId]
    | .join _ => if c.leader then [s.nextId] else []
    | _ => []

theorem nid_step (c : Cfg) (s : St) (e : Ev) : (step c s e).1.nextId = s.nextId + (freshOf c s e).length := by
  unfold step freshOf
  split
  · rfl
  · split
    · rename_i hl
      have hl' : c.leader = false := by simpa using hl
      cases e
      case write op => unfold pushWrite; simp only; repeat' split
                       all_goals rfl
      case read p => unfold pushRead; simp only; repeat' split
                     all_goals rfl
      case scan => rfl
      all_goals simp [hl']
    · rename_i hl
      have hl' : c.leader = true := by simpa using hl
      cases e
      case write op => unfold pushWrite; simp only; repeat' split
                       all_goals rfl
      case read p => unfold pushRead; simp only; repeat' split
                     all_goals rfl
      case scan => rfl
      case join n =>
        simp only [hl', ↓reduceIte, List.length_cons, List.length_nil]
        unfold join; simp only; split
        · rfl
        · show (execRpc _ _ _ _ _).1.nextId = _
          rw [nid_execRpc]
      case flush => exact nid_flush c s
      case tick ms => exact nid_tick c s _
      case ack p m r => exact nid_ackSuccess c s _ _
      case ackConflict p => rfl
      case ackHigher t =>
        simp only [List.length_nil, Nat.add_zero]
        split
        · exact nid_ackHigherTerm s _
        · split
          · exact nid_ackSuccess c s _ _
          · rfl
      case ackStale => rfl
      case logFlushed => exact nid_logFlushed c s
      case apply k => exact nid_applyUpTo s _
      case stepDown => rfl
      case fatalInbound => rfl
      case fatalInternal => rfl
      case noop => exact nid_initNoop c s

/-- result indexes of `applyRange log kv a n` are `a+1, …, a+n`, each once -/
theorem applyRange_idx' (log : List LogEnt) : ∀ (n a kv : Nat), ∀ r ∈ (applyRange log kv a n).2, a < r.1 ∧ r.1 ≤ a + n := by
  intro n
  induction n with
  | zero => intro a kv r hr; simp [applyRange] at hr
  | succ n ih =>
    intro a kv r hr
    unfold applyRange at hr
    simp only at hr
    rcases List.mem_cons.mp hr with h | h
    · subst h; simp
    · have := ih (a + 1) _ r h
      omega

theorem applyRange_idx_nodup (log : List LogEnt) : ∀ (n a kv : Nat), ((applyRange log kv a n).2.map (·.1)).Nodup := by
  intro n
  induction n with
  | zero => intro a kv; simp [applyRange]
  | succ n ih =>
    intro a kv
    unfold applyRange
    simp only [List.map_cons, List.nodup_cons]
    refine ⟨?_, ih _ _⟩
    intro hin
    rcases List.mem_map.mp hin with ⟨r, hr, hk⟩
    have := (applyRange_idx' log n (a + 1) _ r hr).1
    omega

def respOf (r : Nat × Bool) : Resp := if r.2 then .ok else .casFail

theorem applyResponses_cons (e : Nat × Nat) (es : List (Nat × Nat)) (res : List (Nat × Bool)) :
    applyResponses (e :: es) res = res.filterMap fun r =>
      if e.1 == r.1 then some (e.2, if r.2 then Resp.ok else Resp.casFail)
      else match es.find? (·.1 == r.1) with
        | some x => some (x.2, if r.2 then Resp.ok else Resp.casFail)
        | none => none := by
  unfold applyResponses
  congr 1
  funext r
  simp only [List.find?_cons]
  cases hk : (e.1 == r.1)
  · simp only [Bool.false_eq_true, ↓reduceIte]
    generalize List.find? (fun x => x.1 == r.1) es = o
    cases o <;> rfl
  · simp

/-- with distinct indexes on both sides, the answers of an apply event are exactly the removed waiters -/
theorem applyResponses_count (pwa : List (Nat × Nat)) (res : List (Nat × Bool))
    (hp : (pwa.map (·.1)).Nodup) (hr : (res.map (·.1)).Nodup) (a : Nat) :
    oc (applyResponses pwa res) a = ((pwa.filter fun e => res.any (·.1 == e.1)).map (·.2)).count a := by
  induction pwa with
  | nil =>
    have : res.filterMap (fun _ => (none : Option (Nat × Resp))) = [] := by
      induction res with
      | nil => rfl
      | cons x xs ihx => simpa using ihx
    simp [applyResponses, oc, this]
  | cons e es ih =>
    have hes : (es.map (·.1)).Nodup := (List.nodup_cons.mp hp).2
    have hne : e.1 ∉ es.map (·.1) := (List.nodup_cons.mp hp).1
    rw [applyResponses_cons]
    -- inner induction over the results
    have inner : ∀ (rs : List (Nat × Bool)), (rs.map (·.1)).Nodup →
        oc (rs.filterMap fun r =>
          if e.1 == r.1 then some (e.2, if r.2 then Resp.ok else Resp.casFail)
          else match es.find? (·.1 == r.1) with
            | some x => some (x.2, if r.2 then Resp.ok else Resp.casFail)
            | none => none) a =
        (if rs.any (·.1 == e.1) then [e.2].count a else 0) + oc (applyResponses es rs) a := by
      intro rs
      induction rs with
      | nil => intro _; simp [applyResponses, oc]
      | cons r rs ihr =>
        intro hnd
        have hrs := (List.nodup_cons.mp hnd).2
        have hrn := (List.nodup_cons.mp hnd).1
        have ih2 := ihr hrs
        by_cases hk : e.1 = r.1
        · -- r hits e; no entry of es has this index, no later result has it
          have hfind : es.find? (·.1 == r.1) = none := by
            apply List.find?_eq_none.mpr
            intro x hx
            simp only [beq_iff_eq]
            intro hxe
            exact hne (List.mem_map.mpr ⟨x, hx, by rw [hxe, hk]⟩)
          have hany : rs.any (·.1 == e.1) = false := by
            rw [Bool.eq_false_iff]
            intro h
            rcases List.any_eq_true.mp h with ⟨x, hx, hxe⟩
            simp only [beq_iff_eq] at hxe
            exact hrn (List.mem_map.mpr ⟨x, hx, by rw [hxe, hk]⟩)
          rw [hany] at ih2
          simp only [Bool.false_eq_true, ↓reduceIte, Nat.zero_add] at ih2
          simp only [List.filterMap_cons, hk, beq_self_eq_true, ↓reduceIte, List.any_cons, Bool.true_or]
          have hz : oc (applyResponses es (r :: rs)) a = oc (applyResponses es rs) a := by
            unfold applyResponses
            simp only [List.filterMap_cons, hfind]
          rw [hz, ← ih2]
          simp only [hk] at *
          simp only [oc, List.map_cons, List.count_cons, List.count_nil]
          omega
        · have hk' : (e.1 == r.1) = false := by simpa using hk
          have hk'' : (r.1 == e.1) = false := by simpa using (fun h => hk h.symm)
          simp only [List.filterMap_cons, hk', Bool.false_eq_true, ↓reduceIte, List.any_cons, hk'', Bool.false_or]
          unfold applyResponses at ih2 ⊢
          simp only [List.filterMap_cons]
          cases hf : es.find? (·.1 == r.1) with
          | none => simp only [hf]; exact ih2
          | some x =>
            simp only [hf]
            simp only [oc, List.map_cons, List.count_cons] at ih2 ⊢
            omega
    rw [inner res hr, ih hes]
    simp only [List.filter_cons]
    cases hany : res.any (·.1 == e.1)
    · simp
    · simp [List.count_cons]; omega

theorem pwa_ids_sublist (s : St) : (s.pwa.map (·.2)).Sublist s.pending := by
  unfold St.pending St.pendW
  exact ((List.sublist_append_right _ _).trans (List.sublist_append_left _ _)).trans (List.sublist_append_left _ _)

theorem pwa_idx_nodup {R : List Nat} {s : St} (h : Inv R s) (hn : s.pending.Nodup) : (s.pwa.map (·.1)).Nodup := by
  have h2 : (s.pwa.map (·.2)).Nodup := hn.sublist (pwa_ids_sublist s)
  unfold List.Nodup at h2 ⊢
  rw [List.pairwise_map] at h2 ⊢
  refine h2.imp_of_mem ?_
  intro x y hx hy hne heq
  apply hne
  rcases h.pwa x hx with ⟨_, _, le, hle, op, hop⟩
  rcases h.pwa y hy with ⟨_, _, le', hle', op', hop'⟩
  rw [heq, hle'] at hle
  injection hle with hle
  subst hle
  rw [hop'] at hop
  injection hop with h1 _
  exact h1.symm

theorem cons_applyUpTo {R : List Nat} {s : St} (h : Inv R s) (hn : s.pending.Nodup) (k : Nat) :
    Cons s (applyUpTo s k).1 (applyUpTo s k).2 [] := by
  by_cases hk : applyTarget s k ≤ s.applied
  · rw [applyUpTo_noop hk]; exact Cons.refl s
  · have hout := (applyUpTo_fields hk).2.2.2
    have hst : (applyUpTo s k).1 = (servePreads (applyMid s k) (applyTarget s k)).1 := by
      unfold applyUpTo applyMid applyTarget at *
      simp only
      rw [if_neg hk]
    rw [hst, hout]
    intro a
    have h1 : (applyMid s k).pc a +
        oc (applyResponses s.pwa (applyRange s.log s.kv s.applied (applyTarget s k - s.applied)).2) a = s.pc a := by
      have hc := applyResponses_count s.pwa (applyRange s.log s.kv s.applied (applyTarget s k - s.applied)).2
        (pwa_idx_nodup h hn) (applyRange_idx_nodup _ _ _ _) a
      have hs := count_map_split s.pwa
        (fun e => (applyRange s.log s.kv s.applied (applyTarget s k - s.applied)).2.any (·.1 == e.1)) (·.2) a
      rw [hc]
      unfold applyMid
      simp only [pc_eq]
      omega
    have h2 := cons_servePreads (applyMid s k) (applyTarget s k) a
    simp only [oc_append, List.count_nil] at h2 ⊢
    omega

@[simp] theorem joinId_noop (k d : Nat) : joinId (k, d, CAct.noop) = none := rfl
@[simp] theorem joinId_join (k d id : Nat) : joinId (k, d, CAct.join id) = some id := rfl

theorem cons_initNoop (c : Cfg) (s : St) : Cons s (initNoop c s).1 (initNoop c s).2 [] := by
  unfold initNoop
  simp only
  intro a
  have key : ∀ (X : St) (ents : List EntKind) (st : Nat), X.pc a = s.pc a →
      (execRpc c X ents (some { start := st, senders := [], wait := false, deadline := 0 }) none).1.pc a +
        oc (execRpc c X ents (some { start := st, senders := [], wait := false, deadline := 0 }) none).2 a =
      s.pc a + ([] : List Nat).count a := by
    intro X ents st hX
    have h1 := cons_execRpc c X ents (some { start := st, senders := [], wait := false, deadline := 0 }) none a
    simp only [wmSenders, List.append_nil, Option.getD_none, List.count_nil] at h1 ⊢
    omega
  exact key _ _ _ (by simp [pc_eq, List.filterMap_append, List.filterMap_cons])

theorem cons_join (c : Cfg) (s : St) (n : Nat) : Cons s (join c s n).1 (join c s n).2 [s.nextId] := by
  unfold join
  simp only
  split
  · intro a; simp [pc_eq, oc]
  · intro a
    have key : ∀ (X : St) (ents : List EntKind) (st id dl : Nat), X.pc a = s.pc a →
        ({ (execRpc c X ents (some { start := st, senders := [], wait := false, deadline := 0 }) none).1 with
            pca := (execRpc c X ents (some { start := st, senders := [], wait := false, deadline := 0 }) none).1.pca ++
              [((execRpc c X ents (some { start := st, senders := [], wait := false, deadline := 0 }) none).1.lastEntry,
                dl, CAct.join id)] } : St).pc a +
          oc (execRpc c X ents (some { start := st, senders := [], wait := false, deadline := 0 }) none).2 a =
          s.pc a + [id].count a := by
      intro X ents st id dl hX
      have h1 := cons_execRpc c X ents (some { start := st, senders := [], wait := false, deadline := 0 }) none a
      simp only [wmSenders, List.append_nil, Option.getD_none, List.count_nil] at h1
      rw [pc_eq] at h1 ⊢
      simp only [List.filterMap_append, List.count_append, List.filterMap_cons, joinId_join, List.filterMap_nil]
      omega
    exact key _ _ _ _ _ (by simp [pc_eq])

/-- **Conservation, one step** (in a state satisfying the invariant whose pending ids are pairwise distinct). -/
theorem cons_step {R : List Nat} (c : Cfg) {s : St} (h : Inv R s) (hn : s.pending.Nodup) (e : Ev) :
    Cons s (step c s e).1 (step c s e).2 (freshOf c s e) := by
  unfold step freshOf
  split
  · exact Cons.refl s
  · split
    · rename_i hl
      have hl' : c.leader = false := by simpa using hl
      cases e
      case write op => exact cons_pushWrite c s op
      case read p => exact cons_pushRead c s p
      case scan => exact cons_pushScan c s
      all_goals simp only [hl', Bool.false_eq_true, ↓reduceIte]; exact Cons.refl s
    · rename_i hl
      have hl' : c.leader = true := by simpa using hl
      cases e
      case write op => exact cons_pushWrite c s op
      case read p => exact cons_pushRead c s p
      case scan => exact cons_pushScan c s
      case join n => simp only [hl', ↓reduceIte]; exact cons_join c s n
      case flush => exact cons_flush c s
      case tick ms => exact cons_tick c s ms
      case ack p m r => exact cons_ackSuccess c s p m
      case ackConflict p => exact Cons.refl s
      case ackHigher t =>
        simp only
        split
        · exact cons_ackHigherTerm s t
        · split
          · exact cons_ackSuccess c s 2 0
          · exact Cons.refl s
      case ackStale => exact Cons.refl s
      case logFlushed => exact cons_logFlushed c s
      case apply k => exact cons_applyUpTo h hn k
      case stepDown => exact cons_stepDown s
      case fatalInbound => exact cons_fatalInbound s
      case fatalInternal => exact Cons.of_queues_eq rfl rfl rfl rfl rfl rfl rfl rfl rfl
      case noop => exact cons_initNoop c s

theorem freshOf_cases (c : Cfg) (s : St) (e : Ev) : freshOf c s e = [] ∨ freshOf c s e = [s.nextId] := by
  unfold freshOf
  split
  · exact Or.inl rfl
  · cases e <;> simp

/-- **Accounting**: every issued request id is in exactly one place — one queue position, or answered once. -/
def Acc (s : St) (A : List Nat) : Prop := ∀ a, s.pc a + A.count a = if a < s.nextId then 1 else 0

theorem Acc.nodup {s : St} {A : List Nat} (h : Acc s A) : s.pending.Nodup := by
  rw [List.nodup_iff_count]
  intro a
  have := h a
  unfold St.pc at this
  split at this <;> omega

theorem acc_init (c : Cfg) (pre : Nat) : Acc (init c pre) [] := by
  intro a
  simp [init, St.pc, St.pending, St.pendW, St.pendR, St.pendJ]

theorem Acc.step {R : List Nat} (c : Cfg) {s : St} {A : List Nat} (hi : Inv R s) (h : Acc s A) (e : Ev) :
    Acc (step c s e).1 (A ++ (step c s e).2.map (·.1)) := by
  intro a
  have hc := cons_step c hi h.nodup e a
  have hn := nid_step c s e
  have ha := h a
  rw [hn, List.count_append]
  unfold oc at hc
  rcases freshOf_cases c s e with hf | hf
  · rw [hf] at hc ⊢
    simp only [List.count_nil, List.length_nil, Nat.add_zero] at hc ⊢
    omega
  · rw [hf] at hc ⊢
    simp only [List.length_cons, List.length_nil, List.count_cons, List.count_nil, beq_iff_eq] at hc ⊢
    by_cases hx : a = s.nextId
    · subst hx
      simp at ha hc ⊢
      omega
    · have hx' : ¬ s.nextId = a := fun h => hx h.symm
      simp only [hx', ↓reduceIte] at hc
      split at ha <;> split <;> omega

/-- all ids answered in a list of per-event outputs, in order -/
def answeredIds (outs : List Out) : List Nat := outs.flatMap fun o => o.map (·.1)

theorem Acc.run (c : Cfg) (evs : List Ev) : ∀ {R : List Nat} {s : St} {A : List Nat}, Inv R s → Acc s A →
    Acc (DEngine.ClientQ.run c s evs).1 (A ++ answeredIds (DEngine.ClientQ.run c s evs).2) := by
  induction evs with
  | nil => intro R s A _ h; simpa [DEngine.ClientQ.run, answeredIds] using h
  | cons e es ih =>
    intro R s A hi h
    unfold DEngine.ClientQ.run
    simp only [answeredIds, List.flatMap_cons]
    have := ih (hi.step c e) (h.step c hi e)
    simpa [answeredIds, List.append_assoc] using this

end DEngine.ClientQ
