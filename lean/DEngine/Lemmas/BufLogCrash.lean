import DEngine.Model.BufLogMon
import DEngine.Lemmas.BufLogStore
/-!
  Crash property (C18), positive part: the invariant `StoreOk` between operations for the reference store, what
  `new` reloads from either copy of the store, and the effect of persist + fsync.
-/
namespace DEngine.BufLog

/-- highest index the log has ever covered: its last entry or the purge boundary -/
def Buf.top (b : Buf) : Nat := max (lastIdx b.mem) b.purgedI

/-- memory vs. the volatile copy of the store; holds inside an operation as well -/
structure VolOk (b : Buf) (v : List Entry) : Prop where
  sorted : Sorted v
  sub : ∀ e ∈ v, e ∈ b.mem
  dur : ∀ e ∈ b.mem, e.index ≤ b.durable → e ∈ v

/-- index of the purge boundary an image carries -/
def Img.bndI (g : Img) : Nat := match g.boundary with | some p => p.1 | none => 0

/-- a store image `new` can start from: a gap-free run right above its own purge boundary, terms ≥ 1 -/
structure ImgOk (g : Img) : Prop where
  contig : contigFrom (firstIdx g.ents) g.ents = true
  anchor : g.ents ≠ [] → firstIdx g.ents = g.bndI + 1
  pos : ∀ e ∈ g.ents, 0 < e.term

/-- the store's purge boundary is the log's -/
def BndOk (b : Buf) (g : Img) : Prop :=
  match g.boundary with
  | some p => p.1 = b.purgedI ∧ p.2 = b.purgedT
  | none => b.purgedI = 0 ∧ b.purgedT = 0

theorem BndOk.bndI {b : Buf} {g : Img} (h : BndOk b g) : g.bndI = b.purgedI := by
  unfold BndOk at h; unfold Img.bndI
  cases hb : g.boundary with
  | none => rw [hb] at h; simp [h.1]
  | some p => rw [hb] at h; simp [h.1]

theorem BndOk.of_eq {b b' : Buf} {g g' : Img} (h : BndOk b g) (hb : b'.purgedI = b.purgedI ∧ b'.purgedT = b.purgedT)
    (hg : g'.boundary = g.boundary) : BndOk b' g' := by
  unfold BndOk at h ⊢
  rw [hg, hb.1, hb.2]; exact h

/-- the whole log with the log's boundary is a good image -/
theorem imgOk_of_inv {b : Buf} (h : b.Inv) {g : Img} (hb : BndOk b g) (he : g.ents = b.mem) : ImgOk g :=
  { contig := by rw [he]; exact h.contig,
    anchor := by rw [he, hb.bndI]; exact h.anchor,
    pos := by rw [he]; exact h.pos }

/-- what holds between operations (no command queued) over the reference store; `hist` = logs seen so far -/
structure StoreOk (s : Sys) (hist : List (List Entry)) : Prop where
  file : s.file = none
  kb : s.keepBoundary = true
  queue : s.queue = []
  alive : s.alive = true
  inv : s.buf.Inv
  bnd : BndOk s.buf s.store.v
  dImg : ImgOk s.store.d
  vol : VolOk s.buf s.store.v.ents
  /-- nothing waits for the notify arm ⇒ everything in memory has been written -/
  full : s.notify = false → ∀ e ∈ s.buf.mem, e ∈ s.store.v.ents
  /-- what has been written is a prefix of the log -/
  closed : ∀ e ∈ s.buf.mem, ∀ x ∈ s.store.v.ents, e.index ≤ x.index → e ∈ s.store.v.ents
  dTop : s.buf.durable ≤ s.buf.top
  pTop : s.pendingMax ≤ s.buf.top
  dHist : s.store.d.ents ∈ hist
  dDur : ∀ e ∈ s.buf.mem, e.index ≤ s.buf.durable → e ∈ s.store.d.ents
  memHist : s.buf.mem ∈ hist
  histOk : ∀ h ∈ hist, ∃ k, contigFrom (k + 1) h = true

/-! ### what `new` loads -/

theorem lastIdx_max_of_sorted {l : List Entry} (hs : Sorted l) {x : Entry} (hx : x ∈ l) : x.index ≤ lastIdx l := by
  induction l generalizing x with
  | nil => cases hx
  | cons y ys ih =>
    have hy := (List.pairwise_cons.mp hs).1
    cases ys with
    | nil => simp at hx; subst hx; simp [lastIdx]
    | cons z zs =>
      have hl : lastIdx (y :: z :: zs) = lastIdx (z :: zs) := by simp [lastIdx, List.getLast?_cons_cons]
      rw [hl]
      rcases List.mem_cons.mp hx with hx1 | hx1
      · have h1 := hy z (by simp)
        have h2 := ih (List.pairwise_cons.mp hs).2 (x := z) (by simp)
        rw [hx1]; omega
      · exact ih (List.pairwise_cons.mp hs).2 hx1

/-- `BufferedRaftLog::new` loads exactly the entries of the image (sorted, indexes ≥ 1) -/
theorem load_mem {g : Img} (hs : Sorted g.ents) (hpos : ∀ e ∈ g.ents, 0 < e.index) : (Buf.load g).mem = g.ents := by
  simp only [Buf.load, Img.lastIndex]
  by_cases hne : g.ents = []
  · simp [hne, insertAll]
  · have hlast : 0 < lastIdx g.ents := by
      cases hg : g.ents with
      | nil => exact absurd hg hne
      | cons x xs =>
        have := lastIdx_max_of_sorted hs (x := x) (by rw [hg]; simp)
        have := hpos x (by rw [hg]; simp)
        rw [← hg]; omega
    simp only [hlast, if_true]
    have hr : rangeE g.ents 1 (lastIdx g.ents) = g.ents := by
      unfold rangeE
      apply List.filter_eq_self.mpr
      intro x hx
      have h1 := hpos x hx
      have h2 := lastIdx_max_of_sorted hs hx
      simp [inRange]; omega
    rw [hr]
    apply sorted_ext (sorted_insertAll Sorted.nil) hs
    intro x
    rw [mem_insertAll Sorted.nil hs]
    simp

/-! ### the clauses of the crash property -/

theorem gapFree_of_contig {k : Nat} {l : List Entry} (h : contigFrom k l = true) : gapFree l = true := by
  cases l with
  | nil => rfl
  | cons x xs =>
    simp only [contigFrom_cons, Bool.and_eq_true, beq_iff_eq] at h
    simp only [gapFree]
    rw [h.1]; exact h.2

theorem isSegmentOf_take (m : List Entry) (n : Nat) : isSegmentOf (m.take n) m = true := by
  cases hm : m.take n with
  | nil => rfl
  | cons e rest =>
    cases m with
    | nil => simp at hm
    | cons y ys =>
      cases n with
      | zero => simp at hm
      | succ n =>
        simp only [List.take_succ_cons, List.cons.injEq] at hm
        obtain ⟨rfl, hrest⟩ := hm
        simp only [isSegmentOf]
        have : List.dropWhile (fun x => x != y) (y :: ys) = y :: ys := by simp [List.dropWhile]
        rw [this]
        simp only [List.length_cons, List.take_succ_cons, beq_iff_eq, List.cons.injEq, true_and]
        rw [← hrest, List.length_take]
        simp [List.take_take]

theorem isSegmentOf_self (m : List Entry) : isSegmentOf m m = true := by
  have := isSegmentOf_take m m.length
  simpa using this

theorem durableKept_of {live rec : List Entry} {d : Nat} (h : ∀ e ∈ live, e.index ≤ d → e ∈ rec) :
    durableKept live d rec = true := by
  simp only [durableKept, List.all_eq_true, Bool.or_eq_true, decide_eq_true_eq, List.contains_iff_mem]
  intro e he
  by_cases hd : d < e.index
  · exact Or.inl hd
  · exact Or.inr (h e he (by omega))

/-- the written part of the log is a prefix of it -/
theorem vol_prefix {s : Sys} {hist : List (List Entry)} (h : StoreOk s hist) :
    ∃ n, s.store.v.ents = s.buf.mem.take n := by
  by_cases hne : s.store.v.ents = []
  · exact ⟨0, by simp [hne]⟩
  · have hfil : s.store.v.ents = s.buf.mem.filter (fun e => decide (e.index < lastIdx s.store.v.ents + 1)) := by
      apply sorted_ext h.vol.sorted ((sorted_of_contig h.inv.contig).filter _)
      intro x
      simp only [List.mem_filter, decide_eq_true_eq]
      constructor
      · intro hx
        exact ⟨h.vol.sub x hx, by have := lastIdx_max_of_sorted h.vol.sorted hx; omega⟩
      · rintro ⟨hx, hlt⟩
        obtain ⟨l, hl⟩ : ∃ l, s.store.v.ents.getLast? = some l := by
          cases hg : s.store.v.ents.getLast? with
          | none => exact absurd (List.getLast?_eq_none_iff.mp hg) hne
          | some l => exact ⟨l, rfl⟩
        have hlm := List.mem_of_getLast? hl
        have : lastIdx s.store.v.ents = l.index := by simp [lastIdx, hl]
        exact h.closed x hx l hlm (by omega)
    rw [filter_lt_contig h.inv.contig] at hfil
    exact ⟨_, hfil⟩

/-- **Crash at a point where `StoreOk` holds**: the reloaded log passes the three clauses, for both crash semantics. -/
theorem recovered_ok {s : Sys} {hist : List (List Entry)} (h : StoreOk s hist) (power : Bool) :
    recoveredOk hist s.buf.mem s.buf.durable (s.reopen power).buf.mem s.store.v.ents (some s.store.d.ents) = none := by
  have hposm : ∀ e ∈ s.buf.mem, 0 < e.index := by
    intro e he
    have hne : s.buf.mem ≠ [] := List.ne_nil_of_mem he
    have := contigFrom_mem h.inv.contig he
    have := h.inv.anchor hne
    omega
  obtain ⟨n, hn⟩ := vol_prefix h
  have hrec : (s.reopen power).buf.mem = if power then s.store.d.ents else s.store.v.ents := by
    simp only [Sys.reopen, h.file]
    cases power with
    | false =>
      simp only [Bool.false_eq_true, if_false]
      exact load_mem h.vol.sorted (fun e he => hposm e (h.vol.sub e he))
    | true =>
      simp only [if_true]
      obtain ⟨k, hk⟩ := h.histOk _ h.dHist
      exact load_mem (sorted_of_contig hk) (fun e he => by have := contigFrom_mem hk he; omega)
  rw [hrec]
  cases power with
  | false =>
    simp only [Bool.false_eq_true, if_false]
    have hg : gapFree s.store.v.ents = true := by
      rw [hn]; exact gapFree_of_contig (contigFrom_take h.inv.contig n)
    have hd := durableKept_of (live := s.buf.mem) (rec := s.store.v.ents) (d := s.buf.durable) h.vol.dur
    have hr : noResurrection hist s.store.v.ents = true := by
      simp only [noResurrection, List.any_eq_true]
      exact ⟨s.buf.mem, h.memHist, by rw [hn]; exact isSegmentOf_take _ _⟩
    simp [recoveredOk, hg, hd, hr]
  | true =>
    simp only [if_true]
    obtain ⟨k, hk⟩ := h.histOk _ h.dHist
    have hg : gapFree s.store.d.ents = true := gapFree_of_contig hk
    have hd := durableKept_of (live := s.buf.mem) (rec := s.store.d.ents) (d := s.buf.durable) h.dDur
    have hr : noResurrection hist s.store.d.ents = true := by
      simp only [noResurrection, List.any_eq_true]
      exact ⟨s.store.d.ents, h.dHist, isSegmentOf_self _⟩
    simp [recoveredOk, hg, hd, hr]

end DEngine.BufLog

namespace DEngine.BufLog

/-! ### the part of the invariant that also holds inside an operation -/

structure Core (s : Sys) (hist : List (List Entry)) : Prop where
  file : s.file = none
  kb : s.keepBoundary = true
  alive : s.alive = true
  inv : s.buf.Inv
  bnd : BndOk s.buf s.store.v
  dImg : ImgOk s.store.d
  vol : VolOk s.buf s.store.v.ents
  dTop : s.buf.durable ≤ s.buf.top
  pTop : s.pendingMax ≤ s.buf.top
  dHist : s.store.d.ents ∈ hist
  dDur : ∀ e ∈ s.buf.mem, e.index ≤ s.buf.durable → e ∈ s.store.d.ents
  memHist : s.buf.mem ∈ hist
  histOk : ∀ h ∈ hist, ∃ k, contigFrom (k + 1) h = true

theorem StoreOk.core {s : Sys} {hist : List (List Entry)} (h : StoreOk s hist) : Core s hist :=
  { file := h.file, kb := h.kb, alive := h.alive, inv := h.inv, bnd := h.bnd, dImg := h.dImg, vol := h.vol, dTop := h.dTop, pTop := h.pTop, dHist := h.dHist,
    dDur := h.dDur, memHist := h.memHist, histOk := h.histOk }

theorem contig_hist_of_inv {b : Buf} (h : b.Inv) : ∃ k, contigFrom (k + 1) b.mem = true := by
  by_cases hne : b.mem = []
  · exact ⟨0, by simp [hne]⟩
  · exact ⟨b.purgedI, by rw [← h.anchor hne]; exact h.contig⟩

theorem top_ge_of_mem {b : Buf} (h : b.Inv) {e : Entry} (he : e ∈ b.mem) : e.index ≤ b.top := by
  have := (h.mem_range he).2
  rw [h.maxOk] at this
  unfold Buf.top; omega

/-- persist `(durable, max]`, then fsync -/
def Sys.pf (s : Sys) : Sys := s.persistPending.fsyncAdvance

/-- **persist + fsync**: afterwards everything in memory is in both copies that matter, `durable_index ≤ top`,
    nothing is pending -/
theorem Core.pf {s : Sys} {hist : List (List Entry)} (h : Core s hist) :
    Core s.pf hist ∧ (∀ e ∈ s.pf.buf.mem, e ∈ s.pf.store.v.ents) ∧ s.pf.pendingMax = 0 ∧
    SameBuf s.buf s.pf.buf ∧ s.pf.buf.mem = s.buf.mem ∧ s.pf.queue = s.queue ∧ s.pf.notify = s.notify ∧
    s.pf.timerDue = s.timerDue := by
  have hmax : s.buf.maxIdx = lastIdx s.buf.mem := h.inv.maxOk
  -- the state after persistPending
  have hp : ∃ v' P', s.persistPending = { s with store := { s.store with v := { s.store.v with ents := v' } }, pendingMax := P' } ∧
      VolOk s.buf v' ∧ P' ≤ s.buf.top ∧ s.pendingMax ≤ P' ∧
      (s.buf.durable < lastIdx s.buf.mem → (∀ e ∈ s.buf.mem, e ∈ v') ∧ P' = max s.pendingMax (lastIdx s.buf.mem)) ∧
      (¬ s.buf.durable < lastIdx s.buf.mem → v' = s.store.v.ents ∧ P' = s.pendingMax) := by
    simp only [Sys.persistPending, hmax]
    by_cases hlt : s.buf.durable + 1 ≤ lastIdx s.buf.mem
    · simp only [hlt, if_true]
      have hne : s.buf.mem ≠ [] := by intro he; rw [he] at hlt; simp at hlt
      obtain ⟨l, hl⟩ : ∃ l, s.buf.mem.getLast? = some l := by
        cases hg : s.buf.mem.getLast? with
        | none => exact absurd (List.getLast?_eq_none_iff.mp hg) hne
        | some l => exact ⟨l, rfl⟩
      have hlm := List.mem_of_getLast? hl
      have hli : lastIdx s.buf.mem = l.index := by simp [lastIdx, hl]
      have hes : (s.buf.getRange (s.buf.durable + 1) (lastIdx s.buf.mem)).isEmpty = false := by
        have : l ∈ s.buf.getRange (s.buf.durable + 1) (lastIdx s.buf.mem) := by
          simp only [Buf.getRange, rangeE, List.mem_filter, inRange, Bool.and_eq_true, decide_eq_true_eq]
          exact ⟨hlm, by omega, by omega⟩
        cases hr : s.buf.getRange (s.buf.durable + 1) (lastIdx s.buf.mem) with
        | nil => rw [hr] at this; cases this
        | cons a as => rfl
      simp only [hes, Bool.false_eq_true, if_false]
      have hsr : Sorted (s.buf.getRange (s.buf.durable + 1) (lastIdx s.buf.mem)) :=
        (sorted_of_contig h.inv.contig).filter _
      refine ⟨insertAll s.store.v.ents (s.buf.getRange (s.buf.durable + 1) (lastIdx s.buf.mem)),
        max s.pendingMax (lastIdx s.buf.mem), ?_, ?_, ?_, by omega, ?_, ?_⟩
      · simp [Sys.stPersist, Img.persist, h.file]
      · refine ⟨sorted_insertAll h.vol.sorted, ?_, ?_⟩
        · intro e he
          rcases (mem_insertAll h.vol.sorted hsr).mp he with he | ⟨he, _⟩
          · exact (List.mem_filter.mp he).1
          · exact h.vol.sub e he
        · intro e he hd
          refine (mem_insertAll h.vol.sorted hsr).mpr (Or.inr ⟨h.vol.dur e he hd, ?_⟩)
          intro x hx
          have := (List.mem_filter.mp hx).2
          simp only [inRange, Bool.and_eq_true, decide_eq_true_eq] at this
          omega
      · have := h.pTop
        have : lastIdx s.buf.mem ≤ s.buf.top := by unfold Buf.top; omega
        omega
      · intro _
        refine ⟨?_, rfl⟩
        intro e he
        by_cases hd : e.index ≤ s.buf.durable
        · refine (mem_insertAll h.vol.sorted hsr).mpr (Or.inr ⟨h.vol.dur e he hd, ?_⟩)
          intro x hx
          have := (List.mem_filter.mp hx).2
          simp only [inRange, Bool.and_eq_true, decide_eq_true_eq] at this
          omega
        · refine (mem_insertAll h.vol.sorted hsr).mpr (Or.inl ?_)
          simp only [Buf.getRange, rangeE, List.mem_filter, inRange, Bool.and_eq_true, decide_eq_true_eq]
          have := (h.inv.mem_range he).2
          rw [hmax] at this
          exact ⟨he, by omega, this⟩
      · intro hn; omega
    · simp only [hlt, if_false]
      refine ⟨s.store.v.ents, s.pendingMax, rfl, h.vol, h.pTop, Nat.le_refl _, ?_, fun _ => ⟨rfl, rfl⟩⟩
      intro hn; omega
  obtain ⟨v', P', hpe, hvol', hP', hPP, hcase1, hcase2⟩ := hp
  -- everything in memory is written after the persist
  have hfull : ∀ e ∈ s.buf.mem, e ∈ v' := by
    by_cases hlt : s.buf.durable < lastIdx s.buf.mem
    · exact (hcase1 hlt).1
    · intro e he
      rw [(hcase2 hlt).1]
      have := (h.inv.mem_range he).2
      rw [hmax] at this
      exact h.vol.dur e he (by omega)
  have hveq : v' = s.buf.mem := sorted_ext hvol'.sorted (sorted_of_contig h.inv.contig)
    (fun x => ⟨hvol'.sub x, hfull x⟩)
  unfold Sys.pf
  rw [hpe]
  simp only [Sys.fsyncAdvance]
  by_cases hP0 : 0 < P'
  · rw [if_pos hP0]
    refine ⟨?_, hfull, rfl, ⟨_, s.buf.nextId, rfl⟩, rfl, rfl, rfl, rfl⟩
    refine { file := h.file, kb := h.kb, bnd := h.bnd.of_eq ⟨rfl, rfl⟩ rfl,
             dImg := imgOk_of_inv (b := s.buf) h.inv (g := { s.store.v with ents := v' }) (h.bnd.of_eq ⟨rfl, rfl⟩ rfl) hveq,
             alive := h.alive, inv := (SameBuf.inv ⟨_, s.buf.nextId, rfl⟩ h.inv), vol := ?_, dTop := ?_,
             pTop := Nat.zero_le _, dHist := ?_, dDur := ?_, memHist := h.memHist, histOk := h.histOk }
    · exact ⟨hvol'.sorted, hvol'.sub, fun e he _ => hfull e he⟩
    · have := h.dTop
      show max s.buf.durable P' ≤ s.buf.top
      exact Nat.max_le.mpr ⟨this, hP'⟩
    · show v' ∈ hist
      rw [hveq]; exact h.memHist
    · intro e he _
      exact hfull e he
  · rw [if_neg hP0]
    have hP0' : P' = 0 := by omega
    refine ⟨?_, hfull, hP0', SameBuf.refl _, rfl, rfl, rfl, rfl⟩
    exact { file := h.file, kb := h.kb, bnd := h.bnd, dImg := h.dImg, alive := h.alive, inv := h.inv, vol := hvol', dTop := h.dTop, pTop := by rw [hP0']; exact Nat.zero_le _,
            dHist := h.dHist, dDur := h.dDur, memHist := h.memHist, histOk := h.histOk }

end DEngine.BufLog

namespace DEngine.BufLog

def defaultPrio : List Arm := [.cmd, .notify, .timer]

/-! ### arms of the IO loop when no command is queued -/

theorem Sys.queue_eta (s : Sys) (h : s.queue = []) : { s with queue := [] } = s := by
  cases s; simp at h; simp [h]

theorem ioArm_notify_nil (s : Sys) (hq : s.queue = []) : s.ioArm .notify = ({ s with notify := false }).pf := by
  have h1 := Sys.persistPending_frame { s with notify := false }
  have hq1 : ({ s with notify := false }).persistPending.queue = [] := by rw [h1.2.1]; exact hq
  simp only [Sys.ioArm, hq1, Sys.drain, Sys.shutdownTail, Bool.false_eq_true, if_false, Sys.pf]
  rw [Sys.queue_eta _ hq1]

theorem ioArm_timer (s : Sys) : s.ioArm .timer = ({ s with timerDue := false }).pf := rfl

theorem ioArm_cmd_flush (s : Sys) (hq : s.queue = [.flush]) : s.ioArm .cmd = ({ s with queue := [] }).pf := by
  have h1 := Sys.persistPending_frame { s with queue := [] }
  have hq1 : ({ s with queue := [] }).persistPending.queue = [] := by rw [h1.2.1]
  simp only [Sys.ioArm, hq, hq1, Sys.drain, Sys.shutdownTail, Bool.false_eq_true, if_false, Sys.pf]
  rw [Sys.queue_eta _ hq1]

/-- every arm occurs in the priority list (the case language only produces permutations) -/
def Sched.valid (sch : Sched) : Bool :=
  sch.prio.contains .cmd && sch.prio.contains .notify && sch.prio.contains .timer

theorem pickArm_some_enabled {s : Sys} : ∀ {prio : List Arm} {a : Arm}, s.pickArm prio = some a → s.armEnabled a = true := by
  intro prio
  induction prio with
  | nil => intro a h; simp [Sys.pickArm] at h
  | cons x xs ih =>
    intro a h
    simp only [Sys.pickArm] at h
    by_cases hx : s.armEnabled x = true
    · simp only [hx, if_true, Option.some.injEq] at h; rw [← h]; exact hx
    · simp only [hx, Bool.false_eq_true, if_false] at h; exact ih h

theorem pickArm_none_disabled {s : Sys} : ∀ {prio : List Arm}, s.pickArm prio = none → ∀ a ∈ prio, s.armEnabled a = false := by
  intro prio
  induction prio with
  | nil => intro _ a ha; cases ha
  | cons x xs ih =>
    intro h a ha
    simp only [Sys.pickArm] at h
    by_cases hx : s.armEnabled x = true
    · simp [hx] at h
    · have hx' : s.armEnabled x = false := by simpa using hx
      simp only [hx', Bool.false_eq_true, if_false] at h
      rcases List.mem_cons.mp ha with rfl | ha
      · exact hx'
      · exact ih h a ha

/-- the rest of an IO run once the queue is empty: notify and timer arms in whatever order, each a persist + fsync;
    the result satisfies the invariant between operations -/
theorem finish_ok {hist : List (List Entry)} {prio : List Arm}
    (hv : prio.contains .notify = true ∧ prio.contains .timer = true) :
    ∀ (n : Nat) (s : Sys), Core s hist → s.queue = [] →
      (if s.notify then 1 else 0) + (if s.timerDue then 1 else 0) ≤ n →
      (s.notify = false → s.timerDue = false → ∀ e ∈ s.buf.mem, e ∈ s.store.v.ents) →
      StoreOk (Sys.ioRunN n s prio) hist ∧ SameBuf s.buf (Sys.ioRunN n s prio).buf := by
  have done : ∀ (t : Sys), Core t hist → t.queue = [] → (∀ e ∈ t.buf.mem, e ∈ t.store.v.ents) → StoreOk t hist := by
    intro t hct hqt hft
    exact { file := hct.file, kb := hct.kb, bnd := hct.bnd, dImg := hct.dImg, queue := hqt, alive := hct.alive, inv := hct.inv, vol := hct.vol,
            full := fun _ => hft, closed := fun e he _ _ _ => hft e he, dTop := hct.dTop, pTop := hct.pTop,
            dHist := hct.dHist, dDur := hct.dDur, memHist := hct.memHist, histOk := hct.histOk }
  intro n
  induction n with
  | zero =>
    intro s hc hq hcnt hfull
    have hn : s.notify = false := by cases h : s.notify <;> simp [h] at hcnt ⊢
    have ht : s.timerDue = false := by cases h : s.timerDue <;> simp [h, hn] at hcnt ⊢
    exact ⟨done s hc hq (hfull hn ht), SameBuf.refl _⟩
  | succ n ih =>
    intro s hc hq hcnt hfull
    simp only [Sys.ioRunN]
    cases hp : s.pickArm prio with
    | none =>
      have hd := pickArm_none_disabled hp
      have hn : s.notify = false := by
        have := hd .notify (by simpa using hv.1)
        simpa [Sys.armEnabled, hc.alive] using this
      have ht : s.timerDue = false := by
        have := hd .timer (by simpa using hv.2)
        simpa [Sys.armEnabled, hc.alive] using this
      exact ⟨done s hc hq (hfull hn ht), SameBuf.refl _⟩
    | some a =>
      have hen := pickArm_some_enabled hp
      have hqf : ¬ (a ≠ .cmd ∧ s.queue ≠ []) := by intro h; exact h.2 hq
      simp only [hqf, if_false]
      cases a with
      | cmd => simp [Sys.armEnabled, hq] at hen
      | notify =>
        have hnt : s.notify = true := by simpa [Sys.armEnabled, hc.alive] using hen
        rw [ioArm_notify_nil s hq]
        have hc1 : Core { s with notify := false } hist :=
          { file := hc.file, kb := hc.kb, bnd := hc.bnd, dImg := hc.dImg, alive := hc.alive, inv := hc.inv, vol := hc.vol, dTop := hc.dTop, pTop := hc.pTop,
            dHist := hc.dHist, dDur := hc.dDur, memHist := hc.memHist, histOk := hc.histOk }
        obtain ⟨hc2, hf2, _, hsb2, _, hq2, hn2, ht2⟩ := hc1.pf
        have := ih ({ s with notify := false }).pf hc2 (by rw [hq2]; exact hq)
          (by rw [hn2, ht2]; simp only [hnt] at hcnt; simp; cases h : s.timerDue <;> simp [h] at hcnt ⊢ <;> omega)
          (fun _ _ => hf2)
        exact ⟨this.1, hsb2.trans this.2⟩
      | timer =>
        have htt : s.timerDue = true := by simpa [Sys.armEnabled, hc.alive] using hen
        rw [ioArm_timer]
        have hc1 : Core { s with timerDue := false } hist :=
          { file := hc.file, kb := hc.kb, bnd := hc.bnd, dImg := hc.dImg, alive := hc.alive, inv := hc.inv, vol := hc.vol, dTop := hc.dTop, pTop := hc.pTop,
            dHist := hc.dHist, dDur := hc.dDur, memHist := hc.memHist, histOk := hc.histOk }
        obtain ⟨hc2, hf2, _, hsb2, _, hq2, hn2, ht2⟩ := hc1.pf
        have := ih ({ s with timerDue := false }).pf hc2 (by rw [hq2]; exact hq)
          (by rw [hn2, ht2]; simp only [htt] at hcnt; simp; cases h : s.notify <;> simp [h] at hcnt ⊢ <;> omega)
          (fun _ _ => hf2)
        exact ⟨this.1, hsb2.trans this.2⟩

end DEngine.BufLog

namespace DEngine.BufLog

/-! ### operations that do not wait for the IO loop -/

theorem Core.mono {s : Sys} {hist : List (List Entry)} (h : Core s hist) (m : List Entry)
    (hm : ∃ k, contigFrom (k + 1) m = true) (hmem : s.buf.mem = m ∨ s.buf.mem ∈ hist) : Core s (m :: hist) :=
  { file := h.file, kb := h.kb, bnd := h.bnd, dImg := h.dImg, alive := h.alive, inv := h.inv, vol := h.vol, dTop := h.dTop, pTop := h.pTop,
    dHist := List.mem_cons_of_mem _ h.dHist, dDur := h.dDur,
    memHist := by rcases hmem with hm' | hm'
                  · rw [hm']; simp
                  · exact List.mem_cons_of_mem _ hm',
    histOk := by intro x hx
                 rcases List.mem_cons.mp hx with rfl | hx
                 · exact hm
                 · exact h.histOk x hx }

theorem StoreOk.mono {s : Sys} {hist : List (List Entry)} (h : StoreOk s hist) (m : List Entry)
    (hm : ∃ k, contigFrom (k + 1) m = true) : StoreOk s (m :: hist) :=
  { file := h.file, kb := h.kb, bnd := h.bnd, dImg := h.dImg, queue := h.queue, alive := h.alive, inv := h.inv, vol := h.vol, full := h.full,
    closed := h.closed, dTop := h.dTop, pTop := h.pTop, dHist := List.mem_cons_of_mem _ h.dHist, dDur := h.dDur,
    memHist := List.mem_cons_of_mem _ h.memHist,
    histOk := by intro x hx
                 rcases List.mem_cons.mp hx with rfl | hx
                 · exact hm
                 · exact h.histOk x hx }

/-- changing only `next_id` (id allocation) changes nothing that matters here -/
theorem StoreOk.withNextId {s : Sys} {hist : List (List Entry)} (h : StoreOk s hist) (n : Nat) :
    StoreOk { s with buf := { s.buf with nextId := n } } hist :=
  { file := h.file, kb := h.kb, bnd := h.bnd, dImg := h.dImg, queue := h.queue, alive := h.alive,
    inv := SameBuf.inv ⟨s.buf.durable, n, rfl⟩ h.inv,
    vol := ⟨h.vol.sorted, h.vol.sub, h.vol.dur⟩, full := h.full, closed := h.closed, dTop := h.dTop, pTop := h.pTop,
    dHist := h.dHist, dDur := h.dDur, memHist := h.memHist, histOk := h.histOk }

/-- `append_entries(tail)` for a tail that starts right above the end of the log -/
theorem StoreOk.appendTail {s : Sys} {hist : List (List Entry)} (h : StoreOk s hist) {tail : List Entry}
    (hne : tail ≠ []) (hpos : termsPos tail = true)
    (hk : ∃ k, contigFrom k tail = true ∧ (∀ x ∈ s.buf.mem, x.index < k) ∧ (s.buf.mem ≠ [] → k = lastIdx s.buf.mem + 1) ∧
      (s.buf.mem = [] → k = s.buf.purgedI + 1)) :
    StoreOk (s.append tail) ((s.append tail).buf.mem :: hist) := by
  obtain ⟨k, hc, h1, h2, h3⟩ := hk
  have hins := h.inv.insertToMemory hc hpos h1 h2 h3
  have hne' : tail.isEmpty = false := by simpa using hne
  have hmem' : (s.buf.insertToMemory tail).mem = s.buf.mem ++ tail := by
    have := congrArg Plain.ents hins.2.1
    simpa [Buf.abs, Plain.append] using this
  have hpi' : (s.buf.insertToMemory tail).purgedI = s.buf.purgedI := by
    have := congrArg Plain.anchorI hins.2.1
    simpa [Buf.abs, Plain.append] using this
  have hd' : (s.buf.insertToMemory tail).durable = s.buf.durable := hins.2.2
  -- every new entry lies above `top`, hence above `durable_index`
  have hktop : s.buf.top < k := by
    unfold Buf.top
    by_cases hm : s.buf.mem = []
    · rw [hm]; have := h3 hm; simp [lastIdx]; omega
    · have := h2 hm
      have ha := h.inv.anchor hm
      have hf := firstIdx_le_lastIdx h.inv.contig hm
      omega
  have hnew : ∀ e ∈ tail, s.buf.durable < e.index := by
    intro e he
    have := (contigFrom_mem hc he).1
    have := h.dTop
    omega
  have hlast : lastIdx s.buf.mem ≤ lastIdx (s.buf.mem ++ tail) := by
    rw [lastIdx_append hne]
    obtain ⟨l, hl⟩ : ∃ l, tail.getLast? = some l := by
      cases hg : tail.getLast? with
      | none => exact absurd (List.getLast?_eq_none_iff.mp hg) hne
      | some l => exact ⟨l, rfl⟩
    have := (contigFrom_mem hc (List.mem_of_getLast? hl)).1
    have : lastIdx tail = l.index := by simp [lastIdx, hl]
    unfold Buf.top at hktop
    omega
  have htop : s.buf.top ≤ (s.buf.insertToMemory tail).top := by
    unfold Buf.top; rw [hmem', hpi']; omega
  simp only [Sys.append, hne', Bool.false_eq_true, if_false]
  refine { file := h.file, kb := h.kb, bnd := h.bnd, dImg := h.dImg, queue := h.queue, alive := h.alive, inv := hins.1, vol := ?_, full := ?_,
           closed := ?_, dTop := ?_, pTop := ?_, dHist := List.mem_cons_of_mem _ h.dHist, dDur := ?_, memHist := by simp,
           histOk := ?_ }
  · refine ⟨h.vol.sorted, ?_, ?_⟩
    · intro e he; show e ∈ (s.buf.insertToMemory tail).mem; rw [hmem']; exact List.mem_append_left _ (h.vol.sub e he)
    · intro e he hd
      have he' : e ∈ s.buf.mem ++ tail := by rw [← hmem']; exact he
      have hd' : e.index ≤ s.buf.durable := by rw [← hd']; exact hd
      rcases List.mem_append.mp he' with he' | he'
      · exact h.vol.dur e he' hd'
      · have := hnew e he'; omega
  · intro hn; simp at hn
  · intro e he x hx hle
    have he' : e ∈ s.buf.mem ++ tail := by rw [← hmem']; exact he
    rcases List.mem_append.mp he' with he' | he'
    · exact h.closed e he' x hx hle
    · have hx' := h1 x (h.vol.sub x hx)
      have := (contigFrom_mem hc he').1
      omega
  · show (s.buf.insertToMemory tail).durable ≤ _
    rw [hd']; exact Nat.le_trans h.dTop htop
  · exact Nat.le_trans h.pTop htop
  · intro e he hd
    have he' : e ∈ s.buf.mem ++ tail := by rw [← hmem']; exact he
    have hd'' : e.index ≤ s.buf.durable := by rw [← hd']; exact hd
    rcases List.mem_append.mp he' with he' | he'
    · exact h.dDur e he' hd''
    · have := hnew e he'; omega
  · intro x hx
    rcases List.mem_cons.mp hx with rfl | hx
    · exact contig_hist_of_inv hins.1
    · exact h.histOk x hx

end DEngine.BufLog

namespace DEngine.BufLog

/-! ### memory part + command arm of the operations that wait for the IO loop -/

theorem replaceMem_durable (b : Buf) (d : Nat) (tail : List Entry) :
    (b.replaceMem d tail).durable = min b.durable (d - 1) := by
  simp [Buf.replaceMem, Buf.insertToMemory, Buf.removeFrom, Buf.removeBy]

theorem lastIdx_mem_of_ne {l : List Entry} (h : l ≠ []) : ∃ x ∈ l, x.index = lastIdx l := by
  cases hg : l.getLast? with
  | none => exact absurd (List.getLast?_eq_none_iff.mp hg) h
  | some x => exact ⟨x, List.mem_of_getLast? hg, by simp [lastIdx, hg]⟩

theorem handleCmd_replace (s : Sys) (d : Nat) (es : List Entry) (hpos : 0 < lastIdx es) :
    s.handleCmd (.replace d es) =
      { ({ s with pendingMax := min s.pendingMax (d - 1), buf := { s.buf with durable := min s.buf.durable (d - 1) } } : Sys).stReplace d es
          with pendingMax := max (min s.pendingMax (d - 1)) (lastIdx es) } := by
  unfold lastIdx at hpos
  simp only [Sys.handleCmd, lastIdx]
  cases hg : es.getLast? with
  | none => simp [hg] at hpos
  | some x => simp only [hg] at hpos ⊢; simp [hpos]

theorem core_after_replace {s : Sys} {hist : List (List Entry)} (h : StoreOk s hist) {d : Nat} {tail : List Entry}
    (htne : tail ≠ []) (hd1 : s.buf.minIdx ≤ d) (hd2 : d ≤ s.buf.maxIdx) (hne : s.buf.mem ≠ [])
    (hc : contigFrom d tail = true) (hpos : termsPos tail = true) :
    let s2 := ({ s with buf := s.buf.replaceMem d tail, queue := [] } : Sys).handleCmd (.replace d tail)
    Core s2 (s2.buf.mem :: hist) ∧ s2.queue = [] ∧ s2.notify = s.notify ∧
    (s.notify = false → ∀ e ∈ s2.buf.mem, e ∈ s2.store.v.ents) ∧ s2.buf = s.buf.replaceMem d tail := by
  have hrep := h.inv.replaceMem hd1 hd2 hne hc hpos
  have hmem' : (s.buf.replaceMem d tail).mem = s.buf.mem.filter (fun e => decide (e.index < d)) ++ tail := by
    have := congrArg Plain.ents hrep.2; simpa [Buf.abs] using this
  have hpi' : (s.buf.replaceMem d tail).purgedI = s.buf.purgedI := by
    have := congrArg Plain.anchorI hrep.2; simpa [Buf.abs] using this
  have hdur' := replaceMem_durable s.buf d tail
  obtain ⟨l, hl, hli⟩ := lastIdx_mem_of_ne htne
  have hld : d ≤ lastIdx tail := by have := (contigFrom_mem hc hl).1; omega
  have hdpos : 0 < d := by
    have := h.inv.anchor hne
    rw [h.inv.minOk] at hd1; omega
  have hlast' : lastIdx (s.buf.replaceMem d tail).mem = lastIdx tail := by rw [hmem', lastIdx_append htne]
  have hsorted_tail : Sorted tail := sorted_of_contig hc
  have hvf : Sorted (s.store.v.ents.filter (fun e => decide (e.index < d))) := h.vol.sorted.filter _
  have hpos' : 0 < lastIdx tail := by omega
  rw [handleCmd_replace _ _ _ hpos']
  -- the IO task's own lowering of durable_index repeats what the caller already did
  have hbeq : ({ s.buf.replaceMem d tail with durable := min (s.buf.replaceMem d tail).durable (d - 1) } : Buf) =
      s.buf.replaceMem d tail := by
    have : min (s.buf.replaceMem d tail).durable (d - 1) = (s.buf.replaceMem d tail).durable := by
      rw [hdur']; omega
    rw [this]
  simp only [Sys.stReplace, Img.replaceRange, h.file, Option.map_none, hbeq]
  refine ⟨?_, by simp, by simp, ?_, by simp⟩
  have hpt' : (s.buf.replaceMem d tail).purgedT = s.buf.purgedT := by
    have := congrArg Plain.anchorT hrep.2; simpa [Buf.abs] using this
  · refine { file := by simp, kb := h.kb, bnd := h.bnd.of_eq ⟨hpi', hpt'⟩ rfl, dImg := h.dImg, alive := h.alive, inv := hrep.1, vol := ?_, dTop := ?_, pTop := ?_,
             dHist := List.mem_cons_of_mem _ h.dHist, dDur := ?_, memHist := by simp, histOk := ?_ }
    · refine ⟨sorted_insertAll hvf, ?_, ?_⟩
      · intro e he
        show e ∈ (s.buf.replaceMem d tail).mem
        rw [hmem']
        rcases (mem_insertAll hvf hsorted_tail).mp he with he | ⟨he, _⟩
        · exact List.mem_append_right _ he
        · have := List.mem_filter.mp he
          exact List.mem_append_left _ (List.mem_filter.mpr ⟨h.vol.sub e this.1, this.2⟩)
      · intro e he hd
        have he' : e ∈ s.buf.mem.filter (fun e => decide (e.index < d)) ++ tail := by rw [← hmem']; exact he
        have hd' : e.index ≤ min s.buf.durable (d - 1) := by rw [← hdur']; exact hd
        rcases List.mem_append.mp he' with he' | he'
        · have hm := List.mem_filter.mp he'
          refine (mem_insertAll hvf hsorted_tail).mpr (Or.inr ⟨List.mem_filter.mpr ⟨h.vol.dur e hm.1 (by omega), hm.2⟩, ?_⟩)
          intro x hx
          have := (contigFrom_mem hc hx).1
          have := hm.2
          simp only [decide_eq_true_eq] at this
          omega
        · have := (contigFrom_mem hc he').1; omega
    · show (s.buf.replaceMem d tail).durable ≤ (s.buf.replaceMem d tail).top
      unfold Buf.top; rw [hdur', hlast']; omega
    · show max (min s.pendingMax (d - 1)) (lastIdx tail) ≤ (s.buf.replaceMem d tail).top
      unfold Buf.top; rw [hlast']; omega
    · intro e he hd
      have he' : e ∈ s.buf.mem.filter (fun e => decide (e.index < d)) ++ tail := by rw [← hmem']; exact he
      have hd' : e.index ≤ min s.buf.durable (d - 1) := by rw [← hdur']; exact hd
      rcases List.mem_append.mp he' with he' | he'
      · exact h.dDur e (List.mem_filter.mp he').1 (by omega)
      · have := (contigFrom_mem hc he').1; omega
    · intro x hx
      rcases List.mem_cons.mp hx with rfl | hx
      · exact contig_hist_of_inv hrep.1
      · exact h.histOk x hx
  · intro hn e he
    have he' : e ∈ s.buf.mem.filter (fun e => decide (e.index < d)) ++ tail := by rw [← hmem']; exact he
    rcases List.mem_append.mp he' with he' | he'
    · have hm := List.mem_filter.mp he'
      refine (mem_insertAll hvf hsorted_tail).mpr (Or.inr ⟨List.mem_filter.mpr ⟨h.full hn e hm.1, hm.2⟩, ?_⟩)
      intro x hx
      have := (contigFrom_mem hc hx).1
      have := hm.2
      simp only [decide_eq_true_eq] at this
      omega
    · exact (mem_insertAll hvf hsorted_tail).mpr (Or.inl he')

end DEngine.BufLog

namespace DEngine.BufLog

theorem purgeMem_durable (b : Buf) (ci ct : Nat) :
    (b.purgeMem ci ct).durable = if b.durable ≤ ci then ci else b.durable := by
  simp only [Buf.purgeMem, Buf.removeRange, Buf.removeBy]
  by_cases h : b.durable ≤ ci
  · simp [h]
  · simp [h]

theorem core_after_purge {s : Sys} {hist : List (List Entry)} (h : StoreOk s hist) {ci : Nat} (ct : Nat)
    (hci : s.buf.purgedI ≤ ci) :
    let s2 := ({ s with buf := s.buf.purgeMem ci ct, queue := [] } : Sys).handleCmd (.purge ci ct)
    Core s2 (s2.buf.mem :: hist) ∧ s2.queue = [] ∧ s2.notify = s.notify ∧
    (s.notify = false → ∀ e ∈ s2.buf.mem, e ∈ s2.store.v.ents) ∧ s2.buf = s.buf.purgeMem ci ct := by
  have hp := h.inv.purgeMem ct hci
  have hmem' : (s.buf.purgeMem ci ct).mem = s.buf.mem.filter (fun e => decide (ci < e.index)) := by
    have := congrArg Plain.ents hp.2.1; simpa [Buf.abs, Plain.purge] using this
  have hpi' : (s.buf.purgeMem ci ct).purgedI = ci := by
    have := congrArg Plain.anchorI hp.2.1; simpa [Buf.abs, Plain.purge] using this
  have hdur' := purgeMem_durable s.buf ci ct
  have hsm' : Sorted (s.buf.purgeMem ci ct).mem := by
    rw [hmem']; exact (sorted_of_contig h.inv.contig).filter _
  -- the last entry survives the purge when it lies above the cutoff
  have hkeep : ci < lastIdx s.buf.mem → lastIdx s.buf.mem ≤ lastIdx (s.buf.purgeMem ci ct).mem := by
    intro hlt
    have hne : s.buf.mem ≠ [] := by intro he; rw [he] at hlt; simp at hlt
    obtain ⟨l, hl, hli⟩ := lastIdx_mem_of_ne hne
    have : l ∈ (s.buf.purgeMem ci ct).mem := by
      rw [hmem']; exact List.mem_filter.mpr ⟨hl, by simp; omega⟩
    have := lastIdx_max_of_sorted hsm' this
    omega
  simp only [Sys.handleCmd, Sys.stPurge, Img.purge, h.file, Option.map_none]
  refine ⟨?_, by simp, by simp, ?_, by simp⟩
  have hpt' : (s.buf.purgeMem ci ct).purgedT = ct := by
    have := congrArg Plain.anchorT hp.2.1; simpa [Buf.abs, Plain.purge] using this
  · refine { file := by simp, kb := h.kb, bnd := by simp [BndOk, h.kb, hpi', hpt'], dImg := h.dImg, alive := h.alive, inv := hp.1, vol := ?_, dTop := ?_, pTop := ?_,
             dHist := List.mem_cons_of_mem _ h.dHist, dDur := ?_, memHist := by simp, histOk := ?_ }
    · refine ⟨h.vol.sorted.filter _, ?_, ?_⟩
      · intro e he
        show e ∈ (s.buf.purgeMem ci ct).mem
        rw [hmem']
        have := List.mem_filter.mp he
        exact List.mem_filter.mpr ⟨h.vol.sub e this.1, this.2⟩
      · intro e he hd
        have he' : e ∈ s.buf.mem.filter (fun e => decide (ci < e.index)) := by rw [← hmem']; exact he
        have hm := List.mem_filter.mp he'
        have hgt : ci < e.index := by simpa using hm.2
        have hd' : e.index ≤ (if s.buf.durable ≤ ci then ci else s.buf.durable) := by rw [← hdur']; exact hd
        by_cases hle : s.buf.durable ≤ ci
        · rw [if_pos hle] at hd'; omega
        · rw [if_neg hle] at hd'
          exact List.mem_filter.mpr ⟨h.vol.dur e hm.1 hd', hm.2⟩
    · show (s.buf.purgeMem ci ct).durable ≤ (s.buf.purgeMem ci ct).top
      unfold Buf.top
      rw [hdur', hpi']
      by_cases hle : s.buf.durable ≤ ci
      · rw [if_pos hle]; omega
      · rw [if_neg hle]
        have := h.dTop
        unfold Buf.top at this
        have hlt : ci < lastIdx s.buf.mem := by omega
        have := hkeep hlt
        omega
    · show s.pendingMax ≤ (s.buf.purgeMem ci ct).top
      unfold Buf.top
      rw [hpi']
      have := h.pTop
      unfold Buf.top at this
      by_cases hlt : ci < lastIdx s.buf.mem
      · have := hkeep hlt; omega
      · omega
    · intro e he hd
      have he' : e ∈ s.buf.mem.filter (fun e => decide (ci < e.index)) := by rw [← hmem']; exact he
      have hm := List.mem_filter.mp he'
      have hgt : ci < e.index := by simpa using hm.2
      have hd' : e.index ≤ (if s.buf.durable ≤ ci then ci else s.buf.durable) := by rw [← hdur']; exact hd
      by_cases hle : s.buf.durable ≤ ci
      · rw [if_pos hle] at hd'; omega
      · rw [if_neg hle] at hd'
        exact h.dDur e hm.1 hd'
    · intro x hx
      rcases List.mem_cons.mp hx with rfl | hx
      · exact contig_hist_of_inv hp.1
      · exact h.histOk x hx
  · intro hn e he
    have he' : e ∈ s.buf.mem.filter (fun e => decide (ci < e.index)) := by rw [← hmem']; exact he
    have hm := List.mem_filter.mp he'
    exact List.mem_filter.mpr ⟨h.full hn e hm.1, hm.2⟩

theorem core_after_reset {s : Sys} {hist : List (List Entry)} (h : StoreOk s hist) :
    let s2 := ({ s with buf := s.buf.resetMem, queue := [] } : Sys).handleCmd .reset
    Core s2 (s2.buf.mem :: hist) ∧ s2.queue = [] ∧ s2.notify = s.notify ∧
    (∀ e ∈ s2.buf.mem, e ∈ s2.store.v.ents) ∧ s2.buf = s.buf.resetMem := by
  have hr := h.inv.resetMem
  simp only [Sys.handleCmd, Sys.stReset, Img.reset, h.file, Option.map_none]
  refine ⟨?_, by simp, by simp, by simp [Buf.resetMem], by simp⟩
  exact { file := by simp, kb := h.kb, bnd := h.bnd, dImg := h.dImg, alive := h.alive, inv := hr.1,
          vol := ⟨Sorted.nil, by simp, by simp [Buf.resetMem]⟩,
          dTop := by simp [Buf.resetMem], pTop := by simp,
          dHist := List.mem_cons_of_mem _ h.dHist, dDur := by simp [Buf.resetMem], memHist := by simp,
          histOk := by intro x hx
                       rcases List.mem_cons.mp hx with rfl | hx
                       · exact ⟨0, by simp [Buf.resetMem]⟩
                       · exact h.histOk x hx }

end DEngine.BufLog

namespace DEngine.BufLog

/-! ### one operation, any arm order -/

def Op.validSched : Op → Bool
  | .fca _ _ _ s => s.valid
  | .purge _ _ s => s.valid
  | .reset s => s.valid
  | .flush s => s.valid
  | .io s => s.valid
  | .close _ => false
  | .crash _ => false
  | _ => true

theorem valid_parts {sch : Sched} (h : sch.valid = true) :
    sch.prio.contains .cmd = true ∧ sch.prio.contains .notify = true ∧ sch.prio.contains .timer = true := by
  simp only [Sched.valid, Bool.and_eq_true] at h
  exact ⟨h.1.1, h.1.2, h.2⟩

theorem StoreOk.shrink {s : Sys} {hist : List (List Entry)} {x : List Entry} (hx : x ∈ hist)
    (h : StoreOk s (x :: hist)) : StoreOk s hist :=
  have sub : ∀ y, y ∈ x :: hist → y ∈ hist := fun y hy => by
    rcases List.mem_cons.mp hy with rfl | hy
    · exact hx
    · exact hy
  { file := h.file, kb := h.kb, bnd := h.bnd, dImg := h.dImg, queue := h.queue, alive := h.alive, inv := h.inv, vol := h.vol, full := h.full,
    closed := h.closed, dTop := h.dTop, pTop := h.pTop, dHist := sub _ h.dHist, dDur := h.dDur,
    memHist := sub _ h.memHist, histOk := fun y hy => h.histOk y (List.mem_cons_of_mem _ hy) }

theorem StoreOk.sameBuf_mem {s : Sys} {b : Buf} (h : SameBuf b s.buf) : s.buf.mem = b.mem ∧ s.buf.purgedI = b.purgedI ∧
    s.buf.segs = b.segs := by
  obtain ⟨d, n, hd⟩ := h
  rw [hd]; exact ⟨rfl, rfl, rfl⟩

/-- the timer flag is no part of the invariant -/
theorem StoreOk.withTimer {s : Sys} {hist : List (List Entry)} (h : StoreOk s hist) (x : Bool) :
    StoreOk { s with timerDue := x } hist :=
  { file := h.file, kb := h.kb, bnd := h.bnd, dImg := h.dImg, queue := h.queue, alive := h.alive, inv := h.inv, vol := h.vol, full := h.full,
    closed := h.closed, dTop := h.dTop, pTop := h.pTop, dHist := h.dHist, dDur := h.dDur, memHist := h.memHist,
    histOk := h.histOk }

theorem StoreOk.preClock {s : Sys} {hist : List (List Entry)} (h : StoreOk s hist) (sch : Sched) :
    StoreOk (preClock s sch) hist ∧ (preClock s sch).buf = s.buf := by
  unfold DEngine.BufLog.preClock
  split
  · exact ⟨h.withTimer true, rfl⟩
  · exact ⟨h, rfl⟩

theorem StoreOk.bounce {s : Sys} {hist : List (List Entry)} (h : StoreOk s hist) (a : Arm) :
    StoreOk (s.bounce a) hist ∧ (s.bounce a).buf = s.buf ∧ (s.bounce a).notify = s.notify := by
  cases a
  · exact ⟨h, rfl, rfl⟩
  · exact ⟨h, rfl, rfl⟩
  · exact ⟨h.withTimer false, rfl, rfl⟩

theorem flag_count_le (s : Sys) : (if s.notify then 1 else 0) + (if s.timerDue then 1 else 0) ≤ 7 := by
  cases s.notify <;> cases s.timerDue <;> simp

/-- polling the IO loop when no command is queued -/
theorem quiescent_run {s : Sys} {hist : List (List Entry)} (h : StoreOk s hist) {prio : List Arm}
    (hv : prio.contains .notify = true ∧ prio.contains .timer = true) :
    StoreOk (s.ioRun prio) hist ∧ SameBuf s.buf (s.ioRun prio).buf := by
  have := finish_ok hv 8 s h.core h.queue (Nat.le_trans (flag_count_le s) (by omega)) (fun hn _ => h.full hn)
  exact this

theorem StoreOk.postClock {s : Sys} {hist : List (List Entry)} (h : StoreOk s hist) {sch : Sched} (hv : sch.valid = true) :
    StoreOk (postClock s sch) hist ∧ SameBuf s.buf (postClock s sch).buf := by
  unfold DEngine.BufLog.postClock
  split
  · exact quiescent_run h (valid_parts hv).2
  · exact ⟨h, SameBuf.refl _⟩

/-- polling the IO loop while one command is queued: whatever arm `select!` picks, the command arm is the first to
    do anything; then the rest of the run -/
theorem blocking_run {s1 : Sys} {hist : List (List Entry)} {c : IOCmd} {prio : List Arm} (hq1 : s1.queue = [c])
    (ha : s1.alive = true)
    (hv : prio.contains .cmd = true ∧ prio.contains .notify = true ∧ prio.contains .timer = true)
    (hcore : ∀ a : Arm, Core ((s1.bounce a).ioArm .cmd) hist ∧ ((s1.bounce a).ioArm .cmd).queue = [] ∧
      (((s1.bounce a).ioArm .cmd).notify = false → ∀ e ∈ ((s1.bounce a).ioArm .cmd).buf.mem,
        e ∈ ((s1.bounce a).ioArm .cmd).store.v.ents)) :
    ∃ a : Arm, StoreOk (s1.ioRun prio) hist ∧ SameBuf ((s1.bounce a).ioArm .cmd).buf (s1.ioRun prio).buf := by
  have hcmd : s1.armEnabled .cmd = true := by simp [Sys.armEnabled, ha, hq1]
  cases hp : s1.pickArm prio with
  | none =>
    have := pickArm_none_disabled hp .cmd (by simpa using hv.1)
    rw [hcmd] at this; cases this
  | some a =>
    refine ⟨a, ?_⟩
    have hstep : s1.ioRun prio = Sys.ioRunN 7 ((s1.bounce a).ioArm .cmd) prio := by
      simp only [Sys.ioRun, Sys.ioRunN, hp]
      by_cases hac : a = .cmd
      · subst hac
        have hb : s1.bounce .cmd = s1 := rfl
        rw [hb]; simp
      · have : a ≠ .cmd ∧ s1.queue ≠ [] := ⟨hac, by rw [hq1]; simp⟩
        simp [this]
    rw [hstep]
    obtain ⟨hc2, hq2, hf2⟩ := hcore a
    exact finish_ok hv.2 7 _ hc2 hq2 (flag_count_le _) (fun hn _ => hf2 hn)

theorem bounce_with (s : Sys) (a : Arm) (b : Buf) (q : List IOCmd) :
    ({ s with buf := b, queue := q } : Sys).bounce a = { s.bounce a with buf := b, queue := q } := by
  cases a <;> rfl

theorem execOp_storeOk_fca {s : Sys} {hist : List (List Entry)} (h0 : StoreOk s hist) (hnil : [] ∈ hist)
    {prevI prevT : Nat} {es : List Entry} {sch : Sched}
    (hwf : wfOp s.buf.abs (.fca prevI prevT es sch) = true) (hvalid : sch.valid = true) :
    StoreOk (execOp s (.fca prevI prevT es sch)).1 ((execOp s (.fca prevI prevT es sch)).1.buf.mem :: hist) := by
  have hv := valid_parts hvalid
  simp only [execOp]
  obtain ⟨h, hb0⟩ := h0.preClock sch
  rw [← hb0] at hwf
  generalize DEngine.BufLog.preClock s sch = s at h hb0 hwf ⊢
  clear hb0
  by_cases hr : prevI = 0 ∧ prevT = 0
  · have hdec : fcaDecide s.buf prevI prevT es = (.reset, "fca-reset") := by simp [fcaDecide, hr]
    rw [hdec]
    simp only [wfOp, hr, and_self, if_true, Bool.and_eq_true] at hwf
    have henq : s.resetMain = some { s with buf := s.buf.resetMem, queue := [.reset] } := by
      simp [Sys.resetMain, Sys.enqueue, h.alive, h.queue]
    simp only [henq]
    obtain ⟨a, hs3, hsb3⟩ := blocking_run (s1 := { s with buf := s.buf.resetMem, queue := [.reset] }) (c := .reset)
      (hist := [] :: hist) rfl h.alive hv (by
        intro a
        obtain ⟨hba, _, _⟩ := h.bounce a
        have hcr := core_after_reset hba
        simp only at hcr
        rw [bounce_with]
        have harm : ({ s.bounce a with buf := s.buf.resetMem, queue := [IOCmd.reset] } : Sys).ioArm .cmd =
            ({ s.bounce a with buf := (s.bounce a).buf.resetMem, queue := [] } : Sys).handleCmd .reset := by
          have : (s.bounce a).buf = s.buf := (h.bounce a).2.1
          simp [Sys.ioArm, this]
        rw [harm]
        obtain ⟨hc2, hq2, _, hf2, hb2⟩ := hcr
        have hm2 : (({ s.bounce a with buf := (s.bounce a).buf.resetMem, queue := [] } : Sys).handleCmd .reset).buf.mem = [] := by
          rw [hb2]; rfl
        rw [hm2] at hc2
        exact ⟨hc2, hq2, fun _ => hf2⟩)
    generalize ({ s with buf := s.buf.resetMem, queue := [.reset] } : Sys).ioRun sch.prio = s3 at hs3 hsb3 ⊢
    have hs3' : StoreOk s3 hist := hs3.shrink hnil
    -- the buffer after the command arm is the reset buffer
    have hbuf : ∃ b2 : Buf, SameBuf b2 s3.buf ∧ b2.mem = [] ∧ b2.purgedI = s.buf.purgedI := by
      refine ⟨_, hsb3, ?_, ?_⟩
      · rw [bounce_with]
        have : (s.bounce a).buf = s.buf := (h.bounce a).2.1
        have hf := Sys.handleCmd_frame ({ s.bounce a with buf := s.buf.resetMem, queue := [] } : Sys) .reset
        have : ({ s.bounce a with buf := s.buf.resetMem, queue := [IOCmd.reset] } : Sys).ioArm .cmd =
            ({ s.bounce a with buf := s.buf.resetMem, queue := [] } : Sys).handleCmd .reset := by simp [Sys.ioArm]
        rw [this]
        exact (StoreOk.sameBuf_mem hf.1).1
      · rw [bounce_with]
        have hf := Sys.handleCmd_frame ({ s.bounce a with buf := s.buf.resetMem, queue := [] } : Sys) .reset
        have : ({ s.bounce a with buf := s.buf.resetMem, queue := [IOCmd.reset] } : Sys).ioArm .cmd =
            ({ s.bounce a with buf := s.buf.resetMem, queue := [] } : Sys).handleCmd .reset := by simp [Sys.ioArm]
        rw [this]
        exact (StoreOk.sameBuf_mem hf.1).2.1
    obtain ⟨b2, hsb, hm2, hp2⟩ := hbuf
    obtain ⟨hm3, hp3, _⟩ := StoreOk.sameBuf_mem hsb
    by_cases hes : es = []
    · subst hes
      have : s3.append [] = s3 := by simp [Sys.append]
      rw [this]
      obtain ⟨hpo, hsbp⟩ := hs3'.postClock hvalid
      rw [(StoreOk.sameBuf_mem hsbp).1]
      exact hpo.mono _ (contig_hist_of_inv hs3'.inv)
    · have hat := hs3'.appendTail hes hwf.2 ⟨s.buf.purgedI + 1, by simpa [Buf.abs] using hwf.1,
        by rw [hm3, hm2]; simp, by rw [hm3, hm2]; simp, fun _ => by rw [hp3, hp2]⟩
      obtain ⟨hpo, hsbp⟩ := hat.postClock hvalid
      rw [(StoreOk.sameBuf_mem hsbp).1]
      exact hpo
  · simp only [wfOp, hr, if_false, Bool.and_eq_true] at hwf
    have hspec := h.inv.fcaDecide_spec (prevI := prevI) (prevT := prevT) (es := es) hwf.1.1 hwf.1.2 hwf.2 hr
    generalize hdec : fcaDecide s.buf prevI prevT es = dec at hspec ⊢
    obtain ⟨plan, tag⟩ := dec
    cases plan with
    | reset => exact absurd hspec hr
    | mismatch =>
      obtain ⟨hpo, hsbp⟩ := h.postClock hvalid
      simp only
      rw [(StoreOk.sameBuf_mem hsbp).1]
      exact hpo.mono _ (contig_hist_of_inv h.inv)
    | noop =>
      obtain ⟨hpo, hsbp⟩ := h.postClock hvalid
      simp only
      rw [(StoreOk.sameBuf_mem hsbp).1]
      exact hpo.mono _ (contig_hist_of_inv h.inv)
    | appendTail tail =>
      simp only [FcaSpec] at hspec
      obtain ⟨hne, hlen, _, hpos, hk, _⟩ := hspec
      obtain ⟨hpo, hsbp⟩ := (h.appendTail hne hpos hk).postClock hvalid
      simp only
      rw [(StoreOk.sameBuf_mem hsbp).1]
      exact hpo
    | replace d tail =>
      simp only [FcaSpec] at hspec
      obtain ⟨htne, hlen, _, hpos, hd1, hd2, hne, hc, _⟩ := hspec
      have henq : ({ s with buf := s.buf.replaceMem d tail } : Sys).enqueue (.replace d tail) =
          some { s with buf := s.buf.replaceMem d tail, queue := [.replace d tail] } := by
        simp [Sys.enqueue, h.alive, h.queue]
      simp only [henq]
      have harm : ∀ a : Arm, (({ s with buf := s.buf.replaceMem d tail, queue := [.replace d tail] } : Sys).bounce a).ioArm .cmd =
          ({ s.bounce a with buf := (s.bounce a).buf.replaceMem d tail, queue := [] } : Sys).handleCmd (.replace d tail) := by
        intro a
        rw [bounce_with]
        have : (s.bounce a).buf = s.buf := (h.bounce a).2.1
        simp [Sys.ioArm, this]
      obtain ⟨a, hs3, hsb3⟩ := blocking_run (s1 := { s with buf := s.buf.replaceMem d tail, queue := [.replace d tail] })
        (c := .replace d tail) (hist := (s.buf.replaceMem d tail).mem :: hist) rfl h.alive hv (by
          intro a
          obtain ⟨hba, hbb, hbn⟩ := h.bounce a
          have hcr := core_after_replace hba htne (by rw [hbb]; exact hd1) (by rw [hbb]; exact hd2) (by rw [hbb]; exact hne) hc hpos
          simp only at hcr
          rw [harm a]
          obtain ⟨hc2, hq2, hn2, hf2, hb2⟩ := hcr
          have hmem := congrArg Buf.mem hb2
          have e : ((s.bounce a).buf.replaceMem d tail).mem = (s.buf.replaceMem d tail).mem := by rw [hbb]
          rw [hmem, e] at hc2
          exact ⟨hc2, hq2, fun hn => hf2 (by rw [hn2] at hn; exact hn)⟩)
      obtain ⟨hpo, hsbp⟩ := hs3.postClock hvalid
      have hb2 : ((({ s with buf := s.buf.replaceMem d tail, queue := [.replace d tail] } : Sys).bounce a).ioArm .cmd).buf =
          s.buf.replaceMem d tail := by
        obtain ⟨hba, hbb, _⟩ := h.bounce a
        have hcr := core_after_replace hba htne (by rw [hbb]; exact hd1) (by rw [hbb]; exact hd2) (by rw [hbb]; exact hne) hc hpos
        simp only at hcr
        rw [harm a, hcr.2.2.2.2, hbb]
      rw [(StoreOk.sameBuf_mem hsbp).1, (StoreOk.sameBuf_mem hsb3).1, hb2]
      exact hpo

theorem execOp_storeOk_purge {s : Sys} {hist : List (List Entry)} (h0 : StoreOk s hist) {ci ct : Nat} {sch : Sched}
    (hwf : wfOp s.buf.abs (.purge ci ct sch) = true) (hvalid : sch.valid = true) :
    StoreOk (execOp s (.purge ci ct sch)).1 ((execOp s (.purge ci ct sch)).1.buf.mem :: hist) := by
  have hv := valid_parts hvalid
  simp only [execOp]
  obtain ⟨h, hb0⟩ := h0.preClock sch
  rw [← hb0] at hwf
  generalize DEngine.BufLog.preClock s sch = s at h hb0 hwf ⊢
  clear hb0
  have hci : s.buf.purgedI ≤ ci := by
    simp only [wfOp, decide_eq_true_eq] at hwf; exact hwf
  have henq : s.purgeMain ci ct = some { s with buf := s.buf.purgeMem ci ct, queue := [.purge ci ct] } := by
    simp [Sys.purgeMain, Sys.enqueue, h.alive, h.queue]
  simp only [henq]
  have harm : ∀ a : Arm, (({ s with buf := s.buf.purgeMem ci ct, queue := [.purge ci ct] } : Sys).bounce a).ioArm .cmd =
      ({ s.bounce a with buf := (s.bounce a).buf.purgeMem ci ct, queue := [] } : Sys).handleCmd (.purge ci ct) := by
    intro a
    rw [bounce_with]
    have : (s.bounce a).buf = s.buf := (h.bounce a).2.1
    simp [Sys.ioArm, this]
  have hcra : ∀ a : Arm, _ := fun a => core_after_purge (h.bounce a).1 ct (by rw [(h.bounce a).2.1]; exact hci)
  obtain ⟨a, hs3, hsb3⟩ := blocking_run (s1 := { s with buf := s.buf.purgeMem ci ct, queue := [.purge ci ct] })
    (c := .purge ci ct) (hist := (s.buf.purgeMem ci ct).mem :: hist) rfl h.alive hv (by
      intro a
      have hcr := hcra a
      simp only at hcr
      rw [harm a]
      obtain ⟨hc2, hq2, hn2, hf2, hb2⟩ := hcr
      have hmem := congrArg Buf.mem hb2
      have e : ((s.bounce a).buf.purgeMem ci ct).mem = (s.buf.purgeMem ci ct).mem := by rw [(h.bounce a).2.1]
      rw [hmem, e] at hc2
      exact ⟨hc2, hq2, fun hn => hf2 (by rw [hn2] at hn; exact hn)⟩)
  obtain ⟨hpo, hsbp⟩ := hs3.postClock hvalid
  have hb2 : ((({ s with buf := s.buf.purgeMem ci ct, queue := [.purge ci ct] } : Sys).bounce a).ioArm .cmd).buf =
      s.buf.purgeMem ci ct := by
    have hcr := hcra a
    simp only at hcr
    rw [harm a, hcr.2.2.2.2, (h.bounce a).2.1]
  rw [(StoreOk.sameBuf_mem hsbp).1, (StoreOk.sameBuf_mem hsb3).1, hb2]
  exact hpo

theorem execOp_storeOk_reset {s : Sys} {hist : List (List Entry)} (h0 : StoreOk s hist) {sch : Sched}
    (hvalid : sch.valid = true) :
    StoreOk (execOp s (.reset sch)).1 ((execOp s (.reset sch)).1.buf.mem :: hist) := by
  have hv := valid_parts hvalid
  simp only [execOp]
  obtain ⟨h, _⟩ := h0.preClock sch
  generalize DEngine.BufLog.preClock s sch = s at h ⊢
  have henq : s.resetMain = some { s with buf := s.buf.resetMem, queue := [.reset] } := by
    simp [Sys.resetMain, Sys.enqueue, h.alive, h.queue]
  simp only [henq]
  have harm : ∀ a : Arm, (({ s with buf := s.buf.resetMem, queue := [.reset] } : Sys).bounce a).ioArm .cmd =
      ({ s.bounce a with buf := (s.bounce a).buf.resetMem, queue := [] } : Sys).handleCmd .reset := by
    intro a
    rw [bounce_with]
    have : (s.bounce a).buf = s.buf := (h.bounce a).2.1
    simp [Sys.ioArm, this]
  have hcra : ∀ a : Arm, _ := fun a => core_after_reset (h.bounce a).1
  obtain ⟨a, hs3, hsb3⟩ := blocking_run (s1 := { s with buf := s.buf.resetMem, queue := [.reset] })
    (c := .reset) (hist := s.buf.resetMem.mem :: hist) rfl h.alive hv (by
      intro a
      have hcr := hcra a
      simp only at hcr
      rw [harm a]
      obtain ⟨hc2, hq2, _, hf2, hb2⟩ := hcr
      have hmem := congrArg Buf.mem hb2
      have e : (s.bounce a).buf.resetMem.mem = s.buf.resetMem.mem := by rw [(h.bounce a).2.1]
      rw [hmem, e] at hc2
      exact ⟨hc2, hq2, fun _ => hf2⟩)
  obtain ⟨hpo, hsbp⟩ := hs3.postClock hvalid
  have hb2 : ((({ s with buf := s.buf.resetMem, queue := [.reset] } : Sys).bounce a).ioArm .cmd).buf = s.buf.resetMem := by
    have hcr := hcra a
    simp only at hcr
    rw [harm a, hcr.2.2.2.2, (h.bounce a).2.1]
  rw [(StoreOk.sameBuf_mem hsbp).1, (StoreOk.sameBuf_mem hsb3).1, hb2]
  exact hpo

theorem execOp_storeOk_flush {s : Sys} {hist : List (List Entry)} (h0 : StoreOk s hist) {sch : Sched}
    (hvalid : sch.valid = true) :
    StoreOk (execOp s (.flush sch)).1 ((execOp s (.flush sch)).1.buf.mem :: hist) := by
  have hv := valid_parts hvalid
  simp only [execOp]
  obtain ⟨h, _⟩ := h0.preClock sch
  generalize DEngine.BufLog.preClock s sch = s at h ⊢
  unfold Sys.flushMain
  have quiet : StoreOk (postClock s sch) ((postClock s sch).buf.mem :: hist) := by
    obtain ⟨hpo, hsbp⟩ := h.postClock hvalid
    rw [(StoreOk.sameBuf_mem hsbp).1]
    exact hpo.mono _ (contig_hist_of_inv h.inv)
  by_cases h0' : s.buf.maxIdx = 0
  · simp only [h0', if_true]; exact quiet
  · simp only [h0', if_false]
    by_cases h1 : s.buf.maxIdx ≤ s.buf.durable
    · simp only [h1, if_true]; exact quiet
    · simp only [h1, if_false]
      have henq : s.enqueue .flush = some { s with queue := [.flush] } := by simp [Sys.enqueue, h.alive, h.queue]
      simp only [henq, Option.map_some]
      have harm : ∀ a : Arm, (({ s with queue := [.flush] } : Sys).bounce a).ioArm .cmd = ({ s.bounce a with queue := [] } : Sys).pf := by
        intro a
        have : ({ s with queue := [.flush] } : Sys).bounce a = { s.bounce a with queue := [.flush] } := by cases a <;> rfl
        rw [this]
        exact ioArm_cmd_flush _ rfl
      have hpfa : ∀ a : Arm, _ := fun a =>
        (show Core ({ s.bounce a with queue := [] } : Sys) (s.buf.mem :: hist) from by
          have hc := (h.bounce a).1.core.mono s.buf.mem (contig_hist_of_inv h.inv) (Or.inl (by rw [(h.bounce a).2.1]))
          exact { file := hc.file, kb := hc.kb, bnd := hc.bnd, dImg := hc.dImg, alive := hc.alive, inv := hc.inv, vol := hc.vol, dTop := hc.dTop, pTop := hc.pTop,
                  dHist := hc.dHist, dDur := hc.dDur, memHist := hc.memHist, histOk := hc.histOk }).pf
      obtain ⟨a, hs3, hsb3⟩ := blocking_run (s1 := { s with queue := [.flush] }) (c := .flush)
        (hist := s.buf.mem :: hist) rfl h.alive hv (by
          intro a
          rw [harm a]
          obtain ⟨hc2, hf2, _, _, _, hq2, _, _⟩ := hpfa a
          exact ⟨hc2, by rw [hq2], fun _ => hf2⟩)
      obtain ⟨hpo, hsbp⟩ := hs3.postClock hvalid
      have hm2 : ((({ s with queue := [.flush] } : Sys).bounce a).ioArm .cmd).buf.mem = s.buf.mem := by
        rw [harm a]
        obtain ⟨_, _, _, _, hm, _, _, _⟩ := hpfa a
        rw [hm]; show (s.bounce a).buf.mem = _; rw [(h.bounce a).2.1]
      rw [(StoreOk.sameBuf_mem hsbp).1, (StoreOk.sameBuf_mem hsb3).1, hm2]
      exact hpo

theorem execOp_storeOk_io {s : Sys} {hist : List (List Entry)} (h0 : StoreOk s hist) {sch : Sched}
    (hvalid : sch.valid = true) :
    StoreOk (execOp s (.io sch)).1 ((execOp s (.io sch)).1.buf.mem :: hist) := by
  simp only [execOp]
  obtain ⟨h, hb0⟩ := h0.preClock sch
  obtain ⟨hs3, hsb3⟩ := quiescent_run h (valid_parts hvalid).2
  rw [(StoreOk.sameBuf_mem hsb3).1]
  exact hs3.mono _ (contig_hist_of_inv h.inv)

/-- **Preservation of the invariant between operations** (reference store, every arm order). -/
theorem execOp_storeOk {s : Sys} {hist : List (List Entry)} (h : StoreOk s hist) (hnil : [] ∈ hist) {op : Op}
    (hwf : wfOp s.buf.abs op = true) (hvalid : op.validSched = true) :
    StoreOk (execOp s op).1 ((execOp s op).1.buf.mem :: hist) := by
  cases op with
  | append es =>
    simp only [wfOp, Bool.and_eq_true] at hwf
    simp only [execOp]
    by_cases hes : es = []
    · subst hes
      have : s.append [] = s := by simp [Sys.append]
      rw [this]; exact h.mono _ (contig_hist_of_inv h.inv)
    · obtain ⟨h1, h2, h3⟩ := next_hyps h.inv
      exact h.appendTail hes hwf.2 ⟨_, hwf.1, h1, h2, h3⟩
  | fca prevI prevT es sch => exact execOp_storeOk_fca h hnil hwf hvalid
  | purge ci ct sch => exact execOp_storeOk_purge h hwf hvalid
  | reset sch => exact execOp_storeOk_reset h hvalid
  | flush sch => exact execOp_storeOk_flush h hvalid
  | alloc n =>
    simp only [execOp, Buf.alloc]
    by_cases hn : n = 0
    · simp only [hn, if_true]
      have : ({ s with buf := s.buf } : Sys) = s := rfl
      rw [this]; exact h.mono _ (contig_hist_of_inv h.inv)
    · simp only [hn, if_false]
      exact (h.withNextId _).mono _ (contig_hist_of_inv h.inv)
  | get lo hi => simp only [execOp]; exact h.mono _ (contig_hist_of_inv h.inv)
  | io sch => exact execOp_storeOk_io h hvalid
  | close sch => simp [Op.validSched] at hvalid
  | crash p => simp [Op.validSched] at hvalid

end DEngine.BufLog

namespace DEngine.BufLog

/-! ### recovery is the start of a run: `new` over a good image re-establishes the invariant -/

theorem load_fields {g : Img} (h : ImgOk g) :
    (Buf.load g).mem = g.ents ∧ (Buf.load g).purgedI = g.bndI ∧ (Buf.load g).durable = lastIdx g.ents ∧
    (Buf.load g).Inv ∧ BndOk (Buf.load g) g := by
  have hs : Sorted g.ents := sorted_of_contig h.contig
  have hpos : ∀ e ∈ g.ents, 0 < e.index := by
    intro e he
    have hne : g.ents ≠ [] := List.ne_nil_of_mem he
    have := contigFrom_mem h.contig he
    have := h.anchor hne
    omega
  have hmem := load_mem hs hpos
  -- what is scanned at startup is the whole image
  have hloaded : (if g.lastIndex > 0 then rangeE g.ents 1 g.lastIndex else []) = g.ents := by
    simp only [Img.lastIndex]
    by_cases hne : g.ents = []
    · simp [hne, rangeE]
    · have hlast : 0 < lastIdx g.ents := by
        obtain ⟨x, hx, hxi⟩ : ∃ x ∈ g.ents, x.index = lastIdx g.ents := by
          cases hg : g.ents.getLast? with
          | none => exact absurd (List.getLast?_eq_none_iff.mp hg) hne
          | some x => exact ⟨x, List.mem_of_getLast? hg, by simp [lastIdx, hg]⟩
        have := hpos x hx; omega
      simp only [hlast, if_true]
      unfold rangeE
      apply List.filter_eq_self.mpr
      intro x hx
      have h1 := hpos x hx
      have h2 := lastIdx_max_of_sorted hs hx
      simp [inRange]; omega
  have hb : BndOk (Buf.load g) g := by
    unfold BndOk Buf.load
    cases hbd : g.boundary with
    | none => simp
    | some p => simp
  have hpi : (Buf.load g).purgedI = g.bndI := by
    unfold Buf.load Img.bndI
    cases hbd : g.boundary with
    | none => simp
    | some p => simp
  refine ⟨hmem, hpi, by simp [Buf.load, Img.lastIndex], ?_, hb⟩
  have hidx := exact_append (m := []) (tf := []) (tl := []) (k := firstIdx g.ents) (es := g.ents)
    (fun _ => rfl) (fun _ => rfl) (by simp) h.contig
  have hseg := SegInv.onAppend (m := []) (s := {}) (k := firstIdx g.ents) (es := g.ents) SegInv.empty (by simp) (by simp)
    h.contig (by simp only [termsPos, List.all_eq_true, decide_eq_true_eq]; exact h.pos)
  simp only [List.nil_append] at hidx hseg
  refine { contig := by rw [hmem]; exact h.contig, pos := by rw [hmem]; exact h.pos,
           anchor := by rw [hmem, hpi]; exact h.anchor,
           minOk := by simp only [Buf.load], maxOk := by simp only [Buf.load], tf := ?_, tl := ?_, seg := ?_ }
  · rw [hmem]
    have : (Buf.load g).tfirst = (updTermIdx [] [] g.ents).1 := by simp only [Buf.load, hloaded]
    rw [this]; exact hidx.1
  · rw [hmem]
    have : (Buf.load g).tlast = (updTermIdx [] [] g.ents).2 := by simp only [Buf.load, hloaded]
    rw [this]; exact hidx.2
  · rw [hmem]
    have : (Buf.load g).segs = ({} : Segs).onAppend g.ents := by simp only [Buf.load, hloaded]
    rw [this]; exact hseg

/-- the volatile copy between operations is a good image -/
theorem StoreOk.vImg {s : Sys} {hist : List (List Entry)} (h : StoreOk s hist) : ImgOk s.store.v := by
  obtain ⟨n, hn⟩ := vol_prefix h
  refine { contig := ?_, anchor := ?_, pos := fun e he => h.inv.pos e (h.vol.sub e he) }
  · rw [hn]
    by_cases hne : s.buf.mem.take n = []
    · simp [hne]
    · have hn0 : 0 < n := by
        rcases Nat.eq_zero_or_pos n with h0 | h0
        · simp [h0] at hne
        · exact h0
      rw [firstIdx_take hn0]; exact contigFrom_take h.inv.contig n
  · intro hne
    rw [hn] at hne ⊢
    have hn0 : 0 < n := by
      rcases Nat.eq_zero_or_pos n with h0 | h0
      · simp [h0] at hne
      · exact h0
    have hm : s.buf.mem ≠ [] := by intro hm; simp [hm] at hne
    rw [firstIdx_take hn0, h.bnd.bndI]; exact h.inv.anchor hm

/-- **Crash + `new` leads back into the invariant**: recovery is itself the start of a run -/
theorem StoreOk.reopen {s : Sys} {hist : List (List Entry)} (h : StoreOk s hist) (power : Bool) :
    StoreOk (s.reopen power) ((s.reopen power).buf.mem :: hist) := by
  have himg : ImgOk (if power then s.store.d else s.store.v) := by
    cases power
    · exact h.vImg
    · exact h.dImg
  obtain ⟨hmem, hpi, hdur, hinv, hbnd⟩ := load_fields himg
  simp only [Sys.reopen, h.file]
  generalize (if power = true then s.store.d else s.store.v) = img at himg hmem hpi hdur hinv hbnd ⊢
  have hs : Sorted img.ents := sorted_of_contig himg.contig
  have hall : ∀ e ∈ (Buf.load img).mem, e ∈ img.ents := by rw [hmem]; exact fun e he => he
  refine { file := rfl, kb := h.kb, queue := rfl, alive := rfl, inv := hinv, bnd := hbnd, dImg := ?_, vol := ?_,
           full := fun _ => hall, closed := fun e he _ _ _ => hall e he, dTop := ?_, pTop := by simp,
           dHist := ?_, dDur := ?_, memHist := by simp, histOk := ?_ }
  · show ImgOk (if img.lastIndex > 0 then img else s.store.d)
    split
    · exact himg
    · exact h.dImg
  · exact ⟨hs, by rw [hmem]; exact fun e he => he, fun e he _ => hall e he⟩
  · show (Buf.load img).durable ≤ (Buf.load img).top
    rw [hdur]; unfold Buf.top; rw [hmem]; omega
  · show (if img.lastIndex > 0 then img else s.store.d).ents ∈ (Buf.load img).mem :: hist
    split
    · rw [hmem]; simp
    · exact List.mem_cons_of_mem _ h.dHist
  · intro e he _
    show e ∈ (if img.lastIndex > 0 then img else s.store.d).ents
    have he' : e ∈ img.ents := hall e he
    have : 0 < img.lastIndex := by
      have h1 := lastIdx_max_of_sorted hs he'
      have hne : img.ents ≠ [] := List.ne_nil_of_mem he'
      have h2 := contigFrom_mem himg.contig he'
      have h3 := himg.anchor hne
      simp only [Img.lastIndex]; omega
    simp only [this, if_true]; exact he'
  · intro x hx
    rcases List.mem_cons.mp hx with rfl | hx
    · exact contig_hist_of_inv hinv
    · exact h.histOk x hx

end DEngine.BufLog
