import DEngine.Model.BufLogMon
import DEngine.Lemmas.BufLogStore
/-!
  Crash property (C18), positive part: the invariant `StoreOk` between operations for the reference store, what
  `new` reloads from either copy of the store, and the effect of persist + fsync.
-/
namespace DEngine.BufLog

/-- highest index the log has ever covered: its last entry or the purge boundary -/
def Buf.top (b : Buf) : Nat := max (lastIdx b.mem) b.purgedI

/-- memory vs. the volatile copy of the store; holds inside an operation as well -/
structure VolOk (b : Buf) (v : List Entry) : Prop where
  sorted : Sorted v
  sub : ∀ e ∈ v, e ∈ b.mem
  dur : ∀ e ∈ b.mem, e.index ≤ b.durable → e ∈ v

/-- what holds between operations (no command queued) over the reference store; `hist` = logs seen so far -/
structure StoreOk (s : Sys) (hist : List (List Entry)) : Prop where
  file : s.file = none
  queue : s.queue = []
  timer : s.timerDue = false
  alive : s.alive = true
  inv : s.buf.Inv
  vol : VolOk s.buf s.store.v.ents
  /-- nothing waits for the notify arm ⇒ everything in memory has been written -/
  full : s.notify = false → ∀ e ∈ s.buf.mem, e ∈ s.store.v.ents
  /-- what has been written is a prefix of the log -/
  closed : ∀ e ∈ s.buf.mem, ∀ x ∈ s.store.v.ents, e.index ≤ x.index → e ∈ s.store.v.ents
  dTop : s.buf.durable ≤ s.buf.top
  pTop : s.pendingMax ≤ s.buf.top
  dHist : s.store.d.ents ∈ hist
  dDur : ∀ e ∈ s.buf.mem, e.index ≤ s.buf.durable → e ∈ s.store.d.ents
  memHist : s.buf.mem ∈ hist
  histOk : ∀ h ∈ hist, ∃ k, contigFrom (k + 1) h = true

/-! ### what `new` loads -/

theorem lastIdx_max_of_sorted {l : List Entry} (hs : Sorted l) {x : Entry} (hx : x ∈ l) : x.index ≤ lastIdx l := by
  induction l generalizing x with
  | nil => cases hx
  | cons y ys ih =>
    have hy := (List.pairwise_cons.mp hs).1
    cases ys with
    | nil => simp at hx; subst hx; simp [lastIdx]
    | cons z zs =>
      have hl : lastIdx (y :: z :: zs) = lastIdx (z :: zs) := by simp [lastIdx, List.getLast?_cons_cons]
      rw [hl]
      rcases List.mem_cons.mp hx with hx1 | hx1
      · have h1 := hy z (by simp)
        have h2 := ih (List.pairwise_cons.mp hs).2 (x := z) (by simp)
        rw [hx1]; omega
      · exact ih (List.pairwise_cons.mp hs).2 hx1

/-- `BufferedRaftLog::new` loads exactly the entries of the image (sorted, indexes ≥ 1) -/
theorem load_mem {g : Img} (hs : Sorted g.ents) (hpos : ∀ e ∈ g.ents, 0 < e.index) : (Buf.load g).mem = g.ents := by
  simp only [Buf.load, Img.lastIndex]
  by_cases hne : g.ents = []
  · simp [hne, insertAll]
  · have hlast : 0 < lastIdx g.ents := by
      cases hg : g.ents with
      | nil => exact absurd hg hne
      | cons x xs =>
        have := lastIdx_max_of_sorted hs (x := x) (by rw [hg]; simp)
        have := hpos x (by rw [hg]; simp)
        rw [← hg]; omega
    simp only [hlast, if_true]
    have hr : rangeE g.ents 1 (lastIdx g.ents) = g.ents := by
      unfold rangeE
      apply List.filter_eq_self.mpr
      intro x hx
      have h1 := hpos x hx
      have h2 := lastIdx_max_of_sorted hs hx
      simp [inRange]; omega
    rw [hr]
    apply sorted_ext (sorted_insertAll Sorted.nil) hs
    intro x
    rw [mem_insertAll Sorted.nil hs]
    simp

/-! ### the clauses of the crash property -/

theorem gapFree_of_contig {k : Nat} {l : List Entry} (h : contigFrom k l = true) : gapFree l = true := by
  cases l with
  | nil => rfl
  | cons x xs =>
    simp only [contigFrom_cons, Bool.and_eq_true, beq_iff_eq] at h
    simp only [gapFree]
    rw [h.1]; exact h.2

theorem isSegmentOf_take (m : List Entry) (n : Nat) : isSegmentOf (m.take n) m = true := by
  cases hm : m.take n with
  | nil => rfl
  | cons e rest =>
    cases m with
    | nil => simp at hm
    | cons y ys =>
      cases n with
      | zero => simp at hm
      | succ n =>
        simp only [List.take_succ_cons, List.cons.injEq] at hm
        obtain ⟨rfl, hrest⟩ := hm
        simp only [isSegmentOf]
        have : List.dropWhile (fun x => x != y) (y :: ys) = y :: ys := by simp [List.dropWhile]
        rw [this]
        simp only [List.length_cons, List.take_succ_cons, beq_iff_eq, List.cons.injEq, true_and]
        rw [← hrest, List.length_take]
        simp [List.take_take]

theorem isSegmentOf_self (m : List Entry) : isSegmentOf m m = true := by
  have := isSegmentOf_take m m.length
  simpa using this

theorem durableKept_of {live rec : List Entry} {d : Nat} (h : ∀ e ∈ live, e.index ≤ d → e ∈ rec) :
    durableKept live d rec = true := by
  simp only [durableKept, List.all_eq_true, Bool.or_eq_true, decide_eq_true_eq, List.contains_iff_mem]
  intro e he
  by_cases hd : d < e.index
  · exact Or.inl hd
  · exact Or.inr (h e he (by omega))

/-- the written part of the log is a prefix of it -/
theorem vol_prefix {s : Sys} {hist : List (List Entry)} (h : StoreOk s hist) :
    ∃ n, s.store.v.ents = s.buf.mem.take n := by
  by_cases hne : s.store.v.ents = []
  · exact ⟨0, by simp [hne]⟩
  · have hfil : s.store.v.ents = s.buf.mem.filter (fun e => decide (e.index < lastIdx s.store.v.ents + 1)) := by
      apply sorted_ext h.vol.sorted ((sorted_of_contig h.inv.contig).filter _)
      intro x
      simp only [List.mem_filter, decide_eq_true_eq]
      constructor
      · intro hx
        exact ⟨h.vol.sub x hx, by have := lastIdx_max_of_sorted h.vol.sorted hx; omega⟩
      · rintro ⟨hx, hlt⟩
        obtain ⟨l, hl⟩ : ∃ l, s.store.v.ents.getLast? = some l := by
          cases hg : s.store.v.ents.getLast? with
          | none => exact absurd (List.getLast?_eq_none_iff.mp hg) hne
          | some l => exact ⟨l, rfl⟩
        have hlm := List.mem_of_getLast? hl
        have : lastIdx s.store.v.ents = l.index := by simp [lastIdx, hl]
        exact h.closed x hx l hlm (by omega)
    rw [filter_lt_contig h.inv.contig] at hfil
    exact ⟨_, hfil⟩

/-- **Crash at a point where `StoreOk` holds**: the reloaded log passes the three clauses, for both crash semantics. -/
theorem recovered_ok {s : Sys} {hist : List (List Entry)} (h : StoreOk s hist) (power : Bool) :
    recoveredOk hist s.buf.mem s.buf.durable (s.reopen power).buf.mem s.store.v.ents (some s.store.d.ents) = none := by
  have hposm : ∀ e ∈ s.buf.mem, 0 < e.index := by
    intro e he
    have hne : s.buf.mem ≠ [] := List.ne_nil_of_mem he
    have := contigFrom_mem h.inv.contig he
    have := h.inv.anchor hne
    omega
  obtain ⟨n, hn⟩ := vol_prefix h
  have hrec : (s.reopen power).buf.mem = if power then s.store.d.ents else s.store.v.ents := by
    simp only [Sys.reopen, h.file]
    cases power with
    | false =>
      simp only [Bool.false_eq_true, if_false]
      exact load_mem h.vol.sorted (fun e he => hposm e (h.vol.sub e he))
    | true =>
      simp only [if_true]
      obtain ⟨k, hk⟩ := h.histOk _ h.dHist
      exact load_mem (sorted_of_contig hk) (fun e he => by have := contigFrom_mem hk he; omega)
  rw [hrec]
  cases power with
  | false =>
    simp only [Bool.false_eq_true, if_false]
    have hg : gapFree s.store.v.ents = true := by
      rw [hn]; exact gapFree_of_contig (contigFrom_take h.inv.contig n)
    have hd := durableKept_of (live := s.buf.mem) (rec := s.store.v.ents) (d := s.buf.durable) h.vol.dur
    have hr : noResurrection hist s.store.v.ents = true := by
      simp only [noResurrection, List.any_eq_true]
      exact ⟨s.buf.mem, h.memHist, by rw [hn]; exact isSegmentOf_take _ _⟩
    simp [recoveredOk, hg, hd, hr]
  | true =>
    simp only [if_true]
    obtain ⟨k, hk⟩ := h.histOk _ h.dHist
    have hg : gapFree s.store.d.ents = true := gapFree_of_contig hk
    have hd := durableKept_of (live := s.buf.mem) (rec := s.store.d.ents) (d := s.buf.durable) h.dDur
    have hr : noResurrection hist s.store.d.ents = true := by
      simp only [noResurrection, List.any_eq_true]
      exact ⟨s.store.d.ents, h.dHist, isSegmentOf_self _⟩
    simp [recoveredOk, hg, hd, hr]

end DEngine.BufLog

namespace DEngine.BufLog

/-! ### the part of the invariant that also holds inside an operation -/

structure Core (s : Sys) (hist : List (List Entry)) : Prop where
  file : s.file = none
  alive : s.alive = true
  inv : s.buf.Inv
  vol : VolOk s.buf s.store.v.ents
  dTop : s.buf.durable ≤ s.buf.top
  pTop : s.pendingMax ≤ s.buf.top
  dHist : s.store.d.ents ∈ hist
  dDur : ∀ e ∈ s.buf.mem, e.index ≤ s.buf.durable → e ∈ s.store.d.ents
  memHist : s.buf.mem ∈ hist
  histOk : ∀ h ∈ hist, ∃ k, contigFrom (k + 1) h = true

theorem StoreOk.core {s : Sys} {hist : List (List Entry)} (h : StoreOk s hist) : Core s hist :=
  { file := h.file, alive := h.alive, inv := h.inv, vol := h.vol, dTop := h.dTop, pTop := h.pTop, dHist := h.dHist,
    dDur := h.dDur, memHist := h.memHist, histOk := h.histOk }

theorem contig_hist_of_inv {b : Buf} (h : b.Inv) : ∃ k, contigFrom (k + 1) b.mem = true := by
  by_cases hne : b.mem = []
  · exact ⟨0, by simp [hne]⟩
  · exact ⟨b.purgedI, by rw [← h.anchor hne]; exact h.contig⟩

theorem top_ge_of_mem {b : Buf} (h : b.Inv) {e : Entry} (he : e ∈ b.mem) : e.index ≤ b.top := by
  have := (h.mem_range he).2
  rw [h.maxOk] at this
  unfold Buf.top; omega

/-- persist `(durable, max]`, then fsync -/
def Sys.pf (s : Sys) : Sys := s.persistPending.fsyncAdvance

/-- **persist + fsync**: afterwards everything in memory is in both copies that matter, `durable_index ≤ top`,
    nothing is pending -/
theorem Core.pf {s : Sys} {hist : List (List Entry)} (h : Core s hist) :
    Core s.pf hist ∧ (∀ e ∈ s.pf.buf.mem, e ∈ s.pf.store.v.ents) ∧ s.pf.pendingMax = 0 ∧
    SameBuf s.buf s.pf.buf ∧ s.pf.buf.mem = s.buf.mem ∧ s.pf.queue = s.queue ∧ s.pf.notify = s.notify ∧
    s.pf.timerDue = s.timerDue := by
  have hmax : s.buf.maxIdx = lastIdx s.buf.mem := h.inv.maxOk
  -- the state after persistPending
  have hp : ∃ v' P', s.persistPending = { s with store := { s.store with v := { s.store.v with ents := v' } }, pendingMax := P' } ∧
      VolOk s.buf v' ∧ P' ≤ s.buf.top ∧ s.pendingMax ≤ P' ∧
      (s.buf.durable < lastIdx s.buf.mem → (∀ e ∈ s.buf.mem, e ∈ v') ∧ P' = max s.pendingMax (lastIdx s.buf.mem)) ∧
      (¬ s.buf.durable < lastIdx s.buf.mem → v' = s.store.v.ents ∧ P' = s.pendingMax) := by
    simp only [Sys.persistPending, hmax]
    by_cases hlt : s.buf.durable + 1 ≤ lastIdx s.buf.mem
    · simp only [hlt, if_true]
      have hne : s.buf.mem ≠ [] := by intro he; rw [he] at hlt; simp at hlt
      obtain ⟨l, hl⟩ : ∃ l, s.buf.mem.getLast? = some l := by
        cases hg : s.buf.mem.getLast? with
        | none => exact absurd (List.getLast?_eq_none_iff.mp hg) hne
        | some l => exact ⟨l, rfl⟩
      have hlm := List.mem_of_getLast? hl
      have hli : lastIdx s.buf.mem = l.index := by simp [lastIdx, hl]
      have hes : (s.buf.getRange (s.buf.durable + 1) (lastIdx s.buf.mem)).isEmpty = false := by
        have : l ∈ s.buf.getRange (s.buf.durable + 1) (lastIdx s.buf.mem) := by
          simp only [Buf.getRange, rangeE, List.mem_filter, inRange, Bool.and_eq_true, decide_eq_true_eq]
          exact ⟨hlm, by omega, by omega⟩
        cases hr : s.buf.getRange (s.buf.durable + 1) (lastIdx s.buf.mem) with
        | nil => rw [hr] at this; cases this
        | cons a as => rfl
      simp only [hes, Bool.false_eq_true, if_false]
      have hsr : Sorted (s.buf.getRange (s.buf.durable + 1) (lastIdx s.buf.mem)) :=
        (sorted_of_contig h.inv.contig).filter _
      refine ⟨insertAll s.store.v.ents (s.buf.getRange (s.buf.durable + 1) (lastIdx s.buf.mem)),
        max s.pendingMax (lastIdx s.buf.mem), ?_, ?_, ?_, by omega, ?_, ?_⟩
      · simp [Sys.stPersist, Img.persist, h.file]
      · refine ⟨sorted_insertAll h.vol.sorted, ?_, ?_⟩
        · intro e he
          rcases (mem_insertAll h.vol.sorted hsr).mp he with he | ⟨he, _⟩
          · exact (List.mem_filter.mp he).1
          · exact h.vol.sub e he
        · intro e he hd
          refine (mem_insertAll h.vol.sorted hsr).mpr (Or.inr ⟨h.vol.dur e he hd, ?_⟩)
          intro x hx
          have := (List.mem_filter.mp hx).2
          simp only [inRange, Bool.and_eq_true, decide_eq_true_eq] at this
          omega
      · have := h.pTop
        have : lastIdx s.buf.mem ≤ s.buf.top := by unfold Buf.top; omega
        omega
      · intro _
        refine ⟨?_, rfl⟩
        intro e he
        by_cases hd : e.index ≤ s.buf.durable
        · refine (mem_insertAll h.vol.sorted hsr).mpr (Or.inr ⟨h.vol.dur e he hd, ?_⟩)
          intro x hx
          have := (List.mem_filter.mp hx).2
          simp only [inRange, Bool.and_eq_true, decide_eq_true_eq] at this
          omega
        · refine (mem_insertAll h.vol.sorted hsr).mpr (Or.inl ?_)
          simp only [Buf.getRange, rangeE, List.mem_filter, inRange, Bool.and_eq_true, decide_eq_true_eq]
          have := (h.inv.mem_range he).2
          rw [hmax] at this
          exact ⟨he, by omega, this⟩
      · intro hn; omega
    · simp only [hlt, if_false]
      refine ⟨s.store.v.ents, s.pendingMax, rfl, h.vol, h.pTop, Nat.le_refl _, ?_, fun _ => ⟨rfl, rfl⟩⟩
      intro hn; omega
  obtain ⟨v', P', hpe, hvol', hP', hPP, hcase1, hcase2⟩ := hp
  -- everything in memory is written after the persist
  have hfull : ∀ e ∈ s.buf.mem, e ∈ v' := by
    by_cases hlt : s.buf.durable < lastIdx s.buf.mem
    · exact (hcase1 hlt).1
    · intro e he
      rw [(hcase2 hlt).1]
      have := (h.inv.mem_range he).2
      rw [hmax] at this
      exact h.vol.dur e he (by omega)
  have hveq : v' = s.buf.mem := sorted_ext hvol'.sorted (sorted_of_contig h.inv.contig)
    (fun x => ⟨hvol'.sub x, hfull x⟩)
  unfold Sys.pf
  rw [hpe]
  simp only [Sys.fsyncAdvance]
  by_cases hP0 : 0 < P'
  · rw [if_pos hP0]
    refine ⟨?_, hfull, rfl, ⟨_, s.buf.nextId, rfl⟩, rfl, rfl, rfl, rfl⟩
    refine { file := h.file, alive := h.alive, inv := (SameBuf.inv ⟨_, s.buf.nextId, rfl⟩ h.inv), vol := ?_, dTop := ?_,
             pTop := Nat.zero_le _, dHist := ?_, dDur := ?_, memHist := h.memHist, histOk := h.histOk }
    · exact ⟨hvol'.sorted, hvol'.sub, fun e he _ => hfull e he⟩
    · have := h.dTop
      show max s.buf.durable P' ≤ s.buf.top
      exact Nat.max_le.mpr ⟨this, hP'⟩
    · show v' ∈ hist
      rw [hveq]; exact h.memHist
    · intro e he _
      exact hfull e he
  · rw [if_neg hP0]
    have hP0' : P' = 0 := by omega
    refine ⟨?_, hfull, hP0', SameBuf.refl _, rfl, rfl, rfl, rfl⟩
    exact { file := h.file, alive := h.alive, inv := h.inv, vol := hvol', dTop := h.dTop, pTop := by rw [hP0']; exact Nat.zero_le _,
            dHist := h.dHist, dDur := h.dDur, memHist := h.memHist, histOk := h.histOk }

end DEngine.BufLog

namespace DEngine.BufLog

def defaultPrio : List Arm := [.cmd, .notify, .timer]

/-! ### arms of the IO loop when no command is queued -/

theorem Sys.queue_eta (s : Sys) (h : s.queue = []) : { s with queue := [] } = s := by
  cases s; simp at h; simp [h]

theorem ioArm_notify_nil (s : Sys) (hq : s.queue = []) : s.ioArm .notify = ({ s with notify := false }).pf := by
  have h1 := Sys.persistPending_frame { s with notify := false }
  have hq1 : ({ s with notify := false }).persistPending.queue = [] := by rw [h1.2.1]; exact hq
  simp only [Sys.ioArm, hq1, Sys.drain, Sys.shutdownTail, Bool.false_eq_true, if_false, Sys.pf]
  rw [Sys.queue_eta _ hq1]

theorem ioArm_timer (s : Sys) : s.ioArm .timer = ({ s with timerDue := false }).pf := rfl

theorem ioArm_cmd_flush (s : Sys) (hq : s.queue = [.flush]) : s.ioArm .cmd = ({ s with queue := [] }).pf := by
  have h1 := Sys.persistPending_frame { s with queue := [] }
  have hq1 : ({ s with queue := [] }).persistPending.queue = [] := by rw [h1.2.1]
  simp only [Sys.ioArm, hq, hq1, Sys.drain, Sys.shutdownTail, Bool.false_eq_true, if_false, Sys.pf]
  rw [Sys.queue_eta _ hq1]

theorem ioRunN_idle (n : Nat) (s : Sys) (hq : s.queue = []) (hn : s.notify = false) (ht : s.timerDue = false) :
    Sys.ioRunN n s defaultPrio = s := by
  cases n with
  | zero => rfl
  | succ n => simp [Sys.ioRunN, Sys.pickArm, defaultPrio, Sys.armEnabled, hq, hn, ht]

/-- the rest of an IO run once the queue is empty: the notify arm if a notification is pending, then the timer arm
    if a tick is due; the result satisfies the invariant between operations -/
theorem finish_ok {s : Sys} {hist : List (List Entry)} (n : Nat) (hc : Core s hist) (hq : s.queue = [])
    (hfull : s.notify = false → s.timerDue = false → ∀ e ∈ s.buf.mem, e ∈ s.store.v.ents) :
    StoreOk (Sys.ioRunN (n + 2) s defaultPrio) hist ∧ SameBuf s.buf (Sys.ioRunN (n + 2) s defaultPrio).buf := by
  -- a state with Core, empty queue, no flags and everything written is fine
  have done : ∀ (t : Sys), Core t hist → t.queue = [] → t.notify = false → t.timerDue = false →
      (∀ e ∈ t.buf.mem, e ∈ t.store.v.ents) → StoreOk t hist := by
    intro t hct hqt hnt htt hft
    exact { file := hct.file, queue := hqt, timer := htt, alive := hct.alive, inv := hct.inv, vol := hct.vol,
            full := fun _ => hft, closed := fun e he _ _ _ => hft e he, dTop := hct.dTop, pTop := hct.pTop,
            dHist := hct.dHist, dDur := hct.dDur, memHist := hct.memHist, histOk := hct.histOk }
  by_cases hn : s.notify = true
  · -- notify arm
    have hpick : s.pickArm defaultPrio = some .notify := by
      simp [Sys.pickArm, defaultPrio, Sys.armEnabled, hq, hn, hc.alive]
    have hstep : Sys.ioRunN (n + 2) s defaultPrio = Sys.ioRunN (n + 1) (s.ioArm .notify) defaultPrio := by
      simp [Sys.ioRunN, hpick]
    rw [hstep, ioArm_notify_nil s hq]
    have hc1 : Core { s with notify := false } hist :=
      { file := hc.file, alive := hc.alive, inv := hc.inv, vol := hc.vol, dTop := hc.dTop, pTop := hc.pTop,
        dHist := hc.dHist, dDur := hc.dDur, memHist := hc.memHist, histOk := hc.histOk }
    obtain ⟨hc2, hf2, _, hsb2, _, hq2, hn2, ht2⟩ := hc1.pf
    have hq2' : ({ s with notify := false }).pf.queue = [] := by rw [hq2]; exact hq
    have hn2' : ({ s with notify := false }).pf.notify = false := by rw [hn2]
    by_cases ht : s.timerDue = true
    · have ht2' : ({ s with notify := false }).pf.timerDue = true := by rw [ht2]; exact ht
      have hpick2 : ({ s with notify := false }).pf.pickArm defaultPrio = some .timer := by
        simp [Sys.pickArm, defaultPrio, Sys.armEnabled, hq2', hn2', ht2', hc2.alive]
      have hstep2 : Sys.ioRunN (n + 1) ({ s with notify := false }).pf defaultPrio =
          Sys.ioRunN n (({ s with notify := false }).pf.ioArm .timer) defaultPrio := by
        simp [Sys.ioRunN, hpick2]
      rw [hstep2, ioArm_timer]
      have hc3 : Core { ({ s with notify := false }).pf with timerDue := false } hist :=
        { file := hc2.file, alive := hc2.alive, inv := hc2.inv, vol := hc2.vol, dTop := hc2.dTop, pTop := hc2.pTop,
          dHist := hc2.dHist, dDur := hc2.dDur, memHist := hc2.memHist, histOk := hc2.histOk }
      obtain ⟨hc4, hf4, _, hsb4, _, hq4, hn4, ht4⟩ := hc3.pf
      rw [ioRunN_idle n _ (by rw [hq4]; exact hq2') (by rw [hn4]; exact hn2') (by rw [ht4])]
      exact ⟨done _ hc4 (by rw [hq4]; exact hq2') (by rw [hn4]; exact hn2') (by rw [ht4]) hf4,
        hsb2.trans hsb4⟩
    · have ht' : s.timerDue = false := by simpa using ht
      have ht2' : ({ s with notify := false }).pf.timerDue = false := by rw [ht2]; exact ht'
      rw [ioRunN_idle (n + 1) _ hq2' hn2' ht2']
      exact ⟨done _ hc2 hq2' hn2' ht2' hf2, hsb2⟩
  · have hn' : s.notify = false := by simpa using hn
    by_cases ht : s.timerDue = true
    · have hpick : s.pickArm defaultPrio = some .timer := by
        simp [Sys.pickArm, defaultPrio, Sys.armEnabled, hq, hn', ht, hc.alive]
      have hstep : Sys.ioRunN (n + 2) s defaultPrio = Sys.ioRunN (n + 1) (s.ioArm .timer) defaultPrio := by
        simp [Sys.ioRunN, hpick]
      rw [hstep, ioArm_timer]
      have hc1 : Core { s with timerDue := false } hist :=
        { file := hc.file, alive := hc.alive, inv := hc.inv, vol := hc.vol, dTop := hc.dTop, pTop := hc.pTop,
          dHist := hc.dHist, dDur := hc.dDur, memHist := hc.memHist, histOk := hc.histOk }
      obtain ⟨hc2, hf2, _, hsb2, _, hq2, hn2, ht2⟩ := hc1.pf
      rw [ioRunN_idle (n + 1) _ (by rw [hq2]; exact hq) (by rw [hn2]; exact hn') (by rw [ht2])]
      exact ⟨done _ hc2 (by rw [hq2]; exact hq) (by rw [hn2]; exact hn') (by rw [ht2]) hf2, hsb2⟩
    · have ht' : s.timerDue = false := by simpa using ht
      rw [ioRunN_idle (n + 2) s hq hn' ht']
      exact ⟨done s hc hq hn' ht' (hfull hn' ht'), SameBuf.refl _⟩

end DEngine.BufLog

namespace DEngine.BufLog

/-! ### operations that do not wait for the IO loop -/

theorem Core.mono {s : Sys} {hist : List (List Entry)} (h : Core s hist) (m : List Entry)
    (hm : ∃ k, contigFrom (k + 1) m = true) (hmem : s.buf.mem = m ∨ s.buf.mem ∈ hist) : Core s (m :: hist) :=
  { file := h.file, alive := h.alive, inv := h.inv, vol := h.vol, dTop := h.dTop, pTop := h.pTop,
    dHist := List.mem_cons_of_mem _ h.dHist, dDur := h.dDur,
    memHist := by rcases hmem with hm' | hm'
                  · rw [hm']; simp
                  · exact List.mem_cons_of_mem _ hm',
    histOk := by intro x hx
                 rcases List.mem_cons.mp hx with rfl | hx
                 · exact hm
                 · exact h.histOk x hx }

theorem StoreOk.mono {s : Sys} {hist : List (List Entry)} (h : StoreOk s hist) (m : List Entry)
    (hm : ∃ k, contigFrom (k + 1) m = true) : StoreOk s (m :: hist) :=
  { file := h.file, queue := h.queue, timer := h.timer, alive := h.alive, inv := h.inv, vol := h.vol, full := h.full,
    closed := h.closed, dTop := h.dTop, pTop := h.pTop, dHist := List.mem_cons_of_mem _ h.dHist, dDur := h.dDur,
    memHist := List.mem_cons_of_mem _ h.memHist,
    histOk := by intro x hx
                 rcases List.mem_cons.mp hx with rfl | hx
                 · exact hm
                 · exact h.histOk x hx }

/-- changing only `next_id` (id allocation) changes nothing that matters here -/
theorem StoreOk.withNextId {s : Sys} {hist : List (List Entry)} (h : StoreOk s hist) (n : Nat) :
    StoreOk { s with buf := { s.buf with nextId := n } } hist :=
  { file := h.file, queue := h.queue, timer := h.timer, alive := h.alive,
    inv := SameBuf.inv ⟨s.buf.durable, n, rfl⟩ h.inv,
    vol := ⟨h.vol.sorted, h.vol.sub, h.vol.dur⟩, full := h.full, closed := h.closed, dTop := h.dTop, pTop := h.pTop,
    dHist := h.dHist, dDur := h.dDur, memHist := h.memHist, histOk := h.histOk }

/-- `append_entries(tail)` for a tail that starts right above the end of the log -/
theorem StoreOk.appendTail {s : Sys} {hist : List (List Entry)} (h : StoreOk s hist) {tail : List Entry}
    (hne : tail ≠ []) (hpos : termsPos tail = true)
    (hk : ∃ k, contigFrom k tail = true ∧ (∀ x ∈ s.buf.mem, x.index < k) ∧ (s.buf.mem ≠ [] → k = lastIdx s.buf.mem + 1) ∧
      (s.buf.mem = [] → k = s.buf.purgedI + 1)) :
    StoreOk (s.append tail) ((s.append tail).buf.mem :: hist) := by
  obtain ⟨k, hc, h1, h2, h3⟩ := hk
  have hins := h.inv.insertToMemory hc hpos h1 h2 h3
  have hne' : tail.isEmpty = false := by simpa using hne
  have hmem' : (s.buf.insertToMemory tail).mem = s.buf.mem ++ tail := by
    have := congrArg Plain.ents hins.2.1
    simpa [Buf.abs, Plain.append] using this
  have hpi' : (s.buf.insertToMemory tail).purgedI = s.buf.purgedI := by
    have := congrArg Plain.anchorI hins.2.1
    simpa [Buf.abs, Plain.append] using this
  have hd' : (s.buf.insertToMemory tail).durable = s.buf.durable := hins.2.2
  -- every new entry lies above `top`, hence above `durable_index`
  have hktop : s.buf.top < k := by
    unfold Buf.top
    by_cases hm : s.buf.mem = []
    · rw [hm]; have := h3 hm; simp [lastIdx]; omega
    · have := h2 hm
      have ha := h.inv.anchor hm
      have hf := firstIdx_le_lastIdx h.inv.contig hm
      omega
  have hnew : ∀ e ∈ tail, s.buf.durable < e.index := by
    intro e he
    have := (contigFrom_mem hc he).1
    have := h.dTop
    omega
  have hlast : lastIdx s.buf.mem ≤ lastIdx (s.buf.mem ++ tail) := by
    rw [lastIdx_append hne]
    obtain ⟨l, hl⟩ : ∃ l, tail.getLast? = some l := by
      cases hg : tail.getLast? with
      | none => exact absurd (List.getLast?_eq_none_iff.mp hg) hne
      | some l => exact ⟨l, rfl⟩
    have := (contigFrom_mem hc (List.mem_of_getLast? hl)).1
    have : lastIdx tail = l.index := by simp [lastIdx, hl]
    unfold Buf.top at hktop
    omega
  have htop : s.buf.top ≤ (s.buf.insertToMemory tail).top := by
    unfold Buf.top; rw [hmem', hpi']; omega
  simp only [Sys.append, hne', Bool.false_eq_true, if_false]
  refine { file := h.file, queue := h.queue, timer := h.timer, alive := h.alive, inv := hins.1, vol := ?_, full := ?_,
           closed := ?_, dTop := ?_, pTop := ?_, dHist := List.mem_cons_of_mem _ h.dHist, dDur := ?_, memHist := by simp,
           histOk := ?_ }
  · refine ⟨h.vol.sorted, ?_, ?_⟩
    · intro e he; show e ∈ (s.buf.insertToMemory tail).mem; rw [hmem']; exact List.mem_append_left _ (h.vol.sub e he)
    · intro e he hd
      have he' : e ∈ s.buf.mem ++ tail := by rw [← hmem']; exact he
      have hd' : e.index ≤ s.buf.durable := by rw [← hd']; exact hd
      rcases List.mem_append.mp he' with he' | he'
      · exact h.vol.dur e he' hd'
      · have := hnew e he'; omega
  · intro hn; simp at hn
  · intro e he x hx hle
    have he' : e ∈ s.buf.mem ++ tail := by rw [← hmem']; exact he
    rcases List.mem_append.mp he' with he' | he'
    · exact h.closed e he' x hx hle
    · have hx' := h1 x (h.vol.sub x hx)
      have := (contigFrom_mem hc he').1
      omega
  · show (s.buf.insertToMemory tail).durable ≤ _
    rw [hd']; exact Nat.le_trans h.dTop htop
  · exact Nat.le_trans h.pTop htop
  · intro e he hd
    have he' : e ∈ s.buf.mem ++ tail := by rw [← hmem']; exact he
    have hd'' : e.index ≤ s.buf.durable := by rw [← hd']; exact hd
    rcases List.mem_append.mp he' with he' | he'
    · exact h.dDur e he' hd''
    · have := hnew e he'; omega
  · intro x hx
    rcases List.mem_cons.mp hx with rfl | hx
    · exact contig_hist_of_inv hins.1
    · exact h.histOk x hx

end DEngine.BufLog

namespace DEngine.BufLog

/-! ### memory part + command arm of the operations that wait for the IO loop -/

theorem replaceMem_durable (b : Buf) (d : Nat) (tail : List Entry) :
    (b.replaceMem d tail).durable = min b.durable (d - 1) := by
  simp [Buf.replaceMem, Buf.insertToMemory, Buf.removeFrom, Buf.removeBy]

theorem lastIdx_mem_of_ne {l : List Entry} (h : l ≠ []) : ∃ x ∈ l, x.index = lastIdx l := by
  cases hg : l.getLast? with
  | none => exact absurd (List.getLast?_eq_none_iff.mp hg) h
  | some x => exact ⟨x, List.mem_of_getLast? hg, by simp [lastIdx, hg]⟩

theorem handleCmd_replace (s : Sys) (d : Nat) (es : List Entry) (hpos : 0 < lastIdx es) :
    s.handleCmd (.replace d es) =
      { ({ s with pendingMax := min s.pendingMax (d - 1), buf := { s.buf with durable := min s.buf.durable (d - 1) } } : Sys).stReplace d es
          with pendingMax := max (min s.pendingMax (d - 1)) (lastIdx es) } := by
  unfold lastIdx at hpos
  simp only [Sys.handleCmd, lastIdx]
  cases hg : es.getLast? with
  | none => simp [hg] at hpos
  | some x => simp only [hg] at hpos ⊢; simp [hpos]

theorem core_after_replace {s : Sys} {hist : List (List Entry)} (h : StoreOk s hist) {d : Nat} {tail : List Entry}
    (htne : tail ≠ []) (hd1 : s.buf.minIdx ≤ d) (hd2 : d ≤ s.buf.maxIdx) (hne : s.buf.mem ≠ [])
    (hc : contigFrom d tail = true) (hpos : termsPos tail = true) :
    let s2 := ({ s with buf := s.buf.replaceMem d tail, queue := [] } : Sys).handleCmd (.replace d tail)
    Core s2 (s2.buf.mem :: hist) ∧ s2.queue = [] ∧ s2.notify = s.notify ∧ s2.timerDue = false ∧
    (s.notify = false → ∀ e ∈ s2.buf.mem, e ∈ s2.store.v.ents) ∧ s2.buf = s.buf.replaceMem d tail := by
  have hrep := h.inv.replaceMem hd1 hd2 hne hc hpos
  have hmem' : (s.buf.replaceMem d tail).mem = s.buf.mem.filter (fun e => decide (e.index < d)) ++ tail := by
    have := congrArg Plain.ents hrep.2; simpa [Buf.abs] using this
  have hpi' : (s.buf.replaceMem d tail).purgedI = s.buf.purgedI := by
    have := congrArg Plain.anchorI hrep.2; simpa [Buf.abs] using this
  have hdur' := replaceMem_durable s.buf d tail
  obtain ⟨l, hl, hli⟩ := lastIdx_mem_of_ne htne
  have hld : d ≤ lastIdx tail := by have := (contigFrom_mem hc hl).1; omega
  have hdpos : 0 < d := by
    have := h.inv.anchor hne
    rw [h.inv.minOk] at hd1; omega
  have hlast' : lastIdx (s.buf.replaceMem d tail).mem = lastIdx tail := by rw [hmem', lastIdx_append htne]
  have hsorted_tail : Sorted tail := sorted_of_contig hc
  have hvf : Sorted (s.store.v.ents.filter (fun e => decide (e.index < d))) := h.vol.sorted.filter _
  have hpos' : 0 < lastIdx tail := by omega
  rw [handleCmd_replace _ _ _ hpos']
  -- the IO task's own lowering of durable_index repeats what the caller already did
  have hbeq : ({ s.buf.replaceMem d tail with durable := min (s.buf.replaceMem d tail).durable (d - 1) } : Buf) =
      s.buf.replaceMem d tail := by
    have : min (s.buf.replaceMem d tail).durable (d - 1) = (s.buf.replaceMem d tail).durable := by
      rw [hdur']; omega
    rw [this]
  simp only [Sys.stReplace, Img.replaceRange, h.file, Option.map_none, hbeq]
  refine ⟨?_, by simp, by simp, by simp [h.timer], ?_, by simp⟩
  · refine { file := by simp, alive := h.alive, inv := hrep.1, vol := ?_, dTop := ?_, pTop := ?_,
             dHist := List.mem_cons_of_mem _ h.dHist, dDur := ?_, memHist := by simp, histOk := ?_ }
    · refine ⟨sorted_insertAll hvf, ?_, ?_⟩
      · intro e he
        show e ∈ (s.buf.replaceMem d tail).mem
        rw [hmem']
        rcases (mem_insertAll hvf hsorted_tail).mp he with he | ⟨he, _⟩
        · exact List.mem_append_right _ he
        · have := List.mem_filter.mp he
          exact List.mem_append_left _ (List.mem_filter.mpr ⟨h.vol.sub e this.1, this.2⟩)
      · intro e he hd
        have he' : e ∈ s.buf.mem.filter (fun e => decide (e.index < d)) ++ tail := by rw [← hmem']; exact he
        have hd' : e.index ≤ min s.buf.durable (d - 1) := by rw [← hdur']; exact hd
        rcases List.mem_append.mp he' with he' | he'
        · have hm := List.mem_filter.mp he'
          refine (mem_insertAll hvf hsorted_tail).mpr (Or.inr ⟨List.mem_filter.mpr ⟨h.vol.dur e hm.1 (by omega), hm.2⟩, ?_⟩)
          intro x hx
          have := (contigFrom_mem hc hx).1
          have := hm.2
          simp only [decide_eq_true_eq] at this
          omega
        · have := (contigFrom_mem hc he').1; omega
    · show (s.buf.replaceMem d tail).durable ≤ (s.buf.replaceMem d tail).top
      unfold Buf.top; rw [hdur', hlast']; omega
    · show max (min s.pendingMax (d - 1)) (lastIdx tail) ≤ (s.buf.replaceMem d tail).top
      unfold Buf.top; rw [hlast']; omega
    · intro e he hd
      have he' : e ∈ s.buf.mem.filter (fun e => decide (e.index < d)) ++ tail := by rw [← hmem']; exact he
      have hd' : e.index ≤ min s.buf.durable (d - 1) := by rw [← hdur']; exact hd
      rcases List.mem_append.mp he' with he' | he'
      · exact h.dDur e (List.mem_filter.mp he').1 (by omega)
      · have := (contigFrom_mem hc he').1; omega
    · intro x hx
      rcases List.mem_cons.mp hx with rfl | hx
      · exact contig_hist_of_inv hrep.1
      · exact h.histOk x hx
  · intro hn e he
    have he' : e ∈ s.buf.mem.filter (fun e => decide (e.index < d)) ++ tail := by rw [← hmem']; exact he
    rcases List.mem_append.mp he' with he' | he'
    · have hm := List.mem_filter.mp he'
      refine (mem_insertAll hvf hsorted_tail).mpr (Or.inr ⟨List.mem_filter.mpr ⟨h.full hn e hm.1, hm.2⟩, ?_⟩)
      intro x hx
      have := (contigFrom_mem hc hx).1
      have := hm.2
      simp only [decide_eq_true_eq] at this
      omega
    · exact (mem_insertAll hvf hsorted_tail).mpr (Or.inl he')

end DEngine.BufLog

namespace DEngine.BufLog

theorem purgeMem_durable (b : Buf) (ci ct : Nat) :
    (b.purgeMem ci ct).durable = if b.durable ≤ ci then ci else b.durable := by
  simp only [Buf.purgeMem, Buf.removeRange, Buf.removeBy]
  by_cases h : b.durable ≤ ci
  · simp [h]
  · simp [h]

theorem core_after_purge {s : Sys} {hist : List (List Entry)} (h : StoreOk s hist) {ci : Nat} (ct : Nat)
    (hci : s.buf.purgedI ≤ ci) :
    let s2 := ({ s with buf := s.buf.purgeMem ci ct, queue := [] } : Sys).handleCmd (.purge ci ct)
    Core s2 (s2.buf.mem :: hist) ∧ s2.queue = [] ∧ s2.notify = s.notify ∧ s2.timerDue = false ∧
    (s.notify = false → ∀ e ∈ s2.buf.mem, e ∈ s2.store.v.ents) ∧ s2.buf = s.buf.purgeMem ci ct := by
  have hp := h.inv.purgeMem ct hci
  have hmem' : (s.buf.purgeMem ci ct).mem = s.buf.mem.filter (fun e => decide (ci < e.index)) := by
    have := congrArg Plain.ents hp.2.1; simpa [Buf.abs, Plain.purge] using this
  have hpi' : (s.buf.purgeMem ci ct).purgedI = ci := by
    have := congrArg Plain.anchorI hp.2.1; simpa [Buf.abs, Plain.purge] using this
  have hdur' := purgeMem_durable s.buf ci ct
  have hsm' : Sorted (s.buf.purgeMem ci ct).mem := by
    rw [hmem']; exact (sorted_of_contig h.inv.contig).filter _
  -- the last entry survives the purge when it lies above the cutoff
  have hkeep : ci < lastIdx s.buf.mem → lastIdx s.buf.mem ≤ lastIdx (s.buf.purgeMem ci ct).mem := by
    intro hlt
    have hne : s.buf.mem ≠ [] := by intro he; rw [he] at hlt; simp at hlt
    obtain ⟨l, hl, hli⟩ := lastIdx_mem_of_ne hne
    have : l ∈ (s.buf.purgeMem ci ct).mem := by
      rw [hmem']; exact List.mem_filter.mpr ⟨hl, by simp; omega⟩
    have := lastIdx_max_of_sorted hsm' this
    omega
  simp only [Sys.handleCmd, Sys.stPurge, Img.purge, h.file, Option.map_none]
  refine ⟨?_, by simp, by simp, by simp [h.timer], ?_, by simp⟩
  · refine { file := by simp, alive := h.alive, inv := hp.1, vol := ?_, dTop := ?_, pTop := ?_,
             dHist := List.mem_cons_of_mem _ h.dHist, dDur := ?_, memHist := by simp, histOk := ?_ }
    · refine ⟨h.vol.sorted.filter _, ?_, ?_⟩
      · intro e he
        show e ∈ (s.buf.purgeMem ci ct).mem
        rw [hmem']
        have := List.mem_filter.mp he
        exact List.mem_filter.mpr ⟨h.vol.sub e this.1, this.2⟩
      · intro e he hd
        have he' : e ∈ s.buf.mem.filter (fun e => decide (ci < e.index)) := by rw [← hmem']; exact he
        have hm := List.mem_filter.mp he'
        have hgt : ci < e.index := by simpa using hm.2
        have hd' : e.index ≤ (if s.buf.durable ≤ ci then ci else s.buf.durable) := by rw [← hdur']; exact hd
        by_cases hle : s.buf.durable ≤ ci
        · rw [if_pos hle] at hd'; omega
        · rw [if_neg hle] at hd'
          exact List.mem_filter.mpr ⟨h.vol.dur e hm.1 hd', hm.2⟩
    · show (s.buf.purgeMem ci ct).durable ≤ (s.buf.purgeMem ci ct).top
      unfold Buf.top
      rw [hdur', hpi']
      by_cases hle : s.buf.durable ≤ ci
      · rw [if_pos hle]; omega
      · rw [if_neg hle]
        have := h.dTop
        unfold Buf.top at this
        have hlt : ci < lastIdx s.buf.mem := by omega
        have := hkeep hlt
        omega
    · show s.pendingMax ≤ (s.buf.purgeMem ci ct).top
      unfold Buf.top
      rw [hpi']
      have := h.pTop
      unfold Buf.top at this
      by_cases hlt : ci < lastIdx s.buf.mem
      · have := hkeep hlt; omega
      · omega
    · intro e he hd
      have he' : e ∈ s.buf.mem.filter (fun e => decide (ci < e.index)) := by rw [← hmem']; exact he
      have hm := List.mem_filter.mp he'
      have hgt : ci < e.index := by simpa using hm.2
      have hd' : e.index ≤ (if s.buf.durable ≤ ci then ci else s.buf.durable) := by rw [← hdur']; exact hd
      by_cases hle : s.buf.durable ≤ ci
      · rw [if_pos hle] at hd'; omega
      · rw [if_neg hle] at hd'
        exact h.dDur e hm.1 hd'
    · intro x hx
      rcases List.mem_cons.mp hx with rfl | hx
      · exact contig_hist_of_inv hp.1
      · exact h.histOk x hx
  · intro hn e he
    have he' : e ∈ s.buf.mem.filter (fun e => decide (ci < e.index)) := by rw [← hmem']; exact he
    have hm := List.mem_filter.mp he'
    exact List.mem_filter.mpr ⟨h.full hn e hm.1, hm.2⟩

theorem core_after_reset {s : Sys} {hist : List (List Entry)} (h : StoreOk s hist) :
    let s2 := ({ s with buf := s.buf.resetMem, queue := [] } : Sys).handleCmd .reset
    Core s2 (s2.buf.mem :: hist) ∧ s2.queue = [] ∧ s2.notify = s.notify ∧ s2.timerDue = false ∧
    (∀ e ∈ s2.buf.mem, e ∈ s2.store.v.ents) ∧ s2.buf = s.buf.resetMem := by
  have hr := h.inv.resetMem
  simp only [Sys.handleCmd, Sys.stReset, Img.reset, h.file, Option.map_none]
  refine ⟨?_, by simp, by simp, by simp [h.timer], by simp [Buf.resetMem], by simp⟩
  exact { file := by simp, alive := h.alive, inv := hr.1,
          vol := ⟨Sorted.nil, by simp, by simp [Buf.resetMem]⟩,
          dTop := by simp [Buf.resetMem], pTop := by simp,
          dHist := List.mem_cons_of_mem _ h.dHist, dDur := by simp [Buf.resetMem], memHist := by simp,
          histOk := by intro x hx
                       rcases List.mem_cons.mp hx with rfl | hx
                       · exact ⟨0, by simp [Buf.resetMem]⟩
                       · exact h.histOk x hx }

end DEngine.BufLog

namespace DEngine.BufLog

/-! ### one operation, default schedule -/

/-- the default schedule: command arm first, then notify, then timer; no tick forced while an operation waits -/
def Sched.plain (sch : Sched) : Bool := sch.prio == defaultPrio && !sch.clock

def Op.plainSched : Op → Bool
  | .fca _ _ _ s => s.plain
  | .purge _ _ s => s.plain
  | .reset s => s.plain
  | .flush s => s.plain
  | .io s => s.prio == defaultPrio
  | .close _ => false
  | .crash _ => false
  | _ => true

theorem StoreOk.shrink {s : Sys} {hist : List (List Entry)} {x : List Entry} (hx : x ∈ hist)
    (h : StoreOk s (x :: hist)) : StoreOk s hist :=
  have sub : ∀ y, y ∈ x :: hist → y ∈ hist := fun y hy => by
    rcases List.mem_cons.mp hy with rfl | hy
    · exact hx
    · exact hy
  { file := h.file, queue := h.queue, timer := h.timer, alive := h.alive, inv := h.inv, vol := h.vol, full := h.full,
    closed := h.closed, dTop := h.dTop, pTop := h.pTop, dHist := sub _ h.dHist, dDur := h.dDur,
    memHist := sub _ h.memHist, histOk := fun y hy => h.histOk y (List.mem_cons_of_mem _ hy) }

theorem StoreOk.sameBuf_mem {s : Sys} {b : Buf} (h : SameBuf b s.buf) : s.buf.mem = b.mem ∧ s.buf.purgedI = b.purgedI ∧
    s.buf.segs = b.segs := by
  obtain ⟨d, n, hd⟩ := h
  rw [hd]; exact ⟨rfl, rfl, rfl⟩

theorem ioRun_cmd_first (s : Sys) (c : IOCmd) (rest : List IOCmd) (hq : s.queue = c :: rest) (ha : s.alive = true) :
    s.ioRun defaultPrio = Sys.ioRunN 7 (s.ioArm .cmd) defaultPrio := by
  simp [Sys.ioRun, Sys.ioRunN, Sys.pickArm, defaultPrio, Sys.armEnabled, hq, ha]

theorem plain_eq {sch : Sched} (h : sch.plain = true) : sch.prio = defaultPrio ∧ sch.clock = false := by
  simp only [Sched.plain, Bool.and_eq_true, beq_iff_eq, Bool.not_eq_true'] at h
  exact h

/-- the common tail of the operations that wait: after the command arm, finish the IO run -/
theorem blocking_finish {s1 s2 : Sys} {hist : List (List Entry)} {c : IOCmd} (hq1 : s1.queue = [c]) (ha : s1.alive = true)
    (harm : s1.ioArm .cmd = s2) (hc : Core s2 hist) (hq : s2.queue = [])
    (hfull : s2.notify = false → s2.timerDue = false → ∀ e ∈ s2.buf.mem, e ∈ s2.store.v.ents) :
    StoreOk (s1.ioRun defaultPrio) hist ∧ SameBuf s2.buf (s1.ioRun defaultPrio).buf := by
  rw [ioRun_cmd_first s1 c [] hq1 ha, harm]
  exact finish_ok 5 hc hq hfull

theorem execOp_storeOk_fca {s : Sys} {hist : List (List Entry)} (h : StoreOk s hist) (hnil : [] ∈ hist)
    {prevI prevT : Nat} {es : List Entry} {sch : Sched}
    (hwf : wfOp s.buf.abs (.fca prevI prevT es sch) = true) (hplain : sch.plain = true) :
    StoreOk (execOp s (.fca prevI prevT es sch)).1 ((execOp s (.fca prevI prevT es sch)).1.buf.mem :: hist) := by
  obtain ⟨hprio, hclock⟩ := plain_eq hplain
  simp only [execOp, preClock, postClock, hclock, Bool.false_eq_true, if_false, hprio]
  by_cases hr : prevI = 0 ∧ prevT = 0
  · have hdec : fcaDecide s.buf prevI prevT es = (.reset, "fca-reset") := by simp [fcaDecide, hr]
    rw [hdec]
    simp only [wfOp, hr, and_self, if_true, Bool.and_eq_true] at hwf
    have hcr := core_after_reset h
    simp only at hcr
    obtain ⟨hc2, hq2, hn2, ht2, hf2, hb2⟩ := hcr
    have henq : s.resetMain = some { s with buf := s.buf.resetMem, queue := [.reset] } := by
      simp [Sys.resetMain, Sys.enqueue, h.alive, h.queue]
    simp only [henq]
    have hfin := blocking_finish (s1 := { s with buf := s.buf.resetMem, queue := [.reset] }) (c := .reset) rfl h.alive
      (by simp [Sys.ioArm]) hc2 hq2 (fun _ _ => hf2)
    generalize ({ s with buf := s.buf.resetMem, queue := [.reset] } : Sys).ioRun defaultPrio = s3 at hfin ⊢
    obtain ⟨hs3, hsb3⟩ := hfin
    rw [hb2] at hsb3
    obtain ⟨hm3, hp3, hsg3⟩ := StoreOk.sameBuf_mem hsb3
    have hmem2 : (({ s with buf := s.buf.resetMem, queue := [] } : Sys).handleCmd .reset).buf.mem = [] := by rw [hb2]; rfl
    rw [hmem2] at hs3
    have hs3' : StoreOk s3 hist := hs3.shrink hnil
    by_cases hes : es = []
    · subst hes
      have : s3.append [] = s3 := by simp [Sys.append]
      rw [this]
      exact hs3'.mono _ (contig_hist_of_inv hs3'.inv)
    · refine hs3'.appendTail hes hwf.2 ⟨s.buf.purgedI + 1, by simpa [Buf.abs] using hwf.1, ?_, ?_, ?_⟩
      · rw [hm3]; simp [Buf.resetMem]
      · rw [hm3]; simp [Buf.resetMem]
      · intro _; rw [hp3]; simp [Buf.resetMem]
  · simp only [wfOp, hr, if_false, Bool.and_eq_true] at hwf
    have hspec := h.inv.fcaDecide_spec (prevI := prevI) (prevT := prevT) (es := es) hwf.1.1 hwf.1.2 hwf.2 hr
    generalize hdec : fcaDecide s.buf prevI prevT es = dec at hspec ⊢
    obtain ⟨plan, tag⟩ := dec
    cases plan with
    | reset => exact absurd hspec hr
    | mismatch => exact h.mono _ (contig_hist_of_inv h.inv)
    | noop => exact h.mono _ (contig_hist_of_inv h.inv)
    | appendTail tail =>
      simp only [FcaSpec] at hspec
      obtain ⟨hne, hlen, _, hpos, hk, _⟩ := hspec
      exact h.appendTail hne hpos hk
    | replace d tail =>
      simp only [FcaSpec] at hspec
      obtain ⟨htne, hlen, _, hpos, hd1, hd2, hne, hc, _⟩ := hspec
      have hcr := core_after_replace h htne hd1 hd2 hne hc hpos
      simp only at hcr
      obtain ⟨hc2, hq2, hn2, ht2, hf2, hb2⟩ := hcr
      have henq : ({ s with buf := s.buf.replaceMem d tail } : Sys).enqueue (.replace d tail) =
          some { s with buf := s.buf.replaceMem d tail, queue := [.replace d tail] } := by
        simp [Sys.enqueue, h.alive, h.queue]
      simp only [henq]
      have hfin := blocking_finish (s1 := { s with buf := s.buf.replaceMem d tail, queue := [.replace d tail] })
        (c := .replace d tail) rfl h.alive (by simp [Sys.ioArm]) hc2 hq2
        (fun hn _ => hf2 (by rw [← hn2]; exact hn))
      generalize ({ s with buf := s.buf.replaceMem d tail, queue := [.replace d tail] } : Sys).ioRun defaultPrio = s3 at hfin ⊢
      obtain ⟨hs3, hsb3⟩ := hfin
      obtain ⟨hm3, _, _⟩ := StoreOk.sameBuf_mem hsb3
      rw [hm3]
      exact hs3

end DEngine.BufLog

namespace DEngine.BufLog

theorem execOp_storeOk_purge {s : Sys} {hist : List (List Entry)} (h : StoreOk s hist) {ci ct : Nat} {sch : Sched}
    (hwf : wfOp s.buf.abs (.purge ci ct sch) = true) (hplain : sch.plain = true) :
    StoreOk (execOp s (.purge ci ct sch)).1 ((execOp s (.purge ci ct sch)).1.buf.mem :: hist) := by
  obtain ⟨hprio, hclock⟩ := plain_eq hplain
  simp only [execOp, preClock, postClock, hclock, Bool.false_eq_true, if_false, hprio]
  have hci : s.buf.purgedI ≤ ci := by
    simp only [wfOp, decide_eq_true_eq] at hwf; exact hwf
  have hcr := core_after_purge h ct hci
  simp only at hcr
  obtain ⟨hc2, hq2, hn2, ht2, hf2, hb2⟩ := hcr
  have henq : s.purgeMain ci ct = some { s with buf := s.buf.purgeMem ci ct, queue := [.purge ci ct] } := by
    simp [Sys.purgeMain, Sys.enqueue, h.alive, h.queue]
  simp only [henq]
  have hfin := blocking_finish (s1 := { s with buf := s.buf.purgeMem ci ct, queue := [.purge ci ct] })
    (c := .purge ci ct) rfl h.alive (by simp [Sys.ioArm]) hc2 hq2 (fun hn _ => hf2 (by rw [← hn2]; exact hn))
  generalize ({ s with buf := s.buf.purgeMem ci ct, queue := [.purge ci ct] } : Sys).ioRun defaultPrio = s3 at hfin ⊢
  obtain ⟨hs3, hsb3⟩ := hfin
  obtain ⟨hm3, _, _⟩ := StoreOk.sameBuf_mem hsb3
  rw [hm3]
  exact hs3

theorem execOp_storeOk_reset {s : Sys} {hist : List (List Entry)} (h : StoreOk s hist) {sch : Sched}
    (hplain : sch.plain = true) :
    StoreOk (execOp s (.reset sch)).1 ((execOp s (.reset sch)).1.buf.mem :: hist) := by
  obtain ⟨hprio, hclock⟩ := plain_eq hplain
  simp only [execOp, preClock, postClock, hclock, Bool.false_eq_true, if_false, hprio]
  have hcr := core_after_reset h
  simp only at hcr
  obtain ⟨hc2, hq2, hn2, ht2, hf2, hb2⟩ := hcr
  have henq : s.resetMain = some { s with buf := s.buf.resetMem, queue := [.reset] } := by
    simp [Sys.resetMain, Sys.enqueue, h.alive, h.queue]
  simp only [henq]
  have hfin := blocking_finish (s1 := { s with buf := s.buf.resetMem, queue := [.reset] }) (c := .reset) rfl h.alive
    (by simp [Sys.ioArm]) hc2 hq2 (fun _ _ => hf2)
  generalize ({ s with buf := s.buf.resetMem, queue := [.reset] } : Sys).ioRun defaultPrio = s3 at hfin ⊢
  obtain ⟨hs3, hsb3⟩ := hfin
  obtain ⟨hm3, _, _⟩ := StoreOk.sameBuf_mem hsb3
  rw [hm3]
  exact hs3

theorem execOp_storeOk_flush {s : Sys} {hist : List (List Entry)} (h : StoreOk s hist) {sch : Sched}
    (hplain : sch.plain = true) :
    StoreOk (execOp s (.flush sch)).1 ((execOp s (.flush sch)).1.buf.mem :: hist) := by
  obtain ⟨hprio, hclock⟩ := plain_eq hplain
  simp only [execOp, preClock, postClock, hclock, Bool.false_eq_true, if_false, hprio]
  unfold Sys.flushMain
  by_cases h0 : s.buf.maxIdx = 0
  · simp only [h0, if_true]; exact h.mono _ (contig_hist_of_inv h.inv)
  · simp only [h0, if_false]
    by_cases h1 : s.buf.maxIdx ≤ s.buf.durable
    · simp only [h1, if_true]; exact h.mono _ (contig_hist_of_inv h.inv)
    · simp only [h1, if_false]
      have henq : s.enqueue .flush = some { s with queue := [.flush] } := by simp [Sys.enqueue, h.alive, h.queue]
      simp only [henq, Option.map_some]
      have hc0 : Core { s with queue := [] } (s.buf.mem :: hist) := by
        have hc := h.core.mono _ (contig_hist_of_inv h.inv) (Or.inl rfl)
        exact { file := hc.file, alive := hc.alive, inv := hc.inv, vol := hc.vol, dTop := hc.dTop, pTop := hc.pTop,
                dHist := hc.dHist, dDur := hc.dDur, memHist := hc.memHist, histOk := hc.histOk }
      obtain ⟨hc2, hf2, _, hsb2, _, hq2, _, _⟩ := hc0.pf
      have hfin := blocking_finish (s1 := { s with queue := [.flush] }) (c := .flush) rfl h.alive
        (ioArm_cmd_flush _ rfl) hc2 (by rw [hq2]) (fun _ _ => hf2)
      generalize ({ s with queue := [.flush] } : Sys).ioRun defaultPrio = s3 at hfin ⊢
      obtain ⟨hs3, hsb3⟩ := hfin
      obtain ⟨hm3, _, _⟩ := StoreOk.sameBuf_mem (hsb2.trans hsb3)
      rw [hm3]
      exact hs3

theorem execOp_storeOk_io {s : Sys} {hist : List (List Entry)} (h : StoreOk s hist) {sch : Sched}
    (hprio : sch.prio = defaultPrio) :
    StoreOk (execOp s (.io sch)).1 ((execOp s (.io sch)).1.buf.mem :: hist) := by
  simp only [execOp, hprio]
  have hc1 : Core (preClock s sch) (s.buf.mem :: hist) := by
    have hc := h.core.mono _ (contig_hist_of_inv h.inv) (Or.inl rfl)
    unfold preClock
    split
    · exact { file := hc.file, alive := hc.alive, inv := hc.inv, vol := hc.vol, dTop := hc.dTop, pTop := hc.pTop,
              dHist := hc.dHist, dDur := hc.dDur, memHist := hc.memHist, histOk := hc.histOk }
    · exact hc
  have hq1 : (preClock s sch).queue = [] := by unfold preClock; split <;> exact h.queue
  have hfull : (preClock s sch).notify = false → (preClock s sch).timerDue = false →
      ∀ e ∈ (preClock s sch).buf.mem, e ∈ (preClock s sch).store.v.ents := by
    unfold preClock; split
    · intro hn _; exact h.full hn
    · intro hn _; exact h.full hn
  have hb1 : (preClock s sch).buf = s.buf := by unfold preClock; split <;> rfl
  have hfin := finish_ok 6 hc1 hq1 hfull
  have he : (preClock s sch).ioRun defaultPrio = Sys.ioRunN (6 + 2) (preClock s sch) defaultPrio := rfl
  rw [he]
  obtain ⟨hs3, hsb3⟩ := hfin
  obtain ⟨hm3, _, _⟩ := StoreOk.sameBuf_mem hsb3
  rw [hm3, hb1]
  exact hs3

/-- **Preservation of the invariant between operations** (reference store, default schedule). -/
theorem execOp_storeOk {s : Sys} {hist : List (List Entry)} (h : StoreOk s hist) (hnil : [] ∈ hist) {op : Op}
    (hwf : wfOp s.buf.abs op = true) (hplain : op.plainSched = true) :
    StoreOk (execOp s op).1 ((execOp s op).1.buf.mem :: hist) := by
  cases op with
  | append es =>
    simp only [wfOp, Bool.and_eq_true] at hwf
    simp only [execOp]
    by_cases hes : es = []
    · subst hes
      have : s.append [] = s := by simp [Sys.append]
      rw [this]; exact h.mono _ (contig_hist_of_inv h.inv)
    · obtain ⟨h1, h2, h3⟩ := next_hyps h.inv
      exact h.appendTail hes hwf.2 ⟨_, hwf.1, h1, h2, h3⟩
  | fca prevI prevT es sch => exact execOp_storeOk_fca h hnil hwf hplain
  | purge ci ct sch => exact execOp_storeOk_purge h hwf hplain
  | reset sch => exact execOp_storeOk_reset h hplain
  | flush sch => exact execOp_storeOk_flush h hplain
  | alloc n =>
    simp only [execOp, Buf.alloc]
    by_cases hn : n = 0
    · simp only [hn, if_true]
      have : ({ s with buf := s.buf } : Sys) = s := rfl
      rw [this]; exact h.mono _ (contig_hist_of_inv h.inv)
    · simp only [hn, if_false]
      exact (h.withNextId _).mono _ (contig_hist_of_inv h.inv)
  | get lo hi => simp only [execOp]; exact h.mono _ (contig_hist_of_inv h.inv)
  | io sch =>
    simp only [Op.plainSched, beq_iff_eq] at hplain
    exact execOp_storeOk_io h hplain
  | close sch => simp [Op.plainSched] at hplain
  | crash p => simp [Op.plainSched] at hplain

end DEngine.BufLog
