/-
  Client-write bookkeeping of the leader (C10): `pending_client_writes` → (commit) → `pending_write_apply` →
  (ApplyCompleted) → success answer.  Invariant `WInv`: whatever waits in these queues was created by this leader in
  its current term and is in its log; whatever waits for the apply — and whatever has been answered with success —
  is covered by a recorded commit of that leader.
-/
import DEngine.Lemmas.ClusterKeep
namespace DEngine.Cluster

def committedB (c : Cluster) (e : Entry) (t : Nat) : Bool := c.commits.any fun p => p.1 == t && p.2.contains e

def entryOfWrite (nd : Node) (w : Nat × Nat) : Entry := ⟨w.1, nd.term, w.2 + 1⟩

structure WInv (c : Cluster) : Prop where
  pending : ∀ i w, w ∈ (c.nodes i).pendingWrites ∨ w ∈ (c.nodes i).pendingApply →
    (c.nodes i).role = .leader ∧ entryOfWrite (c.nodes i) w ∈ (c.nodes i).log
  applied : ∀ i w, w ∈ (c.nodes i).pendingApply → committedB c (entryOfWrite (c.nodes i) w) (c.nodes i).term = true
  acked : ∀ a ∈ c.acked, committedB c a.1 a.2 = true

theorem winv_init (n cap : Nat) : WInv (Cluster.init n cap) := by
  refine ⟨?_, ?_, ?_⟩ <;> simp [Cluster.init]

theorem committedB_mono {c c' : Cluster} (h : ∀ p ∈ c.commits, p ∈ c'.commits) {e : Entry} {t : Nat}
    (hc : committedB c e t = true) : committedB c' e t = true := by
  unfold committedB at *
  rw [List.any_eq_true] at *
  obtain ⟨p, hp, hpp⟩ := hc
  exact ⟨p, h p hp, hpp⟩

/-- how one node's write queues may change in a step that is not a commit advance of that node -/
def PendRel (nd nd' : Node) : Prop :=
  (nd'.pendingWrites = [] ∧ nd'.pendingApply = []) ∨
  (nd'.pendingWrites = nd.pendingWrites ∧ nd'.pendingApply = nd.pendingApply ∧ nd'.role = nd.role ∧
    (nd.role = .leader → nd'.term = nd.term ∧ ∀ e ∈ nd.log, e ∈ nd'.log))

theorem pendRel_refl (nd : Node) : PendRel nd nd := Or.inr ⟨rfl, rfl, rfl, fun _ => ⟨rfl, fun _ h => h⟩⟩

/-- a step whose nodes are all `PendRel`-related, commits only grow, acked unchanged: invariant preserved -/
theorem winv_of_pendRel {c c' : Cluster} (h : WInv c) (hcm : ∀ p ∈ c.commits, p ∈ c'.commits)
    (hack : c'.acked = c.acked) (hn : ∀ i, PendRel (c.nodes i) (c'.nodes i)) : WInv c' := by
  refine ⟨?_, ?_, ?_⟩
  · intro i w hw
    rcases hn i with ⟨h1, h2⟩ | ⟨h1, h2, h3, h4⟩
    · rw [h1, h2] at hw; simp at hw
    · rw [h1, h2] at hw
      obtain ⟨hr, hl⟩ := h.pending i w hw
      obtain ⟨ht, hsub⟩ := h4 hr
      refine ⟨by rw [h3]; exact hr, ?_⟩
      have : entryOfWrite (c'.nodes i) w = entryOfWrite (c.nodes i) w := by simp [entryOfWrite, ht]
      rw [this]; exact hsub _ hl
  · intro i w hw
    rcases hn i with ⟨_, h2⟩ | ⟨_, h2, _, h4⟩
    · rw [h2] at hw; simp at hw
    · rw [h2] at hw
      obtain ⟨hr, _⟩ := h.pending i w (Or.inr hw)
      obtain ⟨ht, _⟩ := h4 hr
      have : entryOfWrite (c'.nodes i) w = entryOfWrite (c.nodes i) w := by simp [entryOfWrite, ht]
      rw [this, ht]
      exact committedB_mono hcm (h.applied i w hw)
  · intro a ha
    rw [hack] at ha
    exact committedB_mono hcm (h.acked a ha)

theorem winv_update1 {c c' : Cluster} (h : WInv c) (i : NodeId) (nd' : Node)
    (hn : c'.nodes = setNode c.nodes i nd') (hcm : ∀ p ∈ c.commits, p ∈ c'.commits) (hack : c'.acked = c.acked)
    (hq : PendRel (c.nodes i) nd') : WInv c' := by
  apply winv_of_pendRel h hcm hack
  intro j
  rw [hn]
  by_cases hj : j = i
  · subst hj; simpa using hq
  · rw [setNode_other _ _ hj]; exact pendRel_refl _

-- ------------------------------------------------------------------------------------------ handlers
theorem becomeFollower_pend (n : Node) : PendRel n (becomeFollower n) := by
  unfold becomeFollower
  split
  · exact pendRel_refl n
  · exact Or.inl ⟨rfl, rfl⟩

theorem pendRel_cleared_then {a b c : Node} (h : PendRel a b) (hb : b.pendingWrites = [] ∧ b.pendingApply = [])
    (hc : c.pendingWrites = b.pendingWrites ∧ c.pendingApply = b.pendingApply) : PendRel a c := by
  exact Or.inl ⟨by rw [hc.1, hb.1], by rw [hc.2, hb.2]⟩

theorem becomeFollower_lists (n : Node) (hr : n.role ≠ .follower) :
    (becomeFollower n).pendingWrites = [] ∧ (becomeFollower n).pendingApply = [] := by
  unfold becomeFollower
  split
  · next h => simp at h; exact absurd h hr
  · exact ⟨rfl, rfl⟩

theorem onVoteRequest_pend (n : Node) (r : VoteReq) : PendRel n (onVoteRequest n r).1 := by
  unfold onVoteRequest
  split
  · next hr => exact Or.inr ⟨rfl, rfl, rfl, fun h => by rw [hr] at h; cases h⟩
  · next hr =>
    split
    · have := becomeFollower_lists { n with term := r.term } (by simp [hr])
      exact Or.inl ⟨this.1, this.2⟩
    · exact pendRel_refl n
  · next hr =>
    split
    · have := becomeFollower_lists { n with term := r.term } (by simp [hr])
      exact Or.inl ⟨this.1, this.2⟩
    · exact pendRel_refl n

theorem followerAppend_lists (n : Node) (r : AeReq) :
    (followerAppend n r).1.pendingWrites = n.pendingWrites ∧ (followerAppend n r).1.pendingApply = n.pendingApply := by
  unfold followerAppend
  split
  · exact ⟨rfl, rfl⟩
  · cases checkAppendLegal n.term n.log r <;> exact ⟨rfl, rfl⟩

theorem onAppendEntries_pend (n : Node) (r : AeReq) : PendRel n (onAppendEntries n r).1 := by
  unfold onAppendEntries
  split
  · next hr =>
    have hl := followerAppend_lists n r
    exact Or.inr ⟨hl.1, hl.2, followerAppend_role n r, fun h => by rw [hr] at h; cases h⟩
  · next hr =>
    split
    · have hb := becomeFollower_lists { n with term := if r.term > n.term then r.term else n.term } (by simp [hr])
      have hl := followerAppend_lists (becomeFollower { n with term := if r.term > n.term then r.term else n.term }) r
      exact Or.inl ⟨by rw [hl.1, hb.1], by rw [hl.2, hb.2]⟩
    · exact pendRel_refl n
  · next hr =>
    split
    · exact pendRel_refl n
    · have hb := becomeFollower_lists { n with term := r.term } (by simp [hr])
      have hl := followerAppend_lists (becomeFollower { n with term := r.term }) r
      exact Or.inl ⟨by rw [hl.1, hb.1], by rw [hl.2, hb.2]⟩

theorem stepDown_lists (n : Node) (t : Nat) (hr : n.role = .leader) :
    (stepDown n t).pendingWrites = [] ∧ (stepDown n t).pendingApply = [] :=
  becomeFollower_lists { n with term := t } (by simp [hr])

-- ------------------------------------------------------------------------------------------ commit advance
/-- what `applyLeaderCommit` does to the queues -/
theorem applyLeaderCommit_queues (n : Node) :
    (applyLeaderCommit n).1 = n ∨
    ∃ cm, leaderCommit n = some cm ∧ (applyLeaderCommit n).1.commit = cm ∧ n.commit < cm ∧
      (applyLeaderCommit n).1.role = n.role ∧ (applyLeaderCommit n).1.term = n.term ∧ (applyLeaderCommit n).1.log = n.log ∧
      (applyLeaderCommit n).1.pendingWrites = n.pendingWrites.filter (fun w => w.1 > cm) ∧
      (applyLeaderCommit n).1.pendingApply = n.pendingApply ++ n.pendingWrites.filter (fun w => w.1 ≤ cm) := by
  unfold applyLeaderCommit
  cases h : leaderCommit n with
  | none => left; rfl
  | some cm =>
    right
    refine ⟨cm, rfl, rfl, ?_, rfl, rfl, rfl, rfl, rfl⟩
    unfold leaderCommit at h
    simp only [] at h
    split at h
    · simp at h
    · split at h
      · split at h
        · next hgt => have := Option.some.inj h; omega
        · simp at h
      · simp at h

/-- a leader node whose commit index advances, followed by `recordCommit`: invariant preserved -/
theorem winv_commit {c : Cluster} (h : WInv c) (i : NodeId) (nd1 : Node) (msgs : List (Nat × Msg))
    (hrole : nd1.role = (c.nodes i).role) (hterm : nd1.term = (c.nodes i).term) (hlog : nd1.log = (c.nodes i).log)
    (hpw : nd1.pendingWrites = (c.nodes i).pendingWrites) (hpa : nd1.pendingApply = (c.nodes i).pendingApply) :
    WInv (recordCommit { c with nodes := setNode c.nodes i (applyLeaderCommit nd1).1, msgs := msgs } i nd1.commit) := by
  rcases applyLeaderCommit_queues nd1 with hsame | ⟨cm, _, hcm, hlt, hr, ht, hl, hw, ha⟩
  · -- nothing advanced
    have hrc : ∀ p ∈ c.commits, p ∈ (recordCommit { c with nodes := setNode c.nodes i (applyLeaderCommit nd1).1, msgs := msgs } i nd1.commit).commits := by
      intro p hp; unfold recordCommit; split
      · exact List.mem_cons_of_mem _ hp
      · exact hp
    refine winv_update1 h i (applyLeaderCommit nd1).1 (by rw [recordCommit_nodes]) hrc ?_ ?_
    · unfold recordCommit; split <;> rfl
    · rw [hsame]
      exact Or.inr ⟨hpw, hpa, hrole, fun _ => ⟨hterm, by rw [hlog]; exact fun _ h => h⟩⟩
  · -- commit advanced to cm: the moved writes are covered by the recorded prefix
    let c1 : Cluster := { c with nodes := setNode c.nodes i (applyLeaderCommit nd1).1, msgs := msgs }
    have hnode : c1.nodes i = (applyLeaderCommit nd1).1 := by simp [c1]
    have hcommits_sub : ∀ p ∈ c.commits, p ∈ (recordCommit c1 i nd1.commit).commits := by
      intro p hp; unfold recordCommit; split
      · exact List.mem_cons_of_mem _ hp
      · exact hp
    refine ⟨?_, ?_, ?_⟩
    · intro j w hw'
      rw [recordCommit_nodes] at hw' ⊢
      by_cases hj : j = i
      · subst hj
        rw [hnode] at hw' ⊢
        have hwold : w ∈ (c.nodes j).pendingWrites ∨ w ∈ (c.nodes j).pendingApply := by
          rw [hw, ha, hpw, hpa] at hw'
          rcases hw' with h1 | h1
          · exact Or.inl (List.mem_filter.mp h1).1
          · rcases List.mem_append.mp h1 with h2 | h2
            · exact Or.inr h2
            · exact Or.inl (List.mem_filter.mp h2).1
        obtain ⟨hro, hle⟩ := h.pending j w hwold
        refine ⟨by rw [hr, hrole]; exact hro, ?_⟩
        have : entryOfWrite (applyLeaderCommit nd1).1 w = entryOfWrite (c.nodes j) w := by simp [entryOfWrite, ht, hterm]
        rw [this, hl, hlog]; exact hle
      · show _ ∧ _
        have : c1.nodes j = c.nodes j := by simp [c1, setNode_other _ _ hj]
        rw [this] at hw' ⊢
        exact h.pending j w hw'
    · intro j w hw'
      rw [recordCommit_nodes] at hw' ⊢
      by_cases hj : j = i
      · subst hj
        rw [hnode] at hw' ⊢
        rw [ha, hpa, hpw] at hw'
        have hte : entryOfWrite (applyLeaderCommit nd1).1 w = entryOfWrite (c.nodes j) w := by simp [entryOfWrite, ht, hterm]
        rw [hte, ht, hterm]
        rcases List.mem_append.mp hw' with h2 | h2
        · exact committedB_mono hcommits_sub (h.applied j w h2)
        · -- newly moved: in the recorded prefix
          have hwm := List.mem_filter.mp h2
          obtain ⟨hro, hle⟩ := h.pending j w (Or.inl hwm.1)
          unfold committedB recordCommit
          have hcond : ((c1.nodes j).role == Role.leader && decide ((c1.nodes j).commit > nd1.commit)) = true := by
            rw [hnode, hr, hrole, hro, hcm]; simp; exact hlt
          rw [if_pos hcond]
          rw [List.any_eq_true]
          refine ⟨_, List.mem_cons_self, ?_⟩
          rw [hnode, ht, hterm, hl, hlog, hcm]
          simp only [beq_self_eq_true, Bool.true_and]
          rw [List.contains_iff_mem, List.mem_filter]
          refine ⟨hle, ?_⟩
          have h5 := hwm.2
          simp only [entryOfWrite]
          exact h5
      · have : c1.nodes j = c.nodes j := by simp [c1, setNode_other _ _ hj]
        rw [this] at hw' ⊢
        exact committedB_mono hcommits_sub (h.applied j w hw')
    · intro a ha'
      have : (recordCommit c1 i nd1.commit).acked = c.acked := by unfold recordCommit; split <;> rfl
      rw [this] at ha'
      exact committedB_mono hcommits_sub (h.acked a ha')

end DEngine.Cluster
