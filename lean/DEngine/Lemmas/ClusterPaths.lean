/-
  Per-path lemmas for log matching (C04): every way a log or an AppendEntries request is produced keeps it a
  ghost chain.  `reset_chain`, `fast_chain`, `slow_chain` = the paths of `filter_out_conflicts_and_append`;
  `build_chain` = `build_append_request`; `append_chain` = the leader's own append; truncation = prefix.
-/
import DEngine.Lemmas.ClusterLog
namespace DEngine.Cluster

theorem getLast?_eq_get (l : Log) : l.getLast? = l[l.length - 1]? := by
  rw [List.getLast?_eq_getElem?]

theorem endT_of_get {l : Log} {pt : Nat} {x : Entry} (h : l[l.length - 1]? = some x) : endT pt l = x.term := by
  simp [endT, getLast?_eq_get, h]

theorem endI_of_get {l : Log} {pi : Nat} {x : Entry} (h : l[l.length - 1]? = some x) : endI pi l = x.index := by
  simp [endI, getLast?_eq_get, h]

/-- what `entryTerm l q = some T` means on a chain -/
theorem entryTerm_some_chain {g : List GRec} {l : Log} (hc : Chain g l) {q T : Nat} (h : entryTerm l q = some T) :
    1 ≤ q ∧ q ≤ l.length ∧ ∃ x, l[q - 1]? = some x ∧ x.term = T := by
  rw [entryTerm_chain hc] at h
  split at h
  · simp at h
  · next hq =>
    cases hx : l[q - 1]? with
    | none => simp [hx] at h
    | some x =>
      simp [hx] at h
      have := (List.getElem?_eq_some_iff.mp hx).1
      exact ⟨by omega, by omega, x, rfl, h⟩

/-- a prefix of a chain ends where it was cut -/
theorem chain_take_end {g : List GRec} {l : Log} (hc : Chain g l) {q : Nat} {x : Entry} (hq : 1 ≤ q)
    (hx : l[q - 1]? = some x) : endI 0 (l.take q) = q ∧ endT 0 (l.take q) = x.term := by
  have hlen := (List.getElem?_eq_some_iff.mp hx).1
  have hl : (l.take q).length = q := by simp; omega
  have hget : (l.take q)[(l.take q).length - 1]? = some x := by
    rw [hl, List.getElem?_take]; simp [hx]; omega
  have hi := endI_chain (chainFrom_take hc q)
  exact ⟨by rw [hi, hl]; omega, endT_of_get hget⟩

/-- the whole chain ends at its length -/
theorem chain_end {g : List GRec} {l : Log} (hc : Chain g l) {x : Entry} (hx : l[l.length - 1]? = some x) :
    endI 0 l = l.length ∧ endT 0 l = x.term :=
  ⟨by have := endI_chain hc; omega, endT_of_get hx⟩

-- ------------------------------------------------------------------------------------------ follower accept
/-- reset path: prev = (0,0) replaces the log by the request's entries, which hang below (0,0). -/
theorem reset_chain {g : List GRec} {es : Log} (he : ChainFrom g 0 0 es) : Chain g es := he

/-- common core of the fast and slow paths: `l` cut after index `q` (or whole) followed by the part of the request
    that starts at index q+1 is a chain, as soon as l's entry at q carries the term the request expects there. -/
theorem splice_chain {g : List GRec} {l tl : Log} {q T : Nat} (hl : Chain g l)
    (hq : entryTerm l q = some T) (htl : ChainFrom g q T tl) : Chain g (l.take q ++ tl) := by
  obtain ⟨h1, _, x, hx, hxT⟩ := entryTerm_some_chain hl hq
  have he := chain_take_end hl h1 hx
  exact chainFrom_append.mpr ⟨chainFrom_take hl q, by rw [he.1, he.2, hxT]; exact htl⟩

/-- position (index, term) reached after the first `m` entries of a request hanging below (pi, pt) -/
theorem chainFrom_split {g : List GRec} {es : Log} {pi pt : Nat} (he : ChainFrom g pi pt es) (m : Nat) :
    ChainFrom g (endI pi (es.take m)) (endT pt (es.take m)) (es.drop m) := chainFrom_drop he m

theorem takeWhile_eq_take (p : Entry → Bool) (es : Log) : es.takeWhile p = es.take (es.takeWhile p).length := by
  induction es with
  | nil => simp
  | cons e es ih =>
    by_cases h : p e
    · simp [h]; exact ih
    · simp [h]

theorem mem_takeWhile_pred (p : Entry → Bool) : ∀ (es : Log) (x : Entry), x ∈ es.takeWhile p → p x = true := by
  intro es
  induction es with
  | nil => intro x h; simp at h
  | cons e es ih =>
    intro x h
    by_cases hp : p e
    · simp [hp] at h
      rcases h with h | h
      · subst h; exact hp
      · exact ih x h
    · simp [hp] at h

theorem dropWhile_eq_drop (p : Entry → Bool) (es : Log) : es.dropWhile p = es.drop (es.takeWhile p).length := by
  induction es with
  | nil => simp
  | cons e es ih =>
    by_cases h : p e
    · simp [h]; exact ih
    · simp [h]

/-- all entries of a request hanging below (pi, _) have index > pi, increasing -/
theorem chainFrom_index_mem {g : List GRec} {es : Log} {pi pt : Nat} (he : ChainFrom g pi pt es) {e : Entry}
    (h : e ∈ es) : pi < e.index := by
  obtain ⟨k, hk⟩ := List.getElem?_of_mem h
  have := (chainFrom_get he hk).1; omega

theorem endI_takeWhile_le {g : List GRec} {es : Log} {pi pt last : Nat} (he : ChainFrom g pi pt es) (hpi : pi ≤ last) :
    endI pi (es.takeWhile (fun e => decide (e.index ≤ last))) ≤ last := by
  unfold endI
  cases h : (es.takeWhile (fun e => decide (e.index ≤ last))).getLast? with
  | none => exact hpi
  | some x =>
    have hm : x ∈ es.takeWhile (fun e => decide (e.index ≤ last)) := List.mem_of_getLast? h
    have := mem_takeWhile_pred _ _ _ hm
    simpa using this

/-- fast path: the overlap is skipped, the tail (first index > last) is appended. -/
theorem fast_chain {g : List GRec} {l es : Log} {pi pt : Nat} (hl : Chain g l) (he : ChainFrom g pi pt es)
    (hprev : entryTerm l pi = some pt)
    (hsafe : overlapSafe l (es.takeWhile (fun e => decide (e.index ≤ lastIndex l))) = true)
    (hne : (es.dropWhile (fun e => decide (e.index ≤ lastIndex l))) ≠ []) :
    Chain g (l ++ es.dropWhile (fun e => decide (e.index ≤ lastIndex l))) := by
  obtain ⟨hp1, hp2, x, hx, hxT⟩ := entryTerm_some_chain hl hprev
  have hlast := lastIndex_chain hl
  rw [hlast] at hsafe hne ⊢
  let p : Entry → Bool := fun e => decide (e.index ≤ l.length)
  have htw := takeWhile_eq_take p es
  have hdw := dropWhile_eq_drop p es
  have hsplit := chainFrom_split he (es.takeWhile p).length
  rw [← htw, ← hdw] at hsplit
  -- the tail starts right after l
  obtain ⟨t0, ts, hts⟩ : ∃ t0 ts, es.dropWhile p = t0 :: ts := by
    cases h : es.dropWhile p with
    | nil => exact absurd h hne
    | cons a b => exact ⟨a, b, rfl⟩
  have ht0 : ¬ (p t0 = true) := by
    have := List.head?_dropWhile_not p es
    rw [hts] at this
    simpa using this
  have hle := endI_takeWhile_le (last := l.length) he hp2
  have hstart : endI pi (es.takeWhile p) = l.length := by
    rw [hts] at hsplit
    have h1 := hsplit.1
    have : ¬ t0.index ≤ l.length := by simpa [p] using ht0
    have hle' : endI pi (es.takeWhile p) ≤ l.length := hle
    omega
  -- term at the junction
  have hlen1 : 1 ≤ l.length := by omega
  obtain ⟨y, hy⟩ : ∃ y, l[l.length - 1]? = some y := by
    have : l.length - 1 < l.length := by omega
    exact ⟨l[l.length - 1], List.getElem?_eq_getElem this⟩
  have hend := chain_end hl hy
  have hterm : endT pt (es.takeWhile p) = y.term := by
    cases hov : (es.takeWhile p).getLast? with
    | none =>
      -- empty overlap: pi = last, and l's entry at pi has term pt
      have hnil : es.takeWhile p = [] := by simpa [List.getLast?_eq_none_iff] using hov
      have hpi : pi = l.length := by simpa [hnil, endI] using hstart
      subst hpi
      rw [hx] at hy
      have : x = y := by simpa using hy
      simp [endT, hov, ← this, hxT]
    | some la =>
      have hnn : es.takeWhile p ≠ [] := by
        intro h; simp [h] at hov
      obtain ⟨f, hf⟩ : ∃ f, (es.takeWhile p).head? = some f := by
        cases h : es.takeWhile p with
        | nil => exact absurd h hnn
        | cons a b => exact ⟨a, rfl⟩
      have hs := hsafe
      simp only [overlapSafe] at hs
      rw [hf, hov] at hs
      simp at hs
      have : lastTermOf l = y.term := by rw [lastTermOf_eq_endT]; exact hend.2
      simp [endT, hov]; omega
  refine chainFrom_append.mpr ⟨hl, ?_⟩
  rw [hend.1, hend.2]
  rw [hstart, hterm] at hsplit
  exact hsplit

/-- characterisation of the first diverging position in the slow path -/
theorem findIdx_spec (p : Entry → Bool) : ∀ (es : Log) (pos : Nat), es.findIdx? p = some pos →
    pos < es.length ∧ (∀ x, es[pos]? = some x → p x = true) ∧ ∀ j x, j < pos → es[j]? = some x → p x = false := by
  intro es pos h
  rw [List.findIdx?_eq_some_iff_getElem] at h
  obtain ⟨hlt, hp, hnot⟩ := h
  refine ⟨hlt, ?_, ?_⟩
  · intro x hx
    have := (List.getElem?_eq_some_iff.mp hx).2
    rw [← this]; exact hp
  · intro j x hj hx
    have hjl : j < es.length := by omega
    have := (List.getElem?_eq_some_iff.mp hx).2
    rw [← this]
    have := hnot j hj
    simpa using this

/-- slow path (both sub-cases): everything before the first diverging position agrees in term with `l`, so the log
    cut after index q = pi + pos followed by the rest of the request is a chain. -/
theorem slow_chain {g : List GRec} {l es : Log} {pi pt pos : Nat} (hl : Chain g l) (he : ChainFrom g pi pt es)
    (hprev : entryTerm l pi = some pt)
    (hpos : es.findIdx? (fun e => e.index > lastIndex l || entryTerm l e.index != some e.term) = some pos) :
    Chain g (l.take (pi + pos) ++ es.drop pos) ∧
      (∀ d, (es.drop pos).head?.map (·.index) = some d → d = pi + pos + 1) ∧ pi + pos ≤ l.length := by
  obtain ⟨hlt, _, hbefore⟩ := findIdx_spec _ es pos hpos
  have hsplit := chainFrom_split he pos
  have htl : (es.take pos).length = pos := by simp; omega
  have hendI : endI pi (es.take pos) = pi + pos := by
    have := endI_chain (chainFrom_take he pos); rw [this, htl]
  -- the entry of l at index pi + pos carries the expected term
  have hq : entryTerm l (pi + pos) = some (endT pt (es.take pos)) := by
    cases pos with
    | zero => simpa [endT] using hprev
    | succ j =>
      have hjl : j < es.length := by omega
      have hje : es[j]? = some es[j] := List.getElem?_eq_getElem hjl
      have hidx := (chainFrom_get he hje).1
      have hb := hbefore j es[j] (by omega) hje
      simp at hb
      have hlastget : (es.take (j + 1))[(es.take (j + 1)).length - 1]? = some es[j] := by
        rw [htl, List.getElem?_take]; simp [hje]
      rw [endT_of_get hlastget]
      have : pi + (j + 1) = es[j].index := by omega
      rw [this]; exact hb.2
  have hle := (entryTerm_some_chain hl hq).2.1
  refine ⟨?_, ?_, hle⟩
  · apply splice_chain hl hq
    rw [hendI] at hsplit; exact hsplit
  · intro d hd
    have hpe : es[pos]? = some es[pos] := List.getElem?_eq_getElem hlt
    have hidx := (chainFrom_get he hpe).1
    have : (es.drop pos).head? = some es[pos] := by
      rw [List.head?_drop]; exact hpe
    rw [this] at hd
    simp at hd
    omega

/-- `filter_out_conflicts_and_append` keeps a chain a chain (all paths). -/
theorem accept_chain {g : List GRec} {l es : Log} {pi pt : Nat} (hl : Chain g l) (he : ChainFrom g pi pt es) :
    Chain g (acceptEntries l pi pt es).1 := by
  unfold acceptEntries
  split
  · next h0 =>
    simp at h0
    obtain ⟨h1, h2⟩ := h0
    subst h1; subst h2
    exact reset_chain he
  · split
    · exact hl
    · next hprev =>
      simp at hprev
      simp only []
      split
      · next hsafe =>
        split
        · exact hl
        · next hne =>
          apply fast_chain hl he hprev hsafe
          intro h; simp [h] at hne
      · split
        · exact hl
        · next pos hpos =>
          obtain ⟨hc, hd, hle⟩ := slow_chain hl he hprev hpos
          have hlast := lastIndex_chain hl
          have hlt := (findIdx_spec _ es pos hpos).1
          have hpe : es[pos]? = some es[pos] := List.getElem?_eq_getElem hlt
          have hhead : (es.drop pos).head? = some es[pos] := by rw [List.head?_drop]; exact hpe
          have hdv := hd es[pos].index (by simp [hhead])
          simp only [hhead]
          split
          · next hdle =>
            -- conflict: truncate from d = pi + pos + 1
            show Chain g (l.filter (fun e => decide (e.index < es[pos].index)) ++ es.drop pos)
            rw [filter_lt_chain hl, hdv]
            simpa using hc
          · next hdgt =>
            show Chain g (l ++ es.drop pos)
            rw [hlast] at hdgt
            have : pi + pos = l.length := by omega
            rw [this, List.take_length] at hc
            exact hc

-- ------------------------------------------------------------------------------------------ leader side
/-- `build_append_request` over entries taken from the leader's own log: the contiguous run hangs below
    (prev, term of the leader's entry at prev). -/
theorem contiguous_chain {g : List GRec} {l : Log} (hl : Chain g l) :
    ∀ (X : Log) (pI : Nat), (∀ e ∈ X, e ∈ l) →
      ChainFrom g pI ((entryTerm l pI).getD 0) (contiguousFrom (pI + 1) X) := by
  intro X
  induction X with
  | nil => intro pI _; simp [contiguousFrom, ChainFrom]
  | cons e X ih =>
    intro pI hmem
    unfold contiguousFrom
    split
    · next hidx =>
      simp at hidx
      have hel : e ∈ l := hmem e (by simp)
      have hg := chain_mem_get hl hel
      have hpos : l[pI]? = some e := by
        have := hg.1; rw [hidx] at this; simpa using this
      have hrec := (chainFrom_get hl hpos).2
      refine ⟨hidx, ?_, ?_⟩
      · have hpt : predTerm 0 l pI = (entryTerm l pI).getD 0 := by
          rw [entryTerm_chain hl]
          unfold predTerm
          split
          · simp
          · cases l[pI - 1]? <;> simp
        rw [← hpt]; exact hrec
      · have hnext := ih (pI + 1) (fun x hx => hmem x (by simp [hx]))
        have : (entryTerm l (pI + 1)).getD 0 = e.term := by
          rw [entryTerm_chain hl]; simp [hpos]
        rw [this] at hnext
        rw [hidx]; exact hnext
    · trivial

theorem build_chain {g : List GRec} {log : Log} (hl : Chain g log) (me term commit lastBefore cap : Nat) (newEs : Log)
    (hnew : ∀ e ∈ newEs, e ∈ log) (p : Peer) :
    let r := buildAppendRequest me log term commit lastBefore cap newEs p
    ChainFrom g r.prevI r.prevT r.entries := by
  simp only [buildAppendRequest]
  apply contiguous_chain hl
  intro e he
  rw [List.mem_append] at he
  rcases he with he | he
  · split at he
    · exact (List.mem_filter.mp he).1
    · simp at he
  · exact hnew e he

/-- the leader's own append at last+1 -/
theorem append_chain {g : List GRec} {l : Log} (hl : Chain g l) (t p : Nat) :
    Chain (g ++ [⟨lastIndex l + 1, t, p, lastTermOf l⟩]) (l ++ [⟨lastIndex l + 1, t, p⟩]) := by
  refine chainFrom_append.mpr ⟨chainFrom_mono (by intro r hr; simp [hr]) hl, ?_⟩
  have hi := endI_chain hl
  rw [lastIndex_chain hl, lastTermOf_eq_endT]
  simp only [ChainFrom]
  refine ⟨by omega, by simp, trivial⟩

/-- a fresh record keeps the ghost map functional -/
theorem gfun_append {g : List GRec} (hg : GFun g) (r : GRec) (hfresh : ∀ a ∈ g, a.term = r.term → a.index ≠ r.index) :
    GFun (g ++ [r]) := by
  intro a ha b hb hi ht
  simp at ha hb
  rcases ha with ha | ha <;> rcases hb with hb | hb
  · exact hg a ha b hb hi ht
  · subst hb; exact absurd hi (hfresh a ha ht)
  · subst ha; exact absurd hi.symm (hfresh b hb ht.symm)
  · rw [ha, hb]

/-- truncation (crash image, conflict truncation) = prefix -/
theorem truncate_chain {g : List GRec} {l : Log} (hl : Chain g l) (k : Nat) :
    Chain g (l.filter (fun e => e.index ≤ k)) := by
  rw [filter_le_chain hl]; exact chainFrom_take hl k

end DEngine.Cluster
