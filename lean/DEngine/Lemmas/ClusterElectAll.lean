/-
  `step_einv`: every step of the cluster model preserves the election invariant; `election_safety`: hence no term ever
  has two leaderships, and log matching (C04) holds without hypothesis.
-/
import DEngine.Lemmas.ClusterElectStep
namespace DEngine.Cluster

theorem tally_higher (n : Nat) (req : VoteReq) : ∀ (l : List VoteResp) (s t : Nat),
    tally n req l s = .higherTerm t → req.term < t := by
  intro l
  induction l with
  | nil => intro s t h; simp only [tally] at h; split at h <;> cases h
  | cons r l ih =>
    intro s t h
    simp only [tally] at h
    split at h
    · exact ih _ _ h
    · split at h
      · next hlt => cases h; exact hlt
      · split at h
        · cases h
        · exact ih _ _ h

theorem same_msgs {c : Cluster} (h : EInv c) : ∀ x ∈ c.msgs, ∀ r, aeOf x.2 = some r → (r.term, r.leader) ∈ c.leaderTerms := h.msgs

theorem removeMsg_keep {c : Cluster} (h : EInv c) (m : Nat) :
    ∀ x ∈ (removeMsg c m).msgs, ∀ r, aeOf x.2 = some r → (r.term, r.leader) ∈ c.leaderTerms :=
  fun x hx r hr => h.msgs x (removeMsg_sub c m hx) r hr

theorem einv_recordCommit {c : Cluster} (h : EInv c) (i : NodeId) (b : Nat) : EInv (recordCommit c i b) := by
  unfold recordCommit
  split
  · exact einv_frame h rfl rfl rfl (fun _ => ⟨rfl, rfl, rfl⟩) h.msgs
  · exact h

theorem ready_no_election {n : Node} (h : n.ready = true) : n.election = none := by
  simp only [Node.ready, Node.blocked, Bool.and_eq_true, Bool.not_eq_true', Option.isSome_eq_false_iff,
    Option.isNone_iff_eq_none] at h
  exact h.2

/-- stage 1 of a vote request: the voter `b` handles it (grant or denial) -/
theorem einv_voteReq1 {c : Cluster} (h : EInv c) (a b : NodeId) (el : Election)
    (hel : (c.nodes a).election = some el) (hvb : c.valid b = true) (hready : (c.nodes b).ready = true) :
    EInv { c with nodes := setNode c.nodes b (onVoteRequest (c.nodes b) el.req).1,
                  grants := if (onVoteRequest (c.nodes b) el.req).2.1.granted then (b, el.req.term, a) :: c.grants
                            else c.grants } := by
  obtain ⟨hterm, helec, hgrant, hdeny⟩ := onVoteRequest_el (c.nodes b) el.req
  have hnone : (onVoteRequest (c.nodes b) el.req).1.election = none := by rw [helec]; exact ready_no_election hready
  obtain ⟨e1, e2, e3, e4, e5, e6, e7⟩ := h.elect a el hel
  cases hgr : (onVoteRequest (c.nodes b) el.req).2.1.granted
  · simp only [Bool.false_eq_true, if_false]
    refine einv_relax h b _ rfl rfl rfl rfl hterm (Or.inr hnone) ?_ h.msgs
    rcases hdeny hgr with hv | hv
    · exact Or.inl hv
    · exact Or.inr (Or.inl hv)
  · simp only [if_true]
    obtain ⟨ht, hv, hold⟩ := hgrant hgr
    refine einv_grant1 h b a _ rfl rfl rfl ?_ hvb hterm ?_ ?_ ?_ h.msgs
    · simp only []; rw [ht]
    · rw [hv, ht, e2]
    · intro g hg hgb hgt
      rw [ht] at hgt
      have h1 := h.gterm g hg
      rw [hgb] at h1
      rw [ht] at hterm
      have hbt : (c.nodes b).term = el.req.term := by omega
      obtain ⟨w, hw1, hw2, hw3⟩ := h.gvote g hg (by rw [hgb, hbt]; exact hgt)
      rw [hgb] at hw1
      have hwid := hold hbt w hw1 (by rw [hw2]; exact hgt)
      rw [e2] at hwid
      rcases hw3 with hw3 | hw3
      · rw [← hw3]; exact hwid
      · exfalso
        have := h.cvote b w hw1 hw3
        rw [hwid, hw2, hgt] at this
        have := e4 _ this
        omega
    · intro el2 hel2; rw [hnone] at hel2; cases hel2

def queueReply (el : Election) (b : NodeId) (r : VoteResp) : Election :=
  { el with delivered := b :: el.delivered, replies := el.replies ++ [(b, r)] }

def withElection (n : Node) (e : Option Election) : Node := { n with election := e }

/-- a vote request is delivered: `b` handles it, the candidate `a` queues the reply -/
theorem einv_voteReq {c : Cluster} (h : EInv c) (a b : NodeId) (el : Election)
    (hel : (c.nodes a).election = some el) (hvb : c.valid b = true) (hready : (c.nodes b).ready = true)
    (hab : a ≠ b) (hdel : b ∉ el.delivered) :
    EInv { c with nodes := setNode (setNode c.nodes b (onVoteRequest (c.nodes b) el.req).1) a
                    (withElection (c.nodes a) (some (queueReply el b (onVoteRequest (c.nodes b) el.req).2.1))),
                  grants := if (onVoteRequest (c.nodes b) el.req).2.1.granted then (b, el.req.term, a) :: c.grants
                            else c.grants } := by
  have h1 := einv_voteReq1 h a b el hel hvb hready
  have hna : setNode c.nodes b (onVoteRequest (c.nodes b) el.req).1 a = c.nodes a := setNode_other _ _ hab
  refine einv_set_election h1 a (some (queueReply el b (onVoteRequest (c.nodes b) el.req).2.1)) rfl ?_ rfl rfl rfl ?_
  · simp only []; rw [hna]; rfl
  · intro el' hel'
    cases hel'
    have hok := h1.elect a el (by simp only []; rw [hna]; exact hel)
    unfold ElectOK at hok ⊢
    obtain ⟨e1, e2, e3, e4, e5, e6, e7⟩ := hok
    have hpnot : b ∉ (el.replies ++ el.collected).map (·.1) := by
      intro hm
      obtain ⟨x, hx, hxb⟩ := List.mem_map.mp hm
      exact hdel (hxb ▸ (e7 x hx).2.1)
    refine ⟨e1, e2, e3, e4, e5, nodup_insert_reply _ _ _ _ e6 hpnot, ?_⟩
    intro x hx
    simp only [queueReply, List.append_assoc, List.mem_append, List.mem_cons, List.not_mem_nil, or_false] at hx
    rcases hx with hx | hx | hx
    · have := e7 x (List.mem_append_left _ hx)
      exact ⟨this.1, List.mem_cons_of_mem _ this.2.1, this.2.2⟩
    · subst hx
      refine ⟨fun hba => hab hba.symm, List.mem_cons_self, ?_⟩
      intro hgr
      simp only [] at hgr ⊢
      rw [if_pos hgr]
      simp only [] at e1
      rw [← e1]
      exact List.mem_cons_self
    · have := e7 x (List.mem_append_right _ hx)
      exact ⟨this.1, List.mem_cons_of_mem _ this.2.1, this.2.2⟩

theorem step_einv {c : Cluster} (hI : Inv c) (h : EInv c) (e : Event) : EInv (step c e).1 := by
  cases e with
  | tick i =>
    simp only [step]; unfold stepTick; dsimp only
    split
    · exact h
    · next hen =>
      split
      · exact frame_update1 h i _ rfl rfl rfl rfl ⟨rfl, rfl, rfl⟩ h.msgs
      · next hrole =>
        split
        · exact h
        · -- candidate starts an election: term+1, vote for itself
          have hv : c.valid i = true := by
            cases hvv : c.valid i
            · simp [hvv] at hen
            · rfl
          refine einv_grant1 h i i (startElection i (c.nodes i)) rfl rfl rfl ?_ hv ?_ ?_ ?_ ?_ h.msgs
          · simp [startElection]
          · simp [startElection]
          · simp [startElection]
          · intro g hg hgi hgt
            have := h.gterm g hg
            rw [hgi] at this
            simp [startElection] at hgt
            omega
          · intro el hel
            simp only [startElection] at hel
            cases hel
            unfold ElectOK
            simp only [setNode_same, startElection]
            refine ⟨trivial, trivial, hv, ?_, List.mem_cons_self, by simp, by simp⟩
            intro t ht
            have := h.lterm _ ht
            simp only [] at this
            omega
      · next hrole => exact einv_leaderRound hI h i none hrole
  | voteReq a b =>
    simp only [step]; unfold stepVoteReq; dsimp only
    split
    · next el hel =>
      split
      · exact h
      · next hen =>
        simp only [Bool.not_eq_false, Bool.and_eq_true, bne_iff_ne, ne_eq,
          List.contains_eq_mem, decide_eq_false_iff_not, Bool.not_eq_eq_eq_not, Bool.not_true] at hen
        obtain ⟨⟨⟨⟨⟨_, _⟩, hvb⟩, hready⟩, hab⟩, hdel⟩ := hen
        exact einv_voteReq h a b el hel hvb hready hab hdel
    · exact h
  | voteResp a b =>
    simp only [step]; unfold stepVoteResp; dsimp only
    split
    · next el hel =>
      split
      · next p0 r hfind =>
        split
        · exact h
        · have hmem := List.mem_of_find?_eq_some hfind
          have hp0 : p0 = b := by
            have := List.find?_some hfind
            simpa using this
          subst hp0
          refine einv_set_election h a _ rfl rfl rfl rfl rfl ?_
          intro el' hel'
          cases hel'
          have hok := h.elect a el hel
          unfold ElectOK at hok ⊢
          obtain ⟨e1, e2, e3, e4, e5, e6, e7⟩ := hok
          refine ⟨e1, e2, e3, e4, e5, nodup_move_reply _ _ _ _ e6 hmem, ?_⟩
          intro x hx
          simp only [List.mem_append, List.mem_filter, List.mem_cons, List.not_mem_nil, or_false] at hx
          rcases hx with hx | hx | hx
          · exact e7 x (List.mem_append_left _ hx.1)
          · exact e7 x (List.mem_append_right _ hx)
          · subst hx; exact e7 _ (List.mem_append_left _ hmem)
      · exact h
    · exact h
  | voteEnd i =>
    simp only [step]; unfold stepVoteEnd; dsimp only
    cases hel : (c.nodes i).election with
    | none => simp only []; exact h
    | some el =>
      simp only []
      by_cases hen : (!(c.valid i && (c.nodes i).up)) = true
      · rw [if_pos hen]; exact h
      · rw [if_neg hen]
        have hdrop : ∀ t, (c.nodes i).term ≤ t →
            EInv { c with nodes := setNode c.nodes i (becomeFollower { (c.nodes i) with election := none, term := t }) } := by
          intro t ht
          have hb := becomeFollower_el { (c.nodes i) with election := none, term := t }
          refine einv_relax h i _ rfl rfl rfl rfl (by rw [hb.1]; exact ht) (Or.inr (by rw [hb.2.1])) ?_ h.msgs
          rcases hb.2.2 with hv | hv
          · exact Or.inl hv
          · exact Or.inr (Or.inl ⟨hv.1, by rw [hb.1]; exact hv.2⟩)
        have hnone : EInv { c with nodes := setNode c.nodes i { (c.nodes i) with election := none } } :=
          einv_relax h i _ rfl rfl rfl rfl (Nat.le_refl _) (Or.inr rfl) (Or.inl rfl) h.msgs
        cases htally : tally c.n el.req (el.collected.map (·.2)) 1 with
        | won =>
          simp only []
          have hfresh := won_term_fresh h i el hel htally
          have hIb := inv_becomeLeader hI i (asLeader i c.n (c.nodes i)) rfl hfresh
          have hEb := einv_becomeLeader h i el hel htally
          have hr := einv_leaderRound hIb hEb i (some 0) (by simp [asLeader])
          simp only [setNode_same] at hr
          have heq : leaderRound { c with nodes := setNode c.nodes i (asLeader i c.n (c.nodes i)),
                                          leaderTerms := ((asLeader i c.n (c.nodes i)).term, i) :: c.leaderTerms }
                i (asLeader i c.n (c.nodes i)) (some 0)
              = leaderRound { c with leaderTerms := ((c.nodes i).term, i) :: c.leaderTerms } i
                  (asLeader i c.n (c.nodes i)) (some 0) := by
            simp only [leaderRound, addMsgs, setNode_setNode]
            rfl
          rw [heq] at hr
          exact hr
        | higherTerm t =>
          simp only []
          have hlt := tally_higher _ _ _ _ _ htally
          have het := (h.elect i el hel).1
          exact hdrop t (by omega)
        | logConflict => simp only []; exact hnone
        | noQuorum => simp only []; exact hnone
  | write i x =>
    simp only [step]; unfold stepWrite; dsimp only
    split
    · exact h
    · split
      · next hrole =>
        simp at hrole
        have h1 := einv_leaderRound hI h i (some (x + 1)) hrole
        exact frame_update1 h1 i _ rfl rfl rfl rfl ⟨rfl, rfl, rfl⟩ h1.msgs
      · exact h
  | deliverAe m =>
    simp only [step]; unfold stepDeliverAe; dsimp only
    split
    · next src dst sid req reply hfm =>
      split
      · exact h
      · next hen =>
        obtain ⟨y, hy, hyx⟩ := findMsg_mem hfm
        have hreq : (req.term, req.leader) ∈ c.leaderTerms := h.msgs y hy req (by rw [hyx]; rfl)
        have hready : (c.nodes dst).ready = true := by
          cases hr : (c.nodes dst).ready
          · simp [hr] at hen
          · rfl
        obtain ⟨hel, hcase⟩ := onAppendEntries_el (c.nodes dst) req
        have hnone : (onAppendEntries (c.nodes dst) req).1.election = none := by rw [hel]; exact ready_no_election hready
        have hterm : (c.nodes dst).term ≤ (onAppendEntries (c.nodes dst) req).1.term := by
          rcases hcase with hc | hc
          · rw [hc.1]; exact Nat.le_refl _
          · rw [hc.2.1]; exact hc.1
        have hvote : VoteRelax c (c.nodes dst) (onAppendEntries (c.nodes dst) req).1 := by
          rcases hcase with hc | hc
          · exact Or.inl hc.2
          · exact Or.inr (Or.inr ⟨req.leader, by rw [hc.2.2, hc.2.1], by rw [hc.2.1]; exact hreq⟩)
        split
        · refine einv_relax h dst _ rfl rfl rfl rfl hterm (Or.inr hnone) hvote ?_
          intro x hx r hr
          simp only [addMsgs, List.mem_append] at hx
          rcases hx with hx | hx
          · exact h.msgs x (removeMsg_sub c m hx) r hr
          · simp [number] at hx; subst hx; simp [aeOf] at hr
        · refine einv_relax h dst _ rfl rfl rfl rfl hterm (Or.inr hnone) hvote ?_
          intro x hx r hr
          exact h.msgs x (removeMsg_sub c m hx) r hr
    · exact h
  | deliverResp m =>
    simp only [step]; unfold stepDeliverResp; dsimp only
    have hrem : EInv (removeMsg c m) :=
      einv_frame h rfl rfl rfl (fun _ => ⟨rfl, rfl, rfl⟩) (removeMsg_keep h m)
    split
    · next src dst sid rterm res hfm =>
      split
      · exact hrem
      · next hen =>
        split
        · exact hrem
        · apply einv_recordCommit
          have hready : ((removeMsg c m).nodes dst).ready = true := by
            cases hr : ((removeMsg c m).nodes dst).ready
            · simp [hr] at hen
            · rfl
          obtain ⟨hel, hcase⟩ := onAppendResponse_el ((removeMsg c m).nodes dst) src rterm res
          refine einv_relax hrem dst _ rfl rfl rfl rfl ?_ (Or.inr (by rw [hel]; exact ready_no_election hready)) ?_ hrem.msgs
          · rcases hcase with hc | hc
            · rw [hc.1]; exact Nat.le_refl _
            · exact Nat.le_of_lt hc.1
          · rcases hcase with hc | hc
            · exact Or.inl hc.2
            · rcases hc.2 with hv | hv
              · exact Or.inl hv
              · exact Or.inr (Or.inl hv)
    · exact h
  | drop m =>
    exact einv_frame h rfl rfl rfl (fun _ => ⟨rfl, rfl, rfl⟩) (removeMsg_keep h m)
  | dup m =>
    simp only [step]; unfold stepDup; (try dsimp only)
    split
    · next src dst sid req reply hfm =>
      obtain ⟨y, hy, hyx⟩ := findMsg_mem hfm
      refine einv_frame h rfl rfl rfl (fun _ => ⟨rfl, rfl, rfl⟩) ?_
      intro x hx r hr
      simp only [addMsgs, List.mem_append] at hx
      rcases hx with hx | hx
      · exact h.msgs x hx r hr
      · simp [number] at hx; subst hx
        exact h.msgs y hy r (by rw [hyx]; exact hr)
    · exact h
  | streamErr l p =>
    simp only [step]; unfold stepStreamErr; dsimp only
    split
    · exact h
    · split
      · next q hq =>
        split
        · exact h
        · refine frame_update1 h l _ rfl rfl rfl rfl ⟨rfl, rfl, rfl⟩ ?_
          intro x hx r hr
          simp only [List.mem_map, List.mem_filter] at hx
          obtain ⟨y, ⟨hy, _⟩, hyx⟩ := hx
          refine h.msgs y hy r ?_
          cases hm : y.2 with
          | ae s d sid rq rp =>
            simp only [hm] at hyx
            split at hyx <;> (subst hyx; simp_all [aeOf])
          | resp s d sid t rs =>
            simp only [hm] at hyx
            subst hyx
            rw [hm] at hr; exact hr
      · exact h
  | streamClosed l p =>
    simp only [step]; unfold stepStreamClosed; dsimp only
    split
    · exact h
    · split
      · next q hq =>
        split
        · exact h
        · refine frame_update1 h l _ rfl rfl rfl rfl ⟨rfl, rfl, rfl⟩ ?_
          intro x hx r hr
          simp only [List.mem_map, List.mem_filter] at hx
          obtain ⟨y, ⟨hy, _⟩, hyx⟩ := hx
          refine h.msgs y hy r ?_
          cases hm : y.2 with
          | ae s d sid rq rp =>
            simp only [hm] at hyx
            split at hyx <;> (subst hyx; simp_all [aeOf])
          | resp s d sid t rs =>
            simp only [hm] at hyx
            subst hyx
            rw [hm] at hr; exact hr
      · exact h
  | logFlushed i =>
    simp only [step]; unfold stepLogFlushed; dsimp only
    split
    · exact h
    · split
      · apply einv_recordCommit
        refine frame_update1 h i _ rfl rfl rfl rfl ?_ h.msgs
        simp only [onLogFlushed]
        split
        · simp only [applyLeaderCommit]; split <;> exact ⟨rfl, rfl, rfl⟩
        · exact ⟨rfl, rfl, rfl⟩
      · exact frame_update1 h i _ rfl rfl rfl rfl ⟨rfl, rfl, rfl⟩ h.msgs
  | applyCompleted i k =>
    simp only [step]; unfold stepApplyCompleted; dsimp only
    split
    · exact h
    · split
      · exact frame_update1 h i _ rfl rfl rfl rfl ⟨rfl, rfl, rfl⟩ h.msgs
      · exact h
  | crash i k =>
    simp only [step]; unfold stepDown'; dsimp only
    split
    · exact h
    · split
      · exact h
      · exact einv_relax h i _ rfl rfl rfl rfl (Nat.le_refl _) (Or.inr rfl) (Or.inl rfl) h.msgs
  | stop i =>
    simp only [step]; unfold stepDown'; dsimp only
    split
    · exact h
    · split
      · exact h
      · exact einv_relax h i _ rfl rfl rfl rfl (Nat.le_refl _) (Or.inr rfl) (Or.inl rfl) h.msgs
  | start i =>
    simp only [step]; unfold stepStart; (try dsimp only)
    split
    · exact h
    · exact frame_update1 h i _ rfl rfl rfl rfl ⟨rfl, rfl, rfl⟩ h.msgs
  | nop => exact h

end DEngine.Cluster
