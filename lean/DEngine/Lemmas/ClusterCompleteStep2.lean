/-
  C05, leader completeness: preservation of `HInv`, part 2 (chains above a winner's log, requests, election records).
-/
import DEngine.Lemmas.ClusterCompleteStep1
namespace DEngine.Cluster

variable {c : Cluster} {e : Event} {H : Hist}

theorem ghost_sub (c : Cluster) (e : Event) : ∀ r ∈ c.ghost, r ∈ (step c e).1.ghost := by
  intro r hr
  rcases ghost_step c e with h | ⟨_, _, _, h, _⟩
  · rw [h]; exact hr
  · rw [h]; exact List.mem_append_left _ hr

/-- the chains over the ghost map after a step -/
theorem chains_step (X : Ctx c e) : ∀ l, Chain (step c e).1.ghost l → Chain c.ghost l ∨
    ∃ i0 p, ((step c e).1.nodes i0).role = .leader ∧ l = ((step c e).1.nodes i0).log ∧
      ((step c e).1.nodes i0).log = (c.nodes i0).log ++ [⟨lastIndex (c.nodes i0).log + 1, (c.nodes i0).term, p⟩] ∧
      ((step c e).1.nodes i0).term = (c.nodes i0).term := by
  intro l hl
  rcases ghost_step c e with h | ⟨i0, p, T, hgh, hlog, ht', ht, hrole⟩
  · left; rw [h] at hl; exact hl
  · rcases chains_after_grow X.hI X.hE X.hG e X.hI' hgh hlog ht' ht hrole l hl with h | h
    · exact Or.inl h
    · right
      refine ⟨i0, p, hrole, h, ?_, by rw [ht', ht]⟩
      rw [hlog, ht]

theorem hinv_above (X : Ctx c e) (h : HInv c H) : ∀ l, Chain (step c e).1.ghost l → ∀ y ∈ l, ∀ L,
    (y.term, L) ∈ (histStep c e H).won → ∀ x ∈ L, x ∈ l := by
  have old : ∀ l, Chain c.ghost l → ∀ y ∈ l, ∀ L, (y.term, L) ∈ (histStep c e H).won → ∀ x ∈ L, x ∈ l := by
    intro l hl y hy L hL x hx
    rcases won_cases hL with hL | ⟨i, hw, hp⟩
    · exact h.above l hl y hy L hL x hx
    · exfalso
      obtain ⟨ht, _⟩ := Prod.mk.inj hp
      obtain ⟨q, hq⟩ := mem_chain_rec hl hy
      obtain ⟨j, hj⟩ := X.hI.ghost_term _ hq
      simp only [] at hj
      obtain ⟨_, _, el, hel, hwon, _⟩ := winner_spec hw
      exact won_term_fresh X.hE i el hel hwon j (by rw [← ht]; exact hj)
  intro l hl y hy L hL x hx
  rcases chains_step X l hl with hold | ⟨i0, p, hrole, hleq, hlog, hterm⟩
  · exact old l hold y hy L hL x hx
  · rw [hleq, hlog] at hy
    rcases List.mem_append.mp hy with hy | hy
    · rw [hleq, hlog]
      exact List.mem_append_left _ (old _ (X.hI.logs i0) y hy L hL x hx)
    · simp at hy; subst hy
      simp only [] at hL
      obtain ⟨L0, hL0, hsub⟩ := hinv_lead_won X h i0 hrole
      rw [hterm] at hL0
      have := hinv_wuniq X h _ _ _ hL hL0
      rw [hleq]; exact hsub x (this ▸ hx)

theorem hinv_reqrun (X : Ctx c e) (h : HInv c H) : ∀ m ∈ (step c e).1.msgs, ∀ r, aeOf m.2 = some r →
    ∀ l, Chain (step c e).1.ghost l → ∀ y ∈ l, y.term = r.term → ∀ w ∈ r.entries, w.index ≤ y.index → w ∈ l := by
  intro m hm r hr l hl y hy hyt w hw hwi
  rcases ae_step c e m hm r hr with ⟨x0, hx0, hr0⟩ | ⟨i, ⟨p, cm, lb, newEs, hb, hnew⟩, hrole⟩
  · rcases chains_step X l hl with hold | ⟨i0, p, hrole, hleq, hlog, hterm⟩
    · exact h.reqrun x0 hx0 r hr0 l hold y hy hyt w hw hwi
    · rw [hleq, hlog] at hy ⊢
      rcases List.mem_append.mp hy with hy | hy
      · exact List.mem_append_left _ (h.reqrun x0 hx0 r hr0 _ (X.hI.logs i0) y hy hyt w hw hwi)
      · simp at hy; subst hy
        simp only [] at hyt
        have hmsg := X.hE.msgs x0 hx0 r hr0
        refine List.mem_append_left _ ?_
        rcases leader_cont' c e i0 with hs | hwin
        · obtain ⟨hr0', ht0, _, _⟩ := hs hrole
          have hlt := X.hI.lead_term i0 hr0'
          rw [hyt] at hlt
          have heq := X.hI.uniq _ _ _ hmsg hlt
          have := X.hR.req x0 hx0 r hr0 (by rw [heq]; exact hr0') (by rw [heq]; exact hyt)
          rw [heq] at this
          exact this.1 w hw
        · exfalso
          obtain ⟨_, _, el, hel, hwon, _⟩ := winner_spec hwin
          exact won_term_fresh X.hE i0 el hel hwon r.leader (by rw [hyt]; exact hmsg)
  · have hrt : r.term = ((step c e).1.nodes i).term := by rw [hb]; rfl
    obtain ⟨q, hq⟩ := mem_chain_rec hl hy
    have hyin := X.hG'.leadhas _ hq i hrole (by simp only []; rw [hyt, hrt])
    have hye : (GRec.entry ⟨y.index, y.term, y.payload, q⟩) = y := by cases y; rfl
    rw [hye] at hyin
    have hwin : w ∈ ((step c e).1.nodes i).log := by
      rw [hb] at hw; exact build_sub _ _ _ _ _ _ _ _ hnew w hw
    exact chain_prefix_mem X.hI'.gfun (X.hI'.logs i) hl hyin hy w hwin hwi

theorem hinv_reqwon (X : Ctx c e) (h : HInv c H) : ∀ m ∈ (step c e).1.msgs, ∀ r, aeOf m.2 = some r →
    ∃ ll, Chain (step c e).1.ghost ll ∧ (∀ w ∈ r.entries, w ∈ ll) ∧
      ∀ L, (r.term, L) ∈ (histStep c e H).won → ∀ x ∈ L, x ∈ ll := by
  intro m hm r hr
  rcases ae_step c e m hm r hr with ⟨x0, hx0, hr0⟩ | ⟨i, ⟨p, cm, lb, newEs, hb, hnew⟩, hrole⟩
  · obtain ⟨ll, hll, hsub, hwon⟩ := h.reqwon x0 hx0 r hr0
    refine ⟨ll, chainFrom_mono (ghost_sub c e) hll, hsub, ?_⟩
    intro L hL x hx
    rcases won_cases hL with hL | ⟨i, hw, hp⟩
    · exact hwon L hL x hx
    · exfalso
      obtain ⟨ht, _⟩ := Prod.mk.inj hp
      obtain ⟨_, _, el, hel, hwn, _⟩ := winner_spec hw
      have hmsg := X.hE.msgs x0 hx0 r hr0
      exact won_term_fresh X.hE i el hel hwn r.leader (by rw [← ht]; exact hmsg)
  · refine ⟨((step c e).1.nodes i).log, X.hI'.logs i, ?_, ?_⟩
    · intro w hw; rw [hb] at hw; exact build_sub _ _ _ _ _ _ _ _ hnew w hw
    · intro L hL x hx
      have hrt : r.term = ((step c e).1.nodes i).term := by rw [hb]; rfl
      obtain ⟨L0, hL0, hsub⟩ := hinv_lead_won X h i hrole
      rw [hrt] at hL
      have := hinv_wuniq X h _ _ _ hL hL0
      rw [this] at hx; exact hsub x hx

theorem hinv_elreq (X : Ctx c e) (h : HInv c H) : ∀ i el, ((step c e).1.nodes i).election = some el →
    (el.req.lastIdx, el.req.lastTerm) = lastPair ((step c e).1.nodes i).log ∧
      ∀ y ∈ ((step c e).1.nodes i).log, y.term < el.req.term := by
  intro i el hel
  rcases election_step c e i with hk | ⟨_, _, hnode⟩
  · obtain ⟨el0, hel0, hreq, hlog, _⟩ := hk el hel
    rw [hreq, hlog]; exact h.elreq i el0 hel0
  · rw [hnode] at hel ⊢
    simp only [startElection, Option.some.injEq] at hel
    subst hel
    refine ⟨rfl, ?_⟩
    intro y hy
    have := X.hG.tb i y hy
    simp only [startElection]
    omega

end DEngine.Cluster
