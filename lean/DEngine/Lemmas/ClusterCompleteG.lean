/-
  C05, towards leader completeness: invariant `GInv` — term bounds of logs and requests, shape of the ghost map
  (predecessor terms, a leader holds every record of its term, records of one term are contiguous in every chain).
-/
import DEngine.Lemmas.ClusterCompleteChain
namespace DEngine.Cluster

def GRec.entry (g : GRec) : Entry := ⟨g.index, g.term, g.payload⟩

structure GInv (c : Cluster) : Prop where
  tpos : ∀ j, 1 ≤ (c.nodes j).term
  tb : ∀ j, ∀ x ∈ (c.nodes j).log, x.term ≤ (c.nodes j).term
  rb : ∀ x ∈ c.msgs, ∀ r, aeOf x.2 = some r → ∀ y ∈ r.entries, y.term ≤ r.term
  gpos : ∀ g ∈ c.ghost, 1 ≤ g.term
  gmono : ∀ g ∈ c.ghost, g.pred ≤ g.term
  gpred : ∀ g ∈ c.ghost, g.pred = 0 ∨ ∃ g' ∈ c.ghost, g'.index + 1 = g.index ∧ g'.term = g.pred
  leadhas : ∀ g ∈ c.ghost, ∀ i, (c.nodes i).role = .leader → (c.nodes i).term = g.term → g.entry ∈ (c.nodes i).log
  run : ∀ l, Chain c.ghost l → ∀ y ∈ l, ∀ g ∈ c.ghost, g.term = y.term → g.index ≤ y.index → g.entry ∈ l

theorem ginv_init (n cap : Nat) : GInv (Cluster.init n cap) := by
  refine ⟨?_, ?_, ?_, ?_, ?_, ?_, ?_, ?_⟩ <;> simp [Cluster.init]

/-- no record of the term of a node that leads after the step lies above that node's log -/
theorem no_T_above {c : Cluster} (hI : Inv c) (hE : EInv c) (e : Event) (i0 : NodeId)
    (hrole' : ((step c e).1.nodes i0).role = .leader) (hterm' : ((step c e).1.nodes i0).term = (c.nodes i0).term) :
    ∀ g ∈ c.ghost, g.term = (c.nodes i0).term → g.index ≤ (c.nodes i0).log.length := by
  intro g hg hgt
  rcases leader_cont c e i0 with hs | hw
  · exact hI.lead_max g hg i0 (hs hrole').1 hgt.symm
  · exfalso
    obtain ⟨_, el, hel, hwon⟩ := hw
    obtain ⟨j, hj⟩ := hI.ghost_term g hg
    rw [hgt] at hj
    exact won_term_fresh hE i0 el hel hwon j hj

theorem lastTermOf_mem {l : Log} (h : lastTermOf l ≠ 0) : ∃ y ∈ l, y.term = lastTermOf l ∧ l.getLast? = some y := by
  unfold lastTermOf at h ⊢
  cases hl : l.getLast? with
  | none => simp [hl] at h
  | some y => exact ⟨y, List.mem_of_getLast? hl, by simp, rfl⟩

/-- the chains over the ghost map after a step: chains over the old map, or the log of the leader that created the
    new record -/
theorem chains_after_grow {c : Cluster} (hI : Inv c) (hE : EInv c) (hG : GInv c) (e : Event)
    (hI' : Inv (step c e).1) {i0 p T : Nat}
    (hgh : (step c e).1.ghost = c.ghost ++ [⟨lastIndex (c.nodes i0).log + 1, T, p, lastTermOf (c.nodes i0).log⟩])
    (hlog : ((step c e).1.nodes i0).log = (c.nodes i0).log ++ [⟨lastIndex (c.nodes i0).log + 1, T, p⟩])
    (ht' : ((step c e).1.nodes i0).term = T) (ht : (c.nodes i0).term = T)
    (hrole' : ((step c e).1.nodes i0).role = .leader) :
    ∀ l, Chain (step c e).1.ghost l → Chain c.ghost l ∨ l = ((step c e).1.nodes i0).log := by
  intro l hl
  have hlen := lastIndex_chain (hI.logs i0)
  have habove := no_T_above hI hE e i0 hrole' (by rw [ht', ht])
  by_cases hen : (⟨lastIndex (c.nodes i0).log + 1, T, p⟩ : Entry) ∈ l
  · right
    rw [hlog]
    refine chain_ends_at hI'.gfun (by rw [← hlog]; exact hI'.logs i0) hl hen ?_
    intro r hr hpred hidx
    simp only [] at hpred hidx
    rw [hgh] at hr
    rcases List.mem_append.mp hr with hr | hr
    · rcases hG.gpred r hr with h0 | ⟨g', hg', hgi, hgt⟩
      · have := hG.tpos i0; omega
      · have := habove g' hg' (by rw [hgt, hpred, ht])
        omega
    · simp at hr; subst hr; simp at hidx
  · left
    rw [hgh] at hl
    refine chain_restrict hl ?_
    intro x hx hc
    apply hen
    have : x = ⟨lastIndex (c.nodes i0).log + 1, T, p⟩ := by
      cases x; simp at hc ⊢; exact hc
    rw [← this]; exact hx

theorem step_ginv {c : Cluster} (hI : Inv c) (hE : EInv c) (hG : GInv c) (e : Event) (hI' : Inv (step c e).1) :
    GInv (step c e).1 := by
  have tpos' : ∀ j, 1 ≤ ((step c e).1.nodes j).term := fun j => Nat.le_trans (hG.tpos j) (term_mono hE e j)
  have tb' : ∀ j, ∀ x ∈ ((step c e).1.nodes j).log, x.term ≤ ((step c e).1.nodes j).term := by
    intro j x hx
    rcases entry_step c e j with hown | ⟨m, src, sid, r, rp, he, hf, _, hnode⟩
    · rcases hown x hx with h | h
      · exact Nat.le_trans (hG.tb j x h) (term_mono hE e j)
      · exact Nat.le_of_eq h.1
    · rw [hnode] at hx ⊢
      obtain ⟨y, hy, hyx⟩ := findMsg_mem hf
      rcases onAppendEntries_spec (c.nodes j) r with h | h
      · rw [h.1] at hx
        exact Nat.le_trans (hG.tb j x hx) (onAppendEntries_term _ _)
      · rw [h.2.2.1] at hx
        rcases acceptOrKeep_sub _ _ x hx with h1 | h1
        · exact Nat.le_trans (hG.tb j x h1) (onAppendEntries_term _ _)
        · rw [h.1]; exact hG.rb y hy r (by rw [hyx]; rfl) x h1
  have gstep := ghost_step c e
  refine ⟨tpos', tb', ?_, ?_, ?_, ?_, ?_, ?_⟩
  · -- rb
    intro x hx r hr y hy
    rcases ae_step c e x hx r hr with ⟨x0, hx0, hr0⟩ | ⟨i, ⟨p, cm, lb, newEs, hb, hnew⟩, _⟩
    · exact hG.rb x0 hx0 r hr0 y hy
    · rw [hb] at hy
      have := tb' i y (build_sub _ _ _ _ _ _ _ _ hnew y hy)
      rw [hb]; exact this
  · -- gpos
    intro g hg
    rcases gstep with h | ⟨i0, p, T, hgh, _, _, ht, _⟩
    · rw [h] at hg; exact hG.gpos g hg
    · rw [hgh] at hg
      rcases List.mem_append.mp hg with hg | hg
      · exact hG.gpos g hg
      · simp at hg; subst hg; simp only []; rw [← ht]; exact hG.tpos i0
  · -- gmono
    intro g hg
    rcases gstep with h | ⟨i0, p, T, hgh, _, _, ht, _⟩
    · rw [h] at hg; exact hG.gmono g hg
    · rw [hgh] at hg
      rcases List.mem_append.mp hg with hg | hg
      · exact hG.gmono g hg
      · simp at hg; subst hg; simp only []
        by_cases h0 : lastTermOf (c.nodes i0).log = 0
        · rw [h0]; exact Nat.zero_le _
        · obtain ⟨y, hy, hyt, _⟩ := lastTermOf_mem h0
          rw [← hyt, ← ht]; exact hG.tb i0 y hy
  · -- gpred
    intro g hg
    rcases gstep with h | ⟨i0, p, T, hgh, _, _, ht, _⟩
    · rw [h] at hg ⊢; exact hG.gpred g hg
    · rw [hgh] at hg ⊢
      rcases List.mem_append.mp hg with hg | hg
      · rcases hG.gpred g hg with h | ⟨g', hg', h1, h2⟩
        · exact Or.inl h
        · exact Or.inr ⟨g', List.mem_append_left _ hg', h1, h2⟩
      · simp at hg; subst hg; simp only []
        by_cases h0 : lastTermOf (c.nodes i0).log = 0
        · exact Or.inl h0
        · right
          obtain ⟨y, hy, hyt, hlast⟩ := lastTermOf_mem h0
          obtain ⟨q, hq⟩ := mem_chain_rec (hI.logs i0) hy
          refine ⟨_, List.mem_append_left _ hq, ?_, hyt⟩
          simp only [lastIndex, hlast]
  · -- leadhas
    intro g hg i hrole hterm
    rcases gstep with h | ⟨i0, p, T, hgh, hlog, ht', ht, hrole0⟩
    · rw [h] at hg
      rcases leader_cont c e i with hs | hw
      · obtain ⟨hr0, ht0, new, hl0⟩ := hs hrole
        rw [hl0]
        exact List.mem_append_left _ (hG.leadhas g hg i hr0 (by rw [← ht0]; exact hterm))
      · exfalso
        have htw := wins_term hw
        obtain ⟨_, el, hel, hwon⟩ := hw
        obtain ⟨j, hj⟩ := hI.ghost_term g hg
        rw [← hterm, htw] at hj
        exact won_term_fresh hE i el hel hwon j hj
    · rw [hgh] at hg
      rcases List.mem_append.mp hg with hg | hg
      · rcases leader_cont c e i with hs | hw
        · obtain ⟨hr0, ht0, new, hl0⟩ := hs hrole
          rw [hl0]
          exact List.mem_append_left _ (hG.leadhas g hg i hr0 (by rw [← ht0]; exact hterm))
        · exfalso
          have htw := wins_term hw
          obtain ⟨_, el, hel, hwon⟩ := hw
          obtain ⟨j, hj⟩ := hI.ghost_term g hg
          rw [← hterm, htw] at hj
          exact won_term_fresh hE i el hel hwon j hj
      · simp at hg; subst hg
        simp only [] at hterm
        have hi : i = i0 := by
          have h1 := hI'.lead_term i hrole
          have h2 := hI'.lead_term i0 hrole0
          rw [hterm] at h1; rw [ht'] at h2
          exact hI'.uniq _ _ _ h1 h2
        subst hi
        rw [hlog]; simp [GRec.entry]
  · -- run
    intro l hl y hy g hg hgt hgi
    rcases gstep with h | ⟨i0, p, T, hgh, hlog, ht', ht, hrole0⟩
    · rw [h] at hl hg; exact hG.run l hl y hy g hg hgt hgi
    · have habove := no_T_above hI hE e i0 hrole0 (by rw [ht', ht])
      have hlen := lastIndex_chain (hI.logs i0)
      rcases chains_after_grow hI hE hG e hI' hgh hlog ht' ht hrole0 l hl with hold | hnew
      · rw [hgh] at hg
        rcases List.mem_append.mp hg with hg | hg
        · exact hG.run l hold y hy g hg hgt hgi
        · exfalso
          simp at hg; subst hg
          simp only [] at hgt hgi
          obtain ⟨q, hq⟩ := mem_chain_rec hold hy
          have := habove _ hq (by simp only []; rw [← hgt, ht])
          simp only [] at this
          omega
      · rw [hnew, hlog] at hy ⊢
        rw [hgh] at hg
        rcases List.mem_append.mp hg with hg | hg
        · refine List.mem_append_left _ ?_
          rcases List.mem_append.mp hy with hy | hy
          · exact hG.run _ (hI.logs i0) y hy g hg hgt hgi
          · simp at hy; subst hy
            simp only [] at hgt
            rcases leader_cont c e i0 with hs | hw
            · exact hG.leadhas g hg i0 (hs hrole0).1 (by rw [ht, hgt])
            · exfalso
              obtain ⟨_, el, hel, hwon⟩ := hw
              obtain ⟨j, hj⟩ := hI.ghost_term g hg
              rw [hgt, ← ht] at hj
              exact won_term_fresh hE i0 el hel hwon j hj
        · simp at hg; subst hg; simp [GRec.entry]

end DEngine.Cluster
