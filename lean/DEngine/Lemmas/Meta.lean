import DEngine.Model.MetaStore
import DEngine.Lemmas.Fs
/-! Codec lemmas for the bincode model of `HardState` (round trip; strict prefixes never decode). -/
namespace DEngine.MetaStore
open DEngine.Fs

theorem leN_length (k n : Nat) : (leN k n).length = k := by
  induction k generalizing n <;> simp [leN, *]

theorem fromLE_leN (k n : Nat) : fromLE (leN k n) = n % 256 ^ k := by
  induction k generalizing n with
  | zero => simp [leN, fromLE, Nat.mod_one]
  | succ k ih =>
    simp only [leN, fromLE, ih]
    have : (UInt8.ofNat (n % 256)).toNat = n % 256 := by
      simp [UInt8.toNat_ofNat']
    rw [this, Nat.pow_succ', Nat.mod_mul]

/-- Layout of a 22-byte encoding. -/
theorem shape22 (A B C : Bytes) (c : UInt8) (hA : A.length = 8) (hB : B.length = 4) (hC : C.length = 8) :
    (A ++ 1 :: (B ++ C ++ [c])).length = 22 ∧ (A ++ 1 :: (B ++ C ++ [c])).take 8 = A ∧
    (A ++ 1 :: (B ++ C ++ [c])).getD 8 0 = 1 ∧ ((A ++ 1 :: (B ++ C ++ [c])).drop 9).take 4 = B ∧
    ((A ++ 1 :: (B ++ C ++ [c])).drop 13).take 8 = C ∧ (A ++ 1 :: (B ++ C ++ [c])).getD 21 0 = c := by
  match A, hA with
  | [a0,a1,a2,a3,a4,a5,a6,a7], _ =>
  match B, hB with
  | [b0,b1,b2,b3], _ =>
  match C, hC with
  | [c0,c1,c2,c3,c4,c5,c6,c7], _ => simp

theorem enc_length (h : HS) : (enc h).length = if h.vote.isNone then 9 else 22 := by
  obtain ⟨t, v⟩ := h
  cases v <;> simp [enc, encVote, leN_length]

theorem enc_ne_nil (h : HS) : enc h ≠ [] := by
  intro h0
  have := enc_length h
  rw [h0] at this
  split at this <;> simp at this

/-- Round trip: `deserialize(serialize(h)) = h`. -/
theorem dec_enc (h : HS) : dec (enc h) = some h := by
  obtain ⟨t, v⟩ := h
  cases v with
  | none =>
    have ht : (enc ⟨t, none⟩).take 8 = leN 8 t.toNat := by simp [enc, List.take_left', leN_length]
    simp [dec, ht, fromLE_leN]
    simp [enc, encVote, leN_length]
  | some v =>
    obtain ⟨id, vt, c⟩ := v
    have hs := shape22 (leN 8 t.toNat) (leN 4 id.toNat) (leN 8 vt.toNat) (if c then 1 else 0)
      (leN_length _ _) (leN_length _ _) (leN_length _ _)
    obtain ⟨h1, h2, h3, h4, h5, h6⟩ := hs
    have he : enc ⟨t, some ⟨id, vt, c⟩⟩ =
        leN 8 t.toNat ++ 1 :: (leN 4 id.toNat ++ leN 8 vt.toNat ++ [if c then 1 else 0]) := by
      simp [enc, encVote]
    rw [he]
    unfold dec
    simp only [h1, h2, h3, h4, h5, h6, fromLE_leN]
    cases c <;> simp

/-- A strict prefix of an encoding never decodes: a torn write is always detected (as "no state"), never read as a
    different state. -/
theorem dec_strict_prefix (h : HS) (p : Bytes) (hp : p <+: enc h) (hlt : p.length < (enc h).length) :
    dec p = none := by
  obtain ⟨t, v⟩ := h
  cases v with
  | none =>
    have : (enc ⟨t, none⟩).length = 9 := by simp [enc_length]
    unfold dec; simp; omega
  | some v =>
    obtain ⟨id, vt, c⟩ := v
    have hs := shape22 (leN 8 t.toNat) (leN 4 id.toNat) (leN 8 vt.toNat) (if c then 1 else 0)
      (leN_length _ _) (leN_length _ _) (leN_length _ _)
    have he : enc ⟨t, some ⟨id, vt, c⟩⟩ =
        leN 8 t.toNat ++ 1 :: (leN 4 id.toNat ++ leN 8 vt.toNat ++ [if c then 1 else 0]) := by
      simp [enc, encVote]
    rw [he] at hp hlt
    obtain ⟨h1, _, h3, _⟩ := hs
    rw [h1] at hlt
    obtain ⟨r, hr⟩ := hp
    unfold dec
    by_cases h9 : p.length < 9
    · simp [h9]
    · have htag : p[8]?.getD 0 = 1 := by
        rw [← hr] at h3
        simpa [List.getD_eq_getElem?_getD, List.getElem?_append_left (show 8 < p.length by omega)] using h3
      simp [h9, htag, hlt]

/-- A prefix of an encoding decodes to nothing or to the encoded state itself. -/
theorem dec_prefix (h : HS) (p : Bytes) (hp : p <+: enc h) : dec p = none ∨ dec p = some h := by
  by_cases hl : p.length < (enc h).length
  · exact Or.inl (dec_strict_prefix h p hp hl)
  · have : p = enc h := List.IsPrefix.eq_of_length_le hp (by omega)
    exact Or.inr (this ▸ dec_enc h)

theorem dec_nil : dec [] = none := by simp [dec]

end DEngine.MetaStore
