import DEngine.Model.KV
/-!
  Helper lemmas for M-KV (C22, C25): association-list maps, the File engine's pre-phase invariant,
  the RocksDB indexed batch, ordering of chunk sequences.
-/
namespace DEngine.KV

/-! ## AMap -/
namespace AMap
variable {β : Type}

theorem get_remove (m : AMap β) (k k' : Key) :
    (m.remove k).get k' = if k' = k then none else m.get k' := by
  induction m with
  | nil => simp [remove, get]
  | cons p m ih =>
    obtain ⟨a, b⟩ := p
    simp only [remove] at ih ⊢
    by_cases h : a = k
    · subst h
      simp only [List.filter, beq_self_eq_true, Bool.not_true]
      rw [ih]
      by_cases h2 : k' = a
      · simp [h2]
      · have : ¬ a = k' := fun e => h2 e.symm
        simp [get, h2, this]
    · have hb : (a == k) = false := by simpa using h
      simp only [List.filter, hb, Bool.not_false, get]
      rw [ih]
      by_cases h2 : a = k'
      · subst h2; simp [h]
      · simp [h2]

theorem get_insert (m : AMap β) (k k' : Key) (v : β) :
    (m.insert k v).get k' = if k' = k then some v else m.get k' := by
  simp only [insert, get]
  by_cases h : k = k'
  · subst h; simp
  · have : ¬ k' = k := fun e => h e.symm
    simp [h, this, get_remove]

end AMap

/-! ## reference semantics -/

theorem Store.set_apply (s : Store) (k k' : Key) (v : Option Val) :
    (s.set k v) k' = if k' = k then v else s k' := rfl

theorem casMatch_iff (c e : Option Val) : casMatch c e = true ↔ c = e := by
  cases c <;> cases e <;> simp [casMatch]

theorem casMatch_eq_decide (c e : Option Val) : casMatch c e = decide (c = e) := by
  by_cases h : c = e
  · simp [h, (casMatch_iff e e).2 rfl]
  · have : casMatch c e ≠ true := fun h' => h ((casMatch_iff c e).1 h')
    simp [h, this]

theorem refRun_append (s : Store) (a b : List Cmd) :
    refRun s (a ++ b) = ((refRun (refRun s a).1 b).1, (refRun s a).2 ++ (refRun (refRun s a).1 b).2) := by
  induction a generalizing s with
  | nil => simp [refRun]
  | cons c cs ih => simp [refRun, ih]

theorem refRun_length (s : Store) (cs : List Cmd) : (refRun s cs).2.length = cs.length := by
  induction cs generalizing s with
  | nil => simp [refRun]
  | cons c cs ih => simp [refRun, ih]

/-! ## ordering -/

/-- index of the last entry of `a`, or `p` if `a` is empty -/
def lastIdx : Option Nat → List Entry → Option Nat
  | p, [] => p
  | _, e :: es => lastIdx (some e.index) es

theorem ordered_append (p : Option Nat) (a b : List Entry) :
    ordered p (a ++ b) = (ordered p a && ordered (lastIdx p a) b) := by
  induction a generalizing p with
  | nil => simp [ordered, lastIdx]
  | cons e es ih =>
    simp only [List.cons_append, ordered, lastIdx]
    by_cases h : outOfOrder p e.index = true
    · simp [h]
    · simp only [h, if_false, Bool.false_eq_true]; exact ih (some e.index)

theorem ordered_weaken (p : Option Nat) (es : List Entry) (h : ordered p es = true) : ordered none es = true := by
  cases es with
  | nil => rfl
  | cons e es =>
    simp only [ordered] at h ⊢
    by_cases h2 : outOfOrder p e.index = true
    · simp [h2] at h
    · simp only [h2, if_false, Bool.false_eq_true] at h
      simpa [outOfOrder] using h

theorem ordered_cons {p : Option Nat} {e : Entry} {es : List Entry} (h : ordered p (e :: es) = true) :
    outOfOrder p e.index = false ∧ ordered (some e.index) es = true := by
  simp only [ordered] at h
  by_cases h2 : outOfOrder p e.index = true
  · simp [h2] at h
  · simp only [h2, if_false, Bool.false_eq_true] at h
    exact ⟨by simpa using h2, h⟩

theorem highest_append (a b : List Entry) :
    highest (a ++ b) = if b = [] then highest a else highest b := by
  induction a with
  | nil => cases b <;> simp [highest]
  | cons e es ih =>
    cases b with
    | nil => simp
    | cons x xs =>
      cases es with
      | nil => simp [highest]
      | cons e' es' =>
        simp only [List.cons_append, highest] at ih ⊢
        simpa using ih

/-! ## File engine -/

/-- value part of the store view of a `(value, term)` map -/
def dataView (m : AMap (Val × Nat)) : Store := fun k => (m.get k).map (·.1)

theorem fileBase_get (data : AMap (Val × Nat)) (chunk : List Entry) (k : Key) (hk : k ∈ casKeys chunk) :
    (fileBase data chunk).get k = data.get k := by
  unfold fileBase
  generalize casKeys chunk = ks at hk
  induction ks with
  | nil => cases hk
  | cons a ks ih =>
    simp only [List.filterMap_cons]
    cases hd : data.get a with
    | none =>
      simp only [Option.map_none]
      by_cases hak : k = a
      · subst hak
        -- k absent from data: every binding produced by filterMap has a key present in data
        rw [hd]
        clear ih hk
        induction ks with
        | nil => rfl
        | cons b ks ih2 =>
          simp only [List.filterMap_cons]
          cases hb : data.get b with
          | none => simpa using ih2
          | some vb =>
            simp only [Option.map_some, AMap.get]
            by_cases hbk : b = k
            · subst hbk; rw [hd] at hb; cases hb
            · simpa [hbk] using ih2
      · have : k ∈ ks := by
          cases hk with
          | head => exact absurd rfl hak
          | tail _ h => exact h
        exact ih this
    | some va =>
      simp only [Option.map_some, AMap.get]
      by_cases hak : a = k
      · subst hak; simp [hd]
      · have : k ∈ ks := by
          cases hk with
          | head => exact absurd rfl hak
          | tail _ h => exact h
        simpa [hak] using ih this

/-- The CAS outcomes the reference semantics produces (`false` for non-CAS commands, as `filePre`). -/
def casFlags (s : Store) : List Cmd → List Bool
  | [] => []
  | c :: cs =>
    (match c with
     | .cas k e _ => decide (s k = e)
     | _ => false) :: casFlags (refStep s c).1 cs

/-- Pre-phase invariant: the overlay `delta` over `base` shows the current reference store on every key
    that a remaining CAS may look at, and on every key already touched in this chunk. -/
structure PreInv (s0 s : Store) (base : AMap (Val × Nat)) (delta : AMap (Option (Val × Nat)))
    (rest : List Entry) : Prop where
  touched : ∀ k x, delta.get k = some x → s k = x.map (·.1)
  untouched : ∀ k, delta.get k = none → s k = s0 k
  base_ok : ∀ k, k ∈ casKeys rest → (base.get k).map (·.1) = s0 k

theorem casKeys_cons_subset (e : Entry) (es : List Entry) (k : Key) (h : k ∈ casKeys es) :
    k ∈ casKeys (e :: es) := by
  unfold casKeys at *
  simp only [List.filterMap_cons]
  split <;> simp_all

theorem filePre_eq_casFlags (s0 : Store) (base : AMap (Val × Nat)) :
    ∀ (rest : List Entry) (s : Store) (delta : AMap (Option (Val × Nat))),
      PreInv s0 s base delta rest →
      filePre base delta rest = casFlags s (rest.map (·.cmd)) := by
  intro rest
  induction rest with
  | nil => intro s delta _; rfl
  | cons e es ih =>
    intro s delta inv
    have hbase' : ∀ k, k ∈ casKeys es → (base.get k).map (·.1) = s0 k :=
      fun k hk => inv.base_ok k (casKeys_cons_subset e es k hk)
    cases hc : e.cmd with
    | noop =>
      simp only [filePre, hc, List.map_cons, casFlags, refStep]
      congr 1
      exact ih s delta ⟨inv.touched, inv.untouched, hbase'⟩
    | put k v t =>
      simp only [filePre, hc, List.map_cons, casFlags, refStep]
      congr 1
      apply ih
      refine ⟨?_, ?_, hbase'⟩
      · intro k' x hx
        rw [AMap.get_insert] at hx
        rw [Store.set_apply]
        by_cases hk : k' = k
        · simp only [hk, if_true] at hx ⊢; cases hx; rfl
        · simp only [hk, if_false] at hx ⊢; exact inv.touched k' x hx
      · intro k' hx
        rw [AMap.get_insert] at hx
        rw [Store.set_apply]
        by_cases hk : k' = k
        · simp [hk] at hx
        · simp only [hk, if_false] at hx ⊢; exact inv.untouched k' hx
    | del k =>
      simp only [filePre, hc, List.map_cons, casFlags, refStep]
      congr 1
      apply ih
      refine ⟨?_, ?_, hbase'⟩
      · intro k' x hx
        rw [AMap.get_insert] at hx
        rw [Store.set_apply]
        by_cases hk : k' = k
        · simp only [hk, if_true] at hx ⊢; cases hx; rfl
        · simp only [hk, if_false] at hx ⊢; exact inv.touched k' x hx
      · intro k' hx
        rw [AMap.get_insert] at hx
        rw [Store.set_apply]
        by_cases hk : k' = k
        · simp [hk] at hx
        · simp only [hk, if_false] at hx ⊢; exact inv.untouched k' hx
    | cas k ex v =>
      have hkmem : k ∈ casKeys (e :: es) := by
        unfold casKeys; simp only [List.filterMap_cons, hc]; exact List.mem_cons_self
      have hcur : (fileCurrent base delta k).map (·.1) = s k := by
        unfold fileCurrent
        cases hd : delta.get k with
        | some x => exact (inv.touched k x hd).symm
        | none => simp only []; rw [inv.base_ok k hkmem]; exact (inv.untouched k hd).symm
      simp only [filePre, hc, List.map_cons, casFlags]
      rw [hcur, casMatch_eq_decide]
      congr 1
      by_cases hm : s k = ex
      · simp only [hm, decide_true, if_true, refStep]
        apply ih
        refine ⟨?_, ?_, hbase'⟩
        · intro k' x hx
          rw [AMap.get_insert] at hx
          rw [Store.set_apply]
          by_cases hk : k' = k
          · simp only [hk, if_true] at hx ⊢; cases hx; rfl
          · simp only [hk, if_false] at hx ⊢; exact inv.touched k' x hx
        · intro k' hx
          rw [AMap.get_insert] at hx
          rw [Store.set_apply]
          by_cases hk : k' = k
          · simp [hk] at hx
          · simp only [hk, if_false] at hx ⊢; exact inv.untouched k' hx
      · simp only [hm, decide_false, refStep, if_false, Bool.false_eq_true]
        exact ih s delta ⟨inv.touched, inv.untouched, hbase'⟩

theorem dataView_insert (m : AMap (Val × Nat)) (k : Key) (v : Val) (t : Nat) :
    dataView (m.insert k (v, t)) = (dataView m).set k (some v) := by
  funext k'
  simp only [dataView, AMap.get_insert, Store.set_apply]
  by_cases h : k' = k <;> simp [h]

theorem dataView_remove (m : AMap (Val × Nat)) (k : Key) :
    dataView (m.remove k) = (dataView m).set k none := by
  funext k'
  simp only [dataView, AMap.get_remove, Store.set_apply]
  by_cases h : k' = k <;> simp [h]

theorem filePhase3_refines :
    ∀ (es : List Entry) (data : AMap (Val × Nat)),
      let r := filePhase3 data (es.zip (casFlags (dataView data) (es.map (·.cmd))))
      dataView r.1 = (refRun (dataView data) (es.map (·.cmd))).1 ∧
      r.2 = (refRun (dataView data) (es.map (·.cmd))).2 := by
  intro es
  induction es with
  | nil => intro data; simp [filePhase3, refRun, casFlags]
  | cons e es ih =>
    intro data
    cases hc : e.cmd with
    | noop =>
      simp only [List.map_cons, hc, casFlags, List.zip_cons_cons, filePhase3, refRun, refStep]
      have := ih data
      simp only at this
      exact ⟨this.1, by rw [this.2]⟩
    | put k v t =>
      simp only [List.map_cons, hc, casFlags, List.zip_cons_cons, filePhase3, refRun, refStep]
      have := ih (data.insert k (v, e.term))
      simp only [dataView_insert] at this
      exact ⟨this.1, by rw [this.2]⟩
    | del k =>
      simp only [List.map_cons, hc, casFlags, List.zip_cons_cons, filePhase3, refRun, refStep]
      have := ih (data.remove k)
      simp only [dataView_remove] at this
      exact ⟨this.1, by rw [this.2]⟩
    | cas k ex v =>
      simp only [List.map_cons, hc, casFlags, List.zip_cons_cons, filePhase3, refRun]
      by_cases hm : dataView data k = ex
      · simp only [hm, decide_true, if_true, refStep]
        have := ih (data.insert k (v, e.term))
        simp only [dataView_insert] at this
        exact ⟨this.1, by rw [this.2]⟩
      · simp only [hm, decide_false, refStep, if_false, Bool.false_eq_true]
        have := ih data
        simp only at this
        exact ⟨this.1, by rw [this.2]⟩

/-! ## RocksDB engine -/

theorem get_writeBatch (db : AMap Val) (batch : List BOp) (k : Key) :
    (writeBatch db batch).get k = batchGet db batch k := by
  induction batch with
  | nil => rfl
  | cons op b ih =>
    cases op with
    | put k' v =>
      simp only [writeBatch, List.foldr_cons, applyOp, batchGet] at ih ⊢
      rw [AMap.get_insert]
      by_cases h : k = k'
      · subst h; simp
      · have : ¬ k' = k := fun e => h e.symm
        simp only [h, this, if_false]; exact ih
    | del k' =>
      simp only [writeBatch, List.foldr_cons, applyOp, batchGet] at ih ⊢
      rw [AMap.get_remove]
      by_cases h : k = k'
      · subst h; simp
      · have : ¬ k' = k := fun e => h e.symm
        simp only [h, this, if_false]; exact ih

/-- The store the batch-over-db shows. -/
def batchView (db : AMap Val) (batch : List BOp) : Store := fun k => batchGet db batch k

theorem batchView_put (db : AMap Val) (batch : List BOp) (k : Key) (v : Val) :
    batchView db (.put k v :: batch) = (batchView db batch).set k (some v) := by
  funext k'
  simp only [batchView, batchGet, Store.set_apply]
  by_cases h : k = k'
  · subst h; simp
  · have : ¬ k' = k := fun e => h e.symm
    simp [h, this]

theorem batchView_del (db : AMap Val) (batch : List BOp) (k : Key) :
    batchView db (.del k :: batch) = (batchView db batch).set k none := by
  funext k'
  simp only [batchView, batchGet, Store.set_apply]
  by_cases h : k = k'
  · subst h; simp
  · have : ¬ k' = k := fun e => h e.symm
    simp [h, this]

theorem rocksLoop_refines (db : AMap Val) :
    ∀ (es : List Entry) (batch : List BOp) (prev : Option Nat),
      ordered prev es = true →
      ∃ batch' res, rocksLoop db batch prev es = some (batch', res) ∧
        batchView db batch' = (refRun (batchView db batch) (es.map (·.cmd))).1 ∧
        res = (refRun (batchView db batch) (es.map (·.cmd))).2 := by
  intro es
  induction es with
  | nil => intro batch prev _; exact ⟨batch, [], rfl, rfl, rfl⟩
  | cons e es ih =>
    intro batch prev hord
    obtain ⟨hguard, hord'⟩ := ordered_cons hord
    cases hc : e.cmd with
    | noop =>
      obtain ⟨b', r, h1, h2, h3⟩ := ih batch (some e.index) hord'
      refine ⟨b', true :: r, ?_, ?_, ?_⟩
      · simp only [rocksLoop, hguard, hc, h1]; simp
      · simpa only [List.map_cons, hc, refRun, refStep] using h2
      · simp only [List.map_cons, hc, refRun, refStep, h3]
    | put k v t =>
      obtain ⟨b', r, h1, h2, h3⟩ := ih (.put k v :: batch) (some e.index) hord'
      refine ⟨b', true :: r, ?_, ?_, ?_⟩
      · simp only [rocksLoop, hguard, hc, h1]; simp
      · simpa only [List.map_cons, hc, refRun, refStep, batchView_put] using h2
      · simp only [List.map_cons, hc, refRun, refStep, h3, batchView_put]
    | del k =>
      obtain ⟨b', r, h1, h2, h3⟩ := ih (.del k :: batch) (some e.index) hord'
      refine ⟨b', true :: r, ?_, ?_, ?_⟩
      · simp only [rocksLoop, hguard, hc, h1]; simp
      · simpa only [List.map_cons, hc, refRun, refStep, batchView_del] using h2
      · simp only [List.map_cons, hc, refRun, refStep, h3, batchView_del]
    | cas k ex v =>
      have hb : batchGet db batch k = batchView db batch k := rfl
      by_cases hm : batchView db batch k = ex
      · obtain ⟨b', r, h1, h2, h3⟩ := ih (.put k v :: batch) (some e.index) hord'
        refine ⟨b', true :: r, ?_, ?_, ?_⟩
        · simp only [rocksLoop, hguard, hc, hb, casMatch_eq_decide, hm]; simp [h1]
        · simpa only [List.map_cons, hc, refRun, refStep, hm, if_true, batchView_put] using h2
        · simp only [List.map_cons, hc, refRun, refStep, hm, if_true, h3, batchView_put]
      · obtain ⟨b', r, h1, h2, h3⟩ := ih batch (some e.index) hord'
        refine ⟨b', false :: r, ?_, ?_, ?_⟩
        · simp only [rocksLoop, hguard, hc, hb, casMatch_eq_decide, hm]; simp [h1]
        · simpa only [List.map_cons, hc, refRun, refStep, hm, if_false] using h2
        · simp only [List.map_cons, hc, refRun, refStep, hm, if_false, h3]

theorem rocksLoop_none_of_unordered (db : AMap Val) :
    ∀ (es : List Entry) (batch : List BOp) (prev : Option Nat),
      ordered prev es = false → rocksLoop db batch prev es = none := by
  intro es
  induction es with
  | nil => intro batch prev h; simp [ordered] at h
  | cons e es ih =>
    intro batch prev h
    simp only [ordered] at h
    by_cases hg : outOfOrder prev e.index = true
    · simp [rocksLoop, hg]
    · simp only [hg, if_false, Bool.false_eq_true] at h
      cases hc : e.cmd <;> simp [rocksLoop, hc, hg, ih _ _ h]

end DEngine.KV
