/-
  C05, towards leader completeness: node-level facts about the follower's AppendEntries handling.
-/
import DEngine.Lemmas.ClusterCompleteProv
namespace DEngine.Cluster

theorem accept_sub (l : Log) (pi pt : Nat) (es : Log) : ∀ x ∈ (acceptEntries l pi pt es).1, x ∈ l ∨ x ∈ es := by
  intro x hx
  unfold acceptEntries at hx
  split at hx
  · exact Or.inr hx
  · split at hx
    · exact Or.inl hx
    · dsimp only at hx
      split at hx
      · split at hx
        · exact Or.inl hx
        · rcases List.mem_append.mp hx with h | h
          · exact Or.inl h
          · exact Or.inr (List.dropWhile_subset _ h)
      · split at hx
        · exact Or.inl hx
        · (try dsimp only at hx)
          have fin : ∀ (A B : Log), x ∈ A ++ B → (∀ y ∈ A, y ∈ l) → (∀ y ∈ B, y ∈ es) → x ∈ l ∨ x ∈ es := by
            intro A B h hA hB
            rcases List.mem_append.mp h with h | h
            · exact Or.inl (hA x h)
            · exact Or.inr (hB x h)
          split at hx <;> split at hx <;>
            first
            | exact fin _ _ hx (fun y hy => (List.mem_filter.mp hy).1) (fun y hy => List.drop_subset _ _ hy)
            | exact fin _ _ hx (fun y hy => hy) (fun y hy => List.drop_subset _ _ hy)

theorem acceptOrKeep_sub (l : Log) (r : AeReq) : ∀ x ∈ (acceptOrKeep l r).1, x ∈ l ∨ x ∈ r.entries := by
  intro x hx
  unfold acceptOrKeep at hx
  split at hx
  · exact Or.inl hx
  · exact accept_sub _ _ _ _ x hx

/-- the request passed `check_append_entries_request_is_legal` -/
def PrevMatch (l : Log) (r : AeReq) : Prop := (r.prevI = 0 ∧ r.prevT = 0) ∨ entryTerm l r.prevI = some r.prevT

theorem checkAppendLegal_success {t : Nat} {l : Log} {r : AeReq} {last : Option (Nat × Nat)}
    (h : checkAppendLegal t l r = .success last) : t ≤ r.term ∧ PrevMatch l r := by
  unfold checkAppendLegal at h
  split at h
  · cases h
  · next hle =>
    refine ⟨by omega, ?_⟩
    split at h
    · next h0 => simp at h0; exact Or.inl h0
    · split at h
      · next t' ht' =>
        split at h
        · next heq => simp at heq; right; rw [ht', heq]
        · cases h
      · cases h

theorem followerAppend_spec (n : Node) (r : AeReq) :
    ((followerAppend n r).1.log = n.log ∧ ∀ last, (followerAppend n r).2.2.1 ≠ .success last) ∨
    (n.term ≤ r.term ∧ (followerAppend n r).1.term = r.term ∧ PrevMatch n.log r ∧
      (followerAppend n r).1.log = (acceptOrKeep n.log r).1 ∧
      (followerAppend n r).2.2.1 = .success (acceptOrKeep n.log r).2.1 ∧ (followerAppend n r).2.1 = n.term) := by
  unfold followerAppend
  split
  · left; exact ⟨rfl, fun _ h => by cases h⟩
  · next hle =>
    cases hc : checkAppendLegal n.term n.log r with
    | conflict t i => left; exact ⟨rfl, fun _ h => by cases h⟩
    | higher t => left; exact ⟨rfl, fun _ h => by cases h⟩
    | success last =>
      right
      have := checkAppendLegal_success hc
      refine ⟨this.1, ?_, this.2, rfl, rfl, rfl⟩
      show (if n.term < r.term then r.term else n.term) = r.term
      split <;> omega

/-- What a node does with an AppendEntries request: nothing to its log and no success answer, or the follower path
    with a success answer. -/
theorem onAppendEntries_spec (n : Node) (r : AeReq) :
    ((onAppendEntries n r).1.log = n.log ∧ ∀ last, (onAppendEntries n r).2.2.1 ≠ .success last) ∨
    ((onAppendEntries n r).1.term = r.term ∧ PrevMatch n.log r ∧
      (onAppendEntries n r).1.log = (acceptOrKeep n.log r).1 ∧
      (onAppendEntries n r).2.2.1 = .success (acceptOrKeep n.log r).2.1 ∧ n.term ≤ (onAppendEntries n r).2.1 ∧
      (onAppendEntries n r).2.1 ≤ r.term) := by
  have via : ∀ n0 : Node, n0.log = n.log → n.term ≤ n0.term →
      ((followerAppend n0 r).1.log = n.log ∧ ∀ last, (followerAppend n0 r).2.2.1 ≠ .success last) ∨
      ((followerAppend n0 r).1.term = r.term ∧ PrevMatch n.log r ∧
        (followerAppend n0 r).1.log = (acceptOrKeep n.log r).1 ∧
        (followerAppend n0 r).2.2.1 = .success (acceptOrKeep n.log r).2.1 ∧ n.term ≤ (followerAppend n0 r).2.1 ∧
        (followerAppend n0 r).2.1 ≤ r.term) := by
    intro n0 hl ht
    rcases followerAppend_spec n0 r with h | h
    · left; rw [← hl]; exact h
    · right; rw [← hl]; exact ⟨h.2.1, h.2.2.1, h.2.2.2.1, h.2.2.2.2.1, by rw [h.2.2.2.2.2]; exact ht, by rw [h.2.2.2.2.2]; exact h.1⟩
  unfold onAppendEntries
  split
  · exact via n rfl (Nat.le_refl _)
  · split
    · have hb := becomeFollower_spec { n with term := if r.term > n.term then r.term else n.term }
      refine via _ hb.2.1 ?_
      rw [hb.2.2]; show n.term ≤ if r.term > n.term then r.term else n.term
      split <;> omega
    · left; exact ⟨rfl, fun _ h => by cases h⟩
  · split
    · left; exact ⟨rfl, fun _ h => by cases h⟩
    · next hc =>
      have hb := becomeFollower_spec { n with term := r.term }
      refine via _ hb.2.1 ?_
      rw [hb.2.2]; show n.term ≤ r.term
      omega

/-- the node hit by the delivery of request `r` is unchanged or went through `onAppendEntries` -/
theorem node_at_deliver (c : Cluster) (m src dst sid : Nat) (r : AeReq) (rp : Bool)
    (hf : findMsg c m = some (.ae src dst sid r rp)) :
    ((step c (.deliverAe m)).1.nodes dst = c.nodes dst ∧ (c.valid dst && (c.nodes dst).ready) = false) ∨
    ((step c (.deliverAe m)).1.nodes dst = (onAppendEntries (c.nodes dst) r).1 ∧ (c.nodes dst).ready = true) := by
  simp only [step]; unfold stepDeliverAe; dsimp only
  simp only [hf]
  split
  · next hen =>
    left; refine ⟨rfl, ?_⟩
    cases hv : c.valid dst <;> cases hr : (c.nodes dst).ready <;> simp_all
  · next hen =>
    right
    have hready : (c.nodes dst).ready = true := by
      cases hr : (c.nodes dst).ready
      · simp [hr] at hen
      · rfl
    refine ⟨?_, hready⟩
    split
    · show setNode (removeMsg c m).nodes dst _ dst = _; simp [removeMsg]
    · show setNode (removeMsg c m).nodes dst _ dst = _; simp [removeMsg]

end DEngine.Cluster
