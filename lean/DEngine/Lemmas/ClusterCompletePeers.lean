/-
  C05, "a committed entry is held by a majority": the leader's peer table (who is in it, how match_index changes) and
  the commit rule at node level.
-/
import DEngine.Lemmas.ClusterCompleteAck
namespace DEngine.Cluster

/-- the ids in a leader's peer table: every voter but itself -/
def peerIds (me n : Nat) : List NodeId := (List.range (n + 1)).filter (fun i => i != 0 && i != me)

theorem mem_peerIds {me n i : Nat} : i ∈ peerIds me n ↔ 1 ≤ i ∧ i ≤ n ∧ i ≠ me := by
  simp only [peerIds, List.mem_filter, List.mem_range, Bool.and_eq_true, bne_iff_ne, ne_eq]
  constructor
  · rintro ⟨h1, h2, h3⟩; exact ⟨Nat.pos_of_ne_zero h2, Nat.le_of_lt_succ h1, h3⟩
  · rintro ⟨h1, h2, h3⟩; exact ⟨Nat.lt_succ_of_le h2, Nat.ne_of_gt h1, h3⟩

theorem peerIds_nodup (me n : Nat) : (peerIds me n).Nodup := List.Nodup.sublist List.filter_sublist List.nodup_range

theorem peerIds_succ (me n : Nat) : peerIds me (n + 1) = peerIds me n ++ (if n + 1 = me then [] else [n + 1]) := by
  simp only [peerIds, List.range_succ (n := n + 1), List.filter_append, List.filter_cons, List.filter_nil]
  by_cases h : n + 1 = me
  · simp [h]
  · have : (n + 1 != 0 && n + 1 != me) = true := by simp [h]
    simp [h]

theorem peerIds_length (me : Nat) (hme : 1 ≤ me) : ∀ n, (peerIds me n).length = if me ≤ n then n - 1 else n := by
  intro n
  induction n with
  | zero =>
    have h1 : ¬ me ≤ 0 := by omega
    simp [peerIds, h1]
  | succ n ih =>
    rw [peerIds_succ, List.length_append, ih]
    by_cases h2 : n + 1 = me
    · subst h2
      have h3 : ¬ (n + 1 ≤ n) := by omega
      simp [h3]
    · simp only [if_neg h2, List.length_singleton]
      split <;> split <;> omega

theorem initPeers_ids (me n last : Nat) : (initPeers me n last).map (·.id) = peerIds me n := by
  simp [initPeers, peerIds, List.map_map, Function.comp_def]

theorem initPeers_mtch (me n last : Nat) : ∀ q ∈ initPeers me n last, q.mtch = 0 := by
  intro q hq
  simp only [initPeers, List.mem_map] at hq
  obtain ⟨i, _, rfl⟩ := hq
  rfl

/-- (id, match_index) of every peer -/
def peerKeys (ps : List Peer) : List (NodeId × Nat) := ps.map fun p => (p.id, p.mtch)

theorem replicatePeers_keys (me : NodeId) (log : Log) (term commit lastBefore cap : Nat) (newEs : Log) :
    ∀ (ps : List Peer) (sid : Nat),
      peerKeys (replicatePeers me log term commit lastBefore cap newEs ps sid).1 = peerKeys ps := by
  intro ps
  induction ps with
  | nil => intro sid; rfl
  | cons p ps ih =>
    intro sid
    simp only [replicatePeers, peerKeys, List.map_cons]
    congr 1
    · split <;> rfl
    · exact ih _

theorem updatePeer_keys (ps : List Peer) (id : NodeId) (f : Peer → Peer) (hf : ∀ p, (f p).id = p.id ∧ (f p).mtch = p.mtch) :
    peerKeys (updatePeer ps id f) = peerKeys ps := by
  simp only [peerKeys, updatePeer, List.map_map]
  apply List.map_congr_left
  intro p _
  simp only [Function.comp]
  split
  · rw [(hf p).1, (hf p).2]
  · rfl

theorem keys_mem {ps ps' : List Peer} (h : peerKeys ps' = peerKeys ps) :
    ps'.map (·.id) = ps.map (·.id) ∧ ∀ q' ∈ ps', ∃ q ∈ ps, q.id = q'.id ∧ q.mtch = q'.mtch := by
  constructor
  · have := congrArg (List.map Prod.fst) h
    simpa [peerKeys, List.map_map, Function.comp_def] using this
  · intro q' hq'
    have : (q'.id, q'.mtch) ∈ peerKeys ps := by rw [← h]; exact List.mem_map.mpr ⟨q', hq', rfl⟩
    obtain ⟨q, hq, he⟩ := List.mem_map.mp this
    exact ⟨q, hq, (Prod.mk.inj he).1, (Prod.mk.inj he).2⟩

/-- the peer table of a node that led before and after: same ids, same match indexes -/
def PeersKept (n n' : Node) : Prop := n'.role = .leader → n.role = .leader → peerKeys n'.peers = peerKeys n.peers

theorem peersKept_refl (n : Node) : PeersKept n n := fun _ _ => rfl

theorem peersKept_of_peers {n n' : Node} (h : n'.peers = n.peers) : PeersKept n n' := fun _ _ => by rw [h]

theorem peersKept_follower {n n' : Node} (h : n'.role ≠ .leader) : PeersKept n n' := fun h' _ => absurd h' h

theorem peersKept_notleader {n n' : Node} (h : n.role ≠ .leader) : PeersKept n n' := fun _ h' => absurd h' h

theorem applyLeaderCommit_peers (n : Node) : (applyLeaderCommit n).1.peers = n.peers := by
  unfold applyLeaderCommit; split <;> rfl

/-- what a success / conflict / other response does to the peer table of a leader that stays leader -/
theorem onAppendResponse_peers (n : Node) (src rt : Nat) (res : AeResult)
    (hr' : (onAppendResponse n src rt res).1.role = .leader) :
    (onAppendResponse n src rt res).1.peers.map (·.id) = n.peers.map (·.id) ∧
    ∀ q' ∈ (onAppendResponse n src rt res).1.peers, ∃ q ∈ n.peers, q.id = q'.id ∧
      (q'.mtch = q.mtch ∨ (q.id = src ∧ rt = n.term ∧ ∃ mi tm, res = .success (some (mi, tm)) ∧ q'.mtch = mi)) := by
  have same : ∀ n' : Node, n'.peers = n.peers → n'.peers.map (·.id) = n.peers.map (·.id) ∧
      ∀ q' ∈ n'.peers, ∃ q ∈ n.peers, q.id = q'.id ∧
        (q'.mtch = q.mtch ∨ (q.id = src ∧ rt = n.term ∧ ∃ mi tm, res = .success (some (mi, tm)) ∧ q'.mtch = mi)) := by
    intro n' h; rw [h]; exact ⟨rfl, fun q' hq' => ⟨q', hq', rfl, Or.inl rfl⟩⟩
  have keys : ∀ n' : Node, peerKeys n'.peers = peerKeys n.peers → n'.peers.map (·.id) = n.peers.map (·.id) ∧
      ∀ q' ∈ n'.peers, ∃ q ∈ n.peers, q.id = q'.id ∧
        (q'.mtch = q.mtch ∨ (q.id = src ∧ rt = n.term ∧ ∃ mi tm, res = .success (some (mi, tm)) ∧ q'.mtch = mi)) := by
    intro n' h
    obtain ⟨h1, h2⟩ := keys_mem h
    refine ⟨h1, fun q' hq' => ?_⟩
    obtain ⟨q, hq, e1, e2⟩ := h2 q' hq'
    exact ⟨q, hq, e1, Or.inl e2.symm⟩
  have sd : ∀ t, (stepDown n t).role ≠ .leader := fun t => by
    rw [stepDown, (becomeFollower_spec _).1]; intro h; cases h
  unfold onAppendResponse at hr' ⊢
  split
  · exact same _ rfl
  · next hrole =>
    rw [if_neg hrole] at hr'
    split
    · exact same _ rfl
    · next hlt =>
      rw [if_neg hlt] at hr'
      split
      · next hgt => rw [if_pos hgt] at hr'; exact absurd hr' (sd _)
      · next hgt =>
        rw [if_neg hgt] at hr'
        have hrt : rt = n.term := by omega
        split
        · next last =>
          simp only []
          rw [applyLeaderCommit_peers]
          simp only [updatePeer]
          constructor
          · simp only [List.map_map]
            apply List.map_congr_left
            intro p _
            simp only [Function.comp]
            split <;> rfl
          · intro q' hq'
            obtain ⟨q, hq, he⟩ := List.mem_map.mp hq'
            refine ⟨q, hq, ?_, ?_⟩
            · rw [← he]; split <;> rfl
            · rw [← he]
              split
              · next hid =>
                simp only []
                split
                · next hm =>
                  right
                  refine ⟨by simpa using hid, hrt, ?_⟩
                  cases last with
                  | none => simp at hm
                  | some pr => exact ⟨pr.1, pr.2, rfl, rfl⟩
                · left; rfl
              · left; rfl
        · exact keys _ (updatePeer_keys _ _ _ (fun p => ⟨rfl, rfl⟩))
        · split
          · next hgt2 => simp only [hgt2, if_true] at hr'; exact absurd hr' (sd _)
          · exact same _ rfl

/-- the commit rule: the new commit index is element len/2 of the descending list and carries the leader's term -/
def MajAt (n : Node) (k : Nat) : Prop :=
  (sortDesc (n.peers.map (·.mtch) ++ [lastIndex n.log])).getD
    ((sortDesc (n.peers.map (·.mtch) ++ [lastIndex n.log])).length / 2) 0 = k ∧ entryTerm n.log k = some n.term

theorem leaderCommit_majAt {n : Node} {k : Nat} (h : leaderCommit n = some k) : MajAt n k := by
  unfold leaderCommit at h
  dsimp only at h
  split at h
  · cases h
  · split at h
    · next ht =>
      split at h
      · cases h
        exact ⟨rfl, by simpa using ht⟩
      · cases h
    · cases h

theorem applyLeaderCommit_majAt (n : Node) (h : (applyLeaderCommit n).1.commit > n.commit) :
    MajAt (applyLeaderCommit n).1 (applyLeaderCommit n).1.commit := by
  unfold applyLeaderCommit at h ⊢
  cases hc : leaderCommit n with
  | none => simp [hc] at h
  | some k =>
    simp only [hc]
    have := leaderCommit_majAt hc
    exact this

end DEngine.Cluster
