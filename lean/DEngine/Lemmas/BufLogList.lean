import DEngine.Model.BufLog
/-!
  Lemmas about the sorted-list representation of the in-memory map: contiguous runs (`contigFrom`),
  lookup, tail insertion, prefix/suffix filters.
-/
namespace DEngine.BufLog

@[simp] theorem contigFrom_nil (k : Nat) : contigFrom k [] = true := rfl

@[simp] theorem contigFrom_cons (k : Nat) (e : Entry) (es : List Entry) :
    contigFrom k (e :: es) = (e.index == k && contigFrom (k + 1) es) := rfl

theorem contigFrom_append {k : Nat} {m es : List Entry} :
    contigFrom k (m ++ es) = (contigFrom k m && contigFrom (k + m.length) es) := by
  induction m generalizing k with
  | nil => simp
  | cons x xs ih =>
    simp only [List.cons_append, contigFrom_cons, ih, List.length_cons, Bool.and_assoc]
    congr 2
    congr 1
    omega

theorem contigFrom_mem {k : Nat} {m : List Entry} (h : contigFrom k m = true) {e : Entry} (he : e ∈ m) :
    k ≤ e.index ∧ e.index < k + m.length := by
  induction m generalizing k with
  | nil => cases he
  | cons x xs ih =>
    simp only [contigFrom_cons, Bool.and_eq_true, beq_iff_eq] at h
    rcases List.mem_cons.mp he with rfl | hm
    · simp only [List.length_cons]; omega
    · have := ih h.2 hm
      simp only [List.length_cons]; omega

theorem contigFrom_take {k : Nat} {m : List Entry} (h : contigFrom k m = true) (n : Nat) :
    contigFrom k (m.take n) = true := by
  induction m generalizing k n with
  | nil => simp
  | cons x xs ih =>
    cases n with
    | zero => simp
    | succ n =>
      simp only [contigFrom_cons, Bool.and_eq_true, beq_iff_eq] at h
      simp only [List.take_succ_cons, contigFrom_cons, Bool.and_eq_true, beq_iff_eq]
      exact ⟨h.1, ih h.2 n⟩

theorem contigFrom_drop {k : Nat} {m : List Entry} (h : contigFrom k m = true) (n : Nat) :
    contigFrom (k + n) (m.drop n) = true := by
  induction m generalizing k n with
  | nil => simp
  | cons x xs ih =>
    cases n with
    | zero => simpa using h
    | succ n =>
      simp only [contigFrom_cons, Bool.and_eq_true, beq_iff_eq] at h
      simp only [List.drop_succ_cons]
      have := ih h.2 n
      have e : k + (n + 1) = k + 1 + n := by omega
      rw [e]; exact this

/-- in a contiguous run starting at `k`, filtering by `index < d` is taking the first `d - k` elements -/
theorem filter_lt_contig {k : Nat} {m : List Entry} (h : contigFrom k m = true) (d : Nat) :
    m.filter (fun e => decide (e.index < d)) = m.take (d - k) := by
  induction m generalizing k with
  | nil => simp
  | cons x xs ih =>
    simp only [contigFrom_cons, Bool.and_eq_true, beq_iff_eq] at h
    by_cases hx : x.index < d
    · have e : d - k = (d - (k + 1)) + 1 := by omega
      rw [List.filter_cons_of_pos (by simpa using hx), e, List.take_succ_cons, ih h.2]
    · have e : d - k = 0 := by omega
      rw [List.filter_cons_of_neg (by simpa using hx), e, List.take_zero]
      rw [ih h.2]
      have : d - (k + 1) = 0 := by omega
      rw [this, List.take_zero]

/-- … and filtering by `ci < index` is dropping the first `ci + 1 - k` elements -/
theorem filter_gt_contig {k : Nat} {m : List Entry} (h : contigFrom k m = true) (ci : Nat) :
    m.filter (fun e => decide (ci < e.index)) = m.drop (ci + 1 - k) := by
  induction m generalizing k with
  | nil => simp
  | cons x xs ih =>
    simp only [contigFrom_cons, Bool.and_eq_true, beq_iff_eq] at h
    by_cases hx : ci < x.index
    · have e : ci + 1 - k = 0 := by omega
      rw [List.filter_cons_of_pos (by simpa using hx), e, List.drop_zero, ih h.2]
      have : ci + 1 - (k + 1) = 0 := by omega
      rw [this, List.drop_zero]
    · have e : ci + 1 - k = (ci + 1 - (k + 1)) + 1 := by omega
      rw [List.filter_cons_of_neg (by simpa using hx), e, List.drop_succ_cons, ih h.2]

theorem firstIdx_contig {k : Nat} {m : List Entry} (h : contigFrom k m = true) (hne : m ≠ []) : firstIdx m = k := by
  cases m with
  | nil => exact absurd rfl hne
  | cons x xs =>
    simp only [contigFrom_cons, Bool.and_eq_true, beq_iff_eq] at h
    simp [firstIdx, h.1]

theorem lastIdx_contig {k : Nat} {m : List Entry} (h : contigFrom k m = true) (hne : m ≠ []) :
    lastIdx m + 1 = k + m.length := by
  induction m generalizing k with
  | nil => exact absurd rfl hne
  | cons x xs ih =>
    simp only [contigFrom_cons, Bool.and_eq_true, beq_iff_eq] at h
    cases xs with
    | nil => simp [lastIdx, h.1]
    | cons y ys =>
      have := ih h.2 (by simp)
      simp only [lastIdx, List.getLast?_cons_cons, List.length_cons] at this ⊢
      omega

@[simp] theorem firstIdx_nil : firstIdx [] = 0 := rfl
@[simp] theorem lastIdx_nil : lastIdx [] = 0 := rfl

theorem lastIdx_append_singleton (m : List Entry) (e : Entry) : lastIdx (m ++ [e]) = e.index := by
  simp [lastIdx]

theorem lastIdx_append {m es : List Entry} (h : es ≠ []) : lastIdx (m ++ es) = lastIdx es := by
  cases hl : es.getLast? with
  | none => simp [List.getLast?_eq_none_iff] at hl; exact absurd hl h
  | some e => simp [lastIdx, hl]

theorem firstIdx_append {m es : List Entry} (h : m ≠ []) : firstIdx (m ++ es) = firstIdx m := by
  cases m with
  | nil => exact absurd rfl h
  | cons x xs => simp [firstIdx]

theorem firstIdx_take {m : List Entry} {n : Nat} (hn : 0 < n) : firstIdx (m.take n) = firstIdx m := by
  cases m with
  | nil => simp
  | cons x xs =>
    cases n with
    | zero => omega
    | succ n => simp [firstIdx]

/-- a contiguous non-empty run has positive indexes iff it starts at a positive index; its last index is ≥ its first -/
theorem firstIdx_le_lastIdx {k : Nat} {m : List Entry} (h : contigFrom k m = true) (hne : m ≠ []) :
    firstIdx m ≤ lastIdx m := by
  have h1 := firstIdx_contig h hne
  have h2 := lastIdx_contig h hne
  have : 0 < m.length := List.length_pos_iff.mpr hne
  omega

/-! ### lookup -/

theorem lookup_of_mem_contig {k : Nat} {m : List Entry} (h : contigFrom k m = true) {e : Entry} (he : e ∈ m) :
    lookup m e.index = some e := by
  induction m generalizing k with
  | nil => cases he
  | cons x xs ih =>
    simp only [contigFrom_cons, Bool.and_eq_true, beq_iff_eq] at h
    rcases List.mem_cons.mp he with rfl | hm
    · simp [lookup]
    · have hk := contigFrom_mem h.2 hm
      have hne : (x.index == e.index) = false := by
        have : ¬ x.index = e.index := by omega
        simpa using this
      simp only [lookup, List.find?_cons, hne]
      exact ih h.2 hm

theorem lookup_eq_none_of_not_range {k : Nat} {m : List Entry} (h : contigFrom k m = true) {i : Nat}
    (hi : i < k ∨ k + m.length ≤ i) : lookup m i = none := by
  simp only [lookup, List.find?_eq_none, beq_iff_eq]
  intro x hx hxi
  have := contigFrom_mem h hx
  omega

theorem exists_mem_of_range {k : Nat} {m : List Entry} (h : contigFrom k m = true) {i : Nat}
    (h1 : k ≤ i) (h2 : i < k + m.length) : ∃ e ∈ m, e.index = i := by
  induction m generalizing k with
  | nil => simp at h2; omega
  | cons x xs ih =>
    simp only [contigFrom_cons, Bool.and_eq_true, beq_iff_eq] at h
    by_cases hik : i = k
    · exact ⟨x, by simp, by omega⟩
    · simp only [List.length_cons] at h2
      obtain ⟨e, he, hei⟩ := ih h.2 (by omega) (by omega)
      exact ⟨e, List.mem_cons_of_mem _ he, hei⟩

theorem lookup_some_iff {k : Nat} {m : List Entry} (h : contigFrom k m = true) {i : Nat} {e : Entry} :
    lookup m i = some e ↔ e ∈ m ∧ e.index = i := by
  constructor
  · intro hl
    have h1 := List.mem_of_find?_eq_some hl
    have h2 := List.find?_some hl
    exact ⟨h1, by simpa using h2⟩
  · rintro ⟨he, rfl⟩
    exact lookup_of_mem_contig h he

/-! ### tail insertion -/

theorem insertE_above {m : List Entry} {e : Entry} (h : ∀ x ∈ m, x.index < e.index) : insertE e m = m ++ [e] := by
  induction m with
  | nil => rfl
  | cons x xs ih =>
    have hx := h x (by simp)
    have h1 : ¬ e.index < x.index := by omega
    have h2 : ¬ e.index = x.index := by omega
    simp only [insertE, h1, h2, if_false, List.cons_append]
    rw [ih (fun y hy => h y (List.mem_cons_of_mem _ hy))]

theorem insertAll_above {m es : List Entry} {k : Nat} (h : ∀ x ∈ m, x.index < k) (hc : contigFrom k es = true) :
    insertAll m es = m ++ es := by
  induction es generalizing m k with
  | nil => simp [insertAll]
  | cons e es ih =>
    simp only [contigFrom_cons, Bool.and_eq_true, beq_iff_eq] at hc
    simp only [insertAll]
    rw [insertE_above (fun x hx => by have := h x hx; omega)]
    rw [ih (k := k + 1) _ hc.2]
    · simp
    · intro x hx
      rcases List.mem_append.mp hx with hx | hx
      · have := h x hx; omega
      · simp at hx; subst hx; omega

end DEngine.BufLog
