import DEngine.Model.Apply
/-!
Helper lemmas for C06 (M-APPLY): numbered log segments, the `process_batch` loop, `dispatched_up_to`.
-/
namespace DEngine.Apply

/-! ### `number` and log segments -/

theorem number_length (i : Nat) (ps : List Payload) : (number i ps).length = ps.length := by
  induction ps generalizing i with
  | nil => rfl
  | cons p ps ih => simp [number, ih]

theorem number_append (i : Nat) (a b : List Payload) :
    number i (a ++ b) = number i a ++ number (i + a.length) b := by
  induction a generalizing i with
  | nil => simp [number]
  | cons p ps ih =>
    simp only [List.cons_append, number, List.length_cons, ih]
    have : i + 1 + ps.length = i + (ps.length + 1) := by omega
    rw [this]

theorem number_map_fst (i : Nat) (ps : List Payload) :
    (number i ps).map (·.1) = List.range' i ps.length := by
  induction ps generalizing i with
  | nil => rfl
  | cons p ps ih => simp [number, ih, List.range'_succ]

theorem number_snd_mem (i : Nat) (ps : List Payload) (e : IEntry) (h : e ∈ number i ps) : e.2 ∈ ps := by
  induction ps generalizing i with
  | nil => simp [number] at h
  | cons p ps ih =>
    simp only [number, List.mem_cons] at h
    rcases h with h | h
    · subst h; simp
    · exact List.mem_cons_of_mem _ (ih _ h)

theorem lastIdx_number (i : Nat) (ps : List Payload) (h : ps ≠ []) :
    lastIdx (number i ps) = i + ps.length - 1 := by
  induction ps generalizing i with
  | nil => exact absurd rfl h
  | cons p ps ih =>
    cases ps with
    | nil => simp [number, lastIdx]
    | cons q qs =>
      have := ih (i + 1) (by simp)
      simp only [number, lastIdx, List.getLast?_cons_cons, List.length_cons] at this ⊢
      rw [this]; omega

/-- Entries `lo+1 ..= hi` of the log (as many of them as exist). -/
def seg (log : List Payload) (lo hi : Nat) : Batch := number (lo + 1) ((log.drop lo).take (hi - lo))

theorem seg_length (log : List Payload) (lo hi : Nat) (h : hi ≤ log.length) :
    (seg log lo hi).length = hi - lo := by
  simp [seg, number_length, List.length_take, List.length_drop]; omega

theorem seg_self (log : List Payload) (lo : Nat) : seg log lo lo = [] := by simp [seg, number]

theorem seg_split (log : List Payload) (lo mid hi : Nat) (h1 : lo ≤ mid) (h2 : mid ≤ hi)
    (h3 : mid ≤ log.length) :
    seg log lo hi = seg log lo mid ++ seg log mid hi := by
  unfold seg
  have e : hi - lo = (mid - lo) + (hi - mid) := by omega
  rw [e, List.take_add, number_append]
  congr 1
  simp only [List.length_take, List.length_drop, List.drop_drop]
  have : min (mid - lo) (log.length - lo) = mid - lo := by omega
  rw [this]
  have e1 : lo + 1 + (mid - lo) = mid + 1 := by omega
  have e2 : lo + (mid - lo) = mid := by omega
  rw [e1, e2]

theorem seg_append_log (log : List Payload) (p : Payload) (lo hi : Nat) (h : hi ≤ log.length) :
    seg (log ++ [p]) lo hi = seg log lo hi := by
  unfold seg
  by_cases hlo : lo ≤ log.length
  · rw [List.drop_append_of_le_length hlo, List.take_append_of_le_length]
    simp [List.length_drop]; omega
  · have : hi - lo = 0 := by omega
    simp [this]

theorem seg_clamp (log : List Payload) (lo hi : Nat) :
    seg log lo hi = seg log lo (min hi (max lo log.length)) := by
  unfold seg
  congr 1
  apply List.take_eq_take_iff.mpr
  simp [List.length_drop]; omega

/-- Splitting an append that equals a segment. -/
theorem seg_append_inj (log : List Payload) (lo hi : Nat) (l1 l2 : Batch)
    (hhi : hi ≤ log.length) (hlo : lo ≤ hi) (h : l1 ++ l2 = seg log lo hi) :
    lo + l1.length ≤ hi ∧ l1 = seg log lo (lo + l1.length) ∧ l2 = seg log (lo + l1.length) hi := by
  have hlen : l1.length + l2.length = hi - lo := by
    have := congrArg List.length h
    rw [List.length_append, seg_length log lo hi hhi] at this; exact this
  have hle : lo + l1.length ≤ hi := by omega
  rw [seg_split log lo (lo + l1.length) hi (by omega) hle (by omega)] at h
  have hl : l1.length = (seg log lo (lo + l1.length)).length := by
    rw [seg_length _ _ _ (by omega)]; omega
  have := List.append_inj h hl
  exact ⟨hle, this.1, this.2⟩

theorem seg_map_fst (log : List Payload) (lo hi : Nat) (h : hi ≤ log.length) :
    (seg log lo hi).map (·.1) = List.range' (lo + 1) (hi - lo) := by
  unfold seg
  rw [number_map_fst]
  congr 1
  simp [List.length_take, List.length_drop]; omega

theorem lastIdx_seg (log : List Payload) (lo hi : Nat) (h : hi ≤ log.length) (hlt : lo < hi) :
    lastIdx (seg log lo hi) = hi := by
  unfold seg
  have hl : ((log.drop lo).take (hi - lo)).length = hi - lo := by
    simp [List.length_take, List.length_drop]; omega
  rw [lastIdx_number _ _ (by intro h0; rw [h0] at hl; simp at hl; omega), hl]
  omega

theorem seg_snd_mem (log : List Payload) (lo hi : Nat) (e : IEntry) (h : e ∈ seg log lo hi) :
    e.2 ∈ log := by
  have := number_snd_mem _ _ e h
  exact List.mem_of_mem_drop (List.mem_of_mem_take this)

/-- `get_entries_range(lo..=hi)` is the segment `lo-1 .. hi` (for `lo ≥ 1`). -/
theorem entriesFrom_eq_seg (log : List Payload) (lo hi : Nat) :
    entriesFrom log 0 (lo + 1) hi = seg log lo hi := by
  unfold entriesFrom seg
  have : max (lo + 1) (0 + 1) = lo + 1 := by omega
  simp only [this]
  have e : hi + 1 - (lo + 1) = hi - lo := by omega
  rw [e]
  congr 2

/-! ### The `process_batch` loop -/

theorem pb_fold_flatten (es : Batch) (a : PB) (hne : ∀ e ∈ es, e.2 ≠ Payload.empty) :
    (es.foldl pbStep a).sent.flatten ++ (es.foldl pbStep a).batch = a.sent.flatten ++ a.batch ++ es := by
  induction es generalizing a with
  | nil => simp
  | cons e es ih =>
    rw [List.foldl_cons, ih _ (fun x hx => hne x (List.mem_cons_of_mem _ hx))]
    have he := hne e (by simp)
    unfold pbStep
    split <;> simp_all

theorem pb_fold_nonempty (es : Batch) (a : PB) (h : ∀ b ∈ a.sent, b ≠ []) :
    ∀ b ∈ (es.foldl pbStep a).sent, b ≠ [] := by
  induction es generalizing a with
  | nil => simpa using h
  | cons e es ih =>
    rw [List.foldl_cons]
    apply ih
    unfold pbStep
    split <;> simp_all <;>
    · intro b hb
      rcases hb with hb | hb
      · exact h b hb
      · subst hb; simp

theorem pbFinish_prefix (a : PB) (h : ∀ b ∈ a.sent, b ≠ []) :
    (∀ b ∈ pbFinish a, b ≠ []) ∧
    ∃ rest, a.sent.flatten ++ a.batch = (pbFinish a).flatten ++ rest ∧ (a.err = false → rest = []) := by
  unfold pbFinish
  split
  · rename_i he
    exact ⟨h, a.batch, rfl, by simp [he]⟩
  · split
    · rename_i hb
      have : a.batch = [] := by simpa using hb
      exact ⟨h, [], by simp [this], fun _ => rfl⟩
    · rename_i hb
      have : a.batch ≠ [] := by simpa using hb
      refine ⟨?_, [], by simp, fun _ => rfl⟩
      intro b hb'
      simp only [List.mem_append, List.mem_singleton] at hb'
      rcases hb' with hb' | hb'
      · exact h b hb'
      · subst hb'; exact this

/-- All batches sent by one `process_batch` call, concatenated, are a prefix of the fetched entries;
    the whole of them when no config change failed. -/
theorem processEntries_prefix (es : Batch) (hne : ∀ e ∈ es, e.2 ≠ Payload.empty) :
    (∀ b ∈ pbFinish (es.foldl pbStep {}), b ≠ []) ∧
    ∃ rest, es = (pbFinish (es.foldl pbStep {})).flatten ++ rest ∧
      ((es.foldl pbStep {}).err = false → rest = []) := by
  have hf := pb_fold_flatten es {} hne
  have hn := pb_fold_nonempty es {} (by simp)
  obtain ⟨h1, rest, h2, h3⟩ := pbFinish_prefix (es.foldl pbStep {}) hn
  refine ⟨h1, rest, ?_, h3⟩
  rw [← h2, hf]; simp

/-! ### `dispatched_up_to` -/

theorem dispatchedAfter_seg (log : List Payload) (sent : List Batch) (d e k : Nat)
    (hne : ∀ b ∈ sent, b ≠ []) (hflat : sent.flatten = seg log e (e + k))
    (hlog : e + k ≤ log.length) (hd : d ≤ e) :
    dispatchedAfter d sent = if k = 0 then d else e + k := by
  induction sent generalizing d e k with
  | nil =>
    have : (seg log e (e + k)).length = 0 := by rw [← hflat]; rfl
    rw [seg_length _ _ _ hlog] at this
    have : k = 0 := by omega
    simp [dispatchedAfter, this]
  | cons b rest ih =>
    simp only [List.flatten_cons] at hflat
    obtain ⟨hle, hb, hrest⟩ := seg_append_inj log e (e + k) b rest.flatten hlog (by omega) hflat
    have hbne : b ≠ [] := hne b (by simp)
    have hblen : 0 < b.length := List.length_pos_iff.mpr hbne
    have hlast : lastIdx b = e + b.length := by
      rw [hb, seg_length _ _ _ (by omega)]
      have : e + (e + b.length - e) = e + b.length := by omega
      rw [this]
      exact lastIdx_seg log e (e + b.length) (by omega) (by omega)
    have hk : e + b.length + (k - b.length) = e + k := by omega
    have := ih (max d (e + b.length)) (e + b.length) (k - b.length)
      (fun x hx => hne x (List.mem_cons_of_mem _ hx)) (by rw [hk]; exact hrest) (by omega) (by omega)
    simp only [dispatchedAfter, List.foldl_cons] at this ⊢
    rw [hlast, this]
    have hk0 : k ≠ 0 := by omega
    simp only [hk0, if_false]
    split <;> omega

/-! ### Membership calls made by the `process_batch` loop -/

/-- Config entries of a batch as (index, membership accepts it). -/
def cfgOf (es : Batch) : List (Nat × Bool) :=
  es.filterMap (fun e => match e.2 with | .config ok => some (e.1, ok) | _ => none)

theorem cfgOf_append (a b : Batch) : cfgOf (a ++ b) = cfgOf a ++ cfgOf b := by
  unfold cfgOf; exact List.filterMap_append

/-- Membership is called for every Config entry of the fetched entries, in order, exactly once — also
    after an earlier change of the same `process_batch` call was rejected (fix ff1aa00). -/
theorem pb_fold_cfg_all (es : Batch) (a : PB) :
    (es.foldl pbStep a).cfg = a.cfg ++ cfgOf es := by
  induction es generalizing a with
  | nil => simp [cfgOf]
  | cons e es ih =>
    rw [List.foldl_cons, ih]
    have hstep : (pbStep a e).cfg = a.cfg ++ cfgOf [e] := by
      unfold pbStep cfgOf
      split <;> simp_all
    rw [hstep, List.append_assoc, ← cfgOf_append]
    rfl

/-- Without a rejected change the loop ends without error (nothing is held back). -/
theorem pb_fold_cfg (es : Batch) (a : PB) (hok : ∀ e ∈ es, e.2 ≠ Payload.config false) (ha : a.err = false) :
    (es.foldl pbStep a).err = false ∧ (es.foldl pbStep a).cfg = a.cfg ++ cfgOf es := by
  refine ⟨?_, pb_fold_cfg_all es a⟩
  induction es generalizing a with
  | nil => exact ha
  | cons e es ih =>
    rw [List.foldl_cons]
    apply ih _ (fun x hx => hok x (List.mem_cons_of_mem _ hx))
    have he := hok e (by simp)
    unfold pbStep
    split <;> simp_all

/-- `command_batch` never holds a Config entry (a Config entry flushes the batch it is pushed into). -/
theorem pb_fold_batch_noconfig (es : Batch) (a : PB) (h : cfgOf a.batch = []) :
    cfgOf (es.foldl pbStep a).batch = [] := by
  induction es generalizing a with
  | nil => exact h
  | cons e es ih =>
    rw [List.foldl_cons]
    apply ih
    unfold pbStep
    split
    · rename_i c hc
      show cfgOf (a.batch ++ [e]) = []
      rw [cfgOf_append, h]; simp [cfgOf, hc]
    · rename_i hc
      show cfgOf (a.batch ++ [e]) = []
      rw [cfgOf_append, h]; simp [cfgOf, hc]
    · rfl
    · rfl
    · exact h

/-- Whatever `process_batch` leaves unsent (the tail dropped on its early `Err` return) contains no Config
    entry: every Config entry of the fetched range is dispatched. -/
theorem processEntries_rest_noconfig (es rest : Batch) (hne : ∀ e ∈ es, e.2 ≠ Payload.empty)
    (h : es = (pbFinish (es.foldl pbStep {})).flatten ++ rest) : cfgOf rest = [] := by
  have hf := pb_fold_flatten es {} hne
  simp only [List.flatten_nil, List.nil_append] at hf
  have hb := pb_fold_batch_noconfig es {} rfl
  generalize es.foldl pbStep {} = a at hf hb h
  unfold pbFinish at h
  split at h
  · rw [← hf] at h
    have := List.append_cancel_left h
    rw [← this]; exact hb
  · split at h
    · rw [← hf] at h
      have := List.append_cancel_left h
      rw [← this]; exact hb
    · rw [← hf, List.flatten_append] at h
      simp only [List.flatten_cons, List.flatten_nil, List.append_nil, List.append_assoc] at h
      have h1 := List.append_cancel_left h
      have : rest = [] := List.self_eq_append_right.mp h1
      rw [this]; rfl

end DEngine.Apply
