/-
  C05, towards leader completeness: provenance lemmas — how the ghost map, the commit records, the vote grants and the
  elections change in one step.
-/
import DEngine.Lemmas.ClusterCompleteMsg
namespace DEngine.Cluster

theorem recordCommit_ghost (c : Cluster) (i : NodeId) (b : Nat) : (recordCommit c i b).ghost = c.ghost := by
  unfold recordCommit; split <;> rfl

/-- the ghost map grows by the one entry a leader creates -/
def GhostGrow (c c' : Cluster) : Prop :=
  c'.ghost = c.ghost ∨ ∃ i p T, c'.ghost = c.ghost ++ [⟨lastIndex (c.nodes i).log + 1, T, p, lastTermOf (c.nodes i).log⟩] ∧
    (c'.nodes i).log = (c.nodes i).log ++ [⟨lastIndex (c.nodes i).log + 1, T, p⟩] ∧ (c'.nodes i).term = T ∧
    (c.nodes i).term = T ∧ (c'.nodes i).role = .leader

theorem leaderRound_grow (c0 c : Cluster) (i : NodeId) (nd : Node) (p : Option Nat) (hg : c.ghost = c0.ghost)
    (hlog : nd.log = (c0.nodes i).log) (hterm : nd.term = (c0.nodes i).term) (hrole : nd.role = .leader) :
    GhostGrow c0 (leaderRound c i nd p) := by
  cases p with
  | none => left; simp [leaderRound, addMsgs, ghostNew, hg]
  | some x =>
    right
    refine ⟨i, x, nd.term, ?_, ?_, ?_, hterm.symm, ?_⟩
    · simp [leaderRound, addMsgs, ghostNew, hg, hlog]
    · rw [leaderRound_node, if_pos rfl, (replicate_spec _ _ _ _ _).1]; simp [newEntries, hlog]
    · rw [leaderRound_node, if_pos rfl, (replicate_spec _ _ _ _ _).2.2]
    · rw [leaderRound_node, if_pos rfl, (replicate_spec _ _ _ _ _).2.1]; exact hrole

theorem ghost_step (c : Cluster) (e : Event) : GhostGrow c (step c e).1 := by
  cases e with
  | tick i =>
    simp only [step]; unfold stepTick; dsimp only
    split
    · exact Or.inl rfl
    · split
      · exact Or.inl rfl
      · split <;> exact Or.inl rfl
      · next hrole => exact leaderRound_grow c c i _ none rfl rfl rfl hrole
  | voteReq a b =>
    simp only [step]; unfold stepVoteReq; dsimp only
    split
    · split <;> exact Or.inl rfl
    · exact Or.inl rfl
  | voteResp a b =>
    simp only [step]; unfold stepVoteResp; dsimp only
    split
    · split
      · split <;> exact Or.inl rfl
      · exact Or.inl rfl
    · exact Or.inl rfl
  | voteEnd i =>
    simp only [step]; unfold stepVoteEnd; dsimp only
    split
    · split
      · exact Or.inl rfl
      · split
        · exact leaderRound_grow c _ i _ (some 0) rfl rfl rfl rfl
        · exact Or.inl rfl
        · exact Or.inl rfl
        · exact Or.inl rfl
    · exact Or.inl rfl
  | write i w =>
    simp only [step]; unfold stepWrite; dsimp only
    split
    · exact Or.inl rfl
    · split
      · next hrole =>
        simp at hrole
        rcases leaderRound_grow c c i (c.nodes i) (some (w + 1)) rfl rfl rfl hrole with h | ⟨i', p, T, h1, h2, h3, h4, h5⟩
        · exact Or.inl h
        · right
          by_cases hi : i' = i
          · subst hi
            exact ⟨i', p, T, h1, by simpa using h2, by simpa using h3, h4, by simpa using h5⟩
          · refine ⟨i', p, T, h1, ?_, ?_, h4, ?_⟩
            · show (setNode _ i _ i').log = _; rw [setNode_other _ _ hi]; exact h2
            · show (setNode _ i _ i').term = _; rw [setNode_other _ _ hi]; exact h3
            · show (setNode _ i _ i').role = _; rw [setNode_other _ _ hi]; exact h5
      · exact Or.inl rfl
  | deliverAe m =>
    simp only [step]; unfold stepDeliverAe; dsimp only
    split
    · split
      · exact Or.inl rfl
      · split <;> exact Or.inl rfl
    · exact Or.inl rfl
  | deliverResp m =>
    simp only [step]; unfold stepDeliverResp; dsimp only
    split
    · split
      · exact Or.inl rfl
      · split
        · exact Or.inl rfl
        · left; rw [recordCommit_ghost]; rfl
    · exact Or.inl rfl
  | drop m => exact Or.inl rfl
  | dup m =>
    simp only [step]; unfold stepDup; (try dsimp only)
    split <;> exact Or.inl rfl
  | streamErr l p =>
    simp only [step]; unfold stepStreamErr; dsimp only
    split
    · exact Or.inl rfl
    · split
      · split <;> exact Or.inl rfl
      · exact Or.inl rfl
  | streamClosed l p =>
    simp only [step]; unfold stepStreamClosed; dsimp only
    split
    · exact Or.inl rfl
    · split
      · split <;> exact Or.inl rfl
      · exact Or.inl rfl
  | logFlushed i =>
    simp only [step]; unfold stepLogFlushed; dsimp only
    split
    · exact Or.inl rfl
    · split
      · left; rw [recordCommit_ghost]
      · exact Or.inl rfl
  | applyCompleted i k =>
    simp only [step]; unfold stepApplyCompleted; dsimp only
    split
    · exact Or.inl rfl
    · split <;> exact Or.inl rfl
  | crash i k =>
    simp only [step]; unfold stepDown'; dsimp only
    split
    · exact Or.inl rfl
    · split <;> exact Or.inl rfl
  | stop i =>
    simp only [step]; unfold stepDown'; dsimp only
    split
    · exact Or.inl rfl
    · split <;> exact Or.inl rfl
  | start i =>
    simp only [step]; unfold stepStart; (try dsimp only)
    split <;> exact Or.inl rfl
  | nop => exact Or.inl rfl

end DEngine.Cluster
