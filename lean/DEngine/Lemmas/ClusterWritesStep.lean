/-
  Every step of the cluster model preserves the client-write invariant `WInv` (Lemmas/ClusterWrites.lean).
-/
import DEngine.Lemmas.ClusterWrites
namespace DEngine.Cluster

theorem lists_empty_of_not_leader {c : Cluster} (h : WInv c) (i : NodeId) (hr : (c.nodes i).role ≠ .leader) :
    (c.nodes i).pendingWrites = [] ∧ (c.nodes i).pendingApply = [] := by
  constructor
  · apply List.eq_nil_iff_forall_not_mem.mpr
    intro w hw; exact hr (h.pending i w (Or.inl hw)).1
  · apply List.eq_nil_iff_forall_not_mem.mpr
    intro w hw; exact hr (h.pending i w (Or.inr hw)).1

/-- a node that is not leader may change role / term / log freely as long as its (empty) queues are untouched -/
theorem pendRel_nonleader {c : Cluster} (h : WInv c) (i : NodeId) (nd' : Node) (hr : (c.nodes i).role ≠ .leader)
    (h1 : nd'.pendingWrites = (c.nodes i).pendingWrites) (h2 : nd'.pendingApply = (c.nodes i).pendingApply) :
    PendRel (c.nodes i) nd' := by
  have := lists_empty_of_not_leader h i hr
  exact Or.inl ⟨by rw [h1, this.1], by rw [h2, this.2]⟩

theorem same_commits {c : Cluster} : ∀ p ∈ c.commits, p ∈ c.commits := fun _ h => h

theorem recordCommit_commits_sub (c : Cluster) (i : NodeId) (b : Nat) : ∀ p ∈ c.commits, p ∈ (recordCommit c i b).commits := by
  intro p hp; unfold recordCommit; split
  · exact List.mem_cons_of_mem _ hp
  · exact hp

theorem recordCommit_noop (c : Cluster) (i : NodeId) (b : Nat) (h : (c.nodes i).commit ≤ b) : recordCommit c i b = c := by
  unfold recordCommit
  split
  · next hc => simp at hc; omega
  · rfl

theorem leaderRound_pend (c : Cluster) (i : NodeId) (p : Option Nat) (j : NodeId) :
    PendRel (c.nodes j) ((leaderRound c i (c.nodes i) p).nodes j) := by
  simp only [leaderRound, addMsgs]
  by_cases hj : j = i
  · subst hj
    simp only [setNode_same]
    exact Or.inr ⟨by simp [replicate], by simp [replicate], by simp [replicate],
      fun _ => ⟨by simp [replicate], by intro e he; simp [replicate, he]⟩⟩
  · rw [setNode_other _ _ hj]; exact pendRel_refl _

theorem winv_leaderRound {c : Cluster} (h : WInv c) (i : NodeId) (p : Option Nat) :
    WInv (leaderRound c i (c.nodes i) p) :=
  winv_of_pendRel h (fun _ hp => hp) rfl (leaderRound_pend c i p)

theorem onAppendResponse_commit_cases (n : Node) (src rt : Nat) (res : AeResult) :
    PendRel n (onAppendResponse n src rt res).1 ∧ (onAppendResponse n src rt res).1.commit ≤ n.commit ∨
    ∃ nd1 : Node, nd1.role = n.role ∧ nd1.term = n.term ∧ nd1.log = n.log ∧ nd1.pendingWrites = n.pendingWrites ∧
      nd1.pendingApply = n.pendingApply ∧ nd1.commit = n.commit ∧ (onAppendResponse n src rt res).1 = (applyLeaderCommit nd1).1 := by
  unfold onAppendResponse
  split
  · left; exact ⟨pendRel_refl n, Nat.le_refl _⟩
  · next hrole =>
    simp at hrole
    split
    · left; exact ⟨pendRel_refl n, Nat.le_refl _⟩
    · split
      · left
        have := stepDown_lists n rt hrole
        refine ⟨Or.inl this, ?_⟩
        simp [stepDown, becomeFollower, hrole]
      · split
        · next last =>
          right
          exact ⟨{ n with peers := updatePeer n.peers src fun p =>
              { p with next := max (max ((last.getD (0, 0)).1 + 1) p.next) (p.mtch + 1),
                       mtch := if (last.getD (0, 0)).1 > p.mtch then (last.getD (0, 0)).1 else p.mtch } },
            rfl, rfl, rfl, rfl, rfl, rfl, rfl⟩
        · left; exact ⟨Or.inr ⟨rfl, rfl, rfl, fun _ => ⟨rfl, fun _ h => h⟩⟩, Nat.le_refl _⟩
        · split
          · next t _ =>
            left
            have := stepDown_lists n t hrole
            refine ⟨Or.inl this, ?_⟩
            simp [stepDown, becomeFollower, hrole]
          · left; exact ⟨pendRel_refl n, Nat.le_refl _⟩

theorem step_winv {c : Cluster} (h : WInv c) (e : Event) : WInv (step c e).1 := by
  cases e with
  | tick i =>
    simp only [step]; unfold stepTick; dsimp only
    split
    · exact h
    · split
      · next hr =>
        exact winv_update1 h i _ rfl same_commits rfl (pendRel_nonleader h i _ (by rw [hr]; simp) rfl rfl)
      · next hr =>
        split
        · exact h
        · exact winv_update1 h i _ rfl same_commits rfl (pendRel_nonleader h i _ (by rw [hr]; simp) rfl rfl)
      · exact winv_leaderRound h i none
  | voteReq a b =>
    simp only [step]; unfold stepVoteReq; dsimp only
    split
    · split
      · exact h
      · refine winv_of_pendRel h same_commits rfl ?_
        intro j
        show PendRel (c.nodes j) (setNode (setNode c.nodes b _) a _ j)
        by_cases hja : j = a
        · subst hja; simp only [setNode_same]
          exact Or.inr ⟨rfl, rfl, rfl, fun _ => ⟨rfl, fun _ h => h⟩⟩
        · rw [setNode_other _ _ hja]
          by_cases hjb : j = b
          · subst hjb; simp only [setNode_same]; exact onVoteRequest_pend _ _
          · rw [setNode_other _ _ hjb]; exact pendRel_refl _
    · exact h
  | voteResp a b =>
    simp only [step]; unfold stepVoteResp; dsimp only
    split
    · split
      · split
        · exact h
        · exact winv_update1 h a _ rfl same_commits rfl (Or.inr ⟨rfl, rfl, rfl, fun _ => ⟨rfl, fun _ h => h⟩⟩)
      · exact h
    · exact h
  | voteEnd i =>
    simp only [step]; unfold stepVoteEnd; dsimp only
    split
    · next el hel =>
      split
      · exact h
      · split
        · -- won: the candidate's queues are empty, then a leader round
          by_cases hr : (c.nodes i).role = .leader
          · -- (cannot happen, but harmless) treat as generic: queues unchanged by asLeader
            have h1 : WInv { c with nodes := setNode c.nodes i (asLeader i c.n (c.nodes i)),
                                    leaderTerms := ((c.nodes i).term, i) :: c.leaderTerms } :=
              winv_update1 h i _ rfl same_commits rfl
                (Or.inr ⟨rfl, rfl, by simp [asLeader, hr], fun _ => ⟨rfl, fun _ h => h⟩⟩)
            have h2 := winv_leaderRound h1 i (some 0)
            simp only [setNode_same] at h2
            have heq : leaderRound { c with nodes := setNode c.nodes i (asLeader i c.n (c.nodes i)),
                                            leaderTerms := ((c.nodes i).term, i) :: c.leaderTerms }
                  i (asLeader i c.n (c.nodes i)) (some 0)
                = leaderRound { c with leaderTerms := ((c.nodes i).term, i) :: c.leaderTerms } i
                    (asLeader i c.n (c.nodes i)) (some 0) := by
              simp only [leaderRound, addMsgs, setNode_setNode]
            rw [heq] at h2; exact h2
          · have h1 : WInv { c with nodes := setNode c.nodes i (asLeader i c.n (c.nodes i)),
                                    leaderTerms := ((c.nodes i).term, i) :: c.leaderTerms } :=
              winv_update1 h i _ rfl same_commits rfl (pendRel_nonleader h i _ hr rfl rfl)
            have h2 := winv_leaderRound h1 i (some 0)
            simp only [setNode_same] at h2
            have heq : leaderRound { c with nodes := setNode c.nodes i (asLeader i c.n (c.nodes i)),
                                            leaderTerms := ((c.nodes i).term, i) :: c.leaderTerms }
                  i (asLeader i c.n (c.nodes i)) (some 0)
                = leaderRound { c with leaderTerms := ((c.nodes i).term, i) :: c.leaderTerms } i
                    (asLeader i c.n (c.nodes i)) (some 0) := by
              simp only [leaderRound, addMsgs, setNode_setNode]
            rw [heq] at h2; exact h2
        · next t _ =>
          refine winv_update1 h i _ rfl same_commits rfl ?_
          have := becomeFollower_pend { (c.nodes i) with election := none, term := t }
          rcases this with h1 | ⟨h1, h2, h3, h4⟩
          · exact Or.inl h1
          · by_cases hr : (c.nodes i).role = .leader
            · -- a leader is never blocked in an election; becomeFollower clears anyway
              have := becomeFollower_lists { (c.nodes i) with election := none, term := t } (by simp [hr])
              exact Or.inl this
            · exact pendRel_nonleader h i _ hr h1 h2
        · exact winv_update1 h i _ rfl same_commits rfl (Or.inr ⟨rfl, rfl, rfl, fun _ => ⟨rfl, fun _ h => h⟩⟩)
        · exact winv_update1 h i _ rfl same_commits rfl (Or.inr ⟨rfl, rfl, rfl, fun _ => ⟨rfl, fun _ h => h⟩⟩)
    · exact h
  | write i x =>
    simp only [step]; unfold stepWrite; dsimp only
    split
    · exact h
    · split
      · next hrole =>
        simp at hrole
        have h1 := winv_leaderRound h i (some (x + 1))
        -- add the new write to the queue: its entry is the one just appended
        have hlog := leaderRound_log c i (c.nodes i) (some (x + 1)) i
        simp only [if_true] at hlog
        have hrt : ((leaderRound c i (c.nodes i) (some (x + 1))).nodes i).term = (c.nodes i).term ∧
            ((leaderRound c i (c.nodes i) (some (x + 1))).nodes i).role = (c.nodes i).role := by
          simp [leaderRound, addMsgs, replicate]
        refine ⟨?_, ?_, h1.acked⟩
        · intro j w hw
          by_cases hj : j = i
          · subst hj
            simp only [setNode_same] at hw ⊢
            rcases hw with hw | hw
            · rcases List.mem_append.mp hw with hw | hw
              · exact h1.pending j w (Or.inl hw)
              · simp at hw; subst hw
                refine ⟨by rw [hrt.2]; exact hrole, ?_⟩
                rw [hlog]
                simp [entryOfWrite, newEntries, hrt.1]
            · exact h1.pending j w (Or.inr hw)
          · simp only [] at hw ⊢
            rw [setNode_other _ _ hj] at hw ⊢
            exact h1.pending j w hw
        · intro j w hw
          by_cases hj : j = i
          · subst hj
            simp only [setNode_same] at hw ⊢
            exact h1.applied j w hw
          · simp only [] at hw ⊢
            rw [setNode_other _ _ hj] at hw ⊢
            exact h1.applied j w hw
      · exact h
  | deliverAe m =>
    simp only [step]; unfold stepDeliverAe; dsimp only
    split
    · split
      · exact h
      · split
        · exact winv_update1 h _ _ rfl same_commits rfl (onAppendEntries_pend _ _)
        · exact winv_update1 h _ _ rfl same_commits rfl (onAppendEntries_pend _ _)
    · exact h
  | deliverResp m =>
    simp only [step]; unfold stepDeliverResp; dsimp only
    have hrem : WInv (removeMsg c m) := winv_of_pendRel h same_commits rfl (fun _ => pendRel_refl _)
    split
    · next src dst sid rterm res hfm =>
      split
      · exact hrem
      · split
        · exact hrem
        · rcases onAppendResponse_commit_cases ((removeMsg c m).nodes dst) src rterm res with ⟨hp, hc⟩ | ⟨nd1, h1, h2, h3, h4, h5, h6, h7⟩
          · rw [recordCommit_noop _ _ _ (by simpa using hc)]
            exact winv_update1 hrem dst _ rfl same_commits rfl hp
          · rw [h7]
            have := winv_commit hrem dst nd1 (removeMsg c m).msgs h1 h2 h3 h4 h5
            rw [h6] at this
            exact this
    · exact h
  | drop m => exact winv_of_pendRel h same_commits rfl (fun _ => pendRel_refl _)
  | dup m =>
    simp only [step]; unfold stepDup
    split
    · exact winv_of_pendRel h same_commits rfl (fun _ => pendRel_refl _)
    · exact h
  | streamErr l p =>
    simp only [step]; unfold stepStreamErr; dsimp only
    split
    · exact h
    · split
      · split
        · exact h
        · exact winv_update1 h l _ rfl same_commits rfl (Or.inr ⟨rfl, rfl, rfl, fun _ => ⟨rfl, fun _ h => h⟩⟩)
      · exact h
  | streamClosed l p =>
    simp only [step]; unfold stepStreamClosed; dsimp only
    split
    · exact h
    · split
      · split
        · exact h
        · exact winv_update1 h l _ rfl same_commits rfl (Or.inr ⟨rfl, rfl, rfl, fun _ => ⟨rfl, fun _ h => h⟩⟩)
      · exact h
  | logFlushed i =>
    simp only [step]; unfold stepLogFlushed; dsimp only
    split
    · exact h
    · split
      · unfold onLogFlushed
        split
        · have := winv_commit h i { (c.nodes i) with floor := lastIndex (c.nodes i).log, durable := lastIndex (c.nodes i).log }
            c.msgs rfl rfl rfl rfl rfl
          exact this
        · rw [recordCommit_noop _ _ _ (by simp)]
          exact winv_update1 h i _ rfl same_commits rfl (Or.inr ⟨rfl, rfl, rfl, fun _ => ⟨rfl, fun _ h => h⟩⟩)
      · exact winv_update1 h i _ rfl same_commits rfl (Or.inr ⟨rfl, rfl, rfl, fun _ => ⟨rfl, fun _ h => h⟩⟩)
  | applyCompleted i k =>
    simp only [step]; unfold stepApplyCompleted; dsimp only
    split
    · exact h
    · split
      · refine ⟨?_, ?_, ?_⟩
        · intro j w hw
          by_cases hj : j = i
          · subst hj
            simp only [setNode_same] at hw ⊢
            have : w ∈ (c.nodes j).pendingWrites ∨ w ∈ (c.nodes j).pendingApply := by
              rcases hw with hw | hw
              · exact Or.inl hw
              · exact Or.inr (List.mem_filter.mp hw).1
            exact h.pending j w this
          · simp only [] at hw ⊢
            rw [setNode_other _ _ hj] at hw ⊢
            exact h.pending j w hw
        · intro j w hw
          by_cases hj : j = i
          · subst hj
            simp only [setNode_same] at hw ⊢
            exact h.applied j w (List.mem_filter.mp hw).1
          · simp only [] at hw ⊢
            rw [setNode_other _ _ hj] at hw ⊢
            exact h.applied j w hw
        · intro a ha
          simp only [List.mem_append, List.mem_map] at ha
          rcases ha with ha | ⟨w, hw, hwa⟩
          · exact h.acked a ha
          · subst hwa
            exact h.applied i w (List.mem_filter.mp hw).1
      · exact h
  | crash i k =>
    simp only [step]; unfold stepDown'; dsimp only
    split
    · exact h
    · split
      · exact h
      · exact winv_update1 h i _ rfl same_commits rfl (Or.inl (by simp [downNode]))
  | stop i =>
    simp only [step]; unfold stepDown'; dsimp only
    split
    · exact h
    · split
      · exact h
      · exact winv_update1 h i _ rfl same_commits rfl (Or.inl (by simp [downNode]))
  | start i =>
    simp only [step]; unfold stepStart; dsimp only
    split
    · exact h
    · exact winv_update1 h i _ rfl same_commits rfl (Or.inl ⟨rfl, rfl⟩)
  | nop => exact h

end DEngine.Cluster
