import DEngine.Lemmas.BufLogStep
/-!
  The reference store as a set of entries: strictly index-sorted lists, membership after `insertE` / `insertAll`,
  extensionality of sorted lists. Used for the crash property (C18).
-/
namespace DEngine.BufLog

/-- strictly increasing indexes -/
def Sorted (l : List Entry) : Prop := l.Pairwise (fun a b => a.index < b.index)

theorem Sorted.nil : Sorted [] := List.Pairwise.nil

theorem Sorted.filter {l : List Entry} (h : Sorted l) (p : Entry → Bool) : Sorted (l.filter p) := List.Pairwise.filter p h

theorem sorted_of_contig {k : Nat} {m : List Entry} (h : contigFrom k m = true) : Sorted m := by
  induction m generalizing k with
  | nil => exact Sorted.nil
  | cons x xs ih =>
    simp only [contigFrom_cons, Bool.and_eq_true, beq_iff_eq] at h
    refine List.pairwise_cons.mpr ⟨?_, ih h.2⟩
    intro y hy
    have := contigFrom_mem h.2 hy
    omega

theorem mem_insertE {e x : Entry} {l : List Entry} (hs : Sorted l) :
    x ∈ insertE e l ↔ x = e ∨ (x ∈ l ∧ x.index ≠ e.index) := by
  induction l with
  | nil => simp [insertE]
  | cons y ys ih =>
    have hy := (List.pairwise_cons.mp hs).1
    have hys := (List.pairwise_cons.mp hs).2
    unfold insertE
    by_cases h1 : e.index < y.index
    · simp only [h1, if_true, List.mem_cons]
      constructor
      · rintro (h | h | h)
        · exact Or.inl h
        · subst h; exact Or.inr ⟨Or.inl rfl, by omega⟩
        · have := hy x h; exact Or.inr ⟨Or.inr h, by omega⟩
      · rintro (h | ⟨h | h, _⟩)
        · exact Or.inl h
        · exact Or.inr (Or.inl h)
        · exact Or.inr (Or.inr h)
    · simp only [h1, if_false]
      by_cases h2 : e.index = y.index
      · simp only [h2, if_true, List.mem_cons]
        constructor
        · rintro (h | h)
          · exact Or.inl h
          · have := hy x h; exact Or.inr ⟨Or.inr h, by omega⟩
        · rintro (h | ⟨h | h, hne⟩)
          · exact Or.inl h
          · subst h; exact absurd rfl (by omega)
          · exact Or.inr h
      · simp only [h2, if_false, List.mem_cons, ih hys]
        constructor
        · rintro (h | h | ⟨h, hne⟩)
          · subst h; exact Or.inr ⟨Or.inl rfl, fun hh => h2 hh.symm⟩
          · exact Or.inl h
          · exact Or.inr ⟨Or.inr h, hne⟩
        · rintro (h | ⟨h | h, hne⟩)
          · exact Or.inr (Or.inl h)
          · exact Or.inl h
          · exact Or.inr (Or.inr ⟨h, hne⟩)

theorem sorted_insertE {e : Entry} {l : List Entry} (hs : Sorted l) : Sorted (insertE e l) := by
  induction l with
  | nil => simp [insertE, Sorted]
  | cons y ys ih =>
    have hy := (List.pairwise_cons.mp hs).1
    have hys := (List.pairwise_cons.mp hs).2
    unfold insertE
    by_cases h1 : e.index < y.index
    · simp only [h1, if_true]
      refine List.pairwise_cons.mpr ⟨?_, hs⟩
      intro z hz
      rcases List.mem_cons.mp hz with rfl | hz
      · exact h1
      · have := hy z hz; omega
    · simp only [h1, if_false]
      by_cases h2 : e.index = y.index
      · simp only [h2, if_true]
        refine List.pairwise_cons.mpr ⟨?_, hys⟩
        intro z hz
        have := hy z hz; omega
      · simp only [h2, if_false]
        refine List.pairwise_cons.mpr ⟨?_, ih hys⟩
        intro z hz
        rcases (mem_insertE hys).mp hz with rfl | ⟨hz, _⟩
        · omega
        · exact hy z hz

theorem sorted_insertAll {l es : List Entry} (hs : Sorted l) : Sorted (insertAll l es) := by
  induction es generalizing l with
  | nil => exact hs
  | cons e es ih => exact ih (sorted_insertE hs)

/-- membership after inserting a batch with pairwise distinct indexes -/
theorem mem_insertAll {l es : List Entry} (hs : Sorted l) (hes : Sorted es) {x : Entry} :
    x ∈ insertAll l es ↔ x ∈ es ∨ (x ∈ l ∧ ∀ e ∈ es, e.index ≠ x.index) := by
  induction es generalizing l with
  | nil => simp [insertAll]
  | cons e es ih =>
    have he := (List.pairwise_cons.mp hes).1
    have hes' := (List.pairwise_cons.mp hes).2
    simp only [insertAll]
    rw [ih (sorted_insertE hs) hes', mem_insertE hs]
    constructor
    · rintro (h | ⟨h | ⟨h, hne⟩, hall⟩)
      · exact Or.inl (List.mem_cons_of_mem _ h)
      · exact Or.inl (by subst h; simp)
      · refine Or.inr ⟨h, ?_⟩
        intro y hy
        rcases List.mem_cons.mp hy with rfl | hy
        · exact fun hh => hne hh.symm
        · exact hall y hy
    · rintro (h | ⟨h, hall⟩)
      · rcases List.mem_cons.mp h with rfl | h
        · right
          refine ⟨Or.inl rfl, ?_⟩
          intro y hy
          have := he y hy; omega
        · exact Or.inl h
      · right
        refine ⟨Or.inr ⟨h, fun hh => hall e (by simp) hh.symm⟩, fun y hy => hall y (List.mem_cons_of_mem _ hy)⟩

/-- two strictly sorted lists with the same elements are equal -/
theorem sorted_ext {a b : List Entry} (ha : Sorted a) (hb : Sorted b) (h : ∀ x, x ∈ a ↔ x ∈ b) : a = b := by
  induction a generalizing b with
  | nil =>
    cases b with
    | nil => rfl
    | cons y ys => exact absurd ((h y).mpr (by simp)) (by simp)
  | cons x xs ih =>
    cases b with
    | nil => exact absurd ((h x).mp (by simp)) (by simp)
    | cons y ys =>
      have hx := (List.pairwise_cons.mp ha).1
      have hy := (List.pairwise_cons.mp hb).1
      have hxy : x = y := by
        have h1 := (h x).mp (by simp)
        have h2 := (h y).mpr (by simp)
        rcases List.mem_cons.mp h1 with h1 | h1
        · exact h1
        · rcases List.mem_cons.mp h2 with h2 | h2
          · exact h2.symm
          · have := hx y h2; have := hy x h1; omega
      subst hxy
      congr 1
      apply ih (List.pairwise_cons.mp ha).2 (List.pairwise_cons.mp hb).2
      intro z
      constructor
      · intro hz
        rcases List.mem_cons.mp ((h z).mp (List.mem_cons_of_mem _ hz)) with rfl | h'
        · have := hx z hz; omega
        · exact h'
      · intro hz
        rcases List.mem_cons.mp ((h z).mpr (List.mem_cons_of_mem _ hz)) with rfl | h'
        · have := hy z hz; omega
        · exact h'

/-- an index determines the entry in a sorted list -/
theorem sorted_unique {l : List Entry} (hs : Sorted l) {x y : Entry} (hx : x ∈ l) (hy : y ∈ l) (h : x.index = y.index) :
    x = y := by
  induction l with
  | nil => cases hx
  | cons z zs ih =>
    have hz := (List.pairwise_cons.mp hs).1
    rcases List.mem_cons.mp hx with hx1 | hx1
    · rcases List.mem_cons.mp hy with hy1 | hy1
      · rw [hx1, hy1]
      · have := hz y hy1; rw [hx1] at h; omega
    · rcases List.mem_cons.mp hy with hy1 | hy1
      · have := hz x hx1; rw [hy1] at h; omega
      · exact ih (List.pairwise_cons.mp hs).2 hx1 hy1

end DEngine.BufLog
