import DEngine.Lemmas.BufLogFca
/-!
  Frame lemmas: the IO task (`batch_processor` arms, `handle_non_write_cmd`, fsync) touches nothing of the
  in-memory log except `durable_index`; it keeps running unless a `Shutdown` is queued. With them, one case
  operation (`execOp`) is shown to refine the plain-log step.
-/
namespace DEngine.BufLog

/-- equal up to `durable_index` and `next_id` (neither is read by a query of the log) -/
def SameBuf (b b' : Buf) : Prop := ∃ d n, b' = { b with durable := d, nextId := n }

theorem SameBuf.refl (b : Buf) : SameBuf b b := ⟨b.durable, b.nextId, rfl⟩
theorem SameBuf.trans {a b c : Buf} (h1 : SameBuf a b) (h2 : SameBuf b c) : SameBuf a c := by
  obtain ⟨d1, n1, rfl⟩ := h1
  obtain ⟨d2, n2, rfl⟩ := h2
  exact ⟨d2, n2, rfl⟩

theorem SameBuf.inv {b b' : Buf} (h : SameBuf b b') (hi : b.Inv) : b'.Inv := by
  obtain ⟨d, n, rfl⟩ := h
  exact { contig := hi.contig, pos := hi.pos, anchor := hi.anchor, minOk := hi.minOk, maxOk := hi.maxOk,
          tf := hi.tf, tl := hi.tl, seg := hi.seg }

theorem SameBuf.abs {b b' : Buf} (h : SameBuf b b') : b'.abs = b.abs := by
  obtain ⟨d, n, rfl⟩ := h; rfl

theorem SameBuf.segs {b b' : Buf} (h : SameBuf b b') : b'.segs = b.segs := by
  obtain ⟨d, n, rfl⟩ := h; rfl

theorem SameBuf.of_eq {b b' : Buf} (h : b' = b) : SameBuf b b' := by subst h; exact SameBuf.refl _

/-- the IO loop is running and will keep running: no `Shutdown` is queued -/
def Quiet (s : Sys) : Prop := s.alive = true ∧ ∀ c ∈ s.queue, c ≠ IOCmd.shutdown

namespace Sys

theorem stPersist_frame (s : Sys) (es : List Entry) :
    (s.stPersist es).buf = s.buf ∧ (s.stPersist es).queue = s.queue ∧ (s.stPersist es).alive = s.alive := by
  simp [stPersist]

theorem persistPending_frame (s : Sys) :
    s.persistPending.buf = s.buf ∧ s.persistPending.queue = s.queue ∧ s.persistPending.alive = s.alive := by
  simp only [persistPending]
  split
  · split
    · simp
    · simp [stPersist]
  · simp

theorem handleCmd_frame (s : Sys) (c : IOCmd) :
    SameBuf s.buf (s.handleCmd c).buf ∧ (s.handleCmd c).queue = s.queue ∧ (s.handleCmd c).alive = s.alive := by
  cases c with
  | replace d es => exact ⟨⟨min s.buf.durable (d - 1), s.buf.nextId, by simp [handleCmd, stReplace]⟩, by simp [handleCmd, stReplace], by simp [handleCmd, stReplace]⟩
  | purge ci ct => exact ⟨SameBuf.of_eq (by simp [handleCmd, stPurge]), by simp [handleCmd, stPurge], by simp [handleCmd, stPurge]⟩
  | reset => exact ⟨SameBuf.of_eq (by simp [handleCmd, stReset]), by simp [handleCmd, stReset], by simp [handleCmd, stReset]⟩
  | flush => exact ⟨SameBuf.refl _, rfl, rfl⟩
  | shutdown => exact ⟨SameBuf.refl _, rfl, rfl⟩

theorem fsyncAdvance_frame (s : Sys) :
    SameBuf s.buf s.fsyncAdvance.buf ∧ s.fsyncAdvance.queue = s.queue ∧ s.fsyncAdvance.alive = s.alive := by
  unfold fsyncAdvance
  split
  · exact ⟨⟨_, s.buf.nextId, rfl⟩, rfl, rfl⟩
  · exact ⟨SameBuf.refl _, rfl, rfl⟩

theorem drain_frame (s : Sys) (cs : List IOCmd) (fl : Bool) (h : ∀ c ∈ cs, c ≠ IOCmd.shutdown) :
    SameBuf s.buf (drain s cs fl).1.buf ∧ (drain s cs fl).1.queue = [] ∧ (drain s cs fl).1.alive = s.alive ∧
    (drain s cs fl).2.1 = false := by
  induction cs generalizing s fl with
  | nil => exact ⟨SameBuf.refl _, rfl, rfl, rfl⟩
  | cons c cs ih =>
    have hc := h c (by simp)
    have hrest : ∀ c ∈ cs, c ≠ IOCmd.shutdown := fun x hx => h x (List.mem_cons_of_mem _ hx)
    cases c with
    | shutdown => exact absurd rfl hc
    | flush => simpa [drain] using ih s true hrest
    | replace d es =>
      have := ih (s.handleCmd (.replace d es)) fl hrest
      have hf := handleCmd_frame s (.replace d es)
      simp only [drain]
      exact ⟨hf.1.trans this.1, this.2.1, by rw [this.2.2.1, hf.2.2], this.2.2.2⟩
    | purge ci ct =>
      have := ih (s.handleCmd (.purge ci ct)) fl hrest
      have hf := handleCmd_frame s (.purge ci ct)
      simp only [drain]
      exact ⟨hf.1.trans this.1, this.2.1, by rw [this.2.2.1, hf.2.2], this.2.2.2⟩
    | reset =>
      have := ih (s.handleCmd .reset) fl hrest
      have hf := handleCmd_frame s .reset
      simp only [drain]
      exact ⟨hf.1.trans this.1, this.2.1, by rw [this.2.2.1, hf.2.2], this.2.2.2⟩

theorem shutdownTail_false (s : Sys) : s.shutdownTail false = s := by simp [shutdownTail]

/-- one iteration of the IO loop keeps the in-memory log (up to `durable_index`) and stays quiet -/
theorem ioArm_frame (s : Sys) (a : Arm) (hq : Quiet s) : SameBuf s.buf (s.ioArm a).buf ∧ Quiet (s.ioArm a) := by
  obtain ⟨halive, hns⟩ := hq
  cases a with
  | timer =>
    simp only [ioArm]
    have h1 := persistPending_frame { s with timerDue := false }
    have h2 := fsyncAdvance_frame ({ s with timerDue := false }).persistPending
    refine ⟨?_, ?_, ?_⟩
    · have : SameBuf s.buf ({ s with timerDue := false }).persistPending.buf := by rw [h1.1]; exact SameBuf.refl _
      exact this.trans h2.1
    · rw [h2.2.2, h1.2.2]; exact halive
    · rw [h2.2.1, h1.2.1]; exact hns
  | notify =>
    simp only [ioArm]
    have h1 := persistPending_frame { s with notify := false }
    have hq1 : ∀ c ∈ ({ s with notify := false }).persistPending.queue, c ≠ IOCmd.shutdown := by rw [h1.2.1]; exact hns
    have h2 := drain_frame ({ s with notify := false }).persistPending ({ s with notify := false }).persistPending.queue false hq1
    generalize hd : drain ({ s with notify := false }).persistPending ({ s with notify := false }).persistPending.queue false = dr at h2
    obtain ⟨s2, seen, fl⟩ := dr
    simp only at h2 ⊢
    obtain ⟨hb2, hq2, ha2, hseen⟩ := h2
    subst hseen
    -- catch-up persist
    generalize hcu : (if fl = true then
        (if s2.pendingMax < s2.buf.maxIdx then
          (if (s2.buf.getRange (s2.pendingMax + 1) s2.buf.maxIdx).isEmpty = true then s2
           else { s2.stPersist (s2.buf.getRange (s2.pendingMax + 1) s2.buf.maxIdx) with pendingMax := s2.buf.maxIdx })
         else s2)
      else s2) = s3
    have h3 : s3.buf = s2.buf ∧ s3.queue = s2.queue ∧ s3.alive = s2.alive := by
      rw [← hcu]
      split
      · split
        · split
          · simp
          · simp [stPersist]
        · simp
      · simp
    have h4 := fsyncAdvance_frame s3
    rw [shutdownTail_false]
    refine ⟨?_, ?_, ?_⟩
    · have : SameBuf s.buf s3.buf := by
        rw [h3.1]
        have h0 : SameBuf s.buf ({ s with notify := false }).persistPending.buf := by rw [h1.1]; exact SameBuf.refl _
        exact h0.trans hb2
      exact this.trans h4.1
    · rw [h4.2.2, h3.2.2, ha2, h1.2.2]; exact halive
    · rw [h4.2.1, h3.2.1, hq2]; simp
  | cmd =>
    simp only [ioArm]
    cases hqq : s.queue with
    | nil => exact ⟨SameBuf.refl _, halive, by rw [hqq]; simp⟩
    | cons c rest =>
      have hc : c ≠ IOCmd.shutdown := hns c (by rw [hqq]; simp)
      have hrest : ∀ x ∈ rest, x ≠ IOCmd.shutdown := fun x hx => hns x (by rw [hqq]; exact List.mem_cons_of_mem _ hx)
      cases c with
      | shutdown => exact absurd rfl hc
      | flush =>
        simp only
        have h1 := persistPending_frame { s with queue := rest }
        have hq1 : ∀ c ∈ ({ s with queue := rest }).persistPending.queue, c ≠ IOCmd.shutdown := by rw [h1.2.1]; exact hrest
        have h2 := drain_frame ({ s with queue := rest }).persistPending ({ s with queue := rest }).persistPending.queue false hq1
        generalize hd : drain ({ s with queue := rest }).persistPending ({ s with queue := rest }).persistPending.queue false = dr at h2
        obtain ⟨s2, seen, fl⟩ := dr
        simp only at h2 ⊢
        obtain ⟨hb2, hq2, ha2, hseen⟩ := h2
        subst hseen
        have h4 := fsyncAdvance_frame s2
        rw [shutdownTail_false]
        refine ⟨?_, ?_, ?_⟩
        · have : SameBuf s.buf s2.buf := by
            have h0 : SameBuf s.buf ({ s with queue := rest }).persistPending.buf := by rw [h1.1]; exact SameBuf.refl _
            exact h0.trans hb2
          exact this.trans h4.1
        · rw [h4.2.2, ha2, h1.2.2]; exact halive
        · rw [h4.2.1, hq2]; simp
      | replace d es =>
        simp only
        have hf := handleCmd_frame { s with queue := rest } (.replace d es)
        exact ⟨hf.1, by rw [hf.2.2]; exact halive, by rw [hf.2.1]; exact hrest⟩
      | purge ci ct =>
        simp only
        have hf := handleCmd_frame { s with queue := rest } (.purge ci ct)
        exact ⟨hf.1, by rw [hf.2.2]; exact halive, by rw [hf.2.1]; exact hrest⟩
      | reset =>
        simp only
        have hf := handleCmd_frame { s with queue := rest } .reset
        exact ⟨hf.1, by rw [hf.2.2]; exact halive, by rw [hf.2.1]; exact hrest⟩

theorem bounce_frame (s : Sys) (a : Arm) (hq : Quiet s) : (s.bounce a).buf = s.buf ∧ Quiet (s.bounce a) := by
  cases a <;> exact ⟨rfl, hq⟩

theorem ioRunN_frame (n : Nat) (s : Sys) (prio : List Arm) (hq : Quiet s) :
    SameBuf s.buf (ioRunN n s prio).buf ∧ Quiet (ioRunN n s prio) := by
  induction n generalizing s with
  | zero => exact ⟨SameBuf.refl _, hq⟩
  | succ n ih =>
    simp only [ioRunN]
    cases s.pickArm prio with
    | none => exact ⟨SameBuf.refl _, hq⟩
    | some a =>
      simp only
      split
      · have hb := bounce_frame s a hq
        have h1 := ioArm_frame (s.bounce a) .cmd hb.2
        have h2 := ih ((s.bounce a).ioArm .cmd) h1.2
        rw [hb.1] at h1
        exact ⟨h1.1.trans h2.1, h2.2⟩
      · have h1 := ioArm_frame s a hq
        have h2 := ih (s.ioArm a) h1.2
        exact ⟨h1.1.trans h2.1, h2.2⟩

theorem ioRun_frame (s : Sys) (prio : List Arm) (hq : Quiet s) :
    SameBuf s.buf (s.ioRun prio).buf ∧ Quiet (s.ioRun prio) := ioRunN_frame 8 s prio hq

theorem enqueue_quiet (s : Sys) (c : IOCmd) (hq : Quiet s) (hc : c ≠ IOCmd.shutdown) :
    ∃ s', s.enqueue c = some s' ∧ s'.buf = s.buf ∧ Quiet s' := by
  refine ⟨{ s with queue := s.queue ++ [c] }, by simp [enqueue, hq.1], rfl, hq.1, ?_⟩
  intro x hx
  rcases List.mem_append.mp hx with hx | hx
  · exact hq.2 x hx
  · simp at hx; subst hx; exact hc

end Sys

theorem preClock_frame (s : Sys) (sch : Sched) (hq : Quiet s) : (preClock s sch).buf = s.buf ∧ Quiet (preClock s sch) := by
  unfold preClock
  split
  · exact ⟨rfl, hq⟩
  · exact ⟨rfl, hq⟩

theorem postClock_frame (s : Sys) (sch : Sched) (hq : Quiet s) :
    SameBuf s.buf (postClock s sch).buf ∧ Quiet (postClock s sch) := by
  unfold postClock
  split
  · exact Sys.ioRun_frame s sch.prio hq
  · exact ⟨SameBuf.refl _, hq⟩

end DEngine.BufLog
