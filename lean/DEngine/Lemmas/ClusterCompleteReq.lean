/-
  C05, towards leader completeness: where AppendEntries requests come from (`ae_step`), and invariant I0: every request
  of a sitting leader's term consists of entries of that leader's log (`RInv`, `step_rinv`).
-/
import DEngine.Lemmas.ClusterCompleteLead
namespace DEngine.Cluster

/-- a request built by a replication round of node `i` whose log after the round is `L` -/
def BuiltBy (c : Cluster) (i : NodeId) (L : Log) (T : Nat) (r : AeReq) : Prop :=
  ∃ p cm lb newEs, r = buildAppendRequest i L T cm lb c.cap newEs p ∧ ∀ y ∈ newEs, y ∈ L

theorem leaderRound_ae (c : Cluster) (i : NodeId) (nd : Node) (p : Option Nat) :
    ∀ x ∈ (leaderRound c i nd p).msgs, ∀ r, aeOf x.2 = some r →
      (∃ x0 ∈ c.msgs, aeOf x0.2 = some r) ∨ BuiltBy c i (nd.log ++ newEntries nd p) nd.term r := by
  intro x hx r hr
  simp only [leaderRound, addMsgs] at hx
  rw [List.mem_append] at hx
  rcases hx with hx | hx
  · exact Or.inl ⟨x, hx, hr⟩
  · right
    have hm := mem_number hx
    simp only [replicate] at hm
    obtain ⟨q, hq⟩ := replicatePeers_msgs _ _ _ _ _ _ _ _ _ _ hm
    rw [hq] at hr
    cases hr
    exact ⟨q, _, _, _, rfl, fun y hy => List.mem_append_right _ hy⟩

/-- Where the AppendEntries requests in flight after a step come from: they were in flight before, or a replication
    round of a node that leads after the step built them from its log. -/
theorem ae_step (c : Cluster) (e : Event) : ∀ x ∈ (step c e).1.msgs, ∀ r, aeOf x.2 = some r →
    (∃ x0 ∈ c.msgs, aeOf x0.2 = some r) ∨
    (∃ i, BuiltBy c i ((step c e).1.nodes i).log ((step c e).1.nodes i).term r ∧ ((step c e).1.nodes i).role = .leader) := by
  have old : ∀ x ∈ c.msgs, ∀ r, aeOf x.2 = some r → (∃ x0 ∈ c.msgs, aeOf x0.2 = some r) ∨
      (∃ i, BuiltBy c i ((step c e).1.nodes i).log ((step c e).1.nodes i).term r ∧ ((step c e).1.nodes i).role = .leader) :=
    fun x hx r hr => Or.inl ⟨x, hx, hr⟩
  cases e with
  | tick i =>
    simp only [step]; unfold stepTick; dsimp only
    split
    · exact fun x hx r hr => Or.inl ⟨x, hx, hr⟩
    · split
      · exact fun x hx r hr => Or.inl ⟨x, hx, hr⟩
      · split <;> exact fun x hx r hr => Or.inl ⟨x, hx, hr⟩
      · next hrole =>
        intro x hx r hr
        rcases leaderRound_ae c i (c.nodes i) none x hx r hr with h | h
        · exact Or.inl h
        · refine Or.inr ⟨i, ?_, ?_⟩
          · rw [leaderRound_node, if_pos rfl, (replicate_spec _ _ _ _ _).1, (replicate_spec _ _ _ _ _).2.2]; exact h
          · rw [leaderRound_node, if_pos rfl, (replicate_spec _ _ _ _ _).2.1]; exact hrole
  | voteReq a b =>
    simp only [step]; unfold stepVoteReq; dsimp only
    split
    · split <;> exact fun x hx r hr => Or.inl ⟨x, hx, hr⟩
    · exact fun x hx r hr => Or.inl ⟨x, hx, hr⟩
  | voteResp a b =>
    simp only [step]; unfold stepVoteResp; dsimp only
    split
    · split
      · split <;> exact fun x hx r hr => Or.inl ⟨x, hx, hr⟩
      · exact fun x hx r hr => Or.inl ⟨x, hx, hr⟩
    · exact fun x hx r hr => Or.inl ⟨x, hx, hr⟩
  | voteEnd i =>
    simp only [step]; unfold stepVoteEnd; dsimp only
    split
    · split
      · exact fun x hx r hr => Or.inl ⟨x, hx, hr⟩
      · split
        · intro x hx r hr
          rcases leaderRound_ae _ i (asLeader i c.n (c.nodes i)) (some 0) x hx r hr with h | h
          · exact Or.inl h
          · refine Or.inr ⟨i, ?_, ?_⟩
            · rw [leaderRound_node, if_pos rfl, (replicate_spec _ _ _ _ _).1, (replicate_spec _ _ _ _ _).2.2]; exact h
            · rw [leaderRound_node, if_pos rfl, (replicate_spec _ _ _ _ _).2.1]; rfl
        · exact fun x hx r hr => Or.inl ⟨x, hx, hr⟩
        · exact fun x hx r hr => Or.inl ⟨x, hx, hr⟩
        · exact fun x hx r hr => Or.inl ⟨x, hx, hr⟩
    · exact fun x hx r hr => Or.inl ⟨x, hx, hr⟩
  | write i w =>
    simp only [step]; unfold stepWrite; dsimp only
    split
    · exact fun x hx r hr => Or.inl ⟨x, hx, hr⟩
    · split
      · next hrole =>
        simp at hrole
        intro x hx r hr
        rcases leaderRound_ae c i (c.nodes i) (some (w + 1)) x hx r hr with h | h
        · exact Or.inl h
        · refine Or.inr ⟨i, ?_, ?_⟩
          · simp only [setNode_same]
            rw [leaderRound_node, if_pos rfl, (replicate_spec _ _ _ _ _).1, (replicate_spec _ _ _ _ _).2.2]; exact h
          · simp only [setNode_same]
            rw [leaderRound_node, if_pos rfl, (replicate_spec _ _ _ _ _).2.1]; exact hrole
      · exact fun x hx r hr => Or.inl ⟨x, hx, hr⟩
  | deliverAe m =>
    simp only [step]; unfold stepDeliverAe; dsimp only
    split
    · split
      · exact fun x hx r hr => Or.inl ⟨x, hx, hr⟩
      · split
        · intro x hx r hr
          simp only [addMsgs, List.mem_append] at hx
          rcases hx with hx | hx
          · exact Or.inl ⟨x, removeMsg_sub c m hx, hr⟩
          · simp [number] at hx; subst hx; simp [aeOf] at hr
        · exact fun x hx r hr => Or.inl ⟨x, removeMsg_sub c m hx, hr⟩
    · exact fun x hx r hr => Or.inl ⟨x, hx, hr⟩
  | deliverResp m =>
    simp only [step]; unfold stepDeliverResp; dsimp only
    split
    · split
      · exact fun x hx r hr => Or.inl ⟨x, removeMsg_sub c m hx, hr⟩
      · split
        · exact fun x hx r hr => Or.inl ⟨x, removeMsg_sub c m hx, hr⟩
        · intro x hx r hr
          have : x ∈ (removeMsg c m).msgs := by
            unfold recordCommit at hx; split at hx <;> exact hx
          exact Or.inl ⟨x, removeMsg_sub c m this, hr⟩
    · exact fun x hx r hr => Or.inl ⟨x, hx, hr⟩
  | drop m => exact fun x hx r hr => Or.inl ⟨x, removeMsg_sub c m hx, hr⟩
  | dup m =>
    simp only [step]; unfold stepDup; (try dsimp only)
    split
    · next src dst sid req reply hfm =>
      obtain ⟨y, hy, hyx⟩ := findMsg_mem hfm
      intro x hx r hr
      simp only [addMsgs, List.mem_append] at hx
      rcases hx with hx | hx
      · exact Or.inl ⟨x, hx, hr⟩
      · simp [number] at hx; subst hx
        exact Or.inl ⟨y, hy, by rw [hyx]; exact hr⟩
    · exact fun x hx r hr => Or.inl ⟨x, hx, hr⟩
  | streamErr l p =>
    simp only [step]; unfold stepStreamErr; dsimp only
    split
    · exact fun x hx r hr => Or.inl ⟨x, hx, hr⟩
    · split
      · split
        · exact fun x hx r hr => Or.inl ⟨x, hx, hr⟩
        · intro x hx r hr
          simp only [List.mem_map, List.mem_filter] at hx
          obtain ⟨y, ⟨hy, _⟩, hyx⟩ := hx
          refine Or.inl ⟨y, hy, ?_⟩
          cases hm : y.2 with
          | ae s d sid rq rp =>
            simp only [hm] at hyx
            split at hyx <;> (subst hyx; simp_all [aeOf])
          | resp s d sid t rs =>
            simp only [hm] at hyx
            subst hyx
            rw [hm] at hr; exact hr
      · exact fun x hx r hr => Or.inl ⟨x, hx, hr⟩
  | streamClosed l p =>
    simp only [step]; unfold stepStreamClosed; dsimp only
    split
    · exact fun x hx r hr => Or.inl ⟨x, hx, hr⟩
    · split
      · split
        · exact fun x hx r hr => Or.inl ⟨x, hx, hr⟩
        · intro x hx r hr
          simp only [List.mem_map, List.mem_filter] at hx
          obtain ⟨y, ⟨hy, _⟩, hyx⟩ := hx
          refine Or.inl ⟨y, hy, ?_⟩
          cases hm : y.2 with
          | ae s d sid rq rp =>
            simp only [hm] at hyx
            split at hyx <;> (subst hyx; simp_all [aeOf])
          | resp s d sid t rs =>
            simp only [hm] at hyx
            subst hyx
            rw [hm] at hr; exact hr
      · exact fun x hx r hr => Or.inl ⟨x, hx, hr⟩
  | logFlushed i =>
    simp only [step]; unfold stepLogFlushed; dsimp only
    split
    · exact fun x hx r hr => Or.inl ⟨x, hx, hr⟩
    · split
      · intro x hx r hr
        have : x ∈ c.msgs := by
          unfold recordCommit at hx; split at hx <;> exact hx
        exact Or.inl ⟨x, this, hr⟩
      · exact fun x hx r hr => Or.inl ⟨x, hx, hr⟩
  | applyCompleted i k =>
    simp only [step]; unfold stepApplyCompleted; dsimp only
    split
    · exact fun x hx r hr => Or.inl ⟨x, hx, hr⟩
    · split <;> exact fun x hx r hr => Or.inl ⟨x, hx, hr⟩
  | crash i k =>
    simp only [step]; unfold stepDown'; dsimp only
    split
    · exact fun x hx r hr => Or.inl ⟨x, hx, hr⟩
    · split <;> exact fun x hx r hr => Or.inl ⟨x, hx, hr⟩
  | stop i =>
    simp only [step]; unfold stepDown'; dsimp only
    split
    · exact fun x hx r hr => Or.inl ⟨x, hx, hr⟩
    · split <;> exact fun x hx r hr => Or.inl ⟨x, hx, hr⟩
  | start i =>
    simp only [step]; unfold stepStart; (try dsimp only)
    split <;> exact fun x hx r hr => Or.inl ⟨x, hx, hr⟩
  | nop => exact fun x hx r hr => Or.inl ⟨x, hx, hr⟩

end DEngine.Cluster

namespace DEngine.Cluster

theorem contiguousFrom_sub : ∀ (l : Log) (s : Nat) (y : Entry), y ∈ contiguousFrom s l → y ∈ l := by
  intro l
  induction l with
  | nil => intro s y h; simp [contiguousFrom] at h
  | cons e es ih =>
    intro s y h
    simp only [contiguousFrom] at h
    split at h
    · rcases List.mem_cons.mp h with h | h
      · subst h; exact List.mem_cons_self
      · exact List.mem_cons_of_mem _ (ih _ _ h)
    · simp at h

theorem build_sub (me : NodeId) (L : Log) (T cm lb cap : Nat) (newEs : Log) (p : Peer) (hnew : ∀ y ∈ newEs, y ∈ L) :
    ∀ y ∈ (buildAppendRequest me L T cm lb cap newEs p).entries, y ∈ L := by
  intro y hy
  simp only [buildAppendRequest] at hy
  have := contiguousFrom_sub _ _ _ hy
  rcases List.mem_append.mp this with h | h
  · split at h
    · exact (List.mem_filter.mp h).1
    · simp at h
  · exact hnew y h

/-- the (prev_index, prev_term) of a request is an entry of the log it was built from, unless prev_index is 0 or lies
    outside that log (prev_term 0 then) -/
def PrevOK (L : Log) (r : AeReq) : Prop :=
  r.prevI = 0 ∨ (∃ y ∈ L, y.index = r.prevI ∧ y.term = r.prevT) ∨ r.prevT = 0

theorem build_prev (me : NodeId) (L : Log) (T cm lb cap : Nat) (newEs : Log) (p : Peer) :
    PrevOK L (buildAppendRequest me L T cm lb cap newEs p) := by
  simp only [PrevOK, buildAppendRequest, entryTerm, entryAt]
  cases hf : L.find? (fun e => e.index == p.next - 1) with
  | none => right; right; simp
  | some y =>
    right; left
    refine ⟨y, List.mem_of_find?_eq_some hf, ?_, by simp⟩
    have := List.find?_some hf
    simpa using this

theorem prevOK_mono {L L' : Log} {r : AeReq} (hsub : ∀ y ∈ L, y ∈ L') (h : PrevOK L r) : PrevOK L' r := by
  rcases h with h | ⟨y, hy, h⟩ | h
  · exact Or.inl h
  · exact Or.inr (Or.inl ⟨y, hsub y hy, h⟩)
  · exact Or.inr (Or.inr h)

/-- I0: a request that carries the term of a sitting leader was cut out of that leader's log. -/
structure RInv (c : Cluster) : Prop where
  req : ∀ x ∈ c.msgs, ∀ r, aeOf x.2 = some r → (c.nodes r.leader).role = .leader → (c.nodes r.leader).term = r.term →
    (∀ y ∈ r.entries, y ∈ (c.nodes r.leader).log) ∧ PrevOK (c.nodes r.leader).log r

theorem rinv_init (n cap : Nat) : RInv (Cluster.init n cap) := ⟨by simp [Cluster.init]⟩

theorem wins_term {c : Cluster} {e : Event} {l : NodeId} (h : WinsNow c e l) :
    ((step c e).1.nodes l).term = (c.nodes l).term := by
  obtain ⟨he, el, hel, hw⟩ := h
  subst he
  simp only [step]; unfold stepVoteEnd; dsimp only
  simp only [hel]
  split
  · rfl
  · simp only [hw]
    rw [leaderRound_term, if_pos rfl]
    rfl

theorem step_rinv {c : Cluster} (hE : EInv c) (h : RInv c) (e : Event) : RInv (step c e).1 := by
  refine ⟨?_⟩
  intro x hx r hr hrole hterm
  rcases ae_step c e x hx r hr with ⟨x0, hx0, hr0⟩ | ⟨i, ⟨p, cm, lb, newEs, hb, hnew⟩, _⟩
  · rcases leader_cont c e r.leader with hs | hw
    · obtain ⟨hrole0, hterm0, new, hlog⟩ := hs hrole
      have := h.req x0 hx0 r hr0 hrole0 (by rw [← hterm0]; exact hterm)
      have hsub : ∀ y ∈ (c.nodes r.leader).log, y ∈ ((step c e).1.nodes r.leader).log := by
        intro y hy; rw [hlog]; exact List.mem_append_left _ hy
      exact ⟨fun y hy => hsub y (this.1 y hy), prevOK_mono hsub this.2⟩
    · exfalso
      have ht := wins_term hw
      obtain ⟨_, el, hel, hwon⟩ := hw
      have hfresh := won_term_fresh hE r.leader el hel hwon r.leader
      have hm := hE.msgs x0 hx0 r hr0
      rw [ht] at hterm
      rw [hterm] at hfresh
      exact hfresh hm
  · have hl : r.leader = i := by rw [hb]; rfl
    rw [hl]
    constructor
    · intro y hy
      rw [hb] at hy
      exact build_sub _ _ _ _ _ _ _ _ hnew y hy
    · rw [hb]; exact build_prev _ _ _ _ _ _ _ _

end DEngine.Cluster
