import DEngine.Model.Snap
/-!
Helper lemmas for C16 (family `snap`) and C15 (family `kvcrash`): re-applying commands.
-/
namespace DEngine.Snap
open DEngine.MiniKv

/-! ### maps -/

theorem erase_erase (m : AMap) (k : Nat) : erase (erase m k) k = erase m k := by
  simp [MiniKv.erase, List.filter_filter]

theorem erase_set (m : AMap) (k v : Nat) : erase (set m k v) k = erase m k := by
  simp [MiniKv.set, MiniKv.erase, List.filter_filter]

theorem set_set (m : AMap) (k v : Nat) : set (set m k v) k v = set m k v := by
  unfold MiniKv.set
  rw [show erase ((k, v) :: erase m k) k = erase m k from erase_set m k v]

theorem get_set (m : AMap) (k v k' : Nat) : get (set m k v) k' = if k = k' then some v else get m k' := by
  by_cases h : k = k'
  · subst h; simp
  · simp [h, get_set_ne m v h]

theorem get_erase (m : AMap) (k k' : Nat) : get (erase m k) k' = if k = k' then none else get m k' := by
  by_cases h : k = k'
  · subst h; simp
  · simp [h, get_erase_ne m h]

theorem sameKv_refl (a : AMap) : sameKv a a := fun _ => rfl
theorem sameKv_symm {a b : AMap} (h : sameKv a b) : sameKv b a := fun k => (h k).symm
theorem sameKv_trans {a b c : AMap} (h1 : sameKv a b) (h2 : sameKv b c) : sameKv a c :=
  fun k => (h1 k).trans (h2 k)

/-! ### one command -/

/-- Re-applying the command that was applied last changes nothing (also for CAS). -/
theorem applyCmd_idem (m : AMap) (c : Cmd) : (applyCmd (applyCmd m c).1 c).1 = (applyCmd m c).1 := by
  cases c with
  | noop => rfl
  | put k v t => simp [applyCmd, set_set]
  | del k => simp [applyCmd, erase_erase]
  | cas k e v =>
    simp only [applyCmd]
    split
    · simp only [get_set_eq]
      split
      · simp [set_set]
      · rfl
    · rfl

/-- `applyCmd` only looks at the map through `get`. -/
theorem applyCmd_congr {a b : AMap} (h : sameKv a b) (c : Cmd) :
    sameKv (applyCmd a c).1 (applyCmd b c).1 ∧ (applyCmd a c).2 = (applyCmd b c).2 := by
  cases c with
  | noop => exact ⟨h, rfl⟩
  | put k v t => exact ⟨fun k' => by simp [applyCmd, get_set, h k'], rfl⟩
  | del k => exact ⟨fun k' => by simp [applyCmd, get_erase, h k'], rfl⟩
  | cas k e v =>
    simp only [applyCmd, h k]
    split
    · exact ⟨fun k' => by simp [get_set, h k'], rfl⟩
    · exact ⟨h, rfl⟩

theorem applyAll_congr {a b : AMap} (h : sameKv a b) (cs : List Cmd) :
    sameKv (applyAll a cs) (applyAll b cs) := by
  induction cs generalizing a b with
  | nil => exact h
  | cons c cs ih => exact ih (applyCmd_congr h c).1

theorem applyAll_cons (m : AMap) (c : Cmd) (cs : List Cmd) :
    applyAll m (c :: cs) = applyAll (applyCmd m c).1 cs := rfl

/-! ### write-only command lists are idempotent under re-application -/

def isWrite : Cmd → Bool
  | .cas .. => false
  | _ => true

/-- the effect of a non-CAS command on key `k`, if any. -/
def writeOf (c : Cmd) (k : Nat) : Option (Option Nat) :=
  match c with
  | .put k' v _ => if k' = k then some (some v) else none
  | .del k' => if k' = k then some none else none
  | _ => none

def lastWrite : List Cmd → Nat → Option (Option Nat)
  | [], _ => none
  | c :: cs, k => (lastWrite cs k).orElse fun _ => writeOf c k

theorem get_applyCmd_write {c : Cmd} (hc : isWrite c = true) (m : AMap) (k : Nat) :
    get (applyCmd m c).1 k = (writeOf c k).getD (get m k) := by
  cases c with
  | noop => rfl
  | put k' v t => by_cases h : k' = k <;> simp [applyCmd, writeOf, get_set, h]
  | del k' => by_cases h : k' = k <;> simp [applyCmd, writeOf, get_erase, h]
  | cas k' e v => simp [isWrite] at hc

theorem get_applyAll_writes (cs : List Cmd) (hw : ∀ c ∈ cs, isWrite c = true) (m : AMap) (k : Nat) :
    get (applyAll m cs) k = (lastWrite cs k).getD (get m k) := by
  induction cs generalizing m with
  | nil => rfl
  | cons c cs ih =>
    rw [applyAll_cons, ih (fun c' hc' => hw c' (List.mem_cons_of_mem _ hc')),
      get_applyCmd_write (hw c List.mem_cons_self)]
    simp only [lastWrite]
    cases lastWrite cs k <;> simp [Option.orElse]

/-- Re-applying a list of puts/deletes/noops on its own result changes nothing. -/
theorem applyAll_writes_idem (cs : List Cmd) (hw : ∀ c ∈ cs, isWrite c = true) (m : AMap) :
    sameKv (applyAll (applyAll m cs) cs) (applyAll m cs) := by
  intro k
  rw [get_applyAll_writes cs hw, get_applyAll_writes cs hw]
  cases lastWrite cs k <;> simp

/-! ### nodes -/

theorem applyFrom_kv (n : Node) (f : Nat) (es : List Entry) :
    (applyFrom n f es).kv = applyAll n.kv (es.map (·.cmd)) := by
  induction es generalizing n f with
  | nil => rfl
  | cons e es ih => simp [applyFrom, ih, applyEntry, applyAll_cons]

theorem applyFrom_la (n : Node) (f : Nat) (es : List Entry) :
    (applyFrom n f es).la = if es = [] then n.la else f + es.length := by
  induction es generalizing n f with
  | nil => rfl
  | cons e es ih =>
    simp only [applyFrom, ih]
    by_cases h : es = []
    · subst h; simp [applyEntry]
    · simp [h]; omega

theorem replica_kv (log : List Entry) (i : Nat) :
    (replica log i).kv = applyAll [] ((log.take i).map (·.cmd)) := by
  simp [replica, applyFrom_kv]

theorem replica_la (log : List Entry) (i : Nat) (h : i ≤ log.length) : (replica log i).la = i := by
  simp only [replica, applyFrom_la]
  by_cases h0 : log.take i = []
  · simp [h0]
    cases i with
    | zero => rfl
    | succ j =>
      have : (log.take (j + 1)).length = 0 := by rw [h0]; rfl
      rw [List.length_take] at this; omega
  · simp [h0, List.length_take]; omega

end DEngine.Snap
