import DEngine.Model.LogStore
/-! Lemmas for the log-store refinement (C20): sorted maps, appends at the end, prefixes cut by an index bound. -/
namespace DEngine.LogStore

/-- Strictly ascending keys. -/
abbrev Sorted (m : Map) : Prop := m.Pairwise (fun a b => a.idx < b.idx)

/-! ### maxKey -/

theorem foldl_max_eq (l : List Ent) (a : Nat) :
    l.foldl (fun a e => max a e.idx) a = max a (l.foldl (fun a e => max a e.idx) 0) := by
  induction l generalizing a with
  | nil => simp
  | cons x r ih =>
    simp only [List.foldl_cons]
    rw [ih (max a x.idx), ih (max 0 x.idx)]
    omega

theorem maxKey_nil : maxKey [] = 0 := rfl

theorem maxKey_cons (x : Ent) (r : Map) : maxKey (x :: r) = max x.idx (maxKey r) := by
  simp only [maxKey, List.foldl_cons]
  rw [foldl_max_eq]; omega

theorem maxKey_append (a b : Map) : maxKey (a ++ b) = max (maxKey a) (maxKey b) := by
  induction a with
  | nil => simp [maxKey_nil]
  | cons x r ih => simp only [List.cons_append, maxKey_cons, ih]; omega

theorem le_maxKey {m : Map} {x : Ent} (h : x ∈ m) : x.idx ≤ maxKey m := by
  induction m with
  | nil => simp at h
  | cons y r ih =>
    rw [maxKey_cons]
    rcases List.mem_cons.mp h with rfl | h
    · omega
    · have := ih h; omega

theorem batchMax_eq_maxKey (es : List Ent) : batchMax es = maxKey es := rfl

/-- The greatest key is a key (non-empty map). -/
theorem maxKey_mem {m : Map} (h : m ≠ []) : ∃ x ∈ m, x.idx = maxKey m := by
  induction m with
  | nil => simp at h
  | cons y r ih =>
    rw [maxKey_cons]
    by_cases hr : r = []
    · subst hr; exact ⟨y, by simp, by simp [maxKey_nil]⟩
    · obtain ⟨x, hx, hxe⟩ := ih hr
      by_cases hc : y.idx ≤ maxKey r
      · exact ⟨x, List.mem_cons_of_mem _ hx, by omega⟩
      · exact ⟨y, by simp, by omega⟩

/-! ### insert at the end -/

theorem insert_end {m : Map} {e : Ent} (h : ∀ x ∈ m, x.idx < e.idx) : insert m e = m ++ [e] := by
  induction m with
  | nil => rfl
  | cons y r ih =>
    have hy : y.idx < e.idx := h y (by simp)
    have : ¬ e.idx < y.idx := by omega
    have h2 : ¬ e.idx = y.idx := by omega
    simp only [insert, this, h2, if_false, List.cons_append]
    rw [ih (fun x hx => h x (List.mem_cons_of_mem _ hx))]

theorem sorted_append_one {m : Map} {e : Ent} (hs : Sorted m) (h : ∀ x ∈ m, x.idx < e.idx) : Sorted (m ++ [e]) := by
  refine List.pairwise_append.mpr ⟨hs, List.pairwise_singleton _ _, ?_⟩
  intro a ha b hb
  simp only [List.mem_singleton] at hb
  subst hb; exact h a ha

/-- Entries strictly ascending and all above `k`. -/
def ascFrom : Nat → List Ent → Prop
  | _, [] => True
  | k, e :: r => k < e.idx ∧ ascFrom e.idx r

theorem ascFrom_of_ascending {k : Nat} : ∀ {es : List Ent}, ascending es = true →
    (∀ e, es.head? = some e → k < e.idx) → ascFrom k es
  | [], _, _ => trivial
  | [e], _, h => ⟨h e rfl, trivial⟩
  | a :: b :: r, hasc, h => by
    simp only [ascending, Bool.and_eq_true, decide_eq_true_eq] at hasc
    exact ⟨h a rfl, ascFrom_of_ascending hasc.2 (fun e he => by simp at he; subst he; exact hasc.1)⟩

theorem ascFrom_mono {k k' : Nat} (h : k' ≤ k) : ∀ {es : List Ent}, ascFrom k es → ascFrom k' es
  | [], _ => trivial
  | _ :: _, ⟨h1, h2⟩ => ⟨by omega, h2⟩

theorem ascFrom_gt {k : Nat} : ∀ {es : List Ent}, ascFrom k es → ∀ e ∈ es, k < e.idx
  | [], _, e, he => by simp at he
  | a :: r, ⟨h1, h2⟩, e, he => by
    rcases List.mem_cons.mp he with rfl | he
    · exact h1
    · have := ascFrom_gt h2 e he; omega

theorem ascFrom_sorted {k : Nat} : ∀ {es : List Ent}, ascFrom k es → Sorted es
  | [], _ => List.Pairwise.nil
  | _ :: _, ⟨_, h2⟩ => List.Pairwise.cons (fun b hb => ascFrom_gt h2 b hb) (ascFrom_sorted h2)

/-- Appending an ascending batch that lies above every key is list append. -/
theorem insertAll_append {m : Map} {es : List Ent} {k : Nat} (hk : ∀ x ∈ m, x.idx ≤ k) (ha : ascFrom k es) :
    insertAll m es = m ++ es := by
  induction es generalizing m k with
  | nil => simp [insertAll]
  | cons e r ih =>
    obtain ⟨h1, h2⟩ := ha
    have hin : insert m e = m ++ [e] := insert_end (fun x hx => by have := hk x hx; omega)
    simp only [insertAll, List.foldl_cons] at ih ⊢
    rw [hin, ih (m := m ++ [e]) (k := e.idx) ?_ h2]
    · simp
    · intro x hx
      rcases List.mem_append.mp hx with hx | hx
      · have := hk x hx; omega
      · simp at hx; subst hx; omega

theorem sorted_append {m : Map} {es : List Ent} {k : Nat} (hs : Sorted m) (hk : ∀ x ∈ m, x.idx ≤ k)
    (ha : ascFrom k es) : Sorted (m ++ es) := by
  refine List.pairwise_append.mpr ⟨hs, ascFrom_sorted ha, ?_⟩
  intro a ha' b hb
  have := hk a ha'; have := ascFrom_gt ha b hb; omega

/-! ### cutting a sorted map at an index bound -/

theorem below_sorted {m : Map} (hs : Sorted m) (f : Nat) : Sorted (below m f) := hs.filter _
theorem above_sorted {m : Map} (hs : Sorted m) (c : Nat) : Sorted (above m c) := hs.filter _

/-- In a sorted map the keys below `f` form a prefix. -/
theorem below_eq_take {m : Map} (hs : Sorted m) (f : Nat) : below m f = m.take (below m f).length := by
  induction m with
  | nil => simp [below]
  | cons y r ih =>
    have hsr : Sorted r := (List.pairwise_cons.mp hs).2
    have hy : ∀ b ∈ r, y.idx < b.idx := (List.pairwise_cons.mp hs).1
    by_cases hlt : y.idx < f
    · have : below (y :: r) f = y :: below r f := by simp [below, hlt]
      rw [this, List.length_cons, List.take_succ_cons, ← ih hsr]
    · have hnone : below r f = [] := by
        simp only [below, List.filter_eq_nil_iff, decide_eq_true_eq]
        intro b hb; have := hy b hb; omega
      have : below (y :: r) f = [] := by
        simp only [below, List.filter_eq_nil_iff, decide_eq_true_eq]
        intro b hb
        rcases List.mem_cons.mp hb with rfl | hb
        · exact hlt
        · have := hy b hb; omega
      rw [this]; simp

theorem maxKey_below_lt {m : Map} {f : Nat} (hf : 1 ≤ f) : maxKey (below m f) < f := by
  by_cases h : below m f = []
  · rw [h, maxKey_nil]; omega
  · obtain ⟨x, hx, hxe⟩ := maxKey_mem h
    have : x.idx < f := by simpa [below] using (List.mem_filter.mp hx).2
    omega

theorem below_le {m : Map} {f : Nat} (hf : 1 ≤ f) : ∀ x ∈ below m f, x.idx ≤ f - 1 := by
  intro x hx
  have : x.idx < f := by simpa [below] using (List.mem_filter.mp hx).2
  omega

/-- `adjacent`: the greatest kept key is `f − 1` (all keys ≥ 1). -/
theorem maxKey_below_adjacent {m : Map} {f : Nat} (hpos : ∀ x ∈ m, 1 ≤ x.idx) (h : adjacent m f = true) :
    maxKey (below m f) = f - 1 := by
  simp only [adjacent, Bool.or_eq_true, decide_eq_true_eq, Bool.and_eq_true, hasKey, List.any_eq_true,
    beq_iff_eq] at h
  rcases h with rfl | ⟨hf, x, hx, hxe⟩
  · have : below m 1 = [] := by
      simp only [below, List.filter_eq_nil_iff, decide_eq_true_eq]
      intro b hb; have := hpos b hb; omega
    rw [this, maxKey_nil]
  · have hlt := maxKey_below_lt (m := m) hf
    have hmem : x ∈ below m f := List.mem_filter.mpr ⟨hx, by have := hpos x hx; simp; omega⟩
    have := le_maxKey hmem
    omega

/-- Purging a proper prefix keeps the greatest key. -/
theorem maxKey_above {m : Map} {c : Nat} (h : c < maxKey m) : maxKey (above m c) = maxKey m := by
  have hne : m ≠ [] := by intro h0; rw [h0, maxKey_nil] at h; omega
  obtain ⟨x, hx, hxe⟩ := maxKey_mem hne
  have hmem : x ∈ above m c := List.mem_filter.mpr ⟨hx, by simp; omega⟩
  have h1 := le_maxKey hmem
  by_cases hq : above m c = []
  · rw [hq] at hmem; simp at hmem
  · obtain ⟨y, hy, hye⟩ := maxKey_mem hq
    have := le_maxKey (List.mem_filter.mp hy).1
    omega

theorem sorted_maxKey_getLast {m : Map} (hs : Sorted m) : (m.getLast?.map (·.idx)).getD 0 = maxKey m := by
  induction m with
  | nil => rfl
  | cons y r ih =>
    have hsr : Sorted r := (List.pairwise_cons.mp hs).2
    have hy : ∀ b ∈ r, y.idx < b.idx := (List.pairwise_cons.mp hs).1
    rw [maxKey_cons]
    cases r with
    | nil => simp [maxKey_nil]
    | cons z t =>
      have := ih hsr
      rw [List.getLast?_cons_cons, this]
      obtain ⟨x, hx, hxe⟩ := maxKey_mem (m := z :: t) (by simp)
      have := hy x hx
      omega

end DEngine.LogStore

namespace DEngine.LogStore

/-! ### the File store's offset index -/

theorem posInsert_end {l : List (Nat × Nat)} {e : Nat × Nat} (h : ∀ x ∈ l, x.1 < e.1) : posInsert l e = l ++ [e] := by
  induction l with
  | nil => rfl
  | cons y r ih =>
    have hy : y.1 < e.1 := h y (by simp)
    have h1 : ¬ e.1 < y.1 := by omega
    have h2 : ¬ e.1 = y.1 := by omega
    simp only [posInsert, h1, h2, if_false, List.cons_append]
    rw [ih (fun x hx => h x (List.mem_cons_of_mem _ hx))]

theorem enumAux_append (k : Nat) (m : Map) (e : Ent) :
    enumAux k (m ++ [e]) = enumAux k m ++ [(e.idx, k + m.length + 1)] := by
  induction m generalizing k with
  | nil => simp [enumAux]
  | cons y r ih =>
    simp only [List.cons_append, enumAux, ih, List.length_cons]
    have : k + 1 + r.length + 1 = k + (r.length + 1) + 1 := by omega
    rw [this]

theorem enumAux_keys (k : Nat) (m : Map) : ∀ p ∈ enumAux k m, ∃ x ∈ m, x.idx = p.1 := by
  induction m generalizing k with
  | nil => simp [enumAux]
  | cons y r ih =>
    intro p hp
    simp only [enumAux, List.mem_cons] at hp
    rcases hp with rfl | hp
    · exact ⟨y, by simp, rfl⟩
    · obtain ⟨x, hx, hxe⟩ := ih (k + 1) p hp
      exact ⟨x, List.mem_cons_of_mem _ hx, hxe⟩

theorem enumAux_filter {m : Map} (hs : Sorted m) (k f : Nat) :
    (enumAux k m).filter (·.1 < f) = enumAux k (below m f) := by
  induction m generalizing k with
  | nil => simp [enumAux, below]
  | cons y r ih =>
    have hsr : Sorted r := (List.pairwise_cons.mp hs).2
    have hy : ∀ b ∈ r, y.idx < b.idx := (List.pairwise_cons.mp hs).1
    by_cases hlt : y.idx < f
    · have : below (y :: r) f = y :: below r f := by simp [below, hlt]
      rw [this]
      simp only [enumAux, List.filter_cons, hlt, decide_true, if_true]
      rw [ih hsr]
    · have hb : below (y :: r) f = [] := by
        simp only [below, List.filter_eq_nil_iff, decide_eq_true_eq]
        intro b hb
        rcases List.mem_cons.mp hb with rfl | hb
        · exact hlt
        · have := hy b hb; omega
      rw [hb]
      simp only [enumAux, List.filter_eq_nil_iff, decide_eq_true_eq]
      intro p hp
      obtain ⟨x, hx, hxe⟩ := enumAux_keys k (y :: r) p hp
      rcases List.mem_cons.mp hx with rfl | hx
      · omega
      · have := hy x hx; omega

theorem enumAux_getLast (k : Nat) (m : Map) :
    (((enumAux k m).getLast?).map (·.2)).getD 0 = if m = [] then 0 else k + m.length := by
  induction m generalizing k with
  | nil => simp [enumAux]
  | cons y r ih =>
    cases r with
    | nil => simp [enumAux]
    | cons z t =>
      have := ih (k + 1)
      simp only [enumAux, List.getLast?_cons_cons] at this ⊢
      rw [this]; simp; omega

/-- `end_pos_before(from)` on a clean file = number of records below `from`. -/
theorem endPosBefore_clean {m : Map} (hs : Sorted m) (f : Nat) :
    endPosBefore (enumFrom1 m) f = (below m f).length := by
  unfold endPosBefore enumFrom1
  rw [enumAux_filter hs, enumAux_getLast]
  split
  · rename_i h; simp [h]
  · simp

end DEngine.LogStore

namespace DEngine.LogStore

/-! ### general upserts (re-written and lower indexes) -/

theorem maxKey_insert (m : Map) (e : Ent) : maxKey (insert m e) = max (maxKey m) e.idx := by
  induction m with
  | nil => simp [insert, maxKey_cons, maxKey_nil]
  | cons x r ih =>
    simp only [insert]
    split
    · simp only [maxKey_cons]; omega
    · split
      · rename_i h1 h2; simp only [maxKey_cons]; omega
      · simp only [maxKey_cons, ih]; omega

theorem maxKey_insertAll (es : List Ent) : ∀ (m : Map), maxKey (insertAll m es) = max (maxKey m) (maxKey es) := by
  induction es with
  | nil => intro m; simp [insertAll, maxKey_nil]
  | cons e r ih =>
    intro m
    have := ih (insert m e)
    simp only [insertAll, List.foldl_cons] at this ⊢
    rw [this, maxKey_insert, maxKey_cons]; omega

theorem mem_insert {m : Map} {e x : Ent} (h : x ∈ insert m e) : x = e ∨ x ∈ m := by
  induction m with
  | nil => simp [insert] at h; exact Or.inl h
  | cons y r ih =>
    simp only [insert] at h
    split at h
    · rcases List.mem_cons.mp h with h | h
      · exact Or.inl h
      · exact Or.inr h
    · split at h
      · rcases List.mem_cons.mp h with h | h
        · exact Or.inl h
        · exact Or.inr (List.mem_cons_of_mem _ h)
      · rcases List.mem_cons.mp h with h | h
        · exact Or.inr (by simp [h])
        · rcases ih h with h | h
          · exact Or.inl h
          · exact Or.inr (List.mem_cons_of_mem _ h)

theorem sorted_insert {m : Map} (hs : Sorted m) (e : Ent) : Sorted (insert m e) := by
  induction m with
  | nil => simp [insert]
  | cons y r ih =>
    have hsr : Sorted r := (List.pairwise_cons.mp hs).2
    have hy : ∀ b ∈ r, y.idx < b.idx := (List.pairwise_cons.mp hs).1
    simp only [insert]
    split
    · rename_i h1
      refine List.Pairwise.cons ?_ hs
      intro b hb
      rcases List.mem_cons.mp hb with rfl | hb
      · exact h1
      · have := hy b hb; omega
    · split
      · rename_i h1 h2
        refine List.Pairwise.cons ?_ hsr
        intro b hb; have := hy b hb; omega
      · rename_i h1 h2
        refine List.Pairwise.cons ?_ (ih hsr)
        intro b hb
        rcases mem_insert hb with rfl | hb
        · omega
        · exact hy b hb

theorem sorted_insertAll (es : List Ent) : ∀ {m : Map}, Sorted m → Sorted (insertAll m es) := by
  induction es with
  | nil => intro m h; simpa [insertAll] using h
  | cons e r ih =>
    intro m h
    have := ih (m := insert m e) (sorted_insert h e)
    simpa [insertAll] using this

theorem mem_insertAll (es : List Ent) : ∀ {m : Map} {x : Ent}, x ∈ insertAll m es → x ∈ es ∨ x ∈ m := by
  induction es with
  | nil => intro m x h; exact Or.inr (by simpa [insertAll] using h)
  | cons e r ih =>
    intro m x h
    have h' : x ∈ insertAll (insert m e) r := by simpa [insertAll] using h
    rcases ih h' with h1 | h1
    · exact Or.inl (List.mem_cons_of_mem _ h1)
    · rcases mem_insert h1 with rfl | h2
      · exact Or.inl (by simp)
      · exact Or.inr h2

end DEngine.LogStore
