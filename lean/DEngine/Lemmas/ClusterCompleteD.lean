/-
  C05, "a committed entry is held by a majority": invariant `DInv` — what an acknowledgement in flight and a recorded
  match_index stand for: the follower held the leader's entries of the leader's term up to that index, in that term.
-/
import DEngine.Lemmas.ClusterCompleteProv3
namespace DEngine.Cluster

variable {c : Cluster} {e : Event} {H : Hist}

theorem valid_of_mem_voterIds {c : Cluster} {z : Nat} (h : z ∈ voterIds c.n) : c.valid z = true := by
  simp only [voterIds, List.mem_map, List.mem_range] at h
  obtain ⟨a, ha, rfl⟩ := h
  simp only [Cluster.valid, Bool.and_eq_true, decide_eq_true_eq]
  exact ⟨Nat.succ_le_succ (Nat.zero_le _), Nat.succ_le_of_lt ha⟩

theorem onAppendEntries_success_follower (n : Node) (r : AeReq) (last : Option (Nat × Nat))
    (h : (onAppendEntries n r).2.2.1 = .success last) : (onAppendEntries n r).1.role = .follower := by
  unfold onAppendEntries at h ⊢
  cases hr : n.role with
  | follower => simp only [hr]; rw [followerAppend_role, hr]
  | candidate =>
    simp only [hr] at h ⊢
    by_cases hc : r.term ≥ n.term
    · rw [if_pos hc]; rw [followerAppend_role, (becomeFollower_spec _).1]
    · rw [if_neg hc] at h; cases h
  | leader =>
    simp only [hr] at h ⊢
    by_cases hc : n.term ≥ r.term
    · rw [if_pos hc] at h; cases h
    · rw [if_neg hc]; rw [followerAppend_role, (becomeFollower_spec _).1]

structure DInv (c : Cluster) (H : Hist) : Prop where
  accv : ∀ z x, (z, x) ∈ H.acc → c.valid z = true
  lvalid : ∀ l, (c.nodes l).role = .leader → c.valid l = true
  aewf : ∀ m ∈ c.msgs, ∀ s d sid r rp, m.2 = .ae s d sid r rp → s = r.leader
  respLT : ∀ m ∈ c.msgs, ∀ s d sid t last, m.2 = .resp s d sid t (.success last) →
    ∃ t', t ≤ t' ∧ (t', d) ∈ c.leaderTerms
  resp : ∀ m ∈ c.msgs, ∀ s d sid t mi tm, m.2 = .resp s d sid t (.success (some (mi, tm))) →
    (c.nodes d).role = .leader → (c.nodes d).term = t →
    mi ≤ (c.nodes d).log.length ∧ ∀ x ∈ (c.nodes d).log, x.index ≤ mi → x.term = t → (s, x) ∈ H.acc
  mtch : ∀ l, (c.nodes l).role = .leader → ∀ q ∈ (c.nodes l).peers,
    q.mtch ≤ (c.nodes l).log.length ∧
      ∀ x ∈ (c.nodes l).log, x.index ≤ q.mtch → x.term = (c.nodes l).term → (q.id, x) ∈ H.acc
  pids : ∀ l, (c.nodes l).role = .leader → (c.nodes l).peers.map (·.id) = peerIds l c.n

theorem dinv_init (n cap : Nat) : DInv (Cluster.init n cap) {} := by
  refine ⟨?_, ?_, ?_, ?_, ?_, ?_, ?_⟩ <;> simp [Cluster.init]

/-- an entry of the grown log whose index lies within the old log is an entry of the old log -/
theorem mem_prefix_of_index {g : List GRec} {L L' new : Log} (hL' : Chain g L') (heq : L' = L ++ new) {x : Entry}
    (hx : x ∈ L') (hi : x.index ≤ L.length) : x ∈ L := by
  have gx := chain_mem_get hL' hx
  rw [heq] at gx
  have : (L ++ new)[x.index - 1]? = L[x.index - 1]? := List.getElem?_append_left (by omega)
  rw [this] at gx
  exact List.mem_of_getElem? gx.1

theorem acc_sub (c : Cluster) (e : Event) (H : Hist) : ∀ p ∈ H.acc, p ∈ (histStep c e H).acc := by
  intro p hp; simp only [histStep]; exact List.mem_append_left _ hp

theorem step_dinv (X : Ctx c e) (h : HInv c H) (d : DInv c H) : DInv (step c e).1 (histStep c e H) := by
  have hn := step_n c e
  have accv' : ∀ z x, (z, x) ∈ (histStep c e H).acc → (step c e).1.valid z = true := by
    intro z x hx
    simp only [histStep, List.mem_append] at hx
    rcases hx with hx | hx
    · rw [valid_of_n hn]; exact d.accv z x hx
    · exact valid_of_mem_voterIds (mem_accNow.mp hx).1
  have lvalid' : ∀ l, ((step c e).1.nodes l).role = .leader → (step c e).1.valid l = true := by
    intro l hrole
    rw [valid_of_n hn]
    rcases leader_cont' c e l with hs | hw
    · exact d.lvalid l (hs hrole).1
    · exact (winner_spec hw).2.1
  have aewf' : ∀ m ∈ (step c e).1.msgs, ∀ s dd sid r rp, m.2 = .ae s dd sid r rp → s = r.leader := by
    intro m hm s dd sid r rp hmm
    rcases msg_step c e m hm with ⟨x0, hx0, hsame⟩ | ⟨i, q, sid', r', hb, ⟨p, cm, lb, newEs, hbuilt, _⟩, _⟩ |
      ⟨mid, src, dst, sid', req, rp', _, _, _, _, hr, _⟩
    · rcases hsame with hs | ⟨s', d', sid', r', rp', h1, h2⟩
      · exact d.aewf x0 hx0 s dd sid r rp (by rw [hs]; exact hmm)
      · rw [h2] at hmm; cases hmm
        exact d.aewf x0 hx0 _ _ _ _ _ h1
    · rw [hb] at hmm; cases hmm
      rw [hbuilt]; rfl
    · rw [hr] at hmm; cases hmm
  have respLT' : ∀ m ∈ (step c e).1.msgs, ∀ s dd sid t last, m.2 = .resp s dd sid t (.success last) →
      ∃ t', t ≤ t' ∧ (t', dd) ∈ (step c e).1.leaderTerms := by
    intro m hm s dd sid t last hmm
    rcases msg_step c e m hm with ⟨x0, hx0, hsame⟩ | ⟨i, q, sid', r', hb, _, _⟩ |
      ⟨mid, src, dst, sid', req, rp', _, hfm, _, _, hr, _⟩
    · rcases hsame with hs | ⟨s', d', sid', r', rp', h1, h2⟩
      · obtain ⟨t', h1, h2⟩ := d.respLT x0 hx0 s dd sid t last (by rw [hs]; exact hmm)
        exact ⟨t', h1, lt_sub c e _ h2⟩
      · rw [h2] at hmm; cases hmm
    · rw [hb] at hmm; cases hmm
    · rw [hr] at hmm
      injection hmm with e1 e2 e3 e4 e5
      obtain ⟨y0, hy0, hy0x⟩ := findMsg_mem hfm
      have hsrc := d.aewf y0 hy0 _ _ _ _ _ hy0x
      have hmsg := X.hE.msgs y0 hy0 req (by rw [hy0x]; rfl)
      rcases onAppendEntries_spec (c.nodes dst) req with hs | hs
      · exact absurd e5 (hs.2 last)
      · refine ⟨req.term, by rw [← e4]; exact hs.2.2.2.2.2, ?_⟩
        rw [← e2, hsrc]; exact lt_sub c e _ hmsg
  refine ⟨accv', lvalid', aewf', respLT', ?_, ?_, ?_⟩
  · -- resp
    intro m hm s dd sid t mi tm hmm hrole hterm
    rcases msg_step c e m hm with ⟨x0, hx0, hsame⟩ | ⟨i, q, sid', r', hb, _, _⟩ |
      ⟨mid, src, dst, sid', req, rp', _, hfm, _, hvalid, hr, hnode, hother⟩
    · rcases hsame with hs | ⟨s', d', sid', r', rp', h1, h2⟩
      · have hx0' : x0.2 = .resp s dd sid t (.success (some (mi, tm))) := by rw [hs]; exact hmm
        rcases leader_cont' c e dd with hsl | hw
        · obtain ⟨hr0, ht0, new, hl0⟩ := hsl hrole
          obtain ⟨hle, hall⟩ := d.resp x0 hx0 s dd sid t mi tm hx0' hr0 (by rw [← ht0]; exact hterm)
          refine ⟨by rw [hl0, List.length_append]; omega, ?_⟩
          intro x hx hxi hxt
          have hxin := mem_prefix_of_index (X.hI'.logs dd) hl0 hx (by omega)
          exact acc_sub c e H _ (hall x hxin hxi hxt)
        · exfalso
          obtain ⟨t', ht1, ht2⟩ := d.respLT x0 hx0 s dd sid t _ hx0'
          have htw := (winner_facts hw).2.2.1
          obtain ⟨_, _, el, hel, _, _⟩ := winner_spec hw
          have := (X.hE.elect dd el hel).2.2.2.1 t' ht2
          omega
      · rw [h2] at hmm; cases hmm
    · rw [hb] at hmm; cases hmm
    · rw [hr] at hmm
      injection hmm with e1 e2 e3 e4 e5
      subst e1; subst e2
      obtain ⟨y0, hy0, hy0x⟩ := findMsg_mem hfm
      have hae : aeOf y0.2 = some req := by rw [hy0x]; rfl
      have hsrc := d.aewf y0 hy0 _ _ _ _ _ hy0x
      have hmsg := X.hE.msgs y0 hy0 req hae
      rcases onAppendEntries_spec (c.nodes dst) req with hs | hs
      · exact absurd e5 (hs.2 _)
      · obtain ⟨hterm', hprev, hlog, hres, hle1, hle2⟩ := hs
        -- the leader is another node, unchanged by this step
        have hne : src ≠ dst := by
          intro heq
          rw [heq, hnode, onAppendEntries_success_follower _ _ _ hres] at hrole
          cases hrole
        have hdsame := hother src hne
        rw [hdsame] at hrole hterm ⊢
        have hlt := X.hE.lterm _ hmsg
        simp only [] at hlt
        rw [← hsrc] at hlt
        have hreqt : req.term = (c.nodes src).term := by omega
        obtain ⟨hsub, hprevok⟩ := X.hR.req y0 hy0 req hae (by rw [← hsrc]; exact hrole) (by rw [← hsrc]; exact hreqt.symm)
        rw [← hsrc] at hsub hprevok
        have hack : (acceptOrKeep (c.nodes dst).log req).2.1 = some (mi, tm) := by
          rw [hres] at e5; injection e5
        obtain ⟨y, hy, hyi, hyt, hyor⟩ := acceptOrKeep_ack X.hI.gfun X.hG.gmono (X.hI.logs dst)
          (X.hI.msgs y0 hy0 req hae) hprev hack
        have hy' : y ∈ ((step c e).1.nodes dst).log := by rw [hnode, hlog]; exact hy
        have hdl : ((step c e).1.nodes src).log = (c.nodes src).log := by rw [hdsame]
        have hyd : y ∈ (c.nodes src).log := by
          rcases hyor with h1 | ⟨_, h2, h3⟩
          · exact hsub y h1
          · rcases hprevok with h0 | ⟨y', hy'd, hyi', hyt'⟩ | h0
            · have := (chain_mem_get (X.hI'.logs dst) hy').2; omega
            · have hyd' : y' ∈ ((step c e).1.nodes src).log := by rw [hdl]; exact hy'd
              have := same_entry X.hI'.gfun (X.hI'.logs dst) (X.hI'.logs src) hy' hyd' (by omega) (by omega)
              rw [← this]; exact hy'd
            · exfalso
              obtain ⟨q, hq⟩ := mem_chain_rec (X.hI'.logs dst) hy'
              have := X.hG'.gpos _ hq
              simp only [] at this
              omega
        have hyd2 : y ∈ ((step c e).1.nodes src).log := by rw [hdl]; exact hyd
        refine ⟨?_, ?_⟩
        · have := (List.getElem?_eq_some_iff.mp (chain_mem_get (X.hI.logs src) hyd).1).1
          omega
        · intro x hx hxi hxt
          have hx2 : x ∈ ((step c e).1.nodes src).log := by rw [hdl]; exact hx
          have hxs := chain_prefix_mem X.hI'.gfun (X.hI'.logs src) (X.hI'.logs dst) hyd2 hy' x hx2 (by omega)
          simp only [histStep]
          refine List.mem_append_right _ (mem_accNow.mpr ⟨?_, hxs, ?_⟩)
          · rw [hn]; exact mem_voterIds hvalid
          · rw [hnode, hterm', hxt, ← e4]; omega
  · -- mtch
    intro l hrole q' hq'
    rcases peers_step c e l with hk | ⟨m, src, sid, t, res, he, hfm, hnode⟩ | hw
    · rcases leader_cont' c e l with hsl | hw
      · obtain ⟨hr0, ht0, new, hl0⟩ := hsl hrole
        obtain ⟨_, hcor⟩ := keys_mem (hk hrole hr0)
        obtain ⟨q, hq, hid, hm⟩ := hcor q' hq'
        obtain ⟨hle, hall⟩ := d.mtch l hr0 q hq
        refine ⟨by rw [hl0, List.length_append, ← hm]; omega, ?_⟩
        intro x hx hxi hxt
        have hxin := mem_prefix_of_index (X.hI'.logs l) hl0 hx (by omega)
        rw [← hid]
        exact acc_sub c e H _ (hall x hxin (by omega) (by rw [← ht0]; exact hxt))
      · -- the node has just won: every match index is 0
        obtain ⟨_, _, el, _, _, hs⟩ := winner_spec hw
        have hp : peerKeys ((step c e).1.nodes l).peers = peerKeys (initPeers l c.n (lastIndex (c.nodes l).log)) := by
          rw [hs, leaderRound_node, if_pos rfl]
          simp only [replicate]
          exact replicatePeers_keys _ _ _ _ _ _ _ _ _
        obtain ⟨_, hcor⟩ := keys_mem hp
        obtain ⟨q, hq, _, hm⟩ := hcor q' hq'
        have h0 := initPeers_mtch _ _ _ q hq
        refine ⟨by omega, ?_⟩
        intro x hx hxi _
        have := (chain_mem_get (X.hI'.logs l) hx).2
        omega
    · -- a response was processed by this leader
      subst he
      rw [hnode] at hrole hq' ⊢
      have hsl := onAppendResponse_stillLeads (c.nodes l) src t res hrole
      obtain ⟨hr0, ht0, _⟩ := hsl
      have hlog := onAppendResponse_log (c.nodes l) src t res
      obtain ⟨_, hcor⟩ := onAppendResponse_peers (c.nodes l) src t res hrole
      obtain ⟨q, hq, hid, hm⟩ := hcor q' hq'
      obtain ⟨hle, hall⟩ := d.mtch l hr0 q hq
      rw [hlog, ht0]
      rcases hm with hm | ⟨hqs, htt, mi, tm, hres, hm⟩
      · refine ⟨by omega, ?_⟩
        intro x hx hxi hxt
        rw [← hid]
        exact acc_sub c _ H _ (hall x hx (by omega) hxt)
      · obtain ⟨y0, hy0, hy0x⟩ := findMsg_mem hfm
        rw [hres] at hy0x
        obtain ⟨hle2, hall2⟩ := d.resp y0 hy0 src l sid t mi tm hy0x hr0 htt.symm
        refine ⟨by omega, ?_⟩
        intro x hx hxi hxt
        rw [← hid, hqs]
        exact acc_sub c _ H _ (hall2 x hx (by omega) (by rw [htt]; exact hxt))
    · obtain ⟨_, _, el, _, _, hs⟩ := winner_spec hw
      have hp : peerKeys ((step c e).1.nodes l).peers = peerKeys (initPeers l c.n (lastIndex (c.nodes l).log)) := by
        rw [hs, leaderRound_node, if_pos rfl]
        simp only [replicate]
        exact replicatePeers_keys _ _ _ _ _ _ _ _ _
      obtain ⟨_, hcor⟩ := keys_mem hp
      obtain ⟨q, hq, _, hm⟩ := hcor q' hq'
      have h0 := initPeers_mtch _ _ _ q hq
      refine ⟨by omega, ?_⟩
      intro x hx hxi _
      have := (chain_mem_get (X.hI'.logs l) hx).2
      omega
  · -- pids
    intro l hrole
    rw [hn]
    have won : winner c e = some l → ((step c e).1.nodes l).peers.map (·.id) = peerIds l c.n := by
      intro hw
      obtain ⟨_, _, el, _, _, hs⟩ := winner_spec hw
      have hp : peerKeys ((step c e).1.nodes l).peers = peerKeys (initPeers l c.n (lastIndex (c.nodes l).log)) := by
        rw [hs, leaderRound_node, if_pos rfl]
        simp only [replicate]
        exact replicatePeers_keys _ _ _ _ _ _ _ _ _
      rw [(keys_mem hp).1, initPeers_ids]
    rcases peers_step c e l with hk | ⟨m, src, sid, t, res, he, hfm, hnode⟩ | hw
    · rcases leader_cont' c e l with hsl | hw
      · have hr0 := (hsl hrole).1
        rw [(keys_mem (hk hrole hr0)).1]; exact d.pids l hr0
      · exact won hw
    · rw [hnode] at hrole ⊢
      have hr0 := (onAppendResponse_stillLeads (c.nodes l) src t res hrole).1
      rw [(onAppendResponse_peers (c.nodes l) src t res hrole).1]; exact d.pids l hr0
    · exact won hw

end DEngine.Cluster
