import DEngine.Model.Lease
/-!
Helper lemmas for C12: numeric meaning of the packed lease word (`ReadLease::pack/unpack`), proved through
`UInt64.toNat` and `Nat` bit-operation lemmas (no `bv_decide`).
-/
namespace DEngine.Lease

theorem mask_toNat : deadlineMask.toNat = 2 ^ 48 - 1 := by decide
theorem shift_toNat : termShift.toNat % 64 = 48 := by decide
theorem ffff_toNat : (0xFFFF : UInt64).toNat = 2 ^ 16 - 1 := by decide

/-- numeric value of a packed word -/
theorem pack_toNat {t d w : UInt64} (h : pack t d = some w) :
    d.toNat < 2 ^ 48 ∧ w.toNat = (t.toNat % 2 ^ 16) * 2 ^ 48 + d.toNat := by
  unfold pack at h
  split at h
  · rename_i hle
    have hd : d.toNat < 2 ^ 48 := by
      have := UInt64.le_iff_toNat_le.mp hle
      rw [mask_toNat] at this; omega
    refine ⟨hd, ?_⟩
    injection h with h
    subst h
    rw [UInt64.toNat_or, UInt64.toNat_shiftLeft, UInt64.toNat_and, UInt64.toNat_and, shift_toNat, ffff_toNat,
      mask_toNat, Nat.and_two_pow_sub_one_eq_mod, Nat.and_two_pow_sub_one_eq_mod, Nat.shiftLeft_eq]
    have h16 : t.toNat % 2 ^ 16 < 2 ^ 16 := Nat.mod_lt _ (by decide)
    have hlt : t.toNat % 2 ^ 16 * 2 ^ 48 < 2 ^ 64 := by omega
    rw [Nat.mod_eq_of_lt hlt, Nat.mod_eq_of_lt hd]
    rw [← Nat.shiftLeft_eq, ← Nat.shiftLeft_add_eq_or_of_lt hd]
  · cases h

theorem unpack_toNat (w : UInt64) :
    (unpack w).1.toNat = w.toNat / 2 ^ 48 ∧ (unpack w).2.toNat = w.toNat % 2 ^ 48 := by
  unfold unpack
  simp only
  rw [UInt64.toNat_shiftRight, UInt64.toNat_and, shift_toNat, mask_toNat, Nat.and_two_pow_sub_one_eq_mod,
    Nat.shiftRight_eq_div_pow]
  exact ⟨rfl, rfl⟩

/-- (a) pack/unpack round trip, incl. the 16-bit term wrap -/
theorem pack_roundtrip {t d w : UInt64} (h : pack t d = some w) :
    (unpack w).1.toNat = t.toNat % 65536 ∧ (unpack w).2 = d := by
  obtain ⟨hd, hw⟩ := pack_toNat h
  obtain ⟨h1, h2⟩ := unpack_toNat w
  have h16 : t.toNat % 2 ^ 16 < 2 ^ 16 := Nat.mod_lt _ (by decide)
  constructor
  · rw [h1, hw]
    have : (t.toNat % 2 ^ 16 * 2 ^ 48 + d.toNat) / 2 ^ 48 = t.toNat % 2 ^ 16 := by omega
    rw [this]
  · apply UInt64.toNat_inj.mp
    rw [h2, hw]; omega

theorem pack_eq_none_iff (t d : UInt64) : pack t d = none ↔ d.toNat ≥ 2 ^ 48 := by
  unfold pack
  split
  · rename_i hle
    have := UInt64.le_iff_toNat_le.mp hle
    rw [mask_toNat] at this
    constructor
    · intro h; cases h
    · intro h; omega
  · rename_i hle
    have : ¬ d.toNat ≤ deadlineMask.toNat := fun h => hle (UInt64.le_iff_toNat_le.mpr h)
    rw [mask_toNat] at this
    constructor
    · intro _; omega
    · intro _; rfl

theorem isValid_pack {t d w : UInt64} (h : pack t d = some w) (now : UInt64) :
    isValid w now = decide (d > now) := by
  have h2 := (pack_roundtrip h).2
  unfold unpack at h2
  simp only at h2
  unfold isValid
  rw [h2]

theorem isValidForLeader_pack {t d w : UInt64} (h : pack t d = some w) (cur now : UInt64) :
    isValidForLeader w cur now = (decide (t.toNat % 65536 = cur.toNat % 65536) && decide (d > now)) := by
  obtain ⟨h1, h2⟩ := pack_roundtrip h
  unfold isValidForLeader
  rw [h2]
  congr 1
  have hc : (cur &&& 0xFFFF).toNat = cur.toNat % 65536 := by
    rw [UInt64.toNat_and, ffff_toNat, Nat.and_two_pow_sub_one_eq_mod]
  rw [Bool.eq_iff_iff]
  simp only [beq_iff_eq, decide_eq_true_eq]
  rw [← UInt64.toNat_inj, h1, hc]

theorem and_mask_zero : ((0 : UInt64) &&& deadlineMask) = 0 := by decide

theorem isValid_revoked (now : UInt64) : isValid revoked now = false := by
  unfold isValid revoked
  rw [and_mask_zero]
  simp only [gt_iff_lt, decide_eq_false_iff_not, UInt64.lt_iff_toNat_lt]
  intro h
  have : (0 : UInt64).toNat = 0 := rfl
  omega

theorem isValidForLeader_revoked (cur now : UInt64) : isValidForLeader revoked cur now = false := by
  unfold isValidForLeader unpack revoked
  simp only [and_mask_zero]
  have : ¬ ((0 : UInt64) > now) := by
    simp only [gt_iff_lt, UInt64.lt_iff_toNat_lt]
    intro h
    have : (0 : UInt64).toNat = 0 := rfl
    omega
  simp [this]

/-- `is_valid_for_leader` only sees the current term modulo 2^16. -/
theorem isValidForLeader_congr_mod (w cur cur' now : UInt64) (h : cur.toNat % 65536 = cur'.toNat % 65536) :
    isValidForLeader w cur now = isValidForLeader w cur' now := by
  unfold isValidForLeader
  have e : (cur &&& 0xFFFF) = (cur' &&& 0xFFFF) := by
    apply UInt64.toNat_inj.mp
    rw [UInt64.toNat_and, UInt64.toNat_and, ffff_toNat, Nat.and_two_pow_sub_one_eq_mod,
      Nat.and_two_pow_sub_one_eq_mod]
    exact h
  rw [e]

theorem satAdd_toNat (a b : UInt64) : (satAdd a b).toNat = min (a.toNat + b.toNat) (2 ^ 64 - 1) := by
  unfold satAdd
  split
  · rename_i h
    have : min (a.toNat + b.toNat) (2 ^ 64 - 1) = 2 ^ 64 - 1 := by omega
    rw [this]; rfl
  · rename_i h
    rw [UInt64.toNat_add]
    omega

end DEngine.Lease
