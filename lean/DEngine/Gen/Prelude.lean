/-
  Fixed prelude of the translation mechanism (tools/rs2lean.py): the Lean meaning of the Rust
  operations the translator emits. Hand-written, never regenerated.
-/
namespace DEngine.Gen

/-- `u64::saturating_add` -/
def satAdd (a b : UInt64) : UInt64 := if a.toNat + b.toNat ≥ 2 ^ 64 then (0xFFFFFFFFFFFFFFFF : UInt64) else a + b
/-- `u64::saturating_sub` -/
def satSub (a b : UInt64) : UInt64 := if a ≤ b then 0 else a - b
def ltb (a b : UInt64) : Bool := decide (a < b)
def leb (a b : UInt64) : Bool := decide (a ≤ b)
@[simp] theorem ltb_eq_true {a b : UInt64} : ltb a b = true ↔ a < b := by simp [ltb]
@[simp] theorem ltb_eq_false {a b : UInt64} : ltb a b = false ↔ b ≤ a := by simp [ltb]
@[simp] theorem leb_eq_true {a b : UInt64} : leb a b = true ↔ a ≤ b := by simp [leb]
@[simp] theorem leb_eq_false {a b : UInt64} : leb a b = false ↔ b < a := by simp [leb]
/-- `if c { return Err(..k-th site..) } rest` -/
def guardErr (c : Bool) (k : Nat) (rest : Option Nat) : Option Nat := if c then some k else rest
/-- `e?; rest` for `Result<()>` -/
def andThen (a rest : Option Nat) : Option Nat := match a with | some k => some k | none => rest
@[simp] theorem guardErr_eq_none {c k rest} : guardErr c k rest = none ↔ c = false ∧ rest = none := by
  unfold guardErr; cases c <;> simp
@[simp] theorem andThen_eq_none {a rest} : andThen a rest = none ↔ a = none ∧ rest = none := by
  unfold andThen; cases a <;> simp

end DEngine.Gen
