import DEngine.Model.Proto
import DEngine.Model.MetaStore
open DEngine DEngine.Proto DEngine.Fs DEngine.MetaStore

/-! Driver of family `meta` (C21). Case kinds: see harness/src/bin/meta.rs. -/

def parseHS (s : String) : Option HS :=
  match s.splitOn "/" with
  | [t, "-"] => do pure { term := UInt64.ofNat (← t.toNat?), vote := none }
  | [t, id, vt, c] => do
      let cb ← if c == "0" then some false else if c == "1" then some true else none
      pure { term := UInt64.ofNat (← t.toNat?),
             vote := some { id := UInt32.ofNat (← id.toNat?), term := UInt64.ofNat (← vt.toNat?), committed := cb } }
  | _ => none

def showHS : Option HS → String
  | none => "none"
  | some h => match h.vote with
    | none => s!"{h.term.toNat}/-"
    | some v => s!"{h.term.toNat}/{v.id.toNat}/{v.term.toNat}/{if v.committed then 1 else 0}"

def parseSaves (ops : String) : Option (List HS) :=
  ((ops.splitOn ";").filter (· ≠ "")).mapM parseHS

def rleAux : List String → String → Nat → List String
  | [], cur, n => [s!"{cur}*{n}"]
  | x :: rest, cur, n => if x == cur then rleAux rest cur (n + 1) else s!"{cur}*{n}" :: rleAux rest x 1

def rle : List String → String
  | [] => "-"
  | x :: rest => "+".intercalate (rleAux rest x 1)

def opName : MOp → String
  | .tmp .create => "created"
  | .tmp (.write _) => "written"
  | .tmp (.setLen _) => "truncated"
  | .tmp .flush => "flushed"
  | .tmp .syncAll => "synced"
  | .rename => "renamed"
  | .dirSync => "dirsynced"

def showLen : Option Bytes → String
  | none => "-1"
  | some b => toString b.length

def showDir (d : MetaDir) : String := s!"{showLen d.main.vol}/{showLen d.tmp.vol}:{showHS (load d.main.vol)}"

/-- One `save_hard_state` on the File meta store: what every crash image loads as. -/
def fileSaveLine (d : MetaDir) (h : HS) : String :=
  let ops := saveOps h
  let pts := dirCrashPts d ops
  let atPts := (List.range ops.length).filterMap fun k =>
    match pts.find? (fun p => p.1 == Pt.at (k + 1)), ops[k]? with
    | some (_, s), some op => some s!"{opName op}:{showDir s}"
    | _, _ => none
  let torn := pts.filterMap fun p => match p.1 with
    | .torn _ _ => some (showHS (load p.2.main.vol))
    | _ => none
  let fin := save d h
  ",".intercalate (atPts ++ [s!"ret:{showDir fin}", s!"live:{showHS (some h)}", s!"torn:{rle torn}",
    s!"bytes:{showHex (enc h)}"])

def fileTags (old : Option HS) (h : HS) : List String :=
  [if old.isNone then "first-save" else "overwrite",
   if h.vote.isNone then "novote" else "vote"]

def modelFile (hs : List HS) : String × List String :=
  let rec go (d : MetaDir) (old : Option HS) : List HS → List String × List String
    | [] => ([], [])
    | h :: rest =>
      let (ls, ts) := go (save d h) (some h) rest
      (fileSaveLine d h :: ls, fileTags old h ++ ts)
  let (ls, ts) := go MetaDir.fresh none hs
  (";".intercalate ([s!"absent:{showHS (load none)}", s!"init:{showHS (load MetaDir.fresh.main.vol)}"] ++ ls), ts.eraseDups)

def modelRocks (hs : List HS) : String × List String :=
  let rec go (r : Rocks) : List HS → List String
    | [] => []
    | h :: rest =>
      let r1 := r.flushWal            -- the hypothesis under which power loss is judged: the old value is durable
      let r2 := r1.put h
      let tornImg := (r2.images .power).headD []
      let line := s!"live:{showHS (Rocks.loadRecs r2.recs)},ret:{showHS (Rocks.loadRecs ((r2.images .process).headD []))}," ++
        s!"torn:{rle (List.replicate 2 (showHS (Rocks.loadRecs tornImg)))}"
      line :: go r2 rest
  (";".intercalate (s!"init:{showHS (Rocks.loadRecs [])}" :: go { recs := [], durable := 0 } hs), ["rocks"])

def straceOp : MOp → List String
  | .tmp .create => ["open:tmp[wronly+creat+trunc]"]
  | .tmp (.write bs) => [s!"write:tmp[{bs.length}]"]
  | .tmp (.setLen _) => ["ftruncate:tmp"]
  | .tmp .flush => []
  | .tmp .syncAll => ["fsync:tmp"]
  | .rename => ["rename:tmp>main"]
  | .dirSync => ["open:dir[rdonly]", "fsync:dir"]

def modelStrace (hs : List HS) : String × List String :=
  let items := hs.flatMap fun h => (saveOps h).flatMap straceOp
  (if items.isEmpty then "no-trace" else ",".intercalate items, ["strace"])

def modelLine (line : String) : String :=
  match line.splitOn "|" with
  | [head, ops] =>
    if head == "eng=dec" then
      match hexBytes ops with
      | some b => s!"{showHS (load (some b))}\t{if (dec b).isSome then "dec-ok" else "dec-err"}"
      | none => "bad-case\t-"
    else match parseSaves ops with
      | none => "bad-case\t-"
      | some hs =>
        let (o, ts) :=
          if head == "eng=file" then modelFile hs
          else if head == "eng=rocks" then modelRocks hs
          else if head == "eng=strace" then modelStrace hs
          else ("bad-case", [])
        s!"{o}\t{",".intercalate ts}"
  | _ => "bad-case\t-"

/-! ### Monitor C21 on the implementation's output -/

/-- `name:len:load` / `name:load` → (name, load). -/
def splitPart (p : String) : String × String :=
  match p.splitOn ":" with
  | [n, _, l] => (n, l)
  | [n, l] => (n, l)
  | _ => ("?", p)

def rleValues (s : String) : List String :=
  if s == "-" then [] else (s.splitOn "+").map fun x => (x.splitOn "*").headD ""

/-- Judge one save: every image must load as `old` or `new`; the returned image as `new`. First failing rule wins. -/
def judgeSave (eng : String) (old : String) (new : String) (seg : String) : Option String :=
  let parts := (seg.splitOn ",").map splitPart
  let get (n : String) := (parts.find? (·.1 == n)).map (·.2)
  let imgs : List (String × String) :=
    parts.filter (fun p => p.1 ∈ ["created", "written", "flushed", "synced", "renamed", "dirsynced", "truncated", "ret"]) ++
    ((get "torn").map fun t => (rleValues t).map fun v => ("torn", v)).getD []
  let vals := imgs.map (·.2)
  if seg == "save-err" then some "save-failed"
  else if vals.any (fun v => v == "open-err" || v == "load-err") then some "undecodable-is-an-error"
  else if get "ret" != some new then some "saved-value-lost-after-process-crash"
  else if get "live" != some new then some "live-load-differs"
  else if vals.any (fun v => v != old && v != new && v != "none") then some "fabricated-state"
  else if vals.any (fun v => v != old && v != new) then
    some (if eng == "eng=file" then "file-meta-missing-after-truncate" else "rocks-meta-missing")
  else none

def monitorC21 (case out : String) : String :=
  match case.splitOn "|" with
  | [head, ops] =>
    if head != "eng=file" && head != "eng=rocks" then "skip" else
    match parseSaves ops with
    | none => "bad-case"
    | some hs =>
      let segs := (out.splitOn ";").filter fun s => !(s.startsWith "absent:" || s.startsWith "init:")
      if segs.length != hs.length then "bad shape-mismatch" else
      let news := hs.map (fun h => showHS (some h))
      let olds := "none" :: news
      let verdicts := (List.zip (List.zip olds news) segs).filterMap fun ((o, n), s) => judgeSave head o n s
      -- report the most serious (non-recorded) failure first
      match verdicts.find? (fun v => v != "file-meta-missing-after-truncate"), verdicts.head? with
      | some v, _ => s!"bad {v}"
      | none, some v => s!"bad {v}"
      | none, none => "ok"
  | _ => "bad-case"

def monitorLine (prop : String) (line : String) : String :=
  match line.splitOn "\t" with
  | [case, out] => if prop == "C21" then monitorC21 case out else "skip"
  | _ => "bad-line"

def main (args : List String) : IO UInt32 := do
  let stdin ← IO.getStdin
  let stdout ← IO.getStdout
  match args with
  | ["model"] => loop stdin stdout modelLine; return 0
  | ["monitor", p] => loop stdin stdout (monitorLine p); return 0
  | _ => IO.eprintln "usage: drv_meta model | monitor <prop>"; return 2
