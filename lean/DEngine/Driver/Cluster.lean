import DEngine.Model.Proto
import DEngine.Model.Cluster
import DEngine.Model.ClusterTrace
open DEngine DEngine.Proto DEngine.Cluster

def monitorLine (prop : String) (line : String) : String :=
  match line.splitOn "\t" with
  | [case, out] =>
    if out == "panic" then "bad panic"
    else if out == "bad-case" then "skip"
    else match prop with
      | "C04" => monitorC04 case out
      | "C05" => monitorC05 case out
      | "C10" => monitorC10 case out
      | "C32" => monitorC32 case out
      | _ => "skip"
  | _ => "bad-line"

def main (args : List String) : IO UInt32 := do
  let stdin ← IO.getStdin
  let stdout ← IO.getStdout
  match args with
  | ["model"] => loop stdin stdout modelLine; return 0
  | ["monitor", p] => loop stdin stdout (monitorLine p); return 0
  | _ => IO.eprintln "usage: drv_cluster model | monitor <prop>"; return 2
