import DEngine.Model.Proto
import DEngine.Model.Conf
open DEngine DEngine.Proto DEngine.Conf

def cfgFields : List String :=
  ["lc","gt","hb","per","batch","merge","emin","emax","pm","ci","mc","mlbs","rc","cs","ret","sy","ry",
   "pq","rct","pmr","lease","rtt","rac","rad","evq","wb","idle"]

def parseCfg (line : String) : Option Cfg := do
  let fs := fields line
  let g (k : String) : Option UInt64 := (natField fs k).map UInt64.ofNat
  pure {
    learnerCatchup := ← g "lc", generalTimeout := ← g "gt", hb := ← g "hb", perRepl := ← g "per",
    maxBatch := ← g "batch", maxMerge := ← g "merge", emin := ← g "emin", emax := ← g "emax",
    peerMon := ← g "pm", cleanupInterval := ← g "ci", maxCleanup := ← g "mc",
    maxLogBeforeSnap := ← g "mlbs", retainCount := ← g "rc", chunkSize := ← g "cs",
    retained := ← g "ret", senderYield := ← g "sy", receiverYield := ← g "ry", pushQueue := ← g "pq",
    recvChunkTimeout := ← g "rct", pushMaxRetry := ← g "pmr", lease := ← g "lease", rtt := ← g "rtt",
    raCapacity := ← g "rac", raMaxDrain := ← g "rad", evQueue := ← g "evq", watcherBuf := ← g "wb",
    idleFlush := ← g "idle" }

def modelLine (line : String) : String :=
  match parseCfg line with
  | none => "bad-case\t-"
  | some c =>
    match validate c with
    | none => "ok\taccept"
    | some e => s!"err\t{e}"

def monitorLine (prop : String) (line : String) : String :=
  match line.splitOn "\t" with
  | [case, out] =>
    match parseCfg case with
    | none => "bad-case"
    | some c => if prop == "C34" then monitorC34 c out else "skip"
  | _ => "bad-line"

def main (args : List String) : IO UInt32 := do
  let stdin ← IO.getStdin
  let stdout ← IO.getStdout
  match args with
  | ["model"] => loop stdin stdout modelLine; return 0
  | ["monitor", p] => loop stdin stdout (monitorLine p); return 0
  | _ => IO.eprintln "usage: drv_conf model | monitor <prop>"; return 2
