import DEngine.Model.Proto
import DEngine.Model.Lease
open DEngine DEngine.Proto DEngine.Lease

/-! Line-protocol driver of family `lease` (case layout: see harness/src/bin/lease.rs). -/

def dots (s : String) : Option (List Nat) := (s.splitOn ".").mapM String.toNat?

def parseOp (s : String) : Option Op :=
  if s == "hb" then some .hb
  else if s == "bf" then some .bf
  else if s == "r" then some .read
  else if s.startsWith "ae" then (s.drop 2).toString.toNat?.map .ae
  else if s.startsWith "cu" then (s.drop 2).toString.toNat?.map .cu
  else if s.startsWith "c" then (s.drop 1).toString.toNat?.map (fun t => .clock (UInt64.ofNat t))
  else if s.startsWith "v" then (s.drop 1).toString.toNat?.map .vote
  else if s.startsWith "a" then
    match dots (s.drop 1).toString with
    | some [p, rt, _mt, mi, rd] => some (.ack p rt (.success mi) rd)
    | _ => none
  else if s.startsWith "x" then
    match dots (s.drop 1).toString with
    | some [p, rt, _ci] => some (.ack p rt .conflict 0)
    | _ => none
  else if s.startsWith "h" then
    match dots (s.drop 1).toString with
    | some [p, rt, t] => some (.ack p rt (.higherTerm t) 0)
    | _ => none
  else if s.startsWith "n" then
    match dots (s.drop 1).toString with
    | some [p, rt] => some (.ack p rt .noResult 0)
    | _ => none
  else if s.startsWith "e" then
    match dots (s.drop 1).toString with
    | some [p] => some (.ack p 0 .netErr 0)
    | _ => none
  else none

def parseFOp (s : String) : Option FOp :=
  if s.startsWith "ae" then
    match dots (s.drop 2).toString with
    | some [t, l] => some (.ae t l)
    | _ => none
  else if s.startsWith "v" then
    match dots (s.drop 1).toString with
    | some [c, t, i, lt] => some (.vote c t i lt)
    | _ => none
  else if s.startsWith "t" then (s.drop 1).toString.toNat?.map .wait
  else none

def splitCase (line : String) : String × List String :=
  match line.splitOn "|" with
  | [h] => (h, [])
  | [h, ops] => (h, (ops.splitOn ";").filter (· ≠ ""))
  | _ => (line, [])

def b2s (b : Bool) : String := if b then "1" else "0"

def showOut : Out → String
  | .gone => "-"
  | .probe f e l => s!"{b2s f}.{b2s e}.{b2s l}"
  | .state o ok =>
      let base := s!"{o.term}.{o.commit}.{o.lt.toNat}.{o.ld.toNat}.{b2s o.valid}"
      match ok with
      | none => base
      | some true => base ++ ".ok"
      | some false => base ++ ".err"

def parseOut (s : String) : Option Out :=
  if s == "-" then some .gone else
  match s.splitOn "." with
  | [f, e, l] => some (.probe (f == "1") (e == "1") (l == "1"))
  | [t, c, lt, ld, v] => do
      some (.state { term := ← t.toNat?, commit := ← c.toNat?, lt := UInt64.ofNat (← lt.toNat?),
                     ld := UInt64.ofNat (← ld.toNat?), valid := v == "1" } none)
  | [t, c, lt, ld, v, ok] => do
      some (.state { term := ← t.toNat?, commit := ← c.toNat?, lt := UInt64.ofNat (← lt.toNat?),
                     ld := UInt64.ofNat (← ld.toNat?), valid := v == "1" } (some (ok == "ok")))
  | _ => none

def showFOut : FOut → String
  | .waited t => s!"{t}.t"
  | .aeReply t k => s!"{t}.{k}"
  | .voteReply t g => s!"{t}.{b2s g}"

def parseFOut (op : FOp) (s : String) : Option FOut :=
  match s.splitOn ".", op with
  | [t, _], .wait _ => t.toNat?.map .waited
  | [t, k], .ae _ _ => t.toNat?.map (fun t => .aeReply t k)
  | [t, g], .vote _ _ _ _ => t.toNat?.map (fun t => .voteReply t (g == "1"))
  | _, _ => none

structure LeaderCase where
  cfg : Cfg
  term : Nat
  commit : Nat
  log : List Nat
  ops : List Op

def parseLeader (head : String) (ops : List String) : Option LeaderCase := do
  let fs := fields head
  let n ← natField fs "n"
  let lrn ← (lookup fs "lrn").bind natList
  let lease ← natField fs "lease"
  let term ← natField fs "term"
  let log ← (lookup fs "log").bind natList
  let commit ← natField fs "commit"
  let ops ← ops.mapM parseOp
  pure { cfg := { n, learners := lrn, leaseDur := UInt64.ofNat lease }, term, commit, log, ops }

structure FollowerCase where
  st : FState
  emin : Nat
  ops : List FOp

def parseFollower (head : String) (ops : List String) : Option FollowerCase := do
  let fs := fields head
  let term ← natField fs "term"
  let log ← (lookup fs "log").bind natList
  let emin ← natField fs "emin"
  let ops ← ops.mapM parseFOp
  pure { st := { term, votedFor := none, lastLogIdx := log.length, lastLogTerm := log.getLastD 0 }, emin, ops }

structure PackCase where
  term : UInt64
  dl : UInt64
  now : UInt64
  cur : UInt64

def parsePack (head : String) : Option PackCase := do
  let fs := fields head
  let g (k : String) : Option UInt64 := (natField fs k).map UInt64.ofNat
  pure { term := ← g "term", dl := ← g "dl", now := ← g "now", cur := ← g "cur" }

def packModel (p : PackCase) : String × String :=
  match pack p.term p.dl with
  | none => ("panic", "pack-panic")
  | some raw =>
      let (ut, ud) := unpack raw
      let inv := (pack p.term 0).getD 0
      let rv := (if isValid revoked p.now then 1 else 0) + (if isValidForLeader revoked p.cur p.now then 1 else 0)
                + (if isValidForLeader revoked 0 p.now then 1 else 0)
      (s!"raw={raw.toNat} ut={ut.toNat} ud={ud.toNat} same=1 v={b2s (isValid raw p.now)} vl={b2s (isValidForLeader raw p.cur p.now)} inv={inv.toNat} iv={b2s (isValid inv p.now)} rv={rv}",
       (if isValid raw p.now then "pack-valid" else "pack-expired") ++ "," ++
       (if p.term.toNat ≥ 65536 then "pack-term-wraps" else "pack-term-fits"))

/-- spec-side check of a `pack` observation (conclusions of `pack_roundtrip`, `revoke_invalidates`, validity arithmetic) -/
def packMonitor (p : PackCase) (out : String) : String :=
  if out == "panic" then (if p.dl > deadlineMask then "ok" else "bad pack-panics-on-48-bit-deadline") else
  let fs := fields out
  match natField fs "ut", natField fs "ud", natField fs "v", natField fs "vl", natField fs "iv", natField fs "rv",
        natField fs "same" with
  | some ut, some ud, some v, some vl, some iv, some rv, some same =>
      if p.dl > deadlineMask then "bad pack-accepts-oversized-deadline"
      else if ut != p.term.toNat % 65536 || ud != p.dl.toNat then "bad pack-roundtrip"
      else if same != 1 then "bad renew-stores-other-word"
      else if (v == 1) != decide (p.dl > p.now) then "bad is-valid-arithmetic"
      else if (vl == 1) != (decide (p.term.toNat % 65536 = p.cur.toNat % 65536) && decide (p.dl > p.now)) then
        "bad is-valid-for-leader-arithmetic"
      else if iv != 0 then "bad invalidate-leaves-valid"
      else if rv != 0 then "bad revoke-leaves-valid"
      else "ok"
  | _, _, _, _, _, _, _ => "bad-line"

def kindOf (head : String) : String := (lookup (fields head) "k").getD ""

def modelLine (line : String) : String :=
  let (head, ops) := splitCase line
  match kindOf head with
  | "pack" =>
      match parsePack head with
      | some p => let (o, t) := packModel p; o ++ "\t" ++ t
      | none => "bad-case\t-"
  | "leader" =>
      match parseLeader head ops with
      | some lc =>
          let (outs, tags, sf) := run lc.cfg (initState lc.term lc.commit lc.log) lc.ops
          if sf.panicked then "panic\tpack-panic"
          else ";".intercalate (outs.map showOut) ++ "\t" ++ ",".intercalate tags.eraseDups
      | none => "bad-case\t-"
  | "follower" =>
      match parseFollower head ops with
      | some fc =>
          let (outs, tags) := fRun fc.st fc.ops
          ";".intercalate (outs.map showFOut) ++ "\t" ++ ",".intercalate tags.eraseDups
      | none => "bad-case\t-"
  | _ => "bad-case\t-"

def monitorLine (prop : String) (line : String) : String :=
  if prop != "C12" then "skip" else
  match line.splitOn "\t" with
  | [case, out] =>
      let (head, ops) := splitCase case
      match kindOf head with
      | "pack" =>
          match parsePack head with
          | some p => packMonitor p out
          | none => "bad-case"
      | "leader" =>
          match parseLeader head ops with
          | some lc =>
              if out == "panic" then "skip" else
              match ((out.splitOn ";").filter (· ≠ "")).mapM parseOut with
              | some outs =>
                  match monRun lc.cfg (monInit lc.term) lc.ops outs with
                  | none => "ok"
                  | some sig => "bad " ++ sig
              | none => "bad-line"
          | none => "bad-case"
      | "follower" =>
          match parseFollower head ops with
          | some fc =>
              let outStrs := (out.splitOn ";").filter (· ≠ "")
              if outStrs.length != fc.ops.length then "bad-line" else
              match (fc.ops.zip outStrs).mapM (fun (op, s) => parseFOut op s) with
              | some outs =>
                  match fMonRun fc.emin none fc.ops outs with
                  | none => "ok"
                  | some sig => "bad " ++ sig
              | none => "bad-line"
          | none => "bad-case"
      | _ => "bad-case"
  | _ => "bad-line"

def main (args : List String) : IO UInt32 := do
  let stdin ← IO.getStdin
  let stdout ← IO.getStdout
  match args with
  | ["model"] => loop stdin stdout modelLine; return 0
  | ["monitor", p] => loop stdin stdout (monitorLine p); return 0
  | _ => IO.eprintln "usage: drv_lease model | monitor <prop>"; return 2
