import DEngine.Model.Proto
import DEngine.Model.Ttl
/-
  Driver of family `ttl` (C23).
  case   : `eng=<file|rocks> t0=<secs>|op;op;…`
           ops: put,k,v,ttl|-  del,k  cas,k,exp|-,new  adv,n  cleanup  get,k  ckpt  restart  srestart
                crash  snap  install
  output : `tok;tok;…|k=v,…|k@d,…`   one token per op: `.`  g<k>=<v|->  c+  c-  x<k.k…|->  nosnap
           then the final data map and the final lease table (sorted by key).
-/
open DEngine DEngine.Proto DEngine.MiniKv DEngine.Ttl

def parseOp (s : String) : Option Op :=
  match s.splitOn "," with
  | ["put", k, v, t] => do pure (.put (← k.toNat?) (← v.toNat?) (← parseOpt t))
  | ["del", k] => do pure (.del (← k.toNat?))
  | ["cas", k, e, v] => do pure (.cas (← k.toNat?) (← parseOpt e) (← v.toNat?))
  | ["adv", n] => do pure (.adv (← n.toNat?))
  | ["cleanup"] => some .cleanup
  | ["get", k] => do pure (.get (← k.toNat?))
  | ["ckpt"] => some .ckpt
  | ["restart"] => some .restart
  | ["srestart"] => some .srestart
  | ["crash"] => some .crash
  | ["snap"] => some .snap
  | ["install"] => some .install
  | _ => none

structure Case where
  eng : Eng
  t0 : Nat
  ops : List Op

def parseCase (line : String) : Option Case :=
  match line.splitOn "|" with
  | [hd, body] => do
    let fs := fields hd
    let eng ← match lookup fs "eng" with
      | some "file" => some Eng.file
      | some "rocks" => some Eng.rocks
      | _ => none
    let t0 ← natField fs "t0"
    let ops ← (if body.isEmpty then some [] else (body.splitOn ";").mapM parseOp)
    pure { eng, t0, ops }
  | _ => none

def showKeys (ks : List Nat) : String :=
  if ks.isEmpty then "-" else ".".intercalate ((ks.mergeSort (· ≤ ·)).map toString)

def showObs : Obs → String
  | .none => "."
  | .val k v => s!"g{k}={showOpt v}"
  | .cas true => "c+"
  | .cas false => "c-"
  | .removed ks => "x" ++ showKeys ks
  | .nosnap => "nosnap"
  | .panic => "panic"

def showOut (obs : List Obs) (s : St) : String :=
  (if obs.isEmpty then "-" else ";".intercalate (obs.map showObs)) ++ "|" ++ showMap "=" s.data ++ "|" ++
    showMap "@" s.lease

def dedup (l : List String) : List String := l.eraseDups

/-- `eng=sample long=<n> trials=<t>|` (see harness): since fix F47 `may_have_expired_keys` scans every
entry, so the due key is removed whatever the iteration order (`ttl_removed_after_cleanup`); the harness
tries `t` fresh instances (the old code missed with > 10 entries). -/
def sampleCase (line : String) : Option Nat :=
  match line.splitOn "|" with
  | [hd, _] =>
    let fs := fields hd
    if lookup fs "eng" == some "sample" then natField fs "long" else none
  | _ => none

def modelLine (line : String) : String :=
  match sampleCase line with
  | some n => if n + 1 ≤ 10 then "nomiss\tsample-le10" else "nomiss\tsample-gt10"
  | none =>
  match parseCase line with
  | none => "bad-case\t-"
  | some c =>
    let s0 := init c.eng c.t0
    let (s, obs) := run s0 c.ops
    let tags := dedup (runTags s0 c.ops)
    (if obs.contains .panic then "panic" else showOut obs s) ++ "\t" ++ (if tags.isEmpty then "-" else ",".intercalate tags)

def parseObs (s : String) : Option Obs :=
  if s == "." then some .none
  else if s == "c+" then some (.cas true)
  else if s == "c-" then some (.cas false)
  else if s == "nosnap" then some .nosnap
  else if s.startsWith "x" then
    let r := (s.drop 1).toString
    if r == "-" then some (.removed []) else ((r.splitOn ".").mapM String.toNat?).map .removed
  else if s.startsWith "g" then
    match ((s.drop 1).toString).splitOn "=" with
    | [k, v] => do pure (.val (← k.toNat?) (← parseOpt v))
    | _ => none
  else none

def parseMap (sep : String) (s : String) : Option AMap :=
  if s == "-" then some []
  else (s.splitOn ",").mapM fun kv =>
    match kv.splitOn sep with
    | [k, v] => do pure ((← k.toNat?), (← v.toNat?))
    | _ => none

def engName : Eng → String
  | .file => "file"
  | .rocks => "rocks"

def monitorC23 (c : Case) (out : String) : String :=
  match out.splitOn "|" with
  | [obsS, dataS, _leaseS] =>
    let obs? := if obsS == "-" then some [] else (obsS.splitOn ";").mapM parseObs
    match obs?, parseMap "=" dataS with
    | some obs, some final =>
      if obs.length ≠ c.ops.length then "bad impl-output-length"
      else
        match judge c.t0 c.ops obs final with
        | none => "ok"
        | some (kind, none) => s!"bad {kind}"
        | some (_, some ctx) => s!"bad ttl-state-wrong-after-{ctx}-{engName c.eng}"
    | _, _ => "bad impl-output-unparseable"
  | _ =>
    if out == "panic" then
      if c.ops.any (fun o => match o with | .put _ _ (some t) => 4611686018427387904 ≤ t | _ => false)
      then "bad panic-on-huge-ttl" else "bad panic"
    else "bad impl-output-unparseable"

def monitorLine (prop : String) (line : String) : String :=
  match line.splitOn "\t" with
  | [case, out] =>
    if (sampleCase case).isSome then
      (if prop != "C23" then "skip" else if out == "nomiss" then "ok"
       else if out == "miss" then "bad expired-key-survives-sampled-cleanup" else "bad impl-output-unparseable")
    else
    match parseCase case with
    | none => "bad-case"
    | some c => if prop == "C23" then monitorC23 c out else "skip"
  | _ => "bad-line"

def main (args : List String) : IO UInt32 := do
  let stdin ← IO.getStdin
  let stdout ← IO.getStdout
  match args with
  | ["model"] => loop stdin stdout modelLine; return 0
  | ["monitor", p] => loop stdin stdout (monitorLine p); return 0
  | _ => IO.eprintln "usage: drv_ttl model | monitor <prop>"; return 2
