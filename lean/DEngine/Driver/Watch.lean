import DEngine.Model.Proto
import DEngine.Model.Watch
/-!
Driver of the `watch` family (C24). Case format: see harness/src/bin/watch.rs.
`d` = `dstep` until idle; `h` = `tick` then `dstep` until idle; after the last op the dispatcher runs
until idle and every live watcher drains its channel.
-/
open DEngine DEngine.Proto DEngine.Watch

namespace DEngine.WatchDrv

def keyOf (s : String) : Key := s.toList.map Char.toNat
def showKey (k : Key) : String := String.ofList (k.map Char.ofNat)

def parseCmd (t : String) : Option Cmd :=
  match t.splitOn "." with
  | ["p", k, v] => do pure (.put (keyOf k) (← v.toNat?))
  | ["d", k] => some (.del (keyOf k))
  | ["c", k, e, v] => do
      let e' ← if e == "n" then some none else e.toNat?.map some
      pure (.cas (keyOf k) e' (← v.toNat?))
  | ["n"] => some .noop
  | _ => none

inductive HOp where
  | x (chunk : List Cmd) | reg (k : Key) (pre pk : Bool) | d | h
  | t (id n : Nat) | u (id : Nat) | v (id : Nat)

def parseOp (t : String) : Option HOp :=
  match t.splitOn ":" with
  | ["x", cs] => (((cs.splitOn ",").filter (· ≠ "")).mapM parseCmd).map .x
  | ["r", k, p] => some (.reg (keyOf k) false (p == "1"))
  | ["R", k, p] => some (.reg (keyOf k) true (p == "1"))
  | ["d"] => some .d
  | ["h"] => some .h
  | ["t", i, n] => do pure (.t (← i.toNat?) (← n.toNat?))
  | ["u", i] => i.toNat?.map .u
  | ["v", i] => i.toNat?.map .v
  | _ => none

def parseCase (line : String) : Option (St × List HOp) :=
  match line.splitOn "|" with
  | [head, body] => do
      let fs := fields head
      let q ← natField fs "q"
      if q == 0 || q > 1048576 then none
      let s : St := { bufSize := ← natField fs "buf", queueSize := q, maxWatchers := ← natField fs "max",
                      hbEnabled := (← natField fs "hb") > 0, progressRev := ← natField fs "la",
                      nextIndex := (← natField fs "la") + 1 }
      let ops ← ((body.splitOn ";").filter (· ≠ "")).mapM parseOp
      pure (s, ops)
  | _ => none

def fuel (s : St) : Nat := s.unregQ.length + s.sent.length + 3

def hstep (s : St) : HOp → St
  | .x c => step s (.apply c)
  | .reg k p v => step s (.reg k p v)
  | .d => drun (fuel s) s
  | .h => let s1 := if s.hbEnabled then step s .tick else s; drun (fuel s1) s1
  | .t i n => step s (.take i n)
  | .u i => step s (.dropHandle i)
  | .v i => if s.watchers.any (fun w => w.id == i && !w.closed) then step s (.dropReceiver i) else s

def tagsOf (s : St) (op : HOp) : List String :=
  let s' := hstep s op
  match op with
  | .x c =>
      (if prevKvCount s > 0 then ["apply:prev-read"] else []) ++
      (if (applyAll s.kv c).2.any (· == false) then ["apply:cas-failed"] else []) ++
      (if s'.sent.length - s'.cursor > ringCap s' then ["ring:overflowing"] else [])
  | .reg _ _ _ => [s!"reg:{s'.regResults.getLast?.getD "?"}"]
  | .d | .h =>
      (if s'.lagged > s.lagged then ["disp:lagged"] else []) ++
      (if s'.cursor > s.cursor then ["disp:events"] else []) ++
      (if !s.unregQ.isEmpty then ["disp:unregister-msg"] else []) ++
      (if s.hbDue || (match op with | .h => s.hbEnabled | _ => false) then ["disp:progress"] else []) ++
      (if (s.watchers.zip s'.watchers).any (fun p => p.1.registered && !p.2.registered && !p.1.closed &&
            p.2.hist.getLast?.map (·.typ) == some EvType.canceled) then ["disp:overflow-cancel"] else []) ++
      (if (s.watchers.zip s'.watchers).any (fun p => p.1.registered && !p.2.registered && p.1.closed)
          then ["disp:closed-cleanup"] else []) ++
      (if s'.watchers.any (fun w => w.isPrefix && w.hist.length > 0) then ["disp:prefix-delivery"] else [])
  | .t _ _ => []
  | .u _ => ["drop:handle"]
  | .v _ => ["drop:receiver"]

def showOptNat (o : Option Nat) : String := match o with | none => "_" | some v => toString v

def showEv (e : WEv) : String :=
  let t := match e.typ with | .put => "P" | .delete => "D" | .canceled => "C" | .progress => "G"
  let pv := match e.prev with | none => "-" | some p => showOptNat p
  s!"{t}.{showKey e.key}.{showOptNat e.value}.{e.rev}.{pv}"

def joinOr (l : List String) (sep : String) : String := if l.isEmpty then "-" else sep.intercalate l

def finish (s : St) : St :=
  let s := drun (fuel s) s
  { s with watchers := s.watchers.map fun w => if w.closed then w else { w with got := w.got ++ w.chan, chan := [] } }

def render (s : St) : String :=
  let ws := s.watchers.map fun w => s!" w{w.id}={joinOr (w.got.map showEv) ","}"
  s!"reg={joinOr s.regResults ","}{String.join ws} pk={prevKvCount s}"

def modelLine (line : String) : String :=
  match parseCase line with
  | none => "bad-case\t-"
  | some (s0, ops) =>
    let (s, tags) := ops.foldl (fun (acc : St × List String) op => (hstep acc.1 op, acc.2 ++ tagsOf acc.1 op)) (s0, [])
    s!"{render (finish s)}\t{joinOr tags.eraseDups ","}"

/-! ### Monitor (C24) on the implementation's output -/

def parseOptNat (s : String) : Option (Option Nat) := if s == "_" then some none else s.toNat?.map some

def parseEv (t : String) : Option WEv :=
  match t.splitOn "." with
  | [ty, k, v, r, p] => do
      let typ ← match ty with
        | "P" => some EvType.put | "D" => some .delete | "C" => some .canceled | "G" => some .progress | _ => none
      let pv ← if p == "-" then some none else (parseOptNat p).map some
      pure { typ := typ, key := keyOf k, value := ← parseOptNat v, prev := pv, rev := ← r.toNat? }
  | _ => none

def parseStream (s : String) : Option (List WEv) :=
  if s == "-" then some [] else (s.splitOn ",").mapM parseEv

structure WInfo where
  key : Key
  isPrefix : Bool
  must : Nat        -- events broadcast before the registration
  complete : Bool   -- the consumer never dropped the handle

/-- Reference run over the case: which watchers exist (successful registrations, in id order), how many
    events had been broadcast when each registered, whether its consumer left, and all broadcast events
    (from the reference KV semantics: put, delete, successful CAS). -/
def reference (s0 : St) (ops : List HOp) : List WInfo × List PEv :=
  let step (acc : St × List WInfo) (op : HOp) : St × List WInfo :=
    let (s, ws) := acc
    match op with
    | .x c => ({ s with kv := (applyAll s.kv c).1, nextIndex := s.nextIndex + c.length,
                        sent := s.sent ++ eventsOf s.nextIndex c (applyAll s.kv c).2 none }, ws)
    | .reg k p _ =>
        (s, ws ++ [{ key := k, isPrefix := p, must := s.sent.length, complete := true }])
    | .u i | .v i => (s, ws.mapIdx fun j w => if j + 1 == i then { w with complete := false } else w)
    | _ => (s, ws)
  let (s, ws) := ops.foldl step (s0, [])
  (ws, s.sent)

def isSublist : List WEv → List WEv → Bool
  | [], _ => true
  | _ :: _, [] => false
  | a :: as, b :: bs => if a == b then isSublist as bs else isSublist (a :: as) bs

def judge (w : WInfo) (evs : List PEv) (stream : List WEv) : String :=
  let stream := stream.map erasePrev
  if streamOk w.isPrefix false w.key evs w.must w.complete stream then
    (if progressOk 0 stream then "ok" else "bad progress-revision-stale")
  else
    let body := stream.filter (fun e => e.typ != .canceled)
    let cancelLast := match stream.reverse with
      | [] => true
      | _ :: rest => rest.all (fun e => e.typ != .canceled)
    let data := body.filter isData
    let exp := expected w.isPrefix false w.key evs
    if !cancelLast then "bad event-after-cancel"
    else if isSublist data exp then "bad gap-without-cancel"
    else if data.any (fun e => !covers w.isPrefix w.key e.key) then "bad event-for-foreign-key"
    else "bad wrong-events"

def monitorC24 (s0 : St) (ops : List HOp) (out : String) : String :=
  let fs := fields out
  match lookup fs "reg" with
  | none => if out == "bad-case" then "skip" else "bad unparsable-output"
  | some regs =>
    let regs := if regs == "-" then [] else regs.splitOn ","
    -- keep the registrations the implementation accepted
    let regOps := ops.filter (fun | .reg _ _ _ => true | _ => false)
    if regOps.length != regs.length then "bad unparsable-output" else
    -- renumber: watcher ids are assigned to successful registrations only
    let okFlags := regs.map (· == "ok")
    let (ops', _, _) := ops.foldl (fun (acc : List HOp × List Bool × Nat) op =>
        let (out, flags, _) := acc
        match op with
        | .reg _ _ _ => (match flags with
            | true :: r => (out ++ [op], r, 0)
            | _ :: r => (out, r, 0)
            | [] => (out, [], 0))
        | _ => (out ++ [op], flags, 0)) ([], okFlags, 0)
    let (ws, evs) := reference s0 ops'
    let verdicts := ws.mapIdx fun i w =>
      match (lookup fs s!"w{i + 1}").bind parseStream with
      | none => "bad unparsable-output"
      | some st => judge w evs st
    -- invalid prefixes must have been rejected, valid ones not rejected as invalid
    let badReg := (regOps.zip regs).any fun p => match p.1 with
      | .reg k true _ => (p.2 == "invalid") != (!validPrefix k)
      | .reg _ false _ => p.2 == "invalid"
      | _ => false
    if badReg then "bad prefix-validation" else
    match verdicts.find? (· != "ok") with
    | some v => v
    | none => "ok"

def monitorLine (prop : String) (line : String) : String :=
  match line.splitOn "\t" with
  | [case, out] =>
    match parseCase case with
    | none => "skip"
    | some (s0, ops) => if prop == "C24" then monitorC24 s0 ops out else "skip"
  | _ => "bad-line"

end DEngine.WatchDrv

open DEngine.WatchDrv in
def main (args : List String) : IO UInt32 := do
  let stdin ← IO.getStdin
  let stdout ← IO.getStdout
  match args with
  | ["model"] => loop stdin stdout modelLine; return 0
  | ["monitor", p] => loop stdin stdout (monitorLine p); return 0
  | _ => IO.eprintln "usage: drv_watch model | monitor <prop>"; return 2
