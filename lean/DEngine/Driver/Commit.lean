import DEngine.Model.Proto
import DEngine.Model.Memb
import DEngine.Model.Commit
open DEngine DEngine.Proto DEngine.Memb DEngine.Commit

namespace DEngine.CommitDrv

def parseRole (s : String) : Option Nat :=
  if s == "f" then some 1 else if s == "c" then some 2 else if s == "L" then some 3
  else if s == "l" then some 4 else if s == "u" then some 0 else none

def parseStatus (s : String) : Option Nat :=
  if s == "a" then some 3 else if s == "p" then some 1 else if s == "r" then some 2
  else if s == "u" then some 0 else none

def parseNode (s : String) : Option Node :=
  match s.splitOn ":" with
  | [i, r, st] => do pure { id := ← i.toNat?, role := ← parseRole r, status := ← parseStatus st }
  | _ => none

def parseNodes (s : String) : Option (List Node) :=
  if s.isEmpty || s == "-" then some [] else (s.splitOn ",").mapM parseNode

def optNat (s : String) : Option (Option Nat) :=
  if s == "-" then some none else s.toNat?.map some

/-- shared syntax of membership change ops -/
def parseChange (p : List String) : Option Change :=
  match p with
  | ["add", i, st] => do pure (.add (← i.toNat?) (← parseStatus st))
  | ["rm", i] => do pure (.remove (← i.toNat?))
  | ["pro", i] => do pure (.promote (← i.toNat?))
  | ["bp", is] => do pure (.batchPromote (← natList is) sActive)
  | ["bp", is, st] => do pure (.batchPromote (← natList is) (← parseStatus st))
  | ["br", is] => do pure (.batchRemove (← natList is))
  | ["nil"] => some .nil
  | _ => none

def parseOp (s : String) : Op :=
  let p := s.splitOn ":"
  let r : Option Op := match p with
    | ["ok", peer, t, m] => do pure (.ack (← peer.toNat?) (← t.toNat?) (.success (← m.toNat?)))
    | ["cf", peer, t, ct, ci] => do pure (.ack (← peer.toNat?) (← t.toNat?) (.conflict (← optNat ct) (← optNat ci)))
    | ["ht", peer, t] => do pure (.ack (← peer.toNat?) 0 (.higherTerm (← t.toNat?)))
    | ["fl", d] => do pure (.flushed (← d.toNat?))
    | ["ap", n] => do pure (.append (← n.toNat?))
    | _ => (parseChange p).map .change
  r.getD .bad

structure Case where
  init : Leader
  ops : List Op

def parseCase (line : String) : Option Case := do
  let (head, opsS) := match line.splitOn "|" with
    | [h] => (h, "")
    | [h, o] => (h, o)
    | _ => ("", "")
  let fs := fields head
  let term ← natField fs "t"
  let commit ← natField fs "c"
  let cu ← natField fs "cu"
  let log ← natList ((lookup fs "log").getD "-")
  let peers ← parseNodes ((lookup fs "peers").getD "-")
  let nodes := { id := 1, role := 1, status := 3 : Node } :: peers
  let ops := (opsS.splitOn ";").filter (· ≠ "") |>.map parseOp
  pure { init := initLeader term commit cu log nodes, ops := ops }

/-- `ht:P:T` carries the leader's own term as response term: patch it per step. -/
def fixOp (s : Leader) : Op → Op
  | .ack p _ (.higherTerm t) => .ack p s.term (.higherTerm t)
  | o => o

def runAll : Leader → List Op → List String → List String → Option (List String × List String)
  | _, [], recs, tags => some (recs.reverse, tags.reverse)
  | s, op :: rest, recs, tags =>
    match step s (fixOp s op) with
    | none => none
    | some (s', ev, tag) => runAll s' rest (record s' ev :: recs) (tag :: tags)

def modelLine (line : String) : String :=
  match parseCase line with
  | none => "bad-case\t-"
  | some c =>
    match runAll c.init c.ops [record c.init []] [] with
    | none => "panic\tpanic"
    | some (recs, tags) => " | ".intercalate recs ++ "\t" ++ ",".intercalate tags.eraseDups

/-! ### monitor: judge the implementation's records -/

def stripBr (s : String) (pre : String) : Option String :=
  if s.startsWith pre && s.endsWith "]" then some ((s.drop pre.length).dropEnd 1).toString else none

def parseMap (s : String) : Option IdxMap :=
  if s == "-" then some [] else
  (s.splitOn ",").mapM fun kv => match kv.splitOn ":" with
    | [k, v] => do pure (← k.toNat?, ← v.toNat?)
    | _ => none

def parseObs (rec : String) : Option Obs :=
  match rec.splitOn " " with
  | [c, t, m, n, _p, _e] => do
    let c ← (c.drop 1).toString.toNat?
    let t ← (t.drop 1).toString.toNat?
    let m ← parseMap (← stripBr m "m[")
    let n ← parseMap (← stripBr n "n[")
    pure { commit := c, term := t, matchIdx := m, nextIdx := n }
  | _ => none

def parsePending (rec : String) : List Nat :=
  match rec.splitOn " " with
  | [_, _, _, _, p, _] => ((stripBr p "p[").bind natList).getD []
  | _ => []

/-- walk the model for the context (log, cached configuration), judge the implementation's records -/
def judgeAll : Leader → List Op → Obs → List Obs → Option String
  | _, [], _, _ => none
  | _, _ :: _, _, [] => some "missing-record"
  | s, op :: rest, pre, post :: more =>
    match step s (fixOp s op) with
    | none => some "unexpected-panic-model"
    | some (s', _, _) =>
      match judge s'.log s'.targets pre post with
      | some sig => some sig
      | none => judgeAll s' rest post more

/-- every configuration the case walks through keeps "voter role ⇒ Active" -/
def consistentAll : Leader → List Op → Bool
  | s, [] => voterRolesActive s.self s.view.nodes
  | s, op :: rest =>
    voterRolesActive s.self s.view.nodes &&
    match step s (fixOp s op) with
    | none => true
    | some (s', _, _) => consistentAll s' rest

def monitorC09 (c : Case) (out : String) : String :=
  if out == "panic" then
    (match runAll c.init c.ops [] [] with
     | none => "skip"
     | some _ => "bad panic")
  else if !consistentAll c.init c.ops then "skip"
  else
    match (out.splitOn " | ").mapM parseObs with
    | none => "bad unparsable-output"
    | some [] => "bad unparsable-output"
    | some (o0 :: os) =>
      if os.length != c.ops.length then "bad record-count"
      else match judgeAll c.init c.ops o0 os with
        | some sig => "bad " ++ sig
        | none => "ok"

/-- C27 on this family: an acknowledgement of a peer that is a learner (by role) or a stranger never
    moves the commit index, and the commit index never moves by a quorum that needs a learner. -/
def learnerAckMoves (cu : Nat) : Leader → List Op → (Obs × List Nat) → List (Obs × List Nat) → Option String
  | _, [], _, _ => none
  | _, _ :: _, _, [] => some "missing-record"
  | s, op :: rest, (pre, ppre), (post, ppost) :: more =>
    match step s (fixOp s op) with
    | none => some "unexpected-panic-model"
    | some (s', _, _) =>
      let bad := match fixOp s op with
        | .ack p _ _ => !isVoterTarget s.targets p && post.commit != pre.commit
        | _ => false
      -- ids newly queued for promotion must be caught-up promotable learners (by the implementation's own numbers)
      let newly := ppost.filter fun id => !ppre.contains id
      let lagging := newly.any fun id =>
        !(isLearnerTarget s'.targets id && Memb.contains s'.view.nodes id
          && ((Memb.find? s'.view.nodes id).map (·.status)).getD sReadOnly == sPromotable
          && post.commit - mgetD post.matchIdx id ≤ cu)
      if bad then some "learner-ack-moved-commit"
      else if lagging then some "promotion-of-ineligible-learner"
      else if post.commit > pre.commit &&
          holders post.commit (voterPeers s'.targets) post.matchIdx * 2 ≤ (voterPeers s'.targets).length + 1 &&
          holders post.commit (s'.targets.map (·.id)) post.matchIdx * 2 > (voterPeers s'.targets).length + 1 &&
          (s'.targets.any fun n => n.role == rLearner && mgetD post.matchIdx n.id ≥ post.commit)
        then some "learner-counted-in-commit-quorum"
      else learnerAckMoves cu s' rest (post, ppost) more

def monitorC27 (c : Case) (out : String) : String :=
  if out == "panic" then "skip"
  else if !consistentAll c.init c.ops then "skip"
  else if !(c.init.view.nodes.any fun n => n.role == rLearner) &&
          !(c.ops.any fun o => match o with | .change _ => true | _ => false) then "skip"
  else
    let recs := out.splitOn " | "
    match recs.mapM parseObs with
    | none => "bad unparsable-output"
    | some [] => "bad unparsable-output"
    | some (o0 :: os) =>
      if os.length != c.ops.length then "bad record-count"
      else
        let ps := recs.map parsePending
        match learnerAckMoves c.init.catchup c.init c.ops (o0, ps.headD []) (os.zip (ps.drop 1)) with
        | some sig => "bad " ++ sig
        | none => "ok"

def monitorLine (prop : String) (line : String) : String :=
  match line.splitOn "\t" with
  | [case, out] =>
    match parseCase case with
    | none => "bad-case"
    | some c =>
      if prop == "C09" then monitorC09 c out
      else if prop == "C27" then monitorC27 c out
      else "skip"
  | _ => "bad-line"

end DEngine.CommitDrv

def main (args : List String) : IO UInt32 := do
  let stdin ← IO.getStdin
  let stdout ← IO.getStdout
  match args with
  | ["model"] => DEngine.Proto.loop stdin stdout DEngine.CommitDrv.modelLine; return 0
  | ["monitor", p] => DEngine.Proto.loop stdin stdout (DEngine.CommitDrv.monitorLine p); return 0
  | _ => IO.eprintln "usage: drv_commit model | monitor <prop>"; return 2
