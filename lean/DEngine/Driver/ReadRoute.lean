import DEngine.Model.Proto
import DEngine.Model.ReadRoute
open DEngine DEngine.Proto DEngine.ReadRoute

def parseRole : String → Option Role
  | "follower" => some .follower | "candidate" => some .candidate
  | "learner" => some .learner | "leader" => some .leader | _ => none

def parsePolicy : String → Option Policy
  | "lin" => some .lin | "lease" => some .lease | "ev" => some .ev | _ => none

def parseCli : String → Option Cli
  | "none" => some .none | "unknown" => some .unknown
  | s => (parsePolicy s).map Cli.some

def parsePath : String → Option Path
  | "raft" => some .raft | "grpc" => some .grpc | "emb" => some .emb | _ => none

def parseBool : String → Option Bool
  | "0" => some false | "1" => some true | _ => none

def parseCase (line : String) : Option Case := do
  let fs := fields line
  pure {
    role := ← (lookup fs "role").bind parseRole
    dflt := ← (lookup fs "def").bind parsePolicy
    ovr := ← (lookup fs "ovr").bind parseBool
    cli := ← (lookup fs "cli").bind parseCli
    path := ← (lookup fs "path").bind parsePath
    leaseValid := ← (lookup fs "lease").bind parseBool }

def showPolicy : Policy → String
  | .lin => "lin" | .lease => "lease" | .ev => "ev"

def showOutcome : Outcome → String
  | .localRead true p => "fast:local-" ++ showPolicy p
  | .localRead false p => "raft:local-" ++ showPolicy p
  | .leaderQ p => "raft:leader-" ++ showPolicy p
  | .notLeader => "raft:not-leader"
  | .na => "n/a"

def parseOutcome : String → Option Outcome
  | "fast:local-lin" => some (.localRead true .lin)
  | "fast:local-lease" => some (.localRead true .lease)
  | "fast:local-ev" => some (.localRead true .ev)
  | "raft:local-lin" => some (.localRead false .lin)
  | "raft:local-lease" => some (.localRead false .lease)
  | "raft:local-ev" => some (.localRead false .ev)
  | "raft:leader-lin" => some (.leaderQ .lin)
  | "raft:leader-lease" => some (.leaderQ .lease)
  | "raft:leader-ev" => some (.leaderQ .ev)
  | "raft:not-leader" => some .notLeader
  | "n/a" => some .na
  | _ => none

def modelLine (line : String) : String :=
  match parseCase line with
  | none => "bad-case\t-"
  | some c => let r := routeT c; showOutcome r.1 ++ "\t" ++ r.2

def monitorLine (prop : String) (line : String) : String :=
  match line.splitOn "\t" with
  | [case, out] =>
    match parseCase case with
    | none => "bad-case"
    | some c =>
      if prop != "C13" then "skip" else
      match parseOutcome out with
      | none => "bad unparsable-outcome"
      | some .na => "skip"
      | some o =>
        match monitorC13 c o with
        | none => "ok"
        | some sig => "bad " ++ sig
  | _ => "bad-line"

def main (args : List String) : IO UInt32 := do
  let stdin ← IO.getStdin
  let stdout ← IO.getStdout
  match args with
  | ["model"] => loop stdin stdout modelLine; return 0
  | ["monitor", p] => loop stdin stdout (monitorLine p); return 0
  | _ => IO.eprintln "usage: drv_readroute model | monitor <prop>"; return 2
