import DEngine.Model.Proto
import DEngine.Model.Purge
open DEngine DEngine.Proto DEngine.Purge

/-! Line-protocol driver of family `purge` (case layout: see harness/src/bin/purge.rs). -/

def pdots (s : String) : Option (List Nat) := (s.splitOn ".").mapM String.toNat?

def parseRole (s : String) : Option Role :=
  if s == "L" then some .L else if s == "F" then some .F else if s == "N" then some .N else none

def parsePOp (s : String) : Option POp :=
  let rest := (s.drop 1).toString
  if s == "s" then some .snapshot
  else if s == "u" then some .pushDone
  else if s.startsWith "w" then
    match pdots rest with
    | some [k, t] => some (.write k t)
    | _ => none
  else if s.startsWith "c" then rest.toNat?.map .commit
  else if s.startsWith "a" then rest.toNat?.map .apply
  else if s.startsWith "q" then
    match pdots rest with
    | some [lp, li] => some (.query lp li)
    | _ => none
  else if s.startsWith "t" then (parseRole rest).map .trans
  else if s.startsWith "r" then (parseRole rest).map .restart
  else if s.startsWith "p" then rest.toNat?.map .peer
  else none

def so (o : Option Nat) : String := match o with | some v => toString v | none => "-"
def po (s : String) : Option (Option Nat) := if s == "-" then some none else s.toNat?.map some

def showPOut : POut → String
  | .refused => "x"
  | .ans b => if b then "1" else "0"
  | .next n => so n
  | .plan (.append p t) => s!"A{p}.{t}"
  | .plan (.snapshotTarget m) => s!"S{so m}"
  | .st o =>
      let base := s!"{o.first}.{o.last}.{so o.bt}.{so o.rp}.{so o.sc}.{so o.sn}.{o.la}.{o.c}"
      match o.purged with
      | some p => base ++ s!".P{p}"
      | none => base

/-- the harness prints `A<prev>.<prevterm>.<n entries>`; the entry count belongs to M-REPL and is ignored here -/
def parsePOut (op : POp) (s : String) : Option POut :=
  match op with
  | .query _ _ => some (.ans (s == "1"))
  | .pushDone => (po s).map .next
  | .peer _ =>
      if s.startsWith "S" then (po (s.drop 1).toString).map (fun m => .plan (.snapshotTarget m))
      else if s.startsWith "A" then
        match pdots (s.drop 1).toString with
        | some (p :: t :: _) => some (.plan (.append p t))
        | _ => none
      else none
  | _ =>
      if s == "x" then some .refused else
      match s.splitOn "." with
      | f :: l :: bt :: rp :: sc :: sn :: la :: c :: rest => do
          let purged ← match rest with
            | [] => some none
            | [p] => if p.startsWith "P" then (p.drop 1).toString.toNat?.map some else none
            | _ => none
          some (.st { first := ← f.toNat?, last := ← l.toNat?, bt := ← po bt, rp := ← po rp, sc := ← po sc,
                      sn := ← po sn, la := ← la.toNat?, c := ← c.toNat?, purged })
      | _ => none

/-- canonical text of an implementation observation for comparison with the model (drops the entry count of `A`) -/
def canonOut (op : POp) (s : String) : String :=
  match parsePOut op s with
  | some o => showPOut o
  | none => s

structure PCase where
  init : PState
  ops : List POp

def parsePCase (line : String) : Option PCase := do
  let (head, ops) ← match line.splitOn "|" with
    | [h, o] => some (h, (o.splitOn ";").filter (· ≠ ""))
    | [h] => some (h, [])
    | _ => none
  let fs := fields head
  let eng ← match lookup fs "eng" with
    | some "file" => some Eng.file
    | some "rocks" => some Eng.rocks
    | _ => none
  let role ← (lookup fs "role").bind parseRole
  let ret ← natField fs "ret"
  let ops ← ops.mapM parsePOp
  pure { init := initState eng role ret, ops }

def showCalls (cs : List WCall) : String :=
  if cs.isEmpty then "-" else ",".intercalate (cs.map fun c => match c with
    | .pushFailed => "Sf" | .pushOk => "Sk" | .append p => s!"A{p}")

def parseCalls (s : String) : Option (List WCall) :=
  if s == "-" then some [] else
  (s.splitOn ",").mapM fun t =>
    if t == "Sf" then some .pushFailed else if t == "Sk" then some .pushOk
    else if t.startsWith "A" then (t.drop 1).toString.toNat?.map .append else none

structure WCase where
  init : WState
  dts : List WOp

def parseWCase (line : String) : Option WCase := do
  let (head, ops) ← match line.splitOn "|" with
    | [h, o] => some (h, (o.splitOn ";").filter (· ≠ ""))
    | _ => none
  let fs := fields head
  let snap ← (lookup fs "snap").bind po
  let dts ← ops.mapM (fun o => if o == "b" then some WOp.brk else if o.startsWith "h" then (o.drop 1).toString.toNat?.map WOp.hb else none)
  pure { init := { first := ← natField fs "first", last := ← natField fs "last", snap, base := ← natField fs "base",
                   cap := ← natField fs "cap", now := 0, next := ← natField fs "next",
                   failsLeft := ← natField fs "fail", failCount := 0, retryAt := none, inProgress := false,
                   broken := false, hasWorker := false }, dts }

def isWorker (line : String) : Bool := line.startsWith "k=worker"

def wModelLine (line : String) : String :=
  match parseWCase line with
  | none => "bad-case\t-"
  | some wc =>
      let outs := wRun wc.init wc.dts
      let tags := (if wc.dts.contains .brk then ["w-stream-break"] else []) ++ (outs.map fun (cs, _) =>
        if cs.contains .pushFailed then "w-push-failed" else if cs.contains .pushOk then "w-push-ok"
        else if cs.isEmpty then "w-nothing" else "w-append").eraseDups
      ";".intercalate (outs.map fun (cs, n) => s!"{showCalls cs}.{n}") ++ "\t" ++ ",".intercalate tags

def wMonitorLine (case out : String) : String :=
  match parseWCase case with
  | none => "bad-case"
  | some wc =>
      if out == "panic" then "bad panic" else
      let obs := ((out.splitOn ";").filter (· ≠ "")).mapM fun o =>
        match o.splitOn "." with
        | [c, n] => do some (← parseCalls c, ← n.toNat?)
        | _ => none
      match obs with
      | none => "bad-line"
      | some os =>
          let s := wc.init
          match wMon s.first s.last s.snap s.base s.cap 0 s.next 0 none false false false wc.dts os with
          | none => "ok"
          | some sig => "bad " ++ sig

def modelLine (line : String) : String :=
  if isWorker line then wModelLine line else
  match parsePCase line with
  | none => "bad-case\t-"
  | some pc =>
      let (outs, tags, _) := run pc.init pc.ops
      ";".intercalate (outs.map showPOut) ++ "\t" ++ ",".intercalate tags.eraseDups

def monitorLine (prop : String) (line : String) : String :=
  if prop != "C33" then "skip" else
  match line.splitOn "\t" with
  | [case, out] =>
      if isWorker case then wMonitorLine case out else
      match parsePCase case with
      | none => "bad-case"
      | some pc =>
          if out == "panic" then "bad panic" else
          let strs := (out.splitOn ";").filter (· ≠ "")
          if strs.length != pc.ops.length then "bad-line" else
          match (pc.ops.zip strs).mapM (fun (op, s) => parsePOut op s) with
          | none => "bad-line"
          | some outs =>
              match monRun 0 0 pc.ops outs with
              | none => "ok"
              | some sig => "bad " ++ sig
  | _ => "bad-line"

def main (args : List String) : IO UInt32 := do
  let stdin ← IO.getStdin
  let stdout ← IO.getStdout
  match args with
  | ["model"] => loop stdin stdout modelLine; return 0
  | ["monitor", p] => loop stdin stdout (monitorLine p); return 0
  | _ => IO.eprintln "usage: drv_purge model | monitor <prop>"; return 2
