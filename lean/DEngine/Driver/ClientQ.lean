import DEngine.Model.Proto
import DEngine.Model.ClientQ
import DEngine.Model.ClientQMon
open DEngine DEngine.Proto DEngine.ClientQ

/-! Line protocol of family `clientq`.
  case   : `role=leader n=3 maxw=0 maxr=0 T=1000 PT=2000 lease=500 hb=100 pre=2|op;op;…`
  ops    : wp<v> wd wc<e>.<n> we | r0 r1 r2 | s | j<node> | f | t<ms> | a<peer>.<m>.<round> | x<peer> | h<t> | z
           | lf | ap<k> | sd | fi | fx | noop
  output : `<ev>;<ev>;…|<image>` with `<ev>` = `<id>=<resp>,…/c<commit>a<applied>l<0|1>` (`-` if no response)
-/

def nums (s : String) : Option (List Nat) := (s.splitOn ".").mapM String.toNat?

def parseOp (s : String) : Option Ev :=
  if s == "f" then some .flush
  else if s == "s" then some .scan
  else if s == "z" then some .ackStale
  else if s == "lf" then some .logFlushed
  else if s == "sd" then some .stepDown
  else if s == "fi" then some .fatalInbound
  else if s == "fx" then some .fatalInternal
  else if s == "noop" then some .noop
  else if s == "we" then some (.write .empty)
  else if s == "wd" then some (.write .del)
  else if s.startsWith "wp" then (s.drop 2).toString.toNat?.map fun v => .write (.put v)
  else if s.startsWith "wc" then
    match nums (s.drop 2).toString with
    | some [e, n] => some (.write (.cas e n))
    | _ => none
  else if s.startsWith "ap" then (s.drop 2).toString.toNat?.map .apply
  else if s.startsWith "r" then (s.drop 1).toString.toNat?.bind fun p => if p ≤ 2 then some (.read p) else none
  else if s.startsWith "j" then (s.drop 1).toString.toNat?.map .join
  else if s.startsWith "t" then (s.drop 1).toString.toNat?.map .tick
  else if s.startsWith "a" then
    match nums (s.drop 1).toString with
    | some [p, m, r] => some (.ack p m r)
    | _ => none
  else if s.startsWith "x" then (s.drop 1).toString.toNat?.map .ackConflict
  else if s.startsWith "h" then (s.drop 1).toString.toNat?.map .ackHigher
  else none

structure Case where
  cfg : Cfg
  pre : Nat
  evs : List Ev

def parseCase (line : String) : Option Case :=
  match line.splitOn "|" with
  | [hd, ops] => do
    let fs := fields hd
    let role ← lookup fs "role"
    let cfg : Cfg := {
      voters := ← natField fs "n", maxW := ← natField fs "maxw", maxR := ← natField fs "maxr",
      timeout := ← natField fs "T", ptimeout := ← natField fs "PT", lease := ← natField fs "lease",
      hb := ← natField fs "hb", leader := role == "leader" }
    let pre ← natField fs "pre"
    let evs ← (splitOn ops ";").mapM parseOp
    if cfg.voters == 0 then none else
    pure { cfg := cfg, pre := pre, evs := evs }
  | _ => none

def showResp : Resp → String
  | .ok => "ok" | .casFail => "casfail" | .exhausted => "exhausted" | .emptyCmd => "empty"
  | .notLeader => "notleader" | .proposeFailed => "proposefailed" | .termOutdated => "termoutdated"
  | .deadline => "deadline" | .fatal => "fatal" | .dropped => "dropped"
  | .val v a => s!"val{v}@{a}" | .notReady => "notready" | .stepDown => "stepdown"
  | .scanOk => "scanok" | .joinOk => "joinok" | .joinExists => "joinexists"

def parseResp (s : String) : Option Resp :=
  match s with
  | "ok" => some .ok | "casfail" => some .casFail | "exhausted" => some .exhausted | "empty" => some .emptyCmd
  | "notleader" => some .notLeader | "proposefailed" => some .proposeFailed
  | "termoutdated" => some .termOutdated | "deadline" => some .deadline | "fatal" => some .fatal
  | "dropped" => some .dropped | "notready" => some .notReady | "stepdown" => some .stepDown
  | "scanok" => some .scanOk | "joinok" => some .joinOk | "joinexists" => some .joinExists
  | _ =>
    if s.startsWith "val" then
      match (s.drop 3).toString.splitOn "@" with
      | [v, a] => do pure (.val (← v.toNat?) (← a.toNat?))
      | _ => none
    else none

def insertById (x : Nat × Resp) : List (Nat × Resp) → List (Nat × Resp)
  | [] => [x]
  | y :: ys => if x.1 ≤ y.1 then x :: y :: ys else y :: insertById x ys

def showOut (o : Out) : String :=
  if o.isEmpty then "-" else
  ",".intercalate ((o.foldr insertById []).map fun r => s!"{r.1}={showResp r.2}")

def b01 (b : Bool) : String := if b then "1" else "0"

def showEv (e : EvObs) : String := s!"{showOut e.out}/c{e.commit}a{e.applied}l{b01 e.leaseValid}"

def showOp : WOp → String
  | .put v => s!"p{v}" | .del => "d" | .cas e n => s!"c{e}.{n}" | .empty => "e"

def showKind : EntKind → String
  | .old => "o" | .noop => "n" | .conf => "c" | .write i op => s!"w{i}{showOp op}"

def showList (l : List String) : String := if l.isEmpty then "-" else ",".intercalate l

def showPhase : Phase → String
  | .running => "run" | .stepped => "stepped" | .halted => "halted"

def showImage (i : Image) : String :=
  let noop := match i.noopIdx with | some n => toString n | none => "-"
  s!"last={i.last} commit={i.commit} noop={noop} P={i.nP} L={i.nL} S={i.nS} E={i.nE} " ++
  s!"W={showList (i.pcw.map fun (e, st, n, w, r) => s!"{e}:{st}:{n}:{b01 w}:{r}")} " ++
  s!"A={showList (i.pwa.map toString)} " ++
  s!"R={showList (i.preads.map fun (k, n, r) => s!"{k}:{n}:{r}")} " ++
  s!"Q={showList (i.pleases.map toString)} " ++
  s!"C={showList (i.pca.map fun (k, n, r) => s!"{k}:{if n then "n" else "j"}:{r}")} " ++
  s!"log={showList (i.log.map showKind)} phase={showPhase i.phase} sd={b01 i.wantStepDown}"

def showObs (o : Obs) : String := ";".intercalate (o.evs.map showEv) ++ "|" ++ showImage o.img

/-! parsing the implementation's observation back -/

def parseOutList (s : String) : Option Out :=
  if s == "-" then some [] else
  (s.splitOn ",").mapM fun kv =>
    match kv.splitOn "=" with
    | [i, r] => do pure (← i.toNat?, ← parseResp r)
    | _ => none

def parseEvObs (s : String) : Option EvObs :=
  match s.splitOn "/" with
  | [o, rest] => do
    -- rest = c<commit>a<applied>l<b>
    let rest := (rest.drop 1).toString
    match rest.splitOn "a" with
    | [cm, r2] =>
      match r2.splitOn "l" with
      | [ap, lv] => pure { out := ← parseOutList o, commit := ← cm.toNat?, applied := ← ap.toNat?, leaseValid := lv == "1" }
      | _ => none
    | _ => none
  | _ => none

def parseKind (s : String) : Option EntKind :=
  if s == "o" then some .old else if s == "n" then some .noop else if s == "c" then some .conf
  else if s.startsWith "w" then
    let body := (s.drop 1).toString
    let digits := body.takeWhile Char.isDigit
    let rest := (body.drop digits.toString.length).toString
    do
      let id ← digits.toString.toNat?
      let op ← (if rest == "d" then some WOp.del else if rest == "e" then some WOp.empty
        else if rest.startsWith "p" then (rest.drop 1).toString.toNat?.map WOp.put
        else if rest.startsWith "c" then
          match nums (rest.drop 1).toString with
          | some [e, n] => some (WOp.cas e n)
          | _ => none
        else none)
      pure (.write id op)
  else none

def parseListWith {α} (f : String → Option α) (s : String) : Option (List α) :=
  if s == "-" then some [] else (s.splitOn ",").mapM f

def parseImage (s : String) : Option Image := do
  let fs := fields s
  let g := natField fs
  let l (k : String) : Option String := lookup fs k
  let pcw ← parseListWith (fun x => match nums (x.replace ":" ".") with
    | some [e, st, n, w, r] => some (e, st, n, w == 1, r) | _ => none) (← l "W")
  let pwa ← parseListWith String.toNat? (← l "A")
  let preads ← parseListWith (fun x => match nums (x.replace ":" ".") with
    | some [k, n, r] => some (k, n, r) | _ => none) (← l "R")
  let pleases ← parseListWith String.toNat? (← l "Q")
  let pca ← parseListWith (fun x => match x.splitOn ":" with
    | [k, n, r] => do pure (← k.toNat?, n == "n", ← r.toNat?) | _ => none) (← l "C")
  let log ← parseListWith parseKind (← l "log")
  let phase ← (match ← l "phase" with
    | "run" => some Phase.running | "stepped" => some Phase.stepped | "halted" => some Phase.halted | _ => none)
  pure { last := ← g "last", commit := ← g "commit", noopIdx := (← l "noop").toNat?,
         nP := ← g "P", nL := ← g "L", nS := ← g "S", nE := ← g "E",
         pcw := pcw, pwa := pwa, preads := preads, pleases := pleases, pca := pca, log := log,
         phase := phase, wantStepDown := (← l "sd") == "1" }

def parseObs (s : String) : Option Obs :=
  match s.splitOn "|" with
  | [evs, img] => do
    let es ← (splitOn evs ";").mapM parseEvObs
    pure { evs := es, img := ← parseImage img }
  | _ => none

/-! branch tags (coverage of the model's decisions) -/
def tagsOf (c : Case) (o : Obs) : String :=
  let rs := (allResps o).map fun t => match t.2.2 with | .val _ _ => "resp:val" | r => "resp:" ++ showResp r
  let evk := c.evs.map fun e => match e with
    | .write _ => "ev:write" | .read p => s!"ev:read{p}" | .scan => "ev:scan" | .join _ => "ev:join"
    | .flush => "ev:flush" | .tick _ => "ev:tick" | .ack _ _ _ => "ev:ack" | .ackConflict _ => "ev:conflict"
    | .ackHigher _ => "ev:higher" | .ackStale => "ev:stale" | .logFlushed => "ev:logflushed"
    | .apply _ => "ev:apply" | .stepDown => "ev:stepdown" | .fatalInbound => "ev:fatal-inbound"
    | .fatalInternal => "ev:fatal-internal" | .noop => "ev:noop"
  let extra := (if o.img.pcw.isEmpty then [] else ["img:pcw"]) ++ (if o.img.pwa.isEmpty then [] else ["img:pwa"]) ++
    (if o.img.preads.isEmpty then [] else ["img:preads"]) ++ (if o.img.pleases.isEmpty then [] else ["img:pleases"]) ++
    (if o.img.pca.isEmpty then [] else ["img:pca"]) ++ (if c.cfg.single then ["cfg:single"] else ["cfg:multi"]) ++
    (if c.cfg.leader then [] else ["cfg:follower"])
  ",".intercalate ((rs ++ evk ++ extra).eraseDups)

def modelLine (line : String) : String :=
  match parseCase line with
  | none => "bad-case\t-"
  | some c =>
    let o := modelObs c.cfg c.pre c.evs
    showObs o ++ "\t" ++ tagsOf c o

def monitorLine (prop : String) (line : String) : String :=
  match line.splitOn "\t" with
  | [cs, out] =>
    match parseCase cs with
    | none => "bad-case"
    | some c =>
      match parseObs out with
      | none => "bad unparsable-observation"
      | some o =>
        if o.evs.length != c.evs.length then "bad observation-length" else
        let r := match prop with
          | "C29" => some (monC29 c.cfg c.evs o)
          | "C14" => some (monC14 c.cfg c.evs o)
          | "C30" => some (monC30 c.cfg c.evs o)
          | "C11" => some (monC11 c.cfg c.pre c.evs o)
          | _ => none
        match r with
        | none => "skip"
        | some none => "ok"
        | some (some sig) => "bad " ++ sig
  | _ => "bad-line"

def main (args : List String) : IO UInt32 := do
  let stdin ← IO.getStdin
  let stdout ← IO.getStdout
  match args with
  | ["model"] => loop stdin stdout modelLine; return 0
  | ["monitor", p] => loop stdin stdout (monitorLine p); return 0
  | _ => IO.eprintln "usage: drv_clientq model | monitor <prop>"; return 2
