import DEngine.Model.Proto
import DEngine.Model.SnapStream
open DEngine DEngine.Proto DEngine.SnapStream

/-! Driver of family `snapstream` (C17). Case / output format: see harness/src/bin/snapstream.rs.
    Fixed scenario of the harness: genuine snapshot label 3.2 (term 2, leader 1), follower state k9=9 at 1.1 and an old
    final snapshot file 1-1. -/

def genuineLabel : Nat × Nat := (3, 2)
def oldLabel : Nat × Nat := (1, 1)

def applyMod (n : Nat) (c : Chunk) (m : String) : Option Chunk :=
  let num (pre : String) : Option Nat := if m.startsWith pre then (m.drop pre.length).toString.toNat? else none
  if m == "sum" then some { c with sumLen := 4, sumMatch := false }
  else if m == "data" then some { c with sumLen := 4, sumMatch := false, data := (c.data.1, if c.data.2 == .empty then .empty else .altered) }
  else if m == "fix" then some { c with sumLen := 4, sumMatch := true, data := (c.data.1, if c.data.2 == .empty then .empty else .altered) }
  else if m == "empty" then some { c with sumLen := 4, sumMatch := true, data := (c.data.1, .empty) }
  else if m == "lost" then some { c with sumLen := 0, sumMatch := true, data := (c.data.1, .empty) }
  else if m.startsWith "sumlen" then
    match (m.drop 6).toString.toNat? with
    | some k => some { c with sumLen := k, sumMatch := true }
    | none => none
  else if m == "nometa" then some { c with md := .none }
  else if m == "meta" then some { c with md := .label genuineLabel.1 genuineLabel.2 }
  else if m == "nolast" then some { c with md := .noLast }
  else if m == "old" then some { c with md := .label oldLabel.1 oldLabel.2 }
  else match num "term", num "lead", num "seq", num "tot" with
    | some k, _, _, _ => some { c with term := k }
    | _, some k, _, _ => some { c with leader := k }
    | _, _, some k, _ => some { c with seq := k }
    | _, _, _, some k => some { c with total := k }
    | _, _, _, _ => let _ := n; none

def parseItem (n : Nat) (s : String) : Option Chunk :=
  match s.splitOn "+" with
  | [] => none
  | i :: mods => do
    let i ← i.toNat?
    if i ≥ n then none else
    let base : Chunk := { seq := i, total := n, term := genuineLabel.2, leader := 1,
                          md := if i == 0 then .label genuineLabel.1 genuineLabel.2 else .none,
                          sumLen := 4, sumMatch := true, data := (i, .pristine) }
    -- `fix` after `data` restores a valid checksum, `sum`/`data` after `fix` break it again: mods apply in order
    mods.foldlM (applyMod n) base

structure Case where
  n : Nat
  cs : List Chunk
  e : End

def parseCase (line : String) : Option Case :=
  match line.splitOn "|" with
  | [head, body] =>
    if !head.startsWith "n=" then none else do
    let n ← (head.drop 2).toString.toNat?
    if n == 0 || n > 6 then none else
    let items := (body.splitOn ";").filter (· ≠ "")
    let hold := items.contains "hold"
    let cs ← (items.filter (· ≠ "hold")).mapM (parseItem n)
    pure { n, cs, e := if hold then .hold else .closed }
  | _ => none

def showErr : Err → String
  | .order => "order" | .leader => "leader" | .checksum => "checksum" | .nometa => "nometa" | .count => "count"
  | .timeout => "timeout"
  -- both are final-stage validation failures after every chunk was accepted; which of the two the code reports first
  -- when both apply is not property-relevant, so they are compared as one class
  | .nolast => "final" | .archive => "final"

def showRes : Res → String
  | .ok => "ok"
  | .err e => s!"err:{showErr e}"

def showAck (a : Ack) : String :=
  let st := match a.status with | .acc => "acc" | .sum => "sum" | .ooo => "ooo" | .fail => "fail"
  s!"{a.seq}/{st}/{a.next}"

def showContent (n : Nat) : Content → String
  | .old => "OLD"
  | .toks l => if l.filter (·.2 ≠ .empty) == (List.range n).map (fun i => (i, Kind.pristine)) then "A" else "cat"

def insertSorted (x : String) : List String → List String
  | [] => [x]
  | y :: r => if x < y then x :: y :: r else y :: insertSorted x r

def initFollower : Follower := { sm := .own, finals := [(oldLabel, .old)], part := false }

def showFollower (n : Nat) (f : Follower) : String :=
  let sm := match f.sm with
    | .own => "sm=9=9 la=1.1"
    | .snapshot l => s!"sm=1=1,2=2,3=3 la={l.1}.{l.2}"
  let entries := f.finals.map (fun p => s!"final:{p.1.1}-{p.1.2}={showContent n p.2}") ++ (if f.part then ["part"] else [])
  s!"{sm} dir={",".intercalate (entries.foldr insertSorted [])}"

def caseTags (c : Case) (r : Res) : List String :=
  [match r with | .ok => "ok" | .err e => s!"err-{showErr e}"] ++
  (if (exact c.cs c.e).isSome then ["exact"] else ["inexact"]) ++
  (if c.e == .hold then ["hold"] else []) ++
  (if c.cs.isEmpty then ["empty"] else [])

def loaderFacts : String := "total seq meta sum cat term lead"

def modelLine (line : String) : String :=
  if line.startsWith "loader|" then s!"{loaderFacts}\tloader" else
  match parseCase line with
  | none => "bad-case\t-"
  | some c =>
    let (f, r, acks) := receive initFollower c.n c.cs c.e
    let a := if acks.isEmpty then "-" else ",".intercalate (acks.map showAck)
    s!"res={showRes r} acks={a} {showFollower c.n f}\t{",".intercalate (caseTags c r)}"

/-! ### Monitor C17: all-or-nothing judged on the implementation's output -/

def monitorC17 (case out : String) : String :=
  if case.startsWith "loader|" then (if out == loaderFacts then "ok" else "bad sender-chunks-malformed") else
  match parseCase case with
  | none => "bad-case"
  | some c =>
    -- `key=value` fields separated by spaces; values may contain '='
    let fs : List (String × String) := (out.splitOn " ").filterMap fun kv =>
      match kv.splitOn "=" with
      | k :: v :: rest => some (k, "=".intercalate (v :: rest))
      | _ => none
    match lookup fs "res", lookup fs "sm", lookup fs "la", lookup fs "dir" with
    | some res, some sm, some la, some dir =>
      let entries := dir.splitOn ","
      let untouchedFiles := entries.filter (· ≠ "part") == ["final:1-1=OLD"]
      let untouchedSm := sm == "9=9" && la == "1.1"
      if res == "ok" then
        match exact c.cs c.e with
        | none => "bad accepted-inexact-stream"
        | some (label, content) =>
          if !(sm == "1=1,2=2,3=3" && la == s!"{label.1}.{label.2}") then "bad ok-but-state-not-replaced"
          else if !entries.contains s!"final:{label.1}-{label.2}={showContent c.n (.toks content)}" then "bad final-file-not-the-concatenation"
          else if label != oldLabel && !entries.contains "final:1-1=OLD" then "bad other-final-file-touched"
          else "ok"
      else if !res.startsWith "err:" then s!"bad {res}"
      else if !untouchedSm then "bad state-changed-by-failed-transfer"
      else if !untouchedFiles then "bad failed-transfer-left-final-file"
      else "ok"
    | _, _, _, _ => s!"bad {out}"

def monitorLine (prop : String) (line : String) : String :=
  match line.splitOn "\t" with
  | [case, out] => if prop == "C17" then monitorC17 case out else "skip"
  | _ => "bad-line"

def main (args : List String) : IO UInt32 := do
  let stdin ← IO.getStdin
  let stdout ← IO.getStdout
  match args with
  | ["model"] => loop stdin stdout modelLine; return 0
  | ["monitor", p] => loop stdin stdout (monitorLine p); return 0
  | _ => IO.eprintln "usage: drv_snapstream model | monitor <prop>"; return 2
