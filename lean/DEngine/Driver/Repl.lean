import DEngine.Model.Proto
import DEngine.Model.Repl
open DEngine DEngine.Proto DEngine.Repl

/-! Line-protocol driver of family `repl` (cases `L …`, `F …|ops`, `R …`; see harness/src/bin/repl.rs).
    `model`: the model's prediction of the harness output line; `monitor Cnn`: the decidable predicates of
    Props/C08, C36, C07 (defined in Model/Repl.lean) evaluated on the IMPLEMENTATION's output. -/

-- ------------------------------------------------------------------------------------------- parsing
def parseEntry (s : String) : Option Entry :=
  match (s.splitOn ".").mapM String.toNat? with
  | some [i, t, p] => some { index := i, term := t, pay := p }
  | _ => none

def parseEntries (s : String) : Option (List Entry) :=
  if s == "-" || s.isEmpty then some [] else (s.splitOn ",").mapM parseEntry

def showEntries (es : List Entry) : String :=
  if es.isEmpty then "-" else ",".intercalate (es.map fun e => s!"{e.index}.{e.term}.{e.pay}")

/-- log built by the harness: entries 1..n with the given terms, payload 100+i, appended in one batch. -/
def logOfTerms (terms : List Nat) : Log :=
  appendE {} (terms.zipIdx.map fun (t, i) => { index := i + 1, term := t, pay := 101 + i })

def purgeLog (l : Log) (k : Nat) : Log :=
  if k > 0 then purgeTo l k ((l.entryTerm k).getD 0) else l

def parsePairs (s : String) : Option (List (Nat × Nat)) :=
  if s == "-" then some [] else
  (s.splitOn ",").mapM fun kv =>
    match (kv.splitOn ":").mapM String.toNat? with
    | some [a, b] => some (a, b)
    | _ => none

structure LCase where
  cap : Nat
  term : Nat
  commit : Nat
  me : Nat
  log : Log
  nextId : Nat
  new : Nat
  next : List (Nat × Nat)
  tg : List Nat

structure FCase where
  st : FState
  merge : Nat
  ops : List (List (Req × Nat))
  ldr : Option (List Entry)     -- the leader log the requests were cut from (generator), if given

inductive RCase
  | succ (lterm pterm : Nat) (m : Option (Nat × Nat))
  | conf (log : Log) (ct ci : Option Nat) (cur : Nat)

inductive Case
  | leader (c : LCase)
  | follower (c : FCase)
  | react (c : RCase)

def parseReq (s : String) : Option Req :=
  match s.splitOn "/" with
  | [t, l, p, pt, c, e] => do
    pure { term := ← t.toNat?, leader := ← l.toNat?, prev := ← p.toNat?, prevTerm := ← pt.toNat?,
           commit := ← c.toNat?, ents := ← parseEntries e }
  | _ => none

def optNat (s : String) : Option (Option Nat) :=
  if s == "-" then some none else s.toNat?.map some

def parseCase (line : String) : Option Case :=
  let (head, ops) := match line.splitOn "|" with
    | [h] => (h, "")
    | [h, o] => (h, o)
    | _ => (line, "")
  let fs := fields head
  let n := natField fs
  if head.startsWith "L " then do
    let terms ← natList (← lookup fs "log")
    let l := purgeLog (logOfTerms terms) (← n "purge")
    pure (.leader { cap := ← n "cap", term := ← n "term", commit := ← n "commit", me := ← n "me", log := l,
                    nextId := terms.length + 1, new := ← n "new", next := ← parsePairs (← lookup fs "next"),
                    tg := ← natList (← lookup fs "tg") })
  else if head.startsWith "F " then do
    let terms ← natList (← lookup fs "log")
    let l := purgeLog (logOfTerms terms) (← n "purge")
    let opl ← (if ops.isEmpty then some [] else
      ((ops.splitOn ";").filter (· ≠ "")).mapM fun op => (op.splitOn "+").mapM fun r => (parseReq r).map (·, 1))
    let ldr := ((lookup fs "ldr").bind natList).map fun ts => (logOfTerms ts).ents
    pure (.follower { st := { term := ← n "term", commit := ← n "commit", log := l }, merge := ← n "merge", ops := opl, ldr := ldr })
  else if head.startsWith "R " then do
    let k ← lookup fs "ack"
    if k == "s" then
      let mi ← optNat (← lookup fs "mi")
      pure (.react (.succ (← n "lterm") (← n "pterm") (mi.map fun i => (i, (n "mt").getD 0))))
    else
      let terms ← natList (← lookup fs "log")
      pure (.react (.conf (logOfTerms terms) (← optNat (← lookup fs "ct")) (← optNat (← lookup fs "ci")) (← n "cur")))
  else none

-- ------------------------------------------------------------------------------------------- running
def insertSorted (p : Nat × List Entry) : List (Nat × List Entry) → List (Nat × List Entry)
  | [] => [p]
  | q :: qs => if p.1 ≤ q.1 then p :: q :: qs else q :: insertSorted p qs

def sortById (l : List (Nat × List Entry)) : List (Nat × List Entry) := l.foldr insertSorted []

def showReq (id : Nat) (r : Req) : String :=
  s!"{id}:{r.prev}:{r.prevTerm}:{r.commit}:{r.term}:{r.leader}:{specNext r}:{showEntries r.ents}"

def runLeader (c : LCase) : String × List String :=
  let pays := (List.range c.new).map (· + 901)
  let r := prepare c.log c.nextId c.cap c.term c.commit c.me c.next c.tg pays
  let reqs := r.2.1.filterMap fun (id, q) => q.map (showReq id)
  let snaps := r.2.1.filterMap fun (id, q) => if q.isNone then some id else none
  let raws := (sortById (r.2.2.filter fun p => !p.2.isEmpty)).map fun (id, es) => s!"{id}:{showNatList (es.map (·.index))}"
  let tags := r.2.1.flatMap fun (id, q) =>
    match q with
    | none => ["snapshot-target"]
    | some q =>
      let raw := ((r.2.2.find? (·.1 == id)).map (·.2)).getD []
      [if (lookupNext c.next id).isNone then "no-next-index" else "has-next-index",
       if q.ents.length < raw.length then "run-truncated" else "run-whole",
       if q.ents.isEmpty then "req-empty" else "req-entries",
       if q.prev == 0 && q.prevTerm == 0 then "prev-virtual" else "prev-real"]
  (s!"last={r.1.lastIdx} first={r.1.firstIdx} reqs={if reqs.isEmpty then "-" else "|".intercalate reqs} snap={showNatList snaps} raw={if raws.isEmpty then "-" else "/".intercalate raws}",
   tags.eraseDups)

def showId (m : Option (Nat × Nat)) : String :=
  match m with | some (i, t) => s!"{i}.{t}" | none => "-"
def showOpt (o : Option Nat) : String := match o with | some x => toString x | none => "-"

def showAck : Ack → String
  | .success t m => s!"s.{t}.{showId m}"
  | .conflict t ct ci => s!"c.{t}.{showOpt ct}.{showOpt ci}"
  | .higher t => s!"h.{t}.{t}"

def showState (acks : List Ack) (st : FState) : String :=
  s!"{",".intercalate (acks.map showAck)}@{st.term}@{st.commit}@{st.log.firstIdx}.{st.log.lastIdx}@{showEntries st.log.ents}"

def runFollower (c : FCase) : String × List String :=
  let step := fun (acc : FState × List String × List String) (q : List (Req × Nat)) =>
    let r := processQ c.merge acc.1 q
    (r.1, acc.2.1 ++ [showState r.2.1 r.1], acc.2.2 ++ r.2.2)
  let r := c.ops.foldl step (c.st, [], [])
  (if r.2.1.isEmpty then "-" else ";".intercalate r.2.1, r.2.2.eraseDups)

def runReact : RCase → String × String
  | .succ lterm pterm m =>
    match onSuccess pterm lterm m with
    | none => ("higher-term", "succ-higher-term")
    | some (mi, nx) => (s!"ok {mi} {nx} true", "succ-ok")
  | .conf l ct ci cur =>
    (s!"ok - {onConflict l ct ci cur} false",
     match ct, ci with
     | some t, some _ => if (l.lastIndexForTerm t).isSome then "conf-term-found" else "conf-term-missing"
     | none, some _ => "conf-index-only"
     | _, _ => "conf-fallback")


-- ------------------------------------------------------------------------------------------ monitors
/-- first failing signature wins; `ok` if at least one check was evaluated; otherwise `skip`. -/
structure Verdict where
  bad : Option String := none
  judged : Bool := false

def Verdict.check (v : Verdict) (hyp : Bool) (holds : Bool) (sig : String) : Verdict :=
  if v.bad.isSome || !hyp then v
  else if holds then { v with judged := true } else { v with bad := some sig, judged := true }

def Verdict.render (v : Verdict) : String :=
  match v.bad with
  | some s => s!"bad {s}"
  | none => if v.judged then "ok" else "skip"

def parseId (s : String) : Option (Option (Nat × Nat)) :=
  if s == "-" then some none else
  match (s.splitOn ".").mapM String.toNat? with
  | some [i, t] => some (some (i, t))
  | _ => none

def parseAck (s : String) : Option Ack :=
  match s.splitOn "." with
  | ["s", t, "-"] => do pure (.success (← t.toNat?) none)
  | ["s", t, i, u] => do pure (.success (← t.toNat?) (some (← i.toNat?, ← u.toNat?)))
  | ["c", t, ct, ci] => do pure (.conflict (← t.toNat?) (← optNat ct) (← optNat ci))
  | ["h", t, _] => do pure (.higher (← t.toNat?))
  | _ => none

structure Obs where
  acks : List Ack
  term : Nat
  commit : Nat
  first : Nat
  last : Nat
  ents : List Entry

def parseObs (s : String) : Option Obs :=
  match s.splitOn "@" with
  | [a, t, c, fl, e] => do
    let fl2 ← (fl.splitOn ".").mapM String.toNat?
    match fl2 with
    | [f, l] => pure { acks := ← (a.splitOn ",").mapM parseAck, term := ← t.toNat?, commit := ← c.toNat?,
                       first := f, last := l, ents := ← parseEntries e }
    | _ => none
  | _ => none

/-- A `Log` value for entries observed on the implementation: purge boundary from the case, TermSegments
    atomics as `on_append` computes them for these entries appended to an empty log. -/
def canonLog (ents : List Entry) (pIdx pTerm : Nat) : Log :=
  { appendE {} ents with pIdx := pIdx, pTerm := pTerm }

structure LReqObs where
  id : Nat
  req : Req
  spec : Nat

def parseLReq (s : String) : Option LReqObs :=
  match s.splitOn ":" with
  | [id, p, pt, c, t, ld, sp, e] => do
    pure { id := ← id.toNat?, spec := ← sp.toNat?,
           req := { term := ← t.toNat?, leader := ← ld.toNat?, prev := ← p.toNat?, prevTerm := ← pt.toNat?,
                    commit := ← c.toNat?, ents := ← parseEntries e } }
  | _ => none

def parseLOut (out : String) : Option (Nat × Nat × List LReqObs) := do
  let fs := fields out
  let reqs ← lookup fs "reqs"
  let rl ← (if reqs == "-" then some [] else (reqs.splitOn "|").mapM parseLReq)
  pure (← natField fs "last", ← natField fs "first", rl)

/-- observations of the implementation per op, paired with the state before the op (as observed). -/
def fObs (c : FCase) (out : String) : Option (List (FState × List (Req × Nat) × Obs)) := do
  let obs ← (if out == "-" then some [] else (out.splitOn ";").mapM parseObs)
  if obs.length != c.ops.length then none
  let pI := c.st.log.pIdx
  let pT := c.st.log.pTerm
  let befores := c.st :: obs.map fun o => { term := o.term, commit := o.commit, log := canonLog o.ents pI pT }
  pure ((befores.zip c.ops).zip obs |>.map fun ((b, q), o) => (b, q, o))

def monitorC08 : Case → String → String
  | .leader c, out =>
    match parseLOut out with
    | none => "bad unparsable-output"
    | some (lastAfter, firstAfter, reqs) =>
      let lastBefore := c.log.lastIdx
      let v := reqs.foldl (fun (v : Verdict) (o : LReqObs) =>
        let v := v.check true o.req.contig "request-gapped"
        match lookupNext c.next o.id with
        | none => v
        | some nx =>
          let hasWork := (decide (firstAfter ≤ nx) && decide (1 ≤ firstAfter) && decide (nx ≤ lastBefore)) ||
                         (nx == c.nextId && decide (c.new > 0))
          let v := v.check (c.log.wf && decide (1 ≤ c.cap) && hasWork)
                     (match o.req.ents.head? with | some e => e.index == nx | none => false) "request-stalled"
          v.check (c.log.wf && hasWork && decide (c.nextId == lastBefore + 1 || lastBefore == 0 && nx == c.nextId) &&
                    !(decide (nx ≤ lastBefore) && decide (lastBefore - nx ≥ c.cap)))
                  (o.req.ents.length == lastAfter + 1 - nx) "request-incomplete") {}
      v.render
  | .follower c, out =>
    match fObs c out with
    | none => "bad unparsable-output"
    | some rows =>
      let v := rows.foldl (fun (v : Verdict) (row : FState × List (Req × Nat) × Obs) =>
        let b := row.1
        let q := row.2.1
        let o := row.2.2
        let after := canonLog o.ents b.log.pIdx b.log.pTerm
        let pre := b.log.wf && q.all (fun p => p.1.contig)
        -- a prev=(0,0) request inside the queue resets a PURGED follower log but `reset_internal` keeps the old purge
        -- boundary, so a later request anchored at that stale boundary is accepted above the restarted log: the
        -- resulting gap is the reset defect (finding F9b), not a conflict-append regression.
        let resetOnPurged := b.log.pIdx != 0 && q.any (fun p => p.1.prev == 0 && p.1.prevTerm == 0)
        let v := v.check pre (gapFree after.ents)
                   (if resetOnPurged then "gap-after-reset-on-purged-log" else "follower-log-gapped")
        match q, o.acks with
        | [(r, _)], [a] =>
          let v := v.check (pre && a.isSuccess && !(r.prev == 0 && r.prevTerm == 0))
                     (agreeKept b.log r.prev r.ents after) "agreeing-entries-discarded"
          v.check (pre && a.isSuccess && (r.prev == 0 && r.prevTerm == 0) && !r.ents.isEmpty)
                     (agreeKept b.log r.prev r.ents after) "reset-discards-agreeing-suffix"
        | _, _ => v) {}
      v.render
  | .react _, _ => "skip"

/-- one merged group covering the whole op? then compare the implementation with `processSeq`. -/
def monitorC36 : Case → String → String
  | .follower c, out =>
    match fObs c out with
    | none => "bad unparsable-output"
    | some rows =>
      let v := rows.foldl (fun (v : Verdict) (row : FState × List (Req × Nat) × Obs) =>
        let b := row.1
        let o := row.2.2
        match row.2.1 with
        | [] => v
        | [_] => v
        | (r, k) :: rest =>
          let after := canonLog o.ents b.log.pIdx b.log.pTerm
          let sq := processSeq b ((r, k) :: rest)
          if noMerge c.merge r rest then
            -- nothing is merged: literally the same acks and state
            let v := v.check b.log.wf (o.acks == sq.2) "unmerged-ack-differs"
            v.check b.log.wf (o.ents == sq.1.log.ents && o.commit == sq.1.commit && o.term == sq.1.term) "unmerged-state-differs"
          else if mergeable c.merge b r rest then
            let first := (stepReq b r).2
            if first.isSuccess then
              -- `merge_equiv` (full strength since fix F50): log, term, commit index, ackEquiv
              let v := v.check true (after.ents == sq.1.log.ents) "merge-log-differs"
              let v := v.check true (o.term == sq.1.term) "merge-term-differs"
              let v := v.check true (o.commit == sq.1.commit) "merge-commit-differs"
              v.check true (ackEquiv o.acks sq.2) "merge-ack-differs"
            else
              -- first request rejected: every sender gets that rejection, state as after that one request
              let s1 := stepReq b r
              let v := v.check true (o.acks.all (· == s1.2)) "merge-reject-ack-differs"
              v.check true (after.ents == s1.1.log.ents && o.commit == s1.1.commit && o.term == s1.1.term) "merge-reject-state-differs"
          else v) {}
      v.render
  | _, _ => "skip"

def monitorC07 : Case → String → String
  | .follower c, out =>
    match fObs c out with
    | none => "bad unparsable-output"
    | some rows =>
      let v := rows.foldl (fun (v : Verdict) (row : FState × List (Req × Nat) × Obs) =>
        let b := row.1
        let o := row.2.2
        match row.2.1, o.acks with
        | [(r, _)], [a] =>
          let after := canonLog o.ents b.log.pIdx b.log.pTerm
          let acc := a.isSuccess
          -- follower_commit_eq / follower_commit_unchanged: max(commit, min(leader_commit, prev + len))
          let v := v.check acc (o.commit == max b.commit (min r.commit (r.prev + r.ents.length))) "commit-not-min-of-covered"
          let v := v.check (!acc) (o.commit == b.commit) "commit-changed-without-cause"
          -- follower_commit_mono (unconditional)
          let v := v.check true (decide (b.commit ≤ o.commit)) "commit-regressed"
          -- follower_commit_le_last
          let v := v.check (acc && b.log.wf && segOK b.log && r.contig && termsMono r.ents &&
                            (!r.ents.isEmpty || decide (r.prev ≤ b.log.lastIdx)))
                     (decide (o.commit ≤ max b.commit after.lastIdx)) "commit-beyond-log"
          match c.ldr with
          | none => v
          | some ldr =>
            -- CutOK of Props/C07 evaluated on the implementation's observed state
            let hyp := acc && b.log.wf && segOK b.log && r.contig && termsMono r.ents &&
                       r.ents.all (fun e => findE ldr e.index == some e) && logMatching b.log.ents ldr &&
                       agreeRange b.log.ents ldr b.log.pIdx r.prev
            let v := v.check hyp (agreeRange after.ents ldr b.log.pIdx (r.prev + r.ents.length)) "accepted-prefix-mismatch"
            -- follower_commit_matches (no tail hypothesis since fix F50)
            v.check (hyp && decide (b.commit < o.commit)) (agreeRange after.ents ldr b.log.pIdx o.commit) "commit-covers-mismatch"
        | _, _ => v) {}
      v.render
  | _, _ => "skip"

def modelLine (line : String) : String :=
  match parseCase line with
  | none => "bad-case\t-"
  | some (.leader c) => let r := runLeader c; s!"{r.1}\t{",".intercalate r.2}"
  | some (.follower c) => let r := runFollower c; s!"{r.1}\t{",".intercalate r.2}"
  | some (.react c) => let r := runReact c; s!"{r.1}\t{r.2}"

def monitorLine (prop : String) (line : String) : String :=
  match line.splitOn "\t" with
  | [case, out] =>
    match parseCase case with
    | none => "bad-case"
    | some c =>
      if prop == "C08" then monitorC08 c out
      else if prop == "C36" then monitorC36 c out
      else if prop == "C07" then monitorC07 c out
      else "skip"
  | _ => "bad-line"

def main (args : List String) : IO UInt32 := do
  let stdin ← IO.getStdin
  let stdout ← IO.getStdout
  match args with
  | ["model"] => loop stdin stdout modelLine; return 0
  | ["monitor", p] => loop stdin stdout (monitorLine p); return 0
  | _ => IO.eprintln "usage: drv_repl model | monitor <prop>"; return 2
