import DEngine.Model.Proto
import DEngine.Model.BufLog
import DEngine.Model.BufLogMon
open DEngine DEngine.Proto DEngine.BufLog

/-! Line-protocol driver of the `buflog` family (see harness/src/bin/buflog.rs for the case language). -/

def runModel (c : Case) : String × List String :=
  let s0 : Sys := { keepBoundary := true, file := if c.sim || c.rocks then none else some {} }
  let rec go (s : Sys) (ops : List Op) (acc : List String) (tags : List String) (fuel : Nat) : Option (List String × List String) :=
    match fuel, ops with
    | 0, _ => some (acc.reverse, tags.reverse)
    | _, [] => some (acc.reverse, tags.reverse)
    | fuel + 1, op :: rest =>
      let (s', r, tag) := execOp s op
      go s' rest ((showRes r ++ " " ++ showSnap c.sim s') :: acc) (tag :: tags) fuel
  match go s0 c.ops [] [] (c.ops.length + 1) with
  | none => ("panic", ["panic"])
  | some (recs, tags) => (";".intercalate recs, tags)

def modelLine (line : String) : String :=
  match parseCase line with
  | none => "bad-case\t-"
  | some c =>
    let (out, tags) := runModel c
    out ++ "\t" ++ ",".intercalate tags.eraseDups

def monitorLine (prop : String) (line : String) : String :=
  match line.splitOn "\t" with
  | [case, out] =>
    match parseCase case with
    | none => "skip"
    | some c =>
      if prop == "C19" then monitorC19 c out
      else if prop == "C18" then monitorC18 c out
      else "skip"
  | _ => "bad-line"

def main (args : List String) : IO UInt32 := do
  let stdin ← IO.getStdin
  let stdout ← IO.getStdout
  match args with
  | ["model"] => loop stdin stdout modelLine; return 0
  | ["monitor", p] => loop stdin stdout (monitorLine p); return 0
  | _ => IO.eprintln "usage: drv_buflog model | monitor <prop>"; return 2
