import DEngine.Model.Proto
import DEngine.Model.KvCrash
/-
  Driver of family `kvcrash` (C15).
  case   : `eng=<file|rocks> cp=<j>|op;op;…`   ops: a:<cmd>  ckpt  flush  reopen  tick
           cmd: put,k,v,ttl|-  del,k  cas,k,exp|-,new  noop ; crash at the j-th crash point (last if beyond)
  output : `cp=<name> n=<entries started> la=<recovered applied index> rec=<kv> fin=<kv after re-apply>`
-/
open DEngine DEngine.Proto DEngine.MiniKv DEngine.KvCrash

def parseCmd (s : String) : Option Cmd :=
  match s.splitOn "," with
  | ["put", k, v, t] => do pure (.put (← k.toNat?) (← v.toNat?) (← parseOpt t))
  | ["del", k] => do pure (.del (← k.toNat?))
  | ["cas", k, e, v] => do pure (.cas (← k.toNat?) (← parseOpt e) (← v.toNat?))
  | ["noop"] => some .noop
  | _ => none

def parseOp (s : String) : Option Op :=
  if s == "ckpt" then some .ckpt
  else if s == "flush" then some .flush
  else if s == "reopen" then some .reopen
  else if s == "tick" then some .tick
  else match s.splitOn ":" with
    | ["a", c] => (parseCmd c).map .apply
    | _ => none

structure Case where
  eng : Eng
  cp : Nat
  ops : List Op

def parseCase (line : String) : Option Case :=
  match line.splitOn "|" with
  | [hd, body] => do
    let fs := fields hd
    let eng ← match lookup fs "eng" with
      | some "file" => some Eng.file
      | some "rocks" => some Eng.rocks
      | _ => none
    let cp ← natField fs "cp"
    let ops ← (if body.isEmpty then some [] else (body.splitOn ";").mapM parseOp)
    pure { eng, cp, ops }
  | _ => none

def cmdsOf (ops : List Op) : List Cmd := ops.filterMap fun o => match o with | .apply c => some c | _ => none

def modelLine (line : String) : String :=
  match parseCase line with
  | none => "bad-case\t-"
  | some c =>
    match crashAt c.eng c.ops c.cp with
    | none => "noimage\tnoimage"
    | some v =>
      let cmds := cmdsOf c.ops
      let tags :=
        [v.cp,
         if v.la == v.n then "index-current" else "index-behind",
         if sameKvB v.recKv (ref cmds v.la) then "consistent" else "inconsistent",
         if sameKvB v.fin (ref cmds v.n) then "exactly-once" else "reapply-differs"] ++
        (if ((cmds.take v.n).drop v.la).any (fun c => match c with | .cas .. => true | _ => false)
          then ["cas-reapplied"] else [])
      s!"cp={v.cp} n={v.n} la={v.la} rec={showMap "=" v.recKv} fin={showMap "=" v.fin}\t{",".intercalate tags}"

def outFields (s : String) : List (String × String) :=
  (s.splitOn " ").filterMap fun tok =>
    match tok.splitOn "=" with
    | k :: v :: rest => some (k, "=".intercalate (v :: rest))
    | _ => none

def parseMap (s : String) : Option AMap :=
  if s == "-" then some []
  else (s.splitOn ",").mapM fun kv =>
    match kv.splitOn "=" with
    | [k, v] => do pure ((← k.toNat?), (← v.toNat?))
    | _ => none

def engName : Eng → String
  | .file => "file"
  | .rocks => "rocks"

/-- C15 on the implementation's output: (1) after restart + re-application of (la, n] the contents are
those of applying 1..n exactly once; (2) the recovered contents are those of applying 1..la. -/
def monitorC15 (c : Case) (out : String) : String :=
  if out == "noimage" then "skip" else
  let fs := outFields out
  match lookup fs "cp", (lookup fs "n").bind String.toNat?, (lookup fs "la").bind String.toNat?,
        (lookup fs "rec").bind parseMap, (lookup fs "fin").bind parseMap with
  | some cp, some n, some la, some rec, some fin =>
    let cmds := cmdsOf c.ops
    let torn := cp == "persist_data:truncated" || cp == "persist_metadata:truncated"
    if la > n then s!"bad applied-index-ahead-{engName c.eng}"
    -- nothing left to re-apply, yet the contents are not those of entries 1..la: effects are missing
    else if la == n && !torn && !(sameKvB rec (ref cmds n)) then s!"bad data-behind-applied-index-{engName c.eng}"
    else if !(sameKvB fin (ref cmds n)) then
      if torn then "bad checkpoint-torn-file" else s!"bad reapply-changes-state-{engName c.eng}"
    else if !(sameKvB rec (ref cmds la)) then
      if torn then "bad checkpoint-torn-file" else s!"bad applied-index-behind-data-{engName c.eng}"
    else "ok"
  | _, _, _, _, _ => if out == "panic" then "bad panic" else "bad impl-output-unparseable"

def monitorLine (prop : String) (line : String) : String :=
  match line.splitOn "\t" with
  | [case, out] =>
    match parseCase case with
    | none => "bad-case"
    | some c => if prop == "C15" then monitorC15 c out else "skip"
  | _ => "bad-line"

def main (args : List String) : IO UInt32 := do
  let stdin ← IO.getStdin
  let stdout ← IO.getStdout
  match args with
  | ["model"] => loop stdin stdout modelLine; return 0
  | ["monitor", p] => loop stdin stdout (monitorLine p); return 0
  | _ => IO.eprintln "usage: drv_kvcrash model | monitor <prop>"; return 2
