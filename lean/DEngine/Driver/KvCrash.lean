def main (_args : List String) : IO UInt32 := do
  IO.eprintln "stub"; return 2
